/-
  C20 — hash helpers equal their definitions; the chained multi-hasher is a streaming hash.

  The hash functions are abstract: a stage is ANY implementation of `hash.Hash` that satisfies the
  one law `Stage.Lawful` (digest after any writes on a fresh state = `H` of the concatenation), and
  `sum256` is any function.  The theorems are about the constructions of /repo/bhash built from
  them; that Go's SHA-256/SHA-512/RIPEMD-160 compute the functions of `Prim/` is what the
  correspondence run compares on every length 0..300 and on 10^6-byte strings.

  All statements hold for every non-empty chain, every history of calls and every byte string.
  Before the D11 repair (commit 1e22873) `multihasher_refines_stream` was false
  (`d11_old_code_did_not_refine`).
-/
import BtcVerif.Props.GuardPins.P_bhash
import BtcVerif.Proofs.MultiHasher

namespace BtcVerif.Props.C20
open BtcVerif BtcVerif.Model.MultiHasher BtcVerif.Proofs.MultiHasher
open BtcVerif.Spec.MultiHasher (Op Out Algo chain chainDigest lastSize firstBlockSize streamAfter)

/-- the chain a list of stages computes, as the specification sees it -/
abbrev algos (stages : List Stage) : List Algo := stages.map Stage.algo

/-- **Refinement.** For every non-empty chain of lawful stages and every history of calls, the
    model of `bhash.MultiHasher` answers exactly like the streaming-hash specification, which keeps
    only the bytes written since the last reset and answers `Sum b = b ‖ H_k(… H_1(stream))`. -/
theorem multihasher_refines_stream (stages : List Stage) (hne : stages ≠ [])
    (hl : ∀ S ∈ stages, S.Lawful) (ops : List Op) :
    run stages ops = .ok (Spec.MultiHasher.run (algos stages) ops) :=
  run_refines stages hne hl ops

/-- never a panic, never an error on a constructed hasher -/
theorem multihasher_no_panic (stages : List Stage) (hne : stages ≠ [])
    (hl : ∀ S ∈ stages, S.Lawful) (ops : List Op) : (run stages ops).isOk = true := by
  rw [run_refines stages hne hl ops]; rfl

/-- **Sum does not change state, Sum(b) = b ‖ digest, the digest depends only on the bytes written
    since the last reset.** Deleting a `Sum(b)` anywhere in a history deletes exactly its own
    answer; that answer is `b` followed by the chained hash of `streamAfter [] pre`. -/
theorem sum_does_not_change_state (stages : List Stage) (hne : stages ≠ [])
    (hl : ∀ S ∈ stages, S.Lawful) (pre post : List Op) (b : Bytes) :
    ∃ o1 o2, o1.length = pre.length ∧
      run stages (pre ++ post) = .ok (o1 ++ o2) ∧
      run stages (pre ++ .sum b :: post) =
        .ok (o1 ++ .digest (b ++ chainDigest (algos stages) (streamAfter [] pre)) :: o2) := by
  refine ⟨Spec.MultiHasher.runFrom (algos stages) [] pre,
    Spec.MultiHasher.runFrom (algos stages) (streamAfter [] pre) post,
    runFrom_length (algos stages) [] pre, ?_, ?_⟩
  · rw [run_refines stages hne hl, (spec_sum_pure (algos stages) pre post b).2]
  · rw [run_refines stages hne hl, (spec_sum_pure (algos stages) pre post b).1]

/-- repeating Sum gives the same digest -/
theorem sum_idempotent (stages : List Stage) (hne : stages ≠ []) (hl : ∀ S ∈ stages, S.Lawful)
    (pre : List Op) (b : Bytes) :
    ∃ o d, o.length = pre.length ∧
      run stages (pre ++ [.sum b, .sum b]) = .ok (o ++ [.digest d, .digest d]) := by
  refine ⟨Spec.MultiHasher.runFrom (algos stages) [] pre,
    b ++ chainDigest (algos stages) (streamAfter [] pre), runFrom_length (algos stages) [] pre, ?_⟩
  rw [run_refines stages hne hl, (spec_sum_pure (algos stages) pre [.sum b] b).1]
  simp [Spec.MultiHasher.runFrom, Spec.MultiHasher.step]

/-- a Write after a Sum continues the stream: the later digest is the one of the concatenation -/
theorem sum_then_write_continues (stages : List Stage) (hne : stages ≠ [])
    (hl : ∀ S ∈ stages, S.Lawful) (pre : List Op) (b1 b2 p : Bytes) :
    ∃ o d1, o.length = pre.length ∧
      run stages (pre ++ [.sum b1, .write p, .sum b2]) =
        .ok (o ++ [.digest d1, .wrote p.length,
          .digest (b2 ++ chainDigest (algos stages) (streamAfter [] pre ++ p))]) := by
  refine ⟨Spec.MultiHasher.runFrom (algos stages) [] pre,
    b1 ++ chainDigest (algos stages) (streamAfter [] pre), runFrom_length (algos stages) [] pre, ?_⟩
  rw [run_refines stages hne hl, (spec_sum_pure (algos stages) pre _ b1).1]
  simp [Spec.MultiHasher.runFrom, Spec.MultiHasher.step]

/-- the stream of a history that only writes is the concatenation of the chunks -/
theorem stream_of_writes (chunks : List Bytes) :
    streamAfter [] (chunks.map .write) = chunks.flatten := by
  simpa using streamAfter_writes [] chunks

/-- Reset restores the initial state: what follows answers like a fresh hasher -/
theorem reset_restores (stages : List Stage) (hne : stages ≠ []) (hl : ∀ S ∈ stages, S.Lawful)
    (pre post : List Op) :
    ∃ o1 o2, o1.length = pre.length ∧ run stages post = .ok o2 ∧
      run stages (pre ++ .reset :: post) = .ok (o1 ++ .unit :: o2) := by
  refine ⟨Spec.MultiHasher.runFrom (algos stages) [] pre, Spec.MultiHasher.run (algos stages) post,
    runFrom_length (algos stages) [] pre, run_refines stages hne hl post, ?_⟩
  rw [run_refines stages hne hl, spec_reset]

/-- Size is the output size of the last stage, BlockSize the block size of the first, at any
    point of any history -/
theorem size_blocksize (S0 : Stage) (Ss : List Stage) (hl : ∀ S ∈ S0 :: Ss, S.Lawful)
    (pre : List Op) :
    ∃ o, o.length = pre.length ∧
      run (S0 :: Ss) (pre ++ [.size, .blockSize]) =
        .ok (o ++ [.num ((S0 :: Ss).getLast (by simp)).size, .num S0.blockSize]) := by
  refine ⟨Spec.MultiHasher.runFrom (algos (S0 :: Ss)) [] pre,
    runFrom_length (algos (S0 :: Ss)) [] pre, ?_⟩
  rw [run_refines _ (by simp) hl, Spec.MultiHasher.run, runFrom_append]
  have hls : ∀ (l : List Stage) (h : l ≠ []), lastSize (l.map Stage.algo) = (l.getLast h).size := by
    intro l
    induction l with
    | nil => intro h; exact absurd rfl h
    | cons a t ih =>
      intro h
      cases t with
      | nil => simp [lastSize, Stage.algo]
      | cons b t' =>
        have := ih (by simp)
        simp only [List.map_cons, lastSize] at this ⊢
        rw [List.getLast_cons (by simp)]
        exact this
  simp only [Spec.MultiHasher.runFrom, Spec.MultiHasher.step, hls (S0 :: Ss) (by simp)]
  simp [firstBlockSize, Stage.algo]

/-- the length of a `Sum(nil)` answer is `Size()` when the last stage's function has that output
    length (which `hash.Hash` promises) -/
theorem sum_nil_length (stages : List Stage) (S : Stage) (hl : ∀ T ∈ stages ++ [S], T.Lawful)
    (hsize : ∀ x, (S.H x).length = S.size) (pre : List Op) :
    ∃ o d, run (stages ++ [S]) (pre ++ [.sum []]) = .ok (o ++ [.digest d]) ∧ d.length = S.size := by
  refine ⟨Spec.MultiHasher.runFrom (algos (stages ++ [S])) [] pre,
    [] ++ chainDigest (algos (stages ++ [S])) (streamAfter [] pre), ?_, ?_⟩
  · rw [run_refines _ (by simp) hl, Spec.MultiHasher.run, runFrom_append]
    simp only [Spec.MultiHasher.runFrom, Spec.MultiHasher.step]
  · have : ∀ (l : List Stage) (x : Bytes),
        (chain ((l ++ [S]).map (·.algo.H)) x).length = S.size := by
      intro l
      induction l with
      | nil => intro x; simp [chain, Stage.algo, hsize]
      | cons a t ih => intro x; simpa [chain] using ih _
    simpa [chainDigest, algos, Function.comp_def] using this stages _

/-- the chain sha256 → sha256 fed in arbitrary chunks computes `DoubleSha256` of the
    concatenation (the transaction digests of /repo/tx/sighash.go are built this way) -/
theorem dsha256_eq_chain (S : Stage) (hS : S.Lawful) (chunks : List Bytes) (b : Bytes) :
    run [S, S] (chunks.map .write ++ [.sum b]) =
      .ok (chunks.map (fun c => Out.wrote c.length) ++
        [.digest (b ++ doubleSha256 S.H chunks.flatten)]) := by
  rw [run_refines _ (by simp) (by intro T hT; simp at hT; subst hT; exact hS),
    Spec.MultiHasher.run, runFrom_append, runFrom_writes, streamAfter_writes]
  simp [Spec.MultiHasher.runFrom, Spec.MultiHasher.step, chainDigest, chain, Stage.algo,
    doubleSha256, sha256]

/-- the chain sha256 → ripemd160 computes HASH160 -/
theorem hash160_eq_chain (S R : Stage) (hS : S.Lawful) (hR : R.Lawful) (chunks : List Bytes)
    (b : Bytes) :
    run [S, R] (chunks.map .write ++ [.sum b]) =
      .ok (chunks.map (fun c => Out.wrote c.length) ++
        [.digest (b ++ Spec.MultiHasher.hash160 S.H R.H chunks.flatten)]) := by
  rw [run_refines _ (by simp) (by intro T hT; simp at hT; rcases hT with h | h <;> subst h <;> assumption),
    Spec.MultiHasher.run, runFrom_append, runFrom_writes, streamAfter_writes]
  simp [Spec.MultiHasher.runFrom, Spec.MultiHasher.step, chainDigest, chain, Stage.algo,
    Spec.MultiHasher.hash160]

/-! ### the helper functions equal their definitions -/

theorem doubleSha256_eq_def (sum256 : Bytes → Bytes) (data : Bytes) :
    doubleSha256 sum256 data = Spec.MultiHasher.doubleSha256 sum256 data := rfl

/-- `Ripemd160` (New, Write, Sum into a 20-byte array) is the function of the stage -/
theorem ripemd160_eq_def (R : Stage) (hR : R.Lawful) (h20 : ∀ x, (R.H x).length = 20)
    (data : Bytes) : ripemd160 R data = R.H data := by
  rw [ripemd160_eq R hR, copyArr_of_length _ _ (h20 data)]

theorem hash160_eq_def (sum256 : Bytes → Bytes) (R : Stage) (hR : R.Lawful)
    (h20 : ∀ x, (R.H x).length = 20) (data : Bytes) :
    hash160 sum256 R data = Spec.MultiHasher.hash160 sum256 R.H data := by
  simp [hash160, ripemd160_eq_def R hR h20, Spec.MultiHasher.hash160, sha256]

/-- the tagged hasher (streaming writes of the hashed tag twice, then every chunk) computes
    `sha256(sha256(tag) ‖ sha256(tag) ‖ chunks…)` -/
theorem taggedHash_eq_def (sum256 : Bytes → Bytes) (S : Stage) (hS : S.Lawful)
    (hH : S.H = sum256) (tag : Bytes) (chunks : List Bytes) :
    taggedHash sum256 S tag chunks = Spec.MultiHasher.taggedHash sum256 tag chunks := by
  rw [taggedHash_eq sum256 S hS, hH]; rfl

/-- the chain refused by `NewMultiHasher` (no stages): a nil pointer, every call panics -/
theorem empty_chain_panics (op : Op) (ops : List Op) : run [] (op :: ops) = .panic := by
  simp [run_nil]

/-- D11: the code before the repair did not satisfy the refinement statement -/
theorem d11_old_code_did_not_refine :
    ¬ ∀ (stages : List Stage), stages ≠ [] → (∀ S ∈ stages, S.Lawful) → ∀ ops,
      Old.run stages ops = .ok (Spec.MultiHasher.run (algos stages) ops) := old_not_refines

/-! ### non-vacuity: the stages the oracle runs are lawful, and a concrete history -/

example : ∀ S ∈ [sha256Stage, sha512Stage, ripemd160Stage], S.Lawful := by
  intro S hS
  simp at hS
  rcases hS with h | h | h <;> subst h
  · exact sha256Stage_lawful
  · exact sha512Stage_lawful
  · exact ripemd160Stage_lawful

example : [sha256Stage, sha512Stage, ripemd160Stage] ≠ [] := by simp

/-- on the toy stage (identity "hash") the repaired code repeats the digest and keeps the prefix -/
example : run [toy, toy] [.write [1], .sum [], .sum [9], .write [2], .sum [], .reset, .sum [], .size]
    = .ok [.wrote 1, .digest [1], .digest [9, 1], .wrote 1, .digest [1, 2], .unit, .digest [],
           .num 1] := by decide

end BtcVerif.Props.C20
