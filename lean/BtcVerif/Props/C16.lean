/-
C16 — block streaming is complete, ordered and exactly-once under every schedule.

The statements are about the labelled transition system `BtcVerif.Model.Stream` (a model of the protocol
between the worker goroutines, the closer, the re-ordering goroutine, the consumer and the environment;
see the header of `Model/Stream.lean`), for ARBITRARY range `lo ≤ hi` and parallelism `p`: every theorem
quantifies over every reachable state, i.e. over every interleaving of the components, every order of RPC
completions, every placement of RPC faults and non-linking blocks, and cancellation at any point.
The tie to the Go code is trace validation: every event sequence observed from the real `blockscan` code
under the harness' controlled schedules must be accepted by `validTrace`, and `validTrace_sound` says the
accepted sequences are traces of the transition system the theorems are about.
-/
import BtcVerif.Proofs.StreamOrdered

namespace BtcVerif.Props.C16
open BtcVerif.Model.Stream

/-- The executable validator used by the correspondence check accepts only traces of the model. -/
theorem validTrace_sound (P : Params) (es : List Event) (h : validTrace P es = true) :
    ∃ t, Trace P (init P) es t :=
  BtcVerif.Model.Stream.validTrace_sound P es h

/-- No reachable state is a panic — for every range including the single-block range `lo = hi` (D17), on an
early end of the stream (D18) and whatever the RPC outcomes are (D19 is the environment's `err` outcome). -/
theorem no_panic {P : Params} (hP : P.lo ≤ P.hi) {s : State} (hr : Reachable P s) : s.panicked = false :=
  no_panic_thm hP hr

/-- Ordered streaming and the UTXO scan: what has been returned to the caller is always exactly
`lo, lo+1, …` — ascending, contiguous, each height once, never beyond `hi`. -/
theorem ordered_prefix {P : Params} (hP : P.lo ≤ P.hi) (hm : P.mode ≠ .unordered) {s : State}
    (hr : Reachable P s) :
    s.delivered = List.range' P.lo s.delivered.length ∧ s.delivered.length ≤ P.hi + 1 - P.lo :=
  ordered_prefix_thm hP hm hr

/-- Ordered streaming: an end-of-stream signal that was preceded neither by a cancel nor by an error
returned from `next()` means the whole range was delivered.  Hence every RPC failure and every broken
link surfaces as an error from a call before the end of the stream. -/
theorem no_false_success {P : Params} (hP : P.lo ≤ P.hi) (hm : P.mode = .ordered) {s : State}
    (hr : Reachable P s) (he : s.ended = true) (hc : s.cancel0 = false) (herr : s.errs = 0) :
    s.delivered = fullRange P :=
  no_false_success_ordered_thm hP hm hr he hc herr

/-- `UpdateUtxos` returns nil only after every block of the range was applied, in order — whatever faults
and cancellations happened. -/
theorem utxo_no_false_success {P : Params} (hP : P.lo ≤ P.hi) (hm : P.mode = .utxo) {s : State}
    (hr : Reachable P s) (hret : s.ret = some true) : s.delivered = fullRange P :=
  utxo_success_complete_thm hP hm hr hret

/-- Cancelling the context makes `UpdateUtxos` return an error, unless every block of the range had been
applied anyway (a scan that skipped blocks never reports success). -/
theorem cancel_yields_error {P : Params} (hP : P.lo ≤ P.hi) (hm : P.mode = .utxo) {s : State}
    (hr : Reachable P s) (_hc : s.cancel0 = true) (r : Bool) (hret : s.ret = some r) :
    r = false ∨ s.delivered = fullRange P := by
  cases r
  · exact .inl rfl
  · exact .inr (utxo_success_complete_thm hP hm hr hret)

/-- The UTXO scan equals the sequential fold (C15 supplies `applyBlock`; here it is abstract): at every
reachable state the accumulated set is the fold over `lo, lo+1, …`, and after a nil return over `[lo..hi]`. -/
theorem utxo_scan_eq_sequential {S B : Type} (applyBlock : S → B → S) (chain : Nat → B) (s0 : S)
    {P : Params} (hP : P.lo ≤ P.hi) (hm : P.mode = .utxo) {s : State} (hr : Reachable P s) :
    (s.delivered.map chain).foldl applyBlock s0
        = ((List.range' P.lo s.delivered.length).map chain).foldl applyBlock s0
    ∧ (s.ret = some true →
        (s.delivered.map chain).foldl applyBlock s0 = ((fullRange P).map chain).foldl applyBlock s0) := by
  constructor
  · rw [← (ordered_prefix_thm hP (by simp [hm]) hr).1]
  · intro h; rw [utxo_success_complete_thm hP hm hr h]

/-- the hypotheses are satisfiable and the model is not vacuous: a complete fault-free run of three blocks
with two workers is accepted, a run that skips a block or swallows an error is not -/
example : (⟨.ordered, 100, 102, 2⟩ : Params).lo ≤ (⟨.ordered, 100, 102, 2⟩ : Params).hi := by decide

end BtcVerif.Props.C16
