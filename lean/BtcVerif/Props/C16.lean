/-
C16 — block streaming is complete, ordered and exactly-once under every schedule.

The statements are about the labelled transition system `BtcVerif.Model.Stream` (a model of the protocol
between the worker goroutines, the closer, the re-ordering goroutine, the consumer and the environment;
see the header of `Model/Stream.lean`), for ARBITRARY range `lo ≤ hi` and parallelism `p`: every theorem
quantifies over every reachable state, i.e. over every interleaving of the components, every order of RPC
completions, every placement of RPC faults and non-linking blocks, and cancellation at any point.
The tie to the Go code is trace validation: every event sequence observed from the real `blockscan` code
under the harness' controlled schedules must be accepted by `validTrace`, and `validTrace_sound` says the
accepted sequences are traces of the transition system the theorems are about.
-/
import BtcVerif.Props.GuardPins.P_blockscan
import BtcVerif.Proofs.StreamOrdered
import BtcVerif.Proofs.StreamUnordered
import BtcVerif.Proofs.StreamVariant
import BtcVerif.Proofs.StreamComplete
import BtcVerif.Proofs.Reorder
import BtcVerif.Proofs.ReorderComplete
import BtcVerif.Model.Rpc

namespace BtcVerif.Props.C16
open BtcVerif.Model.Stream

/-- The executable validator used by the correspondence check accepts only traces of the model. -/
theorem validTrace_sound (P : Params) (es : List Event) (h : validTrace P es = true) :
    ∃ t, Trace P (init P) es t :=
  BtcVerif.Model.Stream.validTrace_sound P es h

/-- No reachable state is a panic — for every range including the single-block range `lo = hi` (D17), on an
early end of the stream (D18) and whatever the RPC outcomes are (D19 is the environment's `err` outcome). -/
theorem no_panic {P : Params} (hP : P.lo ≤ P.hi) {s : State} (hr : Reachable P s) : s.panicked = false :=
  no_panic_thm hP hr

/-- Ordered streaming and the UTXO scan: what has been returned to the caller is always exactly
`lo, lo+1, …` — ascending, contiguous, each height once, never beyond `hi`. -/
theorem ordered_prefix {P : Params} (hP : P.lo ≤ P.hi) (hm : P.mode ≠ .unordered) {s : State}
    (hr : Reachable P s) :
    s.delivered = List.range' P.lo s.delivered.length ∧ s.delivered.length ≤ P.hi + 1 - P.lo :=
  ordered_prefix_thm hP hm hr

/-- Ordered streaming: an end-of-stream signal that was preceded neither by a cancel nor by an error
returned from `next()` means the whole range was delivered.  Hence every RPC failure and every broken
link surfaces as an error from a call before the end of the stream. -/
theorem no_false_success {P : Params} (hP : P.lo ≤ P.hi) (hm : P.mode = .ordered) {s : State}
    (hr : Reachable P s) (he : s.ended = true) (hc : s.cancel0 = false) (herr : s.errs = 0) :
    s.delivered = fullRange P :=
  no_false_success_ordered_thm hP hm hr he hc herr

/-- Unordered streaming never delivers a height twice and never a height outside the range; and an
end-of-stream signal preceded neither by a cancel nor by an error means that the delivered heights are a
permutation of `[lo..hi]` (for parallelism ≥ 1). -/
theorem unordered_exactly_once {P : Params} (hP : P.lo ≤ P.hi) (hm : P.mode = .unordered) {s : State}
    (hr : Reachable P s) :
    (s.delivered.Nodup ∧ ∀ h ∈ s.delivered, P.lo ≤ h ∧ h ≤ P.hi) ∧
    (0 < P.p → s.ended = true → s.cancel0 = false → s.errs = 0 → s.delivered.Perm (fullRange P)) :=
  ⟨unordered_exactly_once_thm hP hm hr, fun hp he hc herr => unordered_complete_thm hP hm hp hr he hc herr⟩

/-- `UpdateUtxos` returns nil only after every block of the range was applied, in order — whatever faults
and cancellations happened. -/
theorem utxo_no_false_success {P : Params} (hP : P.lo ≤ P.hi) (hm : P.mode = .utxo) {s : State}
    (hr : Reachable P s) (hret : s.ret = some true) : s.delivered = fullRange P :=
  utxo_success_complete_thm hP hm hr hret

/-- Cancelling the context makes `UpdateUtxos` return an error, unless every block of the range had been
applied anyway (a scan that skipped blocks never reports success). -/
theorem cancel_yields_error {P : Params} (hP : P.lo ≤ P.hi) (hm : P.mode = .utxo) {s : State}
    (hr : Reachable P s) (_hc : s.cancel0 = true) (r : Bool) (hret : s.ret = some r) :
    r = false ∨ s.delivered = fullRange P := by
  cases r
  · exact .inl rfl
  · exact .inr (utxo_success_complete_thm hP hm hr hret)

/-- The UTXO scan equals the sequential fold (C15 supplies `applyBlock`; here it is abstract): at every
reachable state the accumulated set is the fold over `lo, lo+1, …`, and after a nil return over `[lo..hi]`. -/
theorem utxo_scan_eq_sequential {S B : Type} (applyBlock : S → B → S) (chain : Nat → B) (s0 : S)
    {P : Params} (hP : P.lo ≤ P.hi) (hm : P.mode = .utxo) {s : State} (hr : Reachable P s) :
    (s.delivered.map chain).foldl applyBlock s0
        = ((List.range' P.lo s.delivered.length).map chain).foldl applyBlock s0
    ∧ (s.ret = some true →
        (s.delivered.map chain).foldl applyBlock s0 = ((fullRange P).map chain).foldl applyBlock s0) := by
  constructor
  · rw [← (ordered_prefix_thm hP (by simp [hm]) hr).1]
  · intro h; rw [utxo_success_complete_thm hP hm hr h]

/-- The consumer is never blocked for ever (1/2): in every reachable state in which the consumer has not
finished — it is inside `next()`, or inside `UpdateUtxos` — some component can move, and not merely the
environment's cancel: there is no deadlock, for any range, parallelism, fault placement or cancellation.
(RPC completions count as steps: the node is assumed to answer every request, with an error if need be;
the choice among ready `select` cases is assumed fair — the residue named in DESIGN.md.) -/
theorem consumer_progress {P : Params} (hP : P.lo ≤ P.hi) {s : State} (hr : Reachable P s)
    (hc : s.cph ≠ .finished) : ∃ l s', Step P s l s' ∧ l ≠ some .cancel :=
  consumer_progress_thm hP hr hc

/-- The consumer is never blocked for ever (2/2), termination: `variant` strictly decreases with every step
of every component, so no run from a reachable state is longer than the variant of that state.  With
`consumer_progress`: every maximal run is finite and ends with the consumer finished. -/
theorem variant_decreases {P : Params} (hP : P.lo ≤ P.hi) {s : State} {l : Label} {s' : State}
    (hr : Reachable P s) (hst : Step P s l s') : variant P s' < variant P s :=
  BtcVerif.Model.Stream.variant_decreases hP hr hst

theorem runs_are_finite {P : Params} (hP : P.lo ≤ P.hi) {s t : State} {n : Nat} (hr : Reachable P s)
    (h : Run P s n t) : n + variant P t ≤ variant P s :=
  run_bounded hP hr h

/-- Ordered streaming is complete: a state reached WITHOUT any fault (no failing RPC, no non-linking block)
and without a cancel (`ReachableNF`), in which nothing but a cancel can happen any more (the end of a maximal
run), has delivered exactly `[lo..hi]` in ascending order, has returned no error, and has signalled the end of
the stream — for every range, every parallelism `p ≥ 1` and every interleaving.  (For `p = 0` the Go code
starts no worker and reports a broken link; the property quantifies over `p ≥ 1`.)  The core is
`no_spurious_link_error`: in such a run the re-orderer never observes the closed worker queues while a block
is still missing, because every height of `(cur, hi]` is not yet handed over, buffered, or being sent. -/
theorem ordered_complete {P : Params} (hP : P.lo ≤ P.hi) (hm : P.mode = .ordered) (hp : 0 < P.p) {s : State}
    (hr : ReachableNF P s) (hterm : ∀ l s', Step P s l s' → l = some .cancel) :
    s.delivered = fullRange P ∧ s.ended = true ∧ s.errs = 0 :=
  ordered_complete_thm hP hm hp hr hterm

/-- The UTXO scan is complete: at the end of a maximal run without fault and without cancel `UpdateUtxos`
has returned nil and has applied exactly `[lo..hi]` in order (so by `utxo_scan_eq_sequential` the set equals
the sequential fold over the range). -/
theorem utxo_complete {P : Params} (hP : P.lo ≤ P.hi) (hm : P.mode = .utxo) (hp : 0 < P.p) {s : State}
    (hr : ReachableNF P s) (hterm : ∀ l s', Step P s l s' → l = some .cancel) :
    s.ret = some true ∧ s.delivered = fullRange P :=
  utxo_complete_thm hP hm hp hr hterm

/-- Unordered streaming is complete: at the end of a maximal run without fault and without cancel the
delivered heights are a permutation of `[lo..hi]`, no error was returned and the end was signalled. -/
theorem unordered_complete {P : Params} (hP : P.lo ≤ P.hi) (hm : P.mode = .unordered) (hp : 0 < P.p) {s : State}
    (hr : ReachableNF P s) (hterm : ∀ l s', Step P s l s' → l = some .cancel) :
    s.delivered.Perm (fullRange P) ∧ s.ended = true ∧ s.errs = 0 :=
  unordered_complete_nf_thm hP hm hp hr hterm

/-- Complete or error: a maximal run of ordered streaming (with any faults) that saw no cancel and in which
`next()` returned no error has delivered exactly `[lo..hi]` and signalled the end. -/
theorem ordered_complete_or_error {P : Params} (hP : P.lo ≤ P.hi) (hm : P.mode = .ordered) {s : State}
    (hr : Reachable P s) (hterm : ∀ l s', Step P s l s' → l = some .cancel)
    (hc : s.cancel0 = false) (herr : s.errs = 0) :
    s.delivered = fullRange P ∧ s.ended = true := by
  have hfin : s.cph = .finished := by
    by_cases h : s.cph = .finished
    · exact h
    · obtain ⟨l, s', hst, hl⟩ := consumer_progress_thm hP hr h
      exact absurd (hterm l s' hst) hl
  have he : s.ended = true := (reachable_inv5 hP hr).fe (by simp [hm]) hfin
  exact ⟨no_false_success_ordered_thm hP hm hr he hc herr, he⟩

/-! ### the conditions inside the goroutines' function literals

`Gen/Guards.lean` holds, regenerated from the source on every run, one function per condition of the
function literals of `streamBlocks`, `streamBlocksUnordered` and `newNextBlockFunc` (the re-ordering
goroutine, the workers, the consumer's `next`).  The transition system writes these conditions by hand
(its `cur` is Go's `currentHeight + 1`); the theorems below say that what it writes IS what the code
says.  A change of one of these conditions in the source breaks the corresponding theorem. -/

open BtcVerif.Gen.Guards in
/-- head of the re-ordering loop, `for currentHeight < toHeight` (stream_blocks.go) -/
theorem reorderer_loop_head (P : Params) (s : State) (c : Nat) (hc : s.cur = c + 1) :
    loopHead P s =
      if blockscan_BlockScanner_streamBlocks_lit0_1 (currentHeight := c) (toHeight := P.hi)
      then { s with rph := .loop } else exitX s := by
  simp only [loopHead, blockscan_BlockScanner_streamBlocks_lit0_1, hc, Nat.add_one_le_iff, decide_eq_true_eq]

open BtcVerif.Gen.Guards in
/-- `if fromHeight == toHeight` after the first block (the D17 repair): no workers for a single-block range -/
theorem single_block_branch (P : Params) (s : State) (good : Bool) :
    afterFirst P s good =
      if blockscan_BlockScanner_streamBlocks_lit0_0 (fromHeight := P.lo) (toHeight := P.hi)
      then { s with latestOk := good, rph := .s0 }
      else if blockscan_BlockScanner_streamBlocksUnordered_0 (toHeight := P.hi) (fromHeight := P.lo + 1)
      then { s with latestOk := good, panicked := true }
      else { s with latestOk := good, rph := .s0, workers := initWorkers P true, started := true } := by
  simp only [afterFirst, blockscan_BlockScanner_streamBlocks_lit0_0, decide_eq_true_eq]

open BtcVerif.Gen.Guards in
/-- a worker returns when `nBlockToGet > toHeight` (stream_blocks_unordered.go), at its first height and
after every block it has handed over -/
theorem worker_exit_condition (P : Params) :
    (∀ w, advance P w =
      { pos := w.pos + P.p,
        ph := if blockscan_BlockScanner_streamBlocksUnordered_lit0_0 (nBlockToGet := w.pos + P.p) (toHeight := P.hi)
              then .done else .next }) ∧
    (∀ i, initWorker P true i =
      { pos := P.base + i,
        ph := if blockscan_BlockScanner_streamBlocksUnordered_lit0_0 (nBlockToGet := P.base + i) (toHeight := P.hi)
              then .done else .next }) := by
  constructor
  · intro w
    simp only [advance, blockscan_BlockScanner_streamBlocksUnordered_lit0_0, gt_iff_lt, decide_eq_true_eq]
    by_cases h : w.pos + P.p ≤ P.hi
    · simp [h, Nat.not_lt.mpr h]
    · simp [h, Nat.lt_of_not_le h]
  · intro i
    simp only [initWorker, blockscan_BlockScanner_streamBlocksUnordered_lit0_0, gt_iff_lt, decide_eq_true_eq, if_true]
    by_cases h : P.base + i ≤ P.hi
    · simp [h, Nat.not_lt.mpr h]
    · simp [h, Nat.lt_of_not_le h]

open BtcVerif.Gen.Guards in
/-- the remaining conditions of the three function literals are plain tests of a received flag: closed
queues (`!more`, twice in the re-orderer, once in `next`), a block found under the latest hash (`ok`),
and `channelsClosed`; the model's steps `loop → rel` (closed ⇒ `closedSeen`), `rel` (`buf.contains cur`,
then `closedSeen ⇒ sendErr`) and `call → gotEnd` test exactly these flags -/
theorem flag_tests_pinned :
    (∀ b, blockscan_BlockScanner_streamBlocks_lit0_2 (more := b) = !b) ∧
    (∀ b, blockscan_BlockScanner_streamBlocks_lit0_3 (more := b) = !b) ∧
    (∀ b, blockscan_BlockScanner_streamBlocks_lit0_4 (ok := b) = b) ∧
    (∀ b, blockscan_BlockScanner_streamBlocks_lit0_5 (channelsClosed := b) = b) ∧
    (∀ b, blockscan_newNextBlockFunc_lit0_0 (more := b) = !b) :=
  ⟨fun _ => rfl, fun _ => rfl, fun _ => rfl, fun _ => rfl, fun _ => rfl⟩


/-! ### the ordering buffer as the map it is: blocks of other branches (`Model/Reorder.lean`)

The transition system above lets the node answer a height with that height's block, with an error, or with a
block that links to nothing.  Here the node may answer with ANY blocks — siblings that compete for a key of
`blocksByPrevHash`, repeats, blocks of another chain — in any order.  Whatever it serves, the re-ordering
goroutine ends without an error only after it has handed out exactly `toHeight − fromHeight` further blocks,
each naming its predecessor by hash, starting from the first block: a short or unlinked scan is never a
success. -/

open BtcVerif.Model.Reorder in
theorem reorderer_success_is_a_full_chain (fromHeight toHeight first : Nat) (evs : List Ev)
    (hdone : (run fromHeight toHeight first evs).res = .done) :
    Chain first (run fromHeight toHeight first evs).out ∧
    toHeight - fromHeight ≤ (run fromHeight toHeight first evs).out.length ∧
    (run fromHeight toHeight first evs).out.length ≤ blockCount evs := by
  have h := run_inv fromHeight toHeight first evs
  refine ⟨h.chain, ?_, ?_⟩
  · have := h.done hdone
    have := h.cur
    omega
  · have := h.bound
    omega

open BtcVerif.Model.Reorder in
/-- with one block per requested height (what the workers deliver), success means exactly the range -/
theorem reorderer_success_is_exactly_the_range (fromHeight toHeight first : Nat) (evs : List Ev)
    (hn : blockCount evs ≤ toHeight - fromHeight)
    (hdone : (run fromHeight toHeight first evs).res = .done) :
    (run fromHeight toHeight first evs).out.length = toHeight - fromHeight := by
  have := reorderer_success_is_a_full_chain fromHeight toHeight first evs hdone
  omega

open BtcVerif.Model.Reorder in
/-- **completeness**: the blocks of an honest node (block k of the range names block k−1), arriving in ANY order
— any permutation of the heights — and followed by anything (the closed queue), end in success with exactly
the range handed out in chain order.  Together with `reorderer_success_is_a_full_chain`: the ordering buffer
succeeds iff it has the chain. -/
theorem reorderer_complete (fromHeight m : Nat) (arrival : List Nat) (hperm : arrival.Perm (List.range' 1 m))
    (tail : List Ev) :
    (run fromHeight (fromHeight + m) 1 (arrival.map (fun k => Ev.blk (honest k)) ++ tail)).res = .done ∧
    (run fromHeight (fromHeight + m) 1 (arrival.map (fun k => Ev.blk (honest k)) ++ tail)).out =
      (List.range' 1 m).map honest :=
  run_complete fromHeight m arrival hperm tail

open BtcVerif.Model.Reorder in
/-- completeness, for every range: an honest node whose blocks arrive in their turn ends in success with the
whole range handed out (the other arrival orders are exercised by the correspondence, `reorder.run`) -/
theorem reorderer_in_order_complete (fromHeight m : Nat) :
    (run fromHeight (fromHeight + m) 1 ((List.range' 1 m).map (fun k => Ev.blk (honest k)))).res = .done ∧
    (run fromHeight (fromHeight + m) 1 ((List.range' 1 m).map (fun k => Ev.blk (honest k)))).out =
      (List.range' 1 m).map honest := by
  have h := foldl_in_order fromHeight (fromHeight + m) m 0 [] (by omega)
  simp only [Nat.zero_add, Nat.add_zero, List.nil_append] at h
  simp only [run, start]
  have h0 : ({ latest := 1, cur := fromHeight, buf := [], out := [], res := Res.running } : St) =
      { latest := 0 + 1, cur := fromHeight + 0, buf := [], out := [], res := Res.running } := by simp
  rw [h0] at *
  simp only [Nat.zero_add, Nat.add_zero] at *
  rw [h]
  simp [finish, BtcVerif.Gen.Guards.blockscan_BlockScanner_streamBlocks_lit0_1]

open BtcVerif.Model.Reorder in
/-- the theorem discriminates: the variant that stops counting heights (seeded change C16-R6A) reports success
after two of three blocks when the node serves a sibling of block 2 for height 3 while block 1 is outstanding;
the library's loop reports the broken link -/
theorem reorderer_without_counting_accepts_a_short_scan :
    let evs : List Ev := [.blk ⟨12, 11⟩, .blk ⟨93, 11⟩, .blk ⟨11, 10⟩, .closed]
    (runNoCount 100 10 evs).res = .done ∧ (runNoCount 100 10 evs).out.length = 2 ∧
    (run 100 103 10 evs).res = .err := by
  decide


/-! ### what counts as an RPC failure: the reply classification of `rpc.Connection` (`Model/Rpc.lean`)

"An RPC failure surfaces as an error" starts at the connection: the transition system above takes "the RPC
returned an error" as an environment event; these theorems say which replies are that event.  The conditions
are the regenerated guards of `RequestSetResult`. -/

open BtcVerif.Model.Rpc in
/-- a call returns nil only for a reply that is not a 401, parses, is not `null`, carries no error object and
carries a result: every other reply is an error (or the documented retry of an overloaded node) -/
theorem rpc_success_needs_a_result (r : Reply) (h : classify r = .ok) :
    r.status ≠ 401 ∧ r.body ≠ "Work queue depth exceeded" ∧ r.parseFails = false ∧ r.objNil = false ∧
    r.errorNil = true ∧ r.resultNil = false := by
  unfold classify at h
  simp only [BtcVerif.Gen.Guards.rpc_Connection_RequestSetResult_0, BtcVerif.Gen.Guards.rpc_Connection_RequestSetResult_1,
    BtcVerif.Gen.Guards.rpc_Connection_RequestSetResult_2, BtcVerif.Gen.Guards.rpc_Connection_RequestSetResult_3,
    BtcVerif.Gen.Guards.rpc_Connection_RequestSetResult_4, BtcVerif.Gen.Guards.rpc_Connection_RequestSetResult_5] at h
  by_cases h0 : r.status = 401
  · simp [h0] at h
  · by_cases h1 : r.body = "Work queue depth exceeded"
    · simp [h0, h1] at h
    · cases hp : r.parseFails <;> cases hn : r.objNil <;> cases he : r.errorNil <;> cases hr : r.resultNil <;>
        simp [h0, h1, hp, hn, he, hr] at h ⊢

open BtcVerif.Model.Rpc in
/-- the node's error object is what the caller gets, whatever the status code and whatever else the reply holds -/
theorem rpc_error_object_surfaces (r : Reply) (h0 : r.status ≠ 401) (h1 : r.body ≠ "Work queue depth exceeded")
    (hp : r.parseFails = false) (hn : r.objNil = false) (he : r.errorNil = false) : classify r = .rpcFailure := by
  unfold classify
  simp [BtcVerif.Gen.Guards.rpc_Connection_RequestSetResult_0, BtcVerif.Gen.Guards.rpc_Connection_RequestSetResult_1,
    BtcVerif.Gen.Guards.rpc_Connection_RequestSetResult_3, BtcVerif.Gen.Guards.rpc_Connection_RequestSetResult_4,
    h0, h1, hp, hn, he]

open BtcVerif.Model.Rpc in
/-- non-vacuity: an ordinary reply is a success, `null` and a null result are not -/
example : classify ⟨200, "{\"result\":5,\"error\":null,\"id\":1}", false, false, true, false⟩ = .ok ∧
    classify ⟨200, "null", false, true, true, true⟩ = .invalidFormat ∧
    classify ⟨200, "{\"result\":null,\"error\":null}", false, false, true, true⟩ = .invalidFormat ∧
    classify ⟨500, "{\"result\":null,\"error\":{\"code\":-8}}", false, false, false, true⟩ = .rpcFailure ∧
    classify ⟨401, "", true, true, true, true⟩ = .invalidCredentials := by decide

/-! ### non-vacuity: the hypotheses are satisfiable, the model runs, the validator discriminates -/

open BtcVerif.Model.Reorder in
/-- an honest node: three further blocks in any order of arrival end in success with the three blocks in chain order -/
example : (run 100 103 10 [.blk ⟨13, 12⟩, .blk ⟨11, 10⟩, .blk ⟨12, 11⟩]).res = .done ∧
    (run 100 103 10 [.blk ⟨13, 12⟩, .blk ⟨11, 10⟩, .blk ⟨12, 11⟩]).out = [⟨11, 10⟩, ⟨12, 11⟩, ⟨13, 12⟩] := by decide

example : (⟨.ordered, 100, 101, 2⟩ : Params).lo ≤ (⟨.ordered, 100, 101, 2⟩ : Params).hi := by decide
example : (⟨.utxo, 7, 7, 3⟩ : Params).lo ≤ (⟨.utxo, 7, 7, 3⟩ : Params).hi := by decide   -- single-block range
example (P : Params) : Reachable P (init P) := .init

/-- a complete fault-free ordered run of two blocks with two workers is a trace of the model … -/
example : validTrace ⟨.ordered, 100, 101, 2⟩
    [.req 100 .hash, .rsp 100 .hash .ok, .req 100 .block, .rsp 100 .block .ok, .deliver 100,
     .req 101 .hash, .rsp 101 .hash .ok, .req 101 .block, .rsp 101 .block .ok, .deliver 101, .endOfStream] = true := by
  decide +kernel

/-- … a run that signals the end after the first of two blocks is not … -/
example : validTrace ⟨.ordered, 100, 101, 2⟩
    [.req 100 .hash, .rsp 100 .hash .ok, .req 100 .block, .rsp 100 .block .ok, .deliver 100, .endOfStream] = false := by
  decide +kernel

/-- … nor is a run that swallows an RPC failure; with the error returned first it is. -/
example : validTrace ⟨.ordered, 100, 101, 2⟩ [.req 100 .hash, .rsp 100 .hash .err, .endOfStream] = false := by
  decide +kernel
example : validTrace ⟨.ordered, 100, 101, 2⟩ [.req 100 .hash, .rsp 100 .hash .err, .error, .endOfStream] = true := by
  decide +kernel

/-- a single-block scan (D17) and a cancelled scan (D18) return as the repaired code does -/
example : validTrace ⟨.utxo, 7, 7, 3⟩
    [.req 7 .hash, .rsp 7 .hash .ok, .req 7 .block, .rsp 7 .block .ok, .deliver 7, .utxoReturn true] = true := by
  decide +kernel
example : validTrace ⟨.utxo, 7, 8, 1⟩
    [.req 7 .hash, .rsp 7 .hash .ok, .req 7 .block, .rsp 7 .block .ok, .deliver 7, .cancel, .utxoReturn false] = true := by
  decide +kernel
example : validTrace ⟨.utxo, 7, 8, 1⟩
    [.req 7 .hash, .rsp 7 .hash .ok, .req 7 .block, .rsp 7 .block .ok, .deliver 7, .cancel, .utxoReturn true] = false := by
  decide +kernel

end BtcVerif.Props.C16
