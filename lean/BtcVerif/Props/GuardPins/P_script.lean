/-
  The set of conditions of one modelled package, as found in the unchanged repository (written by bin/mkpins).
  A model follows a CHANGED condition by itself (the regenerated guard has the same name); it does not follow a
  condition that is added to, or removed from, a function — an early return in front of the checks, a new
  fast path.  This theorem compares the regenerated index with the index the models were written against.
  (One module per package, so that a change in one package breaks the obligations of the properties that
  model that package and of no other.)
-/
import BtcVerif.Gen.GuardIndex

namespace BtcVerif.Props.GuardPins

theorem guards_script_pinned : BtcVerif.Gen.GuardIndex.guards_script = ["script_MakeOpReturn_0", "script_MakeP2MS_0", "script_MakeP2MS_1", "script_RedeemP2MS_0", "script_MakeP2PKHFromPublicKey_0", "script_IsP2PKH_0", "script_DecodeP2PKH_0", "script_IsP2SH_0", "script_DecodeP2SH_0", "script_MastBranch_Hash_0", "script_MastBranch_Hash_1", "script_MakeP2TR_0", "script_MakeP2WPKHFromPublicKey_0", "script_IsP2WPKH_0", "script_DecodeP2WPKH_0", "script_IsP2WSH_0", "script_DecodeP2WSH_0", "script_PushData_0", "script_PushData_1", "script_PushData_2", "script_PushData_3", "script_ReadData_0", "script_ReadData_1", "script_ReadData_2", "script_ReadData_3", "script_readBounded_0", "script_readBounded_1", "script_readBounded_2", "script_PushNumber_0", "script_PushNumber_1", "script_PushNumber_2", "script_PushNumber_asg0", "script_PushNumber_3", "script_PushNumber_4", "script_PushNumber_5", "script_PushNumber_6", "script_PushNumber_7", "script_ReadNumber_0", "script_ReadNumber_1", "script_ReadNumber_2", "script_ReadNumber_3", "script_ReadNumber_4", "script_ReadNumber_5", "script_ReadNumber_6", "script_ReadNumber_7", "script_ReadNumber_8", "script_ReadNumber_9", "script_ReadNumber_10", "script_ClassifyOutput_0", "script_ClassifyOutput_1", "script_ClassifyOutput_2", "script_ClassifyOutput_3", "script_parsePushIntOpCode_0", "script_parsePushIntOpCode_1", "script_parsePushIntOpCode_2", "script_Decompile_0", "script_Decompile_1", "script_Stackify_0", "script_Stackify_1", "script_StripOpCode_0", "script_StripOpCode_1", "script_StripOpCode_2"] := rfl

end BtcVerif.Props.GuardPins
