/-
  The set of conditions of one modelled package, as found in the unchanged repository (written by bin/mkpins).
  A model follows a CHANGED condition by itself (the regenerated guard has the same name); it does not follow a
  condition that is added to, or removed from, a function — an early return in front of the checks, a new
  fast path.  This theorem compares the regenerated index with the index the models were written against.
  (One module per package, so that a change in one package breaks the obligations of the properties that
  model that package and of no other.)
-/
import BtcVerif.Gen.GuardIndex

namespace BtcVerif.Props.GuardPins

theorem guards_bip38_pinned : BtcVerif.Gen.GuardIndex.guards_bip38 = ["bip38_prefixBytes_0", "bip38_encodeFlagByte_0", "bip38_encodeFlagByte_1", "bip38_encodeFlagByte_2", "bip38_Encrypt_0", "bip38_Decrypt_0", "bip38_Decrypt_1", "bip38_Decrypt_2", "bip38_Decrypt_3", "bip38_Decrypt_4", "bip38_decrypt_0", "bip38_decrypt_asg0", "bip38_encodeLotSequence_0", "bip38_encodeLotSequence_1", "bip38_EncryptIntermediateCode_0", "bip38_EncryptIntermediateCode_1", "bip38_EncryptIntermediateCode_2", "bip38_decryptECMult_0", "bip38_decryptECMult_asg0", "bip38_decryptECMult_asg1", "bip38_decryptECMult_1"] := rfl

end BtcVerif.Props.GuardPins
