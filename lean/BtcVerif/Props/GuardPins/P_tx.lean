/-
  The set of conditions of one modelled package, as found in the unchanged repository (written by bin/mkpins).
  A model follows a CHANGED condition by itself (the regenerated guard has the same name); it does not follow a
  condition that is added to, or removed from, a function — an early return in front of the checks, a new
  fast path.  This theorem compares the regenerated index with the index the models were written against.
  (One module per package, so that a change in one package breaks the obligations of the properties that
  model that package and of no other.)
-/
import BtcVerif.Gen.GuardIndex

namespace BtcVerif.Props.GuardPins

theorem guards_tx_pinned : BtcVerif.Gen.GuardIndex.guards_tx = ["tx_InputFromReader_0", "tx_inputFromReader_0", "tx_Input_WriteTo_0", "tx_Input_Clone_0", "tx_OutputFromReader_0", "tx_outputFromReader_0", "tx_Output_WriteTo_0", "tx_Output_Clone_0", "tx_Tx_Clone_0", "tx_Tx_Clone_1", "tx_Tx_Clone_2", "tx_Tx_Clone_3", "tx_Tx_SignatureHashForInput_asg0", "tx_Tx_SignatureHashForInput_asg1", "tx_Tx_SignatureHashForInput_asg2", "tx_Tx_SignatureHashForInput_0", "tx_Tx_SignatureHashForInput_1", "tx_Tx_SignatureHashForInput_2", "tx_Tx_SignatureHashForInput_3", "tx_Tx_SignatureHashForInput_4", "tx_Tx_SignatureHashForInput_5", "tx_Tx_SignatureHashForInput_6", "tx_Tx_SignatureHashForWitnessInput_asg0", "tx_Tx_SignatureHashForWitnessInput_asg1", "tx_Tx_SignatureHashForWitnessInput_asg2", "tx_Tx_SignatureHashForWitnessInput_0", "tx_Tx_SignatureHashForWitnessInput_1", "tx_Tx_SignatureHashForWitnessInput_2", "tx_Tx_SignatureHashForWitnessInput_3", "tx_FromReader_asg0", "tx_FromReader_0", "tx_FromReader_1", "tx_FromReader_2", "tx_FromReader_3", "tx_FromReader_4", "tx_FromReader_5", "tx_FromReader_6", "tx_Tx_size_0", "tx_Tx_size_1", "tx_Tx_serialize_0", "tx_Tx_serialize_1", "tx_Tx_serialize_2", "tx_Tx_canSerialize_0", "tx_Tx_canSerialize_1", "tx_Tx_canSerialize_2", "tx_Tx_canSerialize_3", "tx_Tx_canSerialize_4", "tx_Tx_canSerialize_5", "tx_WitnessFromReader_0", "tx_witnessFromReader_0", "tx_witnessFromReader_1", "tx_witnessFromReader_2", "tx_readBounded_0", "tx_readBounded_1", "tx_readBounded_2", "tx_Witness_WriteTo_0", "tx_Witness_Clone_0"] := rfl

end BtcVerif.Props.GuardPins
