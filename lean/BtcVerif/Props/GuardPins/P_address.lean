/-
  The set of conditions of one modelled package, as found in the unchanged repository (written by bin/mkpins).
  A model follows a CHANGED condition by itself (the regenerated guard has the same name); it does not follow a
  condition that is added to, or removed from, a function — an early return in front of the checks, a new
  fast path.  This theorem compares the regenerated index with the index the models were written against.
  (One module per package, so that a change in one package breaks the obligations of the properties that
  model that package and of no other.)
-/
import BtcVerif.Gen.GuardIndex

namespace BtcVerif.Props.GuardPins

theorem guards_address_pinned : BtcVerif.Gen.GuardIndex.guards_address = ["address_Make_0", "address_Make_1", "address_Make_2", "address_Make_3", "address_MakeFromHash_0", "address_MakeFromHash_1", "address_MakeFromHash_2", "address_MakeFromHash_3", "address_MakeFromHash_4", "address_MakeFromHash_5", "address_MakeFromHash_6", "address_DecodeBase58Address_0", "address_DecodeBase58Address_1", "address_DecodeBase58Address_2", "address_DecodeBech32Address_0", "address_Decode_0", "address_Decode_1", "address_Decode_2", "address_Decode_3", "address_Decode_4", "address_Decode_5", "address_MakeP2PKHFromPublicKey_0", "address_MakeP2WPKHFromPublicKey_0", "address_MakeP2WPKHFromHash_0", "address_MakeP2WSHFromHash_0"] := rfl

end BtcVerif.Props.GuardPins
