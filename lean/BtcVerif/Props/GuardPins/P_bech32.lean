/-
  The set of conditions of one modelled package, as found in the unchanged repository (written by bin/mkpins).
  A model follows a CHANGED condition by itself (the regenerated guard has the same name); it does not follow a
  condition that is added to, or removed from, a function — an early return in front of the checks, a new
  fast path.  This theorem compares the regenerated index with the index the models were written against.
  (One module per package, so that a change in one package breaks the obligations of the properties that
  model that package and of no other.)
-/
import BtcVerif.Gen.GuardIndex

namespace BtcVerif.Props.GuardPins

theorem guards_bech32_pinned : BtcVerif.Gen.GuardIndex.guards_bech32 = ["bech32_init_0", "bech32_bech32Polymod_0", "bech32_bech32Polymod_1", "bech32_bech32CreateChecksum_0", "bech32_bech32VerifyChecksum_0", "bech32_Validate_0", "bech32_Validate_1", "bech32_Validate_2", "bech32_Validate_3", "bech32_Validate_4", "bech32_bechToBitGroups_0", "bech32_Decode_0", "bech32_Decode_1", "bech32_Decode_2", "bech32_encodeValues_0", "bech32_encodeValues_1", "bech32_Encode_0", "bech32_Encode_1", "bech32_Encode_2"] := rfl

end BtcVerif.Props.GuardPins
