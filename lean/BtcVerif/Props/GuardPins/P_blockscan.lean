/-
  The set of conditions of one modelled package, as found in the unchanged repository (written by bin/mkpins).
  A model follows a CHANGED condition by itself (the regenerated guard has the same name); it does not follow a
  condition that is added to, or removed from, a function — an early return in front of the checks, a new
  fast path.  This theorem compares the regenerated index with the index the models were written against.
  (One module per package, so that a change in one package breaks the obligations of the properties that
  model that package and of no other.)
-/
import BtcVerif.Gen.GuardIndex

namespace BtcVerif.Props.GuardPins

theorem guards_blockscan_pinned : BtcVerif.Gen.GuardIndex.guards_blockscan = ["blockscan_BlockScanner_GetBlockByHeight_0", "blockscan_newNextBlockFunc_lit0_0", "blockscan_BlockScanner_streamBlocks_0", "blockscan_BlockScanner_streamBlocks_lit0_0", "blockscan_BlockScanner_streamBlocks_lit0_1", "blockscan_BlockScanner_streamBlocks_lit0_2", "blockscan_BlockScanner_streamBlocks_lit0_3", "blockscan_BlockScanner_streamBlocks_lit0_4", "blockscan_BlockScanner_streamBlocks_lit0_5", "blockscan_BlockScanner_streamBlocksUnordered_0", "blockscan_BlockScanner_streamBlocksUnordered_1", "blockscan_BlockScanner_streamBlocksUnordered_lit0_0", "blockscan_BlockScanner_UpdateUtxos_0", "blockscan_BlockScanner_UpdateUtxos_1", "blockscan_BlockScanner_UpdateUtxos_2"] := rfl

end BtcVerif.Props.GuardPins
