/-
  The set of conditions of one modelled package, as found in the unchanged repository (written by bin/mkpins).
  A model follows a CHANGED condition by itself (the regenerated guard has the same name); it does not follow a
  condition that is added to, or removed from, a function — an early return in front of the checks, a new
  fast path.  This theorem compares the regenerated index with the index the models were written against.
  (One module per package, so that a change in one package breaks the obligations of the properties that
  model that package and of no other.)
-/
import BtcVerif.Gen.GuardIndex

namespace BtcVerif.Props.GuardPins

theorem guards_rpc_pinned : BtcVerif.Gen.GuardIndex.guards_rpc = ["rpc_NewConnection_0", "rpc_Connection_RequestSetResult_0", "rpc_Connection_RequestSetResult_1", "rpc_Connection_RequestSetResult_2", "rpc_Connection_RequestSetResult_3", "rpc_Connection_RequestSetResult_4", "rpc_Connection_RequestSetResult_5", "rpc_ReadCookieFile_0", "rpc_ReadCookieFile_1", "rpc_readDataDirConfigParam_0", "rpc_ErrRPCFailure_Error_0"] := rfl

end BtcVerif.Props.GuardPins
