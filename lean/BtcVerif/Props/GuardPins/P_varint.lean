/-
  The set of conditions of one modelled package, as found in the unchanged repository (written by bin/mkpins).
  A model follows a CHANGED condition by itself (the regenerated guard has the same name); it does not follow a
  condition that is added to, or removed from, a function — an early return in front of the checks, a new
  fast path.  This theorem compares the regenerated index with the index the models were written against.
  (One module per package, so that a change in one package breaks the obligations of the properties that
  model that package and of no other.)
-/
import BtcVerif.Gen.GuardIndex

namespace BtcVerif.Props.GuardPins

theorem guards_varint_pinned : BtcVerif.Gen.GuardIndex.guards_varint = ["varint_FromReader_0", "varint_FromReader_1", "varint_FromReader_2", "varint_FromNumber_0", "varint_VarInt_Size_0", "varint_VarInt_Size_1", "varint_VarInt_Size_2", "varint_VarInt_WriteTo_0", "varint_VarInt_WriteTo_1", "varint_VarInt_WriteTo_2", "varint_VarInt_WriteTo_3"] := rfl

end BtcVerif.Props.GuardPins
