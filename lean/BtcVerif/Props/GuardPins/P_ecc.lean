/-
  The set of conditions of one modelled package, as found in the unchanged repository (written by bin/mkpins).
  A model follows a CHANGED condition by itself (the regenerated guard has the same name); it does not follow a
  condition that is added to, or removed from, a function — an early return in front of the checks, a new
  fast path.  This theorem compares the regenerated index with the index the models were written against.
  (One module per package, so that a change in one package breaks the obligations of the properties that
  model that package and of no other.)
-/
import BtcVerif.Gen.GuardIndex

namespace BtcVerif.Props.GuardPins

theorem guards_ecc_pinned : BtcVerif.Gen.GuardIndex.guards_ecc = ["ecc_equal_0", "ecc_equal_1", "ecc_equal_2", "ecc_isEven_0", "ecc_GetPublicKey_0", "ecc_IsCompressedPublicKey_0", "ecc_SumPrivateKeys_0", "ecc_SumPublicKeys_0", "ecc_SignECDSA_0", "ecc_SignECDSA_1", "ecc_VerifyECDSA_0", "ecc_VerifyECDSA_1", "ecc_SignSchnorr_0", "ecc_SignSchnorr_1", "ecc_SignSchnorr_2", "ecc_SignSchnorr_3", "ecc_SignSchnorr_4", "ecc_SignSchnorr_5", "ecc_SignSchnorr_6", "ecc_VerifySchnorr_0", "ecc_VerifySchnorr_1", "ecc_VerifySchnorr_2", "ecc_VerifySchnorr_3", "ecc_VerifySchnorr_4", "ecc_VerifySchnorr_5", "ecc_curveYValues_0", "ecc_DeserializePoint_0", "ecc_DeserializePoint_1", "ecc_DeserializePoint_2", "ecc_DeserializePoint_3", "ecc_DeserializePoint_4", "ecc_DeserializePoint_5", "ecc_DeserializePoint_6", "ecc_DeserializePoint_7", "ecc_DeserializePoint_8", "ecc_SerializePoint_0"] := rfl

end BtcVerif.Props.GuardPins
