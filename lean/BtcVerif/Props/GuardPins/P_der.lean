/-
  The set of conditions of one modelled package, as found in the unchanged repository (written by bin/mkpins).
  A model follows a CHANGED condition by itself (the regenerated guard has the same name); it does not follow a
  condition that is added to, or removed from, a function — an early return in front of the checks, a new
  fast path.  This theorem compares the regenerated index with the index the models were written against.
  (One module per package, so that a change in one package breaks the obligations of the properties that
  model that package and of no other.)
-/
import BtcVerif.Gen.GuardIndex

namespace BtcVerif.Props.GuardPins

theorem guards_der_pinned : BtcVerif.Gen.GuardIndex.guards_der = ["der_mostSignificantBitFlipped_0", "der_hasExtraNullBytes_0", "der_DecodeSignature_0", "der_DecodeSignature_1", "der_DecodeSignature_2", "der_DecodeSignature_3", "der_DecodeSignature_4", "der_DecodeSignature_5", "der_DecodeSignature_6", "der_DecodeSignature_7", "der_DecodeSignature_8", "der_DecodeSignature_9", "der_DecodeSignature_10", "der_DecodeSignature_11", "der_DecodeSignature_12", "der_EncodeBigInt_0", "der_CheckEncodableBigInt_0", "der_EncodeSignature_0"] := rfl

end BtcVerif.Props.GuardPins
