/-
  C07 — BIP32 derivation matches the standard; public and private derivation commute.

  All theorems are about the model `Model/Bip32.lean` of /repo/bip32 over
    * an ARBITRARY record of curve operations `C` satisfying the named hypotheses `SecpGroup`
      (commutative group, `k ↦ k·G` a homomorphism, `G` of order exactly `n ≤ 2^256`) and
      `PointCodec` (fixed widths; `DeserializePoint` inverts both serialisations away from
      infinity) — `Proofs/GroupAbs.lean`, shown satisfiable by the toy instance `toy`;
    * an ARBITRARY function `hmac` in place of HMAC-SHA512 of which only `HmacLen` (64-byte output)
      is used.
  The executable instance (`Model.secp` + `Prim.hmacSha512`) is what the correspondence run
  compares with the Go code.

  About the BIP32 "skip" case (`I_L ≥ n` or child `= 0`, probability < 2^-127): the Go code does
  not detect it (it reduces mod n and carries on), and neither does the model. For a *single*
  step the commutation theorem therefore needs no such hypothesis. It is needed — and stated
  explicitly as `noSkip` — for *paths* (an intermediate public key at infinity does not parse),
  and for agreement with the standard (`*_matches_bip32`: the standard's result must be defined).
-/
import BtcVerif.Props.GuardPins.P_bip32
import BtcVerif.Proofs.Bip32

namespace BtcVerif.Props.C07
open BtcVerif BtcVerif.Model BtcVerif.Model.Bip32 BtcVerif.Proofs BtcVerif.Proofs.Bip32

variable {P : Type} {C : CurveOps P} {hmac : Bytes → Bytes → Bytes}

/-- Public and private derivation commute: for a valid parent key `k`, every chain code and every
    non-hardened index, deriving publicly from the parent's public key — in the compressed *or* the
    uncompressed encoding — yields the compressed public key of the privately derived child and the
    same chain code. (False before the D16 repair for the uncompressed encoding.) -/
theorem ckd_commute (S : SecpGroup C) (E : PointCodec C) (hl : HmacLen hmac) (k c : Bytes) (i : Nat)
    (hk : isValidScalar C.n (beNat k) = true) (hi : i < 2 ^ 31) :
    ∃ k' c', ckdPriv C hmac k c i = .ok (k', c') ∧
      ckdPub C hmac (C.compress (C.mulG (beNat k))) c i = .ok (C.compress (C.mulG (beNat k')), c') ∧
      ckdPub C hmac (C.uncompress (C.mulG (beNat k))) c i = .ok (C.compress (C.mulG (beNat k')), c') := by
  have hk' := hk
  simp only [isValidScalar, Bool.and_eq_true, decide_eq_true_eq] at hk'
  have hlt : beNat k < 2 ^ 256 := Nat.lt_of_lt_of_le hk'.2 S.n_le
  have hne := S.mulG_valid_ne_zero hk
  obtain ⟨k1, c1, h1, h2⟩ := ckd_commute_gen S hl k c _ i hlt hi (E.parse_compress _ hne)
  obtain ⟨k2, c2, h3, h4⟩ := ckd_commute_gen S hl k c _ i hlt hi (E.parse_uncompress _ hne)
  rw [h1] at h3
  injection h3 with h3; injection h3 with ha hb
  subst ha hb
  exact ⟨k1, c1, h1, h2, h4⟩

/-- the same for *any* byte string the library parses to the parent's public point (this covers
    the 32-byte x-only form of a key with even y as well) -/
theorem ckd_commute_any_encoding (S : SecpGroup C) (hl : HmacLen hmac) (k c K : Bytes) (i : Nat)
    (hk : beNat k < 2 ^ 256) (hi : i < 2 ^ 31) (hp : C.parse K = some (C.mulG (beNat k))) :
    ∃ k' c', ckdPriv C hmac k c i = .ok (k', c') ∧
      ckdPub C hmac K c i = .ok (C.compress (C.mulG (beNat k')), c') :=
  ckd_commute_gen S hl k c K i hk hi hp

/-- public derivation through a hardened index is refused with an error, whatever the key -/
theorem ckdPub_hardened_refused (K c : Bytes) (i : Nat) (hi : 2 ^ 31 ≤ i) :
    ckdPub C hmac K c i = .err := ckdPub_hardened K c i hi

/-- … and so is a path that contains a hardened index anywhere: it never succeeds -/
theorem path_hardened_refused (K c : Bytes) (path : List Nat) (h : ∃ i ∈ path, 2 ^ 31 ≤ i) (r : Bytes × Bytes) :
    derivePub C hmac K c path ≠ .ok r := derivePub_hardened_not_ok K c path h r

/-- deriving along a path = folding the single step over the path -/
theorem path_fold (k c : Bytes) (path : List Nat) :
    derivePriv C hmac k c path = path.foldl (stepPriv C hmac) (.ok (k, c)) := derivePriv_fold k c path

theorem path_fold_pub (K c : Bytes) (path : List Nat) :
    derivePub C hmac K c path = path.foldl (stepPub C hmac) (.ok (K, c)) := derivePub_fold K c path

/-- the empty path returns the parent unchanged -/
theorem path_nil (k c : Bytes) :
    derivePriv C hmac k c [] = .ok (k, c) ∧ derivePub C hmac k c [] = .ok (k, c) :=
  ⟨derivePriv_nil k c, derivePub_nil k c⟩

/-- deriving along `p ++ q` = deriving along `p` and then along `q` -/
theorem path_append (k c : Bytes) (p q : List Nat) :
    derivePriv C hmac k c (p ++ q) = (derivePriv C hmac k c p >>= fun r => derivePriv C hmac r.1 r.2 q) ∧
    derivePub C hmac k c (p ++ q) = (derivePub C hmac k c p >>= fun r => derivePub C hmac r.1 r.2 q) :=
  ⟨derivePriv_append k c p q, derivePub_append k c p q⟩

/-- Commutation along a whole non-hardened, non-empty path, from either encoding of the parent,
    under the explicit hypothesis `noSkip` (every index `< 2^31`, every key on the private path is a
    valid scalar — the BIP32 "child = 0" case is excluded). -/
theorem path_commute (S : SecpGroup C) (E : PointCodec C) (hl : HmacLen hmac) (k c : Bytes)
    (path : List Nat) (hk : isValidScalar C.n (beNat k) = true) (hne : path ≠ [])
    (hs : noSkip C hmac k c path = true) :
    ∃ k' c', derivePriv C hmac k c path = .ok (k', c') ∧
      derivePub C hmac (C.compress (C.mulG (beNat k))) c path = .ok (C.compress (C.mulG (beNat k')), c') ∧
      derivePub C hmac (C.uncompress (C.mulG (beNat k))) c path = .ok (C.compress (C.mulG (beNat k')), c') := by
  have hk' := hk
  simp only [isValidScalar, Bool.and_eq_true, decide_eq_true_eq] at hk'
  have hlt : beNat k < 2 ^ 256 := Nat.lt_of_lt_of_le hk'.2 S.n_le
  have hne0 := S.mulG_valid_ne_zero hk
  obtain ⟨k1, c1, h1, h2⟩ := path_commute_gen S E hl k c _ path hlt (E.parse_compress _ hne0) hne hs
  obtain ⟨k2, c2, h3, h4⟩ := path_commute_gen S E hl k c _ path hlt (E.parse_uncompress _ hne0) hne hs
  rw [h1] at h3
  injection h3 with h3; injection h3 with ha hb
  subst ha hb
  exact ⟨k1, c1, h1, h2, h4⟩

/-- every derived private key is exactly 32 bytes, every derived public key exactly 33 bytes, every
    chain code 32 bytes — single steps, non-empty paths and master keys; for every input, including
    keys and children with leading zero bytes -/
theorem lengths (E : PointCodec C) (hl : HmacLen hmac) (k c : Bytes) (r : Bytes × Bytes) :
    (∀ i, ckdPriv C hmac k c i = .ok r → r.1.length = 32 ∧ r.2.length = 32) ∧
    (∀ i, ckdPub C hmac k c i = .ok r → r.1.length = 33 ∧ r.2.length = 32) ∧
    (∀ path, path ≠ [] → derivePriv C hmac k c path = .ok r → r.1.length = 32 ∧ r.2.length = 32) ∧
    (∀ path, path ≠ [] → derivePub C hmac k c path = .ok r → r.1.length = 33 ∧ r.2.length = 32) ∧
    (masterKey hmac k = .ok r → r.1.length = 32 ∧ r.2.length = 32) :=
  ⟨fun _ h => ckdPriv_lengths hl h, fun _ h => ckdPub_lengths E hl h,
   fun _ hne h => derivePriv_lengths hl hne h, fun _ hne h => derivePub_lengths E hl hne h,
   fun h => masterKey_lengths hl h⟩

/-- a seed is accepted exactly when its length is 16..64 bytes and a multiple of 4 -/
theorem master_seed_len (hl : HmacLen hmac) (seed : Bytes) :
    (∃ r, masterKey hmac seed = .ok r) ↔ (16 ≤ seed.length ∧ seed.length ≤ 64 ∧ seed.length % 4 = 0) :=
  masterKey_ok_iff hl seed

/-- … and refused with an error (never a panic) otherwise; no hypothesis on `hmac` -/
theorem master_seed_refused (seed : Bytes) :
    masterKey hmac seed = .err ↔ ¬ (16 ≤ seed.length ∧ seed.length ≤ 64 ∧ seed.length % 4 = 0) :=
  masterKey_err_iff seed

/-- the private step returns exactly the key and chain code BIP32's `CKDpriv` defines, whenever
    BIP32 defines one (i.e. outside the "skip" case), for hardened and normal indices -/
theorem ckdPriv_matches_bip32 (S : SecpGroup C) (hl : HmacLen hmac) (k c : Bytes) (i : Nat)
    (hklen : k.length = 32) {k' : Nat} {c' : Bytes}
    (h : Spec.Bip32.ckdPriv C hmac (beNat k) c i = some (k', c')) :
    ckdPriv C hmac k c i = .ok (beBytes 32 k', c') := ckdPriv_eq_spec S hl k c i hklen h

/-- the public step returns the compressed encoding of the point BIP32's `CKDpub` defines -/
theorem ckdPub_matches_bip32 [DecidableEq P] (hl : HmacLen hmac) (K c : Bytes) (i : Nat) (Kpar : P)
    (hp : C.parse K = some Kpar) {Ki : P} {ci : Bytes}
    (h : Spec.Bip32.ckdPub C hmac Kpar c i = .child Ki ci) :
    ckdPub C hmac K c i = .ok (C.compress Ki, ci) := ckdPub_eq_spec hl K c i Kpar hp h

/-- master keys: the bytes returned are `ser256` of BIP32's master secret and its chain code -/
theorem master_matches_bip32 (hl : HmacLen hmac) (seed : Bytes) (h4 : seed.length % 4 = 0)
    {k : Nat} {c : Bytes} (h : Spec.Bip32.master C.n hmac seed = some (k, c)) :
    ∃ kb, masterKey hmac seed = .ok (kb, c) ∧ kb.length = 32 ∧ beNat kb = k :=
  masterKey_eq_spec (C := C) hl seed h4 h

/-- the fingerprint does not depend on the encoding of the key -/
theorem fingerprint_encoding_independent (E : PointCodec C) (hash160 : Bytes → Bytes) (a : P)
    (ha : a ≠ C.zero) :
    keyFingerprint C hash160 (C.uncompress a) = keyFingerprint C hash160 (C.compress a) := by
  rw [keyFingerprint_compress E hash160 a ha, keyFingerprint_uncompress E hash160 a ha]

/-! ### non-vacuity: the hypotheses are satisfiable and the theorems apply to concrete values -/

/-- a toy "HMAC" with 64-byte output that depends on its input -/
def toyHmac (k d : Bytes) : Bytes :=
  List.replicate 31 0 ++ [UInt8.ofNat ((k.length + 3 * d.length + (d.getLastD 0).toNat) % 5)] ++
    List.replicate 32 (k.headD 7)

theorem toyHmac_len : HmacLen toyHmac := by intro k d; simp [toyHmac]

example : isValidScalar toy.n (beNat [3]) = true := by decide
example : noSkip toy toyHmac [3] [1, 2] [0, 5, 1] = true := by decide
example : ∃ k' c', derivePriv toy toyHmac [3] [1, 2] [0, 5, 1] = .ok (k', c') ∧
    derivePub toy toyHmac (toy.uncompress (toy.mulG (beNat [3]))) [1, 2] [0, 5, 1] =
      .ok (toy.compress (toy.mulG (beNat k')), c') := by
  obtain ⟨k', c', h1, _, h3⟩ :=
    path_commute toyGroup toyCodec toyHmac_len [3] [1, 2] [0, 5, 1] (by decide) (by simp) (by decide)
  exact ⟨k', c', h1, h3⟩
example : Spec.Bip32.ckdPriv toy toyHmac (beNat [3]) [1, 2] 0 ≠ none := by decide

end BtcVerif.Props.C07
