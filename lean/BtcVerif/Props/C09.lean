/-
  C09 — addresses round-trip on every network and only canonical addresses decode.
  Property theorems only; proofs in `Proofs/Address.lean` (and, for the segwit forms, the Bech32
  theorems of C08). The hash functions are arbitrary (`hs : Hashes`); the selected network is the
  argument `net`. Strings are byte strings.
-/
import BtcVerif.Proofs.Address

namespace BtcVerif.Props.C09
open BtcVerif BtcVerif.Model BtcVerif.Model.Address

/-! ### the network table (T1): the regenerated constants are the published parameters -/

/-- the model-side reading of a reference network -/
def ofSpec (n : Spec.Address.Net) : Network :=
  { bech32 := match n.hrp with | some h => h | none => []
    scriptHash := beNat n.p2shVersion
    pubkeyHash := beNat n.p2pkhVersion
    wif := n.wifVersion
    extPub := n.xpub
    extPriv := n.xprv }

theorem networks_eq_spec :
    bitcoin = ofSpec Spec.Address.bitcoin ∧ testnet = ofSpec Spec.Address.testnet ∧
    litecoin = ofSpec Spec.Address.litecoin ∧ zcash = ofSpec Spec.Address.zcash := by decide

/-- the four supported configurations -/
def supported : List Network := [bitcoin, testnet, litecoin, zcash]

theorem supported_wf : ∀ net ∈ supported, Proofs.Address.WFNet net := by decide

/-! ### round trip (Base58 formats) -/

theorem addr_roundtrip_p2pkh (hs : Hashes) (hck : ∀ x, (hs.cksum x).length = 4) (net : Network)
    (hnet : net ∈ supported) (h : Bytes) (hl : h.length = 20) :
    decode hs net (makeP2PKHFromHash hs net h) = .ok (.p2pkh, Spec.Address.scriptPubKey .p2pkh h) :=
  Proofs.Address.decode_p2pkh hs hck net (supported_wf net hnet) h hl

theorem addr_roundtrip_p2sh (hs : Hashes) (hck : ∀ x, (hs.cksum x).length = 4) (net : Network)
    (hnet : net ∈ supported) (h : Bytes) (hl : h.length = 20) :
    decode hs net (makeP2SHFromHash hs net h) = .ok (.p2sh, Spec.Address.scriptPubKey .p2sh h) :=
  Proofs.Address.decode_p2sh hs hck net (supported_wf net hnet) h hl

/-! ### networks without segwit refuse the segwit formats -/

theorem nosegwit_refuses (hs : Hashes) (net : Network) (hn : net.bech32 = []) (data : Bytes) :
    make hs net .p2wpkh data = .err ∧ make hs net .p2wsh data = .err ∧
    makeFromHash hs net .p2wpkh data = .err ∧ makeFromHash hs net .p2wsh data = .err := by
  simp only [make, makeFromHash, makeP2WPKHFromPublicKey, makeP2WSHFromScript, makeP2WPKHFromHash,
    makeP2WSHFromHash, hn, Gen.Guards.address_MakeP2WPKHFromHash_0, Gen.Guards.address_MakeP2WSHFromHash_0]
  refine ⟨?_, ?_, ?_, ?_⟩ <;> simp <;> split <;> rfl

theorem zcash_has_no_segwit : zcash.bech32 = [] := by decide

/-! ### canonical decoding (Base58 formats) and what a segwit result was read from -/

/-- every string accepted as P2PKH / P2SH is exactly the address `MakeFromHash` produces for the
    hash in the returned (standard) script: no second string decodes to the same script -/
theorem decode_canonical_base58 (hs : Hashes) (net : Network) (s : Bytes) (fmt : Format) (spk : Bytes)
    (hd : decode hs net s = .ok (fmt, spk)) (hf : fmt = .p2pkh ∨ fmt = .p2sh) :
    ∃ h, h.length = 20 ∧
      ((fmt = .p2pkh ∧ spk = Spec.Address.scriptPubKey .p2pkh h ∧ makeP2PKHFromHash hs net h = s) ∨
       (fmt = .p2sh ∧ spk = Spec.Address.scriptPubKey .p2sh h ∧ makeP2SHFromHash hs net h = s)) :=
  Proofs.Address.decode_base58_canonical hs net s fmt spk hd hf

/-- a segwit result comes from a Bech32 string with the network's HRP, witness version 0 and a
    program of 20 (P2WPKH) or 32 (P2WSH) bytes: any other HRP, a non-zero witness version or
    another length is rejected -/
theorem nonzero_witness_version_rejected (hs : Hashes) (net : Network) (s : Bytes) (fmt : Format)
    (spk : Bytes) (hd : decode hs net s = .ok (fmt, spk)) (hf : fmt = .p2wpkh ∨ fmt = .p2wsh) :
    ∃ prog, Bech32.decode s = .ok (net.bech32, 0, prog) ∧
      ((fmt = .p2wpkh ∧ prog.length = 20 ∧ spk = Spec.Address.scriptPubKey .p2wpkh prog) ∨
       (fmt = .p2wsh ∧ prog.length = 32 ∧ spk = Spec.Address.scriptPubKey .p2wsh prog)) :=
  Proofs.Address.decode_segwit_source hs net s fmt spk hd hf

theorem decode_format_standard (hs : Hashes) (net : Network) (s : Bytes) (fmt : Format) (spk : Bytes)
    (hd : decode hs net s = .ok (fmt, spk)) : fmt ≠ .other :=
  Proofs.Address.decode_format hs net s fmt spk hd

/-! ### cross-network rejection (Base58 formats) -/

/-- the Base58 versions of the four networks are eight different numbers -/
theorem versions_distinct :
    (supported.flatMap (fun n => [n.scriptHash, n.pubkeyHash])).Nodup := by decide

theorem versions_cross : ∀ a ∈ supported, ∀ b ∈ supported, a ≠ b →
    a.pubkeyHash < 65536 ∧ a.scriptHash < 65536 ∧ a.pubkeyHash ≠ b.scriptHash ∧
      a.pubkeyHash ≠ b.pubkeyHash ∧ a.scriptHash ≠ b.scriptHash ∧ a.scriptHash ≠ b.pubkeyHash := by
  decide

/-- a P2PKH or P2SH address made for one supported network is rejected under every other one -/
theorem cross_network_rejected_base58 (hs : Hashes) (hck : ∀ x, (hs.cksum x).length = 4)
    (a b : Network) (ha : a ∈ supported) (hb : b ∈ supported) (hab : a ≠ b) (h : Bytes)
    (hl : h.length = 20) :
    decode hs b (makeP2PKHFromHash hs a h) = .err ∧ decode hs b (makeP2SHFromHash hs a h) = .err := by
  have key := versions_cross a ha b hb hab
  exact ⟨Proofs.Address.decode_foreign_version hs hck b h hl _ key.1 key.2.2.1 key.2.2.2.1,
    Proofs.Address.decode_foreign_version hs hck b h hl _ key.2.1 key.2.2.2.2.1 key.2.2.2.2.2⟩

/-! ### wrong lengths -/

theorem wrong_length_rejected (hs : Hashes) (net : Network) (fmt : Format) (h : Bytes)
    (hl : h.length ≠ (if fmt = .p2wsh then 32 else 20)) : makeFromHash hs net fmt h = .err := by
  unfold makeFromHash
  simp only [Gen.Guards.address_MakeFromHash_2]
  by_cases hf : fmt = .p2wsh
  · simp only [hf, if_true] at hl ⊢
    have : ((h.length : Int) ≠ 32) := by omega
    simp [this]
  · simp only [hf, if_false] at hl ⊢
    have : ((h.length : Int) ≠ 20) := by omega
    simp [this]

theorem wrong_key_length_rejected (hs : Hashes) (net : Network) (pk : Bytes) :
    (pk.length ≠ 33 → pk.length ≠ 65 → make hs net .p2pkh pk = .err) ∧
    (pk.length ≠ 33 → make hs net .p2wpkh pk = .err) := by
  constructor
  · intro h1 h2
    have a : ((pk.length : Int) ≠ 33) := by omega
    have b : ((pk.length : Int) ≠ 65) := by omega
    simp [make, makeP2PKHFromPublicKey, Gen.Guards.address_MakeP2PKHFromPublicKey_0, a, b]
  · intro h1
    have a : ((pk.length : Int) ≠ 33) := by omega
    simp [make, makeP2WPKHFromPublicKey, Gen.Guards.address_MakeP2WPKHFromPublicKey_0, a]

/-- a Base58Check payload that is not 21 or 22 bytes long is not an address -/
theorem wrong_payload_length_rejected (hs : Hashes) (s payload : Bytes)
    (hp : Base58Check.decode hs.cksum s = .ok payload) (h21 : payload.length ≠ 21)
    (h22 : payload.length ≠ 22) : decodeBase58Address hs s = .err := by
  rw [Proofs.Address.decodeBase58_of_payload hs s payload hp]
  unfold Proofs.Address.splitPayload
  cases payload with
  | nil => rfl
  | cons v0 rest =>
    simp only [List.length_cons] at h21 h22
    have a : ¬ rest.length = 20 := by omega
    have b : ¬ rest.length = 21 := by omega
    simp [a, b]

/-- the hypotheses are satisfiable: a concrete checksum function, hash and network -/
example : decode ⟨id, id, fun _ => [1, 2, 3, 4]⟩ bitcoin
    (makeP2SHFromHash ⟨id, id, fun _ => [1, 2, 3, 4]⟩ bitcoin (List.replicate 20 7)) =
    .ok (.p2sh, Spec.Address.scriptPubKey .p2sh (List.replicate 20 7)) :=
  addr_roundtrip_p2sh _ (fun _ => rfl) bitcoin (by decide) _ (by decide)

end BtcVerif.Props.C09
