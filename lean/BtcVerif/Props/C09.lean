/-
  C09 — addresses round-trip on every network and only canonical addresses decode.
  Property theorems only; proofs in `Proofs/Address.lean` (and, for the segwit forms, the Bech32
  theorems of C08). The hash functions are arbitrary (`hs : Hashes`); the selected network is the
  argument `net`. Strings are byte strings.
-/
import BtcVerif.Props.GuardPins.P_address
import BtcVerif.Proofs.Address
import BtcVerif.Proofs.AddressSegwit
import BtcVerif.Proofs.AddressRef
import BtcVerif.Proofs.Bech32EncRef

namespace BtcVerif.Props.C09
open BtcVerif BtcVerif.Model BtcVerif.Model.Address

/-! ### the network table (T1): the regenerated constants are the published parameters -/

/-- the model-side reading of a reference network -/
def ofSpec (n : Spec.Address.Net) : Network :=
  { bech32 := match n.hrp with | some h => h | none => []
    scriptHash := beNat n.p2shVersion
    pubkeyHash := beNat n.p2pkhVersion
    wif := n.wifVersion
    extPub := n.xpub
    extPriv := n.xprv }

theorem networks_eq_spec :
    bitcoin = ofSpec Spec.Address.bitcoin ∧ testnet = ofSpec Spec.Address.testnet ∧
    litecoin = ofSpec Spec.Address.litecoin ∧ zcash = ofSpec Spec.Address.zcash := by decide

/-- the four supported configurations -/
def supported : List Network := [bitcoin, testnet, litecoin, zcash]

theorem supported_wf : ∀ net ∈ supported, Proofs.Address.WFNet net := by decide

/-! ### round trip (Base58 formats) -/

theorem addr_roundtrip_p2pkh (hs : Hashes) (hck : ∀ x, (hs.cksum x).length = 4) (net : Network)
    (hnet : net ∈ supported) (h : Bytes) (hl : h.length = 20) :
    decode hs net (makeP2PKHFromHash hs net h) = .ok (.p2pkh, Spec.Address.scriptPubKey .p2pkh h) :=
  Proofs.Address.decode_p2pkh hs hck net (supported_wf net hnet) h hl

theorem addr_roundtrip_p2sh (hs : Hashes) (hck : ∀ x, (hs.cksum x).length = 4) (net : Network)
    (hnet : net ∈ supported) (h : Bytes) (hl : h.length = 20) :
    decode hs net (makeP2SHFromHash hs net h) = .ok (.p2sh, Spec.Address.scriptPubKey .p2sh h) :=
  Proofs.Address.decode_p2sh hs hck net (supported_wf net hnet) h hl

/-! ### networks without segwit refuse the segwit formats -/

theorem nosegwit_refuses (hs : Hashes) (net : Network) (hn : net.bech32 = []) (data : Bytes) :
    make hs net .p2wpkh data = .err ∧ make hs net .p2wsh data = .err ∧
    makeFromHash hs net .p2wpkh data = .err ∧ makeFromHash hs net .p2wsh data = .err := by
  simp only [make, makeFromHash, makeP2WPKHFromPublicKey, makeP2WSHFromScript, makeP2WPKHFromHash,
    makeP2WSHFromHash, hn, Gen.Guards.address_MakeP2WPKHFromHash_0, Gen.Guards.address_MakeP2WSHFromHash_0]
  refine ⟨?_, ?_, ?_, ?_⟩ <;> simp <;> split <;> rfl

theorem zcash_has_no_segwit : zcash.bech32 = [] := by decide

/-! ### canonical decoding (Base58 formats) and what a segwit result was read from -/

/-- every string accepted as P2PKH / P2SH is exactly the address `MakeFromHash` produces for the
    hash in the returned (standard) script: no second string decodes to the same script -/
theorem decode_canonical_base58 (hs : Hashes) (net : Network) (s : Bytes) (fmt : Format) (spk : Bytes)
    (hd : decode hs net s = .ok (fmt, spk)) (hf : fmt = .p2pkh ∨ fmt = .p2sh) :
    ∃ h, h.length = 20 ∧
      ((fmt = .p2pkh ∧ spk = Spec.Address.scriptPubKey .p2pkh h ∧ makeP2PKHFromHash hs net h = s) ∨
       (fmt = .p2sh ∧ spk = Spec.Address.scriptPubKey .p2sh h ∧ makeP2SHFromHash hs net h = s)) :=
  Proofs.Address.decode_base58_canonical hs net s fmt spk hd hf

/-- a segwit result comes from a Bech32 string with the network's HRP, witness version 0 and a
    program of 20 (P2WPKH) or 32 (P2WSH) bytes: any other HRP, a non-zero witness version or
    another length is rejected -/
theorem nonzero_witness_version_rejected (hs : Hashes) (net : Network) (s : Bytes) (fmt : Format)
    (spk : Bytes) (hd : decode hs net s = .ok (fmt, spk)) (hf : fmt = .p2wpkh ∨ fmt = .p2wsh) :
    ∃ prog, Bech32.decode s = .ok (net.bech32, 0, prog) ∧
      ((fmt = .p2wpkh ∧ prog.length = 20 ∧ spk = Spec.Address.scriptPubKey .p2wpkh prog) ∨
       (fmt = .p2wsh ∧ prog.length = 32 ∧ spk = Spec.Address.scriptPubKey .p2wsh prog)) :=
  Proofs.Address.decode_segwit_source hs net s fmt spk hd hf

theorem decode_format_standard (hs : Hashes) (net : Network) (s : Bytes) (fmt : Format) (spk : Bytes)
    (hd : decode hs net s = .ok (fmt, spk)) : fmt ≠ .other :=
  Proofs.Address.decode_format hs net s fmt spk hd

/-! ### cross-network rejection (Base58 formats) -/

/-- the Base58 versions of the four networks are eight different numbers -/
theorem versions_distinct :
    (supported.flatMap (fun n => [n.scriptHash, n.pubkeyHash])).Nodup := by decide

theorem versions_cross : ∀ a ∈ supported, ∀ b ∈ supported, a ≠ b →
    a.pubkeyHash < 65536 ∧ a.scriptHash < 65536 ∧ a.pubkeyHash ≠ b.scriptHash ∧
      a.pubkeyHash ≠ b.pubkeyHash ∧ a.scriptHash ≠ b.scriptHash ∧ a.scriptHash ≠ b.pubkeyHash := by
  decide

/-- a P2PKH or P2SH address made for one supported network is rejected under every other one -/
theorem cross_network_rejected_base58 (hs : Hashes) (hck : ∀ x, (hs.cksum x).length = 4)
    (a b : Network) (ha : a ∈ supported) (hb : b ∈ supported) (hab : a ≠ b) (h : Bytes)
    (hl : h.length = 20) :
    decode hs b (makeP2PKHFromHash hs a h) = .err ∧ decode hs b (makeP2SHFromHash hs a h) = .err := by
  have key := versions_cross a ha b hb hab
  exact ⟨Proofs.Address.decode_foreign_version hs hck b h hl _ key.1 key.2.2.1 key.2.2.2.1,
    Proofs.Address.decode_foreign_version hs hck b h hl _ key.2.1 key.2.2.2.2.1 key.2.2.2.2.2⟩

/-! ### wrong lengths -/

theorem wrong_length_rejected (hs : Hashes) (net : Network) (fmt : Format) (h : Bytes)
    (hl : h.length ≠ (if fmt = .p2wsh then 32 else 20)) : makeFromHash hs net fmt h = .err := by
  unfold makeFromHash
  simp only [Gen.Guards.address_MakeFromHash_2]
  by_cases hf : fmt = .p2wsh
  · simp only [hf, if_true] at hl ⊢
    have : ((h.length : Int) ≠ 32) := by omega
    simp [this]
  · simp only [hf, if_false] at hl ⊢
    have : ((h.length : Int) ≠ 20) := by omega
    simp [this]

theorem wrong_key_length_rejected (hs : Hashes) (net : Network) (pk : Bytes) :
    (pk.length ≠ 33 → pk.length ≠ 65 → make hs net .p2pkh pk = .err) ∧
    (pk.length ≠ 33 → make hs net .p2wpkh pk = .err) := by
  constructor
  · intro h1 h2
    have a : ((pk.length : Int) ≠ 33) := by omega
    have b : ((pk.length : Int) ≠ 65) := by omega
    simp [make, makeP2PKHFromPublicKey, Gen.Guards.address_MakeP2PKHFromPublicKey_0, a, b]
  · intro h1
    have a : ((pk.length : Int) ≠ 33) := by omega
    simp [make, makeP2WPKHFromPublicKey, Gen.Guards.address_MakeP2WPKHFromPublicKey_0, a]

/-- a Base58Check payload that is not 21 or 22 bytes long is not an address -/
theorem wrong_payload_length_rejected (hs : Hashes) (s payload : Bytes)
    (hp : Base58Check.decode hs.cksum s = .ok payload) (h21 : payload.length ≠ 21)
    (h22 : payload.length ≠ 22) : decodeBase58Address hs s = .err := by
  rw [Proofs.Address.decodeBase58_of_payload hs s payload hp]
  unfold Proofs.Address.splitPayload
  cases payload with
  | nil => rfl
  | cons v0 rest =>
    simp only [List.length_cons] at h21 h22
    have a : ¬ rest.length = 20 := by omega
    have b : ¬ rest.length = 21 := by omega
    simp [a, b]

/-! ### segwit formats (resting on the Bech32 theorems of C08) -/

/-- the three supported networks with segwit addresses -/
def segwitNets : List Network := [bitcoin, testnet, litecoin]

theorem segwit_nets_ok : ∀ net ∈ segwitNets, Proofs.Address.SegwitNet net := by
  intro net h
  simp only [segwitNets, List.mem_cons, List.mem_nil_iff, or_false] at h
  rcases h with h | h | h <;> subst h <;>
    exact ⟨⟨by decide, by decide, by decide⟩, by decide⟩

/-- P2WPKH / P2WSH round trip: the address made for a 20- or 32-byte program decodes (on the same
    network, for any hash functions) to the format and to the standard witness script -/
theorem addr_roundtrip_segwit (hs : Hashes) (net : Network) (hnet : net ∈ segwitNets) (h : Bytes)
    (hl : h.length = 20 ∨ h.length = 32) :
    ∃ s, makeFromHash hs net (if h.length = 20 then .p2wpkh else .p2wsh) h = .ok s ∧
      decode hs net s = .ok (if h.length = 20 then Format.p2wpkh else Format.p2wsh,
        Spec.Address.scriptPubKey (if h.length = 20 then .p2wpkh else .p2wsh) h) := by
  obtain ⟨s, hmk, _, _, hdec⟩ := Proofs.Address.decode_segwit hs net (segwit_nets_ok net hnet) h hl
  refine ⟨s, ?_, hdec⟩
  rcases hl with hl | hl
  · simp [makeFromHash, Gen.Guards.address_MakeFromHash_2, hl, hmk]
  · simp [makeFromHash, Gen.Guards.address_MakeFromHash_2, hl, Proofs.Address.make_witness_eq, hmk]

/-- every string accepted as P2WPKH / P2WSH is, up to case, exactly the address `MakeFromHash`
    produces for the program in the returned (standard) script -/
theorem decode_canonical_segwit (hs : Hashes) (net : Network) (s : Bytes) (fmt : Format) (spk : Bytes)
    (hd : decode hs net s = .ok (fmt, spk)) (hf : fmt = .p2wpkh ∨ fmt = .p2wsh) :
    ∃ prog, prog.length = (if fmt = .p2wsh then 32 else 20) ∧
      spk = Spec.Address.scriptPubKey (if fmt = .p2wsh then .p2wsh else .p2wpkh) prog ∧
      makeFromHash hs net fmt prog = .ok (Bech32.lower s) :=
  Proofs.Address.decode_segwit_canonical hs net s fmt spk hd hf

/-- `decode_canonical` for all four formats: an accepted string is the address of the hash in the
    returned script (lower-cased for the Bech32 forms), so no second string decodes to it -/
theorem decode_canonical (hs : Hashes) (net : Network) (s : Bytes) (fmt : Format) (spk : Bytes)
    (hd : decode hs net s = .ok (fmt, spk)) :
    ∃ h, makeFromHash hs net fmt h =
      .ok (if fmt = .p2wpkh ∨ fmt = .p2wsh then Bech32.lower s else s) := by
  cases fmt with
  | other => exact absurd rfl (decode_format_standard hs net s _ spk hd)
  | p2pkh =>
    obtain ⟨h, hl, hc⟩ := decode_canonical_base58 hs net s _ spk hd (Or.inl rfl)
    rcases hc with ⟨_, _, hm⟩ | ⟨hf, _, _⟩
    · exact ⟨h, by simp [makeFromHash, Gen.Guards.address_MakeFromHash_2, hl, hm]⟩
    · cases hf
  | p2sh =>
    obtain ⟨h, hl, hc⟩ := decode_canonical_base58 hs net s _ spk hd (Or.inr rfl)
    rcases hc with ⟨hf, _, _⟩ | ⟨_, _, hm⟩
    · cases hf
    · exact ⟨h, by simp [makeFromHash, Gen.Guards.address_MakeFromHash_2, hl, hm]⟩
  | p2wpkh =>
    obtain ⟨prog, _, _, hm⟩ := decode_canonical_segwit hs net s _ spk hd (Or.inl rfl)
    exact ⟨prog, by simpa using hm⟩
  | p2wsh =>
    obtain ⟨prog, _, _, hm⟩ := decode_canonical_segwit hs net s _ spk hd (Or.inr rfl)
    exact ⟨prog, by simpa using hm⟩

/-- the HRPs of the three segwit networks differ from each other and from Zcash's (none) -/
theorem hrps_cross : ∀ a ∈ segwitNets, ∀ b ∈ supported, a ≠ b → a.bech32 ≠ b.bech32 := by decide

/-- a segwit address made for one supported network is rejected under every other one -/
theorem cross_network_rejected_segwit (hs : Hashes) (a b : Network) (ha : a ∈ segwitNets)
    (hb : b ∈ supported) (hab : a ≠ b) (h : Bytes) (hl : h.length = 20 ∨ h.length = 32) :
    ∃ s, makeP2WPKHFromHash a h = .ok s ∧ decode hs b s = .err :=
  Proofs.Address.decode_foreign_hrp hs a b (segwit_nets_ok a ha) (hrps_cross a ha b hb hab) h hl

/-! ### round trip through `Make` (public keys and scripts) -/

/-- hash functions with the output lengths of HASH160, SHA-256 and the 4-byte checksum -/
structure HashLengths (hs : Hashes) : Prop where
  h160 : ∀ x, (hs.hash160 x).length = 20
  s256 : ∀ x, (hs.sha256 x).length = 32
  ck : ∀ x, (hs.cksum x).length = 4

/-- `Make` followed by `Decode`, for the Base58 formats: a 33- or 65-byte public key gives a P2PKH
    address, any script a P2SH address, and each decodes to the standard script committing to
    HASH160 of the data -/
theorem addr_roundtrip_make_base58 (hs : Hashes) (hl : HashLengths hs) (net : Network)
    (hnet : net ∈ supported) (data : Bytes) :
    (data.length = 33 ∨ data.length = 65 →
      ∃ s, make hs net .p2pkh data = .ok s ∧
        decode hs net s = .ok (.p2pkh, Spec.Address.scriptPubKey .p2pkh (hs.hash160 data))) ∧
    (∃ s, make hs net .p2sh data = .ok s ∧
        decode hs net s = .ok (.p2sh, Spec.Address.scriptPubKey .p2sh (hs.hash160 data))) := by
  constructor
  · intro hlen
    refine ⟨_, ?_, addr_roundtrip_p2pkh hs hl.ck net hnet _ (hl.h160 data)⟩
    have : ¬ (((data.length : Int) ≠ 33) ∧ ((data.length : Int) ≠ 65)) := by omega
    simp [make, makeP2PKHFromPublicKey, Gen.Guards.address_MakeP2PKHFromPublicKey_0, this]
  · exact ⟨_, rfl, addr_roundtrip_p2sh hs hl.ck net hnet _ (hl.h160 data)⟩

/-- `Make` followed by `Decode`, for the segwit formats: a 33-byte public key gives a P2WPKH
    address committing to HASH160 of the key, any script a P2WSH address committing to its SHA-256 -/
theorem addr_roundtrip_make_segwit (hs : Hashes) (hl : HashLengths hs) (net : Network)
    (hnet : net ∈ segwitNets) (data : Bytes) :
    (data.length = 33 →
      ∃ s, make hs net .p2wpkh data = .ok s ∧
        decode hs net s = .ok (.p2wpkh, Spec.Address.scriptPubKey .p2wpkh (hs.hash160 data))) ∧
    (∃ s, make hs net .p2wsh data = .ok s ∧
        decode hs net s = .ok (.p2wsh, Spec.Address.scriptPubKey .p2wsh (hs.sha256 data))) := by
  constructor
  · intro hlen
    obtain ⟨s, hmk, _, _, hdec⟩ := Proofs.Address.decode_segwit hs net (segwit_nets_ok net hnet)
      (hs.hash160 data) (Or.inl (hl.h160 data))
    refine ⟨s, ?_, by simpa [hl.h160 data] using hdec⟩
    have : ¬ ((data.length : Int) ≠ 33) := by omega
    simp [make, makeP2WPKHFromPublicKey, Gen.Guards.address_MakeP2WPKHFromPublicKey_0, this, hmk]
  · obtain ⟨s, hmk, _, _, hdec⟩ := Proofs.Address.decode_segwit hs net (segwit_nets_ok net hnet)
      (hs.sha256 data) (Or.inr (hl.s256 data))
    refine ⟨s, ?_, by simpa [hl.s256 data] using hdec⟩
    simp [make, makeP2WSHFromScript, Proofs.Address.make_witness_eq, hmk]

example : HashLengths ⟨fun _ => List.replicate 20 1, fun _ => List.replicate 32 2, fun _ => [1, 2, 3, 4]⟩ :=
  ⟨fun _ => rfl, fun _ => rfl, fun _ => rfl⟩

/-! ### equality with the independent reference encoder -/

/-- the published version prefixes are canonical (`EncodeVersion` writes exactly these bytes) -/
theorem spec_versions_canonical : ∀ n ∈ Spec.Address.networks,
    Base58Check.versionBytes (beNat n.p2pkhVersion) = n.p2pkhVersion ∧
    Base58Check.versionBytes (beNat n.p2shVersion) = n.p2shVersion := by decide

/-- P2PKH and P2SH addresses equal those of the reference encoder (published version bytes,
    Base58Check as specified), on each of the four networks, for every hash and checksum function -/
theorem addr_eq_reference_base58 (hs : Hashes) (n : Spec.Address.Net) (hn : n ∈ Spec.Address.networks)
    (h : Bytes) :
    Spec.Address.addressOfHash hs.cksum n .p2pkh h = some (makeP2PKHFromHash hs (ofSpec n) h) ∧
    Spec.Address.addressOfHash hs.cksum n .p2sh h = some (makeP2SHFromHash hs (ofSpec n) h) := by
  obtain ⟨h1, h2⟩ := spec_versions_canonical n hn
  constructor
  · simp only [Spec.Address.addressOfHash, makeP2PKHFromHash, Base58Check.encodeVersion, ofSpec, h1,
      Proofs.Address.base58check_eq_spec]
  · simp only [Spec.Address.addressOfHash, makeP2SHFromHash, Base58Check.encodeVersion, ofSpec, h2,
      Proofs.Address.base58check_eq_spec]

/-- P2WPKH / P2WSH addresses equal those of the reference encoder (published HRP, witness
    version 0, `convertbits(program, 8, 5)`, BIP173 checksum) on the three segwit networks, and
    both sides refuse on Zcash -/
theorem addr_eq_reference_segwit (hs : Hashes) (n : Spec.Address.Net) (hn : n ∈ Spec.Address.networks)
    (h : Bytes) (hl : h.length = 20 ∨ h.length = 32) :
    Spec.Bech32.toOutcome (Spec.Address.addressOfHash hs.cksum n .p2wpkh h) =
      makeP2WPKHFromHash (ofSpec n) h ∧
    Spec.Address.addressOfHash hs.cksum n .p2wsh h = Spec.Address.addressOfHash hs.cksum n .p2wpkh h := by
  refine ⟨?_, rfl⟩
  have hne : h ≠ [] := by intro h0; subst h0; simp at hl
  obtain ⟨k, hk, _, _, hcount⟩ := Proofs.Bech32.bytesToIndices_facts h hne
  simp only [Spec.Address.networks, List.mem_cons, List.mem_nil_iff, or_false] at hn
  rcases hn with rfl | rfl | rfl | rfl
  · have := Proofs.Bech32.encode_eq_spec [0x62, 0x63] 0 h hne (by decide)
      (by simp only [List.length_cons, List.length_nil]; rcases hl with hl | hl <;> omega)
    simpa [Spec.Address.addressOfHash, Spec.Address.bitcoin, makeP2WPKHFromHash, ofSpec,
      Gen.Guards.address_MakeP2WPKHFromHash_0, Gen.constants_WitnessVersionZero] using this
  · have := Proofs.Bech32.encode_eq_spec [0x74, 0x62] 0 h hne (by decide)
      (by simp only [List.length_cons, List.length_nil]; rcases hl with hl | hl <;> omega)
    simpa [Spec.Address.addressOfHash, Spec.Address.testnet, makeP2WPKHFromHash, ofSpec,
      Gen.Guards.address_MakeP2WPKHFromHash_0, Gen.constants_WitnessVersionZero] using this
  · have := Proofs.Bech32.encode_eq_spec [0x6c, 0x74, 0x63] 0 h hne (by decide)
      (by simp only [List.length_cons, List.length_nil]; rcases hl with hl | hl <;> omega)
    simpa [Spec.Address.addressOfHash, Spec.Address.litecoin, makeP2WPKHFromHash, ofSpec,
      Gen.Guards.address_MakeP2WPKHFromHash_0, Gen.constants_WitnessVersionZero] using this
  · simp [Spec.Address.addressOfHash, Spec.Address.zcash, makeP2WPKHFromHash, ofSpec,
      Gen.Guards.address_MakeP2WPKHFromHash_0, Spec.Bech32.toOutcome]

/-! ### the statements of the property, for all four formats at once -/

def fmtOf : Spec.Address.Kind → Format
  | .p2pkh => .p2pkh
  | .p2sh => .p2sh
  | .p2wpkh => .p2wpkh
  | .p2wsh => .p2wsh

def isSegwit : Spec.Address.Kind → Bool
  | .p2wpkh | .p2wsh => true
  | _ => false

def hashLen : Spec.Address.Kind → Nat
  | .p2wsh => 32
  | _ => 20

theorem makeFromHash_eq (hs : Hashes) (net : Network) (k : Spec.Address.Kind) (h : Bytes)
    (hl : h.length = hashLen k) :
    makeFromHash hs net (fmtOf k) h =
      match k with
      | .p2pkh => .ok (makeP2PKHFromHash hs net h)
      | .p2sh => .ok (makeP2SHFromHash hs net h)
      | .p2wpkh | .p2wsh => makeP2WPKHFromHash net h := by
  cases k <;> simp [makeFromHash, fmtOf, hashLen, Gen.Guards.address_MakeFromHash_2,
    Proofs.Address.make_witness_eq] at hl ⊢ <;> simp [hl]

/-- **addr_roundtrip**: on every supported network (for the segwit formats: every supported
    network that has them) the address made from a hash decodes to the format and to the standard
    scriptPubKey committing to that hash -/
theorem addr_roundtrip (hs : Hashes) (hck : ∀ x, (hs.cksum x).length = 4) (net : Network)
    (hnet : net ∈ supported) (k : Spec.Address.Kind) (hseg : isSegwit k = true → net ∈ segwitNets)
    (h : Bytes) (hl : h.length = hashLen k) :
    ∃ s, makeFromHash hs net (fmtOf k) h = .ok s ∧
      decode hs net s = .ok (fmtOf k, Spec.Address.scriptPubKey k h) := by
  rw [makeFromHash_eq hs net k h hl]
  cases k with
  | p2pkh => exact ⟨_, rfl, addr_roundtrip_p2pkh hs hck net hnet h hl⟩
  | p2sh => exact ⟨_, rfl, addr_roundtrip_p2sh hs hck net hnet h hl⟩
  | p2wpkh =>
    have hl' : h.length = 20 := hl
    obtain ⟨s, hmk, _, _, hdec⟩ := Proofs.Address.decode_segwit hs net
      (segwit_nets_ok net (hseg rfl)) h (Or.inl hl')
    exact ⟨s, hmk, by simpa [hl', fmtOf] using hdec⟩
  | p2wsh =>
    have hl' : h.length = 32 := hl
    obtain ⟨s, hmk, _, _, hdec⟩ := Proofs.Address.decode_segwit hs net
      (segwit_nets_ok net (hseg rfl)) h (Or.inr hl')
    exact ⟨s, hmk, by simpa [hl', fmtOf] using hdec⟩

/-- **cross_network_rejected**: an address made for one supported network is refused under every
    other supported network, for all four formats -/
theorem cross_network_rejected (hs : Hashes) (hck : ∀ x, (hs.cksum x).length = 4) (a b : Network)
    (ha : a ∈ supported) (hb : b ∈ supported) (hab : a ≠ b) (k : Spec.Address.Kind)
    (hseg : isSegwit k = true → a ∈ segwitNets) (h : Bytes) (hl : h.length = hashLen k) :
    ∃ s, makeFromHash hs a (fmtOf k) h = .ok s ∧ decode hs b s = .err := by
  rw [makeFromHash_eq hs a k h hl]
  cases k with
  | p2pkh => exact ⟨_, rfl, (cross_network_rejected_base58 hs hck a b ha hb hab h hl).1⟩
  | p2sh => exact ⟨_, rfl, (cross_network_rejected_base58 hs hck a b ha hb hab h hl).2⟩
  | p2wpkh => exact cross_network_rejected_segwit hs a b (hseg rfl) hb hab h (Or.inl hl)
  | p2wsh => exact cross_network_rejected_segwit hs a b (hseg rfl) hb hab h (Or.inr hl)

/-- **addr_eq_reference**: on each of the four networks and for each format, `MakeFromHash` returns
    exactly what the independent reference encoder returns (including the refusal of the segwit
    formats on Zcash) -/
theorem addr_eq_reference (hs : Hashes) (n : Spec.Address.Net) (hn : n ∈ Spec.Address.networks)
    (k : Spec.Address.Kind) (h : Bytes) (hl : h.length = hashLen k) :
    Spec.Bech32.toOutcome (Spec.Address.addressOfHash hs.cksum n k h) =
      makeFromHash hs (ofSpec n) (fmtOf k) h := by
  rw [makeFromHash_eq hs (ofSpec n) k h hl]
  cases k with
  | p2pkh => rw [(addr_eq_reference_base58 hs n hn h).1]; rfl
  | p2sh => rw [(addr_eq_reference_base58 hs n hn h).2]; rfl
  | p2wpkh => exact (addr_eq_reference_segwit hs n hn h (Or.inl hl)).1
  | p2wsh =>
    have := addr_eq_reference_segwit hs n hn h (Or.inr hl)
    rw [this.2]; exact this.1

/-- the hypotheses are satisfiable: a concrete checksum function, hash and network -/
example : decode ⟨id, id, fun _ => [1, 2, 3, 4]⟩ bitcoin
    (makeP2SHFromHash ⟨id, id, fun _ => [1, 2, 3, 4]⟩ bitcoin (List.replicate 20 7)) =
    .ok (.p2sh, Spec.Address.scriptPubKey .p2sh (List.replicate 20 7)) :=
  addr_roundtrip_p2sh _ (fun _ => rfl) bitcoin (by decide) _ (by decide)

/-! ### the string tests of `Make`, `MakeFromHash` and `Decode`

The model dispatches on an inductive `Format` and compares HRPs as byte lists; the source compares strings.
The regenerated guards of those tests are pinned here: each `case` of the two switches is the test for
exactly one format name (the names are the regenerated constants), `MakeFromHash` asks for 32 bytes for
`P2WSH` only, and the HRP test is plain inequality with the current network's HRP. -/

open BtcVerif.Gen BtcVerif.Gen.Guards in
/-- the `AddressFormat` string of a model format (`other`: any string that is none of the four) -/
def formatName : Format → String
  | .p2pkh => constants_FormatP2PKH
  | .p2sh => constants_FormatP2SH
  | .p2wpkh => constants_FormatP2WPKH
  | .p2wsh => constants_FormatP2WSH
  | .other => ""

open BtcVerif.Gen BtcVerif.Gen.Guards in
theorem format_switches_pinned (f : Format) :
    address_Make_0 (addressFormat := formatName f) = decide (f = .p2pkh) ∧
    address_Make_1 (addressFormat := formatName f) = decide (f = .p2sh) ∧
    address_Make_2 (addressFormat := formatName f) = decide (f = .p2wpkh) ∧
    address_Make_3 (addressFormat := formatName f) = decide (f = .p2wsh) ∧
    address_MakeFromHash_1 (addressFormat := formatName f) = decide (f = .p2wsh) ∧
    address_MakeFromHash_3 (addressFormat := formatName f) = decide (f = .p2pkh) ∧
    address_MakeFromHash_4 (addressFormat := formatName f) = decide (f = .p2sh) ∧
    address_MakeFromHash_5 (addressFormat := formatName f) = decide (f = .p2wpkh) ∧
    address_MakeFromHash_6 (addressFormat := formatName f) = decide (f = .p2wsh) := by
  cases f <;> decide

open BtcVerif.Gen.Guards in
theorem hrp_test_pinned (hrp net : String) :
    address_Decode_2 (hrp := hrp) (constants_CurrentNetwork_Bech32 := net) = decide (hrp ≠ net) := rfl

end BtcVerif.Props.C09
