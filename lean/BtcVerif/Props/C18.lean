/-
C18 — library calls never modify or depend on caller-owned buffers.

* `Model/SliceHeap.lean`: heap of byte arrays, Go's `append` / store / `copy` / reslice, the
  buffer-operation IR, its trace semantics `run` and the ownership checker `check`.
* `Gen/BufferProgs.lean`: the IR of every function of the repository that may receive caller-owned
  byte-slice memory, REGENERATED from the SSA form of the current Go source on every check run.
* this file: the property's statements.  `lib_safe` is evaluated by the Lean kernel on the regenerated
  IR; `check_sound_*` say what a successful evaluation means for every heap, every argument layout
  (any capacities, offsets, overlaps) and every execution.
The canary rig (`harness/buffers.go`) is the correspondence: it calls the real functions with their
arguments inside canary-filled arrays and supplies the concrete failing call when `lib_safe` breaks.
-/
import BtcVerif.Gen.BufferProgs
import BtcVerif.Proofs.SliceHeapSound

namespace BtcVerif.Props.C18
open BtcVerif.Model.SliceHeap BtcVerif.Gen BtcVerif.Proofs.SliceHeap

/-- not on the documented in-place allow-list -/
def notAllowed (f : FuncIR) : Bool := !f.allow

-- what the extractor itself found (shown in the build log when `lib_safe` fails)
#eval if bufferDiagnostics.isEmpty then pure () else
  IO.println ("C18 violations found by the extractor:\n  " ++ "\n  ".intercalate bufferDiagnostics)

/-- **The library is safe**: every function that is not on the allow-list passes the ownership check
on the IR regenerated from the current source — its body is consistent with its tags and summary, and
if it is exported it neither writes, appends to, nor reads beyond the length of any caller-owned byte
slice (directly or through any callee).  Evaluated by the kernel. -/
theorem lib_safe : (bufferProgs.filter notAllowed).all (check bufferProgs) = true := by
  decide +kernel

/-- every function, the allow-listed ones included, is consistent with its tags and its summary
(the hypothesis of the soundness theorems) -/
theorem lib_consistent : bufferProgs.all (bodyOk bufferProgs) = true := by
  decide +kernel

/-- the allow-list is exactly the documented in-place functions (`common.ReverseBytesInPlace`,
`(*bhash.MultiHasher).Sum` by the `hash.Hash` contract) -/
theorem allow_list_exact :
    (bufferProgs.filter (·.allow)).map (·.name) = bufferAllow ∧
    bufferAllow = ["bhash.(*MultiHasher).Sum", "common.ReverseBytesInPlace"] := by
  decide +kernel

/-- outside the allow-list no function of the regenerated IR — exported or internal — has a
parameter in its `touches` summary (evaluated by the kernel) -/
theorem lib_touches_nothing : (bufferProgs.filter notAllowed).all (fun f => f.touches.isEmpty) = true := by
  decide +kernel

/-- **The explicit assumption ledger.**  A slice expression `x[lo:hi]` does not panic when
`len(x) < hi ≤ cap(x)`: it silently makes spare capacity visible.  Where `hi ≤ len(x)` follows from the
shape of the code (no `hi`, `hi = len(x)`, a constant below a dominating `len` guard, an array) the
extractor emits an in-window `derive`; where `hi` comes from `cap()` it emits `beyond`, which `check`
rejects.  In the remaining places the bound depends on *values*; the extractor translates them as
in-window reslices and lists them here, and this theorem pins the list, so that a new or vanished site
on caller-owned memory breaks the proof instead of passing silently.  Each site is discharged elsewhere:
* `der.DecodeSignature` (2): `rPos+2+rSize` and `sPos+2+sSize` are below `len` by the length tests
  `rSize < encodedSize-5` and `sSize+rSize+7 = encodedSize` — C11 (`BtcVerif.Props.C11.der_no_panic`: the DER model
  bounds-checks every slice against the *length*, so the no-panic theorem is exactly `hi ≤ len`);
* `script.DecodeP2PKH/P2SH/P2WPKH/P2WSH` (1 each): constant bounds behind `IsP2xx(script)`, which tests
  `len(script) == 25 / 23 / 22 / 34` — C12 (`is_iff_template_p2pkh/p2sh/p2wpkh/p2wsh`);
* `script.StripOpCode` (1): `script[start:end]` with `end = len(script) - r.Len()` — C12 (`strip_no_panic`, `strip_spec`).
The canary rig exercises all of them: on the exact-capacity private copies a bound above `len` panics
while the canary copy succeeds, which is reported as a result difference. -/
theorem bound_assumptions_pinned :
    bufferBoundAssumptions =
      [("der.DecodeSignature", 2), ("script.DecodeP2PKH", 1), ("script.DecodeP2SH", 1),
       ("script.DecodeP2WPKH", 1), ("script.DecodeP2WSH", 1), ("script.StripOpCode", 1)] := by
  decide +kernel

/-! ## The negative witness -/

/-- **Why `append` onto a caller's slice is rejected**: for every heap and every well-formed slice with
a byte of spare capacity, `append(s, b)` is done in place and overwrites the byte behind the visible
window (for every `b` different from what is there) — so for every argument value there is a caller
(a capacity) whose memory the call corrupts.  `append_no_spare_safe` is the other half: with
`cap = len` (what hex-decoded test fixtures have, and what `s[:n:n]` enforces) nothing is written. -/
theorem append_in_place_hazard (h : Heap) (s : Slice) (b : UInt8) (arr : List UInt8)
    (harr : h[s.arr]? = some arr) (hin : s.off + s.cap ≤ arr.length) (hspare : s.len < s.cap)
    (hb : arr[s.off + s.len]? ≠ some b) :
    (goAppend h s [b]).1[s.arr]? = some (arr.set (s.off + s.len) b) ∧
    (goAppend h s [b]).1[s.arr]? ≠ h[s.arr]? ∧
    (goAppend h s [b]).2 = { s with len := s.len + 1 } :=
  BtcVerif.Proofs.SliceHeap.append_in_place_hazard h s b arr harr hin hspare hb

theorem append_no_spare_safe (h : Heap) (s : Slice) (bs : List UInt8) (hfull : s.cap = s.len) (a : Nat)
    (ha : a < h.length) : (goAppend h s bs).1[a]? = h[a]? :=
  BtcVerif.Proofs.SliceHeap.append_no_spare_safe h s bs hfull a ha

/-- the hypotheses of the hazard are satisfiable: the master key `I[:32]` of a 64-byte HMAC output,
whose spare capacity is the chain code; appending the WIF compression flag 0x01 overwrites
`chainCode[0]` -/
example :
    let I : List UInt8 := List.replicate 64 0xAA
    let h : Heap := [I]
    let masterKey : Slice := ⟨0, 0, 32, 64⟩
    (goAppend h masterKey [0x01]).1[0]? = some (I.set 32 0x01) ∧ (goAppend h masterKey [0x01]).1[0]? ≠ h[0]? := by
  intro I h masterKey
  have := append_in_place_hazard h masterKey 0x01 I rfl (by decide) (by decide) (by decide)
  exact ⟨this.1, this.2.1⟩

/-! ## Soundness of the checker -/

/-- **`check_sound`, frame part (complete).**  Let `prog` be consistent (`lib_consistent` for the
regenerated IR) and `f ∈ prog` an exported function with `check prog f = true`.  Then for every trace
`t` (every order / repetition of the statements of `f` and of its callees, every dynamic index, bound,
byte and appended length), every heap `h` and every assignment `args` of memory to the parameters — any
offsets, lengths and capacities, arguments adjacent in one array or overlapping or identical — every
array that exists at the call and is addressed by a caller-owned byte-slice parameter (`f.guarded`) and
by no other touched parameter is the same list of bytes afterwards: the visible window, the spare
capacity behind it and the bytes in front of it. -/
theorem check_sound_frame (prog : List FuncIR) (hprog : prog.all (bodyOk prog) = true) (f : FuncIR)
    (hf : f ∈ prog) (hc : check prog f = true) (hapi : f.api = true)
    (t : Trace) (h : Heap) (args : Env) (a : Nat) (ha : a < h.length)
    (hother : ∀ j ∈ f.touches, j ∉ f.guarded → ¬ Addresses args j a) :
    (runFn prog f t h args).1[a]? = h[a]? := by
  apply runFn_frame prog hprog f hf t h args a ha
  intro j hj
  by_cases hg : j ∈ f.guarded
  · exact absurd hj (check_guarded prog f hc hapi j hg)
  · exact hother j hj hg

/-- the general form: a function changes an existing array only if one of the parameters in its
`touches` summary addresses it (this is what makes the callee summaries used by `check` sound) -/
theorem check_sound_summary (prog : List FuncIR) (hprog : prog.all (bodyOk prog) = true) (f : FuncIR)
    (hf : f ∈ prog) (t : Trace) (h : Heap) (args : Env) (a : Nat) (ha : a < h.length)
    (hnt : ∀ j ∈ f.touches, ¬ Addresses args j a) :
    (runFn prog f t h args).1[a]? = h[a]? :=
  runFn_frame prog hprog f hf t h args a ha hnt

/-- results live in memory allocated during the call or in the arrays of the parameters named by the
`retD` / `retC` summaries (`retAlias`: returning a sub-slice of an argument is not a modification; the
functions that do are listed in the evidence) -/
theorem check_sound_results (prog : List FuncIR) (hprog : prog.all (bodyOk prog) = true) (f : FuncIR)
    (hf : f ∈ prog) (t : Trace) (h : Heap) (args : Env) :
    (∀ s ∈ (runFn prog f t h args).2.1, h.length ≤ s.arr ∨ ∃ j ∈ f.retD, Addresses args j s.arr) ∧
    (∀ s ∈ (runFn prog f t h args).2.2.1, h.length ≤ s.arr ∨ ∃ j ∈ f.retC, Addresses args j s.arr) :=
  runFn_results prog hprog f hf t h args

/-- **`check_sound`, "the result depends only on the visible argument bytes" — PARTIAL.**
What is proved: a function whose summary touches nothing (every function outside the allow-list:
`lib_touches_nothing`) never holds, in any register at the end of any trace — and every prefix of a trace
is a trace, so at any point of any execution — and never returns, a slice of a caller's array that is not
inside the visible window `[off, off+len)` of one of the argument slices named by its tag.  A Go read
`x[i]` requires `i < len(x)`, a reslice beyond `len` is the rejected `beyond` statement and `append` onto
caller memory is rejected, so every byte of caller memory the function can read is a visible byte of an
argument; with the frame part (nothing is written, so sharing between arguments is unobservable) the
outcome cannot depend on spare capacity, neighbouring bytes or overlaps.
What is missing (hence `_partial`): the IR has no data flow — values come from the trace — so the
statement is the *absence of any access path* to non-visible caller memory, not an equation between two
runs on heaps that agree on the visible bytes; slice expressions whose bound depends on values are
in-window by the pinned assumptions (`bound_assumptions_pinned`); callee registers are covered by
applying the theorem to the callee, whose arguments lie inside the caller's windows by this theorem.
The canary rig checks the equation itself on the real code (results on canary-embedded arguments vs
private exact-capacity copies). -/
theorem check_sound_visible_partial (prog : List FuncIR) (hprog : prog.all (bodyOk prog) = true) (f : FuncIR)
    (hf : f ∈ prog) (hto : f.touches = []) (t : Trace) (h : Heap) (args : Env) :
    (∀ r s, s ∈ (runFn prog f t h args).2.2.2 r → InWindows args h.length (tagOf f r) s) ∧
    (∀ s ∈ (runFn prog f t h args).2.1, InWindows args h.length f.retD s) ∧
    (∀ s ∈ (runFn prog f t h args).2.2.1, InWindows args h.length f.retC s) :=
  runFn_windows prog hprog f hf hto t h args

/-- **The library, concretely.**  For every function of the IR regenerated from the current source
that is not on the allow-list, every execution from every heap with every argument layout leaves
*every* array that existed at the call unchanged. -/
theorem lib_frame (f : FuncIR) (hf : f ∈ bufferProgs) (hna : f.allow = false)
    (t : Trace) (h : Heap) (args : Env) (a : Nat) (ha : a < h.length) :
    (runFn bufferProgs f t h args).1[a]? = h[a]? := by
  apply runFn_frame_all bufferProgs lib_consistent f hf _ t h args a ha
  have := lib_touches_nothing
  rw [List.all_eq_true] at this
  have hx := this f (by simp [notAllowed, hf, hna])
  simpa using hx

/-- the library, concretely (windows): no function outside the allow-list ever holds or returns a view
of caller memory outside the visible windows of its arguments -/
theorem lib_visible_partial (f : FuncIR) (hf : f ∈ bufferProgs) (hna : f.allow = false)
    (t : Trace) (h : Heap) (args : Env) :
    (∀ r s, s ∈ (runFn bufferProgs f t h args).2.2.2 r → InWindows args h.length (tagOf f r) s) ∧
    (∀ s ∈ (runFn bufferProgs f t h args).2.1, InWindows args h.length f.retD s) ∧
    (∀ s ∈ (runFn bufferProgs f t h args).2.2.1, InWindows args h.length f.retC s) := by
  apply runFn_windows bufferProgs lib_consistent f hf _ t h args
  have := lib_touches_nothing
  rw [List.all_eq_true] at this
  have hx := this f (by simp [notAllowed, hf, hna])
  simpa using hx

/-- the hypotheses are satisfiable on the regenerated IR: `wif.Encode` is in the program, is exported,
not allow-listed, has its key parameter guarded, and passes the check -/
example : ∃ f ∈ bufferProgs, f.name = "wif.Encode" ∧ f.api = true ∧ f.allow = false ∧ f.guarded = [0, 1] ∧
    check bufferProgs f = true := by
  decide +kernel

end BtcVerif.Props.C18
