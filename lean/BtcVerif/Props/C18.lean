/-
C18 — library calls never modify or depend on caller-owned buffers.

* `Model/SliceHeap.lean`: heap of byte arrays, Go's `append` / store / `copy` / reslice, the
  buffer-operation IR, its trace semantics `run` and the ownership checker `check`.
* `Gen/BufferProgs.lean`: the IR of every function of the repository that may receive caller-owned
  byte-slice memory, REGENERATED from the SSA form of the current Go source on every check run.
* this file: the property's statements.  `lib_safe` is evaluated by the Lean kernel on the regenerated
  IR; `check_sound_*` say what a successful evaluation means for every heap, every argument layout
  (any capacities, offsets, overlaps) and every execution.
The canary rig (`harness/buffers.go`) is the correspondence: it calls the real functions with their
arguments inside canary-filled arrays and supplies the concrete failing call when `lib_safe` breaks.
-/
import BtcVerif.Gen.BufferProgs
import BtcVerif.Proofs.SliceHeap

namespace BtcVerif.Props.C18
open BtcVerif.Model.SliceHeap BtcVerif.Gen

/-- not on the documented in-place allow-list -/
def notAllowed (f : FuncIR) : Bool := !f.allow

-- what the extractor itself found (shown in the build log when `lib_safe` fails)
#eval if bufferDiagnostics.isEmpty then pure () else
  IO.println ("C18 violations found by the extractor:\n  " ++ "\n  ".intercalate bufferDiagnostics)

/-- **The library is safe**: every function that is not on the allow-list passes the ownership check
on the IR regenerated from the current source — its body is consistent with its tags and summary, and
if it is exported it neither writes, appends to, nor reads beyond the length of any caller-owned byte
slice (directly or through any callee).  Evaluated by the kernel. -/
theorem lib_safe : (bufferProgs.filter notAllowed).all (check bufferProgs) = true := by
  decide +kernel

/-- every function, the allow-listed ones included, is consistent with its tags and its summary
(the hypothesis of the soundness theorems) -/
theorem lib_consistent : bufferProgs.all (bodyOk bufferProgs) = true := by
  decide +kernel

/-- the allow-list is exactly the documented in-place functions (`common.ReverseBytesInPlace`,
`(*bhash.MultiHasher).Sum` by the `hash.Hash` contract) -/
theorem allow_list_exact :
    (bufferProgs.filter (·.allow)).map (·.name) = bufferAllow ∧
    bufferAllow = ["bhash.(*MultiHasher).Sum", "common.ReverseBytesInPlace"] := by
  decide +kernel

end BtcVerif.Props.C18
