/-
  C02 — identifiers, sizes, weight and target are those of the canonical serialization.
  Identifiers are `rev ∘ dsha256 ∘ enc` by construction of the oracle (Prim.SHA256 is the independent
  implementation compared with Go on every case); the theorems below are about what is hashed and
  about every number the library reports.
-/
import BtcVerif.Props.GuardPins.P_varint
import BtcVerif.Props.GuardPins.P_blocks_merkle
import BtcVerif.Props.GuardPins.P_blocks_blockheader
import BtcVerif.Props.GuardPins.P_blocks
import BtcVerif.Props.GuardPins.P_tx
import BtcVerif.Proofs.Sizes
import BtcVerif.Proofs.Merkle
import BtcVerif.Proofs.Target

namespace BtcVerif.Props.C02
open BtcVerif BtcVerif.Model

/-- Size / SizeNoWitness / the WriteTo count = number of bytes emitted -/
theorem size_eq_length (tx : Tx) (w : Bool) (bs : Bytes)
    (hin : ∀ i ∈ tx.inputs, WFPrevOut i.prev) (he : encTx tx w = .ok bs) : sizeTx tx w = bs.length :=
  sizeTx_eq_length tx w bs hin he

theorem varint_size_eq_length (v : Nat) : varintSize v = (encVarint v).length := varintSize_eq_length v
theorem input_size_eq_length (i : TxIn) (h : WFTxIn i) : sizeTxIn i = (encTxIn i).length := sizeTxIn_eq i h
theorem output_size_eq_length (o : TxOut) : sizeTxOut o = (encTxOut o).length := sizeTxOut_eq o
theorem witness_size_eq_length (w : Witness) : sizeWitness w = (encWitness w).length := sizeWitness_eq w
theorem header_size (h : Header) (hw : WFHeader h) : (encHeader h).length = 80 := encHeader_length h hw

theorem block_size_eq_length (b : Block) (bs : Bytes) (hh : WFHeader b.header)
    (ht : ∀ t ∈ b.txs, ∀ i ∈ t.inputs, WFPrevOut i.prev) (he : encBlock b = .ok bs) :
    sizeBlock b = bs.length := sizeBlock_eq_length b bs hh ht he

theorem nowit_le (tx : Tx) : sizeTx tx false ≤ sizeTx tx true := sizeTx_nowit_le tx

/-- weight = 3 · stripped size + total size -/
theorem weight_eq (tx : Tx) : weightTx tx = 3 * sizeTx tx false + sizeTx tx true := weightTx_eq tx

/-- virtual size = ⌈weight / 4⌉ -/
theorem vsize_eq (tx : Tx) : 4 * vsizeTx tx ≥ weightTx tx ∧ 4 * vsizeTx tx < weightTx tx + 4 := vsizeTx_ceil tx

theorem block_weight_sum (b : Block) :
    weightBlock b = 4 * (80 + varintSize b.txs.length) + (b.txs.map weightTx).sum := weightBlock_sum b

/-- the txid preimage does not depend on the witnesses -/
theorem txid_ignores_witness (tx : Tx) (ws : Option (List Witness))
    (h1 : canSerialize tx = true) (h2 : canSerialize { tx with witnesses := ws } = true) :
    encTx { tx with witnesses := ws } false = encTx tx false := Model.txid_ignores_witness tx ws h1 h2

theorem wtxid_eq_txid_of_no_witness (tx : Tx) (h : tx.witnesses = none) :
    encTx tx true = encTx tx false := Model.wtxid_eq_txid_of_no_witness tx h

/-- the merkle root is Bitcoin's: pair nodes, duplicate the last node of an odd level — for every
    pair-hash function and every non-empty list, of any length -/
theorem merkle_eq_reference {α} (H : α → α → α) (hs : List α) (hne : hs ≠ []) :
    merkleModel H (hs.length + 1) hs = Spec.computeMerkleRoot H hs.length hs ∧
    (Spec.computeMerkleRoot H hs.length hs).isSome :=
  ⟨merkleModel_eq_spec H hs.length hs hne (Nat.le_refl _), merkleModel_isSome H hs hne⟩

/-- nBits → target equals `SetCompact` whenever the exponent byte is ≤ 32 -/
theorem target_eq_setCompact (n : Nat) (he : n >>> 24 ≤ 32) : targetModel n = .ok (Spec.setCompact n) :=
  targetModel_eq_setCompact n he

theorem target_lt_2_256 (n : Nat) (he : n >>> 24 ≤ 32) : Spec.setCompact n < 2 ^ 256 := setCompact_lt n he

/-- outside that range the library's contract is an explicit panic (not part of the claim) -/
theorem target_panic_contract (n : Nat) (hs : n &&& 0x800000 = 0) (he : n >>> 24 > 32) :
    targetModel n = .panic := targetModel_panics_above n hs he

/-! non-vacuity -/
example : (0x1d00ffff : Nat) >>> 24 ≤ 32 := by decide
example : Spec.setCompact 0x1d00ffff = 0xffff * 2 ^ 208 := by decide
example : Spec.computeMerkleRoot (fun a b : Nat => 10 * a + b) 3 [1, 2, 3] = some 153 := by decide

end BtcVerif.Props.C02
