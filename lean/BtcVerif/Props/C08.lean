/-
  C08 — Base58, Base58Check and Bech32 decoding are exact partial inverses of encoding.
  Property theorems only; the proofs are in `Proofs/Base58.lean` and `Proofs/Bech32*.lean`.
  Strings are byte strings (`Bytes`), as in the Go code.
-/
import BtcVerif.Props.GuardPins.P_bech32
import BtcVerif.Props.GuardPins.P_base58check
import BtcVerif.Props.GuardPins.P_base58
import BtcVerif.Proofs.Base58
import BtcVerif.Proofs.Bech32Ref
import BtcVerif.Proofs.Bech32EncRef

namespace BtcVerif.Props.C08
open BtcVerif BtcVerif.Model

/-! ### ties to the regenerated constants (T1) -/

/-- the Base58 alphabet of the source has 58 distinct characters -/
theorem b58_alphabet_nodup : Base58.alphabet.length = 58 ∧ Base58.alphabet.Nodup := by decide

/-- `'1'` is the zero digit -/
theorem b58_alphabet_zero : Base58.alphabet.head? = some 0x31 := by decide

/-- the Bech32 alphabet and generator of the source are the ones of BIP173 -/
theorem bech32_alphabet_eq_spec : Bech32.alphabet = Spec.Bech32.charset := by decide

theorem bech32_generator_eq_spec :
    Gen.constants_Bech32ChecksumGen = [0x3b6a57b2, 0x26508e6d, 0x1ea119fa, 0x3d4233dd, 0x2a1462b3] := by
  decide

theorem bech32_separator_eq : strBytes Gen.bech32_Separator = [Bech32.sepChar] := by decide

/-! ### Base58 -/

/-- decoding what was encoded gives the bytes back, for every byte string -/
theorem b58_dec_enc (bs : Bytes) : Base58.decode (Base58.encode bs) = .ok bs :=
  Proofs.Base58.decode_encode bs

/-- every accepted string is the encoding of what it decodes to, so no two strings denote the
    same bytes -/
theorem b58_enc_dec (s bs : Bytes) (h : Base58.decode s = .ok bs) : Base58.encode bs = s :=
  Proofs.Base58.encode_decode s bs h

theorem b58_dec_injective (s₁ s₂ bs : Bytes) (h₁ : Base58.decode s₁ = .ok bs)
    (h₂ : Base58.decode s₂ = .ok bs) : s₁ = s₂ := by
  rw [← b58_enc_dec s₁ bs h₁, ← b58_enc_dec s₂ bs h₂]

theorem b58_no_panic (s : Bytes) : Base58.decode s ≠ .panic := Proofs.Base58.decode_ne_panic s

example : Base58.decode (Base58.encode [0, 0, 1, 2]) = .ok [0, 0, 1, 2] := b58_dec_enc _

/-! ### Base58Check, for ANY checksum function with four-byte values -/

theorem b58c_dec_enc (ck : Bytes → Bytes) (hck : ∀ x, (ck x).length = 4) (d : Bytes) :
    Base58Check.decode ck (Base58Check.encode ck d) = .ok d :=
  Proofs.Base58.Check.decode_encode ck hck d

theorem b58c_dec_encVersion (ck : Bytes → Bytes) (hck : ∀ x, (ck x).length = 4) (d : Bytes) (v : Nat) :
    Base58Check.decode ck (Base58Check.encodeVersion ck d v) = .ok (Base58Check.versionBytes v ++ d) :=
  Proofs.Base58.Check.decode_encode ck hck _

theorem b58c_enc_dec (ck : Bytes → Bytes) (s d : Bytes) (h : Base58Check.decode ck s = .ok d) :
    Base58Check.encode ck d = s :=
  Proofs.Base58.Check.encode_decode ck s d h

/-- any checksum mismatch is an error: a string that Base58-decodes to bytes whose last four are
    not the checksum of the others is rejected -/
theorem b58c_rejects_bad_checksum (ck : Bytes → Bytes) (s dec : Bytes)
    (h : Base58.decode s = .ok dec)
    (hbad : ck (dec.take (dec.length - 4)) ≠ dec.drop (dec.length - 4)) :
    Base58Check.decode ck s = .err :=
  Proofs.Base58.Check.rejects_bad_checksum ck s dec h hbad

/-- in particular: payload followed by any four bytes other than its checksum -/
theorem b58c_rejects_wrong_tail (ck : Bytes → Bytes) (d t : Bytes) (ht : t.length = 4)
    (hne : t ≠ ck d) : Base58Check.decode ck (Base58.encode (d ++ t)) = .err :=
  Proofs.Base58.Check.rejects_wrong_tail ck d t ht hne

theorem b58c_no_panic (ck : Bytes → Bytes) (s : Bytes) : Base58Check.decode ck s ≠ .panic :=
  Proofs.Base58.Check.decode_ne_panic ck s

/-- the hypothesis on the checksum function is satisfiable -/
example : ∀ x : Bytes, ((fun _ => [1, 2, 3, 4]) x : Bytes).length = 4 := fun _ => rfl

/-! ### Bech32 -/

open Proofs.Bech32 in
/-- the checksum computation is XOR-linear: runs over value lists of the same length add up -/
theorem polymod_linear (xs ys : List Nat) (c d : Nat) (h : xs.length = ys.length) :
    pm (c ^^^ d) (List.zipWith (· ^^^ ·) xs ys) = pm c xs ^^^ pm d ys :=
  pm_linear xs ys c d h

/-- `bech32Polymod` is `pm` started at 1 -/
theorem polymod_is_pm (vs : List Nat) : Bech32.polymod vs = Proofs.Bech32.pm 1 vs := rfl

/-- the six values `bech32CreateChecksum` appends make `bech32VerifyChecksum` succeed -/
theorem checksum_verifies (hrp : Bytes) (values : List Nat) (hv : ∀ v ∈ values, v < 32) :
    Bech32.verifyChecksum hrp (values ++ Bech32.createChecksum hrp values) = true :=
  Proofs.Bech32.verify_create hrp values hv

/-- … and no other six values do -/
theorem checksum_unique (hrp : Bytes) (values cs : List Nat) (hv : ∀ v ∈ values, v < 32)
    (hcl : cs.length = 6) (hc : ∀ c ∈ cs, c < 32)
    (h : Bech32.verifyChecksum hrp (values ++ cs) = true) : cs = Bech32.createChecksum hrp values :=
  Proofs.Bech32.verify_unique hrp values cs hv hcl hc h

/-- the model's checksum is the reference's -/
theorem checksum_eq_reference (hrp : Bytes) (d : List Nat) :
    Bech32.verifyChecksum hrp d = Spec.Bech32.verifyChecksum hrp d :=
  Proofs.Bech32.verify_eq_spec hrp d

/-- decode ∘ encode: for a valid human-readable part (non-empty, characters 33..126, no upper
    case), a version below 32, a non-empty payload and a total length of at most 90 characters,
    `Encode` succeeds and `Decode` returns exactly the three inputs -/
theorem bech32_dec_enc (hrp : Bytes) (version : Nat) (data : Bytes) (hh : Proofs.Bech32.ValidHrp hrp)
    (hv : version < 32) (hne : data ≠ [])
    (hlen : hrp.length + 8 + (8 * data.length + 4) / 5 ≤ 90) :
    ∃ s, Bech32.encode hrp version data = .ok s ∧ Bech32.decode s = .ok (hrp, version, data) := by
  obtain ⟨k, hk, _, _, hcount⟩ := Proofs.Bech32.bytesToIndices_facts data hne
  exact Proofs.Bech32.decode_encode hrp version data hh hv hne (by omega)

/-- encode ∘ decode: whatever `Decode` accepts re-encodes to the (lower-cased) input, so no two
    strings that differ by more than case denote the same (hrp, version, payload) -/
theorem bech32_enc_dec_canonical (s hrp : Bytes) (version : Nat) (data : Bytes)
    (hd : Bech32.decode s = .ok (hrp, version, data)) :
    Bech32.encode hrp version data = .ok (Bech32.lower s) :=
  Proofs.Bech32.encode_decode s hrp version data hd

/-- a string is accepted exactly when the BIP173 reference decoder accepts it, with the same
    result — for EVERY string (mixed case, characters outside the alphabet, lengths, empty data
    part, non-zero or over-long padding, checksum) -/
theorem model_eq_reference (s : Bytes) : Bech32.decode s = Spec.Bech32.bip173Decode s :=
  Proofs.Bech32.decode_eq_spec s

/-- on its domain (non-empty payload, version below 32, at most 90 characters) `Encode` returns
    exactly the string of the BIP173 reference encoder
    `bech32_encode(hrp, [version] + convertbits(payload, 8, 5))` -/
theorem bech32_enc_eq_reference (hrp : Bytes) (version : Nat) (data : Bytes) (hne : data ≠ [])
    (hv : version < 32) (hlen : hrp.length + 8 + (8 * data.length + 4) / 5 ≤ 90) :
    Spec.Bech32.toOutcome (Spec.Bech32.bip173Encode hrp version data) = Bech32.encode hrp version data := by
  obtain ⟨k, hk, _, _, hcount⟩ := Proofs.Bech32.bytesToIndices_facts data hne
  exact Proofs.Bech32.encode_eq_spec hrp version data hne hv (by omega)

/-- neither direction can panic -/
theorem no_panic (s : Bytes) : Bech32.decode s ≠ .panic := Proofs.Bech32.decode_ne_panic s

theorem encode_no_panic (hrp : Bytes) (version : Nat) (hb : version < 256) (data : Bytes) :
    Bech32.encode hrp version data ≠ .panic :=
  Proofs.Bech32.encode_ne_panic hrp version hb data

/-- `Encode` never returns a string longer than 90 characters (D13) -/
theorem encode_length_le (hrp : Bytes) (version : Nat) (hb : version < 256) (data s : Bytes)
    (h : Bech32.encode hrp version data = .ok s) : s.length ≤ 90 :=
  Proofs.Bech32.encode_length_le hrp version hb data s h

/-- error detection at the level of data values: if `data` verifies, no value list of the same
    length at Hamming distance 1 or 2 verifies (data parts of up to 89 values; a 90-character
    string has at most 88). The proof is XOR-linearity, injectivity of the zero-input state
    transition, and a kernel-checked table of 31 × 88 polymod rounds over the regenerated
    generator constants. -/
theorem detects_two_substitutions (hrp : Bytes) (data data' : List Nat)
    (hlen : data'.length = data.length) (hd : ∀ x ∈ data, x < 32) (hd' : ∀ x ∈ data', x < 32)
    (hmax : data.length ≤ 89) (hv : Bech32.verifyChecksum hrp data = true)
    (h1 : 1 ≤ Proofs.Bech32.hamming data data') (h2 : Proofs.Bech32.hamming data data' ≤ 2) :
    Bech32.verifyChecksum hrp data' = false :=
  Proofs.Bech32.detects_two hrp data data' hlen hd hd' hmax hv h1 h2

/-- … and at the level of strings: substituting one or two data characters of a valid string
    (of at most 90 characters) by other alphabet characters gives a string `Decode` rejects -/
theorem detects_two_substitutions_string (hrp : Bytes) (hh : Proofs.Bech32.ValidHrp hrp)
    (data data' : List Nat) (hlen : data'.length = data.length) (hd : ∀ x ∈ data, x < 32)
    (hd' : ∀ x ∈ data', x < 32) (htot : hrp.length + 1 + data.length ≤ 90)
    (hv : Bech32.verifyChecksum hrp data = true)
    (h1 : 1 ≤ Proofs.Bech32.hamming data data') (h2 : Proofs.Bech32.hamming data data' ≤ 2) :
    Bech32.decode (hrp ++ [Bech32.sepChar] ++ data'.map Proofs.Bech32.achar) = .err := by
  have hhl : 1 ≤ hrp.length := by
    cases hrp with
    | nil => exact absurd rfl hh.ne
    | cons _ _ => simp
  have hbad := detects_two_substitutions hrp data data' hlen hd hd' (by omega) hv h1 h2
  by_cases hval : ∃ pos, Proofs.Bech32.ValidAt (hrp ++ [Bech32.sepChar] ++ data'.map Proofs.Bech32.achar) pos
  · obtain ⟨pos, hval⟩ := hval
    obtain ⟨p1, p2, _, _, p5, _⟩ := Proofs.Bech32.map_achar_props data' hd'
    have hs : hrp ++ [Bech32.sepChar] ++ data'.map Proofs.Bech32.achar =
        hrp ++ Bech32.sepChar :: data'.map Proofs.Bech32.achar := by simp
    have hpos : pos = hrp.length := by
      have h1 := hval.sep
      rw [hs, Proofs.Bech32.rfind_append Bech32.sepChar hrp _ p2] at h1
      injection h1 with h1; exact h1.symm
    subst hpos
    rw [Proofs.Bech32.decode_normal _ _ hval]
    have hsepl : Bech32.lowerByte Bech32.sepChar = Bech32.sepChar := by decide
    have hlow : Bech32.lower (hrp ++ [Bech32.sepChar] ++ data'.map Proofs.Bech32.achar) =
        hrp ++ [Bech32.sepChar] ++ data'.map Proofs.Bech32.achar := by
      simp only [Bech32.lower, List.map_append, List.map_cons, List.map_nil, hsepl]
      have h1 : hrp.map Bech32.lowerByte = hrp := hh.lowercase
      have h2 : (data'.map Proofs.Bech32.achar).map Bech32.lowerByte = data'.map Proofs.Bech32.achar := p5
      rw [h1, h2]
    rw [hlow]
    have htake : (hrp ++ [Bech32.sepChar] ++ data'.map Proofs.Bech32.achar).take hrp.length = hrp := by
      rw [List.append_assoc]; exact List.take_left' rfl
    have hdrop : (hrp ++ [Bech32.sepChar] ++ data'.map Proofs.Bech32.achar).drop (hrp.length + 1) =
        data'.map Proofs.Bech32.achar := List.drop_left' (by simp)
    rw [htake, hdrop, p1, hbad]
    simp
  · exact Proofs.Bech32.decode_invalid _ hval

/-- the hypotheses are satisfiable: the BIP173 test vector `a12uel5l` (hrp "a", empty data) -/
example : Bech32.verifyChecksum [0x61] [10, 28, 25, 31, 20, 31] = true := by decide
example : Proofs.Bech32.ValidHrp [0x62, 0x63] := ⟨by decide, by decide, by decide⟩

open BtcVerif.Gen.Guards in
/-- the mixed-case test of `bech32.Validate` (decode.go:80) is the conjunction the model writes by hand:
the string differs from its lower-case form and from its upper-case form -/
theorem mixed_case_test_pinned (s lower upper : String) :
    bech32_Validate_4 (bechAndHrp := s) (lowerCase := lower) (upperCase := upper) =
      (decide (s ≠ lower) && decide (s ≠ upper)) := rfl

end BtcVerif.Props.C08
