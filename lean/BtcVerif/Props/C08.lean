/-
  C08 — Base58, Base58Check and Bech32 decoding are exact partial inverses of encoding.
  Property theorems only; the proofs are in `Proofs/Base58.lean` and `Proofs/Bech32*.lean`.
  Strings are byte strings (`Bytes`), as in the Go code.
-/
import BtcVerif.Proofs.Base58
import BtcVerif.Model.Bech32
import BtcVerif.Spec.Bech32

namespace BtcVerif.Props.C08
open BtcVerif BtcVerif.Model

/-! ### ties to the regenerated constants (T1) -/

/-- the Base58 alphabet of the source has 58 distinct characters -/
theorem b58_alphabet_nodup : Base58.alphabet.length = 58 ∧ Base58.alphabet.Nodup := by decide

/-- `'1'` is the zero digit -/
theorem b58_alphabet_zero : Base58.alphabet.head? = some 0x31 := by decide

/-- the Bech32 alphabet and generator of the source are the ones of BIP173 -/
theorem bech32_alphabet_eq_spec : Bech32.alphabet = Spec.Bech32.charset := by decide

theorem bech32_generator_eq_spec :
    Gen.constants_Bech32ChecksumGen = [0x3b6a57b2, 0x26508e6d, 0x1ea119fa, 0x3d4233dd, 0x2a1462b3] := by
  decide

theorem bech32_separator_eq : strBytes Gen.bech32_Separator = [Bech32.sepChar] := by decide

/-! ### Base58 -/

/-- decoding what was encoded gives the bytes back, for every byte string -/
theorem b58_dec_enc (bs : Bytes) : Base58.decode (Base58.encode bs) = .ok bs :=
  Proofs.Base58.decode_encode bs

/-- every accepted string is the encoding of what it decodes to, so no two strings denote the
    same bytes -/
theorem b58_enc_dec (s bs : Bytes) (h : Base58.decode s = .ok bs) : Base58.encode bs = s :=
  Proofs.Base58.encode_decode s bs h

theorem b58_dec_injective (s₁ s₂ bs : Bytes) (h₁ : Base58.decode s₁ = .ok bs)
    (h₂ : Base58.decode s₂ = .ok bs) : s₁ = s₂ := by
  rw [← b58_enc_dec s₁ bs h₁, ← b58_enc_dec s₂ bs h₂]

theorem b58_no_panic (s : Bytes) : Base58.decode s ≠ .panic := Proofs.Base58.decode_ne_panic s

example : Base58.decode (Base58.encode [0, 0, 1, 2]) = .ok [0, 0, 1, 2] := b58_dec_enc _

/-! ### Base58Check, for ANY checksum function with four-byte values -/

theorem b58c_dec_enc (ck : Bytes → Bytes) (hck : ∀ x, (ck x).length = 4) (d : Bytes) :
    Base58Check.decode ck (Base58Check.encode ck d) = .ok d :=
  Proofs.Base58.Check.decode_encode ck hck d

theorem b58c_dec_encVersion (ck : Bytes → Bytes) (hck : ∀ x, (ck x).length = 4) (d : Bytes) (v : Nat) :
    Base58Check.decode ck (Base58Check.encodeVersion ck d v) = .ok (Base58Check.versionBytes v ++ d) :=
  Proofs.Base58.Check.decode_encode ck hck _

theorem b58c_enc_dec (ck : Bytes → Bytes) (s d : Bytes) (h : Base58Check.decode ck s = .ok d) :
    Base58Check.encode ck d = s :=
  Proofs.Base58.Check.encode_decode ck s d h

/-- any checksum mismatch is an error: a string that Base58-decodes to bytes whose last four are
    not the checksum of the others is rejected -/
theorem b58c_rejects_bad_checksum (ck : Bytes → Bytes) (s dec : Bytes)
    (h : Base58.decode s = .ok dec)
    (hbad : ck (dec.take (dec.length - 4)) ≠ dec.drop (dec.length - 4)) :
    Base58Check.decode ck s = .err :=
  Proofs.Base58.Check.rejects_bad_checksum ck s dec h hbad

/-- in particular: payload followed by any four bytes other than its checksum -/
theorem b58c_rejects_wrong_tail (ck : Bytes → Bytes) (d t : Bytes) (ht : t.length = 4)
    (hne : t ≠ ck d) : Base58Check.decode ck (Base58.encode (d ++ t)) = .err :=
  Proofs.Base58.Check.rejects_wrong_tail ck d t ht hne

theorem b58c_no_panic (ck : Bytes → Bytes) (s : Bytes) : Base58Check.decode ck s ≠ .panic :=
  Proofs.Base58.Check.decode_ne_panic ck s

/-- the hypothesis on the checksum function is satisfiable -/
example : ∀ x : Bytes, ((fun _ => [1, 2, 3, 4]) x : Bytes).length = 4 := fun _ => rfl

end BtcVerif.Props.C08
