/-
  C11 — the DER signature codec accepts exactly BIP66 strict encodings.
  Property theorems only (helper lemmas live in BtcVerif/Proofs/DER.lean, DERInt.lean, DEREnc.lean).

  * `decode`, `encode`, `encodeBigInt`, `checkEncodable` are the models of `der.DecodeSignature`,
    `der.EncodeSignature`, `der.EncodeBigInt`, `der.CheckEncodableBigInt` (Model/DER.lean; guards
    regenerated from the Go source, every index/slice bounds-checked, `*big.Int` = `Option Int`).
  * `Spec.bip66` is the independent transcription of BIP66's `IsValidSignatureEncoding`
    (Spec/BIP66.lean) on a signature followed by its hash-type byte.
  * `frame rb sb ht` is the byte string `30 (|rb|+|sb|+4) 02 |rb| rb 02 |sb| sb ht`.
  All statements quantify over ALL byte strings / integers; there is no size bound anywhere.
-/
import BtcVerif.Props.GuardPins.P_der
import BtcVerif.Proofs.DEREnc

namespace BtcVerif.Props.C11
open BtcVerif BtcVerif.Model.DER BtcVerif.Spec

/-- no byte string makes the decoder panic: every index and slice expression of
    `DecodeSignature` is in range whenever it is reached (false before the repair of D1, witness
    `30 06 02 04 01 01 01 01 02`) -/
theorem der_no_panic (bs : Bytes) : (decode bs).isPanic = false := by
  have := decode_ne_panic bs
  cases h : decode bs <;> simp_all [Outcome.isPanic]

/-- the decoder accepts exactly the strings BIP66's predicate accepts; every other string is
    rejected with an error (see `der_rejects_with_error`) -/
theorem der_accepts_iff_bip66 (bs : Bytes) : (decode bs).isOk = true ↔ bip66 bs = true :=
  (decode_isOk_iff bs).trans (bip66_iff_valid bs).symm

/-- what is not BIP66-valid is answered with the error, not with a panic -/
theorem der_rejects_with_error (bs : Bytes) (h : bip66 bs = false) : decode bs = .err := by
  rcases decode_cases bs with ⟨hv, _⟩ | ⟨_, e⟩
  · rw [(bip66_iff_valid bs).mpr hv] at h; cases h
  · exact e

/-- the reference predicate never reads outside the string: its value is the same whatever an
    out-of-range read would return (so `bip66 := bip66With 0` loses nothing) -/
theorem bip66_reads_in_range (d d' : UInt8) (bs : Bytes) : bip66With d bs = bip66With d' bs :=
  bip66With_default_irrelevant d d' bs

/-- the decoded fields are the encoded values: an accepted string is the frame around two
    non-empty integer contents and a last byte, `r` and `s` are the big-endian values
    (`big.Int.SetBytes`) of the contents and the hash type is the last byte -/
theorem der_decode_fields (bs : Bytes) (g : Sig) (h : decode bs = .ok g) :
    ∃ rb sb ht, bs = frame rb sb ht ∧ rb ≠ [] ∧ sb ≠ [] ∧
      rb.length + sb.length + 7 = bs.length ∧
      g = ⟨beNat rb, beNat sb, ht.toNat⟩ := by
  obtain ⟨hv, hg⟩ := (decode_ok_iff bs g).mp h
  obtain ⟨hf, _, _, nr, ns, hl⟩ := frame_of_valid bs hv
  refine ⟨rB bs, sB bs, byteOf (A bs (bs.length - 1)), hf, nr, ns, hl, ?_⟩
  rw [hg, byteOf_toNat (A_lt bs _)]; rfl

/-- encoding any `0 ≤ r, s < 2^256` with a one-byte hash type succeeds and yields a BIP66-valid
    string of 9 to 73 bytes -/
theorem der_enc_valid (r s ht : Nat) (hr : r < 2 ^ 256) (hs : s < 2 ^ 256) (hht : ht < 256) :
    ∃ out, encode (some (r : Int)) (some (s : Int)) ht = .ok out ∧ bip66 out = true ∧
      9 ≤ out.length ∧ out.length ≤ 73 := by
  obtain ⟨hv, _, h9, h73⟩ := decode_frame_content hr hs (show ht ≤ 255 by omega)
  refine ⟨_, ?_, (bip66_iff_valid _).mpr hv, h9, h73⟩
  have := encode_ok (zr := (r : Int)) (zs := (s : Int)) (ht := ht) (Int.natCast_nonneg _)
    (by exact_mod_cast hr) (Int.natCast_nonneg _) (by exact_mod_cast hs) (by omega)
  simpa using this

/-- decode ∘ encode: what the encoder emits decodes to the same triple -/
theorem der_dec_enc (r s ht : Nat) (hr : r < 2 ^ 256) (hs : s < 2 ^ 256) (hht : ht < 256)
    (out : Bytes) (h : encode (some (r : Int)) (some (s : Int)) ht = .ok out) :
    decode out = .ok ⟨r, s, ht⟩ := by
  have e := encode_ok (zr := (r : Int)) (zs := (s : Int)) (ht := ht) (Int.natCast_nonneg _)
    (by exact_mod_cast hr) (Int.natCast_nonneg _) (by exact_mod_cast hs) (by omega)
  simp only [Int.natAbs_natCast] at e
  rw [e] at h; injection h with h; subst h
  exact (decode_frame_content hr hs (show ht ≤ 255 by omega)).2.1

/-- encode ∘ decode: anything decodable whose integers are below 2^256 re-encodes to identical
    bytes. (`_partial`: the property text says "anything decodable"; that is FALSE of the code and
    of any code satisfying the rest of the property — see below; nothing is missing from the proof.)

    The hypotheses `g.r < 2^256`, `g.s < 2^256` cannot be dropped: BIP66 (and therefore the
    decoder, by `der_accepts_iff_bip66`) admits integers of up to 64 content bytes, while
    `EncodeSignature` refuses everything of more than 256 bits (`der_refuses`). The property's two
    clauses "anything decodable re-encodes to identical bytes" and "oversized integers are
    refused" contradict each other on those strings; `der_enc_dec_oversized` states what the
    code does there and `der_enc_dec_oversized_witness` exhibits such a string. -/
theorem der_enc_dec_partial (bs : Bytes) (g : Sig) (h : decode bs = .ok g)
    (hr : g.r < 2 ^ 256) (hs : g.s < 2 ^ 256) :
    encode (some (g.r : Int)) (some (g.s : Int)) g.ht = .ok bs := by
  obtain ⟨hv, hg⟩ := (decode_ok_iff bs g).mp h
  subst hg
  exact encode_fields_of_valid bs hv hr hs

/-- a decodable string with an integer of more than 256 bits is refused by the encoder -/
theorem der_enc_dec_oversized (bs : Bytes) (g : Sig) (h : decode bs = .ok g)
    (hbig : ¬ (g.r < 2 ^ 256 ∧ g.s < 2 ^ 256)) :
    encode (some (g.r : Int)) (some (g.s : Int)) g.ht = .err := by
  rcases encode_cases (some (g.r : Int)) (some (g.s : Int)) g.ht with ⟨⟨⟨zr, e1, _, h1⟩, ⟨zs, e2, _, h2⟩, _⟩, _⟩ | ⟨_, e⟩
  · injection e1 with e1; injection e2 with e2
    subst e1 e2
    exact absurd ⟨by exact_mod_cast h1, by exact_mod_cast h2⟩ hbig
  · exact e

/-- such strings exist: `30 26 02 21 01 00…00 02 01 01 01` (r = 2^256 in 33 bytes) is BIP66-valid,
    decodes, and its fields are refused by the encoder -/
theorem der_enc_dec_oversized_witness :
    let bs : Bytes := frame (1 :: List.replicate 32 0) [1] 1
    bip66 bs = true ∧ decode bs = .ok ⟨2 ^ 256, 1, 1⟩ ∧
      encode (some ((2 : Int) ^ 256)) (some 1) 1 = .err := by
  refine ⟨by decide, by decide, ?_⟩
  refine encode_err_r (some 1) 1 ?_
  rintro ⟨z, e, _, h1⟩
  injection e with e; subst e
  exact absurd h1 (Int.lt_irrefl _)

/-- what the encoder refuses, and how: the call succeeds exactly when both integers are non-nil,
    non-negative and below 2^256 and the hash type fits a byte; in every other case (nil,
    negative, ≥ 2^256, hash type > 0xff) it returns the error — never a panic -/
theorem der_refuses (r s : Option Int) (ht : Nat) :
    ((encode r s ht).isOk = true ↔
      ((∃ z, r = some z ∧ 0 ≤ z ∧ z < 2 ^ 256) ∧ (∃ z, s = some z ∧ 0 ≤ z ∧ z < 2 ^ 256) ∧ ht ≤ 255)) ∧
    ((encode r s ht).isOk = false → encode r s ht = .err) := by
  rcases encode_cases r s ht with ⟨hc, e⟩ | ⟨hc, e⟩
  · refine ⟨⟨fun _ => hc, fun _ => e⟩, fun h => ?_⟩
    rw [e] at h; cases h
  · refine ⟨⟨fun h => ?_, fun h => absurd h hc⟩, fun _ => e⟩
    rw [e] at h; cases h

/-- `EncodeBigInt` / `CheckEncodableBigInt`: nil, negative and ≥ 2^256 are refused with the error,
    everything else is encoded as tag 2, one length byte and the minimal non-negative content -/
theorem der_encint (v : Option Int) :
    ((∃ z, v = some z ∧ 0 ≤ z ∧ z < 2 ^ 256 ∧ checkEncodable v = .ok () ∧
        encodeBigInt v = .ok (2 :: byteOf (content z.natAbs).length :: content z.natAbs) ∧
        beNat (content z.natAbs) = z.natAbs ∧ IntOK (content z.natAbs) ∧
        1 ≤ (content z.natAbs).length ∧ (content z.natAbs).length ≤ 33)) ∨
    ((¬ ∃ z, v = some z ∧ 0 ≤ z ∧ z < 2 ^ 256) ∧ checkEncodable v = .err ∧ encodeBigInt v = .err) := by
  cases v with
  | none =>
    right
    refine ⟨?_, rfl, rfl⟩
    rintro ⟨z, h, _⟩
    cases h
  | some z =>
    by_cases hz : 0 ≤ z ∧ z < 2 ^ 256
    · left
      have hn : z.natAbs < 2 ^ 256 := (natAbs_lt_iff hz.1).mpr hz.2
      exact ⟨z, rfl, hz.1, hz.2, checkEncodable_ok hz.1 hz.2, encodeBigInt_ok hz.1 hz.2,
        beNat_content _, IntOK_content _, (content_length _).1, content_length_le hn⟩
    · right
      refine ⟨?_, checkEncodable_err hz, encodeBigInt_err hz⟩
      rintro ⟨z', h, h0, h1⟩
      injection h with h; subst h; exact hz ⟨h0, h1⟩

/-! ### non-vacuity: concrete values satisfy the hypotheses and exercise both branches -/

/-- a typical signature: 32-byte r with the top bit set (pad byte), 32-byte s without -/
example :
    let r : Nat := 2 ^ 255 + 12345
    let s : Nat := 2 ^ 254 + 1
    r < 2 ^ 256 ∧ s < 2 ^ 256 ∧ (1 : Nat) < 256 := by decide

/-- … and it is encoded in the maximal 73 − 1 = 72 bytes … -/
example : (encode (some (2 ^ 255 + 12345)) (some (2 ^ 254 + 1)) 1).map List.length = .ok 72 := by decide
/-- the largest arguments give the largest encoding, 73 bytes -/
example : (encode (some (2 ^ 256 - 1)) (some (2 ^ 256 - 1)) 255).map List.length = .ok 73 := by decide
/-- the smallest, 9 bytes -/
example : (encode (some 0) (some 0) 0).map List.length = .ok 9 := by decide
example : decode [0x30, 0x06, 0x02, 0x01, 0x01, 0x02, 0x01, 0x01, 0x01] = .ok ⟨1, 1, 1⟩ := by decide
example : bip66 [0x30, 0x06, 0x02, 0x01, 0x01, 0x02, 0x01, 0x01, 0x01] = true := by decide
/-- the D1 reproducer is rejected with an error by the repaired code -/
example : decode [0x30, 0x06, 0x02, 0x04, 0x01, 0x01, 0x01, 0x01, 0x02] = .err := by decide
example : encode (some 128) (some 127) 255 = .ok [0x30, 0x07, 0x02, 0x02, 0x00, 0x80, 0x02, 0x01, 0x7f, 0xff] := by
  decide

end BtcVerif.Props.C11
