/-
  C15 — the UTXO set and value accounting match a reference model after any history.

  Model: `Model/Utxo.lean` (unspent/output_set.go), `Model/Fee.lean` (feecalc, satutil), `Prim/F64.lean`
  (exact binary64).  Reference: `Spec/Utxo.lean` (a partial function outpoint → output and the
  declarative meaning of every operation).  The transaction hash is a parameter: the statements hold
  for every `txidOf : Tx → Option Bytes` (`txn.Hash(false)`, `none` = serialisation error); `H` is the
  hash as a total function on the transactions that occur.
-/
import BtcVerif.Props.GuardPins.P_feecalc
import BtcVerif.Props.GuardPins.P_unspent
import BtcVerif.Proofs.Utxo
import BtcVerif.Proofs.Fee
import BtcVerif.Proofs.FeeRange
import BtcVerif.Proofs.F64Sats
import BtcVerif.Proofs.F64Bits

namespace BtcVerif.Props.C15
open BtcVerif BtcVerif.Model BtcVerif.Model.Utxo BtcVerif.Proofs.Utxo

/-! ## the state machine refines the reference -/

/-- Every operation without nil pointers hands back what the reference says and commutes with the
    abstraction `abs : State → (PrevOut → Option TxOut)`. -/
theorem utxo_refines_spec (txidOf : Tx → Option Bytes) (H : Tx → Bytes) {s : State} {op : Op}
    {sop : Spec.Utxo.Op} (hs : Distinct s) (hm : Matches op sop) (hb : BlockOK txidOf H op) :
    ∃ r, specRes (step txidOf s op).2 = some r ∧
      Spec.Utxo.Step H (abs s) sop (abs (step txidOf s op).1) r :=
  step_refines txidOf H hs hm hb

/-- … and so does every history, from every state with distinct keys (in particular the new set). -/
theorem utxo_history_refines_spec (txidOf : Tx → Option Bytes) (H : Tx → Bytes) {ops : List Op}
    {sops : List Spec.Utxo.Op} (hm : Forall2 Matches ops sops) (hb : ∀ op ∈ ops, BlockOK txidOf H op) :
    ∃ rs, Forall2 (fun o r => specRes o = some r) (run txidOf none ops).2 rs ∧
      Spec.Utxo.Run H Spec.Utxo.empty sops (abs (run txidOf none ops).1) rs :=
  run_refines txidOf H hm hb distinct_none

/-- The keys of every reachable state are pairwise distinct — whatever the operations (nil
    pointers, failing hashes, malformed txids included). -/
theorem keys_nodup (txidOf : Tx → Option Bytes) (ops : List Op) : Distinct (run txidOf none ops).1 :=
  distinct_run txidOf ops distinct_none

/-- Operations that pass a nil pointer: `AddOutput` of an output without outpoint panics (leaving an
    allocated map with the same contents), `RemoveByOutpoint(nil)` panics exactly when the map is
    allocated, `GetByOutpoint(nil)` is nil; none changes the contents. -/
theorem nil_pointer_ops (txidOf : Tx → Option Bytes) (s : State) (v : TxOut) :
    (step txidOf s (.add none v)).2 = .panic ∧ abs (step txidOf s (.add none v)).1 = abs s ∧
    (step txidOf s (.removeByOutpoint none)).2 = (if s.isNone then .unit else .panic) ∧
    (step txidOf s (.removeByOutpoint none)).1 = s ∧
    step txidOf s (.getByOutpoint none) = (s, .found none) :=
  nil_ops txidOf s v

/-- hypotheses are satisfiable: a history with a re-add, a lookup by txid, a removal -/
example : Forall2 Matches
    [.add (some ⟨[1], 0⟩) ⟨5, [0x51]⟩, .add (some ⟨[1], 0⟩) ⟨6, [0x51]⟩, .getByTxid [48, 49] 0, .size]
    [.add ⟨[1], 0⟩ ⟨5, [0x51]⟩, .add ⟨[1], 0⟩ ⟨6, [0x51]⟩, .getByTxid [48, 49] 0, .size] :=
  .cons (.add _ _) (.cons (.add _ _) (.cons (.getByTxid _ _) (.cons .size .nil)))

/-! ## block updates -/

/-- `UpdateFromBlock` on the model is the reference's block update (transactions in block order,
    spend first, then create), when every transaction hashes. -/
theorem update_block_refines (txidOf : Tx → Option Bytes) (H : Tx → Bytes) (s : State) (b : Block)
    (W : List Bytes) (hb : ∀ t ∈ b.txs, txidOf t = some (H t) ∧ t.outputs.length ≤ 4294967296) :
    (updateFromBlock txidOf s b W).2 = .unit ∧
    abs (updateFromBlock txidOf s b W).1 = Spec.Utxo.applyBlock H W (abs s) b.txs := by
  obtain ⟨h1, h2⟩ := applyTxs_spec txidOf H W b.txs s hb
  unfold updateFromBlock
  cases hres : applyTxs txidOf W b.txs s with
  | mk s' flag =>
    rw [hres] at h1 h2; simp only at h1 h2; subst h1
    exact ⟨rfl, h2⟩

/-- After a block, `o` is unspent at outpoint `k` exactly when
    * some transaction of the block created `o` at `k` paying a watched script, and no later
      transaction spent `k` or created something at `k`; or
    * `o` was unspent at `k` before and no transaction of the block spent `k` or created something at `k`. -/
theorem update_block_declarative (H : Tx → Bytes) (W : List Bytes) (txs : List Tx) (σ : Spec.Utxo.USet)
    (k : PrevOut) (o : TxOut) :
    Spec.Utxo.applyBlock H W σ txs k = some o ↔
      (∃ pre t post, txs = pre ++ t :: post ∧ Spec.Utxo.creates H W t k o ∧
        ∀ t' ∈ post, ¬ Spec.Utxo.touches H W t' k) ∨
      (σ k = some o ∧ ∀ t ∈ txs, ¬ Spec.Utxo.touches H W t k) :=
  applyBlock_declarative H W txs σ k o

/-- the same on the model's state, through the refinement -/
theorem update_block_declarative_model (txidOf : Tx → Option Bytes) (H : Tx → Bytes) (s : State) (b : Block)
    (W : List Bytes) (hb : ∀ t ∈ b.txs, txidOf t = some (H t) ∧ t.outputs.length ≤ 4294967296)
    (k : PrevOut) (o : TxOut) :
    lookup k (entries (updateFromBlock txidOf s b W).1) = some o ↔
      (∃ pre t post, b.txs = pre ++ t :: post ∧ Spec.Utxo.creates H W t k o ∧
        ∀ t' ∈ post, ¬ Spec.Utxo.touches H W t' k) ∨
      (lookup k (entries s) = some o ∧ ∀ t ∈ b.txs, ¬ Spec.Utxo.touches H W t k) := by
  have h := (update_block_refines txidOf H s b W hb).2
  have : lookup k (entries (updateFromBlock txidOf s b W).1) = abs (updateFromBlock txidOf s b W).1 k := rfl
  rw [this, h]
  exact applyBlock_declarative H W b.txs (abs s) k o

/-- An output created by a transaction of the block and spent by a later transaction of the same
    block is not in the set afterwards (unless the spender or a later transaction creates something
    at that outpoint again, which for a real hash function does not happen). -/
theorem create_and_spend_same_block_disappears (H : Tx → Bytes) (W : List Bytes)
    (pre mid post : List Tx) (t1 t2 : Tx) (σ : Spec.Utxo.USet) (k : PrevOut) (o : TxOut)
    (_hcreate : Spec.Utxo.creates H W t1 k o) (hspend : Spec.Utxo.spends t2 k)
    (hno : ∀ t ∈ t2 :: post, ¬ ∃ o', Spec.Utxo.creates H W t k o') :
    Spec.Utxo.applyBlock H W σ (pre ++ t1 :: mid ++ t2 :: post) k = none := by
  have : pre ++ t1 :: mid ++ t2 :: post = (pre ++ t1 :: mid) ++ t2 :: post := by simp
  rw [this]
  exact spent_in_block_disappears H W (pre ++ t1 :: mid) post t2 σ k hspend hno

/-- the same for the model's `UpdateFromBlock` -/
theorem create_and_spend_same_block_disappears_model (txidOf : Tx → Option Bytes) (H : Tx → Bytes)
    (s : State) (b : Block) (W : List Bytes)
    (hb : ∀ t ∈ b.txs, txidOf t = some (H t) ∧ t.outputs.length ≤ 4294967296)
    (pre mid post : List Tx) (t1 t2 : Tx) (k : PrevOut) (o : TxOut)
    (hblock : b.txs = pre ++ t1 :: mid ++ t2 :: post)
    (hcreate : Spec.Utxo.creates H W t1 k o) (hspend : Spec.Utxo.spends t2 k)
    (hno : ∀ t ∈ t2 :: post, ¬ ∃ o', Spec.Utxo.creates H W t k o') :
    getByOutpoint (updateFromBlock txidOf s b W).1 (some k) = .found none := by
  have h := (update_block_refines txidOf H s b W hb).2
  have h2 := create_and_spend_same_block_disappears H W pre mid post t1 t2 (abs s) k o hcreate hspend hno
  rw [← hblock, ← h] at h2
  rw [getByOutpoint_some]
  have : lookup k (entries (updateFromBlock txidOf s b W).1) = none := h2
  rw [this]; rfl

/-- satisfiable: a two-transaction block in which the second spends output 0 of the first -/
example : let H : Tx → Bytes := fun t => [UInt8.ofNat t.locktime]
    let t1 : Tx := ⟨1, [⟨⟨[9], 0⟩, [], 0⟩], [⟨50, [0x51]⟩], none, 7⟩
    let t2 : Tx := ⟨1, [⟨⟨[7], 0⟩, [], 0⟩], [], none, 8⟩
    Spec.Utxo.creates H [[0x51]] t1 ⟨[7], 0⟩ ⟨50, [0x51]⟩ ∧ Spec.Utxo.spends t2 ⟨[7], 0⟩ ∧
    ∀ t ∈ [t2], ¬ ∃ o', Spec.Utxo.creates H [[0x51]] t ⟨[7], 0⟩ o' := by
  refine ⟨by simp [Spec.Utxo.creates], by simp [Spec.Utxo.spends], ?_⟩
  intro t ht
  simp only [List.mem_singleton] at ht
  subst ht
  simp [Spec.Utxo.creates]

/-! ## txid strings -/

/-- `GetByTxid`/`RemoveByTxid` act on the hash the string names: 64 hex digits (either case), read
    in reversed byte order; any other string (wrong length — the repaired D23 —, odd length, a
    non-hex byte) names nothing: the lookup is nil and the removal changes nothing. -/
theorem txid_lookup_reverses (s : State) (txid : Bytes) (i : Nat) :
    getByTxid s txid i = (match Spec.Utxo.txidHash txid with
      | some h => getByHash s h i
      | none => .found none) ∧
    removeByTxid s txid i = (match Spec.Utxo.txidHash txid with
      | some h => removeByHash s h i
      | none => (s, .unit)) :=
  ⟨getByTxid_via_hash s txid i, removeByTxid_via_hash s txid i⟩

/-- the txid string of a 32-byte hash — `hex.EncodeToString` of the reversed bytes — names that hash -/
theorem txid_of_hash {h : Bytes} (hl : h.length = 32) :
    Spec.Utxo.txidHash (hexEncode h.reverse) = some h := txidHash_hexEncode_reverse hl

/-- D23 (repaired): a txid string whose length is not 64 removes nothing -/
theorem remove_by_malformed_txid (s : State) (txid : Bytes) (i : Nat) (h : txid.length ≠ 64) :
    removeByTxid s txid i = (s, .unit) := by
  rw [removeByTxid_via_hash, txidHash_wrong_length h]

/-! ## fees -/

open BtcVerif.Gen.Guards in
/-- the "not found" test of `NewNaivePrevOutValueFunc` is emptiness of the returned string (the model: `txHex.isEmpty`) -/
theorem naive_prevout_not_found_pinned (txHex : String) :
    feecalc_NewNaivePrevOutValueFunc_lit0_0 (txHex := txHex) = decide (txHex = "") := rfl

open BtcVerif.Model.Fee BtcVerif.Gen.Guards in
/-- `NewNaivePrevOutValueFunc`: for a transaction that decodes, the answer is the value of the output the
outpoint names when the index is in range and an error otherwise — the index test of the source (the
regenerated guard of the function literal) lets no out-of-range index through to the slice access. -/
theorem naive_prevout_value (getTxHex : Bytes → Option Bytes) (p : PrevOut) (hi : p.index < 4294967296)
    (txHex raw rest : Bytes) (t : Tx)
    (h1 : getTxHex (hexEncode p.hash.reverse) = some txHex) (h2 : txHex.isEmpty = false)
    (h3 : Utxo.hexDecode txHex = some raw) (h4 : decTx raw = .ok (t, rest)) :
    naivePrevOutValue getTxHex p =
      match t.outputs[p.index]? with
      | some o => .ok o.value
      | none => .err := by
  have hw : BtcVerif.Gen.wrapS 18446744073709551616 (p.index : Int) = (p.index : Int) :=
    BtcVerif.Gen.wrapS_of_small 18446744073709551616 (p.index : Int) (Int.natCast_nonneg p.index) (by omega)
  simp only [naivePrevOutValue, h1, h2, h3, h4, Bool.false_eq_true, if_false,
    feecalc_NewNaivePrevOutValueFunc_lit0_1, hw, ge_iff_le, Int.ofNat_le, decide_eq_true_eq]
  by_cases h : t.outputs.length ≤ p.index
  · simp [h, List.getElem?_eq_none h]
  · have hlt : p.index < t.outputs.length := Nat.lt_of_not_le h
    simp [h, List.getElem?_eq_getElem hlt]

open BtcVerif.Model.Fee BtcVerif.Proofs.Fee in
/-- In the monetary range (both sums below 2^64) the totals are the exact sums and the fee is inputs
    minus outputs, or the error when the outputs exceed the inputs. -/
theorem fee_spec (get : PrevOut → Option Nat) (t : Tx) (vs : List Nat)
    (hvs : inputValues get t.inputs = some vs) (hin : vs.sum < 2 ^ 64) (hout : outputSum t < 2 ^ 64) :
    totalOutputValue t = outputSum t ∧ totalInputValue get t = .ok vs.sum ∧
    ((outputSum t ≤ vs.sum ∧ totalFeeValue get t = .ok (vs.sum - outputSum t)) ∨
     (vs.sum < outputSum t ∧ totalFeeValue get t = .err)) :=
  Proofs.Fee.fee_spec get t vs hvs hin hout

open BtcVerif.Model.Fee BtcVerif.Proofs.Fee in
/-- a previous output the value function does not know makes the fee an error -/
theorem fee_missing_prevout (get : PrevOut → Option Nat) (t : Tx) (hvs : inputValues get t.inputs = none) :
    totalInputValue get t = .err ∧ totalFeeValue get t = .err := fee_missing get t hvs

open BtcVerif.Model.Fee BtcVerif.Proofs.Fee in
/-- block total = sum of the fees of the transactions after the coinbase -/
theorem block_total_spec (get : PrevOut → Option Nat) (b : Block) :
    (b.txs = [] → totalFeesForBlock get b = .panic) ∧
    (∀ cb rest fs, b.txs = cb :: rest → feesOf get rest = some fs → fs.sum < 2 ^ 64 →
      totalFeesForBlock get b = .ok fs.sum) ∧
    (∀ cb rest, b.txs = cb :: rest → feesOf get rest = none → totalFeesForBlock get b = .err) :=
  Proofs.Fee.block_total_spec get b

open BtcVerif.Model.Fee BtcVerif.Proofs.Fee in
example : let get : PrevOut → Option Nat := fun _ => some 700
    let t : Tx := ⟨1, [⟨⟨[7], 0⟩, [], 0⟩, ⟨⟨[7], 1⟩, [], 0⟩], [⟨1000, [0x51]⟩], none, 0⟩
    inputValues get t.inputs = some [700, 700] ∧ totalFeeValue get t = .ok 400 := by decide


/-! ## fee rates (binary64, exact model) -/

open BtcVerif.Model.Fee BtcVerif.Proofs.FeeRange BtcVerif.Prim in
/-- `FeeRangeForBlock` skips the coinbase and returns the minimum and maximum of the remaining
    transactions' fee rates — members of the list that bound every rate in the order of binary64
    values (`F64.key` is the value scaled by 2^1074) —, `(0, 0)` for a block with only a coinbase, the
    error when a rate is undefined; a block without transactions makes the Go function panic. -/
theorem fee_range_spec (get : PrevOut → Option Nat) (b : Block) :
    (b.txs = [] → feeRangeForBlock get b = .panic) ∧
    (∀ cb, b.txs = [cb] → feeRangeForBlock get b = .ok (F64.zero false, F64.zero false)) ∧
    (∀ cb rest, b.txs = cb :: rest → ratesOf get rest = none → feeRangeForBlock get b = .err) ∧
    (∀ cb t rest rs, b.txs = cb :: t :: rest → ratesOf get (t :: rest) = some rs → (∀ r ∈ rs, NonNeg r) →
      ∃ mn mx, feeRangeForBlock get b = .ok (mn, mx) ∧ mn ∈ rs ∧ (mx ∈ rs ∨ mx = F64.zero false) ∧
        ∀ r ∈ rs, F64.key mn ≤ F64.key r ∧ F64.key r ≤ F64.key mx) :=
  Proofs.FeeRange.fee_range_spec get b

open BtcVerif.Model.Fee BtcVerif.Proofs.FeeRange BtcVerif.Prim in
/-- the hypothesis of `fee_range_spec` holds for real rates: a fee rate is a non-negative number or
    +∞, never NaN and never the `-1.0` sentinel (virtual sizes below 2^53) -/
theorem fee_rates_nonneg (get : PrevOut → Option Nat) (txs : List Tx) (rs : List F64)
    (hv : ∀ t ∈ txs, vsizeTx t < 2 ^ 53) (h : ratesOf get txs = some rs) : ∀ r ∈ rs, NonNeg r :=
  ratesOf_nonneg get txs rs hv h

/-! ## satoshis ↔ BTC -/

open BtcVerif.Model.Fee in
/-- Lossless conversion: for every amount up to 21·10^14 satoshis, `BitcoinsToSats(SatsToBitcoins(s)) = s`
    over the exact rounding model (64-bit `big.Float` quotient, `Float64()`, binary64 product,
    `math.Round`, conversion to `uint64`). -/
theorem sats_roundtrip (s : Nat) (hs : s ≤ 2100000000000000) :
    bitcoinsToSats (satsToBitcoins s) = some s := Proofs.F64Sats.sats_roundtrip s hs

open BtcVerif.Model.Fee BtcVerif.Prim in
/-- A BTC amount with up to 8 decimals (`k / 10^8`), held as the nearest double, is exactly `k` satoshis. -/
theorem decimal_to_sats (k : Nat) (hk : k ≤ 2100000000000000) :
    bitcoinsToSats (F64.ofRat false k 100000000) = some k := Proofs.F64Sats.decimal_to_sats k hk

open BtcVerif.Model.Fee in
/-- `RoundBitcoins` leaves every value produced by `SatsToBitcoins` unchanged. -/
theorem round_bitcoins_fixed (s : Nat) (hs : s ≤ 2100000000000000) :
    roundBitcoins (satsToBitcoins s) = some (satsToBitcoins s) := Proofs.F64Sats.roundBitcoins_fixed s hs

open BtcVerif.Prim BtcVerif.Proofs.F64 in
/-- The rounding primitive: `roundPos p n d` has a `p`-bit mantissa and is within the relative error
    `2^-p` of `n/d` (over ℚ). -/
theorem round_to_nearest_spec (p n d : Nat) (hp : 1 ≤ p) (hn : 0 < n) (hd : 0 < d) :
    2 ^ (p - 1) ≤ (roundPos p n d).1 ∧ (roundPos p n d).1 < 2 ^ p ∧
    |val (roundPos p n d) - (n : ℚ) / d| ≤ (n : ℚ) / d / 2 ^ p := roundPos_spec p n d hp hn hd

open BtcVerif.Prim BtcVerif.Proofs.F64Bits in
/-- Decoding the 64-bit pattern inverts encoding on canonical values: equal patterns, equal values. -/
theorem f64_bits_roundtrip (x : F64) (h : Canon x) : F64.ofBits (F64.toBits x) = x := ofBits_toBits x h

open BtcVerif.Prim BtcVerif.Proofs.F64Bits in
example : Canon (F64.ofNat 100000000) ∧ F64.toBits (F64.ofNat 100000000) = 0x4197d78400000000 := by decide

end BtcVerif.Props.C15
