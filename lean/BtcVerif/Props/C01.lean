/-
  C01 — the wire codec is an exact inverse pair.
  Property theorems only (helper lemmas live in BtcVerif/Proofs). Every theorem quantifies over
  all values of the stated domain and over an arbitrary trailing stream `rest` that must be left
  unread (so objects can be read back to back).
-/
import BtcVerif.Props.GuardPins.P_varint
import BtcVerif.Props.GuardPins.P_blocks_blockheader
import BtcVerif.Props.GuardPins.P_blocks
import BtcVerif.Props.GuardPins.P_tx
import BtcVerif.Proofs.Tx
import BtcVerif.Proofs.Block
import BtcVerif.Proofs.NoPanic
import BtcVerif.Proofs.WireSpec

namespace BtcVerif.Props.C01
open BtcVerif BtcVerif.Model BtcVerif.Parser

/-- compact sizes: decode ∘ encode, every uint64 -/
theorem varint_dec_enc (v : Nat) (rest : Bytes) (hv : v < 2 ^ 64) :
    decVarint (encVarint v ++ rest) = .ok (v, rest) := decVarint_encVarint v rest hv

/-- compact sizes: encode ∘ decode on canonical (minimal) input -/
theorem varint_enc_dec_canonical {s rest : Bytes} {v w : Nat}
    (hcanon : s = encVarint w ++ rest) (hw : w < 2 ^ 64) (h : decVarint s = .ok (v, rest)) :
    encVarint v ++ rest = s := encVarint_decVarint_canonical hcanon hw h

theorem prevout_dec_enc (p : PrevOut) (rest : Bytes) (h : WFPrevOut p) :
    decPrevOut (encPrevOut p ++ rest) = .ok (p, rest) := decPrevOut_enc p rest h

theorem input_dec_enc (i : TxIn) (rest : Bytes) (h : WFTxIn i) :
    decTxIn (encTxIn i ++ rest) = .ok (i, rest) := decTxIn_enc i rest h

theorem output_dec_enc (o : TxOut) (rest : Bytes) (h : WFTxOut o) :
    decTxOut (encTxOut o ++ rest) = .ok (o, rest) := decTxOut_enc o rest h

theorem witness_dec_enc (w : Witness) (rest : Bytes) (h : WFWitness w) :
    decWitness (encWitness w ++ rest) = .ok (w, rest) := decWitness_enc w rest h

/-- whole transactions, segwit marker/flag and witness placement included -/
theorem tx_dec_enc (tx : Tx) (rest : Bytes) (h : WFTx tx) :
    ∃ bs, encTx tx true = .ok bs ∧ decTx (bs ++ rest) = .ok (tx, rest) := decTx_encTx tx rest h

/-- the witness-stripped form decodes to the transaction without its witnesses -/
theorem tx_dec_enc_nowit (tx : Tx) (rest : Bytes) (h : WFTx tx) :
    ∃ bs, encTx tx false = .ok bs ∧ decTx (bs ++ rest) = .ok ({ tx with witnesses := none }, rest) :=
  decTx_encTx_nowit tx rest h

/-- re-encoding what was decoded from canonical bytes reproduces the bytes -/
theorem tx_enc_dec_canonical (tx' tx : Tx) (bs enc rest : Bytes) (h : WFTx tx')
    (hc : encTx tx' true = .ok enc) (hbs : bs = enc ++ rest) (hd : decTx bs = .ok (tx, rest)) :
    encTx tx true = .ok enc := by
  obtain ⟨e2, he2, hd2⟩ := decTx_encTx tx' rest h
  rw [hc] at he2; injection he2 with he2; subst he2
  rw [hbs, hd2] at hd
  injection hd with hd; injection hd with h1 _
  subst h1; exact hc

theorem header_dec_enc (h : Header) (rest : Bytes) (hw : WFHeader h) :
    decHeader (encHeader h ++ rest) = .ok (h, rest) := decHeader_enc h rest hw

theorem header_length (h : Header) (hw : WFHeader h) : (encHeader h).length = 80 :=
  encHeader_length h hw

theorem block_dec_enc (b : Block) (rest : Bytes) (h : WFBlock b) :
    ∃ bs, encBlock b = .ok bs ∧ decBlock (bs ++ rest) = .ok (b, rest) := decBlock_enc b rest h

/-- streams: `k` transactions written back to back are read back one after the other and the
    following bytes stay unread -/
theorem stream_exact (txs : List Tx) (rest : Bytes) (h : ∀ t ∈ txs, WFTx t) :
    ∃ bs, encTxs txs = .ok bs ∧ readMany decTx txs.length (bs ++ rest) = .ok (txs, rest) :=
  readMany_decTx txs rest h

/-- distinct well-formed transactions have distinct encodings (so identifiers are unique up to
    hash collisions): the encoder is injective on the domain -/
theorem tx_enc_injective (a b : Tx) (ha : WFTx a) (hb : WFTx b) (bs : Bytes)
    (hea : encTx a true = .ok bs) (heb : encTx b true = .ok bs) : a = b := by
  obtain ⟨x, hx, hdx⟩ := decTx_encTx a [] ha
  obtain ⟨y, hy, hdy⟩ := decTx_encTx b [] hb
  rw [hea] at hx; injection hx with hx; subst hx
  rw [heb] at hy; injection hy with hy; subst hy
  rw [hdx] at hdy
  injection hdy with h; injection h with h1 _

/-- a decoded value determines the bytes consumed: two well-formed transactions that decode from
    the same stream position are the same transaction and consume the same bytes -/
theorem tx_prefix_unique (a b : Tx) (ha : WFTx a) (hb : WFTx b) (ea eb ra rb : Bytes)
    (hea : encTx a true = .ok ea) (heb : encTx b true = .ok eb) (h : ea ++ ra = eb ++ rb) :
    a = b ∧ ea = eb ∧ ra = rb := by
  obtain ⟨x, hx, hdx⟩ := decTx_encTx a ra ha
  obtain ⟨y, hy, hdy⟩ := decTx_encTx b rb hb
  rw [hea] at hx; injection hx with hx; subst hx
  rw [heb] at hy; injection hy with hy; subst hy
  rw [h, hdy] at hdx
  injection hdx with h2; injection h2 with h3 h4
  subst h3; subst h4
  refine ⟨rfl, ?_, rfl⟩
  rw [hea] at heb; injection heb

/-- the decoder never panics, on any input -/
theorem tx_dec_no_panic (bs : Bytes) : decTx bs ≠ .panic := decTx_ne_panic bs

/-! ### the reference grammar (Spec/Wire.lean): "the same fields an independent reference parser returns"

  `Spec.Wire.IsTx tx bs` says, in the words of the protocol documentation and with no reference to
  the modelled encoder, decoder, their guards or the library's limits, that `bs` is the canonical
  wire form of `tx`. The theorems below say that, on the library's domain, the encoder emits
  exactly the grammar's string, the decoder returns exactly the grammar's fields for it and leaves
  what follows unread, and that the grammar assigns one value to a string. -/

open BtcVerif.Spec.Wire in
/-- the encoder emits the grammar's string and nothing else -/
theorem spec_encoder_agrees (tx : Tx) (h : WFTx tx) (bs : Bytes) :
    IsTx tx bs ↔ encTx tx true = .ok bs := by
  rw [Proofs.WireSpec.IsTx_iff, Proofs.WireSpec.encTx_eq_txBytes h]
  constructor
  · rintro ⟨_, rfl⟩; rfl
  · intro he; injection he with he; exact ⟨Proofs.WireSpec.RTx_of_WF h, he.symm⟩

open BtcVerif.Spec.Wire in
/-- same for the witness-stripped form -/
theorem spec_encoder_agrees_stripped (tx : Tx) (h : WFTx tx) (bs : Bytes) :
    IsTxStripped tx bs ↔ encTx tx false = .ok bs := by
  unfold IsTxStripped
  rw [Proofs.WireSpec.IsTx_iff, Proofs.WireSpec.encTx_false_eq h]
  constructor
  · rintro ⟨_, rfl⟩; rfl
  · intro he; injection he with he
    exact ⟨Proofs.WireSpec.RTx_of_WF (Proofs.WireSpec.WF_strip h), he.symm⟩

open BtcVerif.Spec.Wire in
/-- for every string of the canonical wire format (of a transaction inside the library's limits)
    followed by arbitrary bytes, the decoder returns the fields the grammar assigns to it and leaves
    the following bytes unread -/
theorem spec_decoder_agrees (tx : Tx) (h : WFTx tx) (bs rest : Bytes) (hs : IsTx tx bs) :
    decTx (bs ++ rest) = .ok (tx, rest) := by
  obtain ⟨e, he, hd⟩ := decTx_encTx tx rest h
  have := (spec_encoder_agrees tx h bs).mp hs
  rw [this] at he; injection he with he; subst he; exact hd

open BtcVerif.Spec.Wire in
/-- whatever the decoder returns on a canonical string re-encodes to that string, byte for byte -/
theorem spec_reencode (tx tx' : Tx) (h : WFTx tx) (bs rest rest' : Bytes) (hs : IsTx tx bs)
    (hd : decTx (bs ++ rest) = .ok (tx', rest')) : tx' = tx ∧ rest' = rest ∧ encTx tx' true = .ok bs := by
  rw [spec_decoder_agrees tx h bs rest hs] at hd
  injection hd with hd; injection hd with h1 h2
  subst h1; subst h2
  exact ⟨rfl, rfl, (spec_encoder_agrees _ h bs).mp hs⟩

open BtcVerif.Spec.Wire in
/-- the grammar is unambiguous and prefix-free on the domain: a stream position determines the
    transaction and the bytes it occupies -/
theorem spec_unambiguous (a b : Tx) (ha : WFTx a) (hb : WFTx b) (ea eb ra rb : Bytes)
    (hea : IsTx a ea) (heb : IsTx b eb) (h : ea ++ ra = eb ++ rb) : a = b ∧ ea = eb ∧ ra = rb :=
  tx_prefix_unique a b ha hb ea eb ra rb ((spec_encoder_agrees a ha ea).mp hea)
    ((spec_encoder_agrees b hb eb).mp heb) h

open BtcVerif.Spec.Wire in
/-- blocks: encoder and decoder against the grammar -/
theorem spec_block_agrees (b : Block) (h : WFBlock b) (bs rest : Bytes) :
    (IsBlock b bs ↔ encBlock b = .ok bs) ∧ (IsBlock b bs → decBlock (bs ++ rest) = .ok (b, rest)) := by
  refine ⟨Proofs.WireSpec.IsBlock_iff h bs, fun hs => ?_⟩
  obtain ⟨e, he, hd⟩ := decBlock_enc b rest h
  rw [(Proofs.WireSpec.IsBlock_iff h bs).mp hs] at he; injection he with he; subst he; exact hd

open BtcVerif.Spec.Wire in
/-- compact sizes and headers against the grammar -/
theorem spec_parts_agree :
    (∀ v bs, CompactSize v bs ↔ v < 2 ^ 64 ∧ bs = encVarint v) ∧
    (∀ h bs, IsHeader h bs ↔ WFHeader h ∧ bs = encHeader h) ∧
    (∀ i bs, IsTxIn i bs → WFTxIn i → bs = encTxIn i) ∧
    (∀ o bs, IsTxOut o bs → bs = encTxOut o) ∧
    (∀ w bs, IsWitnessStack w bs → bs = encWitness w) :=
  ⟨fun _ _ => Proofs.WireSpec.CompactSize_iff, Proofs.WireSpec.IsHeader_iff,
   fun i bs h _ => ((Proofs.WireSpec.IsTxIn_iff i bs).mp h).2,
   fun o bs h => ((Proofs.WireSpec.IsTxOut_iff o bs).mp h).2,
   fun w bs h => ((Proofs.WireSpec.IsWitnessStack_iff w bs).mp h).2⟩

/-- non-vacuity of the grammar: the one-byte and three-byte compact sizes, derived from the rules -/
example : Spec.Wire.CompactSize 252 [0xfc] ∧ Spec.Wire.CompactSize 253 [0xfd, 0xfd, 0x00] :=
  ⟨.u8 (by decide) (by decide),
   .u16 (by decide) (by decide) (.succ 0xfd (.succ 0x00 .zero))⟩

/-! non-vacuity: a concrete segwit transaction with two inputs satisfies `WFTx` -/
def sampleTx : Tx :=
  { version := 2,
    inputs := [⟨⟨List.replicate 32 0xaa, 1⟩, [0x51], 0xffffffff⟩, ⟨⟨List.replicate 32 0xbb, 0⟩, [], 0⟩],
    outputs := [⟨5000000000, [0x6a]⟩],
    witnesses := some [[[1, 2, 3], []], []],
    locktime := 0 }

example : WFTx sampleTx := by
  refine ⟨by decide, by decide, by decide, by decide, by decide, ?_, ?_, ?_⟩
  · intro i hi
    simp [sampleTx] at hi
    rcases hi with rfl | rfl <;> exact ⟨⟨by decide, by decide⟩, by decide, by decide⟩
  · intro o ho
    simp [sampleTx] at ho
    subst ho; exact ⟨by decide, by decide⟩
  · intro ws hws
    simp [sampleTx] at hws
    subst hws
    refine ⟨by decide, ?_⟩
    intro w hw
    simp at hw
    rcases hw with rfl | rfl <;> exact ⟨by decide, by decide⟩

end BtcVerif.Props.C01
