/-
  C01 — the wire codec is an exact inverse pair.
  Property theorems only (helper lemmas live in BtcVerif/Proofs). Every theorem quantifies over
  all values of the stated domain and over an arbitrary trailing stream `rest` that must be left
  unread (so objects can be read back to back).
-/
import BtcVerif.Proofs.Tx
import BtcVerif.Proofs.Block
import BtcVerif.Proofs.NoPanic

namespace BtcVerif.Props.C01
open BtcVerif BtcVerif.Model BtcVerif.Parser

/-- compact sizes: decode ∘ encode, every uint64 -/
theorem varint_dec_enc (v : Nat) (rest : Bytes) (hv : v < 2 ^ 64) :
    decVarint (encVarint v ++ rest) = .ok (v, rest) := decVarint_encVarint v rest hv

/-- compact sizes: encode ∘ decode on canonical (minimal) input -/
theorem varint_enc_dec_canonical {s rest : Bytes} {v w : Nat}
    (hcanon : s = encVarint w ++ rest) (hw : w < 2 ^ 64) (h : decVarint s = .ok (v, rest)) :
    encVarint v ++ rest = s := encVarint_decVarint_canonical hcanon hw h

theorem prevout_dec_enc (p : PrevOut) (rest : Bytes) (h : WFPrevOut p) :
    decPrevOut (encPrevOut p ++ rest) = .ok (p, rest) := decPrevOut_enc p rest h

theorem input_dec_enc (i : TxIn) (rest : Bytes) (h : WFTxIn i) :
    decTxIn (encTxIn i ++ rest) = .ok (i, rest) := decTxIn_enc i rest h

theorem output_dec_enc (o : TxOut) (rest : Bytes) (h : WFTxOut o) :
    decTxOut (encTxOut o ++ rest) = .ok (o, rest) := decTxOut_enc o rest h

theorem witness_dec_enc (w : Witness) (rest : Bytes) (h : WFWitness w) :
    decWitness (encWitness w ++ rest) = .ok (w, rest) := decWitness_enc w rest h

/-- whole transactions, segwit marker/flag and witness placement included -/
theorem tx_dec_enc (tx : Tx) (rest : Bytes) (h : WFTx tx) :
    ∃ bs, encTx tx true = .ok bs ∧ decTx (bs ++ rest) = .ok (tx, rest) := decTx_encTx tx rest h

/-- the witness-stripped form decodes to the transaction without its witnesses -/
theorem tx_dec_enc_nowit (tx : Tx) (rest : Bytes) (h : WFTx tx) :
    ∃ bs, encTx tx false = .ok bs ∧ decTx (bs ++ rest) = .ok ({ tx with witnesses := none }, rest) :=
  decTx_encTx_nowit tx rest h

/-- re-encoding what was decoded from canonical bytes reproduces the bytes -/
theorem tx_enc_dec_canonical (tx' tx : Tx) (bs enc rest : Bytes) (h : WFTx tx')
    (hc : encTx tx' true = .ok enc) (hbs : bs = enc ++ rest) (hd : decTx bs = .ok (tx, rest)) :
    encTx tx true = .ok enc := by
  obtain ⟨e2, he2, hd2⟩ := decTx_encTx tx' rest h
  rw [hc] at he2; injection he2 with he2; subst he2
  rw [hbs, hd2] at hd
  injection hd with hd; injection hd with h1 _
  subst h1; exact hc

theorem header_dec_enc (h : Header) (rest : Bytes) (hw : WFHeader h) :
    decHeader (encHeader h ++ rest) = .ok (h, rest) := decHeader_enc h rest hw

theorem header_length (h : Header) (hw : WFHeader h) : (encHeader h).length = 80 :=
  encHeader_length h hw

theorem block_dec_enc (b : Block) (rest : Bytes) (h : WFBlock b) :
    ∃ bs, encBlock b = .ok bs ∧ decBlock (bs ++ rest) = .ok (b, rest) := decBlock_enc b rest h

/-- streams: `k` transactions written back to back are read back one after the other and the
    following bytes stay unread -/
theorem stream_exact (txs : List Tx) (rest : Bytes) (h : ∀ t ∈ txs, WFTx t) :
    ∃ bs, encTxs txs = .ok bs ∧ readMany decTx txs.length (bs ++ rest) = .ok (txs, rest) :=
  readMany_decTx txs rest h

/-- distinct well-formed transactions have distinct encodings (so identifiers are unique up to
    hash collisions): the encoder is injective on the domain -/
theorem tx_enc_injective (a b : Tx) (ha : WFTx a) (hb : WFTx b) (bs : Bytes)
    (hea : encTx a true = .ok bs) (heb : encTx b true = .ok bs) : a = b := by
  obtain ⟨x, hx, hdx⟩ := decTx_encTx a [] ha
  obtain ⟨y, hy, hdy⟩ := decTx_encTx b [] hb
  rw [hea] at hx; injection hx with hx; subst hx
  rw [heb] at hy; injection hy with hy; subst hy
  rw [hdx] at hdy
  injection hdy with h; injection h with h1 _

/-- a decoded value determines the bytes consumed: two well-formed transactions that decode from
    the same stream position are the same transaction and consume the same bytes -/
theorem tx_prefix_unique (a b : Tx) (ha : WFTx a) (hb : WFTx b) (ea eb ra rb : Bytes)
    (hea : encTx a true = .ok ea) (heb : encTx b true = .ok eb) (h : ea ++ ra = eb ++ rb) :
    a = b ∧ ea = eb ∧ ra = rb := by
  obtain ⟨x, hx, hdx⟩ := decTx_encTx a ra ha
  obtain ⟨y, hy, hdy⟩ := decTx_encTx b rb hb
  rw [hea] at hx; injection hx with hx; subst hx
  rw [heb] at hy; injection hy with hy; subst hy
  rw [h, hdy] at hdx
  injection hdx with h2; injection h2 with h3 h4
  subst h3; subst h4
  refine ⟨rfl, ?_, rfl⟩
  rw [hea] at heb; injection heb

/-- the decoder never panics, on any input -/
theorem tx_dec_no_panic (bs : Bytes) : decTx bs ≠ .panic := decTx_ne_panic bs

/-! non-vacuity: a concrete segwit transaction with two inputs satisfies `WFTx` -/
def sampleTx : Tx :=
  { version := 2,
    inputs := [⟨⟨List.replicate 32 0xaa, 1⟩, [0x51], 0xffffffff⟩, ⟨⟨List.replicate 32 0xbb, 0⟩, [], 0⟩],
    outputs := [⟨5000000000, [0x6a]⟩],
    witnesses := some [[[1, 2, 3], []], []],
    locktime := 0 }

example : WFTx sampleTx := by
  refine ⟨by decide, by decide, by decide, by decide, by decide, ?_, ?_, ?_⟩
  · intro i hi
    simp [sampleTx] at hi
    rcases hi with rfl | rfl <;> exact ⟨⟨by decide, by decide⟩, by decide, by decide⟩
  · intro o ho
    simp [sampleTx] at ho
    subst ho; exact ⟨by decide, by decide⟩
  · intro ws hws
    simp [sampleTx] at hws
    subst hws
    refine ⟨by decide, ?_⟩
    intro w hw
    simp at hw
    rcases hw with rfl | rfl <;> exact ⟨by decide, by decide⟩

end BtcVerif.Props.C01
