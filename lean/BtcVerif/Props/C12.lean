/-
  C12 — script pushes, numbers, decompilation and standard templates are consistent.

  Property theorems only (helper lemmas live in BtcVerif/Proofs/Script*.lean).  The model
  (`Model/Script.lean`) is the REPAIRED library: `StripOpCode` after D6, `PushNumber`/`ReadNumber`
  after D4.  The reference side (`Spec/Script.lean`) is a transcription of Bitcoin Core's script
  serialisation (`CScript::operator<<`, `CScriptNum::serialize/set_vch`, `push_int64`, `GetScriptOp`,
  the legacy `SerializeScriptCode`) and of the standard output templates.

  Every statement quantifies over all inputs of its domain; the only hypotheses are Go's own type
  bounds (`len(data) < 2^32`, `int64`, `[20]byte`), each shown inhabited by an `example`.
-/
import BtcVerif.Props.GuardPins.P_script
import BtcVerif.Proofs.Script
import BtcVerif.Proofs.ScriptNum
import BtcVerif.Proofs.ScriptTpl
import BtcVerif.Proofs.ScriptMisc

namespace BtcVerif.Props.C12
open BtcVerif BtcVerif.Model BtcVerif.Parser BtcVerif.Proofs.Script
open BtcVerif.Spec.Script (Item lenWidth lenField parse serialize removeStandalone scriptNum
  scriptNumBytes scriptNumValue)

/-! ### pushes -/

/-- `PushData` is the reference (smallest-form) push, for every payload a push can carry. -/
theorem pushData_eq_spec (d : Bytes) (h : d.length < 2 ^ 32) :
    pushData d = .ok (Spec.Script.push d) := Proofs.Script.pushData_eq_spec d h

/-- Reading back what `PushData` built returns the payload and leaves the rest of the stream. -/
theorem read_push (d rest : Bytes) (h : d.length < 2 ^ 32) :
    ∃ p, pushData d = .ok p ∧ readData (p ++ rest) = .ok (d, rest) := readData_pushData d rest h

/-- `ReadData` reads every push form whose opcode can express the length — minimal or not. -/
theorem read_any_push_form (b : UInt8) (d rest : Bytes) (hb : b.toNat ≤ 0x4e)
    (h0 : lenWidth b = 0 → d.length = b.toNat) (h1 : lenWidth b ≠ 0 → d.length < 256 ^ lenWidth b) :
    readData (b :: (lenField (lenWidth b) d.length ++ d ++ rest)) = .ok (d, rest) :=
  readData_encoding b d rest hb h0 h1

/-- No push encoding of the same payload is shorter than the one `PushData` emits. -/
theorem push_minimal (d : Bytes) (h : d.length < 2 ^ 32) (b : UInt8) (hb : b.toNat ≤ 0x4e)
    (h0 : lenWidth b = 0 → d.length = b.toNat) (h1 : lenWidth b ≠ 0 → d.length < 256 ^ lenWidth b) :
    (Spec.Script.push d).length ≤ (b :: (lenField (lenWidth b) d.length ++ d)).length :=
  Proofs.Script.push_minimal d h b hb h0 h1

example : ([0xaa, 0xbb] : Bytes).length < 2 ^ 32 := by decide
example : (0x4c : UInt8).toNat ≤ 0x4e ∧ (lenWidth 0x4c = 0 → ([0xaa, 0xbb] : Bytes).length = (0x4c : UInt8).toNat) ∧
    (lenWidth 0x4c ≠ 0 → ([0xaa, 0xbb] : Bytes).length < 256 ^ lenWidth 0x4c) := by decide

/-! ### script numbers -/

/-- `PushNumber` is `CScript::push_int64` for EVERY int64, `math.MinInt64` included (D4). -/
theorem pushNumber_eq_spec (n : Int) (hlo : -(2 ^ 63 : Int) ≤ n) (hhi : n < 2 ^ 63) :
    pushNumber n = .ok (scriptNum n) := Proofs.Script.pushNumber_eq_spec n hlo hhi

/-- `ReadNumber` reads back what `PushNumber` wrote, for every int64, leaving the rest. -/
theorem read_pushNumber (n : Int) (rest : Bytes) (hlo : -(2 ^ 63 : Int) ≤ n) (hhi : n < 2 ^ 63) :
    ∃ p, pushNumber n = .ok p ∧ readNumber (p ++ rest) = .ok (n, rest) :=
  readNumber_pushNumber n rest hlo hhi

/-- The decoding step of `ReadNumber` in closed form: the `CScriptNum::set_vch` value of the pushed
    string, accepted exactly when the string has at most nine bytes and the value fits an int64. -/
theorem readNumber_decode_spec (d : Bytes) :
    decodeNum d =
      if d.length ≤ 9 ∧ -(2 ^ 63 : Int) ≤ scriptNumValue d ∧ scriptNumValue d < 2 ^ 63
      then .ok (scriptNumValue d) else .err := decodeNum_spec d

/-- Reference level: decoding the serialised number gives the number back (all integers). -/
theorem scriptNum_value_bytes (n : Int) : scriptNumValue (scriptNumBytes n) = n :=
  scriptNumValue_bytes n

example : -(2 ^ 63 : Int) ≤ -9223372036854775808 ∧ (-9223372036854775808 : Int) < 2 ^ 63 := by decide

/-! ### decompilation and opcode stripping -/

/-- `Decompile` yields exactly the opcode/push sequence of the script (the reference parser's item
    list with the push opcodes forgotten) and fails exactly when that parser fails. -/
theorem decompile_spec (s : Bytes) (cs : List Chunk) :
    decompile s = .ok cs ↔ ∃ items, parse s = some items ∧ cs = items.map toChunk :=
  Proofs.Script.decompile_spec s cs

/-- The reference parser is the inverse of concatenating well-formed items: a script has an item
    list exactly when it IS the concatenation of well-formed items, and then the list is unique. -/
theorem parse_iff_serialize (s : Bytes) (items : List Item) :
    parse s = some items ↔ (serialize items = s ∧ ∀ i ∈ items, i.valid = true) := parse_iff s items

theorem decompile_fails_iff (s : Bytes) : decompile s = .err ↔ parse s = none := decompile_err_iff s

theorem decompile_no_panic (s : Bytes) : decompile s ≠ .panic := decompile_ne_panic s

/-- `strip_spec` (shared with C03): what `StripOpCode` returns is the consensus script code. -/
theorem strip_spec {s s' : Bytes} {op : UInt8} (h : stripOpCode s op = .ok s') :
    s' = Spec.removeStandalone s op := Proofs.Script.strip_spec h

/-- `strip_preserves_pushes`: on every well-formed script the result is the concatenation of all
    items except the stand-alone occurrences of `op` — every push byte for byte in its original
    (possibly non-minimal) encoding, bytes equal to `op` inside push data untouched (D6). -/
theorem strip_preserves_pushes (items : List Item) (hv : ∀ i ∈ items, i.valid = true) (op : UInt8) :
    stripOpCode (serialize items) op = .ok (serialize (items.filter (fun i => i ≠ Item.op op))) :=
  strip_serialize items hv op

/-- `StripOpCode` fails exactly on scripts with a push running past the end; it never panics. -/
theorem strip_fails_iff (s : Bytes) (op : UInt8) : stripOpCode s op = .err ↔ parse s = none :=
  strip_err_iff s op

theorem strip_no_panic (s : Bytes) (op : UInt8) : stripOpCode s op ≠ .panic := strip_ne_panic s op

example : ∀ i ∈ [Item.push 0x4c [0xaa, 0xbb], Item.op 0xab, Item.op 0xac], i.valid = true := by decide
example : stripOpCode [0x4c, 2, 0xaa, 0xab, 0xab, 0xac] 0xab = .ok [0x4c, 2, 0xaa, 0xab, 0xac] := by decide

/-! ### templates -/

theorem make_p2pkh (h : Bytes) (hl : h.length = 20) : makeP2PKH h = .ok (Spec.Script.p2pkh h) :=
  makeP2PKH_eq_spec h hl
theorem make_p2sh (h : Bytes) (hl : h.length = 20) : makeP2SH h = .ok (Spec.Script.p2sh h) :=
  makeP2SH_eq_spec h hl
theorem make_p2wpkh (h : Bytes) (hl : h.length = 20) : makeP2WPKH h = .ok (Spec.Script.p2wpkh h) :=
  makeP2WPKH_eq_spec h hl
theorem make_p2wsh (h : Bytes) (hl : h.length = 32) : makeP2WSH h = .ok (Spec.Script.p2wsh h) :=
  makeP2WSH_eq_spec h hl

/-- `is_iff_template`: a recogniser answers true exactly on the builder's outputs. -/
theorem is_iff_template_p2pkh (s : Bytes) :
    isP2PKH s = .ok true ↔ ∃ h, h.length = 20 ∧ makeP2PKH h = .ok s := by
  rw [isP2PKH_iff]
  constructor
  · rintro ⟨h, hl, rfl⟩; exact ⟨h, hl, makeP2PKH_eq_spec h hl⟩
  · rintro ⟨h, hl, e⟩; rw [makeP2PKH_eq_spec h hl] at e; injection e with e; exact ⟨h, hl, e.symm⟩

theorem is_iff_template_p2sh (s : Bytes) :
    isP2SH s = .ok true ↔ ∃ h, h.length = 20 ∧ makeP2SH h = .ok s := by
  rw [isP2SH_iff]
  constructor
  · rintro ⟨h, hl, rfl⟩; exact ⟨h, hl, makeP2SH_eq_spec h hl⟩
  · rintro ⟨h, hl, e⟩; rw [makeP2SH_eq_spec h hl] at e; injection e with e; exact ⟨h, hl, e.symm⟩

theorem is_iff_template_p2wpkh (s : Bytes) :
    isP2WPKH s = .ok true ↔ ∃ h, h.length = 20 ∧ makeP2WPKH h = .ok s := by
  rw [isP2WPKH_iff]
  constructor
  · rintro ⟨h, hl, rfl⟩; exact ⟨h, hl, makeP2WPKH_eq_spec h hl⟩
  · rintro ⟨h, hl, e⟩; rw [makeP2WPKH_eq_spec h hl] at e; injection e with e; exact ⟨h, hl, e.symm⟩

theorem is_iff_template_p2wsh (s : Bytes) :
    isP2WSH s = .ok true ↔ ∃ h, h.length = 32 ∧ makeP2WSH h = .ok s := by
  rw [isP2WSH_iff]
  constructor
  · rintro ⟨h, hl, rfl⟩; exact ⟨h, hl, makeP2WSH_eq_spec h hl⟩
  · rintro ⟨h, hl, e⟩; rw [makeP2WSH_eq_spec h hl] at e; injection e with e; exact ⟨h, hl, e.symm⟩

/-- recognisers never panic: every byte string gets a definite answer -/
theorem recognisers_total (s : Bytes) :
    (isP2PKH s = .ok true ∨ isP2PKH s = .ok false) ∧ (isP2SH s = .ok true ∨ isP2SH s = .ok false) ∧
    (isP2WPKH s = .ok true ∨ isP2WPKH s = .ok false) ∧ (isP2WSH s = .ok true ∨ isP2WSH s = .ok false) :=
  ⟨isP2PKH_total s, isP2SH_total s, isP2WPKH_total s, isP2WSH_total s⟩

/-- `decode_make`: the decoder returns the hash the builder committed to. -/
theorem decode_make_p2pkh (h : Bytes) (hl : h.length = 20) :
    ∃ s, makeP2PKH h = .ok s ∧ decodeP2PKH s = .ok h :=
  ⟨_, makeP2PKH_eq_spec h hl, decodeP2PKH_spec h hl⟩
theorem decode_make_p2sh (h : Bytes) (hl : h.length = 20) :
    ∃ s, makeP2SH h = .ok s ∧ decodeP2SH s = .ok h :=
  ⟨_, makeP2SH_eq_spec h hl, decodeP2SH_spec h hl⟩
theorem decode_make_p2wpkh (h : Bytes) (hl : h.length = 20) :
    ∃ s, makeP2WPKH h = .ok s ∧ decodeP2WPKH s = .ok h :=
  ⟨_, makeP2WPKH_eq_spec h hl, decodeP2WPKH_spec h hl⟩
theorem decode_make_p2wsh (h : Bytes) (hl : h.length = 32) :
    ∃ s, makeP2WSH h = .ok s ∧ decodeP2WSH s = .ok h :=
  ⟨_, makeP2WSH_eq_spec h hl, decodeP2WSH_spec h hl⟩

/-- decoders refuse everything that is not the template -/
theorem decode_rejects (s : Bytes) :
    ((¬ ∃ x, x.length = 20 ∧ s = Spec.Script.p2pkh x) → decodeP2PKH s = .err) ∧
    ((¬ ∃ x, x.length = 20 ∧ s = Spec.Script.p2sh x) → decodeP2SH s = .err) ∧
    ((¬ ∃ x, x.length = 20 ∧ s = Spec.Script.p2wpkh x) → decodeP2WPKH s = .err) ∧
    ((¬ ∃ x, x.length = 32 ∧ s = Spec.Script.p2wsh x) → decodeP2WSH s = .err) :=
  ⟨decodeP2PKH_err, decodeP2SH_err, decodeP2WPKH_err, decodeP2WSH_err⟩

/-- `classify_unambiguous`: at most one recogniser accepts any byte string (lengths 25/23/22/34) -/
theorem classify_unambiguous (s : Bytes) : acceptCount s ≤ 1 := acceptCount_le_one s

/-- `ClassifyOutput` names a template exactly when its recogniser accepts, NONSTANDARD otherwise -/
theorem classify_spec (s : Bytes) :
    (classify s = .ok .p2pkh ↔ isP2PKH s = .ok true) ∧
    (classify s = .ok .p2sh ↔ isP2SH s = .ok true) ∧
    (classify s = .ok .p2wpkh ↔ isP2WPKH s = .ok true) ∧
    (classify s = .ok .p2wsh ↔ isP2WSH s = .ok true) ∧
    (classify s = .ok .nonstandard ↔
      (isP2PKH s = .ok false ∧ isP2SH s = .ok false ∧ isP2WPKH s = .ok false ∧ isP2WSH s = .ok false)) :=
  Proofs.Script.classify_spec s

example : (List.replicate 20 (0x11 : UInt8)).length = 20 := by decide

/-! ### multisig, OP_RETURN, unlocking data -/

/-- `p2ms_spec`: `m <key>… n OP_CHECKMULTISIG` for every `1 ≤ m ≤ n` (in particular n ≤ 20). -/
theorem p2ms_spec (m : Nat) (keys : List Bytes) (hm : 1 ≤ m) (hmn : m ≤ keys.length)
    (hn : keys.length < 2 ^ 31) (hk : ∀ k ∈ keys, k.length < 2 ^ 32) :
    makeP2MS m keys = .ok (Spec.Script.multisig m keys) := makeP2MS_spec m keys hm hmn hn hk

/-- `MakeP2MS` panics (as documented) exactly outside `1 ≤ m ≤ n`. -/
theorem p2ms_panics (m : Nat) (keys : List Bytes) (hm32 : m < 2 ^ 32) (h : m = 0 ∨ keys.length < m) :
    makeP2MS m keys = .panic := makeP2MS_panic m keys hm32 h

/-- `opreturn_spec`: `OP_RETURN <payload>` up to 80 bytes, an error above. -/
theorem opreturn_spec (payload : Bytes) :
    makeOpReturn payload = if payload.length ≤ 80 then .ok (Spec.Script.opReturn payload) else .err :=
  makeOpReturn_spec payload

theorem redeem_p2pkh (sig pk : Bytes) (h1 : sig.length < 2 ^ 32) (h2 : pk.length < 2 ^ 32) :
    redeemP2PKH sig pk = .ok (Spec.Script.push sig ++ Spec.Script.push pk) :=
  redeemP2PKH_spec sig pk h1 h2

theorem redeem_p2sh (spk redeem : Bytes) (h : spk.length < 2 ^ 32) :
    redeemP2SH spk redeem = .ok (redeem ++ Spec.Script.push spk) := redeemP2SH_spec spk redeem h

theorem redeem_p2ms (sigs : List Bytes) (hne : sigs ≠ []) (h : ∀ s ∈ sigs, s.length < 2 ^ 32) :
    redeemP2MS sigs = .ok (0x00 :: (sigs.map Spec.Script.push).flatten) := redeemP2MS_spec sigs hne h

/-- `Stackify` (and with it `WitnessP2WSH`) works on exactly the item list of the script. -/
theorem stackify_spec (s : Bytes) (st : List Bytes) :
    stackify s = .ok st ↔ ∃ items, parse s = some items ∧ stackItems (items.map toChunk) = .ok st :=
  Proofs.Script.stackify_spec s st

/-- a script consisting of data pushes leaves exactly the pushed strings -/
theorem stackify_pushes (ds : List (UInt8 × Bytes)) :
    stackItems ((ds.map fun p => Item.push p.1 p.2).map toChunk) = .ok (ds.map (·.2)) :=
  stackItems_pushes ds

/-- builders from a public key: standard key lengths only, then the template over its hash
    (`h160` stands for `bhash.Hash160`, any function with 20-byte results) -/
theorem make_p2pkh_from_key (h160 : Bytes → Bytes) (hh : ∀ x, (h160 x).length = 20) (pk : Bytes) :
    makeP2PKHFromPublicKey h160 pk =
      if pk.length = 33 ∨ pk.length = 65 then .ok (Spec.Script.p2pkh (h160 pk)) else .err :=
  makeP2PKHFromPublicKey_spec h160 hh pk

theorem make_p2wpkh_from_key (h160 : Bytes → Bytes) (hh : ∀ x, (h160 x).length = 20) (pk : Bytes) :
    makeP2WPKHFromPublicKey h160 pk =
      if pk.length = 33 then .ok (Spec.Script.p2wpkh (h160 pk)) else .err :=
  makeP2WPKHFromPublicKey_spec h160 hh pk

example : ∀ x : Bytes, ((fun _ => List.replicate 20 (0 : UInt8)) x).length = 20 := by intro; simp

example : (1 : Nat) ≤ 2 ∧ 2 ≤ ([[0x02], [0x03], [0x04]] : List Bytes).length := by decide

end BtcVerif.Props.C12
