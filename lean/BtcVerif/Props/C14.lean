/-
  C14 — BIP39 mnemonics round-trip, detect corruption and derive the standard seed.

  `encodeW`/`decodeW` are the models of `bip39.EncodeToWords`/`bip39.DecodeWords` over the word list
  regenerated from wordlist.go, for an ARBITRARY checksum-byte function `csByte`
  (`sha256.Sum256(entropy)[0]` in the code): no property of SHA-256 is used.  Words are byte strings;
  the library compares them exactly (no case folding, trimming or normalisation), so do the models.

  Ties to the source re-checked on every run: the word list (`wordlist_is_pinned_copy`), the guards of
  `ValidateEntropySize`/`DecodeWords` (`Gen/Guards.lean`), the seed constants.
-/
import BtcVerif.Props.GuardPins.P_bip39
import BtcVerif.Proofs.Bip39
import BtcVerif.Proofs.Bip39Reference

namespace BtcVerif.Props.C14
open BtcVerif BtcVerif.Model.Bip39 BtcVerif.Proofs.Bip39

/-- `EncodeToWords` over the source's word list -/
abbrev encodeW (csByte : Bytes → UInt8) (e : Bytes) : Outcome (List Bytes) := encode wordList csByte e
/-- `DecodeWords` over the map `init` builds from the source's word list -/
abbrev decodeW (csByte : Bytes → UInt8) (ws : List Bytes) : Outcome Bytes :=
  decode (wordMapOf wordList) csByte ws

/-! ### the word list -/

/-- the list regenerated from wordlist.go equals the copy pinned by the SHA-256 of english.txt -/
theorem wordlist_is_pinned_copy : BtcVerif.Gen.bip39_WordList = Spec.Bip39.wordList :=
  gen_wordList_eq_spec

theorem wordlist_2048_distinct : wordList.length = 2048 ∧ wordList.Nodup :=
  ⟨wordList_length, wordList_nodup⟩

/-- no word contains a space (so joining with spaces and splitting at spaces is lossless) -/
theorem wordlist_no_space : ∀ w ∈ wordList, (0x20 : UInt8) ∉ w := wordList_no_space

/-! ### round trip, accepted set -/

/-- every entropy of 16/20/24/28/32 bytes encodes to 12/15/18/21/24 words that decode back to it -/
theorem bip39_dec_enc (csByte : Bytes → UInt8) (e : Bytes) (hv : ValidLen e.length) :
    ∃ ws, encodeW csByte e = .ok ws ∧ ws.length = e.length * 3 / 4 ∧ decodeW csByte ws = .ok e := by
  obtain ⟨ws, h, hl⟩ := encode_total wordList wordList_length csByte e hv
  exact ⟨ws, h, hl, decode_of_encode wordList wordList_nodup csByte e ws h⟩

/-- other entropy sizes are refused -/
theorem encode_refuses_other_sizes (csByte : Bytes → UInt8) (e : Bytes) (hv : ¬ ValidLen e.length) :
    encodeW csByte e = .err := encode_invalid _ _ _ hv

/-- `DecodeWords` accepts a word list exactly when it is the encoding of the entropy it returns
    (which then has a valid size) -/
theorem bip39_accepts_iff (csByte : Bytes → UInt8) (ws : List Bytes) (e : Bytes) :
    decodeW csByte ws = .ok e ↔ ValidLen e.length ∧ encodeW csByte e = .ok ws := by
  rw [accepts_iff wordList wordList_length wordList_nodup]
  constructor
  · intro h
    refine ⟨?_, h⟩
    by_cases hv : ValidLen e.length
    · exact hv
    · rw [encode_invalid _ _ _ hv] at h; cases h
  · exact fun h => h.2

/-- what acceptance means, spelled out: 12/15/18/21/24 words, each of them in the list at the
    position given by an 11-bit group of `entropy ‖ checksum`, where the checksum is the top
    `len/4` bits of the checksum byte -/
theorem bip39_accepted_shape (csByte : Bytes → UInt8) (ws : List Bytes) (e : Bytes)
    (h : decodeW csByte ws = .ok e) :
    ValidCount ws.length ∧ ValidLen e.length ∧ ws.length = e.length * 3 / 4 ∧
    (∀ w ∈ ws, w ∈ wordList) ∧
    ∃ is, All₂ (fun i w => wordList[i]? = some w) is ws ∧
      is = indices ws.length
        (bytesToNat e * 2 ^ (e.length / 4) + (csByte e).toNat >>> (8 - e.length / 4)) := by
  obtain ⟨hv, henc⟩ := (bip39_accepts_iff csByte ws e).mp h
  have hcount := ((decode_ok_iff _ _ _ _).mp h).1
  rw [encodeW, encode_valid _ _ _ hv] at henc
  have hall := (lookupAll_ok_iff _ _ _).mp henc
  have hlen : ws.length = e.length * 3 / 4 := by rw [← hall.length_eq, indices_length]
  refine ⟨hcount, hv, hlen, ?_, _, hall, by rw [hlen]; rfl⟩
  exact (hall.right_forall (P := fun w => w ∈ wordList)
    (fun i w hi => List.mem_of_getElem? hi))

/-- two different word lists never decode to the same entropy: any change of an accepted mnemonic
    (a substituted, dropped, added, re-cased word) is rejected or yields different entropy -/
theorem bip39_decode_injective (csByte : Bytes → UInt8) (ws ws' : List Bytes) (e : Bytes)
    (h : decodeW csByte ws = .ok e) (h' : decodeW csByte ws' = .ok e) : ws = ws' := by
  have h1 := ((bip39_accepts_iff csByte ws e).mp h).2
  have h2 := ((bip39_accepts_iff csByte ws' e).mp h').2
  rw [h1] at h2; injection h2

/-- a word that is not in the list (wrong case, extra white space, misspelt) is rejected -/
theorem bip39_unknown_word_rejected (csByte : Bytes → UInt8) (ws : List Bytes) (w : Bytes)
    (hw : w ∈ ws) (hn : w ∉ wordList) : decodeW csByte ws = .err := by
  cases hd : decodeW csByte ws with
  | ok e => exact absurd ((bip39_accepted_shape csByte ws e hd).2.2.2.1 w hw) hn
  | err => rfl
  | panic => exact absurd hd (decode_ne_panic wordList wordList_length csByte ws)

/-- a wrong number of words is rejected -/
theorem bip39_wrong_count_rejected (csByte : Bytes → UInt8) (ws : List Bytes)
    (hc : ¬ ValidCount ws.length) : decodeW csByte ws = .err := by
  cases hd : decodeW csByte ws with
  | ok e => exact absurd (bip39_accepted_shape csByte ws e hd).1 hc
  | err => rfl
  | panic => exact absurd hd (decode_ne_panic wordList wordList_length csByte ws)

/-- neither function can panic -/
theorem bip39_no_panic (csByte : Bytes → UInt8) (e : Bytes) (ws : List Bytes) :
    encodeW csByte e ≠ .panic ∧ decodeW csByte ws ≠ .panic :=
  ⟨encode_ne_panic wordList wordList_length csByte e,
   decode_ne_panic wordList wordList_length csByte ws⟩

/-- the same statements for ANY list of 2048 distinct words (nothing depends on English) -/
theorem bip39_accepts_iff_any_wordlist (wl : List Bytes) (hlen : wl.length = 2048) (hnd : wl.Nodup)
    (csByte : Bytes → UInt8) (ws : List Bytes) (e : Bytes) :
    decode (wordMapOf wl) csByte ws = .ok e ↔ encode wl csByte e = .ok ws :=
  accepts_iff wl hlen hnd csByte e ws

/-- the instances the oracle runs (checksum byte = first byte of `Prim.sha256`) -/
theorem bip39_go_instance (ws : List Bytes) (e : Bytes) :
    decodeGo ws = .ok e ↔ ValidLen e.length ∧ encodeGo e = .ok ws :=
  bip39_accepts_iff sha256First ws e

/-! ### the reference encoding -/

/-- **the mnemonic equals the BIP39 reference encoding.** For every hash function `sha256` with
    32-byte output (the checksum byte being its first byte, as in the code), `EncodeToWords` returns
    exactly the words the standard defines bit by bit — ENT ‖ first ENT/32 bits of `sha256(ENT)`,
    groups of 11 bits, each an index into the word list — and refuses exactly the other sizes.
    (For the instance the oracle runs, `csOf Prim.sha256 = sha256First` by `rfl`; that `Prim.sha256`
    returns 32 bytes is not proved — `Prim/` is executable code — so the oracle additionally compares
    model and `Spec.Bip39.encode` on every `bip39.enc` case.) -/
theorem bip39_enc_eq_reference (sha256 : Bytes → Bytes) (hsha : ∀ x, (sha256 x).length = 32)
    (e : Bytes) (ws : List Bytes) :
    encodeW (csOf sha256) e = .ok ws ↔ Spec.Bip39.encode wordList sha256 e = some ws :=
  encode_eq_reference wordList sha256 hsha e ws

/-- a hash function satisfying the hypothesis, and the instance of the code -/
example : ∀ x : Bytes, ((fun _ => List.replicate 32 (0xab : UInt8)) x).length = 32 := by
  intro _; simp
example : sha256First = csOf Prim.sha256 := rfl

/-! ### generation -/

/-- `GenerateMnemonic(rand, n)` (for `n` whose product with 32 fits Go's `int`) succeeds only for
    12/15/18/21/24 words; it then returns `n` words and has consumed `4n/3` bytes of `rand` -/
theorem generateMnemonic_sizes (csByte : Bytes → UInt8) (rand : Bytes) (n : Nat)
    (hn : n < 288230376151711744) (ws : List Bytes)
    (h : generateMnemonic wordList csByte rand (n : Int) = .ok ws) :
    ValidCount n ∧ ws.length = n ∧ n * 4 / 3 ≤ rand.length :=
  generateMnemonic_ok wordList csByte rand n hn ws h

/-- and for those counts it succeeds whenever the reader delivers enough bytes; the result decodes
    to exactly the bytes read -/
theorem generateMnemonic_valid (csByte : Bytes → UInt8) (rand : Bytes) (n : Nat) (hc : ValidCount n)
    (hr : n * 4 / 3 ≤ rand.length) :
    ∃ ws, generateMnemonic wordList csByte rand (n : Int) = .ok ws ∧ ws.length = n ∧
      decodeW csByte ws = .ok (rand.take (n * 4 / 3)) :=
  generateMnemonic_succeeds wordList wordList_length wordList_nodup csByte rand n hc hr

/-! ### the seed -/

/-- `DeriveSeed(words, passphrase)` = PBKDF2(password = words joined by single spaces,
    salt = "mnemonic" ‖ passphrase, 2048 iterations, 64 bytes) for whatever PBKDF2 function is
    plugged in; no normalisation of either string -/
theorem bip39_seed_eq_reference (pbkdf2 : Bytes → Bytes → Nat → Nat → Bytes) (ws : List Bytes)
    (pass : Bytes) :
    deriveSeed pbkdf2 ws pass = Spec.Bip39.seed pbkdf2 (joinWords ws) pass :=
  deriveSeed_eq_spec pbkdf2 ws pass

/-! ### non-vacuity -/

example : ValidLen (List.replicate 16 (0 : UInt8)).length := by decide
example : ValidLen (List.replicate 32 (0xff : UInt8)).length := by decide
example : ¬ ValidLen (List.replicate 17 (0 : UInt8)).length := by decide
example : ValidCount 12 ∧ ValidCount 24 ∧ ¬ ValidCount 13 := by decide

end BtcVerif.Props.C14
