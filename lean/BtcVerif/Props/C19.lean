/-
  C19 — stateless APIs are safe for concurrent use from a cold start.

  Two layers: (1) theorems in a happens-before model (Model/HB.lean): each of the three access
  disciplines implies data-race freedom for ANY number of goroutines and ANY interleaving, and the
  unforced lazy initialisation (the reproduced defect D21) races; (2) `lib_race_free`: the kernel
  evaluates the discipline on the access table regenerated from the Go source by the SSA summary
  (extract/access.go) on every run — every package-level variable of the repository's modules and of
  the kklash dependencies and every field of rpc.Connection.
  Residue (stated in DESIGN.md): the table's completeness rests on the SSA summary; the model is the
  happens-before relation above, not Go's formal memory model; the race-detector rig (correspondence)
  observes only the schedules that occur.
-/
import BtcVerif.Proofs.HB
import BtcVerif.Gen.AccessTable

namespace BtcVerif.Props.C19
open BtcVerif.Model.HB

/-- a location written only during package initialisation never races -/
theorem init_only_no_race (t : Trace) (x : Nat) (hf : InitFirst t) (hx : InitOnly t x) : ¬ RaceOn t x :=
  init_only_race_free t x hf hx

/-- a location whose post-initialisation accesses are all under one mutex never races -/
theorem mutex_guarded_no_race (t : Trace) (x m : Nat) (hf : InitFirst t) (hm : MutexOk t)
    (hg : GuardedBy t x m) : ¬ RaceOn t x := guarded_race_free t x m hf hm hg

/-- the cold-start defect: without the forced initialisation two first calls race -/
theorem lazy_init_cold_start_races : RaceOn coldStartTrace 7 := lazy_init_races

/-- with initialisation forcing the lazy write, any number of goroutines calling the accessor in
    any order never race -/
theorem forced_init_no_race (x : Nat) (calls : List Nat) (hpos : ∀ tid ∈ calls, tid ≠ 0) :
    ¬ RaceOn (lazyCall 0 x false ++ (calls.map fun tid => lazyCall tid x true).flatten) x :=
  forced_init_race_free x calls hpos

/-- request ids handed out inside the critical section are pairwise distinct, for any number of
    requests (the critical sections are totally ordered by the mutex) -/
theorem request_ids_distinct (start k : Nat) :
    ((List.range k).map fun i => start + i).Nodup := by
  rw [List.nodup_iff_pairwise_ne] -- distinct because `start + ·` is injective on a duplicate-free range
  apply List.Pairwise.map (R := (· ≠ ·))
  · intro a b h; omega
  · exact List.nodup_iff_pairwise_ne.mp List.nodup_range

/-- **the library**: every package-level location (and every rpc.Connection field) satisfies one of
    the three disciplines on the table regenerated from the current source; the documented global
    mutation `constants.CurrentNetwork` is excluded as the property says -/
theorem lib_race_free :
    tableOk BtcVerif.Gen.accessTable BtcVerif.Gen.excludedLocs = true := by decide +kernel

/-- the table is not empty and covers the interesting locations (non-vacuity) -/
theorem table_covers :
    BtcVerif.Gen.coverLocs.all (fun i => i != 0 && (locs BtcVerif.Gen.accessTable).contains i) = true := by
  decide +kernel

end BtcVerif.Props.C19
