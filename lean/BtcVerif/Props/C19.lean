/-
  C19 — stateless APIs are safe for concurrent use from a cold start.

  Two layers: (1) theorems in a happens-before model (Model/HB.lean): each of the three access
  disciplines implies data-race freedom for ANY number of goroutines and ANY interleaving, and the
  unforced lazy initialisation (the reproduced defect D21) races; (2) `lib_race_free`: the kernel
  evaluates the discipline on the access table regenerated from the Go source by the SSA summary
  (extract/access.go) on every run — every package-level variable of the repository's modules and of
  the kklash dependencies and every field of rpc.Connection.
  Residue (stated in DESIGN.md): the table's completeness rests on the SSA summary; the model is the
  happens-before relation above, not Go's formal memory model; the race-detector rig (correspondence)
  observes only the schedules that occur.
-/
import BtcVerif.Props.GuardPins.P_rpc
import BtcVerif.Proofs.HB
import BtcVerif.Gen.AccessTable
import BtcVerif.Model.RpcIds
import BtcVerif.Gen.Facts

namespace BtcVerif.Props.C19
open BtcVerif.Model.HB

/-- a location written only during package initialisation never races -/
theorem init_only_no_race (t : Trace) (x : Nat) (hf : InitFirst t) (hx : InitOnly t x) : ¬ RaceOn t x :=
  init_only_race_free t x hf hx

/-- a location whose post-initialisation accesses are all under one mutex never races -/
theorem mutex_guarded_no_race (t : Trace) (x m : Nat) (hf : InitFirst t) (hm : MutexOk t)
    (hg : GuardedBy t x m) : ¬ RaceOn t x := guarded_race_free t x m hf hm hg

/-- the cold-start defect: without the forced initialisation two first calls race -/
theorem lazy_init_cold_start_races : RaceOn coldStartTrace 7 := lazy_init_races

/-- with initialisation forcing the lazy write, any number of goroutines calling the accessor in
    any order never race -/
theorem forced_init_no_race (x : Nat) (calls : List Nat) (hpos : ∀ tid ∈ calls, tid ≠ 0) :
    ¬ RaceOn (lazyCall 0 x false ++ (calls.map fun tid => lazyCall tid x true).flatten) x :=
  forced_init_race_free x calls hpos

/-- request ids handed out inside the critical section are pairwise distinct, for any number of
    requests (the critical sections are totally ordered by the mutex) -/
theorem request_ids_distinct (start k : Nat) :
    ((List.range k).map fun i => start + i).Nodup := by
  rw [List.nodup_iff_pairwise_ne] -- distinct because `start + ·` is injective on a duplicate-free range
  apply List.Pairwise.map (R := (· ≠ ·))
  · intro a b h; omega
  · exact List.nodup_iff_pairwise_ne.mp List.nodup_range

/-- **the library**: every package-level location (and every rpc.Connection field) satisfies one of
    the three disciplines on the table regenerated from the current source; the documented global
    mutation `constants.CurrentNetwork` is excluded as the property says -/
theorem lib_race_free :
    tableOk BtcVerif.Gen.accessTable BtcVerif.Gen.excludedLocs = true := by decide +kernel

/-- the table is not empty and covers the interesting locations (non-vacuity) -/
theorem table_covers :
    BtcVerif.Gen.coverLocs.all (fun i => i != 0 && (locs BtcVerif.Gen.accessTable).contains i) = true := by
  decide +kernel

/-- **from the table to executions**: for every execution that the rows describe (every access has a
    row of the same kind and initialisation flag; a row marked guarded stands for an access made while
    the location's mutex is held), a location on which the table's discipline (a) "written only during
    initialisation" or (b) "every later access under the mutex" evaluates to true has no data race —
    for any number of goroutines and any interleaving. Discipline (c), lazy initialisation forced
    during package initialisation, is `forced_init_no_race`. -/
theorem table_discipline_sound (t : Trace) (rows : List AccessRow) (mutexOf : Nat → Nat) (x : Nat)
    (hf : InitFirst t) (hm : MutexOk t) (hc : Conforms t rows mutexOf) (hok : locOkAB rows x = true) :
    ¬ RaceOn t x :=
  BtcVerif.Model.HB.table_discipline_sound t rows mutexOf x hf hm hc hok

/-- the disciplines (a)/(b) hold on the regenerated table for every location that has no lazy write
    after initialisation (those are covered by discipline (c)) -/
theorem lib_ab_or_lazy :
    ((locs BtcVerif.Gen.accessTable).filter (fun l => !BtcVerif.Gen.excludedLocs.contains l)).all
      (fun l => locOkAB BtcVerif.Gen.accessTable l ||
        (BtcVerif.Gen.accessTable.any fun r => r.loc == l && r.isWrite && r.lazy && r.inInit)) = true := by
  decide +kernel

/-! non-vacuity of the hypotheses: a trace with initialisation, two goroutines taking the mutex in turn,
    and its rows -/
def sampleTrace : Trace :=
  [⟨0, .write, 5⟩, ⟨1, .lock, 9⟩, ⟨1, .read, 5⟩, ⟨1, .write, 5⟩, ⟨1, .unlock, 9⟩, ⟨2, .lock, 9⟩, ⟨2, .write, 5⟩, ⟨2, .unlock, 9⟩]
def sampleRows : List AccessRow :=
  [⟨5, true, false, true, false⟩, ⟨5, false, false, false, true⟩, ⟨5, true, false, false, true⟩]

example : locOkAB sampleRows 5 = true := by decide
example : Conforms sampleTrace sampleRows (fun _ => 9) := by
  intro i e hi hk
  have hlt : i < 8 := by
    have := (List.getElem?_eq_some_iff.mp hi).1
    simpa [sampleTrace] using this
  rcases i with _ | _ | _ | _ | _ | _ | _ | _ | i
  case succ.succ.succ.succ.succ.succ.succ.succ => omega
  all_goals
    simp [sampleTrace] at hi
    subst hi
    simp at hk
  all_goals
    first
    | exact ⟨⟨5, true, false, true, false⟩, by decide, rfl, rfl, rfl, by decide⟩
    | exact ⟨⟨5, false, false, false, true⟩, by decide, rfl, rfl, rfl, fun _ => by decide⟩
    | exact ⟨⟨5, true, false, false, true⟩, by decide, rfl, rfl, rfl, fun _ => by decide⟩

/-! ### request ids: the counter as a state machine (`Model/RpcIds.lean`) -/

open BtcVerif.Model.RpcIds in
theorem rpc_log_shape (tags : List Nat) : ∀ (s : St),
    (tags.foldl take s).counter = s.counter + tags.length ∧
    (tags.foldl take s).log = s.log ++ (tags.zip (List.range' s.counter tags.length)) := by
  induction tags with
  | nil => intro s; simp
  | cons t ts ih =>
    intro s
    have h := ih (take s t)
    simp only [List.foldl_cons, List.length_cons, List.range'_succ, List.zip_cons_cons]
    refine ⟨by rw [h.1]; simp [take]; omega, ?_⟩
    rw [h.2]
    simp [take, List.append_assoc]

open BtcVerif.Model.RpcIds in
/-- **every id is issued once**: in any execution (any number of goroutines, any interleaving of their
critical sections, any number of retries) the ids handed out are pairwise distinct — so two different
requests never carry the same id, and not even a retry repeats one -/
theorem rpc_ids_issued_once (start : Nat) (tags : List Nat) :
    ((run start tags).log.map Prod.snd).Nodup := by
  have h := (rpc_log_shape tags { counter := start, log := [] }).2
  simp only [run, h, List.nil_append]
  have hl : (List.range' start tags.length).length = tags.length := List.length_range'
  rw [List.map_snd_zip (by omega)]
  exact List.nodup_range'

open BtcVerif.Model.RpcIds in
/-- two entries of the log with the same id are the same entry: different logical requests have different ids -/
theorem rpc_different_requests_different_ids (start : Nat) (tags : List Nat) (i j : Nat)
    (hi : i < (run start tags).log.length) (hj : j < (run start tags).log.length)
    (h : ((run start tags).log[i]).2 = ((run start tags).log[j]).2) : i = j := by
  have hn := rpc_ids_issued_once start tags
  have hi' : i < ((run start tags).log.map Prod.snd).length := by simpa using hi
  have hj' : j < ((run start tags).log.map Prod.snd).length := by simpa using hj
  exact (List.getElem_inj (h₀ := hi') (h₁ := hj') hn).mp (by simpa using h)

open BtcVerif.Model.RpcIds in
/-- the theorem discriminates: handing the id back after a refusal (seeded change C19-R6A) gives the retry of
request 1 the id that request 2 holds -/
theorem rpc_handing_ids_back_clashes :
    (runBack 0 [.take 1, .take 2, .refused, .take 1]).log = [(1, 0), (2, 1), (1, 1)] := by decide

/-- the tie: the only assignment `RequestSetResult` makes through a field is `conn.requestID += 1`, and it takes
the mutex before anything else (the access table has the read and the write under the mutex: `lib_race_free`) -/
theorem rpc_counter_only_incremented :
    BtcVerif.Gen.Facts.rpc_Connection_RequestSetResult_assignStmts = ["conn.requestID += 1"] ∧
    BtcVerif.Gen.Facts.rpc_Connection_RequestSetResult_calls.take 2 =
      ["conn.requestIDMutex.Lock", "conn.requestIDMutex.Unlock"] := by decide


end BtcVerif.Props.C19
