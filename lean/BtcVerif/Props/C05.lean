/-
  C05 — signature verification accepts exactly what the reference verifier accepts.

  Property theorems only (helpers: `Proofs/ECC.lean`, `Proofs/ECCGroup.lean`). `Model.ECC.verifyECDSA`
  / `verifySchnorr` mirror the Go code's guard structure over the curve record `C : CurveOps`;
  `Spec.ECC.verifyECDSA` / `verifySchnorr` are SEC 1 §4.1.4 (with strict key parsing) and the
  BIP340 reference verifier over the SAME opaque curve functions, so the equalities below are about
  the order and completeness of the range checks, the accepted key encodings and the treatment of
  the point at infinity — and they hold for ALL inputs (any byte strings, any integers).
  Hypotheses (`FieldHyp`, `CurveAbs`) are structure arguments, satisfiable (`Proofs/CurveAbsToy.lean`).

  What no theorem can state: "a signature with an altered r, s, message or key is rejected" is
  unforgeability, a computational assumption — here it is covered by `model = reference` for all
  inputs plus the differential run (bit/byte mutations, forged signatures) against the independent
  `Prim` implementation.
-/
import BtcVerif.Props.GuardPins.P_ecc
import BtcVerif.Proofs.ECCGroup
import BtcVerif.Proofs.CurveAbsToy

namespace BtcVerif.Props.C05
open BtcVerif BtcVerif.Model.ECC BtcVerif.Proofs BtcVerif.Proofs.ECC
open BtcVerif.Spec.ECC (IsStandardEncoding)

variable {C : CurveOps}

/-- ECDSA: the model verifier IS the SEC 1 verifier with strict key parsing, for every key string,
    every 32-byte digest and every pair of integers (never panics) -/
theorem verifyECDSA_eq_spec (H : CurveAbs C) (pub hash : Bytes) (r s : Nat) (hh : hash.length = 32) :
    verifyECDSA C pub hash r s = .ok (Spec.ECC.verifyECDSA C pub hash r s) :=
  ECC.verifyECDSA_eq_spec H pub hash r s hh

/-- BIP340: the model verifier IS the BIP340 reference verifier, for every key string, 32-byte
    message and 64-byte signature (never panics) -/
theorem verifySchnorr_eq_spec (H : CurveAbs C) (S : SigOps) (pub msg sig : Bytes) (hm : msg.length = 32)
    (hs : sig.length = 64) :
    verifySchnorr C S pub msg sig = .ok (Spec.ECC.verifySchnorr C S.hChallenge pub msg sig) :=
  ECC.verifySchnorr_eq_spec H S pub msg sig hm hs

/-- honestly produced ECDSA signatures are accepted, under the compressed and the uncompressed key
    (`r ≠ 0`, `s ≠ 0`: the library does not retry on the 2^-256 events r = 0 / s = 0; both are
    decidable and hold for every signature seen) -/
theorem honest_ecdsa_accepted (H : CurveAbs C) {S : SigOps} {priv hash pub : Bytes} {r s : Nat}
    (hsig : signECDSA C S priv hash = .ok (r, s)) (hr0 : r ≠ 0) (hs0 : s ≠ 0)
    (hpub : getPublicKeyCompressed C priv = .ok pub ∨ getPublicKeyUncompressed C priv = .ok pub) :
    verifyECDSA C pub hash r s = .ok true := ecdsa_sign_verify H hsig hr0 hs0 hpub

/-- … including the high-S twin, as documented -/
theorem verify_highS_twin (H : CurveAbs C) {pub hash : Bytes} {r s : Nat}
    (h : verifyECDSA C pub hash r s = .ok true) : verifyECDSA C pub hash r (C.n - s) = .ok true :=
  ECC.verify_highS_twin H h

/-- honestly produced Schnorr signatures are accepted -/
theorem honest_schnorr_accepted (H : CurveAbs C) {S : SigOps} {priv msg aux sig pub : Bytes}
    (hsig : signSchnorr C S priv msg aux = .ok sig) (hpub : getPublicKeySchnorr C priv = .ok pub) :
    verifySchnorr C S pub msg sig = .ok true := schnorr_sign_verify H hsig hpub

/-- ECDSA: r or s equal to 0 or ≥ n is rejected — hypothesis-free, for any key string -/
theorem reject_out_of_range (pub hash : Bytes) (r s : Nat) (hh : hash.length = 32)
    (hbad : r = 0 ∨ C.n ≤ r ∨ s = 0 ∨ C.n ≤ s) : verifyECDSA C pub hash r s = .ok false :=
  verifyECDSA_reject_range pub hash r s hh hbad

/-- Schnorr: r ≥ p or s ≥ n is rejected — hypothesis-free, for any key string -/
theorem schnorr_reject_out_of_range (S : SigOps) (pub msg sig : Bytes) (hm : msg.length = 32)
    (hs : sig.length = 64) (hbad : C.p ≤ beNat (sig.take 32) ∨ C.n ≤ beNat (sig.drop 32)) :
    verifySchnorr C S pub msg sig = .ok false := verifySchnorr_reject_range S pub msg sig hm hs hbad

/-- a public key that is not a standard encoding of a finite curve point (malformed, wrong length,
    hybrid prefix, off-curve, x ≥ p, y ≥ p, the all-zero encodings of infinity) is rejected by both
    verifiers, whatever the signature -/
theorem reject_bad_key (H : FieldHyp C) (S : SigOps) (pub hash sig : Bytes) (r s : Nat)
    (hh : hash.length = 32) (hs : sig.length = 64) (hk : ¬ ∃ P, IsStandardEncoding C pub P) :
    verifyECDSA C pub hash r s = .ok false ∧ verifySchnorr C S pub hash sig = .ok false := by
  have hd : deserializePoint C pub = .err := by
    cases hd : deserializePoint C pub with
    | err => rfl
    | panic => exact absurd hd (deserializePoint_ne_panic' pub)
    | ok P => exact absurd ⟨P, (deserializePoint_ok_iff H pub P).mp hd⟩ hk
  exact ⟨verifyECDSA_reject_key pub hash r s hh hd, verifySchnorr_reject_key S pub hash sig hh hs (Or.inr hd)⟩

/-- Schnorr keys must be exactly 32 bytes -/
theorem schnorr_reject_key_length (S : SigOps) (pub msg sig : Bytes) (hm : msg.length = 32)
    (hs : sig.length = 64) (hk : pub.length ≠ 32) : verifySchnorr C S pub msg sig = .ok false :=
  verifySchnorr_reject_key S pub msg sig hm hs (Or.inl hk)

/-- hypothesis-free: the key decoder never yields ekliptic's point at infinity `(0,0)` nor any zero
    coordinate. This is exactly what failed before the D8 repair: `00…00` decoded to `(0,0)`, `e·P`
    vanished, and `VerifySchnorr(00…00, m, x(G)‖1)`, `VerifyECDSA(02 00…00, m, x(G), z)` returned true
    (kept as corpus cases). -/
theorem deserialize_never_infinity {bs : Bytes} {P : Pt} (h : deserializePoint C bs = .ok P) :
    P ≠ (0, 0) ∧ P.1 ≠ 0 ∧ P.2 ≠ 0 := by
  have := ECC.deserialize_never_infinity h
  exact ⟨fun h0 => this.1 (by rw [h0]), this⟩

/-- a decoded key is a finite curve point: `x, y < p` and `y² = x³ + 7` -/
theorem deserialize_sound (H : FieldHyp C) {bs : Bytes} {P : Pt} (h : deserializePoint C bs = .ok P) :
    P.1 < C.p ∧ P.2 < C.p ∧ P.2 * P.2 % C.p = (P.1 * P.1 * P.1 + 7) % C.p :=
  (validPoint_iff P).mp (ECC.deserialize_sound H h).1

/-! ### non-vacuity on the toy curve (`y² = x³ + 7` over F₄₃, order 31) -/

example : CurveAbs Toy.ops := Toy.curveAbs

/-- the D8 forgery shape on the toy curve: key `02 00…00`, `r = x(G) = 2`, `s = z` — rejected -/
example : verifyECDSA Toy.ops ((2 : UInt8) :: List.replicate 32 0) (List.replicate 31 0 ++ [5]) 2 5 = .ok false := by
  decide

end BtcVerif.Props.C05
