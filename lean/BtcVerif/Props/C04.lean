/-
  C04 — every signature the library produces is valid, canonical and deterministic.

  Property theorems (helpers: `Proofs/ECCGroup.lean`, `Proofs/ECCDer.lean`, `Proofs/Signer.lean`).
  The signing model (`Model/ECC.lean`: `signECDSA`, `signSchnorr`, `signSigHash`) mirrors
  `ecc.SignECDSA` + `ekliptic.SignECDSA`, `ecc.SignSchnorr`, `signer.SignSigHash` over the curve
  record `C : CurveOps` and the record `S : SigOps` of hash-based functions (RFC 6979 nonce, the
  three BIP340 tagged hashes), which are UNINTERPRETED here: every theorem holds for any nonce
  function and any hash functions. "Deterministic" is then immediate (the model is a function of
  key, digest and aux), and "equals the RFC 6979 / BIP340 reference signature" is established by
  the differential run against the independent `Prim.RFC6979` / `Prim.ECDSA` / `Prim.BIP340`
  implementations on every generated case (residue stated in DESIGN.md §7 C04).
  Hypotheses (`CurveAbs`) are structure arguments, satisfiable (`Proofs/CurveAbsToy.lean`).
-/
import BtcVerif.Proofs.ECCGroup
import BtcVerif.Proofs.ECCDer
import BtcVerif.Proofs.CurveAbsToy

namespace BtcVerif.Props.C04
open BtcVerif BtcVerif.Model.ECC BtcVerif.Proofs BtcVerif.Proofs.ECC

variable {C : CurveOps}

/-- every ECDSA signature produced verifies under the matching public key (either encoding).
    `r ≠ 0`, `s ≠ 0`: `ekliptic.SignECDSA` does not re-draw the nonce on these 2^-256 events; the
    predicates are decidable and the harness checks them on every produced signature. -/
theorem ecdsa_sign_verify (H : CurveAbs C) {S : SigOps} {priv hash pub : Bytes} {r s : Nat}
    (hsig : signECDSA C S priv hash = .ok (r, s)) (hr0 : r ≠ 0) (hs0 : s ≠ 0)
    (hpub : getPublicKeyCompressed C priv = .ok pub ∨ getPublicKeyUncompressed C priv = .ok pub) :
    verifyECDSA C pub hash r s = .ok true := ECC.ecdsa_sign_verify H hsig hr0 hs0 hpub

/-- every ECDSA signature produced has `s ≤ n/2` and both components below `n` — hypothesis-free -/
theorem lowS {S : SigOps} {priv hash : Bytes} {r s : Nat} (hsig : signECDSA C S priv hash = .ok (r, s)) :
    s ≤ C.n / 2 ∧ r < C.n ∧ s < C.n := signECDSA_lowS hsig

/-- signing succeeds (no panic) for every valid key, 32-byte digest and in-range nonce -/
theorem ecdsa_sign_total (H : CurveAbs C) (S : SigOps) (priv hash : Bytes) (hp : priv.length = 32)
    (hh : hash.length = 32) (hd : isValidScalar C (beNat priv) = true)
    (hk : isValidScalar C (S.nonce (beNat priv) hash) = true) :
    ∃ r s, signECDSA C S priv hash = .ok (r, s) := signECDSA_ok H S priv hash hp hh hd hk

/-- the encoded form: BIP66 strict DER, 9..73 bytes, the requested hash-type byte appended, and it
    decodes to exactly the produced `(r, s)` -/
theorem der_of_sig (hn2 : C.n ≤ 2 ^ 256) (S : SigOps) (hash priv : Bytes) (ht r s : Nat)
    (hsig : signECDSA C S priv hash = .ok (r, s)) (hht : ht < 256) :
    ∃ out, signSigHash C S hash priv ht = .ok out ∧ Spec.bip66 out = true ∧
      Model.DER.decode out = .ok ⟨r, s, ht⟩ ∧ out.getLast? = some (UInt8.ofNat ht) ∧
      9 ≤ out.length ∧ out.length ≤ 73 := signSigHash_der hn2 S hash priv ht r s hsig hht

/-- every Schnorr signature produced verifies under the signer's x-only key (the even-Y negations
    of `d` and `k` included) -/
theorem schnorr_sign_verify (H : CurveAbs C) {S : SigOps} {priv msg aux sig pub : Bytes}
    (hsig : signSchnorr C S priv msg aux = .ok sig) (hpub : getPublicKeySchnorr C priv = .ok pub) :
    verifySchnorr C S pub msg sig = .ok true := ECC.schnorr_sign_verify H hsig hpub

/-- a produced Schnorr signature is 64 bytes `x(R) ‖ s` with `x(R) < p`, `s < n` -/
theorem schnorr_sig_form (H : CurveAbs C) {S : SigOps} {priv msg aux sig : Bytes}
    (hsig : signSchnorr C S priv msg aux = .ok sig) :
    sig.length = 64 := by
  obtain ⟨_, _, k0, _, _, h⟩ := signSchnorr_inv H hsig
  simp only at h
  rw [h]; simp

/-! ### non-vacuity -/

example : CurveAbs Toy.ops := Toy.curveAbs

/-- a concrete signature on the toy curve (constant nonce 7): d = 5, z = 9 -/
example : signECDSA Toy.ops ⟨fun _ _ => 7, id, id, id⟩ (List.replicate 31 0 ++ [5]) (List.replicate 31 0 ++ [9])
    = .ok (25, 3) := by decide

/-- … and it verifies under the compressed public key `03 ‖ x(5·G)`, as `ecdsa_sign_verify` says -/
example : verifyECDSA Toy.ops (Spec.ECC.encodeCompressed (Toy.tbl 5)) (List.replicate 31 0 ++ [9]) 25 3 = .ok true := by
  decide

end BtcVerif.Props.C04
