/-
  C04 — every signature the library produces is valid, canonical and deterministic.

  Property theorems (helpers: `Proofs/ECCGroup.lean`, `Proofs/ECCDer.lean`, `Proofs/ECCSigner.lean`).
  The signing model (`Model/ECC.lean`: `signECDSA`, `signSchnorr`, `signSigHash`) mirrors
  `ecc.SignECDSA` + `ekliptic.SignECDSA`, `ecc.SignSchnorr`, `signer.SignSigHash` over the curve
  record `C : CurveOps` and the record `S : SigOps` of hash-based functions (RFC 6979 nonce, the
  three BIP340 tagged hashes), which are UNINTERPRETED here: every theorem holds for any nonce
  function and any hash functions. "Deterministic" is then immediate (the model is a function of
  key, digest and aux), and "equals the RFC 6979 / BIP340 reference signature" is established by
  the differential run against the independent `Prim.RFC6979` / `Prim.ECDSA` / `Prim.BIP340`
  implementations on every generated case (residue stated in DESIGN.md §7 C04).
  Hypotheses (`CurveAbs`) are structure arguments, satisfiable (`Proofs/CurveAbsToy.lean`).
-/
import BtcVerif.Props.GuardPins.P_signer
import BtcVerif.Props.GuardPins.P_der
import BtcVerif.Props.GuardPins.P_ecc
import BtcVerif.Proofs.ECCGroup
import BtcVerif.Proofs.ECCDer
import BtcVerif.Proofs.ECCSigner
import BtcVerif.Proofs.CurveAbsToy

namespace BtcVerif.Props.C04
open BtcVerif BtcVerif.Model BtcVerif.Model.ECC BtcVerif.Proofs BtcVerif.Proofs.ECC BtcVerif.Model.Signer

variable {C : CurveOps}

/-- every ECDSA signature produced verifies under the matching public key (either encoding).
    `r ≠ 0`, `s ≠ 0`: `ekliptic.SignECDSA` does not re-draw the nonce on these 2^-256 events; the
    predicates are decidable and the harness checks them on every produced signature. -/
theorem ecdsa_sign_verify (H : CurveAbs C) {S : SigOps} {priv hash pub : Bytes} {r s : Nat}
    (hsig : signECDSA C S priv hash = .ok (r, s)) (hr0 : r ≠ 0) (hs0 : s ≠ 0)
    (hpub : getPublicKeyCompressed C priv = .ok pub ∨ getPublicKeyUncompressed C priv = .ok pub) :
    verifyECDSA C pub hash r s = .ok true := ECC.ecdsa_sign_verify H hsig hr0 hs0 hpub

/-- every ECDSA signature produced has `s ≤ n/2` and both components below `n` — hypothesis-free -/
theorem lowS {S : SigOps} {priv hash : Bytes} {r s : Nat} (hsig : signECDSA C S priv hash = .ok (r, s)) :
    s ≤ C.n / 2 ∧ r < C.n ∧ s < C.n := signECDSA_lowS hsig

/-- signing succeeds (no panic) for every valid key, 32-byte digest and in-range nonce -/
theorem ecdsa_sign_total (H : CurveAbs C) (S : SigOps) (priv hash : Bytes) (hp : priv.length = 32)
    (hh : hash.length = 32) (hd : isValidScalar C (beNat priv) = true)
    (hk : isValidScalar C (S.nonce (beNat priv) hash) = true) :
    ∃ r s, signECDSA C S priv hash = .ok (r, s) := signECDSA_ok H S priv hash hp hh hd hk

/-- the encoded form: BIP66 strict DER, 9..73 bytes, the requested hash-type byte appended, and it
    decodes to exactly the produced `(r, s)` -/
theorem der_of_sig (hn2 : C.n ≤ 2 ^ 256) (S : SigOps) (hash priv : Bytes) (ht r s : Nat)
    (hsig : signECDSA C S priv hash = .ok (r, s)) (hht : ht < 256) :
    ∃ out, signSigHash C S hash priv ht = .ok out ∧ Spec.bip66 out = true ∧
      Model.DER.decode out = .ok ⟨r, s, ht⟩ ∧ out.getLast? = some (UInt8.ofNat ht) ∧
      9 ≤ out.length ∧ out.length ≤ 73 := signSigHash_der hn2 S hash priv ht r s hsig hht

/-- every Schnorr signature produced verifies under the signer's x-only key (the even-Y negations
    of `d` and `k` included) -/
theorem schnorr_sign_verify (H : CurveAbs C) {S : SigOps} {priv msg aux sig pub : Bytes}
    (hsig : signSchnorr C S priv msg aux = .ok sig) (hpub : getPublicKeySchnorr C priv = .ok pub) :
    verifySchnorr C S pub msg sig = .ok true := ECC.schnorr_sign_verify H hsig hpub

/-- a produced Schnorr signature is 64 bytes `x(R) ‖ s` with `x(R) < p`, `s < n` -/
theorem schnorr_sig_form (H : CurveAbs C) {S : SigOps} {priv msg aux sig : Bytes}
    (hsig : signSchnorr C S priv msg aux = .ok sig) :
    sig.length = 64 := by
  obtain ⟨_, _, k0, _, _, h⟩ := signSchnorr_inv H hsig
  simp only at h
  rw [h]; simp

/-! ### transaction-signing helpers (model: `Proofs/ECCSigner.lean`)

  `Hh : HashOps` holds the two signature-hash functions and HASH160, uninterpreted: the statements
  name the digest that is signed — the legacy / BIP143 hash of the PRE-state `tx` at the designated
  input with the P2PKH script code of the key (correctness of those hashes is C03). -/

/-- P2PKH (compressed and uncompressed): the input index is in range, version / outputs / locktime /
    witnesses and every other input are unchanged, the designated input keeps its outpoint and
    sequence, and its scriptSig is `push(sig) ‖ push(pub)` with `sig = SignSigHash(legacy(tx, n,
    P2PKH(pub), ht), priv, ht)` -/
theorem signP2PKH_frame_form {S : SigOps} {Hh : HashOps} {tx tx' : Tx} {nInput : Int} {priv : Bytes} {ht : Nat}
    {compressed : Bool} (h : signInputP2PKH C S Hh tx nInput priv ht compressed = .ok tx') :
    0 ≤ nInput ∧ nInput.toNat < tx.inputs.length ∧
    tx'.version = tx.version ∧ tx'.outputs = tx.outputs ∧ tx'.locktime = tx.locktime ∧
    tx'.witnesses = tx.witnesses ∧ InputsFrame tx.inputs tx'.inputs nInput.toNat ∧
    ∃ pub sc dig sig ps pp,
      getPublicKey C priv compressed = .ok pub ∧ makeP2PKHFromPublicKey Hh.hash160 pub = .ok sc ∧
      Hh.legacy tx nInput.toNat sc ht = .ok dig ∧ signSigHash C S dig priv ht = .ok sig ∧
      pushData sig = .ok ps ∧ pushData pub = .ok pp ∧
      ∀ a, tx.inputs[nInput.toNat]? = some a → tx'.inputs[nInput.toNat]? = some { a with script := ps ++ pp } :=
  Signer.signP2PKH_frame_form C S Hh h

/-- P2WPKH: as above with an emptied scriptSig and the witness `[sig, pub]`; the witness list gets
    one entry per input and every other witness is kept (`installWitness_frame`) -/
theorem signP2WPKH_frame_form {S : SigOps} {Hh : HashOps} {tx tx' : Tx} {nInput : Int} {priv : Bytes}
    {ht value : Nat} (h : signInputP2WPKH C S Hh tx nInput priv ht value = .ok tx') :
    0 ≤ nInput ∧ nInput.toNat < tx.inputs.length ∧
    tx'.version = tx.version ∧ tx'.outputs = tx.outputs ∧ tx'.locktime = tx.locktime ∧
    InputsFrame tx.inputs tx'.inputs nInput.toNat ∧
    ∃ pub sc dig sig ws,
      getPublicKeyCompressed C priv = .ok pub ∧ makeP2PKHFromPublicKey Hh.hash160 pub = .ok sc ∧
      Hh.bip143 tx nInput.toNat sc ht value = .ok dig ∧ signSigHash C S dig priv ht = .ok sig ∧
      installWitness tx nInput.toNat [sig, pub] = .ok ws ∧ tx'.witnesses = some ws ∧
      ∀ a, tx.inputs[nInput.toNat]? = some a → tx'.inputs[nInput.toNat]? = some { a with script := [] } :=
  Signer.signP2WPKH_frame_form C S Hh h

/-- P2SH-nested P2WPKH: as P2WPKH with scriptSig = push(`00 14 hash160(pub)`) -/
theorem signNested_frame_form {S : SigOps} {Hh : HashOps} {tx tx' : Tx} {nInput : Int} {priv : Bytes}
    {ht value : Nat} (h : signInputNested C S Hh tx nInput priv ht value = .ok tx') :
    0 ≤ nInput ∧ nInput.toNat < tx.inputs.length ∧
    tx'.version = tx.version ∧ tx'.outputs = tx.outputs ∧ tx'.locktime = tx.locktime ∧
    InputsFrame tx.inputs tx'.inputs nInput.toNat ∧
    ∃ pub sc dig sig ws prog redeem,
      getPublicKeyCompressed C priv = .ok pub ∧ makeP2PKH (Hh.hash160 pub) = .ok sc ∧
      Hh.bip143 tx nInput.toNat sc ht value = .ok dig ∧ signSigHash C S dig priv ht = .ok sig ∧
      installWitness tx nInput.toNat [sig, pub] = .ok ws ∧ tx'.witnesses = some ws ∧
      makeP2WPKH (Hh.hash160 pub) = .ok prog ∧ pushData prog = .ok redeem ∧
      ∀ a, tx.inputs[nInput.toNat]? = some a → tx'.inputs[nInput.toNat]? = some { a with script := redeem } :=
  Signer.signNested_frame_form C S Hh h

/-- the witness list after segwit signing: one per input, `[sig, pub]` at the designated input, every
    other input's witness as before (empty when the transaction had no witnesses) -/
theorem witness_frame {tx : Tx} {n : Nat} {w : Witness} {ws : List Witness}
    (h : installWitness tx n w = .ok ws) (hn : n < tx.inputs.length) :
    tx.inputs.length ≤ ws.length ∧ ws[n]? = some w ∧
      ∀ i, i ≠ n → ws[i]? = (match tx.witnesses with
                              | none => if i < tx.inputs.length then some [] else none
                              | some old => old[i]?) := installWitness_frame h hn

/-- signing a well-formed transaction (C01's domain) gives a well-formed transaction, which
    serialises and re-parses to itself (by C01), leaving following bytes unread -/
theorem signed_reparses_p2pkh (hn2 : C.n ≤ 2 ^ 256) {S : SigOps} {Hh : HashOps} {tx tx' : Tx} {nInput : Int}
    {priv : Bytes} {ht : Nat} {compressed : Bool} (hwf : WFTx tx)
    (h : signInputP2PKH C S Hh tx nInput priv ht compressed = .ok tx') (rest : Bytes) :
    WFTx tx' ∧ ∃ bs, encTx tx' true = .ok bs ∧ decTx (bs ++ rest) = .ok (tx', rest) :=
  signP2PKH_reparses hn2 hwf h rest

theorem signed_reparses_p2wpkh (hn2 : C.n ≤ 2 ^ 256) {S : SigOps} {Hh : HashOps} {tx tx' : Tx} {nInput : Int}
    {priv : Bytes} {ht value : Nat} (hwf : WFTx tx)
    (h : signInputP2WPKH C S Hh tx nInput priv ht value = .ok tx') (rest : Bytes) :
    WFTx tx' ∧ ∃ bs, encTx tx' true = .ok bs ∧ decTx (bs ++ rest) = .ok (tx', rest) :=
  signP2WPKH_reparses hn2 hwf h rest

theorem signed_reparses_nested (hn2 : C.n ≤ 2 ^ 256) {S : SigOps} {Hh : HashOps}
    (hh : ∀ b, (Hh.hash160 b).length ≤ 999000) {tx tx' : Tx} {nInput : Int}
    {priv : Bytes} {ht value : Nat} (hwf : WFTx tx)
    (h : signInputNested C S Hh tx nInput priv ht value = .ok tx') (rest : Bytes) :
    WFTx tx' ∧ ∃ bs, encTx tx' true = .ok bs ∧ decTx (bs ++ rest) = .ok (tx', rest) :=
  signNested_reparses hn2 hh hwf h rest

/-! ### non-vacuity -/

example : CurveAbs Toy.ops := Toy.curveAbs

/-- a concrete signature on the toy curve (constant nonce 7): d = 5, z = 9 -/
example : signECDSA Toy.ops ⟨fun _ _ => 7, id, id, id⟩ (List.replicate 31 0 ++ [5]) (List.replicate 31 0 ++ [9])
    = .ok (25, 3) := by decide

/-- … and it verifies under the compressed public key `03 ‖ x(5·G)`, as `ecdsa_sign_verify` says -/
example : verifyECDSA Toy.ops (Spec.ECC.encodeCompressed (Toy.tbl 5)) (List.replicate 31 0 ++ [9]) 25 3 = .ok true := by
  decide

/-- the signing helpers succeed on a concrete two-input transaction over the toy curve (constant
    digest and nonce), so the hypotheses `… = .ok tx'` of the frame theorems are satisfiable -/
def toyHash : HashOps :=
  ⟨fun _ _ _ _ => .ok (List.replicate 31 0 ++ [9]), fun _ _ _ _ _ => .ok (List.replicate 31 0 ++ [9]),
   fun b => b.take 20⟩

def toyTx : Tx :=
  { version := 2,
    inputs := [⟨⟨List.replicate 32 0xaa, 1⟩, [0x51], 0xffffffff⟩, ⟨⟨List.replicate 32 0xbb, 0⟩, [], 0⟩],
    outputs := [⟨5000, [0x6a]⟩], witnesses := none, locktime := 0 }

example : (signInputP2PKH Toy.ops ⟨fun _ _ => 7, id, id, id⟩ toyHash toyTx 1 (List.replicate 31 0 ++ [5]) 1 true).isOk
    = true := by decide
example : (signInputP2WPKH Toy.ops ⟨fun _ _ => 7, id, id, id⟩ toyHash toyTx 0 (List.replicate 31 0 ++ [5]) 1 1000).isOk
    = true := by decide
example : (signInputNested Toy.ops ⟨fun _ _ => 7, id, id, id⟩ toyHash toyTx 0 (List.replicate 31 0 ++ [5]) 0x81 1000).isOk
    = true := by decide
example : WFTx toyTx := by
  refine ⟨by decide, by decide, by decide, by decide, by decide, ?_, ?_, ?_⟩
  · intro i hi
    simp only [toyTx, List.mem_cons, List.not_mem_nil, or_false] at hi
    rcases hi with rfl | rfl <;> exact ⟨⟨by decide, by decide⟩, by decide, by decide⟩
  · intro o ho
    simp only [toyTx, List.mem_cons, List.not_mem_nil, or_false] at ho
    subst ho; exact ⟨by decide, by decide⟩
  · intro ws h; simp [toyTx] at h

end BtcVerif.Props.C04
