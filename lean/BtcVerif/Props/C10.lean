/-
  C10 — key export formats round-trip and reject damage: WIF strings and BIP32 extended-key strings.
  (BIP38 is not covered by these theorems.) Property theorems only; proofs in `Proofs/Wif.lean` and
  `Proofs/WifXKey.lean`. The Base58Check checksum function `ck` is arbitrary with four-byte values;
  the public-key check of extended public keys is an arbitrary predicate `pubOk` (C06 owns it).
-/
import BtcVerif.Proofs.Wif
import BtcVerif.Proofs.WifXKey
import BtcVerif.Proofs.AddressRef

namespace BtcVerif.Props.C10
open BtcVerif BtcVerif.Model

/-! ### WIF -/

/-- encoding a 32-byte key with any version byte and flag succeeds, and decoding the string
    returns the identical key, version and flag -/
theorem wif_dec_enc (ck : Bytes → Bytes) (hck : ∀ x, (ck x).length = 4) (k : Bytes)
    (hk : k.length = 32) (v : Nat) (hv : v < 256) (c : Bool) :
    ∃ s, Wif.encode ck k v c = .ok s ∧ Wif.decode ck s = .ok (k, v, c) :=
  Proofs.Wif.decode_encode ck hck k hk v hv c

/-- every accepted WIF string re-encodes to itself -/
theorem wif_enc_dec_canonical (ck : Bytes → Bytes) (s k : Bytes) (v : Nat) (c : Bool)
    (hd : Wif.decode ck s = .ok (k, v, c)) : k.length = 32 ∧ v < 256 ∧ Wif.encode ck k v c = .ok s :=
  Proofs.Wif.encode_decode ck s k v c hd

/-- accepted exactly: a valid Base58Check string whose payload has 33 bytes, or 34 bytes with the
    last one equal to 01 -/
theorem wif_accepts_iff (ck : Bytes → Bytes) (s : Bytes) :
    (∃ r, Wif.decode ck s = .ok r) ↔
      ∃ d, Base58Check.decode ck s = .ok d ∧ (d.length = 33 ∨ (d.length = 34 ∧ d[33]? = some 1)) :=
  Proofs.Wif.accepts_iff ck s

/-- keys of any other length are refused -/
theorem wif_wrong_length_refused (ck : Bytes → Bytes) (k : Bytes) (hk : k.length ≠ 32) (v : Nat) (c : Bool) :
    Wif.encode ck k v c = .err := by
  have : ((k.length : Int) ≠ 32) := by omega
  simp [Wif.encode, Gen.Guards.wif_encode_0, this]

theorem wif_no_panic (ck : Bytes → Bytes) (s : Bytes) : Wif.decode ck s ≠ .panic :=
  Proofs.Wif.decode_ne_panic ck s

example : ∃ s, Wif.encode (fun _ => [9, 9, 9, 9]) (List.replicate 32 7) 128 true = .ok s ∧
    Wif.decode (fun _ => [9, 9, 9, 9]) s = .ok (List.replicate 32 7, 128, true) :=
  wif_dec_enc _ (fun _ => rfl) _ (by decide) 128 (by decide) true

/-! ### extended keys -/

/-- deserializing what was serialized returns the same key, chain code, depth and version, and
    the fingerprint and index with the format's depth-0 normalisation (both zero at depth 0) -/
theorem xkey_dec_enc (ck : Bytes → Bytes) (hck : ∀ x, (ck x).length = 4) (pubOk : Bytes → Bool)
    (key chainCode fp : Bytes) (depth index version : Nat) (isPrivate : Bool)
    (wf : Proofs.XKey.WF pubOk key chainCode fp depth index version isPrivate) :
    XKey.deserialize ck pubOk (XKey.serialize ck key chainCode fp depth index version isPrivate) =
      .ok ⟨key, chainCode, if depth = 0 then XKey.ser32 0 else fp, depth,
        if depth = 0 then 0 else index, version⟩ :=
  Proofs.XKey.deserialize_serialize ck hck pubOk key chainCode fp depth index version isPrivate wf

/-- accepted exactly: a valid Base58Check string of a 78-byte payload whose key field starts with
    00 (private key) or passes the public-key check -/
theorem xkey_accepts_iff (ck : Bytes → Bytes) (pubOk : Bytes → Bool) (s : Bytes) :
    (∃ r, XKey.deserialize ck pubOk s = .ok r) ↔
      ∃ P, Base58Check.decode ck s = .ok P ∧ P.length = 78 ∧
        (P[45]? = some 0 ∨ pubOk (P.drop 45) = true) :=
  Proofs.XKey.accepts_iff ck pubOk s

/-- an accepted string is the serialization of the fields it yields — except that depth 0 with a
    non-zero fingerprint or index is accepted although `serialize` never produces it -/
theorem xkey_enc_dec_canonical (ck : Bytes → Bytes) (pubOk : Bytes → Bool) (s : Bytes) (r : XKey.Fields)
    (hd : XKey.deserialize ck pubOk s = .ok r)
    (hnorm : r.depth ≠ 0 ∨ (r.parentFingerprint = XKey.ser32 0 ∧ r.index = 0)) :
    XKey.serialize ck r.key r.chainCode r.parentFingerprint r.depth r.index r.version
      (decide (r.key.length = 32)) = s :=
  Proofs.XKey.serialize_deserialize ck pubOk s r hd hnorm

theorem xkey_no_panic (ck : Bytes → Bytes) (pubOk : Bytes → Bool) (s : Bytes) :
    XKey.deserialize ck pubOk s ≠ .panic :=
  Proofs.XKey.deserialize_ne_panic ck pubOk s

/-! ### the produced strings equal those of an independent implementation -/

theorem be_eq_beBytes : ∀ k n, Spec.Address.be k n = beBytes k n := by
  intro k
  induction k with
  | zero => intro n; rfl
  | succ k ih =>
    intro n
    simp only [Spec.Address.be, ih, beBytes, leBytes, List.reverse_cons]

/-- WIF strings equal the reference encoding `Base58Check(version ‖ key ‖ [01])` -/
theorem wif_eq_reference (ck : Bytes → Bytes) (k : Bytes) (hk : k.length = 32) (v : Nat) (hv : v < 256)
    (c : Bool) : Wif.encode ck k v c = .ok (Spec.Address.wif ck v k c) := by
  have hg : Gen.Guards.wif_encode_0 (privkey_isnil := false) (len_privkey := k.length) = false := by
    simp [Gen.Guards.wif_encode_0, hk]
  unfold Wif.encode Spec.Address.wif
  rw [hg]
  simp only [Bool.false_eq_true, if_false, Gen.Guards.wif_encode_1, Base58Check.encodeVersion,
    Proofs.Address.versionBytes_small (show v ≤ 255 by omega), Proofs.Address.base58check_eq_spec]
  cases c <;> simp

/-- extended-key strings equal the BIP32 reference serialization (with the depth-0 normalisation
    of the library made explicit) -/
theorem xkey_eq_reference (ck : Bytes → Bytes) (key chainCode fp : Bytes) (depth index version : Nat)
    (isPrivate : Bool) :
    XKey.serialize ck key chainCode fp depth index version isPrivate =
      Spec.Address.xkey ck version depth (if depth = 0 then [0, 0, 0, 0] else fp)
        (if depth = 0 then 0 else index) chainCode ((if isPrivate then [0] else []) ++ key) := by
  rw [Proofs.XKey.serialize_eq]
  unfold Spec.Address.xkey
  rw [Proofs.Address.base58check_eq_spec, be_eq_beBytes, be_eq_beBytes]
  have : XKey.ser32 0 = [0, 0, 0, 0] := by decide
  simp only [XKey.ser32, this] at *
  by_cases hd : depth = 0 <;> simp [hd, XKey.ser32] <;> rfl

/-- the well-formedness hypothesis is satisfiable (a private and a public key) -/
example : Proofs.XKey.WF (fun _ => true) (List.replicate 32 1) (List.replicate 32 2) [1, 2, 3, 4] 3 7
    76066276 true := ⟨by decide, by decide, by decide, by decide, by decide, by decide⟩
example : Proofs.XKey.WF (fun k => k.length == 33) (2 :: List.replicate 32 1) (List.replicate 32 2)
    [0, 0, 0, 0] 0 0 76067358 false := ⟨by decide, by decide, by decide, by decide, by decide, by decide⟩

end BtcVerif.Props.C10
