/-
  C10 — key export formats round-trip and reject damage: WIF strings, BIP32 extended-key strings and
  BIP38 encrypted keys. Property theorems only; proofs in `Proofs/Wif.lean`, `Proofs/WifXKey.lean`
  and `Proofs/WifBip38.lean`. The Base58Check checksum function `ck` is arbitrary with four-byte values;
  the public-key check of extended public keys is an arbitrary predicate `pubOk` (C06 owns it).
-/
import BtcVerif.Props.GuardPins.P_bip38
import BtcVerif.Props.GuardPins.P_bip32
import BtcVerif.Props.GuardPins.P_wif
import BtcVerif.Proofs.Wif
import BtcVerif.Proofs.WifXKey
import BtcVerif.Proofs.AddressRef
import BtcVerif.Proofs.WifBip38

namespace BtcVerif.Props.C10
open BtcVerif BtcVerif.Model

/-! ### WIF -/

/-- encoding a 32-byte key with any version byte and flag succeeds, and decoding the string
    returns the identical key, version and flag -/
theorem wif_dec_enc (ck : Bytes → Bytes) (hck : ∀ x, (ck x).length = 4) (k : Bytes)
    (hk : k.length = 32) (v : Nat) (hv : v < 256) (c : Bool) :
    ∃ s, Wif.encode ck k v c = .ok s ∧ Wif.decode ck s = .ok (k, v, c) :=
  Proofs.Wif.decode_encode ck hck k hk v hv c

/-- every accepted WIF string re-encodes to itself -/
theorem wif_enc_dec_canonical (ck : Bytes → Bytes) (s k : Bytes) (v : Nat) (c : Bool)
    (hd : Wif.decode ck s = .ok (k, v, c)) : k.length = 32 ∧ v < 256 ∧ Wif.encode ck k v c = .ok s :=
  Proofs.Wif.encode_decode ck s k v c hd

/-- accepted exactly: a valid Base58Check string whose payload has 33 bytes, or 34 bytes with the
    last one equal to 01 -/
theorem wif_accepts_iff (ck : Bytes → Bytes) (s : Bytes) :
    (∃ r, Wif.decode ck s = .ok r) ↔
      ∃ d, Base58Check.decode ck s = .ok d ∧ (d.length = 33 ∨ (d.length = 34 ∧ d[33]? = some 1)) :=
  Proofs.Wif.accepts_iff ck s

/-- keys of any other length are refused -/
theorem wif_wrong_length_refused (ck : Bytes → Bytes) (k : Bytes) (hk : k.length ≠ 32) (v : Nat) (c : Bool) :
    Wif.encode ck k v c = .err := by
  have : ((k.length : Int) ≠ 32) := by omega
  simp [Wif.encode, Gen.Guards.wif_encode_0, this]

theorem wif_no_panic (ck : Bytes → Bytes) (s : Bytes) : Wif.decode ck s ≠ .panic :=
  Proofs.Wif.decode_ne_panic ck s

example : ∃ s, Wif.encode (fun _ => [9, 9, 9, 9]) (List.replicate 32 7) 128 true = .ok s ∧
    Wif.decode (fun _ => [9, 9, 9, 9]) s = .ok (List.replicate 32 7, 128, true) :=
  wif_dec_enc _ (fun _ => rfl) _ (by decide) 128 (by decide) true

/-! ### extended keys -/

/-- deserializing what was serialized returns the same key, chain code, depth and version, and
    the fingerprint and index with the format's depth-0 normalisation (both zero at depth 0) -/
theorem xkey_dec_enc (ck : Bytes → Bytes) (hck : ∀ x, (ck x).length = 4) (pubOk : Bytes → Bool)
    (key chainCode fp : Bytes) (depth index version : Nat) (isPrivate : Bool)
    (wf : Proofs.XKey.WF pubOk key chainCode fp depth index version isPrivate) :
    XKey.deserialize ck pubOk (XKey.serialize ck key chainCode fp depth index version isPrivate) =
      .ok ⟨key, chainCode, if depth = 0 then XKey.ser32 0 else fp, depth,
        if depth = 0 then 0 else index, version⟩ :=
  Proofs.XKey.deserialize_serialize ck hck pubOk key chainCode fp depth index version isPrivate wf

/-- accepted exactly: a valid Base58Check string of a 78-byte payload whose key field starts with
    00 (private key) or passes the public-key check -/
theorem xkey_accepts_iff (ck : Bytes → Bytes) (pubOk : Bytes → Bool) (s : Bytes) :
    (∃ r, XKey.deserialize ck pubOk s = .ok r) ↔
      ∃ P, Base58Check.decode ck s = .ok P ∧ P.length = 78 ∧
        (P[45]? = some 0 ∨ pubOk (P.drop 45) = true) :=
  Proofs.XKey.accepts_iff ck pubOk s

/-- an accepted string is the serialization of the fields it yields — except that depth 0 with a
    non-zero fingerprint or index is accepted although `serialize` never produces it -/
theorem xkey_enc_dec_canonical (ck : Bytes → Bytes) (pubOk : Bytes → Bool) (s : Bytes) (r : XKey.Fields)
    (hd : XKey.deserialize ck pubOk s = .ok r)
    (hnorm : r.depth ≠ 0 ∨ (r.parentFingerprint = XKey.ser32 0 ∧ r.index = 0)) :
    XKey.serialize ck r.key r.chainCode r.parentFingerprint r.depth r.index r.version
      (decide (r.key.length = 32)) = s :=
  Proofs.XKey.serialize_deserialize ck pubOk s r hd hnorm

theorem xkey_no_panic (ck : Bytes → Bytes) (pubOk : Bytes → Bool) (s : Bytes) :
    XKey.deserialize ck pubOk s ≠ .panic :=
  Proofs.XKey.deserialize_ne_panic ck pubOk s

/-! ### the produced strings equal those of an independent implementation -/

theorem be_eq_beBytes : ∀ k n, Spec.Address.be k n = beBytes k n := by
  intro k
  induction k with
  | zero => intro n; rfl
  | succ k ih =>
    intro n
    simp only [Spec.Address.be, ih, beBytes, leBytes, List.reverse_cons]

/-- WIF strings equal the reference encoding `Base58Check(version ‖ key ‖ [01])` -/
theorem wif_eq_reference (ck : Bytes → Bytes) (k : Bytes) (hk : k.length = 32) (v : Nat) (hv : v < 256)
    (c : Bool) : Wif.encode ck k v c = .ok (Spec.Address.wif ck v k c) := by
  have hg : Gen.Guards.wif_encode_0 (privkey_isnil := false) (len_privkey := k.length) = false := by
    simp [Gen.Guards.wif_encode_0, hk]
  unfold Wif.encode Spec.Address.wif
  rw [hg]
  simp only [Bool.false_eq_true, if_false, Gen.Guards.wif_encode_1, Base58Check.encodeVersion,
    Proofs.Address.versionBytes_small (show v ≤ 255 by omega), Proofs.Address.base58check_eq_spec]
  cases c <;> simp

/-- extended-key strings equal the BIP32 reference serialization (with the depth-0 normalisation
    of the library made explicit) -/
theorem xkey_eq_reference (ck : Bytes → Bytes) (key chainCode fp : Bytes) (depth index version : Nat)
    (isPrivate : Bool) :
    XKey.serialize ck key chainCode fp depth index version isPrivate =
      Spec.Address.xkey ck version depth (if depth = 0 then [0, 0, 0, 0] else fp)
        (if depth = 0 then 0 else index) chainCode ((if isPrivate then [0] else []) ++ key) := by
  rw [Proofs.XKey.serialize_eq]
  unfold Spec.Address.xkey
  rw [Proofs.Address.base58check_eq_spec, be_eq_beBytes, be_eq_beBytes]
  have : XKey.ser32 0 = [0, 0, 0, 0] := by decide
  simp only [XKey.ser32, this] at *
  by_cases hd : depth = 0 <;> simp [hd, XKey.ser32] <;> rfl

/-- the well-formedness hypothesis is satisfiable (a private and a public key) -/
example : Proofs.XKey.WF (fun _ => true) (List.replicate 32 1) (List.replicate 32 2) [1, 2, 3, 4] 3 7
    76066276 true := ⟨by decide, by decide, by decide, by decide, by decide, by decide⟩
example : Proofs.XKey.WF (fun k => k.length == 33) (2 :: List.replicate 32 1) (List.replicate 32 2)
    [0, 0, 0, 0] 0 0 76067358 false := ⟨by decide, by decide, by decide, by decide, by decide, by decide⟩

/-! ### BIP38 — parametric in the block cipher, the key-derivation and hash functions -/

/-- decrypting with the same passphrase what `Encrypt` produced returns the identical key and
    compression flag: for every 32-byte key that has an address, every passphrase and flag, whenever
    AES decryption inverts encryption (`Good`) -/
theorem bip38_roundtrip (P : Bip38.Prims) (g : Proofs.Bip38.Good P) (key pw : Bytes) (c : Bool)
    (hk : key.length = 32) (addr : Bytes) (hda : Bip38.deriveAddress P key c = .ok addr) :
    ∃ s, Bip38.encrypt P key pw c = .ok s ∧ Bip38.decrypt P s pw = .ok (key, c) :=
  Proofs.Bip38.decrypt_encrypt P g key pw c hk addr hda

/-- EC-multiply: a key encrypted with an intermediate code decrypts, with the passphrase the code
    was derived from, to `factorb · passfactor mod N` (both with and without lot/sequence);
    `hcomm` is the group law `(fb·pf)·G = fb·(pf·G)`, a hypothesis here (C06 owns the curve) -/
theorem bip38_ec_roundtrip (P : Bip38.Prims) (g : Proofs.Bip38.Good P) (useLot : Bool)
    (oe pw pf pp seedb : Bytes) (c : Bool) (hoe : oe.length = 8)
    (hpf : Bip38.passFactorOf P useLot pw oe = .ok pf) (hpp : P.baseMul pf = .ok pp) (hppl : pp.length = 33)
    (hsl : seedb.length = 24) (pub addr : Bytes)
    (hpub : P.pointMul pp (P.dsha256 seedb) c = .ok pub) (haddr : P.p2pkh pub = .ok addr)
    (hcomm : P.pubKey (P.mulModN (P.dsha256 seedb) pf) c = .ok pub) :
    ∃ s, Bip38.encryptIntermediateCode P seedb
        (Base58Check.encode P.cksum ((if useLot then Bip38.magicLot else Bip38.magicPlain) ++ oe ++ pp)) c = .ok s ∧
      Bip38.decrypt P s pw = .ok (P.mulModN (P.dsha256 seedb) pf, c) :=
  Proofs.Bip38.ec_roundtrip P g useLot oe pw pf pp seedb c hoe hpf hpp hppl hsl pub addr hpub haddr hcomm

/-- the intermediate codes `GenerateIntermediateCode*` return have exactly the shape
    `bip38_ec_roundtrip` consumes -/
theorem bip38_intermediate_code (P : Bip38.Prims) (oe pw pp : Bytes) (hoe : oe.length = 8)
    (hpp : P.baseMul (P.scrypt pw oe 16384 8 8 32) = .ok pp) :
    Bip38.intermediateCode P oe pw = .ok (Base58Check.encode P.cksum (Bip38.magicPlain ++ oe ++ pp)) ∧
    Bip38.passFactorOf P false pw oe = .ok (P.scrypt pw oe 16384 8 8 32) :=
  Proofs.Bip38.intermediateCode_eq P oe pw pp hoe hpp

theorem bip38_intermediate_code_lot (P : Bip38.Prims) (salt pw pp : Bytes) (lot sequence : Nat)
    (hs : salt.length = 4) (hlot : lot ≤ 0xfffff) (hseq : sequence ≤ 0xfff)
    (hpp : P.baseMul (P.dsha256 (P.scrypt pw salt 16384 8 8 32 ++
      (salt ++ beBytes 4 ((lot <<< 12 + sequence) % 4294967296)))) = .ok pp) :
    let oe := salt ++ beBytes 4 ((lot <<< 12 + sequence) % 4294967296)
    Bip38.intermediateCodeLot P salt pw lot sequence =
      .ok (Base58Check.encode P.cksum (Bip38.magicLot ++ oe ++ pp)) ∧
    oe.length = 8 ∧
    Bip38.passFactorOf P true pw oe = .ok (P.dsha256 (P.scrypt pw salt 16384 8 8 32 ++ oe)) :=
  Proofs.Bip38.intermediateCodeLot_eq P salt pw pp lot sequence hs hlot hseq hpp

/-- decryption reports success only when the address hash of the recovered key equals the four
    bytes embedded in the ciphertext: a wrong passphrase or an altered ciphertext is an error
    unless those 32 bits collide -/
theorem bip38_success_implies_hash_match (P : Bip38.Prims) (s pw k : Bytes) (c : Bool)
    (h : Bip38.decrypt P s pw = .ok (k, c)) :
    ∃ d addr, Base58Check.decode P.cksum s = .ok d ∧ Bip38.deriveAddress P k c = .ok addr ∧
      Bip38.slice (P.dsha256 addr) 0 4 = Bip38.slice d 3 7 := by
  obtain ⟨d, _, hd, _, _, _, _, _, addr, hda, hs⟩ := Proofs.Bip38.decrypt_ok P s pw k c h
  exact ⟨d, addr, hd, hda, hs⟩

theorem flag_or_cases : ∀ n, n < 256 → n ||| 32 = 224 → n = 192 ∨ n = 224 := by
  decide +kernel

/-- the flag byte is validated strictly (D22): success implies a 39-byte payload `01 42 f …` with
    `f ∈ {c0, e0}` or `01 43 f …` with only the bits 20 and 04 possibly set, and the returned
    compression flag is bit 20 of `f` -/
theorem bip38_flag_strict (P : Bip38.Prims) (s pw k : Bytes) (c : Bool)
    (h : Bip38.decrypt P s pw = .ok (k, c)) :
    ∃ d flag, Base58Check.decode P.cksum s = .ok d ∧ d.length = 39 ∧ d[0]? = some 1 ∧ d[2]? = some flag ∧
      ((d[1]? = some 0x42 ∧ (flag = 0xc0 ∨ flag = 0xe0)) ∨
       (d[1]? = some 0x43 ∧ flag.toNat &&& 219 = 0)) ∧
      c = decide (flag.toNat &&& 32 ≠ 0) := by
  obtain ⟨d, flag, hd, hl, h0, h2, hcase, hc, _⟩ := Proofs.Bip38.decrypt_ok P s pw k c h
  refine ⟨d, flag, hd, hl, h0, h2, ?_, hc⟩
  rcases hcase with ⟨h1, hf⟩ | ⟨h1, hf⟩
  · left
    refine ⟨h1, ?_⟩
    rcases flag_or_cases flag.toNat flag.toNat_lt hf with h | h
    · left; exact UInt8.toNat_inj.mp (by simpa using h)
    · right; exact UInt8.toNat_inj.mp (by simpa using h)
  · exact Or.inr ⟨h1, hf⟩

/-- the hypotheses on the primitives are satisfiable (identity cipher, constant hashes) -/
example : Proofs.Bip38.Good
    { scrypt := fun _ _ _ _ _ n => List.replicate n 0, aesEnc := fun _ x => x, aesDec := fun _ x => x,
      dsha256 := fun _ => List.replicate 32 0, cksum := fun _ => [0, 0, 0, 0],
      pubKey := fun _ _ => .ok [2], p2pkh := fun _ => .ok [0x31], baseMul := fun _ => .ok [2],
      pointMul := fun _ _ _ => .ok [2], mulModN := fun a _ => a } :=
  ⟨fun _ _ => rfl, fun _ _ h => h, fun _ _ _ _ _ n => by simp, fun _ => by simp, fun _ => rfl⟩

end BtcVerif.Props.C10
