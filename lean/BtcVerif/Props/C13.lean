/-
  C13 — taproot key tweaks commute and P2TR outputs equal the BIP341 construction.

  Theorems about the model `Model/Taproot.lean` of /repo/taproot and /repo/script/p2tr.go over
    * an ARBITRARY record of curve operations `C` with the named hypotheses `SecpGroup` (commutative
      group, `k ↦ k·G` a homomorphism, `G` of order `n ≤ 2^256`), `PointCodec` (fixed widths) and
      `XOnly` (`x(−P) = x(P)`, parity flips under negation, the 32-byte form parses to the point
      with even `y`) — `Proofs/GroupAbs.lean`, satisfiable (`toy`);
    * an ARBITRARY function `sha` in place of SHA-256.

  Quirk of the code, visible in the statements: `TweakPublicKey`/`TweakPrivateKey` refuse the tweak
  `t = 0` as well (`IsValidScalar`), BIP341 only refuses `t ≥ n`. So "model = reference" holds in
  the direction model-succeeds ⇒ reference gives the same, and conversely under `t ≠ 0`
  (`t = 0` means a SHA-256 output of 32 zero bytes).

  Honest limit (DESIGN §7 C13): "a dead key fails for any other proof" is not a theorem —
  `r' = −r − 2·dlog(H)` gives the same x coordinate, and a proof with extra leading zero bytes is the
  same integer. What holds, and is proved, is `dead_verify_iff`.
-/
import BtcVerif.Props.GuardPins.P_bhash
import BtcVerif.Props.GuardPins.P_script
import BtcVerif.Props.GuardPins.P_taproot
import BtcVerif.Proofs.Taproot

namespace BtcVerif.Props.C13
open BtcVerif BtcVerif.Model BtcVerif.Model.Bip32 BtcVerif.Model.Taproot BtcVerif.Proofs BtcVerif.Proofs.Taproot

variable {P : Type} {C : CurveOps P} {sha : Bytes → Bytes}

/-- Tweaking the private key and then taking its x-only public key and parity gives exactly what
    tweaking the x-only public key gives — key, parity, and also the failure case — for every
    valid private key (either parity of its public `y`) and every commitment (any length). -/
theorem tweak_commute (S : SecpGroup C) (E : PointCodec C) (X : XOnly C S) (sk h : Bytes)
    (hv : isValidScalar C.n (beNat sk) = true) :
    tweakPub C sha (C.xBytes (C.mulG (beNat sk))) h =
      (tweakPriv C sha sk h).map
        (fun sk' => (C.xBytes (C.mulG (beNat sk')), C.yOdd (C.mulG (beNat sk')))) :=
  Proofs.Taproot.tweak_commute S E X sk h hv

/-- the reported parity is that of the tweaked point, i.e. of the public key of the tweaked
    private key -/
theorem tweak_parity (S : SecpGroup C) (E : PointCodec C) (X : XOnly C S) (sk h sk' : Bytes)
    (hv : isValidScalar C.n (beNat sk) = true) (hok : tweakPriv C sha sk h = .ok sk') :
    ∃ q, tweakPub C sha (C.xBytes (C.mulG (beNat sk))) h = .ok (q, C.yOdd (C.mulG (beNat sk'))) ∧
      q = C.xBytes (C.mulG (beNat sk')) := by
  have := Proofs.Taproot.tweak_commute (sha := sha) S E X sk h hv
  rw [hok] at this
  exact ⟨_, this, rfl⟩

/-- whenever `TweakPublicKey` succeeds, BIP341's `taproot_tweak_pubkey` returns the same parity and
    key … -/
theorem tweakPub_matches_bip341 {pk h q : Bytes} {par : Bool}
    (hok : tweakPub C sha pk h = .ok (q, par)) :
    Spec.Taproot.taprootTweakPubkey C sha pk h = some (par, q) := tweakPub_ok_spec hok

/-- … and conversely, except for the tweak `t = 0` which the code refuses -/
theorem tweakPub_matches_bip341_conv {pk h q : Bytes} {par : Bool}
    (hs : Spec.Taproot.taprootTweakPubkey C sha pk h = some (par, q))
    (ht0 : tapTweak sha [pk, h] ≠ 0) : tweakPub C sha pk h = .ok (q, par) := tweakPub_of_spec hs ht0

/-- the same for `TweakPrivateKey` and `taproot_tweak_seckey` -/
theorem tweakPriv_matches_bip341 {sk h out : Bytes} (hok : tweakPriv C sha sk h = .ok out) :
    Spec.Taproot.taprootTweakSeckey C sha sk h = some out := tweakPriv_ok_spec hok

theorem tweakPriv_matches_bip341_conv (S : SecpGroup C) {sk h out : Bytes}
    (hv : isValidScalar C.n (beNat sk) = true)
    (hs : Spec.Taproot.taprootTweakSeckey C sha sk h = some out)
    (ht0 : tapTweak sha [C.xBytes (C.mulG (beNat sk)) ++ h] ≠ 0) :
    tweakPriv C sha sk h = .ok out := tweakPriv_of_spec S hv hs ht0

/-- the TapLeaf preimage is `version ‖ compact-size(script length) ‖ script`
    (false before the D10 repair for every script of 76 bytes or more) -/
theorem leaf_preimage (v : UInt8) (s : Bytes) : leafPre v s = v :: (encVarint s.length ++ s) := rfl

/-- … and the leaf hash is BIP341's, for every version and every script length -/
theorem leaf_matches_bip341 (v : UInt8) (s : Bytes) :
    leafHash sha v s = Spec.Taproot.leafHash sha v s := leafHash_spec v s

/-- the branch hash does not depend on the order of its children -/
theorem branch_comm (a b : Bytes) : branchHash sha a b = branchHash sha b a := branchHash_comm a b

theorem branch_matches_bip341 (a b : Bytes) :
    branchHash sha a b = Spec.Taproot.branchHash sha a b := branchHash_spec a b

/-- every tree without nil nodes hashes to BIP341's tree hash -/
theorem tree_matches_bip341 {t : Tree} {st : Spec.Taproot.STree} (h : toSpec t = some st) :
    treeHash sha t = .ok (Spec.Taproot.treeHash sha st) := treeHash_spec h

/-- a P2TR output is `51 20 ‖ key` with `key` the 32-byte internal key tweaked by the tree's
    commitment (empty for the nil tree) -/
theorem p2tr_form (E : PointCodec C) {pk out : Bytes} {tree : Tree}
    (hok : makeP2TR C sha pk tree = .ok out) :
    ∃ h key par, commitment sha tree = .ok h ∧ tweakPub C sha pk h = .ok (key, par) ∧
      key.length = 32 ∧ out = (0x51 : UInt8) :: (0x20 : UInt8) :: key := makeP2TR_form E hok

/-- exchanging the left and right child of any number of branch nodes, anywhere in the tree, does
    not change the output (nor whether the call fails or panics) -/
theorem p2tr_child_order_independent (E : PointCodec C) (pk : Bytes) {t t' : Tree}
    (h : ChildSwap t t') : makeP2TR C sha pk t = makeP2TR C sha pk t' := makeP2TR_swap E pk h

/-- the output equals BIP341's `taproot_output_script` -/
theorem p2tr_matches_bip341 (E : PointCodec C) {pk out : Bytes} {tree : Tree}
    {st : Option Spec.Taproot.STree} (hst : treeToSpec tree = some st)
    (hok : makeP2TR C sha pk tree = .ok out) :
    Spec.Taproot.taprootOutputScript C sha pk st = some out := makeP2TR_spec E hst hok

/-- a dead key verifies against its own proof, for every proof in [1, n−1] -/
theorem dead_verify_own (S : SecpGroup C) (H : P) (proof : Bytes)
    (hv : isValidScalar C.n (beNat proof) = true) :
    ∃ key, buildDead C H proof = .ok key ∧ verifyDead C H key proof = .ok () := by
  refine ⟨_, buildDead_ok S H proof hv, ?_⟩
  exact (verifyDead_iff H _ proof).mpr ⟨hv, buildDead_ok S H proof hv⟩

/-- verification succeeds exactly when the proof is a valid scalar and the key is the one built
    from it: out-of-range proofs and every other key fail -/
theorem dead_verify_iff (H : P) (key proof : Bytes) :
    verifyDead C H key proof = .ok () ↔
      (isValidScalar C.n (beNat proof) = true ∧ buildDead C H proof = .ok key) :=
  verifyDead_iff H key proof

/-! ### non-vacuity -/

/-- a toy "SHA-256" with a 32-byte output that depends on its input -/
def toySha (m : Bytes) : Bytes :=
  List.replicate 31 0 ++ [UInt8.ofNat ((m.length + (m.getLastD 0).toNat) % 5)]

example : isValidScalar toy.n (beNat [3]) = true := by decide
example : (tweakPriv toy toySha [3] [9, 9]).isOk = true := by decide
example : (tweakPriv toy toySha [5] []).isOk = true := by decide
example : toy.yOdd (toy.mulG 5) = true ∧ toy.yOdd (toy.mulG 3) = false := by decide
example : ChildSwap (.branch (.leaf 0xc0 [1]) (.branch (.hash [2]) (.leaf 1 [])))
    (.branch (.branch (.leaf 1 []) (.hash [2])) (.leaf 0xc0 [1])) :=
  .swap (.refl _) (.swap (.refl _) (.refl _))
set_option maxRecDepth 8192 in
example : (makeP2TR toy toySha (toy.xBytes (toy.mulG 3)) (.leaf 0xc0 [2, 2])).isOk = true := by
  decide
example : ∃ key, buildDead toy (toy.mulG 4) [2] = .ok key ∧ verifyDead toy (toy.mulG 4) key [2] = .ok () :=
  dead_verify_own toyGroup (toy.mulG 4) [2] (by decide)

end BtcVerif.Props.C13
