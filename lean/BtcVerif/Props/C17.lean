/-
  C17 — parsers of untrusted data never panic, hang or over-allocate.

  * never panic: for every parser model (all slice indexing, `make`, conversions bounds-checked and
    able to yield `Outcome.panic`) and EVERY input, the result is a value or an error;
  * never hang: every model function is structurally recursive or fuel-bounded with fuel computed
    from the input length, so Lean's termination checker has accepted it;
  * never over-allocate: the allocation-explicit decoders of `Model/Alloc.lean` (proved to compute
    the same results as the plain decoders) allocate at most a fixed constant (< 2.2 MB, computed
    from the library's own limits) plus 75 bytes per input byte, for every input.
  The parsers owned by other properties contribute their own theorems (re-exported here).
-/
import BtcVerif.Props.GuardPins.P_address
import BtcVerif.Props.GuardPins.P_wif
import BtcVerif.Props.GuardPins.P_bip39
import BtcVerif.Props.GuardPins.P_base58check
import BtcVerif.Props.GuardPins.P_base58
import BtcVerif.Props.GuardPins.P_bech32
import BtcVerif.Props.GuardPins.P_der
import BtcVerif.Props.GuardPins.P_script
import BtcVerif.Props.GuardPins.P_varint
import BtcVerif.Props.GuardPins.P_blocks_blockheader
import BtcVerif.Props.GuardPins.P_blocks
import BtcVerif.Props.GuardPins.P_tx
import BtcVerif.Proofs.Alloc
import BtcVerif.Proofs.ParsersNoPanic
import BtcVerif.Proofs.Accessors
import BtcVerif.Props.C11
import BtcVerif.Props.C06
import BtcVerif.Props.C08
import BtcVerif.Props.C10
import BtcVerif.Props.C14
import BtcVerif.Proofs.AddressNoPanic
import BtcVerif.Gen.Constants

namespace BtcVerif.Props.C17
open BtcVerif BtcVerif.Model BtcVerif.Parser

/-! ### never panic -/
theorem varint_no_panic (s : Bytes) : decVarint s ≠ .panic := decVarint_ne_panic s
theorem input_no_panic (s : Bytes) : decTxIn s ≠ .panic := noPanic_decTxIn s
theorem output_no_panic (s : Bytes) : decTxOut s ≠ .panic := noPanic_decTxOut s
theorem witness_no_panic (s : Bytes) : decWitness s ≠ .panic := noPanic_decWitness s
theorem tx_no_panic (s : Bytes) : decTx s ≠ .panic := noPanic_decTx s
theorem header_no_panic (s : Bytes) : decHeader s ≠ .panic := noPanic_decHeader s
theorem block_no_panic (s : Bytes) : decBlock s ≠ .panic := noPanic_decBlock s
theorem readData_no_panic (s : Bytes) : readData s ≠ .panic := readData_ne_panic s
theorem readNumber_no_panic (s : Bytes) : readNumber s ≠ .panic := readNumber_ne_panic s
theorem decompile_no_panic (s : Bytes) : decompile s ≠ .panic := Proofs.Script.decompile_ne_panic s
theorem stackify_no_panic (s : Bytes) : stackify s ≠ .panic := stackify_ne_panic s
theorem strip_no_panic (s : Bytes) (op : UInt8) : stripOpCode s op ≠ .panic := Proofs.Script.strip_ne_panic s op
theorem der_no_panic (bs : Bytes) : (BtcVerif.Model.DER.decode bs).isPanic = false := BtcVerif.Props.C11.der_no_panic bs

/-! the text parsers and the public-key parser (theorems owned by C06, C08, C09, C10, C14) -/
theorem base58_no_panic (s : Bytes) : Base58.decode s ≠ .panic := BtcVerif.Props.C08.b58_no_panic s
theorem base58check_no_panic (ck : Bytes → Bytes) (s : Bytes) : Base58Check.decode ck s ≠ .panic :=
  BtcVerif.Props.C08.b58c_no_panic ck s
theorem bech32_no_panic (s : Bytes) : Bech32.decode s ≠ .panic := BtcVerif.Props.C08.no_panic s
theorem address_no_panic (hs : Address.Hashes) (net : Address.Network) (s : Bytes) :
    Address.decode hs net s ≠ .panic := Address.decode_ne_panic hs net s
theorem wif_no_panic (ck : Bytes → Bytes) (s : Bytes) : Wif.decode ck s ≠ .panic :=
  BtcVerif.Props.C10.wif_no_panic ck s
theorem xkey_no_panic (ck : Bytes → Bytes) (pubOk : Bytes → Bool) (s : Bytes) :
    XKey.deserialize ck pubOk s ≠ .panic := BtcVerif.Props.C10.xkey_no_panic ck pubOk s
theorem mnemonic_no_panic (csByte : Bytes → UInt8) (ws : List Bytes) :
    BtcVerif.Props.C14.decodeW csByte ws ≠ Outcome.panic := (BtcVerif.Props.C14.bip39_no_panic csByte [] ws).2

/-! ### accessors of decoded values are total: sizes are plain numbers, serialisation of a decoded
    transaction succeeds -/
theorem decoded_tx_serialises (s rest : Bytes) (tx : Tx) (h : decTx s = .ok (tx, rest)) (w : Bool) :
    ∃ bs, encTx tx w = .ok bs := Model.decoded_tx_serialises h w

/-! ### never over-allocate -/

/-- the instrumented decoders are the plain decoders plus a cost -/
theorem cost_model_refines_tx (s : Bytes) : (cdecTx s).1 = decTx s := congrFun erase_cdecTx s
theorem cost_model_refines_block (s : Bytes) : (cdecBlock s).1 = decBlock s := congrFun erase_cdecBlock s

/-- a transaction: at most `txAllocConst` + 74 bytes per input byte, for every input -/
theorem tx_alloc_bound (s : Bytes) : (cdecTx s).2 ≤ txAllocConst + 74 * s.length := cdecTx_alloc_le s

/-- a block: at most `blockAllocConst` + 75 bytes per input byte, for every input -/
theorem block_alloc_bound (s : Bytes) : (cdecBlock s).2 ≤ blockAllocConst + 75 * s.length := cdecBlock_alloc_le s

/-- the constants are a few megabytes, and are computed from the limits the source declares now
    (tie T1: `Gen.Constants` is regenerated on every run) -/
theorem alloc_constants_small :
    blockAllocConst ≤ 32 * 1024 * 1024 ∧
    BtcVerif.Gen.constants_BlockMaxSize ≤ 1000000 ∧
    BtcVerif.Gen.tx_InputsMaximumCount ≤ 24390 ∧
    BtcVerif.Gen.tx_OutputsMaximumCount ≤ 111111 ∧
    BtcVerif.Gen.tx_WitnessChunkCountMaximum ≤ 10000 ∧
    BtcVerif.Gen.tx_WitnessMaximumSize ≤ 0x20000000 := by decide

/-! non-vacuity: a six-byte message declaring a 512 MiB witness item costs 48 + 131072 bytes in the
    model, not 512 MiB (the defect D2 allocated the declared length up front) -/
example : (cdecWitness [0x01, 0xfe, 0x00, 0x00, 0x00, 0x20]).2 = 24 + 8 * 0 + 131072 := by decide

end BtcVerif.Props.C17
