/-
  C06 — public keys, point encodings, ECDH and key sums agree with secp256k1.

  Property theorems only (helper lemmas: `Proofs/ECC.lean`, `Proofs/ECCGroup.lean`). The model
  `Model/ECC.lean` is generic over the record `C : CurveOps` of curve operations (instantiated with
  the independent `Prim.Secp256k1` in the oracle executable, where it is compared with the Go
  code); the theorems hold for EVERY `C` satisfying the named hypotheses

    `FieldHyp C`  (p odd, 7 < p < 2^256, SqrtComplete, SqrtUnique, 7 is no square, −7 no cube mod p)
    `CurveAbs C`  (SecpGroup + XOnly: commutative group with coordinates, generator of exact
                   order n, `add`/`mul`/`invN` compute the group law / inverse mod n)

  which are structure arguments, never axioms, and are instantiated at the end of this file by the
  curve `y² = x³ + 7` over F₄₃ (`Proofs/CurveAbsToy.lean`). Theorems that need no hypothesis say so.
  All inputs are quantified without size bounds.
-/
import BtcVerif.Props.GuardPins.P_ecc
import BtcVerif.Proofs.ECCGroup
import BtcVerif.Proofs.CurveAbsToy

namespace BtcVerif.Props.C06
open BtcVerif BtcVerif.Model.ECC BtcVerif.Proofs BtcVerif.Proofs.ECC
open BtcVerif.Spec.ECC (validPoint parsePoint encodeCompressed encodeUncompressed encodeXOnly
  IsStandardEncoding)

variable {C : CurveOps}

/-! ### public keys -/

/-- for every scalar in [1, n-1] (given as a byte string of any length) the compressed,
    uncompressed and x-only public keys are the standard encodings of `k·G` -/
theorem public_keys_eq_reference (H : CurveAbs C) (priv : Bytes)
    (hv : isValidScalar C (beNat priv) = true) :
    getPublicKeyCompressed C priv = .ok (encodeCompressed (H.xy (beNat priv • H.G))) ∧
    getPublicKeyUncompressed C priv = .ok (encodeUncompressed (H.xy (beNat priv • H.G))) ∧
    getPublicKeySchnorr C priv = .ok (encodeXOnly (H.xy (beNat priv • H.G))) :=
  ⟨getPublicKeyCompressed_spec H priv hv, getPublicKeyUncompressed_spec H priv hv,
   getPublicKeySchnorr_spec H priv hv⟩

/-! ### point decoding -/

/-- the decoder is the reference parser (SEC 1 §2.3.4 + BIP340 `lift_x`), on every byte string -/
theorem deserialize_eq_reference_parser (H : FieldHyp C) (bs : Bytes) :
    deserializePoint C bs = (match parsePoint C bs with | some P => .ok P | none => .err) := by
  rw [deserializePoint_eq_spec H]; cases parsePoint C bs <;> rfl

/-- accepted ⇔ one of the three standard encodings of a finite curve point with reduced coordinates -/
theorem accepts_iff_standard_encoding (H : FieldHyp C) (bs : Bytes) (P : Pt) :
    deserializePoint C bs = .ok P ↔ IsStandardEncoding C bs P := deserializePoint_ok_iff H bs P

/-- hypothesis-free: whatever the curve operations compute, a decoded point has no zero
    coordinate — it is never ekliptic's point at infinity `(0,0)` (false before the D8 repair) -/
theorem deserialize_never_infinity {bs : Bytes} {P : Pt} (h : deserializePoint C bs = .ok P) :
    P ≠ (0, 0) ∧ P.1 ≠ 0 ∧ P.2 ≠ 0 := by
  have := ECC.deserialize_never_infinity h
  exact ⟨fun h0 => this.1 (by rw [h0]), this⟩

/-- a decoded point has coordinates `< p` and satisfies `y² = x³ + 7` -/
theorem deserialize_sound (H : FieldHyp C) {bs : Bytes} {P : Pt} (h : deserializePoint C bs = .ok P) :
    P.1 < C.p ∧ P.2 < C.p ∧ P.2 * P.2 % C.p = (P.1 * P.1 * P.1 + 7) % C.p :=
  (validPoint_iff P).mp (ECC.deserialize_sound H h).1

theorem deserialize_no_panic (H : FieldHyp C) (bs : Bytes) : deserializePoint C bs ≠ .panic :=
  deserializePoint_ne_panic H bs

/-- every finite curve point serialises (no panic) to its standard encodings and decodes back -/
theorem serialize_deserialize (H : FieldHyp C) {P : Pt} (h : validPoint C P = true) :
    (serializeCompressed C P >>= deserializePoint C) = .ok P ∧
    (serializeUncompressed C P >>= deserializePoint C) = .ok P ∧
    (P.2 % 2 = 0 → (fillBytes32 P.1 >>= deserializePoint C) = .ok P) := ECC.serialize_deserialize H h

/-- re-encoding a decoded point in the format it came in reproduces the input -/
theorem deserialize_serialize (H : FieldHyp C) {bs : Bytes} {P : Pt} (h : deserializePoint C bs = .ok P) :
    (bs.length = 33 → serializeCompressed C P = .ok bs) ∧
    (bs.length = 65 → serializeUncompressed C P = .ok bs) ∧
    (bs.length = 32 → fillBytes32 P.1 = .ok bs ∧ P.2 % 2 = 0) := ECC.deserialize_serialize H h

/-- compress ∘ uncompress ∘ compress = compress, and compress is idempotent -/
theorem compress_uncompress_inverse (H : FieldHyp C) {pub c : Bytes} (h : compressPublicKey C pub = .ok c) :
    ∃ u, uncompressPublicKey C c = .ok u ∧ compressPublicKey C u = .ok c ∧ compressPublicKey C c = .ok c :=
  ECC.compress_uncompress_inverse H h

theorem uncompress_compress_inverse (H : FieldHyp C) {pub u : Bytes} (h : uncompressPublicKey C pub = .ok u) :
    ∃ c, compressPublicKey C u = .ok c ∧ uncompressPublicKey C c = .ok u ∧ uncompressPublicKey C u = .ok u :=
  ECC.uncompress_compress_inverse H h

/-! ### ECDH -/

/-- secret(a, b·G) = secret(b, a·G) = x((ab)·G), for all 256-bit scalars, without panic -/
theorem ecdh_symm (H : CurveAbs C) (a b : Nat) (ha : a < 2 ^ 256) (hb : b < 2 ^ 256) :
    sharedSecret C a (H.xy (b • H.G)) = .ok (beBytes 32 (H.xy ((a * b) • H.G)).1) ∧
    sharedSecret C b (H.xy (a • H.G)) = .ok (beBytes 32 (H.xy ((a * b) • H.G)).1) :=
  ECC.ecdh_symm H a b ha hb

/-! ### key sums -/

/-- the sum of valid private keys is the 32-byte scalar (Σ keys) mod n (false before the D9 repair) -/
theorem sumPriv_spec (hn : 0 < C.n) (hn2 : C.n ≤ 2 ^ 256) (ks : List Bytes)
    (h : ∀ k ∈ ks, isValidScalar C (beNat k) = true) :
    sumPrivateKeys C ks = .ok (beBytes 32 ((ks.map beNat).sum % C.n)) :=
  sumPrivateKeys_spec hn hn2 ks h

/-- no list of byte strings makes SumPrivateKeys panic (false before the D9 repair) -/
theorem sumPriv_no_panic (hn : 0 < C.n) (hn2 : C.n ≤ 2 ^ 256) (ks : List Bytes) :
    sumPrivateKeys C ks ≠ .panic := sumPrivateKeys_ne_panic hn hn2 ks

/-- one invalid key (0 or ≥ n) makes the whole sum an error -/
theorem sumPriv_rejects_invalid (ks : List Bytes) (h : ∃ k ∈ ks, isValidScalar C (beNat k) = false) :
    sumPrivateKeys C ks = .err := by
  unfold sumPrivateKeys; rw [sumPrivLoop_invalid ks 0 h]; rfl

/-- the sum of x-only keys is the x coordinate of the group sum of the even-y lifts -/
theorem sumPub_spec (H : CurveAbs C) (Ps : List H.Pt) (h : ∀ P ∈ Ps, P ≠ 0 ∧ (H.xy P).2 % 2 = 0) :
    sumPublicKeys C (Ps.map (fun P => encodeXOnly (H.xy P))) = .ok (beBytes 32 (H.xy Ps.sum).1) :=
  sumPublicKeys_spec H Ps h

/-- NewPrivateKey returns 32 bytes holding a scalar in [1, n-1], for every random stream -/
theorem newPrivateKey_range (hn2 : C.n ≤ 2 ^ 256) (stream k : Bytes) (h : newPrivateKey C stream = .ok k) :
    k.length = 32 ∧ 1 ≤ beNat k ∧ beNat k < C.n :=
  newPrivateKeyLoop_range hn2 _ stream k h

/-! ### non-vacuity: the hypotheses hold for `y² = x³ + 7` over F₄₃ (order 31), and the theorems
    say something there -/

example : FieldHyp Toy.ops := Toy.fieldHyp
example : CurveAbs Toy.ops := Toy.curveAbs

/-- `5·G` on the toy curve: its compressed encoding is accepted and decodes to the point -/
example : deserializePoint Toy.ops (encodeCompressed (Toy.tbl 5)) = .ok (Toy.tbl 5) :=
  (accepts_iff_standard_encoding Toy.fieldHyp _ _).mpr ⟨by decide, Or.inl rfl⟩

example : isValidScalar Toy.ops (beNat [0, 17]) = true := by decide
example : ∀ k ∈ [[(30 : UInt8)], [2]], isValidScalar Toy.ops (beNat k) = true := by decide
example : sumPrivateKeys Toy.ops [[30], [2]] = .ok (beBytes 32 1) :=
  sumPriv_spec (by decide) (by decide) _ (by decide)

end BtcVerif.Props.C06
