/-
  BIP173 reference implementation (the Python code in the BIP: `bech32_polymod`, `bech32_hrp_expand`,
  `bech32_verify_checksum`, `bech32_create_checksum`, `bech32_encode`, `bech32_decode`, `convertbits`),
  transcribed independently of `Model/Bech32.lean`. Own copies of the character set and generator.
  Strings are byte strings. Core Lean only.
-/
import BtcVerif.Model.Basic

namespace BtcVerif.Spec.Bech32
open BtcVerif

/-- `CHARSET = "qpzry9x8gf2tvdw0s3jn54khce6mua7l"` -/
def charset : Bytes :=
  [0x71, 0x70, 0x7a, 0x72, 0x79, 0x39, 0x78, 0x38, 0x67, 0x66, 0x32, 0x74, 0x76, 0x64, 0x77, 0x30,
   0x73, 0x33, 0x6a, 0x6e, 0x35, 0x34, 0x6b, 0x68, 0x63, 0x65, 0x36, 0x6d, 0x75, 0x61, 0x37, 0x6c]

/-- one iteration of the loop of `bech32_polymod`:
    `b = chk >> 25; chk = (chk & 0x1ffffff) << 5 ^ v; for i in range(5): chk ^= GEN[i] if ((b >> i) & 1) else 0` -/
def polymodStep (chk v : Nat) : Nat :=
  let b := chk >>> 25
  let c := ((chk &&& 0x1ffffff) <<< 5) ^^^ v
  let c := c ^^^ (if (b >>> 0) &&& 1 ≠ 0 then 0x3b6a57b2 else 0)
  let c := c ^^^ (if (b >>> 1) &&& 1 ≠ 0 then 0x26508e6d else 0)
  let c := c ^^^ (if (b >>> 2) &&& 1 ≠ 0 then 0x1ea119fa else 0)
  let c := c ^^^ (if (b >>> 3) &&& 1 ≠ 0 then 0x3d4233dd else 0)
  c ^^^ (if (b >>> 4) &&& 1 ≠ 0 then 0x2a1462b3 else 0)

/-- `bech32_polymod(values)` -/
def polymod (values : List Nat) : Nat := values.foldl polymodStep 1

/-- `bech32_hrp_expand(s) = [ord(x) >> 5 for x in s] + [0] + [ord(x) & 31 for x in s]` -/
def hrpExpand (hrp : Bytes) : List Nat :=
  hrp.map (fun x => x.toNat >>> 5) ++ [0] ++ hrp.map (fun x => x.toNat &&& 31)

/-- `bech32_verify_checksum(hrp, data)` -/
def verifyChecksum (hrp : Bytes) (data : List Nat) : Bool := polymod (hrpExpand hrp ++ data) == 1

/-- `bech32_create_checksum(hrp, data)` -/
def createChecksum (hrp : Bytes) (data : List Nat) : List Nat :=
  let pm := polymod (hrpExpand hrp ++ data ++ [0, 0, 0, 0, 0, 0]) ^^^ 1
  [(pm >>> 25) &&& 31, (pm >>> 20) &&& 31, (pm >>> 15) &&& 31, (pm >>> 10) &&& 31, (pm >>> 5) &&& 31,
   pm &&& 31]

def lowerChar (c : UInt8) : UInt8 := if 0x41 ≤ c ∧ c ≤ 0x5a then c + 0x20 else c
def upperChar (c : UInt8) : UInt8 := if 0x61 ≤ c ∧ c ≤ 0x7a then c - 0x20 else c

/-- `CHARSET.find(x)` -/
def find : Bytes → UInt8 → Option Nat
  | [], _ => none
  | a :: as, c => if a = c then some 0 else (find as c).map Nat.succ

/-- `bech.rfind('1')` -/
def rfind (c : UInt8) : Bytes → Option Nat
  | [] => none
  | x :: xs =>
    match rfind c xs with
    | some i => some (i + 1)
    | none => if x = c then some 0 else none

/-- `bech32_decode(bech)`: hrp and data part without the checksum, or `none` -/
def bech32Decode (bech : Bytes) : Option (Bytes × List Nat) :=
  if bech.any (fun x => x.toNat < 33 || x.toNat > 126) then none
  else if bech.map lowerChar ≠ bech ∧ bech.map upperChar ≠ bech then none
  else
    let bech := bech.map lowerChar
    match rfind 0x31 bech with
    | none => none                                        -- pos = -1 < 1
    | some pos =>
      if pos < 1 ∨ pos + 7 > bech.length ∨ bech.length > 90 then none
      else
        let dataPart := bech.drop (pos + 1)
        if ¬ dataPart.all (fun x => (find charset x).isSome) then none
        else
          let hrp := bech.take pos
          let data := dataPart.filterMap (find charset)
          if ¬ verifyChecksum hrp data then none
          else some (hrp, data.take (data.length - 6))

/-- the `while bits >= tobits` loop of `convertbits` (at most `fuel` rounds) -/
def drain (tobits maxv acc : Nat) : Nat → Nat → List Nat → Nat × List Nat
  | 0, bits, ret => (bits, ret)
  | fuel + 1, bits, ret =>
    if bits ≥ tobits then
      drain tobits maxv acc fuel (bits - tobits) (ret ++ [(acc >>> (bits - tobits)) &&& maxv])
    else (bits, ret)

/-- the `for value in data` loop of `convertbits` -/
def convertLoop (frombits tobits maxv maxAcc : Nat) :
    List Nat → Nat → Nat → List Nat → Option (Nat × Nat × List Nat)
  | [], acc, bits, ret => some (acc, bits, ret)
  | value :: rest, acc, bits, ret =>
    if value >>> frombits ≠ 0 then none
    else
      let acc := ((acc <<< frombits) ||| value) &&& maxAcc
      let bits := bits + frombits
      let (bits, ret) := drain tobits maxv acc (bits + 1) bits ret
      convertLoop frombits tobits maxv maxAcc rest acc bits ret

/-- `convertbits(data, frombits, tobits, pad)` for `tobits ≥ 1` -/
def convertbits (data : List Nat) (frombits tobits : Nat) (pad : Bool) : Option (List Nat) :=
  let maxv := (1 <<< tobits) - 1
  let maxAcc := (1 <<< (frombits + tobits - 1)) - 1
  match convertLoop frombits tobits maxv maxAcc data 0 0 [] with
  | none => none
  | some (acc, bits, ret) =>
    if pad then
      if bits ≠ 0 then some (ret ++ [(acc <<< (tobits - bits)) &&& maxv]) else some ret
    else if bits ≥ frombits ∨ ((acc <<< (tobits - bits)) &&& maxv) ≠ 0 then none
    else some ret

/-- The reference for `bech32.Decode`: `bech32_decode`, the first data value as the version, the
    rest regrouped by `convertbits(…, 5, 8, False)` exactly as the reference segwit-address decoder
    does. An empty payload is refused (the library's `Encode` refuses to produce one); the
    address-specific rules of BIP173 (witness version ≤ 16, program length 2..40, 20/32 for
    version 0) belong to `address` (C09), not to `bech32`. -/
def bip173Decode (s : Bytes) : Outcome (Bytes × Nat × Bytes) :=
  match bech32Decode s with
  | none => .err
  | some (_, []) => .err
  | some (hrp, version :: prog) =>
    match convertbits prog 5 8 false with
    | none => .err
    | some [] => .err
    | some decoded => .ok (hrp, version, decoded.map UInt8.ofNat)

/-- `None` is the reference's "invalid" -/
def toOutcome {α : Type} : Option α → Outcome α
  | some a => .ok a
  | none => .err

/-- `bech32_encode(hrp, [version] + convertbits(payload, 8, 5))` -/
def bip173Encode (hrp : Bytes) (version : Nat) (payload : Bytes) : Option Bytes :=
  match convertbits (payload.map UInt8.toNat) 8 5 true with
  | none => none
  | some prog =>
    let data := version :: prog
    let combined := data ++ createChecksum hrp data
    some (hrp ++ [0x31] ++ combined.filterMap (fun d => charset[d]?))

end BtcVerif.Spec.Bech32
