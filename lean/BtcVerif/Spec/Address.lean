/-
  Reference address encoder (independent of `Model/Address.lean`): the network parameter table as
  published (Bitcoin `chainparams.cpp`, Litecoin `chainparams.cpp`, Zcash protocol spec §5.6.1.1),
  Base58Check as described in the Bitcoin wiki, segwit addresses as in BIP173 (witness version 0).
  Core Lean only.
-/
import BtcVerif.Model.Basic
import BtcVerif.Spec.Bech32

namespace BtcVerif.Spec.Address
open BtcVerif

structure Net where
  name : String
  hrp : Option Bytes          -- none: no segwit addresses
  p2pkhVersion : Bytes        -- Base58Check version prefix of P2PKH addresses
  p2shVersion : Bytes
  wifVersion : Nat
  xpub : Nat
  xprv : Nat
  deriving DecidableEq

/-- Bitcoin mainnet: `1…` (0x00), `3…` (0x05), `bc`, WIF 0x80, xpub 0x0488B21E, xprv 0x0488ADE4 -/
def bitcoin : Net := ⟨"Bitcoin", some [0x62, 0x63], [0x00], [0x05], 0x80, 0x0488B21E, 0x0488ADE4⟩
/-- Bitcoin testnet: `m/n…` (0x6f), `2…` (0xc4), `tb`, WIF 0xef, tpub 0x043587CF, tprv 0x04358394 -/
def testnet : Net := ⟨"Testnet Bitcoin", some [0x74, 0x62], [0x6f], [0xc4], 0xef, 0x043587CF, 0x04358394⟩
/-- Litecoin: `L…` (0x30), `M…` (0x32), `ltc`, WIF 0xb0, Ltub 0x019DA462, Ltpv 0x019D9CFE -/
def litecoin : Net := ⟨"Litecoin", some [0x6c, 0x74, 0x63], [0x30], [0x32], 0xb0, 0x019DA462, 0x019D9CFE⟩
/-- Zcash transparent addresses: `t1…` (0x1CB8), `t3…` (0x1CBD), no Bech32; WIF and extended-key
    versions as Bitcoin -/
def zcash : Net := ⟨"Zcash", none, [0x1c, 0xb8], [0x1c, 0xbd], 0x80, 0x0488B21E, 0x0488ADE4⟩

def networks : List Net := [bitcoin, testnet, litecoin, zcash]

/-! ### Base58 (Bitcoin wiki "Base58Check encoding") -/

/-- "123456789ABCDEFGHJKLMNPQRSTUVWXYZabcdefghijkmnopqrstuvwxyz" -/
def b58chars : Bytes :=
  [0x31, 0x32, 0x33, 0x34, 0x35, 0x36, 0x37, 0x38, 0x39,
   0x41, 0x42, 0x43, 0x44, 0x45, 0x46, 0x47, 0x48, 0x4a, 0x4b, 0x4c, 0x4d, 0x4e, 0x50, 0x51, 0x52,
   0x53, 0x54, 0x55, 0x56, 0x57, 0x58, 0x59, 0x5a,
   0x61, 0x62, 0x63, 0x64, 0x65, 0x66, 0x67, 0x68, 0x69, 0x6a, 0x6b, 0x6d, 0x6e, 0x6f, 0x70, 0x71,
   0x72, 0x73, 0x74, 0x75, 0x76, 0x77, 0x78, 0x79, 0x7a]

/-- value of a big-endian byte string -/
def value : Bytes → Nat → Nat
  | [], acc => acc
  | b :: bs, acc => value bs (acc * 256 + b.toNat)

/-- base-58 digits, least significant first (`fuel` ≥ number of digits) -/
def digitsLE : Nat → Nat → List Nat
  | 0, _ => []
  | fuel + 1, n => if n = 0 then [] else (n % 58) :: digitsLE fuel (n / 58)

/-- "Convert the number to base 58; leading zero bytes are represented by '1' characters" -/
def base58 (bs : Bytes) : Bytes :=
  let zeros := (bs.takeWhile (· = 0)).length
  let n := value bs 0
  List.replicate zeros 0x31 ++ ((digitsLE (2 * bs.length + 1) n).reverse.filterMap (fun d => b58chars[d]?))

/-- Base58Check: payload followed by the first four bytes of its double SHA-256 -/
def base58check (dsha4 : Bytes → Bytes) (payload : Bytes) : Bytes := base58 (payload ++ dsha4 payload)

/-! ### reference addresses -/

inductive Kind where
  | p2pkh | p2sh | p2wpkh | p2wsh
  deriving DecidableEq

/-- the address of a 20-byte (32-byte for P2WSH) hash -/
def addressOfHash (dsha4 : Bytes → Bytes) (net : Net) (k : Kind) (h : Bytes) : Option Bytes :=
  match k with
  | .p2pkh => some (base58check dsha4 (net.p2pkhVersion ++ h))
  | .p2sh => some (base58check dsha4 (net.p2shVersion ++ h))
  | .p2wpkh | .p2wsh =>
    match net.hrp with
    | none => none
    | some hrp => Bech32.bip173Encode hrp 0 h

/-- the standard scriptPubKey of each kind -/
def scriptPubKey (k : Kind) (h : Bytes) : Bytes :=
  match k with
  | .p2pkh => [0x76, 0xa9, 0x14] ++ h ++ [0x88, 0xac]     -- DUP HASH160 <20> EQUALVERIFY CHECKSIG
  | .p2sh => [0xa9, 0x14] ++ h ++ [0x87]                   -- HASH160 <20> EQUAL
  | .p2wpkh => [0x00, 0x14] ++ h                           -- 0 <20>
  | .p2wsh => [0x00, 0x20] ++ h                            -- 0 <32>

/-! ### reference key export formats (Bitcoin wiki "Wallet import format", BIP32 "Serialization format") -/

/-- big-endian bytes of a number, most significant first, exactly `k` of them -/
def be : Nat → Nat → Bytes
  | 0, _ => []
  | k + 1, n => be k (n / 256) ++ [UInt8.ofNat (n % 256)]

/-- WIF: Base58Check of `version ‖ key ‖ (01 if the public key is compressed)` -/
def wif (dsha4 : Bytes → Bytes) (version : Nat) (key : Bytes) (compressed : Bool) : Bytes :=
  base58check dsha4 ([UInt8.ofNat version] ++ key ++ (if compressed then [0x01] else []))

/-- BIP32: Base58Check of `version(4) ‖ depth(1) ‖ parent fingerprint(4) ‖ child number(4) ‖
    chain code(32) ‖ key data(33: 00 ‖ k for private keys, the compressed point for public keys)` -/
def xkey (dsha4 : Bytes → Bytes) (version depth : Nat) (fingerprint : Bytes) (childNumber : Nat)
    (chainCode keyData : Bytes) : Bytes :=
  base58check dsha4 (be 4 version ++ [UInt8.ofNat depth] ++ fingerprint ++ be 4 childNumber ++ chainCode ++ keyData)

end BtcVerif.Spec.Address
