/-
  Reference semantics for C05 / C06, transcribed from the standards and independent of the Go
  code's guard structure:

    * SEC 1 v2 §2.3.3/2.3.4 (point ↔ octet string), §3.2.2.1 (public key validation),
      §4.1.4 (ECDSA verification);
    * BIP340 (`lift_x`, default verification);
    * "sum of private keys modulo n".

  The arithmetic primitives are the same opaque record `CurveOps` the model uses (field prime,
  order, generator, the square-root exponentiation, point addition, scalar multiplication, inverse
  mod n), so that `Model = Spec` theorems are about the order of checks, the accepted encodings
  and the treatment of the point at infinity — which the shared operations represent as `(0,0)`.
  Executable fully independent references are `Prim.ECDSA`, `Prim.BIP340`, `Prim.Secp256k1`;
  the oracle answers `.spec` requests only when this file and `Prim` agree.

  Core Lean only.
-/
import BtcVerif.Model.Basic
import BtcVerif.Model.ECC

namespace BtcVerif.Spec.ECC
open BtcVerif
open BtcVerif.Model.ECC (CurveOps Pt)

variable (C : CurveOps)

/-- the value the shared operations return for the point at infinity -/
def isInfinity (P : Pt) : Bool := P.1 == 0 && P.2 == 0

/-- SEC 1 §3.2.2.1 steps 2–3 for an affine pair: both coordinates are field elements and the
    curve equation `y² = x³ + 7` holds. (Step 1, `Q ≠ O`: an affine pair is never `O`; step 4 is
    void for cofactor 1.) -/
def validPoint (P : Pt) : Bool :=
  decide (P.1 < C.p) && decide (P.2 < C.p) && (P.2 * P.2 % C.p == (P.1 * P.1 * P.1 + 7) % C.p)

/-- BIP340 `lift_x` (= SEC 1 §2.3.4 step 2.4 with ỹ = 0): fail if `x ≥ p`; `c = x³ + 7 mod p`;
    `y = c^((p+1)/4) mod p`; fail if `c ≠ y² mod p`; return `(x, y)` if `y` is even, else `(x, p − y)`. -/
def liftX (x : Nat) : Option Pt :=
  if x ≥ C.p then none
  else
    let c := (x * x * x + 7) % C.p
    let y := C.sqrtExp c
    if y * y % C.p ≠ c then none
    else some (x, if y % 2 = 0 then y else C.p - y)

/-- Octet-string-to-point, the three standard encodings of a finite point:
    33 bytes `02|03 ‖ X` (SEC 1 §2.3.4 case 2), 65 bytes `04 ‖ X ‖ Y` (case 3), 32 bytes `X`
    (BIP340, even `y` implied). Everything else — including the one-byte encoding of `O`, hybrid
    prefixes 06/07, coordinates `≥ p`, pairs off the curve — is invalid. -/
def parsePoint (bs : Bytes) : Option Pt :=
  if bs.length = 33 then
    match bs with
    | pre :: rest =>
      if pre = 2 then liftX C (beNat rest)
      else if pre = 3 then (liftX C (beNat rest)).map (fun P => (P.1, C.p - P.2))
      else none
    | [] => none
  else if bs.length = 65 then
    match bs with
    | pre :: rest =>
      if pre = 4 then
        let P : Pt := (beNat (rest.take 32), beNat (rest.drop 32))
        if validPoint C P then some P else none
      else none
    | [] => none
  else if bs.length = 32 then liftX C (beNat bs)
  else none

/-- SEC 1 §2.3.3 -/
def encodeCompressed (P : Pt) : Bytes := (if P.2 % 2 = 0 then (2 : UInt8) else 3) :: beBytes 32 P.1
def encodeUncompressed (P : Pt) : Bytes := (4 : UInt8) :: (beBytes 32 P.1 ++ beBytes 32 P.2)
def encodeXOnly (P : Pt) : Bytes := beBytes 32 P.1

/-- the set of standard encodings of a finite curve point -/
def IsStandardEncoding (bs : Bytes) (P : Pt) : Prop :=
  validPoint C P = true ∧
    (bs = encodeCompressed P ∨ bs = encodeUncompressed P ∨ (bs = encodeXOnly P ∧ P.2 % 2 = 0))

/-- SEC 1 §4.1.4 with the public key given as an octet string (parsed and validated first). `hash`
    is the 32-byte message hash (so `e` is its big-endian value, §4.1.4 step 3 with ⌈log₂ n⌉ = 256). -/
def verifyECDSA (pub hash : Bytes) (r s : Nat) : Bool :=
  match parsePoint C pub with
  | none => false
  | some Q =>
    if !(decide (1 ≤ r) && decide (r < C.n) && decide (1 ≤ s) && decide (s < C.n)) then false
    else
      let e := beNat hash
      let w := C.invN s
      let u1 := e * w % C.n
      let u2 := r * w % C.n
      let R := C.add (C.mul u1 (C.gx, C.gy)) (C.mul u2 Q)
      if isInfinity R then false
      else decide (R.1 % C.n = r)

/-- `−P` for a finite point is `(x, p − y)`; `−O = O` -/
def neg (P : Pt) : Pt := if isInfinity P then P else (P.1, C.p - P.2)

/-- BIP340 "Verification", `hCh` = `hash_BIP0340/challenge`. -/
def verifySchnorr (hCh : Bytes → Bytes) (pk msg sig : Bytes) : Bool :=
  if pk.length ≠ 32 || sig.length ≠ 64 then false
  else
    match liftX C (beNat pk) with
    | none => false
    | some P =>
      let r := beNat (sig.take 32)
      let s := beNat (sig.drop 32)
      if r ≥ C.p then false
      else if s ≥ C.n then false
      else
        let e := beNat (hCh (beBytes 32 r ++ beBytes 32 P.1 ++ msg)) % C.n
        let R := C.add (C.mul s (C.gx, C.gy)) (neg C (C.mul e P))
        if isInfinity R then false
        else if R.2 % 2 ≠ 0 then false
        else decide (R.1 = r)

/-- the sum of private keys as a scalar -/
def sumPriv (ks : List Nat) : Nat := ks.sum % C.n

end BtcVerif.Spec.ECC
