/-
  BIP341 ("Taproot: SegWit version 1 spending rules"), the reference code of the sections
  "Constructing and spending Taproot outputs" and BIP340's `tagged_hash`, transcribed from the
  Python. Independent of the model of the Go code; it shares only the record of curve operations
  (`lift_x` = parsing a 32-byte string, `point_add`, `point_mul(G, ·)`, `x`, `has_even_y`, `n`) and
  the SHA-256 parameter. Core Lean only.
-/
import BtcVerif.Model.Bip32

namespace BtcVerif.Spec.Taproot
open BtcVerif BtcVerif.Model BtcVerif.Model.Bip32

/-- `tagged_hash(tag, msg) = sha256(sha256(tag) + sha256(tag) + msg)` -/
def taggedHash (sha : Bytes → Bytes) (tag : String) (msg : Bytes) : Bytes :=
  sha (sha tag.toUTF8.toList ++ sha tag.toUTF8.toList ++ msg)

/--
```
def taproot_tweak_pubkey(pubkey, h):
    t = int_from_bytes(tagged_hash("TapTweak", pubkey + h))
    if t >= SECP256K1_ORDER: raise ValueError
    P = lift_x(int_from_bytes(pubkey))
    if P is None: raise ValueError
    Q = point_add(P, point_mul(G, t))
    return 0 if has_even_y(Q) else 1, bytes_from_int(x(Q))
```
(`pubkey` is a 32-byte x-only key.) -/
def taprootTweakPubkey {P} (C : CurveOps P) (sha : Bytes → Bytes) (pubkey h : Bytes) :
    Option (Bool × Bytes) :=
  if pubkey.length ≠ 32 then none
  else
    let t := beNat (taggedHash sha "TapTweak" (pubkey ++ h))
    if t ≥ C.n then none
    else match C.parse pubkey with
      | none => none
      | some pt =>
        let q := C.add pt (C.mulG t)
        some (C.yOdd q, C.xBytes q)

/--
```
def taproot_tweak_seckey(seckey0, h):
    seckey0 = int_from_bytes(seckey0)
    P = point_mul(G, seckey0)
    seckey = seckey0 if has_even_y(P) else SECP256K1_ORDER - seckey0
    t = int_from_bytes(tagged_hash("TapTweak", bytes_from_int(x(P)) + h))
    if t >= SECP256K1_ORDER: raise ValueError
    return bytes_from_int((seckey + t) % SECP256K1_ORDER)
``` -/
def taprootTweakSeckey {P} (C : CurveOps P) (sha : Bytes → Bytes) (seckey0 h : Bytes) : Option Bytes :=
  let d0 := beNat seckey0
  let pt := C.mulG d0
  let d := if C.yOdd pt then C.n - d0 else d0
  let t := beNat (taggedHash sha "TapTweak" (C.xBytes pt ++ h))
  if t ≥ C.n then none else some (beBytes 32 ((d + t) % C.n))

/-- `ser_script` prefix: Bitcoin's compact size of the length -/
def compactSize (n : Nat) : Bytes :=
  if n < 0xfd then [UInt8.ofNat n]
  else if n ≤ 0xffff then (0xfd : UInt8) :: leBytes 2 n
  else if n ≤ 0xffffffff then (0xfe : UInt8) :: leBytes 4 n
  else (0xff : UInt8) :: leBytes 8 n

/-- `tagged_hash("TapLeaf", bytes([leaf_version]) + ser_script(script))` -/
def leafHash (sha : Bytes → Bytes) (version : UInt8) (script : Bytes) : Bytes :=
  taggedHash sha "TapLeaf" ([version] ++ (compactSize script.length ++ script))

/-- Python's `<` on `bytes`: lexicographic, a proper prefix is smaller -/
def bytesLt : Bytes → Bytes → Bool
  | [], [] => false
  | [], _ :: _ => true
  | _ :: _, [] => false
  | a :: as, b :: bs => if a < b then true else if b < a then false else bytesLt as bs

/--
```
    if right_h < left_h:
        left_h, right_h = right_h, left_h
    return (ret, tagged_hash("TapBranch", left_h + right_h))
``` -/
def branchHash (sha : Bytes → Bytes) (left right : Bytes) : Bytes :=
  if bytesLt right left then taggedHash sha "TapBranch" (right ++ left)
  else taggedHash sha "TapBranch" (left ++ right)

/-- a script tree as in `taproot_tree_helper`: a leaf `(leaf_version, script)` or a pair of
    subtrees; `opaque` stands for a subtree of which only the hash is known -/
inductive STree where
  | leaf (version : UInt8) (script : Bytes)
  | opaque (h : Bytes)
  | branch (l r : STree)

def treeHash (sha : Bytes → Bytes) : STree → Bytes
  | .leaf v s => leafHash sha v s
  | .opaque h => h
  | .branch l r => branchHash sha (treeHash sha l) (treeHash sha r)

/--
```
def taproot_output_script(internal_pubkey, script_tree):
    if script_tree is None: h = bytes()
    else: _, h = taproot_tree_helper(script_tree)
    _, output_pubkey = taproot_tweak_pubkey(internal_pubkey, h)
    return bytes([0x51, 0x20]) + output_pubkey
``` -/
def taprootOutputScript {P} (C : CurveOps P) (sha : Bytes → Bytes) (internalPubkey : Bytes)
    (tree : Option STree) : Option Bytes :=
  let h := match tree with
    | none => []
    | some t => treeHash sha t
  match taprootTweakPubkey C sha internalPubkey h with
  | none => none
  | some (_, outputPubkey) => some ((0x51 : UInt8) :: (0x20 : UInt8) :: outputPubkey)

end BtcVerif.Spec.Taproot
