/-
  BIP32 ("Hierarchical Deterministic Wallets"), sections "Conventions", "Child key derivation
  (CKD) functions" and "Master key generation", transcribed. Independent of the model of the Go
  code: it works on integers and points (not on byte strings), it *does* detect the invalid
  ("skip") cases, and it only shares the record of curve operations (`point`, `serP`, `+`, `n`)
  and the HMAC-SHA512 parameter with the model. Core Lean only.
-/
import BtcVerif.Model.Bip32

namespace BtcVerif.Spec.Bip32
open BtcVerif BtcVerif.Model BtcVerif.Model.Bip32

/-- `ser32(i)`: 4 bytes, most significant byte first -/
def ser32 (i : Nat) : Bytes := beBytes 4 i
/-- `ser256(p)`: 32 bytes, most significant byte first -/
def ser256 (k : Nat) : Bytes := beBytes 32 k
/-- `parse256(p)` -/
def parse256 (b : Bytes) : Nat := beNat b

/-- Private parent key → private child key. `none` = "the resulting key is invalid, and one
    should proceed with the next value for i" (`parse256(I_L) ≥ n` or `k_i = 0`). -/
def ckdPriv {P} (C : CurveOps P) (hmac : Bytes → Bytes → Bytes) (kpar : Nat) (cpar : Bytes)
    (i : Nat) : Option (Nat × Bytes) :=
  let I :=
    if i ≥ 2 ^ 31 then hmac cpar ((0x00 : UInt8) :: ser256 kpar ++ ser32 i)   -- hardened child
    else hmac cpar (C.compress (C.mulG kpar) ++ ser32 i)                       -- serP(point(kpar))
  let IL := I.take 32
  let IR := I.drop 32
  let ki := (parse256 IL + kpar) % C.n
  if parse256 IL ≥ C.n ∨ ki = 0 then none else some (ki, IR)

inductive PubResult (P : Type) where
  | child (K : P) (c : Bytes)
  /-- "If so (hardened child): return failure" -/
  | failure
  /-- "the resulting key is invalid" (`parse256(I_L) ≥ n` or `K_i` is the point at infinity) -/
  | invalid

/-- Public parent key → public child key -/
def ckdPub {P} [DecidableEq P] (C : CurveOps P) (hmac : Bytes → Bytes → Bytes) (Kpar : P)
    (cpar : Bytes) (i : Nat) : PubResult P :=
  if i ≥ 2 ^ 31 then .failure
  else
    let I := hmac cpar (C.compress Kpar ++ ser32 i)
    let IL := I.take 32
    let IR := I.drop 32
    let Ki := C.add (C.mulG (parse256 IL)) Kpar
    if parse256 IL ≥ C.n ∨ Ki = C.zero then .invalid else .child Ki IR

/-- `N((k, c)) = (point(k), c)` -/
def neuter {P} (C : CurveOps P) (kc : Nat × Bytes) : P × Bytes := (C.mulG kc.1, kc.2)

/-- Master key generation from a seed of 128..512 bits: `I = HMAC-SHA512(Key = "Bitcoin seed",
    Data = S)`; `none` when the seed length is out of range or `parse256(I_L)` is 0 or `≥ n`. -/
def master (n : Nat) (hmac : Bytes → Bytes → Bytes) (seed : Bytes) : Option (Nat × Bytes) :=
  if seed.length < 16 ∨ seed.length > 64 then none
  else
    let I := hmac "Bitcoin seed".toUTF8.toList seed
    let IL := I.take 32
    if parse256 IL = 0 ∨ parse256 IL ≥ n then none else some (parse256 IL, I.drop 32)

end BtcVerif.Spec.Bip32
