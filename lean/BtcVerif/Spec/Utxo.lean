/-
  C15 — the reference model of the unspent-output set: a partial function from outpoints to outputs
  and a declarative description of every operation (what the set is afterwards, what is handed back).
  Written from the property's statement, independently of `Model/Utxo.lean`; only the data types of
  the wire model (`PrevOut`, `TxOut`, `Tx`, `Block`) are shared.
-/
import BtcVerif.Model.Block

namespace BtcVerif.Spec.Utxo
open BtcVerif BtcVerif.Model

/-- the set of unspent outputs -/
abbrev USet := PrevOut → Option TxOut

def empty : USet := fun _ => none
def put (σ : USet) (k : PrevOut) (v : TxOut) : USet := fun k' => if k' = k then some v else σ k'
def del (σ : USet) (k : PrevOut) : USet := fun k' => if k' = k then none else σ k'

/-- building a set from a list of outputs: later ones replace earlier ones -/
def ofList (l : List (PrevOut × TxOut)) : USet := l.foldl (fun σ e => put σ e.1 e.2) empty

/-! ### txid strings: 64 hexadecimal digits (either case), the hash in reversed byte order -/

def hexDigitVal (c : UInt8) : Option Nat :=
  if 48 ≤ c.toNat ∧ c.toNat ≤ 57 then some (c.toNat - 48)
  else if 97 ≤ c.toNat ∧ c.toNat ≤ 102 then some (c.toNat - 87)
  else if 65 ≤ c.toNat ∧ c.toNat ≤ 70 then some (c.toNat - 55)
  else none

def unhex : Bytes → Option Bytes
  | [] => some []
  | [_] => none
  | a :: b :: rest => do
    let x ← hexDigitVal a
    let y ← hexDigitVal b
    let tl ← unhex rest
    some (UInt8.ofNat (16 * x + y) :: tl)

/-- the transaction hash a txid string names; `none` when the string is not a txid -/
def txidHash (txid : Bytes) : Option Bytes :=
  if txid.length = 64 then (unhex txid).map List.reverse else none

/-! ### block updates -/

/-- transaction `t` spends outpoint `k` -/
def spends (t : Tx) (k : PrevOut) : Prop := ∃ i ∈ t.inputs, i.prev = k

instance (t : Tx) (k : PrevOut) : Decidable (spends t k) := by unfold spends; infer_instance

/-- transaction `t` (whose hash is `H t`) creates `o` at outpoint `k`, and `o` pays a watched script -/
def creates (H : Tx → Bytes) (W : List Bytes) (t : Tx) (k : PrevOut) (o : TxOut) : Prop :=
  k.hash = H t ∧ t.outputs[k.index]? = some o ∧ o.script ∈ W

/-- the output that `t` creates at `k`, if any -/
def created (H : Tx → Bytes) (W : List Bytes) (t : Tx) (k : PrevOut) : Option TxOut :=
  if k.hash = H t then
    match t.outputs[k.index]? with
    | some o => if o.script ∈ W then some o else none
    | none => none
  else none

/-- one transaction: what it creates is unspent afterwards, what it spends is gone, the rest stays -/
def applyTx (H : Tx → Bytes) (W : List Bytes) (σ : USet) (t : Tx) : USet := fun k =>
  match created H W t k with
  | some o => some o
  | none => if spends t k then none else σ k

/-- transactions are applied in block order -/
def applyBlock (H : Tx → Bytes) (W : List Bytes) (σ : USet) (txs : List Tx) : USet :=
  txs.foldl (applyTx H W) σ

/-! ### listing order -/

def keyNat (k : PrevOut) : Nat := beNat k.hash * 4294967296 + k.index

/-- `l` lists the set `σ`: every binding exactly once, in key order -/
def Lists (σ : USet) (l : List (PrevOut × TxOut)) : Prop :=
  (∀ k v, (k, v) ∈ l ↔ σ k = some v) ∧ (l.map Prod.fst).Nodup ∧
  l.Pairwise (fun a b => keyNat a.1 ≤ keyNat b.1)

/-- `σ` has exactly `n` elements -/
def HasSize (σ : USet) (n : Nat) : Prop :=
  ∃ ks : List PrevOut, ks.Nodup ∧ (∀ k, k ∈ ks ↔ (σ k).isSome) ∧ ks.length = n

/-! ### operations and their declarative meaning -/

inductive Op where
  | add (k : PrevOut) (v : TxOut)
  | removeByOutpoint (k : PrevOut)
  | removeByHash (hash : Bytes) (index : Nat)
  | removeByTxid (txid : Bytes) (index : Nat)
  | getByOutpoint (k : PrevOut)
  | getByHash (hash : Bytes) (index : Nat)
  | getByTxid (txid : Bytes) (index : Nat)
  | size
  | slice
  | clone
  | new (outs : List (PrevOut × TxOut))
  | updateFromBlock (b : Block) (watched : List Bytes)

inductive Res where
  | none                                   -- nothing is handed back
  | found (e : Option (PrevOut × TxOut))
  | size (n : Nat)
  | list (l : List (PrevOut × TxOut))

/-- `Step H σ op σ' r`: performing `op` on `σ` leaves `σ'` and hands back `r` -/
def Step (H : Tx → Bytes) (σ : USet) : Op → USet → Res → Prop
  | .add k v, σ', r => σ' = put σ k v ∧ r = .none
  | .removeByOutpoint k, σ', r => σ' = del σ k ∧ r = .none
  | .removeByHash h i, σ', r => σ' = del σ ⟨h, i⟩ ∧ r = .none
  | .removeByTxid t i, σ', r =>
    σ' = (match txidHash t with | some h => del σ ⟨h, i⟩ | none => σ) ∧ r = .none
  | .getByOutpoint k, σ', r => σ' = σ ∧ r = .found ((σ k).map fun v => (k, v))
  | .getByHash h i, σ', r => σ' = σ ∧ r = .found ((σ ⟨h, i⟩).map fun v => (⟨h, i⟩, v))
  | .getByTxid t i, σ', r =>
    σ' = σ ∧ r = .found (match txidHash t with
      | some h => (σ ⟨h, i⟩).map fun v => (⟨h, i⟩, v)
      | none => Option.none)
  | .size, σ', r => σ' = σ ∧ ∃ n, r = .size n ∧ HasSize σ n
  | .slice, σ', r => σ' = σ ∧ ∃ l, r = .list l ∧ Lists σ l
  | .clone, σ', r => σ' = σ ∧ r = .none
  | .new outs, σ', r => σ' = ofList outs ∧ r = .none
  | .updateFromBlock b w, σ', r => σ' = applyBlock H w σ b.txs ∧ r = .none


/-- a history: the operations in order, the set afterwards and what each operation handed back -/
inductive Run (H : Tx → Bytes) : USet → List Op → USet → List Res → Prop
  | nil (σ : USet) : Run H σ [] σ []
  | cons {σ σ' σ'' : USet} {op : Op} {ops : List Op} {r : Res} {rs : List Res} :
      Step H σ op σ' r → Run H σ' ops σ'' rs → Run H σ (op :: ops) σ'' (r :: rs)

/-- `t` touches outpoint `k`: spends it or creates a watched output there -/
def touches (H : Tx → Bytes) (W : List Bytes) (t : Tx) (k : PrevOut) : Prop :=
  spends t k ∨ ∃ o, creates H W t k o

end BtcVerif.Spec.Utxo
