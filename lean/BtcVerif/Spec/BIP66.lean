/-
  BIP66 — the strict-DER predicate, transcribed from the BIP's reference code
  (`IsValidSignatureEncoding`, bip-0066.mediawiki), independent of the model of /repo/der.

      bool static IsValidSignatureEncoding(const std::vector<unsigned char> &sig) {
          // Format: 0x30 [total-length] 0x02 [R-length] [R] 0x02 [S-length] [S] [sighash]
          if (sig.size() < 9) return false;
          if (sig.size() > 73) return false;
          if (sig[0] != 0x30) return false;
          if (sig[1] != sig.size() - 3) return false;
          unsigned int lenR = sig[3];
          if (5 + lenR >= sig.size()) return false;
          unsigned int lenS = sig[5 + lenR];
          if ((size_t)(lenR + lenS + 7) != sig.size()) return false;
          if (sig[2] != 0x02) return false;
          if (lenR == 0) return false;
          if (sig[4] & 0x80) return false;
          if (lenR > 1 && (sig[4] == 0x00) && !(sig[5] & 0x80)) return false;
          if (sig[lenR + 4] != 0x02) return false;
          if (lenS == 0) return false;
          if (sig[lenR + 6] & 0x80) return false;
          if (lenS > 1 && (sig[lenR + 6] == 0x00) && !(sig[lenR + 7] & 0x80)) return false;
          return true;
      }

  The byte string is the signature *including* the trailing hash-type byte (that is what the
  BIP's function receives; 9..73 counts it).

  `bip66With d` is the transcription with `d` as the value of an out-of-range read. The reference
  code never reads out of range (each read is protected by the tests before it); this is the
  theorem `BtcVerif.Props.C11.bip66_reads_in_range` (proved in Proofs/DER.lean): the result does not
  depend on `d`. `bip66 := bip66With 0`.
  Core Lean only.
-/
import BtcVerif.Model.Basic

namespace BtcVerif.Spec
open BtcVerif

/-- `sig[i]` as an unsigned value; `d` when `i` is out of range -/
def sigAt (d : UInt8) (sig : Bytes) (i : Nat) : Nat := (sig.getD i d).toNat

/-- `IsValidSignatureEncoding`, one conjunct per `if (…) return false;` in source order -/
def bip66With (d : UInt8) (sig : Bytes) : Bool :=
  let size := sig.length
  let sg := sigAt d sig
  let lenR := sg 3
  let lenS := sg (5 + lenR)
  !(size < 9)
  && !(size > 73)
  && !(sg 0 != 0x30)
  && !(sg 1 != size - 3)
  && !(5 + lenR >= size)
  && !(lenR + lenS + 7 != size)
  && !(sg 2 != 0x02)
  && !(lenR == 0)
  && !(sg 4 &&& 0x80 != 0)
  && !(lenR > 1 && sg 4 == 0x00 && !(sg 5 &&& 0x80 != 0))
  && !(sg (lenR + 4) != 0x02)
  && !(lenS == 0)
  && !(sg (lenR + 6) &&& 0x80 != 0)
  && !(lenS > 1 && sg (lenR + 6) == 0x00 && !(sg (lenR + 7) &&& 0x80 != 0))

/-- the BIP66 predicate on a signature followed by its hash-type byte -/
def bip66 (sig : Bytes) : Bool := bip66With 0 sig

end BtcVerif.Spec
