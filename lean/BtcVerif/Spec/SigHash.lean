/-
  Independent specification of the signature hashes, transcribed from Bitcoin Core
  (script/interpreter.cpp: `CTransactionSignatureSerializer`, `SignatureHash`) and BIP143.
  The script code given to `legacyPreimage` is the one with stand-alone OP_CODESEPARATORs already
  removed (`Spec.removeStandalone`, proved equal to the library's stripping in C12).
  Serialisation primitives (compact size, little-endian integers, outpoint, output) are the wire
  format of C01.
-/
import BtcVerif.Model.Tx

namespace BtcVerif.Spec
open BtcVerif BtcVerif.Model

def baseType (ht : Nat) : Nat := ht &&& 0x1f
def isNone (ht : Nat) : Bool := baseType ht == 2
def isSingle (ht : Nat) : Bool := baseType ht == 3
def isACP (ht : Nat) : Bool := ht &&& 0x80 != 0

/-- `SerializeInput(nInput)` of the serializer for the input being signed `nIn` -/
def serInput (sc : Bytes) (ht nIn i : Nat) (vin : TxIn) : Bytes :=
  encPrevOut vin.prev
    ++ (if i = nIn then encVarint sc.length ++ sc else encVarint 0)
    ++ leBytes 4 (if i ≠ nIn ∧ (isSingle ht ∨ isNone ht) then 0 else vin.sequence)

/-- `SerializeOutput(nOutput)`: for SINGLE, outputs before the signed index are `CTxOut()`
    (value −1, empty script) -/
def serOutput (ht nIn i : Nat) (o : TxOut) : Bytes :=
  if isSingle ht ∧ i ≠ nIn then leBytes 8 0xffffffffffffffff ++ encVarint 0 else encTxOut o

/-- the legacy preimage for an in-range input (and, for SINGLE, an in-range output) -/
def legacyPreimage (tx : Tx) (nIn : Nat) (sc : Bytes) (ht : Nat) : Bytes :=
  let ins : List Bytes :=
    if isACP ht then (match tx.inputs[nIn]? with | some vin => [serInput sc ht nIn nIn vin] | none => [])
    else tx.inputs.mapIdx (serInput sc ht nIn)
  let nOut := if isNone ht then 0 else if isSingle ht then nIn + 1 else tx.outputs.length
  let outs : List Bytes := (tx.outputs.take nOut).mapIdx (serOutput ht nIn)
  leBytes 4 tx.version
    ++ encVarint ins.length ++ ins.flatten
    ++ encVarint nOut ++ outs.flatten
    ++ leBytes 4 tx.locktime
    ++ leBytes 4 ht

/-- consensus: SINGLE with no matching output signs the constant one -/
def legacyIsOne (tx : Tx) (nIn : Nat) (ht : Nat) : Bool :=
  isSingle ht && decide (tx.outputs.length ≤ nIn)

/-- BIP143: the ten-field preimage -/
def bip143Preimage (H : Bytes → Bytes) (tx : Tx) (vin : TxIn) (nIn : Nat) (scriptCode : Bytes) (ht : Nat)
    (amount : Nat) : Bytes :=
  let zero : Bytes := List.replicate 32 0
  let hashPrevouts := if !isACP ht then H ((tx.inputs.map fun i => encPrevOut i.prev).flatten) else zero
  let hashSequence := if !isACP ht && !isSingle ht && !isNone ht
    then H ((tx.inputs.map fun i => leBytes 4 i.sequence).flatten) else zero
  let hashOutputs :=
    if !isSingle ht && !isNone ht then H ((tx.outputs.map encTxOut).flatten)
    else if isSingle ht then (match tx.outputs[nIn]? with | some o => H (encTxOut o) | none => zero)
    else zero
  leBytes 4 tx.version ++ hashPrevouts ++ hashSequence ++ encPrevOut vin.prev
    ++ (encVarint scriptCode.length ++ scriptCode) ++ leBytes 8 amount ++ leBytes 4 vin.sequence
    ++ hashOutputs ++ leBytes 4 tx.locktime ++ leBytes 4 ht

end BtcVerif.Spec
