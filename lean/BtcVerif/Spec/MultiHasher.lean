/-
  C20 — specification of the hash helpers and of a chained *streaming* hash.

  Written from the definitions (Bitcoin: HASH256 = SHA256∘SHA256, HASH160 = RIPEMD160∘SHA256;
  BIP340: tagged_hash(tag, m) = SHA256(SHA256(tag) ‖ SHA256(tag) ‖ m)) and from the contract of Go's
  `hash.Hash` interface ("Sum appends the current hash to b and returns the resulting slice. It does
  not change the underlying hash state."; "Reset resets the Hash to its initial state."; "Size
  returns the number of bytes Sum will return."; "BlockSize returns the hash's underlying block
  size."). Independent of the model: the only state is the byte stream written since the last reset,
  every answer is recomputed from it.

  `Op`/`Out` are the vocabulary of operation histories shared with the model.  Core Lean only.
-/
import BtcVerif.Model.Basic

namespace BtcVerif.Spec.MultiHasher
open BtcVerif

/-- one call on a `hash.Hash` -/
inductive Op where
  | write (p : Bytes)       -- Write(p)
  | sum (b : Bytes)         -- Sum(b); Sum(nil) is `sum []`
  | reset                   -- Reset()
  | size                    -- Size()
  | blockSize               -- BlockSize()
  deriving Repr, DecidableEq

/-- what the call returned -/
inductive Out where
  | wrote (n : Nat)         -- Write returned (n, nil)
  | digest (d : Bytes)      -- the slice returned by Sum
  | unit                    -- Reset returns nothing
  | num (n : Nat)           -- Size / BlockSize
  deriving Repr, DecidableEq

/-- a hash algorithm: its function and the two numbers `hash.Hash` reports -/
structure Algo where
  H : Bytes → Bytes
  size : Nat
  blockSize : Nat

/-- `H_k(… H_2(H_1 x))` for the chain `[H_1, …, H_k]` -/
def chain : List (Bytes → Bytes) → Bytes → Bytes
  | [], x => x
  | H :: t, x => chain t (H x)

/-- digest of the chain over a stream -/
def chainDigest (algos : List Algo) (stream : Bytes) : Bytes := chain (algos.map (·.H)) stream

def lastSize : List Algo → Nat
  | [] => 0
  | [a] => a.size
  | _ :: t => lastSize t

def firstBlockSize : List Algo → Nat
  | [] => 0
  | a :: _ => a.blockSize

/-- one operation of the streaming hash over the chain `algos`; the state is the byte stream
    written since the last reset -/
def step (algos : List Algo) (stream : Bytes) : Op → Bytes × Out
  | .write p => (stream ++ p, .wrote p.length)
  | .sum b => (stream, .digest (b ++ chainDigest algos stream))
  | .reset => ([], .unit)
  | .size => (stream, .num (lastSize algos))
  | .blockSize => (stream, .num (firstBlockSize algos))

/-- the outputs of a whole history started with `stream` already written -/
def runFrom (algos : List Algo) (stream : Bytes) : List Op → List Out
  | [] => []
  | op :: ops => (step algos stream op).2 :: runFrom algos (step algos stream op).1 ops

/-- a history on a freshly constructed hasher -/
def run (algos : List Algo) (ops : List Op) : List Out := runFrom algos [] ops

/-- the stream a history leaves behind (bytes written since its last reset) -/
def streamAfter (stream : Bytes) : List Op → Bytes
  | [] => stream
  | .write p :: ops => streamAfter (stream ++ p) ops
  | .reset :: ops => streamAfter [] ops
  | _ :: ops => streamAfter stream ops

/-! ### the helper functions -/

/-- HASH256 -/
def doubleSha256 (sha256 : Bytes → Bytes) (data : Bytes) : Bytes := sha256 (sha256 data)

/-- HASH160 -/
def hash160 (sha256 ripemd160 : Bytes → Bytes) (data : Bytes) : Bytes := ripemd160 (sha256 data)

/-- BIP340 tagged hash of the concatenation of the chunks -/
def taggedHash (sha256 : Bytes → Bytes) (tag : Bytes) (chunks : List Bytes) : Bytes :=
  sha256 (sha256 tag ++ sha256 tag ++ chunks.flatten)

end BtcVerif.Spec.MultiHasher
