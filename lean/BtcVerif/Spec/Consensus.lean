/-
  Independent specifications transcribed from Bitcoin Core (not from the library):
  * `computeMerkleRoot`  — consensus/merkle.cpp `ComputeMerkleRoot`
  * `setCompact`         — arith_uint256.cpp `arith_uint256::SetCompact`, with the library's documented
                           convention that an encoding with the sign bit set denotes zero
-/
import BtcVerif.Model.Basic

namespace BtcVerif.Spec

/-- one level: hash adjacent pairs -/
def hashPairs {α} (H : α → α → α) : List α → List α
  | a :: b :: rest => H a b :: hashPairs H rest
  | _ => []

/-- `if (hashes.size() & 1) hashes.push_back(hashes.back())` -/
def dupLastIfOdd {α} (hs : List α) : List α :=
  if hs.length % 2 = 1 then
    match hs.getLast? with
    | some l => hs ++ [l]
    | none => hs
  else hs

/-- `while (hashes.size() > 1) { dup-last-if-odd; hash pairs }  return hashes[0]`;
    `fuel` bounds the number of levels (any fuel ≥ length works); `none` only for the empty list. -/
def computeMerkleRoot {α} (H : α → α → α) : Nat → List α → Option α
  | _, [] => none
  | _, [a] => some a
  | 0, _ => none
  | fuel+1, hs => computeMerkleRoot H fuel (hashPairs H (dupLastIfOdd hs))

/-- `SetCompact`: `nSize = n >> 24`, `nWord = n & 0x007fffff`;
    `nSize <= 3 ? nWord >> 8*(3-nSize) : nWord << 8*(nSize-3)`; sign bit ⇒ 0 (library convention) -/
def setCompact (n : Nat) : Nat :=
  let size := n >>> 24
  let word := n &&& 0x007fffff
  if n &&& 0x00800000 ≠ 0 then 0
  else if size ≤ 3 then word >>> (8 * (3 - size))
  else word <<< (8 * (size - 3))

end BtcVerif.Spec
