/-
  Reference definitions for C12, transcribed from the Bitcoin script format (Bitcoin Core
  `script/script.h`: `CScript::operator<<`, `CScriptNum::serialize`, `CScript::push_int64`,
  `GetScriptOp`, `GetScriptForMultisig`, and the standard output templates), written independently
  of `Model/Script.lean`: no parser combinators, no regenerated guards or constants — literal
  opcode values and explicit `take`/`drop` arithmetic.  Core Lean only.
-/
import BtcVerif.Model.Basic   -- only for `Bytes := List UInt8`

namespace BtcVerif.Spec.Script

/-! ### pushes -/

/-- `CScript::operator<<(const std::vector<unsigned char>&)`: the smallest push form for the size.
    Meaningful for `d.length < 2^32`. -/
def push (d : Bytes) : Bytes :=
  let n := d.length
  if n < 0x4c then UInt8.ofNat n :: d
  else if n ≤ 0xff then 0x4c :: UInt8.ofNat n :: d
  else if n ≤ 0xffff then 0x4d :: UInt8.ofNat (n % 256) :: UInt8.ofNat (n / 256) :: d
  else 0x4e :: UInt8.ofNat (n % 256) :: UInt8.ofNat (n / 256 % 256) ::
         UInt8.ofNat (n / 65536 % 256) :: UInt8.ofNat (n / 16777216 % 256) :: d

/-- An element of a script as `GetScriptOp` sees it: a plain opcode, or a push with the push opcode
    actually used (direct `01..4b`, `4c` PUSHDATA1, `4d` PUSHDATA2, `4e` PUSHDATA4) and its data. -/
inductive Item where
  | op (b : UInt8)
  | push (opcode : UInt8) (d : Bytes)
  deriving Repr, DecidableEq, Inhabited

/-- number of length bytes after push opcode `b` (for `1 ≤ b ≤ 0x4e`) -/
def lenWidth (b : UInt8) : Nat :=
  if b.toNat ≤ 0x4b then 0 else if b.toNat = 0x4c then 1 else if b.toNat = 0x4d then 2 else 4

/-- little-endian bytes, written out -/
def lenField : Nat → Nat → Bytes
  | 0, _ => []
  | w + 1, n => UInt8.ofNat (n % 256) :: lenField w (n / 256)

/-- An item is well formed when it is a non-push opcode (`00` or above `4e`), or a push whose
    opcode can express the data length: direct pushes have exactly `b` bytes, PUSHDATAn has a
    length below `256^n`. -/
def Item.valid : Item → Bool
  | .op b => b.toNat = 0 || b.toNat > 0x4e
  | .push b d =>
    1 ≤ b.toNat && b.toNat ≤ 0x4e &&
      (if b.toNat ≤ 0x4b then d.length = b.toNat else d.length < 256 ^ lenWidth b)

/-- the bytes of one item -/
def Item.bytes : Item → Bytes
  | .op b => [b]
  | .push b d => b :: (lenField (lenWidth b) d.length ++ d)

/-- a script is the concatenation of its items -/
def serialize (items : List Item) : Bytes := (items.map Item.bytes).flatten

/-- value of the `w`-byte little-endian length field at the head of `s` -/
def lenValue : Nat → Bytes → Nat
  | 0, _ => 0
  | _ + 1, [] => 0
  | w + 1, b :: s => b.toNat + 256 * lenValue w s

/-- `GetScriptOp` applied repeatedly: the item list of a script, `none` when a push runs past the
    end of the script (length field or data incomplete). -/
def parse (s : Bytes) : Option (List Item) :=
  match s with
  | [] => some []
  | b :: rest =>
    if 1 ≤ b.toNat ∧ b.toNat ≤ 0x4e then
      let w := lenWidth b
      if w ≤ rest.length then
        let n := if w = 0 then b.toNat else lenValue w rest
        if w + n ≤ rest.length then
          match parse (rest.drop (w + n)) with
          | some items => some (Item.push b ((rest.drop w).take n) :: items)
          | none => none
        else none
      else none
    else
      match parse rest with
      | some items => some (Item.op b :: items)
      | none => none
termination_by s.length
decreasing_by
  all_goals simp only [List.length_cons, List.length_drop]
  all_goals omega

/-- What consensus hashes in place of the script code (`SerializeScriptCode` in Bitcoin Core's
    legacy signature serializer, used for OP_CODESEPARATOR): every stand-alone occurrence of opcode
    `op` is dropped, every push is copied byte for byte, and — as in Core — when a push runs past
    the end the remaining bytes are copied unchanged. -/
def removeStandalone (s : Bytes) (op : UInt8) : Bytes :=
  match s with
  | [] => []
  | b :: rest =>
    if 1 ≤ b.toNat ∧ b.toNat ≤ 0x4e then
      let w := lenWidth b
      if w ≤ rest.length then
        let n := if w = 0 then b.toNat else lenValue w rest
        if w + n ≤ rest.length then
          b :: (rest.take (w + n) ++ removeStandalone (rest.drop (w + n)) op)
        else b :: rest
      else b :: rest
    else if b = op then removeStandalone rest op
    else b :: removeStandalone rest op
termination_by s.length
decreasing_by
  all_goals simp only [List.length_cons, List.length_drop]
  all_goals omega

/-! ### script numbers -/

/-- `while (absvalue) { result.push_back(absvalue & 0xff); absvalue >>= 8; }` -/
def magnitudeBytes (m : Nat) : Bytes :=
  if m = 0 then [] else UInt8.ofNat (m % 256) :: magnitudeBytes (m / 256)
termination_by m
decreasing_by omega

/-- `CScriptNum::serialize`: minimal little-endian sign-magnitude; zero is the empty string. -/
def scriptNumBytes (n : Int) : Bytes :=
  if n = 0 then []
  else
    let bs := magnitudeBytes n.natAbs
    match bs.getLast? with
    | none => []
    | some last =>
      if last.toNat ≥ 0x80 then bs ++ [if n < 0 then 0x80 else 0x00]
      else if n < 0 then bs.dropLast ++ [UInt8.ofNat (last.toNat + 0x80)]
      else bs

/-- `CScriptNum::set_vch`: the integer a byte string denotes (sign bit = top bit of last byte). -/
def scriptNumValue (bs : Bytes) : Int :=
  let rec le : Bytes → Nat
    | [] => 0
    | b :: r => b.toNat + 256 * le r
  match bs.getLast? with
  | none => 0
  | some last =>
    if last.toNat ≥ 0x80 then - ((le bs : Int) - (0x80 : Int) * (256 : Int) ^ (bs.length - 1))
    else (le bs : Int)

/-- `CScript::push_int64`: OP_1NEGATE, OP_0, OP_1..OP_16 for the small values, otherwise a push
    of the serialised number. -/
def scriptNum (n : Int) : Bytes :=
  if n = -1 then [0x4f]
  else if n = 0 then [0x00]
  else if 1 ≤ n ∧ n ≤ 16 then [UInt8.ofNat (0x50 + n.toNat)]
  else push (scriptNumBytes n)

/-! ### templates -/

/-- `OP_DUP OP_HASH160 <20> OP_EQUALVERIFY OP_CHECKSIG` -/
def p2pkh (h : Bytes) : Bytes := [0x76, 0xa9, 0x14] ++ h ++ [0x88, 0xac]
/-- `OP_HASH160 <20> OP_EQUAL` -/
def p2sh (h : Bytes) : Bytes := [0xa9, 0x14] ++ h ++ [0x87]
/-- `OP_0 <20>` -/
def p2wpkh (h : Bytes) : Bytes := [0x00, 0x14] ++ h
/-- `OP_0 <32>` -/
def p2wsh (h : Bytes) : Bytes := [0x00, 0x20] ++ h

/-- `GetScriptForMultisig`: `m <key>… n OP_CHECKMULTISIG` -/
def multisig (m : Nat) (keys : List Bytes) : Bytes :=
  scriptNum m ++ (keys.map push).flatten ++ scriptNum keys.length ++ [0xae]

/-- `OP_RETURN <payload>` -/
def opReturn (payload : Bytes) : Bytes := 0x6a :: push payload

end BtcVerif.Spec.Script

namespace BtcVerif.Spec
export Script (removeStandalone scriptNum)
end BtcVerif.Spec
