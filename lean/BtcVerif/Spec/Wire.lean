/-
  C01 reference: Bitcoin's canonical wire format as a *grammar* — relations between a value and the
  byte strings that denote it, written from the protocol documentation (compact size, outpoint,
  txin, txout, BIP144 witness placement, block header, block) and sharing nothing with the encoder
  or the decoder of Model/Tx.lean: no `leBytes`, no `encVarint`, no regenerated guard, no limit of
  the library. Integers are described positionally (`LE`), compact sizes by their four ranges,
  vectors as a compact-size count followed by the concatenation of the elements.

  `Proofs/WireSpec.lean` shows that the modelled encoder produces exactly the strings of this
  grammar, hence (by the round-trip theorems) that the modelled decoder returns the fields the
  grammar assigns to a canonical string — the "independent reference parser" of C01 in relational
  form — and that the grammar is unambiguous.
-/
import BtcVerif.Model.Block

namespace BtcVerif.Spec.Wire
open BtcVerif BtcVerif.Model

/-- `LE k n bs`: `bs` is the `k`-byte little-endian representation of `n` -/
inductive LE : Nat → Nat → Bytes → Prop
  | zero : LE 0 0 []
  | succ {k n : Nat} {bs : Bytes} (b : UInt8) : LE k n bs → LE (k + 1) (b.toNat + 256 * n) (b :: bs)

/-- Bitcoin's compact size ("CompactSize unsigned integer"), minimal encodings only -/
inductive CompactSize : Nat → Bytes → Prop
  | u8 {v : Nat} {b : UInt8} : v < 0xfd → b.toNat = v → CompactSize v [b]
  | u16 {v : Nat} {bs : Bytes} : 0xfd ≤ v → v ≤ 0xffff → LE 2 v bs → CompactSize v (0xfd :: bs)
  | u32 {v : Nat} {bs : Bytes} : 0x10000 ≤ v → v ≤ 0xffffffff → LE 4 v bs → CompactSize v (0xfe :: bs)
  | u64 {v : Nat} {bs : Bytes} : 0x100000000 ≤ v → LE 8 v bs → CompactSize v (0xff :: bs)

/-- a byte vector: compact-size length, then the bytes -/
def VarBytes (s : Bytes) (bs : Bytes) : Prop :=
  ∃ l, CompactSize s.length l ∧ bs = l ++ s

/-- the concatenation of the encodings of the elements, in order -/
inductive Concat {α : Type} (R : α → Bytes → Prop) : List α → Bytes → Prop
  | nil : Concat R [] []
  | cons {x : α} {xs : List α} {a b : Bytes} : R x a → Concat R xs b → Concat R (x :: xs) (a ++ b)

/-- a vector: compact-size count, then the elements -/
def Vector {α : Type} (R : α → Bytes → Prop) (xs : List α) (bs : Bytes) : Prop :=
  ∃ l body, CompactSize xs.length l ∧ Concat R xs body ∧ bs = l ++ body

/-- outpoint: 32-byte hash, 4-byte index -/
def IsOutPoint (p : PrevOut) (bs : Bytes) : Prop :=
  p.hash.length = 32 ∧ ∃ i, LE 4 p.index i ∧ bs = p.hash ++ i

/-- txin: outpoint, script, sequence -/
def IsTxIn (i : TxIn) (bs : Bytes) : Prop :=
  ∃ a b c, IsOutPoint i.prev a ∧ VarBytes i.script b ∧ LE 4 i.sequence c ∧ bs = a ++ b ++ c

/-- txout: 8-byte value, script -/
def IsTxOut (o : TxOut) (bs : Bytes) : Prop :=
  ∃ a b, LE 8 o.value a ∧ VarBytes o.script b ∧ bs = a ++ b

/-- a witness stack: vector of byte vectors -/
def IsWitnessStack (w : Witness) (bs : Bytes) : Prop := Vector VarBytes w bs

/-- transaction: the legacy layout when there are no witnesses; the BIP144 layout (marker 00,
    flag 01, one witness stack per input between the outputs and the lock time) when there are -/
def IsTx (tx : Tx) (bs : Bytes) : Prop :=
  ∃ v ins outs lock,
    LE 4 tx.version v ∧ Vector IsTxIn tx.inputs ins ∧ Vector IsTxOut tx.outputs outs ∧
    LE 4 tx.locktime lock ∧
    match tx.witnesses with
    | none => bs = v ++ ins ++ outs ++ lock
    | some ws => ws.length = tx.inputs.length ∧
        ∃ w, Concat IsWitnessStack ws w ∧ bs = v ++ [0x00, 0x01] ++ ins ++ outs ++ w ++ lock

/-- the witness-stripped ("no-witness") layout of any transaction -/
def IsTxStripped (tx : Tx) (bs : Bytes) : Prop := IsTx { tx with witnesses := none } bs

/-- 80-byte block header. `Header` keeps the two hashes in display (reversed) order, the wire
    carries them in internal order. -/
def IsHeader (h : Header) (bs : Bytes) : Prop :=
  h.prev.length = 32 ∧ h.merkle.length = 32 ∧
  ∃ v t b n, LE 4 h.version v ∧ LE 4 h.time t ∧ LE 4 h.nbits b ∧ LE 4 h.nonce n ∧
    bs = v ++ h.prev.reverse ++ h.merkle.reverse ++ t ++ b ++ n

/-- block: header, then the vector of transactions -/
def IsBlock (b : Block) (bs : Bytes) : Prop :=
  ∃ h txs, IsHeader b.header h ∧ Vector IsTx b.txs txs ∧ bs = h ++ txs

end BtcVerif.Spec.Wire
