/- Hand-written prelude of the generated modules: Go's integer conversions. -/
namespace BtcVerif.Gen

/-- conversion to an unsigned type of `m = 2^w` values -/
def wrapU (m : Nat) (x : Int) : Nat := (x % (m : Int)).toNat

/-- conversion to a signed type of `m = 2^w` values (two's complement) -/
def wrapS (m : Nat) (x : Int) : Int :=
  let r := x % (m : Int)
  if 2 * r < (m : Int) then r else r - (m : Int)

theorem wrapS_of_small (m : Nat) (x : Int) (h0 : 0 ≤ x) (h1 : 2 * x < m) : wrapS m x = x := by
  unfold wrapS
  have : x % (m : Int) = x := Int.emod_eq_of_lt h0 (by omega)
  simp [this, h1]

end BtcVerif.Gen
