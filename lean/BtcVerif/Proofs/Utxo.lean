/-
  C15 — lemmas about the UTXO state machine (`Model/Utxo.lean`) and its refinement of the reference
  (`Spec/Utxo.lean`).
-/
import BtcVerif.Model.Utxo
import BtcVerif.Spec.Utxo

namespace BtcVerif.Proofs.Utxo
open BtcVerif BtcVerif.Model BtcVerif.Model.Utxo
open BtcVerif.Gen.Guards

/-! ### association lists -/

def keys (l : List Entry) : List PrevOut := l.map Prod.fst

@[simp] theorem keys_nil : keys [] = [] := rfl
@[simp] theorem keys_cons (e : Entry) (l : List Entry) : keys (e :: l) = e.1 :: keys l := rfl

theorem lookup_erase (k k' : PrevOut) (l : List Entry) :
    lookup k (erase k' l) = if k = k' then none else lookup k l := by
  induction l with
  | nil => simp [erase, lookup]
  | cons e rest ih =>
    unfold erase
    by_cases h1 : e.1 = k'
    · simp only [h1, if_true, ih, lookup]
      by_cases h2 : k = k'
      · simp [h2]
      · have : ¬ k' = k := fun h => h2 h.symm
        simp [h2, this]
    · simp only [h1, if_false, lookup, ih]
      by_cases h2 : k = k'
      · subst h2; simp [h1]
      · simp [h2]

theorem lookup_insert (k k' : PrevOut) (v : TxOut) (l : List Entry) :
    lookup k (store k' v l) = if k = k' then some v else lookup k l := by
  unfold store
  simp only [lookup, lookup_erase]
  by_cases h : k = k'
  · subst h; simp
  · have : ¬ k' = k := fun h' => h h'.symm
    simp [h, this]

theorem mem_keys_erase {k k' : PrevOut} {l : List Entry} (h : k ∈ keys (erase k' l)) :
    k ∈ keys l ∧ k ≠ k' := by
  induction l with
  | nil => simp [erase] at h
  | cons e rest ih =>
    unfold erase at h
    by_cases h1 : e.1 = k'
    · simp only [h1, if_true] at h
      have := ih h
      exact ⟨by simp [this.1], this.2⟩
    · simp only [h1, if_false, keys_cons, List.mem_cons] at h
      rcases h with h | h
      · subst h; exact ⟨by simp, h1⟩
      · have := ih h
        exact ⟨by simp [this.1], this.2⟩

theorem nodup_erase {l : List Entry} (k : PrevOut) (h : (keys l).Nodup) : (keys (erase k l)).Nodup := by
  induction l with
  | nil => simp [erase]
  | cons e rest ih =>
    simp only [keys_cons, List.nodup_cons] at h
    unfold erase
    by_cases h1 : e.1 = k
    · simp only [h1, if_true]; exact ih h.2
    · simp only [h1, if_false, keys_cons, List.nodup_cons]
      exact ⟨fun hm => h.1 (mem_keys_erase hm).1, ih h.2⟩

theorem nodup_insert {l : List Entry} (k : PrevOut) (v : TxOut) (h : (keys l).Nodup) :
    (keys (store k v l)).Nodup := by
  unfold store
  simp only [keys_cons, List.nodup_cons]
  exact ⟨fun hm => (mem_keys_erase hm).2 rfl, nodup_erase k h⟩

theorem lookup_isSome_iff (k : PrevOut) (l : List Entry) : (lookup k l).isSome ↔ k ∈ keys l := by
  induction l with
  | nil => simp [lookup]
  | cons e rest ih =>
    unfold lookup
    by_cases h : e.1 = k
    · simp [h]
    · have : ¬ k = e.1 := fun h' => h h'.symm
      simp [h, ih, this]

theorem lookup_eq_some_iff {l : List Entry} (h : (keys l).Nodup) (k : PrevOut) (v : TxOut) :
    lookup k l = some v ↔ (k, v) ∈ l := by
  induction l with
  | nil => simp [lookup]
  | cons e rest ih =>
    simp only [keys_cons, List.nodup_cons] at h
    unfold lookup
    by_cases h1 : e.1 = k
    · simp only [h1, if_true, List.mem_cons]
      constructor
      · intro hv; injection hv with hv; left; subst hv; subst h1; rfl
      · rintro (hv | hv)
        · rw [← hv]
        · exfalso; apply h.1; rw [h1]
          exact List.mem_map.mpr ⟨(k, v), hv, rfl⟩
    · simp only [h1, if_false, List.mem_cons, ih h.2]
      constructor
      · exact Or.inr
      · rintro (hv | hv)
        · exfalso; apply h1; rw [← hv]
        · exact hv

/-! ### abstraction to the reference's partial function -/

/-- the partial function a state stands for -/
def abs (s : State) : Spec.Utxo.USet := fun k => lookup k (entries s)

theorem abs_none : abs none = Spec.Utxo.empty := rfl

/-! ### every operation keeps the keys distinct -/

theorem addOutput_some (s : State) (k : PrevOut) (v : TxOut) :
    addOutput s (some k) v = (some (store k v (entries s)), .unit) := by
  cases s <;> simp [addOutput, unspent_OutputSet_AddOutput_0, entries]

theorem addOutput_none (s : State) (v : TxOut) :
    addOutput s none v = (some (entries s), .panic) := by
  cases s <;> simp [addOutput, unspent_OutputSet_AddOutput_0, entries]

theorem distinct_addOutput {s : State} (o : Option PrevOut) (v : TxOut) (h : Distinct s) :
    Distinct (addOutput s o v).1 := by
  cases o with
  | none => rw [addOutput_none]; exact h
  | some k => rw [addOutput_some]; exact nodup_insert k v h

theorem distinct_removeByOutpoint {s : State} (o : Option PrevOut) (h : Distinct s) : Distinct (removeByOutpoint s o).1 := by
  unfold removeByOutpoint
  cases s with
  | none => simpa [unspent_OutputSet_RemoveByOutpoint_0] using h
  | some l =>
    cases o with
    | none => simpa [unspent_OutputSet_RemoveByOutpoint_0] using h
    | some k =>
      simp only [unspent_OutputSet_RemoveByOutpoint_0, Option.isNone_some, Bool.not_false, if_true]
      exact nodup_erase k h


theorem removeByOutpoint_some (s : State) (k : PrevOut) :
    removeByOutpoint s (some k) = (s.map (erase k), .unit) := by
  cases s <;> simp [removeByOutpoint, unspent_OutputSet_RemoveByOutpoint_0, entries]

theorem entries_map_erase (s : State) (k : PrevOut) : entries (s.map (erase k)) = erase k (entries s) := by
  cases s <;> simp [entries, erase]

theorem removeByHash_eq (s : State) (h : Bytes) (i : Nat) :
    removeByHash s h i = (s.map (erase ⟨h, i⟩), .unit) := by
  cases s <;> simp [removeByHash, removeByOutpoint, unspent_OutputSet_RemoveByHash_0,
    unspent_OutputSet_RemoveByOutpoint_0, entries]

theorem abs_addOutput (s : State) (k : PrevOut) (v : TxOut) :
    abs (addOutput s (some k) v).1 = Spec.Utxo.put (abs s) k v := by
  funext k'
  simp [addOutput_some, abs, entries, lookup_insert, Spec.Utxo.put]

theorem abs_erase (s : State) (k : PrevOut) : abs (s.map (erase k)) = Spec.Utxo.del (abs s) k := by
  funext k'
  simp [abs, entries_map_erase, lookup_erase, Spec.Utxo.del]

/-! ### txid strings -/

theorem fromHexChar_eq (c : UInt8) : fromHexChar c = Spec.Utxo.hexDigitVal c := rfl

theorem hexDecode_eq_unhex (bs : Bytes) : hexDecode bs = Spec.Utxo.unhex bs := by
  fun_induction hexDecode bs with
  | case1 => rfl
  | case2 => rfl
  | case3 a b rest x y tl htl hy hx ih =>
    simp [Spec.Utxo.unhex, ← fromHexChar_eq, hx, hy, ← ih, htl]
  | case4 a b rest hne ih =>
    simp only [Spec.Utxo.unhex, ← fromHexChar_eq, ← ih]
    cases h1 : fromHexChar a <;> cases h2 : fromHexChar b <;> cases h3 : hexDecode rest <;> simp
    exact hne _ _ _ h1 h2 h3

theorem hexDecode_length {bs b : Bytes} (h : hexDecode bs = some b) : bs.length = 2 * b.length := by
  fun_induction hexDecode bs generalizing b with
  | case1 => simp at h; subst h; rfl
  | case2 => cases h
  | case3 a c rest x y tl htl hy hx ih =>
    simp only [Option.some.injEq] at h
    subst h
    have := ih htl
    simp only [List.length_cons]; omega
  | case4 a c rest hne ih =>
    cases h1 : fromHexChar a <;> cases h2 : fromHexChar c <;> cases h3 : hexDecode rest <;> simp_all

theorem copy32_of_length {b : Bytes} (h : b.length = 32) : copy32 b = b := by
  unfold copy32
  rw [List.take_append_of_le_length (by omega)]
  exact List.take_of_length_le (by omega)

/-- what a txid string names, in the model's terms -/
theorem txidHash_eq (txid : Bytes) :
    Spec.Utxo.txidHash txid =
      if txid.length = 64 then (hexDecode txid).map fun b => (copy32 b).reverse else none := by
  unfold Spec.Utxo.txidHash
  split
  · rename_i hl
    rw [← hexDecode_eq_unhex]
    cases h : hexDecode txid with
    | none => rfl
    | some b =>
      have := hexDecode_length h
      simp [copy32_of_length (b := b) (by omega)]
  · rfl

theorem removeByTxid_eq (s : State) (txid : Bytes) (i : Nat) :
    removeByTxid s txid i =
      (match Spec.Utxo.txidHash txid with
        | some h => s.map (erase ⟨h, i⟩)
        | none => s, .unit) := by
  rw [txidHash_eq]
  unfold removeByTxid
  by_cases hl : txid.length = 64
  · simp only [unspent_OutputSet_RemoveByTxid_0, hl, unspent_OutputSet_RemoveByTxid_1]
    cases s with
    | none => cases hexDecode txid <;> simp
    | some l => cases hexDecode txid <;> simp [removeByOutpoint_some]
  · have : ((txid.length : Int) ≠ 64) := by omega
    simp [unspent_OutputSet_RemoveByTxid_0, hl, this]

theorem size_eq_zero_lookup {s : State} (h : size s = 0) (k : PrevOut) : lookup k (entries s) = none := by
  unfold size at h
  have : entries s = [] := List.eq_nil_of_length_eq_zero h
  rw [this]; rfl

theorem getByOutpoint_some (s : State) (k : PrevOut) :
    getByOutpoint s (some k) = .found ((lookup k (entries s)).map fun v => (k, v)) := by
  unfold getByOutpoint
  simp only [unspent_OutputSet_GetByOutpoint_0, Option.isNone_some, Bool.false_or,
    unspent_OutputSet_GetByOutpoint_1]
  by_cases h0 : size s = 0
  · simp [h0, size_eq_zero_lookup h0 k]
  · have : ¬ ((size s : Int) = 0) := by omega
    simp only [this, decide_false, Bool.false_eq_true, if_false]
    cases lookup k (entries s) <;> simp

theorem getByTxid_eq (s : State) (txid : Bytes) (i : Nat) :
    getByTxid s txid i = .found (match Spec.Utxo.txidHash txid with
      | some h => (lookup ⟨h, i⟩ (entries s)).map fun v => (⟨h, i⟩, v)
      | none => none) := by
  rw [txidHash_eq]
  unfold getByTxid
  simp only [unspent_OutputSet_GetByTxid_0]
  by_cases hl : txid.length = 64
  · by_cases h0 : size s = 0
    · simp only [hl, h0]
      cases hexDecode txid <;> simp [size_eq_zero_lookup h0]
    · have : ¬ ((size s : Int) = 0) := by omega
      simp only [hl, this]
      cases hexDecode txid <;> simp [getByOutpoint_some]
  · have : ((txid.length : Int) ≠ 64) := by omega
    simp [hl, this]


/-! ### Size, Slice -/

theorem hasSize_size {s : State} (h : Distinct s) : Spec.Utxo.HasSize (abs s) (size s) :=
  ⟨keys (entries s), h, fun k => by simp [abs, lookup_isSome_iff], by simp [size, keys]⟩

theorem keyNat_eq (k : PrevOut) : keyNat k = Spec.Utxo.keyNat k := rfl

theorem lists_slice {s : State} (h : Distinct s) : Spec.Utxo.Lists (abs s) (slice s) := by
  have hp : (slice s).Perm (entries s) := List.mergeSort_perm _ _
  refine ⟨fun k v => ?_, ?_, ?_⟩
  · rw [hp.mem_iff]; exact (lookup_eq_some_iff h k v).symm
  · exact (hp.map Prod.fst).nodup_iff.mpr h
  · have := List.pairwise_mergeSort (le := entryLe)
      (fun a b c hab hbc => by simp only [entryLe, decide_eq_true_eq] at *; omega)
      (fun a b => by simp only [entryLe, Bool.or_eq_true, decide_eq_true_eq]; omega) (entries s)
    refine this.imp ?_
    intro a b hab
    have h2 : keyNat a.1 ≤ keyNat b.1 := by simpa [entryLe] using hab
    exact h2

/-! ### NewOutputSet, Clone -/

theorem foldl_put_apply {l : List Entry} (h : (keys l).Nodup) (σ : Spec.Utxo.USet) (k : PrevOut) :
    (l.foldl (fun σ e => Spec.Utxo.put σ e.1 e.2) σ) k =
      match lookup k l with
      | some v => some v
      | none => σ k := by
  induction l generalizing σ with
  | nil => rfl
  | cons e rest ih =>
    simp only [keys_cons, List.nodup_cons] at h
    simp only [List.foldl_cons, ih h.2, lookup]
    by_cases h1 : e.1 = k
    · have : lookup k rest = none := by
        cases hl : lookup k rest with
        | none => rfl
        | some v =>
          exfalso; apply h.1; rw [h1]
          exact (lookup_isSome_iff k rest).mp (by simp [hl])
      simp [this, h1, Spec.Utxo.put]
    · have : ¬ k = e.1 := fun h' => h1 h'.symm
      simp [h1, Spec.Utxo.put, this]

theorem abs_foldl_add (l : List Entry) (s : State) :
    abs (l.foldl (fun acc e => (addOutput acc (some e.1) e.2).1) s) =
      l.foldl (fun σ e => Spec.Utxo.put σ e.1 e.2) (abs s) := by
  induction l generalizing s with
  | nil => rfl
  | cons e rest ih => simp only [List.foldl_cons, ih, abs_addOutput]

theorem abs_clone {s : State} (h : Distinct s) : abs (clone s) = abs s := by
  funext k
  unfold clone
  rw [abs_foldl_add, foldl_put_apply h]
  show (match lookup k (entries s) with | some v => some v | none => abs none k) = lookup k (entries s)
  cases hl : lookup k (entries s) <;> simp [abs, entries, lookup]

theorem distinct_foldl_add (l : List Entry) {s : State} (h : Distinct s) :
    Distinct (l.foldl (fun acc e => (addOutput acc (some e.1) e.2).1) s) := by
  induction l generalizing s with
  | nil => exact h
  | cons e rest ih => exact ih (distinct_addOutput _ _ h)

theorem distinct_clone {s : State} : Distinct (clone s) :=
  distinct_foldl_add _ (s := none) (by simp [Distinct, entries])

theorem newOutputSet_foldl (outs : List (Option PrevOut × TxOut)) (acc : State × Out) (h : Distinct acc.1) :
    Distinct (outs.foldl (fun acc o => match acc.2 with
      | .unit => addOutput acc.1 o.1 o.2
      | _ => acc) acc).1 := by
  induction outs generalizing acc with
  | nil => exact h
  | cons o rest ih =>
    simp only [List.foldl_cons]
    apply ih
    split
    · exact distinct_addOutput _ _ h
    · exact h

theorem distinct_newOutputSet (outs : List (Option PrevOut × TxOut)) : Distinct (newOutputSet outs).1 :=
  newOutputSet_foldl outs (none, .unit) (by simp [Distinct, entries])

theorem newOutputSet_some_aux (outs : List Entry) (s : State) :
    (outs.map fun e => (some e.1, e.2)).foldl (fun (acc : State × Out) o => match acc.2 with
      | .unit => addOutput acc.1 o.1 o.2
      | _ => acc) (s, .unit)
    = (outs.foldl (fun acc e => (addOutput acc (some e.1) e.2).1) s, .unit) := by
  induction outs generalizing s with
  | nil => rfl
  | cons e rest ih =>
    simp only [List.map_cons, List.foldl_cons]
    rw [addOutput_some]
    exact ih _

/-- `NewOutputSet` of non-nil outputs -/
theorem newOutputSet_some (outs : List Entry) :
    newOutputSet (outs.map fun e => (some e.1, e.2)) =
      (outs.foldl (fun acc e => (addOutput acc (some e.1) e.2).1) none, .unit) :=
  newOutputSet_some_aux outs none

theorem abs_newOutputSet (outs : List Entry) :
    abs (newOutputSet (outs.map fun e => (some e.1, e.2))).1 = Spec.Utxo.ofList outs := by
  rw [newOutputSet_some, abs_foldl_add]; rfl


/-! ### UpdateFromBlock: one transaction -/

theorem spendAll_eq (s : State) (ins : List TxIn) :
    spendAll s ins = ins.foldl (fun acc i => acc.map (erase i.prev)) s := by
  unfold spendAll
  induction ins generalizing s with
  | nil => rfl
  | cons i rest ih => simp only [List.foldl_cons, removeByOutpoint_some, ih]

theorem abs_spendAll (s : State) (ins : List TxIn) (k : PrevOut) :
    abs (spendAll s ins) k = if (∃ i ∈ ins, i.prev = k) then none else abs s k := by
  rw [spendAll_eq]
  induction ins generalizing s with
  | nil => simp
  | cons i rest ih =>
    simp only [List.foldl_cons, ih, abs_erase, Spec.Utxo.del, List.mem_cons, exists_eq_or_imp]
    by_cases h1 : ∃ i ∈ rest, i.prev = k
    · simp [h1]
    · by_cases h2 : i.prev = k
      · simp [h2]
      · have : ¬ k = i.prev := fun h => h2 h.symm
        simp [h1, h2, this]

theorem distinct_map_erase {s : State} (k : PrevOut) (h : Distinct s) : Distinct (s.map (erase k)) := by
  unfold Distinct; rw [entries_map_erase]; exact nodup_erase k h

theorem distinct_spendAll {s : State} (ins : List TxIn) (h : Distinct s) : Distinct (spendAll s ins) := by
  rw [spendAll_eq]
  induction ins generalizing s with
  | nil => exact h
  | cons i rest ih => exact ih (distinct_map_erase _ h)

theorem distinct_addMatching (h : Option Bytes) (idx : Nat) (o : TxOut) (W : List Bytes) {s : State}
    (hs : Distinct s) : Distinct (addMatching h idx o W s).1 := by
  induction W generalizing s with
  | nil => exact hs
  | cons spk rest ih =>
    unfold addMatching
    split
    · cases h with
      | none => exact hs
      | some hash => exact ih (distinct_addOutput _ _ hs)
    · exact ih hs

theorem distinct_addOutputs (h : Option Bytes) (W : List Bytes) (idx : Nat) (os : List TxOut) {s : State}
    (hs : Distinct s) : Distinct (addOutputs h W idx os s).1 := by
  induction os generalizing idx s with
  | nil => exact hs
  | cons o rest ih =>
    unfold addOutputs
    have := distinct_addMatching h idx o W hs
    split
    · rename_i s' heq; rw [heq] at this; exact ih _ this
    · rename_i s' heq; rw [heq] at this; exact this

theorem distinct_applyTx (txidOf : Tx → Option Bytes) (W : List Bytes) {s : State} (t : Tx)
    (hs : Distinct s) : Distinct (applyTx txidOf W s t).1 :=
  distinct_addOutputs _ _ _ _ (distinct_spendAll _ hs)

theorem distinct_applyTxs (txidOf : Tx → Option Bytes) (W : List Bytes) (txs : List Tx) {s : State}
    (hs : Distinct s) : Distinct (applyTxs txidOf W txs s).1 := by
  induction txs generalizing s with
  | nil => exact hs
  | cons t rest ih =>
    unfold applyTxs
    have := distinct_applyTx txidOf W t hs
    split
    · rename_i s' heq; rw [heq] at this; exact ih this
    · rename_i s' heq; rw [heq] at this; exact this

theorem txOut_eta (o : TxOut) : (⟨o.value, o.script⟩ : TxOut) = o := by cases o; rfl

/-- the loop over the watched scripts for one output -/
theorem addMatching_spec (hash : Bytes) (idx : Nat) (hidx : idx < 4294967296) (o : TxOut) (W : List Bytes)
    (s : State) (k : PrevOut) :
    (addMatching (some hash) idx o W s).2 = true ∧
    abs (addMatching (some hash) idx o W s).1 k =
      if k = ⟨hash, idx⟩ ∧ o.script ∈ W then some o else abs s k := by
  induction W generalizing s with
  | nil => simp [addMatching]
  | cons spk rest ih =>
    unfold addMatching
    simp only [unspent_OutputSet_UpdateFromBlock_0, decide_eq_true_eq]
    by_cases hm : o.script = spk
    · simp only [hm, if_true]
      obtain ⟨h1, h2⟩ := ih (addOutput s (some ⟨hash, idx % 4294967296⟩) ⟨o.value, spk⟩).1
      refine ⟨h1, ?_⟩
      rw [h2, abs_addOutput, Nat.mod_eq_of_lt hidx, ← hm, txOut_eta]
      by_cases hk : k = ⟨hash, idx⟩
      · simp [hk, Spec.Utxo.put]
      · simp [hk, Spec.Utxo.put]
    · simp only [hm, if_false]
      obtain ⟨h1, h2⟩ := ih s
      refine ⟨h1, ?_⟩
      rw [h2]
      have : (o.script ∈ spk :: rest) ↔ o.script ∈ rest := by simp [hm]
      simp only [this]

/-- the output of index `k.index` among `os` (whose head has index `idx`) when it pays a watched script -/
def createdFrom (hash : Bytes) (W : List Bytes) (idx : Nat) (os : List TxOut) (k : PrevOut) : Option TxOut :=
  if k.hash = hash ∧ idx ≤ k.index then
    match os[k.index - idx]? with
    | some o => if o.script ∈ W then some o else none
    | none => none
  else none

theorem prevOut_eta (k : PrevOut) : (⟨k.hash, k.index⟩ : PrevOut) = k := by cases k; rfl

theorem createdFrom_succ_self (hash : Bytes) (W : List Bytes) (idx : Nat) (os : List TxOut) :
    createdFrom hash W (idx + 1) os ⟨hash, idx⟩ = none := by
  have : ¬ (idx + 1 ≤ idx) := by omega
  simp [createdFrom, this]

theorem createdFrom_cons (hash : Bytes) (W : List Bytes) (idx : Nat) (o : TxOut) (os : List TxOut) (k : PrevOut) :
    createdFrom hash W idx (o :: os) k =
      if k = ⟨hash, idx⟩ then (if o.script ∈ W then some o else none)
      else createdFrom hash W (idx + 1) os k := by
  unfold createdFrom
  by_cases hk : k = ⟨hash, idx⟩
  · subst hk; simp
  · simp only [hk, if_false]
    by_cases hh : k.hash = hash
    · by_cases hi : idx ≤ k.index
      · have he : k.index ≠ idx := fun he => hk (by rw [← hh, ← he, prevOut_eta])
        have h3 : idx + 1 ≤ k.index := by omega
        have h4 : k.index - idx = (k.index - (idx + 1)) + 1 := by omega
        simp only [hh, hi, h3, and_self, if_true]
        rw [h4, List.getElem?_cons_succ]
      · have h3 : ¬ (idx + 1 ≤ k.index) := by omega
        simp [hi, h3]
    · simp [hh]

theorem addOutputs_spec (hash : Bytes) (W : List Bytes) (idx : Nat) (os : List TxOut)
    (hlen : idx + os.length ≤ 4294967296) (s : State) (k : PrevOut) :
    (addOutputs (some hash) W idx os s).2 = true ∧
    abs (addOutputs (some hash) W idx os s).1 k =
      match createdFrom hash W idx os k with
      | some o => some o
      | none => abs s k := by
  induction os generalizing idx s with
  | nil => simp [addOutputs, createdFrom]
  | cons o rest ih =>
    simp only [List.length_cons] at hlen
    unfold addOutputs
    obtain ⟨hm1, hm2⟩ := addMatching_spec hash idx (by omega) o W s k
    cases hres : addMatching (some hash) idx o W s with
    | mk s' flag =>
      rw [hres] at hm1 hm2
      simp only at hm1 hm2
      subst hm1
      simp only
      obtain ⟨h1, h2⟩ := ih (idx + 1) (by omega) s'
      refine ⟨h1, ?_⟩
      rw [h2, hm2, createdFrom_cons]
      by_cases hk : k = ⟨hash, idx⟩
      · subst hk
        rw [createdFrom_succ_self]
        by_cases hw : o.script ∈ W <;> simp [hw]
      · simp [hk]

theorem createdFrom_zero (H : Tx → Bytes) (W : List Bytes) (t : Tx) (k : PrevOut) :
    createdFrom (H t) W 0 t.outputs k = Spec.Utxo.created H W t k := by
  unfold createdFrom Spec.Utxo.created
  by_cases hh : k.hash = H t
  · simp only [hh, Nat.zero_le, and_self, if_true, Nat.sub_zero]
    cases t.outputs[k.index]? with
    | none => rfl
    | some o => by_cases hw : o.script ∈ W <;> simp [hw]
  · simp [hh]

/-- one transaction refines the reference's `applyTx` -/
theorem applyTx_spec (txidOf : Tx → Option Bytes) (H : Tx → Bytes) (W : List Bytes) (s : State) (t : Tx)
    (hH : txidOf t = some (H t)) (hlen : t.outputs.length ≤ 4294967296) :
    (applyTx txidOf W s t).2 = true ∧
    abs (applyTx txidOf W s t).1 = Spec.Utxo.applyTx H W (abs s) t := by
  unfold applyTx
  rw [hH]
  refine ⟨(addOutputs_spec (H t) W 0 t.outputs (by omega) _ ⟨[], 0⟩).1, ?_⟩
  funext k
  rw [(addOutputs_spec (H t) W 0 t.outputs (by omega) _ k).2, createdFrom_zero, abs_spendAll]
  rfl

theorem applyTxs_spec (txidOf : Tx → Option Bytes) (H : Tx → Bytes) (W : List Bytes) (txs : List Tx) (s : State)
    (hH : ∀ t ∈ txs, txidOf t = some (H t) ∧ t.outputs.length ≤ 4294967296) :
    (applyTxs txidOf W txs s).2 = true ∧
    abs (applyTxs txidOf W txs s).1 = Spec.Utxo.applyBlock H W (abs s) txs := by
  induction txs generalizing s with
  | nil => exact ⟨rfl, rfl⟩
  | cons t rest ih =>
    obtain ⟨h1, h2⟩ := applyTx_spec txidOf H W s t (hH t (by simp)).1 (hH t (by simp)).2
    unfold applyTxs
    cases hres : applyTx txidOf W s t with
    | mk s' flag =>
      rw [hres] at h1 h2
      simp only at h1 h2
      subst h1
      simp only
      obtain ⟨h3, h4⟩ := ih s' (fun t ht => hH t (by simp [ht]))
      exact ⟨h3, by rw [h4, h2]; rfl⟩


/-! ### refinement, step by step -/

/-- two lists related element by element -/
inductive Forall2 {α β : Type} (R : α → β → Prop) : List α → List β → Prop
  | nil : Forall2 R [] []
  | cons {a b l₁ l₂} : R a b → Forall2 R l₁ l₂ → Forall2 R (a :: l₁) (b :: l₂)

/-- model operation ↔ reference operation (operations without nil pointers) -/
inductive Matches : Op → Spec.Utxo.Op → Prop
  | add (k v) : Matches (.add (some k) v) (.add k v)
  | removeByOutpoint (k) : Matches (.removeByOutpoint (some k)) (.removeByOutpoint k)
  | removeByHash (h i) : Matches (.removeByHash h i) (.removeByHash h i)
  | removeByTxid (t i) : Matches (.removeByTxid t i) (.removeByTxid t i)
  | getByOutpoint (k) : Matches (.getByOutpoint (some k)) (.getByOutpoint k)
  | getByHash (h i) : Matches (.getByHash h i) (.getByHash h i)
  | getByTxid (t i) : Matches (.getByTxid t i) (.getByTxid t i)
  | size : Matches .size .size
  | slice : Matches .slice .slice
  | clone : Matches .clone .clone
  | new (outs : List Entry) : Matches (.new (outs.map fun e => (some e.1, e.2))) (.new outs)
  | updateFromBlock (b w) : Matches (.updateFromBlock b w) (.updateFromBlock b w)

/-- what the model hands back, in the reference's vocabulary (`panic` and `err` have no counterpart) -/
def specRes : Out → Option Spec.Utxo.Res
  | .unit => some .none
  | .found e => some (.found e)
  | .size n => some (.size n)
  | .list l => some (.list l)
  | .panic => none
  | .err => none

/-- every transaction of a block update hashes to `H t` and has at most 2^32 outputs -/
def BlockOK (txidOf : Tx → Option Bytes) (H : Tx → Bytes) : Op → Prop
  | .updateFromBlock b _ => ∀ t ∈ b.txs, txidOf t = some (H t) ∧ t.outputs.length ≤ 4294967296
  | _ => True

theorem step_refines (txidOf : Tx → Option Bytes) (H : Tx → Bytes) {s : State} {op : Op} {sop : Spec.Utxo.Op}
    (hs : Distinct s) (hm : Matches op sop) (hb : BlockOK txidOf H op) :
    ∃ r, specRes (step txidOf s op).2 = some r ∧
      Spec.Utxo.Step H (abs s) sop (abs (step txidOf s op).1) r := by
  cases hm with
  | add k v => exact ⟨.none, by simp [step, addOutput_some, specRes], by simp [step, Spec.Utxo.Step, abs_addOutput]⟩
  | removeByOutpoint k =>
    exact ⟨.none, by simp [step, removeByOutpoint_some, specRes],
      by simp [step, Spec.Utxo.Step, removeByOutpoint_some, abs_erase]⟩
  | removeByHash h i =>
    exact ⟨.none, by simp [step, removeByHash_eq, specRes], by simp [step, Spec.Utxo.Step, removeByHash_eq, abs_erase]⟩
  | removeByTxid t i =>
    refine ⟨.none, by simp [step, removeByTxid_eq, specRes], ?_⟩
    simp only [step, Spec.Utxo.Step, removeByTxid_eq, and_true]
    cases Spec.Utxo.txidHash t <;> simp [abs_erase]
  | getByOutpoint k =>
    exact ⟨.found ((lookup k (entries s)).map fun v => (k, v)),
      by simp [step, getByOutpoint_some, specRes], by simp [step, Spec.Utxo.Step, abs]⟩
  | getByHash h i =>
    exact ⟨.found ((lookup ⟨h, i⟩ (entries s)).map fun v => (⟨h, i⟩, v)),
      by simp [step, getByHash, getByOutpoint_some, specRes], by simp [step, Spec.Utxo.Step, abs]⟩
  | getByTxid t i =>
    refine ⟨.found (match Spec.Utxo.txidHash t with
      | some h => (lookup ⟨h, i⟩ (entries s)).map fun v => (⟨h, i⟩, v)
      | none => none), by simp [step, getByTxid_eq, specRes], ?_⟩
    simp only [step, Spec.Utxo.Step, true_and, Spec.Utxo.Res.found.injEq]
    cases Spec.Utxo.txidHash t <;> simp [abs]
  | size => exact ⟨.size (size s), by simp [step, specRes], by simp [step, Spec.Utxo.Step]; exact hasSize_size hs⟩
  | slice => exact ⟨.list (slice s), by simp [step, specRes], by simp [step, Spec.Utxo.Step]; exact lists_slice hs⟩
  | clone => exact ⟨.none, by simp [step, specRes], by simp [step, Spec.Utxo.Step, abs_clone hs]⟩
  | new outs =>
    exact ⟨.none, by simp [step, newOutputSet_some, specRes], by simp [step, Spec.Utxo.Step, abs_newOutputSet]⟩
  | updateFromBlock b w =>
    obtain ⟨h1, h2⟩ := applyTxs_spec txidOf H w b.txs s hb
    cases hres : applyTxs txidOf w b.txs s with
    | mk s' flag =>
      rw [hres] at h1 h2
      simp only at h1 h2
      subst h1
      exact ⟨.none, by simp [step, updateFromBlock, hres, specRes],
        by simp [step, updateFromBlock, hres, Spec.Utxo.Step, h2]⟩

/-- every operation (nil pointers and failing hashes included) keeps the keys distinct -/
theorem distinct_step (txidOf : Tx → Option Bytes) {s : State} (op : Op) (hs : Distinct s) :
    Distinct (step txidOf s op).1 := by
  cases op with
  | add o v => exact distinct_addOutput o v hs
  | removeByOutpoint o => exact distinct_removeByOutpoint o hs
  | removeByHash h i => simp only [step, removeByHash_eq]; exact distinct_map_erase _ hs
  | removeByTxid t i =>
    simp only [step, removeByTxid_eq]
    cases Spec.Utxo.txidHash t with
    | none => exact hs
    | some h => exact distinct_map_erase _ hs
  | getByOutpoint o => exact hs
  | getByHash h i => exact hs
  | getByTxid t i => exact hs
  | size => exact hs
  | slice => exact hs
  | clone => exact distinct_clone
  | new outs => exact distinct_newOutputSet outs
  | updateFromBlock b w =>
    have := distinct_applyTxs txidOf w b.txs hs
    simp only [step, updateFromBlock]
    split <;> (rename_i s' heq; rw [heq] at this; exact this)

theorem distinct_run (txidOf : Tx → Option Bytes) (ops : List Op) {s : State} (hs : Distinct s) :
    Distinct (run txidOf s ops).1 := by
  induction ops generalizing s with
  | nil => exact hs
  | cons op rest ih => exact ih (distinct_step txidOf op hs)

theorem distinct_none : Distinct none := by simp [Distinct, entries]

/-- a whole history refines the reference's history -/
theorem run_refines (txidOf : Tx → Option Bytes) (H : Tx → Bytes) {ops : List Op} {sops : List Spec.Utxo.Op}
    (hm : Forall2 Matches ops sops) (hb : ∀ op ∈ ops, BlockOK txidOf H op) {s : State} (hs : Distinct s) :
    ∃ rs, Forall2 (fun o r => specRes o = some r) (run txidOf s ops).2 rs ∧
      Spec.Utxo.Run H (abs s) sops (abs (run txidOf s ops).1) rs := by
  induction hm generalizing s with
  | nil => exact ⟨[], .nil, .nil _⟩
  | @cons op sop ops' sops' h1 _ ih =>
    obtain ⟨r, hr1, hr2⟩ := step_refines txidOf H hs h1 (hb op (by simp))
    obtain ⟨rs, hrs1, hrs2⟩ := ih (fun op' h' => hb op' (by simp [h'])) (distinct_step txidOf op hs)
    exact ⟨r :: rs, .cons hr1 hrs1, .cons hr2 hrs2⟩

/-! ### operations that pass a nil pointer -/

theorem nil_ops (txidOf : Tx → Option Bytes) (s : State) (v : TxOut) :
    (step txidOf s (.add none v)).2 = .panic ∧ abs (step txidOf s (.add none v)).1 = abs s ∧
    (step txidOf s (.removeByOutpoint none)).2 = (if s.isNone then .unit else .panic) ∧
    (step txidOf s (.removeByOutpoint none)).1 = s ∧
    step txidOf s (.getByOutpoint none) = (s, .found none) := by
  have h0 : abs (some []) = abs none := rfl
  cases s <;> simp [step, addOutput_none, h0, entries, removeByOutpoint,
    unspent_OutputSet_RemoveByOutpoint_0, getByOutpoint, unspent_OutputSet_GetByOutpoint_0]

/-! ### the block update, declaratively (reference level) -/

open Spec.Utxo in
theorem created_eq_some_iff (H : Tx → Bytes) (W : List Bytes) (t : Tx) (k : PrevOut) (o : TxOut) :
    created H W t k = some o ↔ creates H W t k o := by
  unfold created creates
  by_cases hh : k.hash = H t
  · simp only [hh, if_true, true_and]
    cases hg : t.outputs[k.index]? with
    | none => simp
    | some o' =>
      by_cases hw : o'.script ∈ W
      · simp only [hw, if_true, Option.some.injEq]
        constructor
        · intro h; subst h; exact ⟨rfl, hw⟩
        · intro h; exact h.1
      · simp only [hw, if_false]
        constructor
        · intro h; cases h
        · rintro ⟨h1, h2⟩; injection h1 with h1; subst h1; exact absurd h2 hw
  · simp [hh]

open Spec.Utxo in
theorem created_eq_none_iff (H : Tx → Bytes) (W : List Bytes) (t : Tx) (k : PrevOut) :
    created H W t k = none ↔ ¬ ∃ o, creates H W t k o := by
  constructor
  · rintro h ⟨o, ho⟩
    rw [(created_eq_some_iff H W t k o).mpr ho] at h; cases h
  · intro h
    cases hc : created H W t k with
    | none => rfl
    | some o => exact absurd ⟨o, (created_eq_some_iff H W t k o).mp hc⟩ h

open Spec.Utxo in
theorem applyTx_untouched {H : Tx → Bytes} {W : List Bytes} {t : Tx} {k : PrevOut} (σ : USet)
    (h : ¬ touches H W t k) : Spec.Utxo.applyTx H W σ t k = σ k := by
  unfold touches at h
  have h1 : created H W t k = none := (created_eq_none_iff H W t k).mpr (fun hc => h (Or.inr hc))
  have h2 : ¬ spends t k := fun hc => h (Or.inl hc)
  simp [Spec.Utxo.applyTx, h1, h2]

open Spec.Utxo in
theorem applyBlock_untouched {H : Tx → Bytes} {W : List Bytes} {k : PrevOut} (txs : List Tx) (σ : USet)
    (h : ∀ t ∈ txs, ¬ touches H W t k) : applyBlock H W σ txs k = σ k := by
  induction txs generalizing σ with
  | nil => rfl
  | cons t rest ih =>
    simp only [applyBlock, List.foldl_cons]
    have := ih (Spec.Utxo.applyTx H W σ t) (fun t' ht' => h t' (by simp [ht']))
    simp only [applyBlock] at this
    rw [this, applyTx_untouched σ (h t (by simp))]

open Spec.Utxo in
/-- `o` is unspent at `k` after the block exactly when the last transaction touching `k` created it
    there, or nothing touched `k` and it was unspent before -/
theorem applyBlock_declarative (H : Tx → Bytes) (W : List Bytes) (txs : List Tx) (σ : USet) (k : PrevOut) (o : TxOut) :
    applyBlock H W σ txs k = some o ↔
      (∃ pre t post, txs = pre ++ t :: post ∧ creates H W t k o ∧ ∀ t' ∈ post, ¬ touches H W t' k) ∨
      (σ k = some o ∧ ∀ t ∈ txs, ¬ touches H W t k) := by
  induction txs generalizing σ with
  | nil => simp [applyBlock]
  | cons t ts ih =>
    have hstep : applyBlock H W σ (t :: ts) = applyBlock H W (Spec.Utxo.applyTx H W σ t) ts := rfl
    rw [hstep, ih]
    constructor
    · rintro (⟨pre, t', post, h1, h2, h3⟩ | ⟨h1, h2⟩)
      · exact Or.inl ⟨t :: pre, t', post, by simp [h1], h2, h3⟩
      · cases hc : created H W t k with
        | some o' =>
          have : o' = o := by simpa [Spec.Utxo.applyTx, hc] using h1
          subst this
          exact Or.inl ⟨[], t, ts, rfl, (created_eq_some_iff H W t k o').mp hc, h2⟩
        | none =>
          by_cases hsp : spends t k
          · simp [Spec.Utxo.applyTx, hc, hsp] at h1
          · have h1' : σ k = some o := by simpa [Spec.Utxo.applyTx, hc, hsp] using h1
            refine Or.inr ⟨h1', ?_⟩
            intro t' ht'
            rcases List.mem_cons.mp ht' with rfl | ht'
            · rintro (hx | hx)
              · exact hsp hx
              · exact (created_eq_none_iff H W _ k).mp hc hx
            · exact h2 t' ht'
    · rintro (⟨pre, t', post, h1, h2, h3⟩ | ⟨h1, h2⟩)
      · cases pre with
        | nil =>
          simp only [List.nil_append, List.cons.injEq] at h1
          obtain ⟨rfl, rfl⟩ := h1
          refine Or.inr ⟨?_, h3⟩
          simp [Spec.Utxo.applyTx, (created_eq_some_iff H W t k o).mpr h2]
        | cons p pre' =>
          simp only [List.cons_append, List.cons.injEq] at h1
          exact Or.inl ⟨pre', t', post, h1.2, h2, h3⟩
      · refine Or.inr ⟨?_, fun t' ht' => h2 t' (by simp [ht'])⟩
        rw [applyTx_untouched σ (h2 t (by simp)), h1]

open Spec.Utxo in
theorem applyBlock_append (H : Tx → Bytes) (W : List Bytes) (a b : List Tx) (σ : USet) :
    applyBlock H W σ (a ++ b) = applyBlock H W (applyBlock H W σ a) b := by
  simp [applyBlock, List.foldl_append]

open Spec.Utxo in
theorem applyBlock_none {H : Tx → Bytes} {W : List Bytes} {k : PrevOut} (txs : List Tx) (σ : USet)
    (h0 : σ k = none) (h : ∀ t ∈ txs, ¬ ∃ o, creates H W t k o) : applyBlock H W σ txs k = none := by
  induction txs generalizing σ with
  | nil => exact h0
  | cons t rest ih =>
    have hstep : applyBlock H W σ (t :: rest) = applyBlock H W (Spec.Utxo.applyTx H W σ t) rest := rfl
    rw [hstep]
    apply ih _ _ (fun t' ht' => h t' (by simp [ht']))
    have hc := (created_eq_none_iff H W t k).mpr (h t (by simp))
    simp only [Spec.Utxo.applyTx, hc]
    split <;> simp [h0]

open Spec.Utxo in
/-- an outpoint spent by a transaction of the block is gone afterwards unless that transaction or a
    later one creates it (again) — in particular an output created earlier in the same block -/
theorem spent_in_block_disappears (H : Tx → Bytes) (W : List Bytes) (pre post : List Tx) (t2 : Tx)
    (σ : USet) (k : PrevOut) (hsp : spends t2 k)
    (hno : ∀ t ∈ t2 :: post, ¬ ∃ o, creates H W t k o) :
    applyBlock H W σ (pre ++ t2 :: post) k = none := by
  rw [applyBlock_append]
  have hstep : ∀ σ', applyBlock H W σ' (t2 :: post) = applyBlock H W (Spec.Utxo.applyTx H W σ' t2) post := fun _ => rfl
  rw [hstep]
  apply applyBlock_none _ _ _ (fun t' ht' => hno t' (by simp [ht']))
  have hc := (created_eq_none_iff H W t2 k).mpr (hno t2 (by simp))
  simp [Spec.Utxo.applyTx, hc, hsp]

/-! ### txid strings name the byte-reversed hash -/

theorem fromHexChar_hexDigitLower : ∀ n : Fin 16, fromHexChar (hexDigitLower n.val) = some n.val := by decide

theorem hexDecode_hexEncode (bs : Bytes) : hexDecode (hexEncode bs) = some bs := by
  induction bs with
  | nil => rfl
  | cons b rest ih =>
    have h1 := fromHexChar_hexDigitLower ⟨b.toNat / 16, by have := b.toNat_lt; omega⟩
    have h2 := fromHexChar_hexDigitLower ⟨b.toNat % 16, by omega⟩
    simp only at h1 h2
    have ih' : hexDecode (List.flatMap (fun b => [hexDigitLower (b.toNat / 16), hexDigitLower (b.toNat % 16)]) rest) = some rest := ih
    simp only [hexEncode, List.flatMap_cons, List.cons_append, List.nil_append, hexDecode, h1, h2, ih']
    have : 16 * (b.toNat / 16) + b.toNat % 16 = b.toNat := by omega
    simp [this]

theorem hexEncode_length (bs : Bytes) : (hexEncode bs).length = 2 * bs.length := by
  induction bs with
  | nil => rfl
  | cons b rest ih =>
    have ih' : (List.flatMap (fun b => [hexDigitLower (b.toNat / 16), hexDigitLower (b.toNat % 16)]) rest).length = 2 * rest.length := ih
    simp only [hexEncode, List.flatMap_cons, List.cons_append, List.nil_append, List.length_cons, ih']
    omega

/-- the txid string of a 32-byte hash (`hex.EncodeToString` of the reversed bytes) names that hash -/
theorem txidHash_hexEncode_reverse {h : Bytes} (hl : h.length = 32) :
    Spec.Utxo.txidHash (hexEncode h.reverse) = some h := by
  rw [txidHash_eq, hexEncode_length, List.length_reverse, hl, hexDecode_hexEncode]
  simp [copy32_of_length (b := h.reverse) (by simp [hl])]

theorem getByTxid_via_hash (s : State) (txid : Bytes) (i : Nat) :
    getByTxid s txid i = match Spec.Utxo.txidHash txid with
      | some h => getByHash s h i
      | none => .found none := by
  rw [getByTxid_eq]
  cases Spec.Utxo.txidHash txid <;> simp [getByHash, getByOutpoint_some]

theorem removeByTxid_via_hash (s : State) (txid : Bytes) (i : Nat) :
    removeByTxid s txid i = match Spec.Utxo.txidHash txid with
      | some h => removeByHash s h i
      | none => (s, .unit) := by
  rw [removeByTxid_eq]
  cases Spec.Utxo.txidHash txid <;> simp [removeByHash_eq]

/-- a string whose length is not 64 names nothing (the repaired D23) -/
theorem txidHash_wrong_length {txid : Bytes} (h : txid.length ≠ 64) : Spec.Utxo.txidHash txid = none := by
  simp [Spec.Utxo.txidHash, h]

end BtcVerif.Proofs.Utxo
