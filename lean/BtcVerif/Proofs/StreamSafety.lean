/- C16 helper lemmas, part 3: safety invariants of every reachable state (arbitrary range and parallelism). -/
import BtcVerif.Proofs.StreamInv
namespace BtcVerif.Model.Stream
open BtcVerif.Gen.Guards

/-- worker facts that hold in every mode -/
def WOk (P : Params) (i : Nat) (w : Worker) : Prop :=
  P.base + i ≤ w.pos ∧ (w.pos - (P.base + i)) % P.p = 0 ∧ (w.ph ≠ .done → w.ph ≠ .idle → w.pos ≤ P.hi)

def RPhase.early : RPhase → Bool
  | .f0 | .f1 | .f1b | .f2 => true
  | _ => false

structure Inv1 (P : Params) (s : State) : Prop where
  len : s.workers.length = P.p
  np : s.panicked = false
  un : P.mode = .unordered → s.rph = .absent ∧ s.outClosed = false ∧ s.cancel2 = false
  c1 : (s.cancel1 = true ∨ s.ret ≠ none) → P.mode = .utxo ∧ s.cph = .finished
  ro : P.mode ≠ .unordered → s.rph ≠ .absent ∧ (s.outClosed = true ↔ s.rph = .fin) ∧ s.cancel2 = s.outClosed
  wok : ∀ i w, s.workers[i]? = some w → WOk P i w
  cd : s.closed = true → allDone s.workers = true
  st : s.started = false → s.closed = false
  ea : s.rph.early = true → s.started = false

theorem initWorkers_get {P : Params} {b : Bool} {i : Nat} {w : Worker} (h : (initWorkers P b)[i]? = some w) :
    i < P.p ∧ w = initWorker P b i := by
  simp only [initWorkers, List.getElem?_map, Option.map_eq_some_iff] at h
  obtain ⟨j, hj, rfl⟩ := h
  rw [List.getElem?_eq_some_iff] at hj
  obtain ⟨hlt, hj⟩ := hj
  simp only [List.getElem_range] at hj
  subst hj
  exact ⟨by simpa using hlt, rfl⟩

theorem wok_init (P : Params) (b : Bool) : ∀ i w, (initWorkers P b)[i]? = some w → WOk P i w := by
  intro i w h
  obtain ⟨_, rfl⟩ := initWorkers_get h
  refine ⟨by simp [initWorker], by simp [initWorker], ?_⟩
  simp only [initWorker]
  intro h1 h2
  cases b
  · simp at h2
  · by_cases h : P.base + i ≤ P.hi
    · exact h
    · simp [h] at h1

theorem wok_advance {P i w} (h : WOk P i w) : WOk P i (advance P w) := by
  obtain ⟨h1, h2, h3⟩ := h
  refine ⟨by simp [advance]; omega, ?_, ?_⟩
  · simp only [advance]
    have : w.pos + P.p - (P.base + i) = (w.pos - (P.base + i)) + P.p := by omega
    rw [this, Nat.add_mod_right]; exact h2
  · simp only [advance]; intro a b
    by_cases h : w.pos + P.p ≤ P.hi <;> simp_all

theorem allDone_iff (ws : List Worker) : allDone ws = true ↔ ∀ (i : Nat) (w : Worker), ws[i]? = some w → w.ph = .done := by
  simp only [allDone, List.all_eq_true, decide_eq_true_eq]
  constructor
  · intro h i w hw; exact h w (List.mem_of_getElem? hw)
  · intro h w hw; obtain ⟨i, hi⟩ := List.getElem?_of_mem hw; exact h i w hi


theorem wok_set {P : Params} {ws : List Worker} {i : Nat} {w' : Worker}
    (h : ∀ j w, ws[j]? = some w → WOk P j w) (hw' : WOk P i w') :
    ∀ j w, (ws.set i w')[j]? = some w → WOk P j w := by
  intro j w hj
  rw [List.getElem?_set] at hj
  split at hj
  · rename_i hij; subst hij
    split at hj
    · simp only [Option.some.injEq] at hj; subst hj; exact hw'
    · simp at hj
  · exact h j w hj

theorem WLocal.active {s w ph' l} (h : WLocal s w ph' l) : w.ph ≠ .done ∧ w.ph ≠ .idle := by
  cases h <;> simp_all

theorem wok_local {P i s w ph' l} (h : WOk P i w) (hl : WLocal s w ph' l) : WOk P i { w with ph := ph' } := by
  obtain ⟨h1, h2, h3⟩ := h
  exact ⟨h1, h2, fun _ _ => h3 hl.active.1 hl.active.2⟩

theorem wok_done {P i} {w : Worker} (h : WOk P i w) : WOk P i { w with ph := .done } := by
  obtain ⟨h1, h2, h3⟩ := h
  exact ⟨h1, h2, fun h _ => absurd rfl h⟩

theorem not_allDone_of {ws : List Worker} {i : Nat} {w : Worker} (hw : ws[i]? = some w) (hp : w.ph ≠ .done) :
    allDone ws = true → False := by
  intro h; exact hp ((allDone_iff ws).mp h i w hw)

theorem inv1_init {P : Params} (hP : P.lo ≤ P.hi) : Inv1 P (init P) := by
  refine ⟨by simp [init, initWorkers], ?_, ?_, by simp [init], ?_, ?_, by simp [init], by simp [init], ?_⟩
  · simp only [init, blockscan_BlockScanner_streamBlocksUnordered_0, blockscan_BlockScanner_streamBlocks_0]
    split <;> simp <;> omega
  · intro h; simp [init, h]
  · intro h; simp [init, h]
  · exact wok_init P _
  · simp only [init]; split <;> simp_all [RPhase.early]

theorem inv1_step {P : Params} (hP : P.lo ≤ P.hi) {s l s'} (h : Inv1 P s) (hst : Step P s l s') : Inv1 P s' := by
  obtain ⟨_, hI⟩ := step_inv hst
  obtain ⟨hlen, hnp, hun, hc1, hro, hwok, hcd, hst', hea⟩ := h
  have hne : s.rph ≠ .absent → P.mode ≠ .unordered := by intro h h'; exact h (hun h').1
  have hne' : s.rph = .absent → P.mode = .unordered := by
    intro h; by_cases hm : P.mode = .unordered; exact hm; exact absurd h (hro hm).1
  cases hI with
  | wLocal i w ph' l hw hl =>
    refine ⟨?_, ?_, ?_, ?_, ?_, wok_set hwok (wok_local (hwok i w hw) hl), ?_, ?_, ?_⟩
    case refine_6 => intro hc; exact (not_allDone_of hw hl.active.1 (hcd hc)).elim
    all_goals (simp_all [setW])
  | wGiveC i w g hw hp hm hc =>
    refine ⟨?_, ?_, ?_, ?_, ?_, wok_set hwok (wok_advance (hwok i w hw)), ?_, ?_, ?_⟩
    case refine_6 => intro hcl; exact (not_allDone_of hw (by simp [hp]) (hcd hcl)).elim
    all_goals (simp_all [setW])
  | wErrC i w hw hp hm hc =>
    refine ⟨?_, ?_, ?_, ?_, ?_, wok_set hwok (wok_done (hwok i w hw)), ?_, ?_, ?_⟩
    case refine_6 => intro hcl; exact (not_allDone_of hw (by simp [hp]) (hcd hcl)).elim
    all_goals (simp_all [setW])
  | wGiveR i w g hw hp hm hr =>
    refine ⟨?_, ?_, ?_, ?_, ?_, wok_set hwok (wok_advance (hwok i w hw)), ?_, ?_, ?_⟩
    case refine_6 => intro hcl; exact (not_allDone_of hw (by simp [hp]) (hcd hcl)).elim
    all_goals (simp_all [setW, RPhase.early])
  | wErrR i w hw hp hm hr =>
    refine ⟨?_, ?_, ?_, ?_, ?_, wok_set hwok (wok_done (hwok i w hw)), ?_, ?_, ?_⟩
    case refine_6 => intro hcl; exact (not_allDone_of hw (by simp [hp]) (hcd hcl)).elim
    all_goals (simp_all [setW, RPhase.early])
  | closer hs hc hall => exact ⟨hlen, hnp, hun, hc1, hro, hwok, fun _ => hall, fun h => by simp_all, hea⟩
  | rF2ok hr | rF2nolink hr =>
    have hne : P.mode ≠ .unordered := hne (by simp [hr])
    have := hro hne
    have hs0 : s.started = false := hea (by simp [hr, RPhase.early])
    unfold afterFirst
    simp only [blockscan_BlockScanner_streamBlocksUnordered_0]
    split
    · refine ⟨?_, ?_, ?_, ?_, ?_, hwok, ?_, ?_, ?_⟩ <;> simp_all [RPhase.early]
    · rename_i hne2
      have : ¬ (P.hi < P.lo + 1) := by omega
      simp only [this, decide_false, Bool.false_eq_true, if_false]
      refine ⟨by simp [initWorkers], ?_, ?_, ?_, ?_, wok_init P true, ?_, ?_, ?_⟩ <;> simp_all [RPhase.early]
  | rS0 hr hc | rRelLoop hr hc1' hc2' =>
    have hne : P.mode ≠ .unordered := hne (by simp [hr])
    have := hro hne
    unfold loopHead
    split <;> (refine ⟨?_, ?_, ?_, ?_, ?_, hwok, ?_, ?_, ?_⟩ <;> simp_all [exitX, RPhase.early])
  | rF0 hr | rF1ok hr | rF1err hr | rF1b hr | rF2err hr | rLoopCancel hr hc | rLoopClosed hr hc
  | rRelSend hr h1 h2 | rRelErr hr h1 h2 | rSnd h hr hc | rSendErr hr hc =>
    have hne : P.mode ≠ .unordered := hne (by simp [hr])
    have := hro hne
    refine ⟨?_, ?_, ?_, ?_, ?_, hwok, ?_, ?_, ?_⟩ <;> simp_all [exitX, RPhase.early]
  | cCall hc hm | cRetOk hc hm hn | cSeeEnd hc hx | cDeliver h hc | cErr hc hm | cRetErr hc hm | cEnd hc hm
  | envCancel hc =>
    refine ⟨?_, ?_, ?_, ?_, ?_, hwok, ?_, ?_, ?_⟩ <;> simp_all

end BtcVerif.Model.Stream
