/-
  Helper lemmas for C09 (addresses), segwit forms: they rest on the Bech32 round trips of C08 and
  on the fact that a string as long as a segwit address cannot be a Base58 address. Core Lean only.
-/
import BtcVerif.Proofs.Address
import BtcVerif.Proofs.Bech32Ref

namespace BtcVerif.Proofs.Address
open BtcVerif BtcVerif.Model BtcVerif.Model.Address BtcVerif.Gen BtcVerif.Gen.Guards

/-- a string of at least 41 characters is not a Base58 address (its payload would have at least
    23 bytes), whatever the checksum function -/
theorem decodeBase58_long (hs : Hashes) (s : Bytes) (hl : 41 ≤ s.length) :
    decodeBase58Address hs s = .err := by
  cases hb : Base58.decode s with
  | err => unfold decodeBase58Address Base58Check.decode; rw [hb]
  | panic => exact absurd hb (Proofs.Base58.decode_ne_panic s)
  | ok dec =>
    have hlen := Proofs.Base58.decode_length_ge s dec hb hl
    cases hp : Base58Check.decode hs.cksum s with
    | err => unfold decodeBase58Address; rw [hp]
    | panic => exact absurd hp (Proofs.Base58.Check.decode_ne_panic _ _)
    | ok payload =>
      rw [Proofs.Base58.Check.decode_of_base58 hs.cksum s dec hb] at hp
      split at hp
      · cases hp
      · split at hp
        · injection hp with hp
          rw [decodeBase58_of_payload hs s payload (by
            rw [Proofs.Base58.Check.decode_of_base58 hs.cksum s dec hb]
            rename_i h1 h2
            rw [if_neg h1, if_pos h2, hp])]
          have hpl : payload.length = dec.length - 4 := by rw [← hp]; simp
          unfold splitPayload
          cases payload with
          | nil => rfl
          | cons v0 rest =>
            simp only [List.length_cons] at hpl
            have a : ¬ rest.length = 20 := by omega
            have b : ¬ rest.length = 21 := by omega
            simp [a, b]
        · cases hp

/-- the string `Encode` returns for a payload of at least 20 bytes has at least 41 characters -/
theorem encode_length_ge (hrp : Bytes) (version : Nat) (data s : Bytes) (hd : 20 ≤ data.length)
    (hv : version < 32) (hne : hrp ≠ [])
    (hlen : hrp.length + 1 + (1 + (Bech32.bytesToIndices data).length) + 6 ≤ 90)
    (h : Bech32.encode hrp version data = .ok s) : 41 ≤ s.length := by
  have hdne : data ≠ [] := by intro h0; subst h0; simp at hd
  rw [Proofs.Bech32.encode_normal hrp version data hdne hv hlen] at h
  injection h with h
  subst h
  obtain ⟨k, hk, _, _, hcount⟩ := Proofs.Bech32.bytesToIndices_facts data hdne
  have : 1 ≤ hrp.length := by
    cases hrp with
    | nil => exact absurd rfl hne
    | cons _ _ => simp
  simp only [List.length_append, List.length_cons, List.length_nil, List.length_map,
    Proofs.Bech32.createChecksum_length]
  omega

/-- a network with segwit addresses: its HRP is one `Validate` admits, short enough for a 32-byte
    program -/
structure SegwitNet (net : Network) : Prop where
  hrp : Proofs.Bech32.ValidHrp net.bech32
  short : net.bech32.length ≤ 30

theorem make_witness_eq (net : Network) (h : Bytes) : makeP2WSHFromHash net h = makeP2WPKHFromHash net h := rfl

/-- making and decoding a segwit address -/
theorem decode_segwit (hs : Hashes) (net : Network) (hn : SegwitNet net) (h : Bytes)
    (hl : h.length = 20 ∨ h.length = 32) :
    ∃ s, makeP2WPKHFromHash net h = .ok s ∧ 41 ≤ s.length ∧
      Bech32.decode s = .ok (net.bech32, 0, h) ∧
      decode hs net s = .ok (if h.length = 20 then Format.p2wpkh else Format.p2wsh,
        Spec.Address.scriptPubKey (if h.length = 20 then .p2wpkh else .p2wsh) h) := by
  have hne : h ≠ [] := by intro h0; subst h0; simp at hl
  have hhne : net.bech32 ≠ [] := hn.hrp.ne
  have hshort := hn.short
  obtain ⟨k, hk, _, _, hcount⟩ := Proofs.Bech32.bytesToIndices_facts h hne
  have hlen : net.bech32.length + 1 + (1 + (Bech32.bytesToIndices h).length) + 6 ≤ 90 := by
    rcases hl with hl | hl <;> omega
  obtain ⟨s, henc, hdec⟩ := Proofs.Bech32.decode_encode net.bech32 0 h hn.hrp (by decide) hne hlen
  have hs41 := encode_length_ge net.bech32 0 h s (by rcases hl with hl | hl <;> omega) (by decide) hhne hlen henc
  have hg : address_MakeP2WPKHFromHash_0 (len_constants_CurrentNetwork_Bech32 := net.bech32.length) = false := by
    have : net.bech32.length ≠ 0 := by
      cases hb : net.bech32 with
      | nil => exact absurd hb hhne
      | cons _ _ => simp
    simp only [address_MakeP2WPKHFromHash_0, decide_eq_false_iff_not]; omega
  refine ⟨s, ?_, hs41, hdec, ?_⟩
  · unfold makeP2WPKHFromHash
    rw [hg]
    simp only [Bool.false_eq_true, if_false, constants_WitnessVersionZero]
    exact henc
  · unfold decode
    rw [decodeBase58_long hs s hs41]
    simp only
    have hba : decodeBech32Address s = .ok (net.bech32, 0, h) := by
      unfold decodeBech32Address
      rw [hdec]
      simp only [address_DecodeBech32Address_0]
      rcases hl with hl | hl <;> simp [hl]
    rw [hba]
    simp only [ne_eq, not_true_eq_false, if_false, address_Decode_3, decide_false,
      Bool.false_eq_true, address_Decode_4, address_Decode_5]
    rcases hl with hl | hl
    · simp [hl, scriptWitness_20 h hl, Outcome.map]
    · simp [hl, scriptWitness_32 h hl, Outcome.map]

/-- the HRP returned by `Decode` is never empty -/
theorem bech32_decode_hrp_ne (s hrp : Bytes) (v : Nat) (d : Bytes)
    (hd : Bech32.decode s = .ok (hrp, v, d)) : hrp ≠ [] := by
  have hval : Bech32.validate s = true := by
    cases hv : Bech32.validate s with
    | true => rfl
    | false => unfold Bech32.decode at hd; rw [hv] at hd; simp at hd
  obtain ⟨pos, hvalid⟩ := (Proofs.Bech32.validate_iff s).mp hval
  rw [Proofs.Bech32.decode_normal s pos hvalid] at hd
  split at hd
  · cases hd
  · split at hd
    · cases hd
    · unfold Proofs.Bech32.payloadOf at hd
      split at hd
      · cases hd
      · split at hd
        · rename_i heq
          injection hd with hd
          injection hd with hh _
          rw [← hh]
          intro h0
          have : ((Bech32.lower s).take pos).length = 0 := by rw [h0]; rfl
          simp only [List.length_take, Proofs.Bech32.lower_length] at this
          have := hvalid.pos1
          have := hvalid.room
          omega
        · cases hd
        · cases hd

/-- canonicity of accepted segwit addresses -/
theorem decode_segwit_canonical (hs : Hashes) (net : Network) (s : Bytes) (fmt : Format) (spk : Bytes)
    (hd : decode hs net s = .ok (fmt, spk)) (hf : fmt = .p2wpkh ∨ fmt = .p2wsh) :
    ∃ prog, prog.length = (if fmt = .p2wsh then 32 else 20) ∧
      spk = Spec.Address.scriptPubKey (if fmt = .p2wsh then .p2wsh else .p2wpkh) prog ∧
      makeFromHash hs net fmt prog = .ok (Bech32.lower s) := by
  obtain ⟨prog, hsrc, hcases⟩ := decode_segwit_source hs net s fmt spk hd hf
  have henc := Proofs.Bech32.encode_decode s net.bech32 0 prog hsrc
  have hhne := bech32_decode_hrp_ne s net.bech32 0 prog hsrc
  have hg : address_MakeP2WPKHFromHash_0 (len_constants_CurrentNetwork_Bech32 := net.bech32.length) = false := by
    have : net.bech32.length ≠ 0 := by
      cases hb : net.bech32 with
      | nil => exact absurd hb hhne
      | cons _ _ => simp
    simp only [address_MakeP2WPKHFromHash_0, decide_eq_false_iff_not]; omega
  have hmk : makeP2WPKHFromHash net prog = .ok (Bech32.lower s) := by
    unfold makeP2WPKHFromHash
    rw [hg]
    simp only [Bool.false_eq_true, if_false, constants_WitnessVersionZero]
    exact henc
  refine ⟨prog, ?_⟩
  rcases hcases with ⟨hfm, hpl, hspk⟩ | ⟨hfm, hpl, hspk⟩
  · subst hfm
    refine ⟨by simpa using hpl, by simpa using hspk, ?_⟩
    unfold makeFromHash
    simp [address_MakeFromHash_2, hpl, hmk]
  · subst hfm
    refine ⟨by simpa using hpl, by simpa using hspk, ?_⟩
    unfold makeFromHash
    simp [address_MakeFromHash_2, hpl, make_witness_eq, hmk]

/-- a segwit address of a network with another HRP (or on a network without segwit) is refused -/
theorem decode_foreign_hrp (hs : Hashes) (a b : Network) (ha : SegwitNet a) (hab : a.bech32 ≠ b.bech32)
    (h : Bytes) (hl : h.length = 20 ∨ h.length = 32) :
    ∃ s, makeP2WPKHFromHash a h = .ok s ∧ decode hs b s = .err := by
  obtain ⟨s, hmk, hs41, hdec, _⟩ := decode_segwit hs a ha h hl
  refine ⟨s, hmk, ?_⟩
  unfold decode
  rw [decodeBase58_long hs s hs41]
  simp only
  have hba : decodeBech32Address s = .ok (a.bech32, 0, h) := by
    unfold decodeBech32Address
    rw [hdec]
    simp only [address_DecodeBech32Address_0]
    rcases hl with hl | hl <;> simp [hl]
  rw [hba]
  simp [hab]

end BtcVerif.Proofs.Address
