import BtcVerif.Proofs.Reorder

namespace BtcVerif.Model.Reorder
open BtcVerif.Gen.Guards

/-- the buffer holds honest blocks only, each height once -/
structure HonestBuf (buf : List Blk) (p : List Nat) (j : Nat) : Prop where
  all : ∀ x ∈ buf, ∃ k, x = honest k
  mem : ∀ k, honest k ∈ buf ↔ (k ∈ p ∧ j < k)

theorem honest_inj {a b : Nat} (h : honest a = honest b) : a = b := by
  simp [honest] at h; omega

theorem lookup_honest {buf : List Blk} {p : List Nat} {j k : Nat} (hb : HonestBuf buf p j)
    (hk : k ∈ p) (hjk : j < k) : lookup k buf = some (honest k) := by
  have hmem : honest k ∈ buf := (hb.mem k).mpr ⟨hk, hjk⟩
  unfold lookup
  cases hf : buf.find? (fun x => decide (x.prev = k)) with
  | none =>
    have := List.find?_eq_none.mp hf (honest k) hmem
    simp [honest] at this
  | some x =>
    have hx : x ∈ buf := List.mem_of_find?_eq_some hf
    have hp : x.prev = k := by simpa using List.find?_some hf
    obtain ⟨k', rfl⟩ := hb.all x hx
    simp [honest] at hp
    subst hp
    rfl

theorem lookup_none_of_absent {buf : List Blk} {p : List Nat} {j k : Nat} (hb : HonestBuf buf p j)
    (hk : ¬ (k ∈ p ∧ j < k)) : lookup k buf = none := by
  unfold lookup
  apply List.find?_eq_none.mpr
  intro x hx
  obtain ⟨k', rfl⟩ := hb.all x hx
  have : ¬ honest k' ∈ buf ∨ k' ≠ k := by
    by_cases h : k' = k
    · subst h; exact Or.inl (fun hm => hk ((hb.mem k').mp hm))
    · exact Or.inr h
  rcases this with h | h
  · exact absurd hx h
  · simp [honest, h]

theorem delete_honest {buf : List Blk} {p : List Nat} {j : Nat} (hb : HonestBuf buf p j) :
    HonestBuf (delete (j + 1) buf) p (j + 1) := by
  constructor
  · intro x hx
    exact hb.all x (List.mem_filter.mp hx).1
  · intro k
    have hprev : (honest k).prev = k := rfl
    constructor
    · intro h
      have h' := List.mem_filter.mp h
      have hm := (hb.mem k).mp h'.1
      have hne : k ≠ j + 1 := by
        have := h'.2
        simp only [hprev, ne_eq, decide_eq_true_eq] at this
        exact this
      exact ⟨hm.1, by omega⟩
    · rintro ⟨hk, hjk⟩
      apply List.mem_filter.mpr
      refine ⟨(hb.mem k).mpr ⟨hk, by omega⟩, ?_⟩
      simp only [hprev, ne_eq, decide_eq_true_eq]
      omega

/-- the state after the blocks of heights `1..j` (relative) have been handed out, `p` being what has arrived -/
structure Good (f : Nat) (p : List Nat) (j : Nat) (s : St) : Prop where
  latest : s.latest = j + 1
  cur : s.cur = f + j
  out : s.out = (List.range' 1 j).map honest
  res : s.res = .running
  buf : HonestBuf s.buf p j
  pre : ∀ k, 1 ≤ k → k ≤ j → k ∈ p

theorem range'_one_succ (j : Nat) : List.range' 1 (j + 1) = List.range' 1 j ++ [j + 1] := by
  rw [List.range'_concat]; simp [Nat.add_comm]

/-- the release loop hands out everything that is ready and stops in front of the first height that has not
arrived -/
theorem release_drains {f : Nat} {p : List Nat} : ∀ (fuel : Nat) (s : St) (j : Nat), Good f p j s →
    s.buf.length < fuel → ∃ j', j ≤ j' ∧ Good f p j' (release fuel s) ∧ (j' + 1) ∉ p
  | 0, s, j, _, hl => absurd hl (Nat.not_lt_zero _)
  | fuel + 1, s, j, hg, hl => by
    by_cases h : (j + 1) ∈ p
    · have hlk : lookup s.latest s.buf = some (honest (j + 1)) := by
        rw [hg.latest]; exact lookup_honest hg.buf h (Nat.lt_succ_self j)
      unfold release
      simp only [hlk, blockscan_BlockScanner_streamBlocks_lit0_4, if_true]
      have hg' : Good f p (j + 1)
          { s with latest := (honest (j + 1)).id, cur := s.cur + 1, buf := delete s.latest s.buf,
                   out := s.out ++ [honest (j + 1)] } := by
        refine ⟨rfl, by simp [hg.cur, Nat.add_assoc], ?_, hg.res, ?_, ?_⟩
        · simp only [hg.out, range'_one_succ, List.map_append, List.map_cons, List.map_nil]
        · simpa [hg.latest] using delete_honest hg.buf
        · intro k h1 h2
          by_cases hk : k = j + 1
          · subst hk; exact h
          · exact hg.pre k h1 (by omega)
      have hlen : (delete s.latest s.buf).length < fuel := by
        have := delete_length_lt hlk
        omega
      obtain ⟨j', hj', hgood, hnot⟩ := release_drains fuel _ (j + 1) hg' hlen
      exact ⟨j', by omega, hgood, hnot⟩
    · have hlk : lookup s.latest s.buf = none := by
        rw [hg.latest]; exact lookup_none_of_absent hg.buf (fun hh => h hh.1)
      unfold release
      simp only [hlk, blockscan_BlockScanner_streamBlocks_lit0_4, Bool.false_eq_true, if_false]
      exact ⟨j, Nat.le_refl _, hg, h⟩

theorem HonestBuf.congr {buf : List Blk} {p q : List Nat} {j : Nat} (h : HonestBuf buf p j)
    (hpq : ∀ k, k ∈ p ↔ k ∈ q) : HonestBuf buf q j :=
  ⟨h.all, fun k => by rw [h.mem k, hpq k]⟩

theorem Good.congr {f : Nat} {p q : List Nat} {j : Nat} {s : St} (h : Good f p j s)
    (hpq : ∀ k, k ∈ p ↔ k ∈ q) : Good f q j s :=
  ⟨h.latest, h.cur, h.out, h.res, h.buf.congr hpq, fun k h1 h2 => (hpq k).mp (h.pre k h1 h2)⟩

theorem insert_honest {buf : List Blk} {p : List Nat} {j h : Nat} (hb : HonestBuf buf p j) (hp : h ∉ p)
    (hj : j < h) : HonestBuf (insert (honest h) buf) (h :: p) j := by
  have hprev : ∀ k, (honest k).prev = k := fun _ => rfl
  constructor
  · intro x hx
    rcases List.mem_cons.mp hx with rfl | hx
    · exact ⟨h, rfl⟩
    · exact hb.all x (List.mem_filter.mp hx).1
  · intro k
    constructor
    · intro hk
      rcases List.mem_cons.mp hk with heq | hk
      · have := honest_inj heq
        subst this
        exact ⟨List.mem_cons_self, hj⟩
      · have hm := (hb.mem k).mp (List.mem_filter.mp hk).1
        exact ⟨List.mem_cons_of_mem _ hm.1, hm.2⟩
    · rintro ⟨hk, hjk⟩
      rcases List.mem_cons.mp hk with rfl | hk
      · exact List.mem_cons_self
      · apply List.mem_cons_of_mem
        apply List.mem_filter.mpr
        refine ⟨(hb.mem k).mpr ⟨hk, hjk⟩, ?_⟩
        have hne : k ≠ h := fun e => hp (e ▸ hk)
        simp only [hprev, ne_eq, decide_eq_true_eq]
        exact hne

/-- one honest block arriving (any height that has not arrived yet) -/
theorem iter_arrival {f m : Nat} {p : List Nat} {j : Nat} {s : St} (hg : Good f p j s) {h : Nat}
    (hp : h ∉ p) (h1 : 1 ≤ h) (hm : h ≤ m) :
    ∃ j', j ≤ j' ∧ Good f (h :: p) j' (iter (f + m) s (.blk (honest h))) ∧ (j' + 1) ∉ (h :: p) := by
  obtain ⟨l, c, bf, o, r⟩ := s
  have hr : r = .running := hg.res
  subst hr
  have hjh : j < h := by
    by_cases hle : h ≤ j
    · exact absurd (hg.pre h h1 hle) hp
    · omega
  have hc : c = f + j := hg.cur
  have hguard : blockscan_BlockScanner_streamBlocks_lit0_1 (currentHeight := c) (toHeight := f + m) = true := by
    simp [blockscan_BlockScanner_streamBlocks_lit0_1, hc]; omega
  have hg1 : Good f (h :: p) j { latest := l, cur := c, buf := insert (honest h) bf, out := o, res := .running } :=
    ⟨hg.latest, hg.cur, hg.out, rfl, insert_honest hg.buf hp hjh,
      fun k a b => List.mem_cons_of_mem _ (hg.pre k a b)⟩
  obtain ⟨j', hj', hgood, hnot⟩ :=
    release_drains (f := f) (p := h :: p) ((insert (honest h) bf).length + 1) _ j hg1 (Nat.lt_succ_self _)
  refine ⟨j', hj', ?_, hnot⟩
  unfold iter
  simp only [ne_eq, not_true_eq_false, if_false, hguard, Bool.not_true, Bool.false_eq_true,
    blockscan_BlockScanner_streamBlocks_lit0_2, blockscan_BlockScanner_streamBlocks_lit0_5]
  exact hgood

theorem mem_swap (k h : Nat) (hs p : List Nat) : k ∈ hs ++ h :: p ↔ k ∈ (h :: hs) ++ p := by
  simp only [List.mem_append, List.mem_cons]
  constructor
  · rintro (a | a | a)
    · exact Or.inl (Or.inr a)
    · exact Or.inl (Or.inl a)
    · exact Or.inr a
  · rintro ((a | a) | a)
    · exact Or.inr (Or.inl a)
    · exact Or.inl a
    · exact Or.inr (Or.inr a)

theorem foldl_arrivals {f m : Nat} : ∀ (hs : List Nat) {p : List Nat} {j : Nat} {s : St}, Good f p j s →
    (j + 1) ∉ p → hs.Nodup → (∀ h ∈ hs, h ∉ p ∧ 1 ≤ h ∧ h ≤ m) →
    ∃ j', Good f (hs ++ p) j' ((hs.map (fun k => Ev.blk (honest k))).foldl (iter (f + m)) s) ∧
      (j' + 1) ∉ (hs ++ p)
  | [], p, j, s, hg, hmax, _, _ => ⟨j, by simpa using hg, by simpa using hmax⟩
  | h :: hs, p, j, s, hg, _, hnd, hall => by
    have hh := hall h List.mem_cons_self
    obtain ⟨j1, _, hg1, hnot1⟩ := iter_arrival (m := m) hg hh.1 hh.2.1 hh.2.2
    have hnd' : hs.Nodup := (List.nodup_cons.mp hnd).2
    have hall' : ∀ x ∈ hs, x ∉ (h :: p) ∧ 1 ≤ x ∧ x ≤ m := by
      intro x hx
      have := hall x (List.mem_cons_of_mem _ hx)
      refine ⟨?_, this.2⟩
      intro hmem
      rcases List.mem_cons.mp hmem with rfl | hmem
      · exact (List.nodup_cons.mp hnd).1 hx
      · exact this.1 hmem
    obtain ⟨j2, hg2, hnot2⟩ := foldl_arrivals hs hg1 hnot1 hnd' hall'
    refine ⟨j2, ?_, fun hmm => hnot2 ((mem_swap _ h hs p).mpr hmm)⟩
    simp only [List.map_cons, List.foldl_cons]
    exact hg2.congr (fun k => mem_swap k h hs p)

theorem iter_after_full (t : Nat) (s : St) (e : Ev) (hc : s.cur = t) (hr : s.res = .running ∨ s.res = .done) :
    (iter t s e).out = s.out ∧ (iter t s e).cur = t ∧ ((iter t s e).res = .running ∨ (iter t s e).res = .done) := by
  unfold iter
  rcases hr with hr | hr
  · simp [hr, hc, blockscan_BlockScanner_streamBlocks_lit0_1]
  · simp [hr, hc]

theorem foldl_after_full (t : Nat) : ∀ (tail : List Ev) (s : St), s.cur = t → (s.res = .running ∨ s.res = .done) →
    (tail.foldl (iter t) s).out = s.out ∧ (tail.foldl (iter t) s).cur = t ∧
      ((tail.foldl (iter t) s).res = .running ∨ (tail.foldl (iter t) s).res = .done)
  | [], s, hc, hr => ⟨rfl, hc, hr⟩
  | e :: es, s, hc, hr => by
    have h1 := iter_after_full t s e hc hr
    have h2 := foldl_after_full t es (iter t s e) h1.2.1 h1.2.2
    simp only [List.foldl_cons]
    exact ⟨h2.1.trans h1.1, h2.2.1, h2.2.2⟩

/-- **completeness of the ordering buffer**: an honest node's blocks, arriving in ANY order, followed by anything
(the closed queue, say), end in success with the whole range handed out in chain order -/
theorem run_complete (f m : Nat) (hs : List Nat) (hperm : hs.Perm (List.range' 1 m)) (tail : List Ev) :
    (run f (f + m) 1 (hs.map (fun k => Ev.blk (honest k)) ++ tail)).res = .done ∧
    (run f (f + m) 1 (hs.map (fun k => Ev.blk (honest k)) ++ tail)).out = (List.range' 1 m).map honest := by
  have hnd : hs.Nodup := hperm.nodup_iff.mpr List.nodup_range'
  have hmem : ∀ h, h ∈ hs ↔ 1 ≤ h ∧ h ≤ m := by
    intro h
    rw [hperm.mem_iff, List.mem_range'_1]
    omega
  have hstart : Good f [] 0 (start f 1) :=
    ⟨rfl, rfl, rfl, rfl, ⟨fun x hx => absurd hx (List.not_mem_nil), fun k => by simp [start]⟩, fun k h1 h2 => by omega⟩
  obtain ⟨j, hg, hmax⟩ := foldl_arrivals (f := f) (m := m) hs hstart (by simp) hnd
    (fun h hh => ⟨List.not_mem_nil, ((hmem h).mp hh).1, ((hmem h).mp hh).2⟩)
  simp only [List.append_nil] at hg hmax
  have hjm : j = m := by
    have h1 : j ≤ m := by
      by_cases h0 : j = 0
      · omega
      · exact ((hmem j).mp (hg.pre j (by omega) (Nat.le_refl _))).2
    have h2 : ¬ (j + 1 ≤ m) := fun hle => hmax ((hmem (j + 1)).mpr ⟨by omega, hle⟩)
    omega
  subst hjm
  simp only [run, List.foldl_append]
  have hfull := foldl_after_full (f + j) tail _ hg.cur (Or.inl hg.res)
  refine ⟨?_, ?_⟩
  · unfold finish
    rcases hfull.2.2 with hr | hr
    · simp [hr, hfull.2.1, blockscan_BlockScanner_streamBlocks_lit0_1]
    · simp [hr]
  · unfold finish
    split
    · exact hfull.1.trans hg.out
    · exact hfull.1.trans hg.out

end BtcVerif.Model.Reorder
