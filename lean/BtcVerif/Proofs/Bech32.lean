/-
  Helper lemmas for C08 (Bech32), part 1: the checksum. XOR-linearity of `bech32Polymod`, the
  checksum of `bech32CreateChecksum` verifies and is the only one that does, and detection of one
  or two substituted data values. Core Lean only.
-/
import BtcVerif.Model.Bech32

namespace BtcVerif.Proofs.Bech32
open BtcVerif BtcVerif.Model BtcVerif.Model.Bech32 BtcVerif.Gen

/-! ### the generator part of one round -/

/-- XOR of the generator words selected by the low five bits of `b` -/
def G (b : Nat) : Nat := genFold b constants_Bech32ChecksumGen 0 0

theorem genFold_xor (b : Nat) (gs : List Nat) : ∀ (i c : Nat),
    genFold b gs i c = c ^^^ genFold b gs i 0 := by
  induction gs with
  | nil => intro i c; simp [genFold]
  | cons g gs ih =>
    intro i c
    unfold genFold
    rw [ih (i + 1) (if (b >>> i) &&& 1 = 1 then c ^^^ g else c),
      ih (i + 1) (if (b >>> i) &&& 1 = 1 then 0 ^^^ g else 0)]
    split
    · simp [Nat.xor_assoc]
    · simp

theorem bit_cases (x : Nat) : x &&& 1 = 0 ∨ x &&& 1 = 1 := by
  have : x &&& 1 ≤ 1 := Nat.and_le_right
  omega

theorem genFold_linear (a b : Nat) (gs : List Nat) : ∀ (i : Nat),
    genFold (a ^^^ b) gs i 0 = genFold a gs i 0 ^^^ genFold b gs i 0 := by
  induction gs with
  | nil => intro i; simp [genFold]
  | cons g gs ih =>
    intro i
    unfold genFold
    rw [genFold_xor (a ^^^ b), genFold_xor a, genFold_xor b, ih (i + 1)]
    have hx : ((a ^^^ b) >>> i) &&& 1 = ((a >>> i) &&& 1) ^^^ ((b >>> i) &&& 1) := by
      rw [Nat.shiftRight_xor_distrib, Nat.and_xor_distrib_right]
    rw [hx]
    rcases bit_cases (a >>> i) with ha | ha <;> rcases bit_cases (b >>> i) with hb | hb
    · simp [ha, hb]
    · simp [ha, hb]; ac_rfl
    · simp [ha, hb]; ac_rfl
    · simp only [ha, hb, Nat.xor_self, Nat.zero_xor]
      simp only [show (0 : Nat) = 1 ↔ False from by decide, if_false, if_true]
      have : ∀ x y : Nat, g ^^^ x ^^^ (g ^^^ y) = x ^^^ y := by
        intro x y
        rw [Nat.xor_assoc, ← Nat.xor_assoc x g y, Nat.xor_comm x g, Nat.xor_assoc g x y,
          ← Nat.xor_assoc g g, Nat.xor_self, Nat.zero_xor]
      rw [this, Nat.zero_xor]

theorem G_linear (a b : Nat) : G (a ^^^ b) = G a ^^^ G b := genFold_linear a b _ 0

theorem G_zero : G 0 = 0 := by decide

theorem G_lt (b : Nat) : G b < 2 ^ 30 := by
  have key : ∀ (gs : List Nat) (i c : Nat), (∀ g ∈ gs, g < 2 ^ 30) → c < 2 ^ 30 →
      genFold b gs i c < 2 ^ 30 := by
    intro gs
    induction gs with
    | nil => intro i c _ hc; simpa [genFold] using hc
    | cons g gs ih =>
      intro i c hg hc
      unfold genFold
      apply ih
      · intro x hx; exact hg x (by simp [hx])
      · split
        · exact Nat.xor_lt_two_pow hc (hg g (by simp))
        · exact hc
  exact key _ 0 0 (by decide) (by decide)

/-- only the low five bits of `b` matter, and they are recovered from the low five bits of `G b` -/
theorem G_low_injective : ∀ t, t < 32 → G t % 32 = 0 → t = 0 := by decide

/-! ### one round -/

theorem step_eq (chk v : Nat) :
    polymodStep chk v = ((chk &&& 0x1ffffff) <<< 5) ^^^ v ^^^ G (chk >>> 25) := by
  unfold polymodStep G
  simp only
  rw [genFold_xor]

theorem step_linear (a b v w : Nat) :
    polymodStep (a ^^^ b) (v ^^^ w) = polymodStep a v ^^^ polymodStep b w := by
  simp only [step_eq, Nat.shiftRight_xor_distrib, G_linear, Nat.and_xor_distrib_right,
    Nat.shiftLeft_xor_distrib]
  ac_rfl

theorem step_zero_left (v : Nat) : polymodStep 0 v = v := by
  rw [step_eq]; simp [G_zero]

/-- the state transition with input 0 -/
def L (s : Nat) : Nat := polymodStep s 0

theorem step_eq_L (s v : Nat) : polymodStep s v = L s ^^^ v := by
  have := step_linear s 0 0 v
  simp only [Nat.xor_zero, Nat.zero_xor] at this
  rw [this, step_zero_left]; rfl

theorem L_zero : L 0 = 0 := by simp [L, step_zero_left]

theorem step_lt (s v : Nat) (hv : v < 2 ^ 30) : polymodStep s v < 2 ^ 30 := by
  rw [step_eq]
  apply Nat.xor_lt_two_pow
  · apply Nat.xor_lt_two_pow _ hv
    have h1 : s &&& 0x1ffffff < 2 ^ 25 := Nat.and_lt_two_pow s (by decide)
    rw [Nat.shiftLeft_eq]
    omega
  · exact G_lt _

theorem L_lt (s : Nat) : L s < 2 ^ 30 := step_lt s 0 (by decide)

/-- `L` has trivial kernel on 30-bit states -/
theorem L_eq_zero (s : Nat) (hs : s < 2 ^ 30) (h : L s = 0) : s = 0 := by
  unfold L at h
  rw [step_eq] at h
  simp only [Nat.xor_zero] at h
  have ht : s >>> 25 < 32 := by
    rw [Nat.shiftRight_eq_div_pow]
    exact Nat.div_lt_of_lt_mul (by simpa using hs)
  -- low five bits
  have hmod : (((s &&& 0x1ffffff) <<< 5) ^^^ G (s >>> 25)) % 2 ^ 5 = 0 := by rw [h]
  rw [Nat.xor_mod_two_pow] at hmod
  have hsh : ((s &&& 0x1ffffff) <<< 5) % 2 ^ 5 = 0 := by
    rw [Nat.shiftLeft_eq]; exact Nat.mul_mod_left _ _
  rw [hsh, Nat.zero_xor] at hmod
  have ht0 : s >>> 25 = 0 := G_low_injective _ ht (by simpa using hmod)
  rw [ht0, G_zero, Nat.xor_zero] at h
  have hand : s &&& 0x1ffffff = 0 := Nat.shiftLeft_eq_zero_iff.mp h
  have hs25 : s < 2 ^ 25 := by
    rw [Nat.shiftRight_eq_div_pow] at ht0
    have := Nat.div_add_mod s (2 ^ 25)
    have hm := Nat.mod_lt s (show 0 < 2 ^ 25 by decide)
    rw [ht0] at this
    omega
  have : s &&& (2 ^ 25 - 1) = s := Nat.and_two_pow_sub_one_of_lt_two_pow hs25
  have e : (2 : Nat) ^ 25 - 1 = 0x1ffffff := by decide
  rw [e] at this
  omega

/-! ### runs -/

/-- `bech32Polymod` started from an arbitrary state -/
def pm (c : Nat) (vs : List Nat) : Nat := vs.foldl polymodStep c

theorem polymod_eq_pm (vs : List Nat) : polymod vs = pm 1 vs := rfl

theorem pm_append (c : Nat) (xs ys : List Nat) : pm c (xs ++ ys) = pm (pm c xs) ys := by
  simp [pm, List.foldl_append]

/-- XOR-linearity of the checksum computation -/
theorem pm_linear : ∀ (xs ys : List Nat) (c d : Nat), xs.length = ys.length →
    pm (c ^^^ d) (List.zipWith (· ^^^ ·) xs ys) = pm c xs ^^^ pm d ys := by
  intro xs
  induction xs with
  | nil =>
    intro ys c d h
    cases ys with
    | nil => simp [pm]
    | cons _ _ => simp at h
  | cons x xs ih =>
    intro ys c d h
    cases ys with
    | nil => simp at h
    | cons y ys =>
      simp only [List.zipWith_cons_cons, pm, List.foldl_cons]
      rw [step_linear]
      exact ih ys _ _ (by simpa using h)

theorem pm_lt (c : Nat) (hc : c < 2 ^ 30) (vs : List Nat) (hv : ∀ v ∈ vs, v < 2 ^ 30) :
    pm c vs < 2 ^ 30 := by
  induction vs generalizing c with
  | nil => simpa [pm] using hc
  | cons v vs ih =>
    simp only [pm, List.foldl_cons]
    exact ih _ (step_lt c v (hv v (by simp))) (fun x hx => hv x (by simp [hx]))

/-! ### the six checksum values -/

/-- from state 0, values below 32 are shifted in without reduction while the state is below 2^25 -/
theorem step_small (s c : Nat) (hs : s < 2 ^ 25) (hc : c < 32) : polymodStep s c = s * 32 + c := by
  rw [step_eq]
  have ht : s >>> 25 = 0 := by
    rw [Nat.shiftRight_eq_div_pow]; exact Nat.div_eq_of_lt hs
  have hand : s &&& 0x1ffffff = s := by
    have := Nat.and_two_pow_sub_one_of_lt_two_pow hs
    have e : (2 : Nat) ^ 25 - 1 = 0x1ffffff := by decide
    rw [e] at this; exact this
  rw [ht, G_zero, Nat.xor_zero, hand]
  have h1 : s <<< 5 = s * 32 := by simp [Nat.shiftLeft_eq]
  have hor := Nat.shiftLeft_add_eq_or_of_lt (i := 5) (b := c) (by simpa using hc) s
  -- xor = or = add for disjoint bits
  have hxor : s <<< 5 ^^^ c = s <<< 5 ||| c := by
    apply Nat.eq_of_testBit_eq
    intro i
    simp only [Nat.testBit_xor, Nat.testBit_or, Nat.testBit_shiftLeft]
    by_cases hi : 5 ≤ i
    · have : c.testBit i = false := Nat.testBit_lt_two_pow (Nat.lt_of_lt_of_le (by simpa using hc)
        (Nat.pow_le_pow_right (by decide) hi))
      simp [this]
    · simp [hi]
  rw [hxor, ← hor, h1]

theorem pm_zero_six (c0 c1 c2 c3 c4 c5 : Nat) (h0 : c0 < 32) (h1 : c1 < 32) (h2 : c2 < 32)
    (h3 : c3 < 32) (h4 : c4 < 32) (h5 : c5 < 32) :
    pm 0 [c0, c1, c2, c3, c4, c5] =
      ((((c0 * 32 + c1) * 32 + c2) * 32 + c3) * 32 + c4) * 32 + c5 := by
  simp only [pm, List.foldl_cons, List.foldl_nil]
  rw [step_zero_left, step_small _ _ (by omega) h1, step_small _ _ (by omega) h2,
    step_small _ _ (by omega) h3, step_small _ _ (by omega) h4, step_small _ _ (by omega) h5]

/-- the six checksum values as an explicit list -/
theorem createChecksum_eq (hrp : Bytes) (values : List Nat) :
    createChecksum hrp values =
      (let t := pm 1 (hrpExpand hrp ++ values ++ [0, 0, 0, 0, 0, 0]) ^^^ 1
       [t / 2 ^ 25 % 32, t / 2 ^ 20 % 32, t / 2 ^ 15 % 32, t / 2 ^ 10 % 32, t / 2 ^ 5 % 32, t % 32]) := by
  unfold createChecksum
  have e31 : (31 : Nat) = 2 ^ 5 - 1 := by decide
  simp only [polymod_eq_pm, List.range, List.range.loop, List.map_cons, List.map_nil,
    Nat.shiftRight_eq_div_pow, e31, Nat.and_two_pow_sub_one_eq_mod]
  simp

theorem createChecksum_lt (hrp : Bytes) (values : List Nat) : ∀ c ∈ createChecksum hrp values, c < 32 := by
  rw [createChecksum_eq]
  intro c hc
  simp only [List.mem_cons, List.mem_nil_iff, or_false] at hc
  rcases hc with h | h | h | h | h | h <;> subst h <;> exact Nat.mod_lt _ (by decide)

theorem createChecksum_length (hrp : Bytes) (values : List Nat) : (createChecksum hrp values).length = 6 := by
  rw [createChecksum_eq]; rfl

theorem hrpExpand_lt (hrp : Bytes) : ∀ v ∈ hrpExpand hrp, v < 2 ^ 30 := by
  intro v hv
  unfold hrpExpand at hv
  simp only [List.mem_append, List.mem_map, List.mem_cons, List.mem_nil_iff, or_false] at hv
  rcases hv with (⟨c, _, rfl⟩ | rfl) | ⟨c, _, rfl⟩
  · have := c.toNat_lt
    rw [Nat.shiftRight_eq_div_pow]
    have : c.toNat / 2 ^ 5 ≤ c.toNat := Nat.div_le_self _ _
    omega
  · decide
  · have : c.toNat &&& 31 ≤ 31 := Nat.and_le_right
    omega

/-- splitting a run over `base ++ tail` by linearity: the tail contributes `pm 0 tail` -/
theorem pm_tail (P : Nat) (cs : List Nat) :
    pm P cs = pm P (List.replicate cs.length 0) ^^^ pm 0 cs := by
  have hz : List.zipWith (· ^^^ ·) (List.replicate cs.length 0) cs = cs := by
    induction cs with
    | nil => rfl
    | cons c cs ih => simp [List.replicate_succ, ih]
  have := pm_linear (List.replicate cs.length 0) cs P 0 (by simp)
  rw [hz, Nat.xor_zero] at this
  exact this

theorem xor_cancel {a b : Nat} (h : a ^^^ b = 0) : a = b := by
  apply Nat.eq_of_testBit_eq
  intro i
  have := congrArg (fun x => x.testBit i) h
  simp only [Nat.testBit_xor, Nat.zero_testBit] at this
  cases ha : a.testBit i <;> cases hb : b.testBit i <;> simp [ha, hb] at this ⊢

theorem verify_iff (hrp : Bytes) (vals : List Nat) :
    verifyChecksum hrp vals = true ↔ pm 1 (hrpExpand hrp ++ vals) = 1 := by
  unfold verifyChecksum Gen.Guards.bech32_bech32VerifyChecksum_0
  rw [decide_eq_true_iff]
  show ((pm 1 (hrpExpand hrp ++ vals) : Nat) : Int) = 1 ↔ pm 1 (hrpExpand hrp ++ vals) = 1
  omega

theorem six_zeros : ([0, 0, 0, 0, 0, 0] : List Nat) = List.replicate 6 0 := rfl

/-- the checksum produced by `bech32CreateChecksum` passes `bech32VerifyChecksum` -/
theorem verify_create (hrp : Bytes) (values : List Nat) (hv : ∀ v ∈ values, v < 32) :
    verifyChecksum hrp (values ++ createChecksum hrp values) = true := by
  rw [verify_iff]
  have hbase : ∀ v ∈ hrpExpand hrp ++ values, v < 2 ^ 30 := by
    intro v h
    rw [List.mem_append] at h
    rcases h with h | h
    · exact hrpExpand_lt hrp v h
    · have := hv v h; omega
  rw [← List.append_assoc, pm_append, pm_tail, createChecksum_length]
  have hT : pm (pm 1 (hrpExpand hrp ++ values)) (List.replicate 6 0) =
      pm 1 (hrpExpand hrp ++ values ++ [0, 0, 0, 0, 0, 0]) := by
    rw [six_zeros]; exact (pm_append _ _ _).symm
  rw [hT, createChecksum_eq]
  simp only
  generalize hTT : pm 1 (hrpExpand hrp ++ values ++ [0, 0, 0, 0, 0, 0]) = T
  have hTlt : T < 2 ^ 30 := by
    rw [← hTT]
    apply pm_lt 1 (by decide)
    intro v h
    rw [List.mem_append] at h
    rcases h with h | h
    · exact hbase v h
    · have hv0 : v = 0 := by simpa using h
      subst hv0; decide
  have hT1 : T ^^^ 1 < 2 ^ 30 := Nat.xor_lt_two_pow hTlt (by decide)
  rw [pm_zero_six _ _ _ _ _ _ (Nat.mod_lt _ (by decide)) (Nat.mod_lt _ (by decide))
    (Nat.mod_lt _ (by decide)) (Nat.mod_lt _ (by decide)) (Nat.mod_lt _ (by decide))
    (Nat.mod_lt _ (by decide))]
  have hh : ((((((T ^^^ 1) / 2 ^ 25 % 32) * 32 + (T ^^^ 1) / 2 ^ 20 % 32) * 32 + (T ^^^ 1) / 2 ^ 15 % 32) * 32 +
      (T ^^^ 1) / 2 ^ 10 % 32) * 32 + (T ^^^ 1) / 2 ^ 5 % 32) * 32 + (T ^^^ 1) % 32 = T ^^^ 1 := by
    generalize (T ^^^ 1) = X at hT1 ⊢
    omega
  rw [hh, ← Nat.xor_assoc, Nat.xor_self, Nat.zero_xor]

/-- … and it is the only six-value tail that does -/
theorem verify_unique (hrp : Bytes) (values cs : List Nat) (hv : ∀ v ∈ values, v < 32)
    (hcl : cs.length = 6) (hc : ∀ c ∈ cs, c < 32)
    (h : verifyChecksum hrp (values ++ cs) = true) : cs = createChecksum hrp values := by
  have h1 : pm 1 (hrpExpand hrp ++ (values ++ cs)) = 1 := (verify_iff _ _).mp h
  rw [← List.append_assoc, pm_append, pm_tail, hcl] at h1
  have hT : pm (pm 1 (hrpExpand hrp ++ values)) (List.replicate 6 0) =
      pm 1 (hrpExpand hrp ++ values ++ [0, 0, 0, 0, 0, 0]) := by
    rw [six_zeros]; exact (pm_append _ _ _).symm
  rw [hT] at h1
  rw [createChecksum_eq]
  simp only
  generalize hTT : pm 1 (hrpExpand hrp ++ values ++ [0, 0, 0, 0, 0, 0]) = T at h1 ⊢
  have hTlt : T < 2 ^ 30 := by
    rw [← hTT]
    apply pm_lt 1 (by decide)
    intro v hm
    simp only [List.mem_append] at hm
    rcases hm with (h | h) | h
    · exact hrpExpand_lt hrp v h
    · have := hv v h; omega
    · have hv0 : v = 0 := by simpa using h
      subst hv0; decide
  -- pm 0 cs = T ^^^ 1
  have hx : pm 0 cs = T ^^^ 1 := by
    have : (T ^^^ 1) ^^^ pm 0 cs = 0 := by
      rw [Nat.xor_comm T 1, Nat.xor_assoc, h1, Nat.xor_self]
    exact (xor_cancel this).symm
  have hT1 : T ^^^ 1 < 2 ^ 30 := Nat.xor_lt_two_pow hTlt (by decide)
  match cs, hcl, hc, hx with
  | [c0, c1, c2, c3, c4, c5], _, hc, hx =>
    have b0 := hc c0 (by simp)
    have b1 := hc c1 (by simp)
    have b2 := hc c2 (by simp)
    have b3 := hc c3 (by simp)
    have b4 := hc c4 (by simp)
    have b5 := hc c5 (by simp)
    rw [pm_zero_six _ _ _ _ _ _ b0 b1 b2 b3 b4 b5] at hx
    generalize (T ^^^ 1) = X at hx hT1 ⊢
    subst hx
    have e0 : (((((c0 * 32 + c1) * 32 + c2) * 32 + c3) * 32 + c4) * 32 + c5) / 2 ^ 25 % 32 = c0 := by omega
    have e1 : (((((c0 * 32 + c1) * 32 + c2) * 32 + c3) * 32 + c4) * 32 + c5) / 2 ^ 20 % 32 = c1 := by omega
    have e2 : (((((c0 * 32 + c1) * 32 + c2) * 32 + c3) * 32 + c4) * 32 + c5) / 2 ^ 15 % 32 = c2 := by omega
    have e3 : (((((c0 * 32 + c1) * 32 + c2) * 32 + c3) * 32 + c4) * 32 + c5) / 2 ^ 10 % 32 = c3 := by omega
    have e4 : (((((c0 * 32 + c1) * 32 + c2) * 32 + c3) * 32 + c4) * 32 + c5) / 2 ^ 5 % 32 = c4 := by omega
    have e5 : (((((c0 * 32 + c1) * 32 + c2) * 32 + c3) * 32 + c4) * 32 + c5) % 32 = c5 := by omega
    rw [e0, e1, e2, e3, e4, e5]

/-! ### error detection: one or two substituted values -/

/-- `L` applied `k` times -/
def Lk : Nat → Nat → Nat
  | 0, s => s
  | k + 1, s => Lk k (L s)

theorem Lk_lt (k s : Nat) (hs : s < 2 ^ 30) : Lk k s < 2 ^ 30 := by
  induction k generalizing s with
  | zero => exact hs
  | succ k ih => exact ih _ (L_lt s)

theorem Lk_ne_zero (k s : Nat) (hs : s < 2 ^ 30) (h0 : s ≠ 0) : Lk k s ≠ 0 := by
  induction k generalizing s with
  | zero => exact h0
  | succ k ih =>
    apply ih _ (L_lt s)
    intro h; exact h0 (L_eq_zero s hs h)

theorem Lk_succ' (k s : Nat) : Lk (k + 1) s = L (Lk k s) := by
  induction k generalizing s with
  | zero => rfl
  | succ k ih => simp only [Lk]; rw [← ih]; rfl

/-- `L^1 … L^fuel` of `s` all lie outside the symbol range 0..31 -/
def farFrom : Nat → Nat → Bool
  | 0, _ => true
  | fuel + 1, s => decide (32 ≤ polymodStep s 0) && farFrom fuel (polymodStep s 0)

/-- the maximal distance covered by the kernel-checked table: data parts of up to 89 values
    (a 90-character string has at most 88) -/
def maxDist : Nat := 88

def tableOK (n : Nat) : Bool := (List.range 31).all (fun a => farFrom n (a + 1))

set_option maxRecDepth 100000 in
/-- the kernel evaluates 31 × 88 rounds of the polymod over the regenerated generator -/
theorem table_ok : tableOK maxDist = true := by decide +kernel

theorem farFrom_spec : ∀ (fuel s d : Nat), farFrom fuel s = true → 1 ≤ d → d ≤ fuel → 32 ≤ Lk d s := by
  intro fuel
  induction fuel with
  | zero => intro s d _ h1 h2; omega
  | succ fuel ih =>
    intro s d h h1 h2
    simp only [farFrom, Bool.and_eq_true, decide_eq_true_eq] at h
    cases d with
    | zero => omega
    | succ d =>
      simp only [Lk]
      by_cases hd : d = 0
      · subst hd; exact h.1
      · exact ih (L s) d h.2 (by omega) (by omega)

theorem far (a d : Nat) (ha1 : 1 ≤ a) (ha : a < 32) (hd1 : 1 ≤ d) (hd : d ≤ maxDist) : 32 ≤ Lk d a := by
  have h := table_ok
  unfold tableOK at h
  rw [List.all_eq_true] at h
  have := h (a - 1) (by simp; omega)
  have e : a - 1 + 1 = a := by omega
  rw [e] at this
  exact farFrom_spec _ _ d this hd1 hd

/-- number of non-zero entries -/
def nz (e : List Nat) : Nat := e.countP (· ≠ 0)

theorem nz_cons_zero (e : List Nat) : nz (0 :: e) = nz e := by
  unfold nz; rw [List.countP_cons]; simp

theorem nz_cons_ne {x : Nat} (hx : x ≠ 0) (e : List Nat) : nz (x :: e) = nz e + 1 := by
  unfold nz; rw [List.countP_cons]; simp [hx]

theorem pm_zeros (e : List Nat) (h : nz e = 0) : ∀ s, pm s e = Lk e.length s := by
  induction e with
  | nil => intro s; rfl
  | cons x e ih =>
    intro s
    have hx : x = 0 := by
      by_cases hx : x = 0
      · exact hx
      · rw [nz_cons_ne hx] at h; omega
    subst hx
    have h' : nz e = 0 := by rw [nz_cons_zero] at h; exact h
    simp only [pm, List.foldl_cons, List.length_cons, Lk]
    exact ih h' _

theorem xor_ge_32 (y x : Nat) (hy : 32 ≤ y) (hx : x < 32) : y ^^^ x ≠ 0 := by
  intro h
  have := xor_cancel h
  omega

/-- after one error value `a` followed by `dist` zeros, at most one more error cannot bring the
    state back to zero -/
theorem one_more (e : List Nat) : ∀ (a dist : Nat), 1 ≤ a → a < 32 → (∀ x ∈ e, x < 32) →
    nz e ≤ 1 → dist + e.length ≤ maxDist → pm (Lk dist a) e ≠ 0 := by
  induction e with
  | nil =>
    intro a dist ha1 ha _ _ _
    exact Lk_ne_zero dist a (by omega) (by omega)
  | cons x e ih =>
    intro a dist ha1 ha hlt hnz hlen
    simp only [pm, List.foldl_cons]
    rw [step_eq_L, ← Lk_succ']
    simp only [List.length_cons] at hlen
    have hxlt : x < 32 := hlt x (by simp)
    have hlt' : ∀ y ∈ e, y < 32 := fun y hy => hlt y (by simp [hy])
    by_cases hx : x = 0
    · subst hx
      rw [Nat.xor_zero]
      have hnz' : nz e ≤ 1 := by rw [nz_cons_zero] at hnz; exact hnz
      exact ih a (dist + 1) ha1 ha hlt' hnz' (by omega)
    · have hnz' : nz e = 0 := by
        rw [nz_cons_ne hx] at hnz; omega
      have hfar : 32 ≤ Lk (dist + 1) a := far a (dist + 1) ha1 ha (by omega) (by omega)
      have hs : Lk (dist + 1) a ^^^ x ≠ 0 := xor_ge_32 _ _ hfar hxlt
      have hslt : Lk (dist + 1) a ^^^ x < 2 ^ 30 :=
        Nat.xor_lt_two_pow (Lk_lt _ _ (by omega)) (by omega)
      show pm (Lk (dist + 1) a ^^^ x) e ≠ 0
      rw [pm_zeros e hnz']
      exact Lk_ne_zero _ _ hslt hs

/-- an error pattern with one or two non-zero values has a non-zero syndrome -/
theorem syndrome_ne_zero (e : List Nat) : (∀ x ∈ e, x < 32) → 1 ≤ nz e → nz e ≤ 2 →
    e.length ≤ maxDist + 1 → pm 0 e ≠ 0 := by
  induction e with
  | nil => intro _ h; simp [nz] at h
  | cons x e ih =>
    intro hlt h1 h2 hlen
    simp only [pm, List.foldl_cons]
    rw [step_zero_left]
    simp only [List.length_cons] at hlen
    have hxlt : x < 32 := hlt x (by simp)
    have hlt' : ∀ y ∈ e, y < 32 := fun y hy => hlt y (by simp [hy])
    by_cases hx : x = 0
    · subst hx
      rw [nz_cons_zero] at h1 h2
      exact ih hlt' h1 h2 (by omega)
    · rw [nz_cons_ne hx] at h2
      exact one_more e x 0 (by omega) hxlt hlt' (by omega) (by omega)

/-- Hamming distance of two value lists of the same length -/
def hamming : List Nat → List Nat → Nat
  | x :: xs, y :: ys => (if x = y then 0 else 1) + hamming xs ys
  | _, _ => 0

theorem nz_zipWith_xor : ∀ (xs ys : List Nat), xs.length = ys.length →
    nz (List.zipWith (· ^^^ ·) xs ys) = hamming xs ys := by
  intro xs
  induction xs with
  | nil => intro ys h; cases ys <;> simp [nz, hamming]
  | cons x xs ih =>
    intro ys h
    cases ys with
    | nil => simp at h
    | cons y ys =>
      have := ih ys (by simpa using h)
      unfold nz at this ⊢
      simp only [List.zipWith_cons_cons, List.countP_cons, hamming, this]
      by_cases hxy : x = y
      · subst hxy; simp
      · have : x ^^^ y ≠ 0 := fun h0 => hxy (xor_cancel h0)
        simp [hxy, this]; omega

theorem zipWith_xor_lt : ∀ (xs ys : List Nat), (∀ x ∈ xs, x < 32) → (∀ y ∈ ys, y < 32) →
    ∀ z ∈ List.zipWith (· ^^^ ·) xs ys, z < 32 := by
  intro xs
  induction xs with
  | nil => intro ys _ _ z hz; simp at hz
  | cons x xs ih =>
    intro ys hx hy z hz
    cases ys with
    | nil => simp at hz
    | cons y ys =>
      simp only [List.zipWith_cons_cons, List.mem_cons] at hz
      rcases hz with hz | hz
      · subst hz
        exact Nat.xor_lt_two_pow (n := 5) (hx x (by simp)) (hy y (by simp))
      · exact ih ys (fun a ha => hx a (by simp [ha])) (fun a ha => hy a (by simp [ha])) z hz

/-- If `data` verifies under `hrp`, then no `data'` of the same length that differs from it in one
    or two positions verifies (data parts of up to 89 values). -/
theorem detects_two (hrp : Bytes) (data data' : List Nat) (hlen : data'.length = data.length)
    (hd : ∀ x ∈ data, x < 32) (hd' : ∀ x ∈ data', x < 32) (hmax : data.length ≤ maxDist + 1)
    (hv : verifyChecksum hrp data = true) (h1 : 1 ≤ hamming data data') (h2 : hamming data data' ≤ 2) :
    verifyChecksum hrp data' = false := by
  have hv1 : pm 1 (hrpExpand hrp ++ data) = 1 := (verify_iff _ _).mp hv
  have hgoal : ¬ verifyChecksum hrp data' = true → verifyChecksum hrp data' = false := by
    intro h; simpa using h
  apply hgoal
  rw [verify_iff]
  -- data' = data ⊕ e
  have hz : ∀ (xs ys : List Nat), xs.length = ys.length →
      List.zipWith (· ^^^ ·) xs (List.zipWith (· ^^^ ·) xs ys) = ys := by
    intro xs
    induction xs with
    | nil => intro ys h; cases ys <;> simp_all
    | cons x xs ih =>
      intro ys h
      cases ys with
      | nil => simp at h
      | cons y ys =>
        simp only [List.zipWith_cons_cons]
        rw [ih ys (by simpa using h), ← Nat.xor_assoc, Nat.xor_self, Nat.zero_xor]
  have hlin := pm_linear data (List.zipWith (· ^^^ ·) data data') (pm 1 (hrpExpand hrp)) 0
    (by simp [hlen])
  rw [hz data data' hlen.symm, Nat.xor_zero] at hlin
  rw [pm_append, hlin, ← pm_append, hv1]
  show ¬ (1 ^^^ pm 0 (List.zipWith (· ^^^ ·) data data') = 1)
  have hsyn := syndrome_ne_zero (List.zipWith (· ^^^ ·) data data')
    (zipWith_xor_lt _ _ hd hd') (by rw [nz_zipWith_xor _ _ hlen.symm]; exact h1)
    (by rw [nz_zipWith_xor _ _ hlen.symm]; exact h2) (by simp [hlen]; exact hmax)
  intro h
  apply hsyn
  have : 1 ^^^ (1 ^^^ pm 0 (List.zipWith (· ^^^ ·) data data')) = 1 ^^^ 1 := by rw [h]
  rw [← Nat.xor_assoc, Nat.xor_self, Nat.zero_xor] at this
  simpa using this

end BtcVerif.Proofs.Bech32
