/- C16 helper lemmas, part 2: an explicit inversion principle for the step function (`StepI`), used by every
invariant proof.  `Step P s l s' → StepI P s l s'` is proved once; the constructors name the protocol's
transitions. -/
import BtcVerif.Proofs.Stream

namespace BtcVerif.Model.Stream
open BtcVerif.Gen.Guards

/-- phase changes of a worker that involve nobody else (the height stays the same) -/
inductive WLocal (s : State) (w : Worker) : WPhase → Label → Prop
  | reqHash : w.ph = .next → WLocal s w .hashWait (some (.req w.pos .hash))
  | hashOk : w.ph = .hashWait → WLocal s w .blockReq (some (.rsp w.pos .hash .ok))
  | hashErr : w.ph = .hashWait → WLocal s w .offerErr (some (.rsp w.pos .hash .err))
  | reqBlock : w.ph = .blockReq → WLocal s w .blockWait (some (.req w.pos .block))
  | blockOk : w.ph = .blockWait → WLocal s w (.offer true) (some (.rsp w.pos .block .ok))
  | blockNolink : w.ph = .blockWait → WLocal s w (.offer false) (some (.rsp w.pos .block .nolink))
  | blockErr : w.ph = .blockWait → WLocal s w .offerErr (some (.rsp w.pos .block .err))
  | ctxDone (g : Bool) : w.ph = .offer g → s.workerCtxDone = true → WLocal s w .done none

inductive StepI (P : Params) (s : State) : Label → State → Prop
  | wLocal (i : Nat) (w : Worker) (ph' : WPhase) (l : Label) :
      s.workers[i]? = some w → WLocal s w ph' l → StepI P s l (setW s i { w with ph := ph' })
  | wGiveC (i : Nat) (w : Worker) (g : Bool) :
      s.workers[i]? = some w → w.ph = .offer g → P.mode = .unordered → s.cph = .call →
      StepI P s none { setW s i (advance P w) with cph := .got w.pos }
  | wErrC (i : Nat) (w : Worker) :
      s.workers[i]? = some w → w.ph = .offerErr → P.mode = .unordered → s.cph = .call →
      StepI P s none { setW s i { w with ph := .done } with cph := .gotErr }
  | wGiveR (i : Nat) (w : Worker) (g : Bool) :
      s.workers[i]? = some w → w.ph = .offer g → P.mode ≠ .unordered → s.rph = .loop →
      StepI P s none { setW s i (advance P w) with
                        rph := .rel, buf := if g then insertSorted w.pos s.buf else s.buf }
  | wErrR (i : Nat) (w : Worker) :
      s.workers[i]? = some w → w.ph = .offerErr → P.mode ≠ .unordered → s.rph = .loop →
      StepI P s none { setW s i { w with ph := .done } with rph := .sendErr }
  | closer : s.started = true → s.closed = false → allDone s.workers = true → StepI P s none { s with closed := true }
  | rF0 : s.rph = .f0 → StepI P s (some (.req P.lo .hash)) { s with rph := .f1 }
  | rF1ok : s.rph = .f1 → StepI P s (some (.rsp P.lo .hash .ok)) { s with rph := .f1b }
  | rF1err : s.rph = .f1 → StepI P s (some (.rsp P.lo .hash .err)) { s with rph := .sendErr }
  | rF1b : s.rph = .f1b → StepI P s (some (.req P.lo .block)) { s with rph := .f2 }
  | rF2ok : s.rph = .f2 → StepI P s (some (.rsp P.lo .block .ok)) (afterFirst P s true)
  | rF2nolink : s.rph = .f2 → StepI P s (some (.rsp P.lo .block .nolink)) (afterFirst P s false)
  | rF2err : s.rph = .f2 → StepI P s (some (.rsp P.lo .block .err)) { s with rph := .sendErr }
  | rS0 : s.rph = .s0 → s.cph = .call →
      StepI P s none (loopHead P { s with cph := .got P.lo, cur := P.lo + 1 })
  | rLoopCancel : s.rph = .loop → (s.cancel0 || s.cancel1) = true → StepI P s none (exitX s)
  | rLoopClosed : s.rph = .loop → s.closed = true → StepI P s none { s with closedSeen := true, rph := .rel }
  | rRelSend : s.rph = .rel → s.latestOk = true → s.cur ∈ s.buf →
      StepI P s none { s with rph := .snd s.cur, buf := s.buf.erase s.cur }
  | rRelErr : s.rph = .rel → ¬ (s.latestOk = true ∧ s.cur ∈ s.buf) → s.closedSeen = true →
      StepI P s none { s with rph := .sendErr }
  | rRelLoop : s.rph = .rel → ¬ (s.latestOk = true ∧ s.cur ∈ s.buf) → s.closedSeen = false →
      StepI P s none (loopHead P s)
  | rSnd (h : Nat) : s.rph = .snd h → s.cph = .call →
      StepI P s none { s with cph := .got h, cur := s.cur + 1, rph := .rel }
  | rSendErr : s.rph = .sendErr → s.cph = .call → StepI P s none (exitX { s with cph := .gotErr })
  | cCall : s.cph = .idle → (P.mode = .utxo → P.lo + s.cnt ≤ P.hi) → StepI P s none { s with cph := .call }
  | cRetOk : s.cph = .idle → P.mode = .utxo → ¬ (P.lo + s.cnt ≤ P.hi) →
      StepI P s (some (.utxoReturn true)) { s with cph := .finished, cancel1 := true, ret := some true }
  | cSeeEnd : s.cph = .call → s.streamClosed P = true → StepI P s none { s with cph := .gotEnd }
  | cDeliver (h : Nat) : s.cph = .got h →
      StepI P s (some (.deliver h)) { s with cph := .idle, delivered := s.delivered ++ [h],
                                              cnt := if P.mode = .utxo then s.cnt + 1 else s.cnt }
  | cErr : s.cph = .gotErr → P.mode ≠ .utxo →
      StepI P s (some .error) { s with cph := .idle, errs := s.errs + 1 }
  | cRetErr : (s.cph = .gotErr ∨ s.cph = .gotEnd) → P.mode = .utxo →
      StepI P s (some (.utxoReturn false)) { s with cph := .finished, cancel1 := true, ret := some false }
  | cEnd : s.cph = .gotEnd → P.mode ≠ .utxo →
      StepI P s (some .endOfStream) { s with cph := .finished, ended := true }
  | envCancel : s.cancel0 = false → StepI P s (some .cancel) { s with cancel0 := true }

theorem wsteps_inv {P s i w l s'} (hw : s.workers[i]? = some w) (h : (l, s') ∈ wsteps P s i w) :
    StepI P s l s' := by
  unfold wsteps at h
  split at h
  · simp at h
  · rename_i hp; simp only [List.mem_singleton, Prod.mk.injEq] at h
    obtain ⟨rfl, rfl⟩ := h; exact .wLocal i w _ _ hw (.reqHash hp)
  · rename_i hp; simp only [List.mem_cons, Prod.mk.injEq, List.not_mem_nil, or_false] at h
    rcases h with ⟨rfl, rfl⟩ | ⟨rfl, rfl⟩
    · exact .wLocal i w _ _ hw (.hashOk hp)
    · exact .wLocal i w _ _ hw (.hashErr hp)
  · rename_i hp; simp only [List.mem_singleton, Prod.mk.injEq] at h
    obtain ⟨rfl, rfl⟩ := h; exact .wLocal i w _ _ hw (.reqBlock hp)
  · rename_i hp; simp only [List.mem_cons, Prod.mk.injEq, List.not_mem_nil, or_false] at h
    rcases h with ⟨rfl, rfl⟩ | ⟨rfl, rfl⟩ | ⟨rfl, rfl⟩
    · exact .wLocal i w _ _ hw (.blockOk hp)
    · exact .wLocal i w _ _ hw (.blockNolink hp)
    · exact .wLocal i w _ _ hw (.blockErr hp)
  · rename_i g hp
    rcases List.mem_append.mp h with h | h
    · rw [mem_alt] at h; obtain ⟨hc, h⟩ := h
      simp only [Prod.mk.injEq] at h; obtain ⟨rfl, rfl⟩ := h
      exact .wLocal i w _ _ hw (.ctxDone g hp hc)
    · split at h
      · rename_i hm; rw [mem_alt] at h; obtain ⟨hc, h⟩ := h
        simp only [Prod.mk.injEq] at h; obtain ⟨rfl, rfl⟩ := h
        exact .wGiveC i w g hw hp hm (by simpa using hc)
      · rename_i hm; rw [mem_alt] at h; obtain ⟨hc, h⟩ := h
        simp only [Prod.mk.injEq] at h; obtain ⟨rfl, rfl⟩ := h
        exact .wGiveR i w g hw hp hm (by simpa using hc)
  · rename_i hp
    split at h
    · rename_i hm; rw [mem_alt] at h; obtain ⟨hc, h⟩ := h
      simp only [Prod.mk.injEq] at h; obtain ⟨rfl, rfl⟩ := h
      exact .wErrC i w hw hp hm (by simpa using hc)
    · rename_i hm; rw [mem_alt] at h; obtain ⟨hc, h⟩ := h
      simp only [Prod.mk.injEq] at h; obtain ⟨rfl, rfl⟩ := h
      exact .wErrR i w hw hp hm (by simpa using hc)
  · simp at h

theorem rsteps_inv {P s l s'} (h : (l, s') ∈ rsteps P s) : StepI P s l s' := by
  unfold rsteps at h
  split at h
  · rename_i hp; simp only [List.mem_singleton, Prod.mk.injEq] at h
    obtain ⟨rfl, rfl⟩ := h; exact .rF0 hp
  · rename_i hp; simp only [List.mem_cons, Prod.mk.injEq, List.not_mem_nil, or_false] at h
    rcases h with ⟨rfl, rfl⟩ | ⟨rfl, rfl⟩
    · exact .rF1ok hp
    · exact .rF1err hp
  · rename_i hp; simp only [List.mem_singleton, Prod.mk.injEq] at h
    obtain ⟨rfl, rfl⟩ := h; exact .rF1b hp
  · rename_i hp; simp only [List.mem_cons, Prod.mk.injEq, List.not_mem_nil, or_false] at h
    rcases h with ⟨rfl, rfl⟩ | ⟨rfl, rfl⟩ | ⟨rfl, rfl⟩
    · exact .rF2ok hp
    · exact .rF2nolink hp
    · exact .rF2err hp
  · rename_i hp; rw [mem_alt] at h; obtain ⟨hc, h⟩ := h
    simp only [Prod.mk.injEq] at h; obtain ⟨rfl, rfl⟩ := h
    exact .rS0 hp (by simpa using hc)
  · rename_i hp
    rcases List.mem_append.mp h with h | h
    · rw [mem_alt] at h; obtain ⟨hc, h⟩ := h
      simp only [Prod.mk.injEq] at h; obtain ⟨rfl, rfl⟩ := h
      exact .rLoopCancel hp hc
    · rw [mem_alt] at h; obtain ⟨hc, h⟩ := h
      simp only [Prod.mk.injEq] at h; obtain ⟨rfl, rfl⟩ := h
      exact .rLoopClosed hp hc
  · rename_i hp
    split at h
    · rename_i hc
      simp only [List.mem_singleton, Prod.mk.injEq] at h; obtain ⟨rfl, rfl⟩ := h
      simp only [Bool.and_eq_true, List.contains_eq_mem, decide_eq_true_eq] at hc
      exact .rRelSend hp hc.1 hc.2
    · rename_i hc
      simp only [Bool.and_eq_true, List.contains_eq_mem, decide_eq_true_eq] at hc
      split at h
      · rename_i hcs
        simp only [List.mem_singleton, Prod.mk.injEq] at h; obtain ⟨rfl, rfl⟩ := h
        exact .rRelErr hp hc hcs
      · rename_i hcs
        simp only [List.mem_singleton, Prod.mk.injEq] at h; obtain ⟨rfl, rfl⟩ := h
        exact .rRelLoop hp hc (by simpa using hcs)
  · rename_i hh hp; rw [mem_alt] at h; obtain ⟨hc, h⟩ := h
    simp only [Prod.mk.injEq] at h; obtain ⟨rfl, rfl⟩ := h
    exact .rSnd hh hp (by simpa using hc)
  · rename_i hp; rw [mem_alt] at h; obtain ⟨hc, h⟩ := h
    simp only [Prod.mk.injEq] at h; obtain ⟨rfl, rfl⟩ := h
    exact .rSendErr hp (by simpa using hc)
  · simp at h
  · simp at h

theorem csteps_inv {P s l s'} (h : (l, s') ∈ csteps P s) : StepI P s l s' := by
  unfold csteps at h
  split at h
  · rename_i hp
    split at h
    · rename_i hm
      split at h
      · rename_i hg
        simp only [List.mem_singleton, Prod.mk.injEq] at h; obtain ⟨rfl, rfl⟩ := h
        exact .cCall hp (fun _ => by simpa [blockscan_BlockScanner_UpdateUtxos_0] using hg)
      · rename_i hg
        simp only [List.mem_singleton, Prod.mk.injEq] at h; obtain ⟨rfl, rfl⟩ := h
        exact .cRetOk hp hm (by simpa [blockscan_BlockScanner_UpdateUtxos_0] using hg)
    · rename_i hm
      simp only [List.mem_singleton, Prod.mk.injEq] at h; obtain ⟨rfl, rfl⟩ := h
      exact .cCall hp (fun hm' => absurd hm' hm)
  · rename_i hp; rw [mem_alt] at h; obtain ⟨hc, h⟩ := h
    simp only [Prod.mk.injEq] at h; obtain ⟨rfl, rfl⟩ := h
    exact .cSeeEnd hp hc
  · rename_i hh hp
    simp only [List.mem_singleton, Prod.mk.injEq] at h; obtain ⟨rfl, rfl⟩ := h
    exact .cDeliver hh hp
  · rename_i hp
    split at h
    · rename_i hm
      simp only [List.mem_singleton, Prod.mk.injEq] at h; obtain ⟨rfl, rfl⟩ := h
      exact .cRetErr (.inl hp) hm
    · rename_i hm
      simp only [List.mem_singleton, Prod.mk.injEq] at h; obtain ⟨rfl, rfl⟩ := h
      exact .cErr hp hm
  · rename_i hp
    split at h
    · rename_i hm
      simp only [blockscan_BlockScanner_UpdateUtxos_1, if_true, List.mem_singleton, Prod.mk.injEq] at h
      obtain ⟨rfl, rfl⟩ := h
      exact .cRetErr (.inr hp) hm
    · rename_i hm
      simp only [List.mem_singleton, Prod.mk.injEq] at h; obtain ⟨rfl, rfl⟩ := h
      exact .cEnd hp hm
  · simp at h

/-- the inversion principle: every step of the executable step function is one of the named transitions;
a panicked state has no step -/
theorem step_inv {P s l s'} (h : Step P s l s') : s.panicked = false ∧ StepI P s l s' := by
  unfold Step steps at h
  split at h
  · simp at h
  · rename_i hpan
    refine ⟨by simpa using hpan, ?_⟩
    simp only [List.mem_append] at h
    rcases h with (((h | h) | h) | h) | h
    · rcases (mem_forWorkers _ _ _).mp h with ⟨i, w, hw, hx⟩
      exact wsteps_inv hw hx
    · unfold closerSteps at h
      rw [mem_alt] at h; obtain ⟨hc, h⟩ := h
      simp only [Prod.mk.injEq] at h; obtain ⟨rfl, rfl⟩ := h
      simp only [Bool.and_eq_true, Bool.not_eq_true'] at hc
      exact .closer hc.1.1 hc.1.2 hc.2
    · exact rsteps_inv h
    · exact csteps_inv h
    · unfold envSteps at h
      rw [mem_alt] at h; obtain ⟨hc, h⟩ := h
      simp only [Prod.mk.injEq] at h; obtain ⟨rfl, rfl⟩ := h
      exact .envCancel (by simpa using hc)

end BtcVerif.Model.Stream
