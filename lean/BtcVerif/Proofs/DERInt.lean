/-
  C11 — helper lemmas, part 2: `big.Int.Bytes()` / `SetBytes` / `BitLen` as modelled by
  `beMin` / `beNat` / `bitLen`, and the content bytes of a DER integer.
-/
import BtcVerif.Proofs.DER

namespace BtcVerif.Model.DER
open BtcVerif BtcVerif.Gen.Guards BtcVerif.Spec

/-! ### big-endian values -/

theorem leNat_append (xs ys : Bytes) : leNat (xs ++ ys) = leNat xs + 256 ^ xs.length * leNat ys := by
  induction xs with
  | nil => simp [leNat]
  | cons b xs ih =>
    show b.toNat + 256 * leNat (xs ++ ys) = (b.toNat + 256 * leNat xs) + 256 ^ (xs.length + 1) * leNat ys
    rw [ih, Nat.pow_succ, Nat.mul_comm (256 ^ xs.length) 256, Nat.mul_assoc]
    generalize 256 ^ xs.length * leNat ys = t
    omega

theorem beNat_cons (b : UInt8) (rest : Bytes) :
    beNat (b :: rest) = b.toNat * 256 ^ rest.length + beNat rest := by
  unfold beNat
  rw [List.reverse_cons, leNat_append]
  simp only [leNat, List.length_reverse, Nat.mul_zero, Nat.add_zero]
  rw [Nat.mul_comm]; omega

theorem beNat_nil : beNat [] = 0 := rfl

theorem beNat_lt (bs : Bytes) : beNat bs < 256 ^ bs.length := by
  unfold beNat
  have := leNat_lt bs.reverse
  simpa using this

theorem beNat_zero_cons (rest : Bytes) : beNat (0 :: rest) = beNat rest := by
  rw [beNat_cons]; simp

/-! ### bit length, byte length -/

def byteLen (n : Nat) : Nat := (bitLen n + 7) / 8

theorem beMin_eq (n : Nat) : beMin n = beBytes (byteLen n) n := rfl

theorem pow256 (k : Nat) : 256 ^ k = 2 ^ (8 * k) := by
  rw [Nat.pow_mul]

theorem bitLen_le_iff (n k : Nat) : bitLen n ≤ k ↔ n < 2 ^ k := by
  unfold bitLen
  by_cases h : n = 0
  · subst h; simp [Nat.pow_pos]
  · rw [if_neg h]
    have := Nat.log2_lt (n := n) (k := k) h
    omega

theorem lt_pow_byteLen (n : Nat) : n < 256 ^ byteLen n := by
  rw [pow256, ← bitLen_le_iff]
  unfold byteLen; omega

theorem byteLen_eq_of_bounds {n k : Nat} (h1 : 256 ^ k ≤ n) (h2 : n < 256 ^ (k + 1)) :
    byteLen n = k + 1 := by
  have hn : n ≠ 0 := by
    have : 0 < 256 ^ k := Nat.pow_pos (by decide)
    omega
  rw [pow256] at h1 h2
  have a := (Nat.le_log2 (n := n) (k := 8 * k) hn).mpr h1
  have b := (Nat.log2_lt (n := n) (k := 8 * (k + 1)) hn).mpr h2
  unfold byteLen bitLen
  rw [if_neg hn]; omega

theorem byteLen_zero : byteLen 0 = 0 := by decide

theorem beMin_zero : beMin 0 = [] := by
  rw [beMin_eq, byteLen_zero]; rfl

theorem beNat_beMin (n : Nat) : beNat (beMin n) = n :=
  beNat_beBytes _ _ (lt_pow_byteLen n)

theorem beMin_length (n : Nat) : (beMin n).length = byteLen n := by
  rw [beMin_eq, beBytes_length]

/-- a byte string whose first byte is not zero is the minimal encoding of its value -/
theorem beMin_beNat_of_head_ne_zero (b : UInt8) (rest : Bytes) (hb : b.toNat ≠ 0) :
    beMin (beNat (b :: rest)) = b :: rest := by
  have hlt := beNat_lt (b :: rest)
  have hge : 256 ^ rest.length ≤ beNat (b :: rest) := by
    rw [beNat_cons]
    have : 1 * 256 ^ rest.length ≤ b.toNat * 256 ^ rest.length :=
      Nat.mul_le_mul_right _ (by omega)
    omega
  have hl : byteLen (beNat (b :: rest)) = (b :: rest).length := by
    rw [List.length_cons]; exact byteLen_eq_of_bounds hge (by simpa using hlt)
  rw [beMin_eq, hl, beBytes_beNat]

/-- the minimal encoding of a non-zero number starts with a non-zero byte -/
theorem beMin_head_ne_zero (n : Nat) (hn : n ≠ 0) :
    ∃ b rest, beMin n = b :: rest ∧ b.toNat ≠ 0 := by
  match h : beMin n with
  | [] =>
    have := beNat_beMin n
    rw [h] at this; exact absurd this.symm hn
  | b :: rest =>
    refine ⟨b, rest, rfl, ?_⟩
    intro hb
    -- then n = beNat rest < 256^rest.length, so byteLen n ≤ rest.length: contradiction
    have hv := beNat_beMin n
    rw [h, beNat_cons, hb] at hv
    have hlt := beNat_lt rest
    have hlen := beMin_length n
    rw [h, List.length_cons] at hlen
    have hn' : n < 2 ^ (8 * rest.length) := by rw [← pow256]; omega
    have := (bitLen_le_iff n (8 * rest.length)).mpr hn'
    unfold byteLen at hlen
    omega

/-! ### content bytes of a DER integer (after the optional pad byte) -/

/-- the `vBytes` that `EncodeBigInt` emits after tag and length -/
def content (n : Nat) : Bytes :=
  match beMin n with
  | [] => [0]
  | b :: rest => if 128 ≤ b.toNat then 0 :: b :: rest else b :: rest

theorem beNat_content (n : Nat) : beNat (content n) = n := by
  unfold content
  have hv := beNat_beMin n
  split
  · rename_i h; rw [h] at hv; rw [← hv]; rfl
  · rename_i b rest h
    rw [h] at hv
    split
    · rw [beNat_zero_cons, hv]
    · exact hv

theorem content_length (n : Nat) :
    1 ≤ (content n).length ∧ (content n).length ≤ byteLen n + 1 := by
  unfold content
  have hl := beMin_length n
  split
  · rename_i h; simp
  · rename_i b rest h
    rw [h] at hl
    simp only [List.length_cons] at hl
    split <;> simp only [List.length_cons] <;> omega

theorem byteLen_le_32 {n : Nat} (h : n < 2 ^ 256) : byteLen n ≤ 32 := by
  have := (bitLen_le_iff n 256).mpr h
  unfold byteLen; omega

theorem content_length_le {n : Nat} (h : n < 2 ^ 256) : (content n).length ≤ 33 := by
  have := content_length n
  have := byteLen_le_32 h
  omega

theorem IntOK_content (n : Nat) : IntOK (content n) := by
  unfold content
  split
  · unfold IntOK A sigAt; simp
  · rename_i b rest h
    have hn : n ≠ 0 := by
      intro h0; rw [h0, beMin_zero] at h; cases h
    obtain ⟨b', rest', h', hb⟩ := beMin_head_ne_zero n hn
    rw [h] at h'
    injection h' with e1 e2
    subst e1
    split
    · rename_i hh
      unfold IntOK
      simp only [A, sigAt, List.getD_cons_zero, List.getD_cons_succ]
      refine ⟨by decide, ?_⟩
      intro hc; omega
    · rename_i hh
      unfold IntOK
      simp only [A, sigAt, List.getD_cons_zero]
      refine ⟨by omega, ?_⟩
      intro hc; omega

/-- the canonical content bytes are the only ones `IntOK` admits for a value -/
theorem content_beNat (p : Bytes) (hp : p ≠ []) (h : IntOK p) : content (beNat p) = p := by
  unfold IntOK at h
  match p, hp, h with
  | [b], _, h =>
    simp only [A, sigAt, List.getD_cons_zero] at h
    by_cases hb : b.toNat = 0
    · have : b = 0 := UInt8.toNat_inj.mp hb
      subst this
      have : beNat [0] = 0 := rfl
      rw [this]; unfold content; rw [beMin_zero]
    · unfold content
      rw [beMin_beNat_of_head_ne_zero b [] hb]
      simp only
      rw [if_neg (by omega)]
  | a :: b :: rest, _, h =>
    simp only [A, sigAt, List.getD_cons_zero, List.getD_cons_succ, List.length_cons] at h
    by_cases ha : a.toNat = 0
    · have : a = 0 := UInt8.toNat_inj.mp ha
      subst this
      have hb : 128 ≤ b.toNat := by
        have := h.2
        omega
      rw [beNat_zero_cons]
      unfold content
      rw [beMin_beNat_of_head_ne_zero b rest (by omega)]
      simp only
      rw [if_pos hb]
    · unfold content
      rw [beMin_beNat_of_head_ne_zero a (b :: rest) ha]
      simp only
      rw [if_neg (by omega)]

end BtcVerif.Model.DER
