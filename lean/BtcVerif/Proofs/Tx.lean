import BtcVerif.Model.Tx
import BtcVerif.Proofs.Varint

namespace BtcVerif.Model
open BtcVerif BtcVerif.Parser
open BtcVerif.Gen.Guards

theorem p32 : (256:Nat)^4 = 2^32 := by decide
theorem p64 : (256:Nat)^8 = 2^64 := by decide

/-! ### generic: sequences of objects -/

theorem readMany_enc {α} (p : Parser α) (enc : α → Bytes) (xs : List α)
    (h : ∀ x ∈ xs, ∀ rest, p (enc x ++ rest) = .ok (x, rest)) (rest : Bytes) :
    readMany p xs.length (encMany enc xs ++ rest) = .ok (xs, rest) := by
  induction xs with
  | nil => simp [readMany, encMany]
  | cons x xs ih =>
    have hx := h x (by simp)
    have ih' := ih (fun y hy r => h y (by simp [hy]) r)
    simp only [List.length_cons, readMany, encMany, List.map_cons, List.flatten_cons, List.append_assoc]
    rw [bind_of_ok (hx _)]
    unfold encMany at ih'
    rw [bind_of_ok ih']
    rfl

theorem encMany_length {α} (enc : α → Bytes) (sz : α → Nat) (xs : List α)
    (h : ∀ x ∈ xs, sz x = (enc x).length) : ((xs.map sz).sum) = (encMany enc xs).length := by
  induction xs with
  | nil => simp [encMany]
  | cons x xs ih =>
    simp only [encMany, List.map_cons, List.sum_cons, List.flatten_cons, List.length_append]
    rw [h x (by simp)]
    have := ih (fun y hy => h y (by simp [hy]))
    unfold encMany at this
    omega

/-! ### parts -/

theorem decPrevOut_enc (p : PrevOut) (rest : Bytes) (h : WFPrevOut p) :
    decPrevOut (encPrevOut p ++ rest) = .ok (p, rest) := by
  obtain ⟨h1, h2⟩ := h
  unfold decPrevOut encPrevOut
  rw [List.append_assoc]
  rw [bind_of_ok (readN_append' 32 _ _ h1)]
  rw [bind_of_ok (readLE_append 4 _ _ (by rw [p32]; exact h2))]
  rfl

theorem decTxIn_enc (i : TxIn) (rest : Bytes) (h : WFTxIn i) :
    decTxIn (encTxIn i ++ rest) = .ok (i, rest) := by
  obtain ⟨h1, h2, h3⟩ := h
  unfold decTxIn encTxIn
  simp only [List.append_assoc]
  rw [bind_of_ok (decPrevOut_enc _ _ h1)]
  rw [bind_of_ok (decVarint_encVarint _ _ (by omega))]
  have g : tx_inputFromReader_0 i.script.length = false := by
    simp [tx_inputFromReader_0]; omega
  simp only [g, Bool.false_eq_true, ite_false]
  rw [bind_of_ok (readN_append _ _)]
  rw [bind_of_ok (readLE_append 4 _ _ (by rw [p32]; exact h3))]
  rfl

theorem decTxOut_enc (o : TxOut) (rest : Bytes) (h : WFTxOut o) :
    decTxOut (encTxOut o ++ rest) = .ok (o, rest) := by
  obtain ⟨h1, h2⟩ := h
  unfold decTxOut encTxOut
  simp only [List.append_assoc]
  rw [bind_of_ok (readLE_append 8 _ _ (by rw [p64]; exact h1))]
  rw [bind_of_ok (decVarint_encVarint _ _ (by omega))]
  have g : tx_outputFromReader_0 o.script.length = false := by
    simp [tx_outputFromReader_0]; omega
  simp only [g, Bool.false_eq_true, ite_false]
  rw [bind_of_ok (readN_append _ _)]
  rfl

theorem decChunks_enc (w : Witness) (size : Nat) (rest : Bytes)
    (h : size + witBytes w ≤ 0x20000000) :
    decChunks w.length size ((w.map encChunk).flatten ++ rest) = .ok (w, rest) := by
  induction w generalizing size with
  | nil => simp [decChunks]
  | cons c cs ih =>
    simp only [witBytes, List.map_cons, List.sum_cons] at h
    simp only [List.length_cons, decChunks, List.map_cons, List.flatten_cons, List.append_assoc]
    rw [show encChunk c = encVarint c.length ++ c from rfl, List.append_assoc]
    rw [bind_of_ok (decVarint_encVarint _ _ (by omega))]
    have g : tx_witnessFromReader_2 (chunkLength := c.length) (witnessSize := size) = false := by
      simp [tx_witnessFromReader_2]; omega
    simp only [g, Bool.false_eq_true, ite_false]
    rw [bind_of_ok (readN_append _ _)]
    have hm : (size + c.length) % 18446744073709551616 = size + c.length := by omega
    rw [hm]
    have := ih (size + c.length) (by simp only [witBytes]; omega)
    rw [bind_of_ok this]
    rfl

theorem decWitness_enc (w : Witness) (rest : Bytes) (h : WFWitness w) :
    decWitness (encWitness w ++ rest) = .ok (w, rest) := by
  obtain ⟨h1, h2⟩ := h
  unfold decWitness encWitness
  simp only [List.append_assoc]
  rw [bind_of_ok (decVarint_encVarint _ _ (by omega))]
  have g : tx_witnessFromReader_0 w.length = false := by
    simp [tx_witnessFromReader_0]; omega
  simp only [g, Bool.false_eq_true, ite_false]
  exact decChunks_enc w 0 rest (by omega)

/-! ### sizes of the parts -/

theorem encPrevOut_length (p : PrevOut) (h : WFPrevOut p) : (encPrevOut p).length = 36 := by
  simp [encPrevOut, h.1]

theorem sizeTxIn_eq (i : TxIn) (h : WFTxIn i) : sizeTxIn i = (encTxIn i).length := by
  simp [sizeTxIn, encTxIn, encPrevOut_length _ h.1, varintSize_eq_length]; omega

theorem sizeTxOut_eq (o : TxOut) : sizeTxOut o = (encTxOut o).length := by
  simp [sizeTxOut, encTxOut, varintSize_eq_length]; omega

theorem sizeWitness_eq (w : Witness) : sizeWitness w = (encWitness w).length := by
  simp only [sizeWitness, encWitness, List.length_append, varintSize_eq_length]
  congr 1
  induction w with
  | nil => simp
  | cons c cs ih => simp [encChunk, varintSize_eq_length, ih]; omega

/-! ### the first byte of a compact size ≥ 1 is not zero: legacy bytes are never mistaken for
    the segwit marker -/

theorem encVarint_head_ne_zero (n : Nat) (h : 1 ≤ n) (hn : n < 2^64) :
    ∃ b tl, encVarint n = b :: tl ∧ b ≠ 0 := by
  unfold encVarint
  split
  · exact ⟨_, _, rfl, by decide⟩
  · split
    · exact ⟨_, _, rfl, by decide⟩
    · split
      · exact ⟨_, _, rfl, by decide⟩
      · rename_i h0 h1 h2
        refine ⟨_, _, rfl, ?_⟩
        simp [varint_VarInt_WriteTo_2] at h2
        intro hc
        have := congrArg UInt8.toNat hc
        rw [u8_ofNat_toNat n (by omega)] at this
        simp at this
        omega

end BtcVerif.Model

namespace BtcVerif.Model
open BtcVerif BtcVerif.Parser
open BtcVerif.Gen.Guards

theorem sniff_flag (rest : Bytes) : sniffSegwit (segwitFlag ++ rest) = .ok (true, rest) := by
  unfold sniffSegwit
  rw [readN_append' 2 segwitFlag rest rfl]
  simp [tx_FromReader_0]

theorem sniff_other (b c : UInt8) (tl : Bytes) (hb : b ≠ 0) :
    sniffSegwit (b :: c :: tl) = .ok (false, b :: c :: tl) := by
  unfold sniffSegwit
  have : readN 2 (b :: c :: tl) = .ok ([b, c], tl) := readN_append' 2 [b, c] tl rfl
  rw [this]
  have hne : ([b, c] = segwitFlag) = False := by
    simp [segwitFlag, hb]
  simp [tx_FromReader_0, hne]

/-- the body that follows version (and flag) on the wire -/
def encBody (tx : Tx) (wits : Bytes) : Bytes :=
  encVarint tx.inputs.length ++ (encMany encTxIn tx.inputs
    ++ (encVarint tx.outputs.length ++ (encMany encTxOut tx.outputs ++ (wits ++ leBytes 4 tx.locktime))))

theorem encTxIn_length_ge (i : TxIn) (h : WFTxIn i) : 41 ≤ (encTxIn i).length := by
  rw [← sizeTxIn_eq i h]; unfold sizeTxIn
  have := encVarint_length_pos i.script.length
  rw [← varintSize_eq_length] at this; omega

/-- with at least one input the body starts with a non-zero byte and has a second byte -/
theorem encBody_shape (tx : Tx) (wits rest : Bytes) (h : WFTx tx) :
    ∃ b c tl, encBody tx wits ++ rest = b :: c :: tl ∧ b ≠ 0 := by
  obtain ⟨_, _, h1, h2, _, hin, _, _⟩ := h
  obtain ⟨b, tl, he, hb⟩ := encVarint_head_ne_zero tx.inputs.length h1 (by omega)
  cases hi : tx.inputs with
  | nil => simp [hi] at h1
  | cons i is =>
    have hl := encTxIn_length_ge i (hin i (by simp [hi]))
    unfold encBody
    rw [hi] at he
    simp only [hi]
    rw [he]
    simp only [encMany, List.map_cons, List.flatten_cons, List.cons_append, List.append_assoc]
    cases hx : encTxIn i with
    | nil => simp [hx] at hl
    | cons x xs =>
      cases tl with
      | nil => exact ⟨b, x, _, by simp; rfl, hb⟩
      | cons t ts => exact ⟨b, t, _, by simp; rfl, hb⟩

/-- decoding the body once the segwit question is settled -/
theorem decBody (tx : Tx) (rest : Bytes) (h : WFTx tx) (version : Nat) (hw : Bool)
    (hhw : hw = tx.witnesses.isSome) :
    (do
      let nIn ← decVarint
      if tx_FromReader_1 nIn then fail else
      let ins ← readMany decTxIn nIn
      let nOut ← decVarint
      if tx_FromReader_3 nOut then fail else
      let outs ← readMany decTxOut nOut
      let wits ← (if tx_FromReader_5 hw then (do let ws ← readMany decWitness nIn; return some ws)
                  else pure none : Parser (Option (List Witness)))
      let lock ← readLE 4
      return (⟨version, ins, outs, wits, lock⟩ : Tx))
      (encBody tx (encMany encWitness (witList tx)) ++ rest)
    = .ok (⟨version, tx.inputs, tx.outputs, tx.witnesses, tx.locktime⟩, rest) := by
  obtain ⟨_, hlock, h1, h2, h3, hin, hout, hwit⟩ := h
  unfold encBody
  simp only [List.append_assoc]
  rw [bind_of_ok (decVarint_encVarint _ _ (by omega))]
  have g1 : tx_FromReader_1 tx.inputs.length = false := by simp [tx_FromReader_1]; omega
  simp only [g1, Bool.false_eq_true, ite_false]
  rw [bind_of_ok (readMany_enc decTxIn encTxIn tx.inputs (fun x hx r => decTxIn_enc x r (hin x hx)) _)]
  rw [bind_of_ok (decVarint_encVarint _ _ (by omega))]
  have g3 : tx_FromReader_3 tx.outputs.length = false := by simp [tx_FromReader_3]; omega
  simp only [g3, Bool.false_eq_true, ite_false]
  rw [bind_of_ok (readMany_enc decTxOut encTxOut tx.outputs (fun x hx r => decTxOut_enc x r (hout x hx)) _)]
  cases hws : tx.witnesses with
  | none =>
    subst hhw
    simp only [hws, Option.isSome_none, tx_FromReader_5, Bool.false_eq_true, ite_false, witList,
      encMany, List.map_nil, List.flatten_nil, List.nil_append]
    rw [bind_of_ok (pure_apply _ _)]
    rw [bind_of_ok (readLE_append 4 _ _ (by rw [p32]; exact hlock))]
    rfl
  | some ws =>
    subst hhw
    obtain ⟨hlen, hall⟩ := hwit ws hws
    simp only [hws, Option.isSome_some, tx_FromReader_5, ite_true, witList]
    rw [← hlen]
    have := readMany_enc decWitness encWitness ws (fun x hx r => decWitness_enc x r (hall x hx))
      (leBytes 4 tx.locktime ++ rest)
    rw [bind_of_ok (bind_of_ok this)]
    rw [bind_of_ok (readLE_append 4 _ _ (by rw [p32]; exact hlock))]
    rfl

theorem canSerialize_of_WF (tx : Tx) (h : WFTx tx) : canSerialize tx = true := by
  unfold canSerialize
  cases hws : tx.witnesses with
  | none => rfl
  | some ws =>
    have := (h.2.2.2.2.2.2.2 ws hws).1
    simp [tx_Tx_canSerialize_4, this]

/-- **C01**: the decoder inverts the encoder on every well-formed transaction, consuming exactly
    the encoder's bytes (an arbitrary stream `rest` stays unread) -/
theorem decTx_encTx (tx : Tx) (rest : Bytes) (h : WFTx tx) :
    ∃ bs, encTx tx true = .ok bs ∧ decTx (bs ++ rest) = .ok (tx, rest) := by
  have hcs := canSerialize_of_WF tx h
  have hver := h.1
  have h1 := h.2.2.1
  unfold encTx
  simp only [hcs, Bool.not_true, Bool.false_eq_true, ite_false]
  refine ⟨_, rfl, ?_⟩
  have hs2 : tx_Tx_serialize_2 (len_tx_Inputs := tx.inputs.length) (includeWitnesses := true) = true := by
    simp [tx_Tx_serialize_2]; omega
  simp only [hs2, ite_true]
  cases hws : tx.witnesses with
  | none =>
    have hs1 : tx_Tx_serialize_1 (len_tx_Inputs := tx.inputs.length) (includeWitnesses := true)
        (len_tx_Witnesses := witLen tx) = false := by
      simp [tx_Tx_serialize_1, witLen, hws]
    simp only [hs1, Bool.false_eq_true, ite_false, List.append_nil, List.append_assoc]
    unfold decTx
    rw [bind_of_ok (readLE_append 4 _ _ (by rw [p32]; exact hver))]
    have hb := encBody_shape tx (encMany encWitness (witList tx)) rest h
    unfold encBody at hb
    simp only [List.append_assoc] at hb
    obtain ⟨b, c, tl, hbe, hbne⟩ := hb
    rw [hbe, bind_of_ok (sniff_other b c tl hbne), ← hbe]
    have := decBody tx rest h tx.version false (by simp [hws])
    unfold encBody at this
    simp only [List.append_assoc] at this
    rw [this]
  | some ws =>
    have hl := (h.2.2.2.2.2.2.2 ws hws).1
    have hs1 : tx_Tx_serialize_1 (len_tx_Inputs := tx.inputs.length) (includeWitnesses := true)
        (len_tx_Witnesses := witLen tx) = true := by
      simp [tx_Tx_serialize_1, witLen, hws]; omega
    simp only [hs1, ite_true, List.append_assoc]
    unfold decTx
    rw [bind_of_ok (readLE_append 4 _ _ (by rw [p32]; exact hver))]
    rw [bind_of_ok (sniff_flag _)]
    have := decBody tx rest h tx.version true (by simp [hws])
    unfold encBody at this
    simp only [List.append_assoc] at this
    rw [this]

/-- the witness-stripped form decodes to the same transaction without witnesses -/
theorem decTx_encTx_nowit (tx : Tx) (rest : Bytes) (h : WFTx tx) :
    ∃ bs, encTx tx false = .ok bs ∧ decTx (bs ++ rest) = .ok ({ tx with witnesses := none }, rest) := by
  have hcs := canSerialize_of_WF tx h
  have hwf' : WFTx { tx with witnesses := none } := by
    obtain ⟨a, b, c, d, e, f, g, _⟩ := h
    exact ⟨a, b, c, d, e, f, g, by intro ws hws; cases hws⟩
  obtain ⟨bs, he, hd⟩ := decTx_encTx { tx with witnesses := none } rest hwf'
  refine ⟨bs, ?_, hd⟩
  rw [← he]
  have hcs' : canSerialize { tx with witnesses := none } = true := rfl
  unfold encTx
  rw [hcs, hcs']
  simp [tx_Tx_serialize_1, tx_Tx_serialize_2, witLen, witList, encMany]

end BtcVerif.Model
