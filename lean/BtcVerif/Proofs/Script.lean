/-
  Lemmas for C12 (script pushes, decompilation, opcode stripping): `Model/Script.lean` against
  `Spec/Script.lean`.  Core tactics only.
-/
import BtcVerif.Model.Script
import BtcVerif.Spec.Script
namespace BtcVerif.Proofs.Script
open BtcVerif BtcVerif.Model BtcVerif.Parser
open BtcVerif.Gen BtcVerif.Gen.Guards
open BtcVerif.Spec.Script (Item lenWidth lenField lenValue parse removeStandalone serialize)

theorem pushData_eq_spec (d : Bytes) (h : d.length < 2 ^ 32) :
    pushData d = .ok (Spec.Script.push d) := by
  unfold pushData Spec.Script.push
  simp only [script_PushData_0, script_PushData_1, script_PushData_2, script_PushData_3, opByte,
    constants_OP_PUSHDATA1, constants_OP_PUSHDATA2, constants_OP_PUSHDATA4, leBytes]
  by_cases h0 : d.length < 76
  · have : ((d.length : Int) ≤ 75) := by omega
    simp [this, h0]
  · by_cases h1 : d.length ≤ 255
    · have a : ¬ ((d.length : Int) ≤ 75) := by omega
      have b : ((d.length : Int) ≤ 255) := by omega
      have c : d.length % 256 = d.length := by omega
      simp [a, b, h0, h1, c]
    · by_cases h2 : d.length ≤ 65535
      · have a : ¬ ((d.length : Int) ≤ 75) := by omega
        have b : ¬ ((d.length : Int) ≤ 255) := by omega
        have c : ((d.length : Int) ≤ 65535) := by omega
        have e : d.length / 256 % 256 = d.length / 256 := by omega
        simp [a, b, c, h0, h1, h2, e]
      · have a : ¬ ((d.length : Int) ≤ 75) := by omega
        have b : ¬ ((d.length : Int) ≤ 255) := by omega
        have c : ¬ ((d.length : Int) ≤ 65535) := by omega
        have e : ((d.length : Int) ≤ 4294967295) := by omega
        have f1 : d.length / 256 / 256 = d.length / 65536 := by omega
        have f2 : d.length / 65536 / 256 = d.length / 16777216 := by omega
        simp [a, b, c, e, h0, h1, h2, f1, f2]
theorem sizeFieldLen_eq (b : UInt8) :
    sizeFieldLen b = if b.toNat ≤ 0x4e then some (lenWidth b) else none := by
  unfold sizeFieldLen lenWidth
  simp only [script_ReadData_0, script_ReadData_1, script_ReadData_2, script_ReadData_3]
  by_cases h0 : b.toNat ≤ 75
  · have : b.toNat ≤ 78 := by omega
    simp [h0, this]
  · by_cases h1 : b.toNat = 76
    · simp [h1]
    · by_cases h2 : b.toNat = 77
      · simp [h2]
      · by_cases h3 : b.toNat = 78
        · simp [h3]
        · have : ¬ b.toNat ≤ 78 := by omega
          simp [h0, h1, h2, h3, this]

theorem lenWidth_cases (b : UInt8) : lenWidth b = 0 ∨ lenWidth b = 1 ∨ lenWidth b = 2 ∨ lenWidth b = 4 := by
  unfold lenWidth; split <;> (try split) <;> (try split) <;> simp

theorem lenField_eq_leBytes (w n : Nat) : lenField w n = leBytes w n := by
  induction w generalizing n with
  | zero => rfl
  | succ w ih => simp [lenField, leBytes, ih]

theorem leNat_take_eq_lenValue (w : Nat) (s : Bytes) (h : w ≤ s.length) :
    leNat (s.take w) = lenValue w s := by
  induction w generalizing s with
  | zero => simp [leNat, lenValue]
  | succ w ih =>
    cases s with
    | nil => simp at h
    | cons b s =>
      simp only [List.take_succ_cons, leNat, lenValue]
      rw [ih s (by simpa using h)]

/-- `readData` in closed form, in the vocabulary of the specification. -/
theorem readData_cons (b : UInt8) (rest : Bytes) (hb : b.toNat ≤ 0x4e) :
    readData (b :: rest) =
      (let w := lenWidth b
       let n := if w = 0 then b.toNat else lenValue w rest
       if w ≤ rest.length ∧ w + n ≤ rest.length
       then .ok ((rest.drop w).take n, rest.drop (w + n)) else .err) := by
  unfold readData
  simp only [sizeFieldLen_eq, hb, if_true]
  by_cases hw : lenWidth b = 0
  · simp only [hw, if_true, Nat.zero_le, true_and, Nat.zero_add, List.drop_zero]
    unfold readN
    simp only [List.length_take]
    by_cases h : b.toNat ≤ rest.length
    · simp [h, Nat.min_eq_left h]
    · have : ¬ (min b.toNat rest.length = b.toNat) := by omega
      simp [h, this]
  · simp only [hw, if_false]
    rw [bind_def]
    unfold readLE readN
    simp only [List.length_take]
    by_cases h1 : lenWidth b ≤ rest.length
    · simp only [Nat.min_eq_left h1, if_true, h1, true_and]
      rw [leNat_take_eq_lenValue _ _ h1]
      simp only [List.length_take, List.length_drop]
      by_cases h2 : lenWidth b + lenValue (lenWidth b) rest ≤ rest.length
      · have : min (lenValue (lenWidth b) rest) (rest.length - lenWidth b) = lenValue (lenWidth b) rest := by omega
        simp [h2, this, List.drop_drop, Nat.add_comm]
      · have : ¬ (min (lenValue (lenWidth b) rest) (rest.length - lenWidth b) = lenValue (lenWidth b) rest) := by omega
        simp [h2, this]
    · have : ¬ (min (lenWidth b) rest.length = lenWidth b) := by omega
      simp [h1, this]

/-- forgetting which push opcode was used: the library's chunk type -/
def toChunk : Item → Chunk
  | .op b => .op b
  | .push _ d => .push d

def liftOpt {α β} (f : α → β) : Option α → Outcome β
  | some a => .ok (f a)
  | none => .err

theorem decompile_guard (b : UInt8) :
    script_Decompile_1 (nextByte := b.toNat) = true ↔ (1 ≤ b.toNat ∧ b.toNat ≤ 0x4e) := by
  simp [script_Decompile_1]; omega

theorem decompileFuel_eq (fuel : Nat) (s : Bytes) (h : s.length ≤ fuel) :
    decompileFuel fuel s = liftOpt (List.map toChunk) (Spec.Script.parse s) := by
  induction fuel generalizing s with
  | zero =>
    cases s with
    | nil => rw [Spec.Script.parse]; rfl
    | cons b rest => simp at h
  | succ fuel ih =>
    cases s with
    | nil => rw [Spec.Script.parse]; rfl
    | cons b rest =>
      rw [Spec.Script.parse]
      simp only [decompileFuel]
      simp only [List.length_cons] at h
      by_cases hp : 1 ≤ b.toNat ∧ b.toNat ≤ 0x4e
      · have hg := (decompile_guard b).mpr hp
        rw [if_pos hg, if_pos hp, readData_cons b rest hp.2]
        simp only
        by_cases h1 : lenWidth b ≤ rest.length
        · by_cases h2 : lenWidth b + (if lenWidth b = 0 then b.toNat else lenValue (lenWidth b) rest) ≤ rest.length
          · rw [if_pos ⟨h1, h2⟩, if_pos h1, if_pos h2]
            simp only
            rw [ih _ (by simp only [List.length_drop]; omega)]
            cases Spec.Script.parse (List.drop (lenWidth b + if lenWidth b = 0 then b.toNat else lenValue (lenWidth b) rest) rest) <;> simp [liftOpt, Outcome.bind, toChunk]
          · rw [if_neg (by intro hh; exact h2 hh.2), if_pos h1, if_neg h2]; rfl
        · rw [if_neg (by intro hh; exact h1 hh.1), if_neg h1]; rfl
      · have hg : ¬ _ := fun hh => hp ((decompile_guard b).mp hh)
        rw [if_neg hg, if_neg hp, ih _ (by omega)]
        cases Spec.Script.parse rest <;> simp [liftOpt, Outcome.bind, toChunk]

theorem strip_guard1 (b : UInt8) :
    script_StripOpCode_1 (nextByte := b.toNat) = true ↔ (1 ≤ b.toNat ∧ b.toNat ≤ 0x4e) := by
  simp [script_StripOpCode_1]; omega

theorem strip_guard2 (b op : UInt8) :
    script_StripOpCode_2 (nextByte := b.toNat) (op := op.toNat) = true ↔ b ≠ op := by
  simp [script_StripOpCode_2, UInt8.toNat_inj]

theorem pushSpan_eq (b : UInt8) (n : Nat) (hb : b.toNat ≤ 0x4e) : pushSpan b n = 1 + lenWidth b + n := by
  simp [pushSpan, sizeFieldLen_eq, hb]

/-- the answer the specification gives for `StripOpCode` -/
def stripRef (s : Bytes) (op : UInt8) : Outcome Bytes :=
  match Spec.Script.parse s with
  | some _ => .ok (Spec.Script.removeStandalone s op)
  | none => .err

theorem stripFuel_eq (fuel : Nat) (s : Bytes) (op : UInt8) (h : s.length ≤ fuel) :
    stripFuel fuel s op = stripRef s op := by
  unfold stripRef
  induction fuel generalizing s with
  | zero =>
    cases s with
    | nil => rw [Spec.Script.parse, Spec.Script.removeStandalone]; rfl
    | cons b rest => simp at h
  | succ fuel ih =>
    cases s with
    | nil => rw [Spec.Script.parse, Spec.Script.removeStandalone]; rfl
    | cons b rest =>
      rw [Spec.Script.parse, Spec.Script.removeStandalone]
      simp only [stripFuel]
      simp only [List.length_cons] at h
      by_cases hp : 1 ≤ b.toNat ∧ b.toNat ≤ 0x4e
      · have hg := (strip_guard1 b).mpr hp
        rw [if_pos hg, if_pos hp, if_pos hp, readData_cons b rest hp.2]
        simp only
        by_cases h1 : lenWidth b ≤ rest.length
        · by_cases h2 : lenWidth b + (if lenWidth b = 0 then b.toNat else lenValue (lenWidth b) rest) ≤ rest.length
          · rw [if_pos ⟨h1, h2⟩, if_pos h1, if_pos h2, if_pos h1, if_pos h2]
            simp only
            rw [ih _ (by simp only [List.length_drop]; omega)]
            have hlen : (List.take (if lenWidth b = 0 then b.toNat else lenValue (lenWidth b) rest)
                (List.drop (lenWidth b) rest)).length
                  = (if lenWidth b = 0 then b.toNat else lenValue (lenWidth b) rest) := by
              simp only [List.length_take, List.length_drop]; omega
            rw [hlen, pushSpan_eq b _ hp.2, Nat.add_assoc, Nat.add_comm 1, List.take_succ_cons]
            cases Spec.Script.parse (List.drop (lenWidth b + if lenWidth b = 0 then b.toNat else lenValue (lenWidth b) rest) rest) <;> simp [Outcome.bind]
          · rw [if_neg (by intro hh; exact h2 hh.2), if_pos h1, if_neg h2]
        · rw [if_neg (by intro hh; exact h1 hh.1), if_neg h1]
      · have hg : ¬ _ := fun hh => hp ((strip_guard1 b).mp hh)
        rw [if_neg hg, if_neg hp, if_neg hp]
        by_cases hop : b = op
        · have hg2 : ¬ _ := fun hh => (strip_guard2 b op).mp hh hop
          rw [if_neg hg2, if_pos hop, ih _ (by omega)]
          cases Spec.Script.parse rest <;> simp
        · have hg2 := (strip_guard2 b op).mpr hop
          rw [if_pos hg2, if_neg hop, ih _ (by omega)]
          cases Spec.Script.parse rest <;> simp [Outcome.bind]

theorem lenValue_lenField_append (w n : Nat) (tail : Bytes) (h : n < 256 ^ w) :
    lenValue w (lenField w n ++ tail) = n := by
  induction w generalizing n with
  | zero => simp [lenValue]; simp at h; omega
  | succ w ih =>
    simp only [lenField, List.cons_append, lenValue]
    rw [ih (n / 256) (by rw [Nat.div_lt_iff_lt_mul (by decide)]; rw [Nat.pow_succ] at h; exact h)]
    have : (UInt8.ofNat (n % 256)).toNat = n % 256 := by simp [UInt8.toNat_ofNat']
    rw [this]; omega

theorem lenField_length (w n : Nat) : (lenField w n).length = w := by
  rw [lenField_eq_leBytes]; simp

theorem lenWidth_zero_iff (b : UInt8) : lenWidth b = 0 ↔ b.toNat ≤ 0x4b := by
  unfold lenWidth; split <;> (try split) <;> (try split) <;> simp_all

/-- what validity of a push says, in arithmetic form -/
theorem valid_push {b : UInt8} {d : Bytes} (hv : (Item.push b d).valid = true) :
    1 ≤ b.toNat ∧ b.toNat ≤ 0x4e ∧ (lenWidth b = 0 → d.length = b.toNat) ∧
      (lenWidth b ≠ 0 → d.length < 256 ^ lenWidth b) := by
  simp only [Item.valid, Bool.and_eq_true, decide_eq_true_eq] at hv
  obtain ⟨⟨h1, h2⟩, h3⟩ := hv
  refine ⟨h1, h2, ?_, ?_⟩
  · intro hw
    rw [lenWidth_zero_iff] at hw
    simpa [hw] using h3
  · intro hw
    rw [Ne, lenWidth_zero_iff] at hw
    simpa [hw] using h3

/-- the data the reference parser finds at the head of `b :: (lenField ++ d ++ tail)` -/
theorem push_layout' {b : UInt8} {d : Bytes} (h0 : lenWidth b = 0 → d.length = b.toNat)
    (h1 : lenWidth b ≠ 0 → d.length < 256 ^ lenWidth b) (tail : Bytes) :
    let rest := lenField (lenWidth b) d.length ++ d ++ tail
    (if lenWidth b = 0 then b.toNat else lenValue (lenWidth b) rest) = d.length ∧
    lenWidth b + d.length ≤ rest.length ∧
    List.take d.length (List.drop (lenWidth b) rest) = d ∧
    List.drop (lenWidth b + d.length) rest = tail ∧
    List.take (lenWidth b + d.length) rest = lenField (lenWidth b) d.length ++ d := by
  intro rest
  have hl := lenField_length (lenWidth b) d.length
  refine ⟨?_, ?_, ?_, ?_, ?_⟩
  · by_cases hw : lenWidth b = 0
    · simp [hw, h0 hw]
    · simp only [hw, if_false, rest, List.append_assoc]
      exact lenValue_lenField_append _ _ _ (h1 hw)
  · simp [rest, hl]
  · simp only [rest, List.append_assoc]
    rw [List.drop_append_of_le_length (by omega)]
    rw [List.drop_of_length_le (by omega)]
    simp
  · have hlen : (lenField (lenWidth b) d.length ++ d).length = lenWidth b + d.length := by simp [hl]
    exact List.drop_left' hlen
  · have hlen : (lenField (lenWidth b) d.length ++ d).length = lenWidth b + d.length := by simp [hl]
    exact List.take_left' hlen

theorem push_layout {b : UInt8} {d : Bytes} (hv : (Item.push b d).valid = true) (tail : Bytes) :
    let rest := lenField (lenWidth b) d.length ++ d ++ tail
    (if lenWidth b = 0 then b.toNat else lenValue (lenWidth b) rest) = d.length ∧
    lenWidth b + d.length ≤ rest.length ∧
    List.take d.length (List.drop (lenWidth b) rest) = d ∧
    List.drop (lenWidth b + d.length) rest = tail ∧
    List.take (lenWidth b + d.length) rest = lenField (lenWidth b) d.length ++ d := by
  obtain ⟨_, _, h0, h1⟩ := valid_push hv
  exact push_layout' h0 h1 tail

/-- `ReadData` reads back any push encoding whose opcode can express the length (minimal or not),
    and leaves the rest of the stream -/
theorem readData_encoding (b : UInt8) (d rest : Bytes) (hb : b.toNat ≤ 0x4e)
    (h0 : lenWidth b = 0 → d.length = b.toNat) (h1 : lenWidth b ≠ 0 → d.length < 256 ^ lenWidth b) :
    readData (b :: (lenField (lenWidth b) d.length ++ d ++ rest)) = .ok (d, rest) := by
  obtain ⟨e1, e2, e3, e4, -⟩ := push_layout' h0 h1 rest
  rw [readData_cons b _ hb]
  simp only [e1]
  rw [if_pos ⟨by omega, e2⟩, e3, e4]

/-- the opcode `PushData` chooses -/
def minOp (n : Nat) : UInt8 :=
  if n < 0x4c then UInt8.ofNat n else if n ≤ 0xff then 0x4c else if n ≤ 0xffff then 0x4d else 0x4e

theorem spec_push_eq (d : Bytes) (h : d.length < 2 ^ 32) :
    Spec.Script.push d = minOp d.length :: (lenField (lenWidth (minOp d.length)) d.length ++ d) ∧
    (minOp d.length).toNat ≤ 0x4e ∧
    (lenWidth (minOp d.length) = 0 → d.length = (minOp d.length).toNat) ∧
    (lenWidth (minOp d.length) ≠ 0 → d.length < 256 ^ lenWidth (minOp d.length)) := by
  unfold Spec.Script.push minOp
  by_cases c0 : d.length < 0x4c
  · have t : (UInt8.ofNat d.length).toNat = d.length := by simp [UInt8.toNat_ofNat']; omega
    have w : lenWidth (UInt8.ofNat d.length) = 0 := by rw [lenWidth_zero_iff, t]; omega
    simp only [c0, if_true, w, t, lenField, List.nil_append]
    refine ⟨trivial, by omega, fun _ => trivial, fun hh => absurd rfl hh⟩
  · by_cases c1 : d.length ≤ 0xff
    · have w : lenWidth (0x4c : UInt8) = 1 := by decide
      have e : d.length % 256 = d.length := by omega
      simp only [c0, c1, if_true, if_false, w, lenField, e, List.cons_append, List.nil_append]
      refine ⟨trivial, by decide, fun hh => by omega, fun _ => by omega⟩
    · by_cases c2 : d.length ≤ 0xffff
      · have w : lenWidth (0x4d : UInt8) = 2 := by decide
        have e : d.length / 256 % 256 = d.length / 256 := by omega
        simp only [c0, c1, c2, if_true, if_false, w, lenField, e, List.cons_append, List.nil_append]
        refine ⟨trivial, by decide, fun hh => by omega, fun _ => by omega⟩
      · have w : lenWidth (0x4e : UInt8) = 4 := by decide
        have e1 : d.length / 256 / 256 = d.length / 65536 := by omega
        have e2 : d.length / 65536 / 256 = d.length / 16777216 := by omega
        simp only [c0, c1, c2, if_false, w, lenField, e1, e2, List.cons_append, List.nil_append]
        refine ⟨trivial, by decide, fun hh => by omega, fun _ => by omega⟩

/-- `read_push` -/
theorem readData_pushData (d rest : Bytes) (h : d.length < 2 ^ 32) :
    ∃ p, pushData d = .ok p ∧ readData (p ++ rest) = .ok (d, rest) := by
  refine ⟨Spec.Script.push d, pushData_eq_spec d h, ?_⟩
  obtain ⟨e, hb, h0, h1⟩ := spec_push_eq d h
  rw [e]
  have := readData_encoding (minOp d.length) d rest hb h0 h1
  simpa [List.append_assoc] using this

/-- `push_minimal`: no push encoding of the same data is shorter than the one `PushData` emits -/
theorem push_minimal (d : Bytes) (h : d.length < 2 ^ 32) (b : UInt8) (hb : b.toNat ≤ 0x4e)
    (h0 : lenWidth b = 0 → d.length = b.toNat) (h1 : lenWidth b ≠ 0 → d.length < 256 ^ lenWidth b) :
    (Spec.Script.push d).length ≤ (b :: (lenField (lenWidth b) d.length ++ d)).length := by
  obtain ⟨e, -, -, -⟩ := spec_push_eq d h
  rw [e]
  simp only [List.length_cons, List.length_append, lenField_length]
  have hw : lenWidth (minOp d.length) ≤ lenWidth b := by
    unfold minOp
    by_cases c0 : d.length < 0x4c
    · have t : (UInt8.ofNat d.length).toNat = d.length := by simp [UInt8.toNat_ofNat']; omega
      have w : lenWidth (UInt8.ofNat d.length) = 0 := by rw [lenWidth_zero_iff, t]; omega
      simp [c0, w]
    · have hb0 : lenWidth b ≠ 0 := by
        intro hw0
        have := (lenWidth_zero_iff b).mp hw0
        have := h0 hw0
        omega
      have hlt := h1 hb0
      rcases lenWidth_cases b with hw | hw | hw | hw
      · exact absurd hw hb0
      · rw [hw] at hlt ⊢
        have c1 : d.length ≤ 0xff := by omega
        simp only [c0, c1, if_true, if_false]; decide
      · rw [hw] at hlt ⊢
        by_cases c1 : d.length ≤ 0xff
        · simp only [c0, c1, if_true, if_false]; decide
        · have c2 : d.length ≤ 0xffff := by omega
          simp only [c0, c1, c2, if_true, if_false]; decide
      · rw [hw]
        by_cases c1 : d.length ≤ 0xff
        · simp only [c0, c1, if_true, if_false]; decide
        · by_cases c2 : d.length ≤ 0xffff
          · simp only [c0, c1, c2, if_true, if_false]; decide
          · simp only [c0, c1, c2, if_false]; decide
  omega

theorem parse_item_append (it : Item) (hv : it.valid = true) (tail : Bytes) :
    parse (it.bytes ++ tail) = (parse tail).map (it :: ·) := by
  cases it with
  | op b =>
    simp only [Item.valid, Bool.or_eq_true, decide_eq_true_eq] at hv
    simp only [Item.bytes, List.cons_append, List.nil_append]
    rw [parse]
    rw [if_neg (by omega)]
    cases parse tail <;> rfl
  | push b d =>
    obtain ⟨hb1, hb2, -, -⟩ := valid_push hv
    obtain ⟨e1, e2, e3, e4, -⟩ := push_layout hv tail
    simp only [Item.bytes, List.cons_append]
    rw [parse, if_pos ⟨hb1, hb2⟩]
    rw [if_pos (by omega)]
    simp only [e1]
    rw [if_pos e2, e3, e4]
    cases parse tail <;> rfl

theorem parse_serialize (items : List Item) (hv : ∀ i ∈ items, i.valid = true) :
    parse (serialize items) = some items := by
  induction items with
  | nil => simp [serialize]; rw [parse]
  | cons it items ih =>
    have : serialize (it :: items) = it.bytes ++ serialize items := by simp [serialize]
    rw [this, parse_item_append it (hv it (by simp)), ih (fun i hi => hv i (by simp [hi]))]
    rfl

theorem remove_item_append (it : Item) (hv : it.valid = true) (tail : Bytes) (op : UInt8) :
    removeStandalone (it.bytes ++ tail) op =
      (if it = Item.op op then [] else it.bytes) ++ removeStandalone tail op := by
  cases it with
  | op b =>
    simp only [Item.valid, Bool.or_eq_true, decide_eq_true_eq] at hv
    simp only [Item.bytes, List.cons_append, List.nil_append]
    rw [removeStandalone]
    rw [if_neg (by omega)]
    by_cases h : b = op
    · simp [h]
    · simp [h]
  | push b d =>
    obtain ⟨hb1, hb2, -, -⟩ := valid_push hv
    obtain ⟨e1, e2, -, e4, e5⟩ := push_layout hv tail
    simp only [Item.bytes, List.cons_append]
    rw [removeStandalone, if_pos ⟨hb1, hb2⟩]
    rw [if_pos (by omega)]
    simp only [e1]
    rw [if_pos e2, e4, e5]
    simp

theorem remove_serialize (items : List Item) (hv : ∀ i ∈ items, i.valid = true) (op : UInt8) :
    removeStandalone (serialize items) op = serialize (items.filter (fun i => i ≠ Item.op op)) := by
  induction items with
  | nil => simp [serialize]; rw [removeStandalone]
  | cons it items ih =>
    have : serialize (it :: items) = it.bytes ++ serialize items := by simp [serialize]
    rw [this, remove_item_append it (hv it (by simp)), ih (fun i hi => hv i (by simp [hi]))]
    by_cases h : it = Item.op op
    · simp [h]
    · simp [h, serialize]

theorem lenField_lenValue (w : Nat) (rest : Bytes) (h : w ≤ rest.length) :
    lenField w (lenValue w rest) = rest.take w := by
  rw [lenField_eq_leBytes, ← leNat_take_eq_lenValue w rest h]
  have := leBytes_leNat (rest.take w)
  rwa [List.length_take, Nat.min_eq_left h] at this

theorem lenValue_lt (w : Nat) (rest : Bytes) : lenValue w rest < 256 ^ w := by
  induction w generalizing rest with
  | zero => simp [lenValue]
  | succ w ih =>
    cases rest with
    | nil => simp [lenValue]; exact Nat.pow_pos (by decide)
    | cons b rest =>
      simp only [lenValue, Nat.pow_succ]
      have := ih rest
      have := b.toNat_lt
      omega

/-- everything the reference parser returns is a well-formed item list whose bytes are the script -/
theorem parse_sound (n : Nat) : ∀ (s : Bytes) (items : List Item), s.length ≤ n → parse s = some items →
    serialize items = s ∧ ∀ i ∈ items, i.valid = true := by
  induction n with
  | zero =>
    intro s items hl h
    have : s = [] := by cases s <;> simp_all
    subst this
    rw [parse] at h
    injection h with h; subst h
    simp [serialize]
  | succ n ih =>
    intro s items hl h
    cases s with
    | nil =>
      rw [parse] at h
      injection h with h; subst h
      simp [serialize]
    | cons b rest =>
      rw [parse] at h
      simp only [List.length_cons] at hl
      by_cases hp : 1 ≤ b.toNat ∧ b.toNat ≤ 0x4e
      · rw [if_pos hp] at h
        simp only at h
        by_cases h1 : lenWidth b ≤ rest.length
        · rw [if_pos h1] at h
          by_cases h2 : lenWidth b + (if lenWidth b = 0 then b.toNat else lenValue (lenWidth b) rest) ≤ rest.length
          · rw [if_pos h2] at h
            generalize hn : (if lenWidth b = 0 then b.toNat else lenValue (lenWidth b) rest) = nn at h h2
            cases hr : parse (List.drop (lenWidth b + nn) rest) with
            | none => rw [hr] at h; cases h
            | some its =>
              rw [hr] at h
              injection h with h; subst h
              obtain ⟨ihs, ihv⟩ := ih _ its (by simp only [List.length_drop]; omega) hr
              have hdl : (List.take nn (List.drop (lenWidth b) rest)).length = nn := by
                simp only [List.length_take, List.length_drop]; omega
              constructor
              · simp only [serialize, List.map_cons, List.flatten_cons, Item.bytes, hdl]
                have : (List.map Item.bytes its).flatten = serialize its := rfl
                rw [this, ihs]
                have hf : lenField (lenWidth b) nn = rest.take (lenWidth b) := by
                  by_cases hw : lenWidth b = 0
                  · simp [hw, lenField]
                  · rw [if_neg hw] at hn
                    rw [← hn]; exact lenField_lenValue _ _ h1
                have hdd : List.drop (lenWidth b + nn) rest = List.drop nn (List.drop (lenWidth b) rest) := by
                  rw [List.drop_drop]
                rw [hf, hdd, List.cons_append, List.append_assoc, List.take_append_drop,
                  List.take_append_drop]
              · intro i hi
                simp only [List.mem_cons] at hi
                rcases hi with rfl | hi
                · simp only [Item.valid, Bool.and_eq_true, decide_eq_true_eq, hdl]
                  refine ⟨⟨hp.1, hp.2⟩, ?_⟩
                  by_cases hw : lenWidth b = 0
                  · rw [if_pos hw] at hn
                    have := (lenWidth_zero_iff b).mp hw
                    subst hn
                    simp [this]
                  · rw [if_neg hw] at hn
                    have hb : ¬ b.toNat ≤ 0x4b := fun hh => hw ((lenWidth_zero_iff b).mpr hh)
                    simp only [hb, if_false, decide_eq_true_eq]
                    rw [← hn]; exact lenValue_lt _ _
                · exact ihv i hi
          · rw [if_neg h2] at h; cases h
        · rw [if_neg h1] at h; cases h
      · rw [if_neg hp] at h
        cases hr : parse rest with
        | none => rw [hr] at h; cases h
        | some its =>
          rw [hr] at h
          injection h with h; subst h
          obtain ⟨ihs, ihv⟩ := ih _ its (by omega) hr
          constructor
          · simp [serialize, Item.bytes]; exact ihs
          · intro i hi
            simp only [List.mem_cons] at hi
            rcases hi with rfl | hi
            · simp [Item.valid]; omega
            · exact ihv i hi


theorem parse_iff (s : Bytes) (items : List Item) :
    parse s = some items ↔ (serialize items = s ∧ ∀ i ∈ items, i.valid = true) := by
  constructor
  · exact parse_sound s.length s items (Nat.le_refl _)
  · rintro ⟨rfl, hv⟩; exact parse_serialize items hv

theorem decompile_eq (s : Bytes) : decompile s = liftOpt (List.map toChunk) (parse s) :=
  decompileFuel_eq s.length s (Nat.le_refl _)

theorem stripOpCode_eq (s : Bytes) (op : UInt8) : stripOpCode s op = stripRef s op :=
  stripFuel_eq s.length s op (Nat.le_refl _)

theorem decompile_spec (s : Bytes) (cs : List Chunk) :
    decompile s = .ok cs ↔ ∃ items, parse s = some items ∧ cs = items.map toChunk := by
  rw [decompile_eq]
  cases parse s with
  | none => simp [liftOpt]
  | some items =>
    simp only [liftOpt, Outcome.ok.injEq, Option.some.injEq]
    constructor
    · intro h; exact ⟨items, rfl, h.symm⟩
    · rintro ⟨its, rfl, rfl⟩; rfl

theorem decompile_err_iff (s : Bytes) : decompile s = .err ↔ parse s = none := by
  rw [decompile_eq]; cases parse s <;> simp [liftOpt]

theorem decompile_ne_panic (s : Bytes) : decompile s ≠ .panic := by
  rw [decompile_eq]; cases parse s <;> simp [liftOpt]

theorem strip_spec {s s' : Bytes} {op : UInt8} (h : stripOpCode s op = .ok s') :
    s' = removeStandalone s op := by
  rw [stripOpCode_eq] at h
  unfold stripRef at h
  cases hp : parse s with
  | none => rw [hp] at h; cases h
  | some items => rw [hp] at h; injection h with h; exact h.symm

theorem strip_ne_panic (s : Bytes) (op : UInt8) : stripOpCode s op ≠ .panic := by
  rw [stripOpCode_eq]; unfold stripRef; cases parse s <;> simp

/-- `StripOpCode` fails exactly when `Decompile` fails: on a push that runs past the end -/
theorem strip_err_iff (s : Bytes) (op : UInt8) : stripOpCode s op = .err ↔ parse s = none := by
  rw [stripOpCode_eq]; unfold stripRef; cases parse s <;> simp

/-- on every well-formed script: the items other than the stand-alone opcode, byte for byte -/
theorem strip_serialize (items : List Item) (hv : ∀ i ∈ items, i.valid = true) (op : UInt8) :
    stripOpCode (serialize items) op = .ok (serialize (items.filter (fun i => i ≠ Item.op op))) := by
  rw [stripOpCode_eq]; unfold stripRef
  rw [parse_serialize items hv, remove_serialize items hv]

end BtcVerif.Proofs.Script
