/- C16 helper lemmas, part 8: fault-free, cancel-free runs (ordered streaming, the UTXO scan, unordered streaming) — the re-orderer never sees the worker queues closed before the last block is released (no spurious link error), hence such a run is complete. -/
import BtcVerif.Proofs.StreamVariant
namespace BtcVerif.Model.Stream
open BtcVerif.Gen.Guards

/-- labels of the environment's misbehaviour: an RPC that fails, a block that does not link, a cancel -/
def faultOrCancel : Label → Bool
  | some (.rsp _ _ .err) | some (.rsp _ _ .nolink) | some .cancel => true
  | _ => false

/-- states reachable without any fault and without a cancel -/
inductive ReachableNF (P : Params) : State → Prop
  | init : ReachableNF P (init P)
  | step {s l s'} : ReachableNF P s → Step P s l s' → faultOrCancel l = false → ReachableNF P s'

theorem ReachableNF.reachable {P : Params} {s} (h : ReachableNF P s) : Reachable P s := by
  induction h with
  | init => exact .init
  | step _ hst _ ih => exact .step ih hst

/-- the block of height `h` has been handed to the re-orderer by its worker -/
def recvd (P : Params) (s : State) (h : Nat) : Prop :=
  ∃ w, s.workers[(h - (P.lo + 1)) % P.p]? = some w ∧ h < w.pos

structure InvNF (P : Params) (s : State) : Prop where
  c0 : s.cancel0 = false
  wk : ∀ (i : Nat) (w : Worker), s.workers[i]? = some w → w.ph ≠ .offerErr ∧ w.ph ≠ .offer false
  lk : s.latestOk = true
  ne : s.rph ≠ .sendErr ∧ s.closedSeen = false ∧ s.cph ≠ .gotErr ∧ s.errs = 0
  rc : ∀ h, P.lo + 1 ≤ h → h ≤ P.hi → (recvd P s h ↔ (h < s.cur ∨ h ∈ s.buf ∨ s.rph = .snd h))
  nd : s.buf.Nodup
  lp : s.rph = .loop → s.cur ∉ s.buf ∧ s.cur ≤ P.hi
  eb : (s.rph.early = true ∨ s.rph = .s0) → s.buf = []
  dn : ∀ (i : Nat) (w : Worker), s.workers[i]? = some w → w.ph = .done →
    P.hi < w.pos ∨ s.cancel2 = true ∨ s.cancel1 = true
  fn : s.rph = .fin → s.cur = P.hi + 1
  cl : s.rph.running = true → P.lo + 1 ≤ s.cur
  k1 : s.cancel1 = true → s.cur = P.hi + 1
  cc : P.mode = .utxo → (s.cph = .call ∨ s.cph = .gotEnd) → P.lo + s.cnt ≤ P.hi
  rt : P.mode = .utxo → s.cph = .finished → s.ret = some true

theorem base_ordered {P : Params} (hm : P.mode ≠ .unordered) : P.base = P.lo + 1 := by simp [Params.base, hm]

theorem not_recvd_init {P : Params} (hm : P.mode ≠ .unordered) (b : Bool) (h : Nat) (hlo : P.lo + 1 ≤ h) :
    ¬ ∃ w, (initWorkers P b)[(h - (P.lo + 1)) % P.p]? = some w ∧ h < w.pos := by
  rintro ⟨w, hw, hlt⟩
  obtain ⟨_, rfl⟩ := initWorkers_get hw
  simp only [initWorker, base_ordered hm] at hlt
  have := Nat.mod_le (h - (P.lo + 1)) P.p
  omega

theorem invNF_init {P : Params} (hm : P.mode ≠ .unordered) : InvNF P (init P) := by
  refine ⟨by simp [init], ?_, by simp [init], by simp [init, hm], ?_, by simp [init], by simp [init, hm],
    by simp [init], ?_, by simp [init, hm], by simp [init, hm, RPhase.running], by simp [init], by simp [init],
    by simp [init]⟩
  · intro i w hw
    obtain ⟨_, rfl⟩ := initWorkers_get hw
    simp [init, initWorker, hm]
  · intro h hlo hhi
    simp only [recvd, init, hm]
    constructor
    · intro hr; exact absurd hr (not_recvd_init hm _ h hlo)
    · simp; omega
  · intro i w hw hd
    obtain ⟨_, rfl⟩ := initWorkers_get hw
    simp [init, initWorker, hm] at hd

theorem pair_set {ws : List Worker} {j : Nat} {w' : Worker} {c : Worker → Prop}
    (h : ∀ (i : Nat) (w : Worker), ws[i]? = some w → c w) (hw' : c w') :
    ∀ (i : Nat) (w : Worker), (ws.set j w')[i]? = some w → c w := by
  intro i w hi
  rw [List.getElem?_set] at hi
  split at hi
  · split at hi
    · simp only [Option.some.injEq] at hi; subst hi; exact hw'
    · simp at hi
  · exact h i w hi

theorem mem_erase_nodup {xs : List Nat} (hnd : xs.Nodup) (a b : Nat) : a ∈ xs.erase b ↔ a ∈ xs ∧ a ≠ b := by
  rw [hnd.mem_erase_iff]; exact And.comm

theorem nodup_insertSorted {h : Nat} {xs : List Nat} (hnd : xs.Nodup) (hn : h ∉ xs) : (insertSorted h xs).Nodup := by
  induction xs with
  | nil => simp [insertSorted]
  | cons y ys ih =>
    unfold insertSorted
    simp only [List.nodup_cons, List.mem_cons, not_or] at hnd hn
    split
    · simp only [List.nodup_cons, List.mem_cons, not_or]; exact ⟨⟨hn.1, hn.2⟩, hnd⟩
    · simp only [List.nodup_cons, mem_insertSorted, not_or]
      exact ⟨⟨fun h' => hn.1 h'.symm, hnd.1⟩, ih hnd.2 hn.2⟩

set_option maxHeartbeats 3200000 in
theorem invNF_step {P : Params} (hP : P.lo ≤ P.hi) (hm : P.mode ≠ .unordered) (hp : 0 < P.p) {s l s'}
    (hr : Reachable P s) (h : InvNF P s) (hst : Step P s l s') (hnf : faultOrCancel l = false) : InvNF P s' := by
  have h1 := reachable_inv1 hP hr
  have h2 := reachable_inv2 hP hm hr
  have hro := h1.ro hm
  obtain ⟨_, hI⟩ := step_inv hst
  obtain ⟨hc0, hwk, hlk, hne, hrc, hnd, hlp, heb, hdn, hfn, hcl, hk1, hcc, hrt⟩ := h
  have hb := base_ordered hm
  cases hI with
  | wLocal i w ph' l hw hl =>
    refine ⟨by simpa [setW] using hc0, ?_, by simpa [setW] using hlk, by simpa [setW] using hne, ?_,
      by simpa [setW] using hnd, by simpa [setW] using hlp, by simpa [setW] using heb, ?_, by simpa [setW] using hfn, by simpa [setW] using hcl,
      by simpa [setW] using hk1, by simpa [setW] using hcc, by simpa [setW] using hrt⟩
    · simp only [setW]
      refine pair_set (c := fun w => w.ph ≠ .offerErr ∧ w.ph ≠ .offer false) hwk ?_
      cases hl <;> simp_all [faultOrCancel]
    · intro h hlo hhi
      have := hrc h hlo hhi
      simp only [recvd, setW] at this ⊢
      rw [exists_set_samepos (w' := { w with ph := ph' }) hw rfl]; exact this
    · simp only [setW]
      refine pair_set (c := fun w => w.ph = .done → P.hi < w.pos ∨ s.cancel2 = true ∨ s.cancel1 = true) hdn ?_
      intro _
      cases hl <;> simp_all [State.workerCtxDone]
      rename_i hc; rcases hc with hc | hc
      · exact .inr (.inr hc)
      · exact .inr (.inl hc)
  | wGiveC i w g hw hp' hm'' hc => exact absurd hm'' hm
  | wErrC i w hw hp' hm'' hc => exact absurd hm'' hm
  | wErrR i w hw hp' hm'' hr' => exact absurd hp' (hwk i w hw).1
  | wGiveR i w g hw hp' hm'' hr' =>
    have hg : g = true := by
      cases g
      · exact absurd hp' (hwk i w hw).2
      · rfl
    subst hg
    have hwok := h1.wok i w hw
    have hilt : i < P.p := by
      rcases List.getElem?_eq_some_iff.mp hw with ⟨h, _⟩; rw [← h1.len]; exact h
    have hres := wok_residue hwok hilt
    rw [hb] at hres
    have hle : w.pos ≤ P.hi := hwok.2.2 (by simp [hp']) (by simp [hp'])
    have hlo : P.lo + 1 ≤ w.pos := by have := hwok.1; rw [hb] at this; omega
    have hnotin : w.pos ∉ s.buf := by
      intro hin
      have := (hrc w.pos hlo hle).mpr (.inr (.inl hin))
      obtain ⟨v, hv, hlt⟩ := this
      rw [hres, hw] at hv
      simp only [Option.some.injEq] at hv; subst hv; omega
    refine ⟨by simpa [setW] using hc0, ?_, by simpa [setW] using hlk, ?_, ?_, ?_, by simp [setW], ?_, ?_, by simp [setW],
      by have := hcl (by simp [hr', RPhase.running]); intro _; simpa [setW] using this,
      by simpa [setW] using hk1, by simpa [setW] using hcc, by simpa [setW] using hrt⟩
    · simp only [setW]
      refine pair_set (c := fun w => w.ph ≠ .offerErr ∧ w.ph ≠ .offer false) hwk ?_
      simp only [advance]; split <;> simp
    · simp_all [setW]
    · intro h hlo' hhi'
      have hold := hrc h hlo' hhi'
      simp only [recvd, setW, if_true, mem_insertSorted] at hold ⊢
      rw [List.getElem?_set]
      by_cases hk : i = (h - (P.lo + 1)) % P.p
      · have hlt : i < s.workers.length := by rw [h1.len]; exact hilt
        rw [← hk] at hold ⊢
        simp only [if_true, hlt, hw, Option.some.injEq, exists_eq_left', advance, hr'] at hold ⊢
        constructor
        · intro hlt'
          by_cases hlt'' : h < w.pos
          · rcases hold.mp hlt'' with h' | h' | h'
            · exact .inl h'
            · exact .inr (.inl (.inr h'))
            · simp at h'
          · have := mod_window (a := w.pos - (P.lo + 1)) (b := h - (P.lo + 1)) (p := P.p) (by omega) (by omega)
              (by rw [hres, hk])
            exact .inr (.inl (.inl (by omega)))
        · rintro (h' | (h' | h') | h')
          · have := hold.mpr (.inl h'); omega
          · omega
          · have := hold.mpr (.inr (.inl h')); omega
          · simp at h'
      · simp only [hk, if_false, hr'] at hold ⊢
        rw [hold]
        constructor
        · rintro (h' | h' | h')
          · exact .inl h'
          · exact .inr (.inl (.inr h'))
          · simp at h'
        · rintro (h' | (h' | h') | h')
          · exact .inl h'
          · exact absurd (by rw [h', hres]) hk
          · exact .inr (.inl h')
          · simp at h'
    · simp only [setW, if_true]; exact nodup_insertSorted hnd hnotin
    · simp [setW, RPhase.early]
    · simp only [setW]
      refine pair_set (c := fun w => w.ph = .done → P.hi < w.pos ∨ s.cancel2 = true ∨ s.cancel1 = true) hdn ?_
      intro hd; left
      simp only [advance] at hd ⊢
      by_cases h : w.pos + P.p ≤ P.hi
      · simp [h] at hd
      · omega
  | rF1err hr' | rF2err hr' | rF2nolink hr' | envCancel hr' => simp [faultOrCancel] at hnf
  | rLoopCancel hr' hc =>
    simp only [hc0, Bool.false_or] at hc
    have := hk1 hc; have := (hlp hr').2; omega
  | rRelErr hr' h1' h2' => simp [hne.2.1] at h2'
  | rSendErr hr' hc => exact absurd hr' hne.1
  | cErr hc hm'' => exact absurd hc hne.2.2.1
  | cRetOk hc hm'' hn =>
    have hcur : s.cur = P.hi + 1 := by
      have hp' := h2.hp
      simp only [handed, hc, List.append_nil] at hp'
      have hl := congrArg List.length hp'
      simp only [List.length_range'] at hl
      have := h2.cn hm''; have := h2.hi; have := h2.lo
      omega
    refine ⟨hc0, hwk, hlk, by simp_all, fun h a b => hrc h a b, hnd, hlp, heb, fun i w _ _ => by simp, hfn, hcl,
      fun _ => hcur, by simp, by simp⟩
  | cRetErr hc hm'' =>
    exfalso
    rcases hc with hc | hc
    · exact hne.2.2.1 hc
    · have hfin := hro.2.1.mp (h2.ec (.inl hc))
      have hcur := hfn hfin
      have hp' := h2.hp
      simp only [handed, hc, List.append_nil] at hp'
      have hl := congrArg List.length hp'
      simp only [List.length_range'] at hl
      have := h2.cn hm''; have := hcc hm'' (.inr hc)
      omega
  | rLoopClosed hr' hc =>
    exfalso
    have hall := (allDone_iff _).mp (h1.cd hc)
    obtain ⟨hnotin, hle⟩ := hlp hr'
    have hcur : P.lo + 1 ≤ s.cur := hcl (by simp [hr', RPhase.running])
    have hlt : (s.cur - (P.lo + 1)) % P.p < s.workers.length := by rw [h1.len]; exact Nat.mod_lt _ hp
    have hw : s.workers[(s.cur - (P.lo + 1)) % P.p]? = some s.workers[(s.cur - (P.lo + 1)) % P.p] := by simp [hlt]
    have hd := hall _ _ hw
    have hc2 : s.cancel2 = false := by
      rw [hro.2.2]; cases h : s.outClosed
      · rfl
      · have := hro.2.1.mp h; simp [hr'] at this
    rcases hdn _ _ hw hd with h' | h'
    · have := (hrc s.cur hcur hle).mp ⟨_, hw, by omega⟩
      rcases this with h'' | h'' | h''
      · omega
      · exact hnotin h''
      · simp [hr'] at h''
    · rcases h' with h' | h'
      · simp [hc2] at h'
      · have := hk1 h'; omega
  | closer hs hc hall =>
    exact ⟨hc0, hwk, hlk, hne, hrc, hnd, hlp, heb, hdn, hfn, hcl, hk1, hcc, hrt⟩
  | rF0 hr' | rF1ok hr' | rF1b hr' =>
    have hb' := heb (.inl (by simp [hr', RPhase.early]))
    have hcur := (h2.ea (.inl (by simp [hr', RPhase.early]))).1
    refine ⟨hc0, hwk, hlk, by simp_all, ?_, hnd, by simp, by simp [hb'], hdn, by simp, by simp [RPhase.running],
      hk1, hcc, hrt⟩
    intro h hlo hhi
    have := hrc h hlo hhi
    simp only [recvd, hr'] at this ⊢
    rw [this]; simp
  | rF2ok hr' =>
    have hb' := heb (.inl (by simp [hr', RPhase.early]))
    have hcur := (h2.ea (.inl (by simp [hr', RPhase.early]))).1
    unfold afterFirst
    simp only [blockscan_BlockScanner_streamBlocksUnordered_0]
    split
    · refine ⟨hc0, hwk, by simp, by simp_all, ?_, hnd, by simp, by simp [hb'], hdn, by simp, by simp [RPhase.running],
        hk1, hcc, hrt⟩
      intro h hlo hhi
      have := hrc h hlo hhi
      simp only [recvd, hr'] at this ⊢
      rw [this]; simp
    · have : ¬ (P.hi < P.lo + 1) := by omega
      simp only [this, decide_false, Bool.false_eq_true, if_false]
      refine ⟨hc0, ?_, by simp, by simp_all, ?_, hnd, by simp, by simp [hb'], ?_, by simp, by simp [RPhase.running],
        hk1, hcc, hrt⟩
      · intro i w hw
        obtain ⟨_, rfl⟩ := initWorkers_get hw
        simp only [initWorker, if_true]; split <;> simp
      · intro h hlo hhi
        simp only [recvd, hb', hcur]
        constructor
        · intro hr''; exact absurd hr'' (not_recvd_init hm _ h hlo)
        · simp; omega
      · intro i w hw hd
        obtain ⟨_, rfl⟩ := initWorkers_get hw
        simp only [initWorker, if_true] at hd ⊢
        left
        by_cases h : P.base + i ≤ P.hi
        · simp [h] at hd
        · omega
  | rS0 hr' hc =>
    have hb' := heb (.inr hr')
    have hcur := (h2.ea (.inr hr')).1
    have hrc' : ∀ h, P.lo + 1 ≤ h → h ≤ P.hi → (recvd P s h ↔ False) := by
      intro h hlo hhi
      have := hrc h hlo hhi
      rw [this, hb', hcur, hr']; simp; omega
    have hk1' : s.cancel1 = true → P.lo + 1 = P.hi + 1 := by
      intro h; have := (h1.c1 (.inl h)).2; simp [hc] at this
    unfold loopHead
    split
    · rename_i hle
      simp only at hle
      refine ⟨hc0, hwk, hlk, by simp_all, ?_, hnd, by simp [hb']; omega, by simp [RPhase.early], hdn, by simp, by simp,
        hk1', by simp, by simp⟩
      intro h hlo hhi
      have := hrc' h hlo hhi
      simp only [recvd] at this ⊢
      rw [this, hb']; simp; omega
    · rename_i hle
      simp only at hle
      refine ⟨hc0, hwk, hlk, by simp_all [exitX], ?_, hnd, by simp [exitX], by simp [exitX, RPhase.early], ?_,
        by simp [exitX]; omega, by simp [exitX, RPhase.running], hk1', by simp [exitX], by simp [exitX]⟩
      · intro h hlo hhi
        have := hrc' h hlo hhi
        simp only [recvd, exitX] at this ⊢
        rw [this, hb']; simp; omega
      · intro i w hw hd; simp [exitX]
  | rRelLoop hr' hc1' hc2' =>
    have hcur := hcl (by simp [hr', RPhase.running])
    have hni : s.cur ∉ s.buf := by intro h; exact hc1' ⟨hlk, h⟩
    unfold loopHead
    split
    · rename_i hle
      refine ⟨hc0, hwk, hlk, by simp_all, ?_, hnd, by simp; exact ⟨hni, hle⟩, by simp [RPhase.early], hdn, by simp,
        by simpa [RPhase.running] using hcur, hk1, hcc, hrt⟩
      intro h hlo hhi
      have := hrc h hlo hhi
      simp only [recvd, hr'] at this ⊢
      rw [this]; simp
    · rename_i hle
      have := h2.hi
      refine ⟨hc0, hwk, hlk, by simp_all [exitX], ?_, hnd, by simp [exitX], by simp [exitX, RPhase.early], ?_,
        by simp [exitX]; omega, by simp [exitX, RPhase.running], hk1, hcc, hrt⟩
      · intro h hlo hhi
        have := hrc h hlo hhi
        simp only [recvd, exitX, hr'] at this ⊢
        rw [this]; simp
      · intro i w hw hd; simp [exitX]
  | rRelSend hr' h1' h2' =>
    have hcur := hcl (by simp [hr', RPhase.running])
    refine ⟨hc0, hwk, hlk, by simp_all, ?_, hnd.erase _, by simp, by simp [RPhase.early], hdn, by simp,
      by simpa [RPhase.running] using hcur, hk1, hcc, hrt⟩
    intro h hlo hhi
    have := hrc h hlo hhi
    simp only [recvd, hr'] at this ⊢
    rw [this, mem_erase_nodup hnd]
    simp only [RPhase.snd.injEq, reduceCtorEq, or_false]
    constructor
    · rintro (h' | h')
      · exact .inl h'
      · by_cases he : h = s.cur
        · exact .inr (.inr he.symm)
        · exact .inr (.inl ⟨h', he⟩)
    · rintro (h' | ⟨h', _⟩ | h')
      · exact .inl h'
      · exact .inr h'
      · subst h'; exact .inr h2'
  | rSnd h0 hr' hc =>
    obtain ⟨rfl, hle⟩ := h2.sn h0 hr'
    have hcur := hcl (by simp [hr', RPhase.running])
    refine ⟨hc0, hwk, hlk, by simp_all, ?_, hnd, by simp, by simp [RPhase.early], hdn, by simp,
      by simp [RPhase.running]; omega,
      by intro h; have := (h1.c1 (.inl h)).2; simp [hc] at this, by simp, by simp⟩
    intro h hlo hhi
    have := hrc h hlo hhi
    simp only [recvd, hr'] at this ⊢
    rw [this]
    simp only [RPhase.snd.injEq, reduceCtorEq, or_false]
    constructor
    · rintro (h' | h' | h')
      · exact .inl (by omega)
      · exact .inr h'
      · exact .inl (by omega)
    · rintro (h' | h')
      · by_cases he : h < s.cur
        · exact .inl he
        · exact .inr (.inr (by omega))
      · exact .inr (.inl h')
  | cCall hc hm'' =>
    exact ⟨hc0, hwk, hlk, by simp_all, fun h a b => hrc h a b, hnd, hlp, heb, hdn, hfn, hcl, hk1,
      fun hu _ => hm'' hu, by simp⟩
  | cSeeEnd hc hx =>
    exact ⟨hc0, hwk, hlk, by simp_all, fun h a b => hrc h a b, hnd, hlp, heb, hdn, hfn, hcl, hk1,
      fun hu _ => hcc hu (.inl hc), by simp⟩
  | cDeliver h0 hc =>
    exact ⟨hc0, hwk, hlk, by simp_all, fun h a b => hrc h a b, hnd, hlp, heb, hdn, hfn, hcl, hk1, by simp, by simp⟩
  | cEnd hc hm'' =>
    exact ⟨hc0, hwk, hlk, by simp_all, fun h a b => hrc h a b, hnd, hlp, heb, hdn, hfn, hcl, hk1, by simp,
      fun hu => absurd hu hm''⟩

theorem reachableNF_inv {P : Params} (hP : P.lo ≤ P.hi) (hm : P.mode ≠ .unordered) (hp : 0 < P.p) {s}
    (hr : ReachableNF P s) : InvNF P s := by
  induction hr with
  | init => exact invNF_init hm
  | step hr' hst hnf ih => exact invNF_step hP hm hp hr'.reachable ih hst hnf

/-- a fault-free, cancel-free maximal run of ordered streaming delivers the whole range, in order, returns
no error and signals the end of the stream -/
theorem ordered_complete_thm {P : Params} (hP : P.lo ≤ P.hi) (hm : P.mode = .ordered) (hp : 0 < P.p) {s}
    (hr : ReachableNF P s) (hterm : ∀ l s', Step P s l s' → l = some .cancel) :
    s.delivered = fullRange P ∧ s.ended = true ∧ s.errs = 0 := by
  have hR := hr.reachable
  have hnf := reachableNF_inv hP (by simp [hm]) hp hr
  have hfin : s.cph = .finished := by
    by_cases h : s.cph = .finished
    · exact h
    · obtain ⟨l, s', hst, hl⟩ := consumer_progress_thm hP hR h
      exact absurd (hterm l s' hst) hl
  have he : s.ended = true := (reachable_inv5 hP hR).fe (by simp [hm]) hfin
  exact ⟨no_false_success_ordered_thm hP hm hR he hnf.c0 hnf.ne.2.2.2, he, hnf.ne.2.2.2⟩

/-- a fault-free, cancel-free maximal run of `UpdateUtxos` returns nil after applying the whole range in order -/
theorem utxo_complete_thm {P : Params} (hP : P.lo ≤ P.hi) (hm : P.mode = .utxo) (hp : 0 < P.p) {s}
    (hr : ReachableNF P s) (hterm : ∀ l s', Step P s l s' → l = some .cancel) :
    s.ret = some true ∧ s.delivered = fullRange P := by
  have hR := hr.reachable
  have hnf := reachableNF_inv hP (by simp [hm]) hp hr
  have hfin : s.cph = .finished := by
    by_cases h : s.cph = .finished
    · exact h
    · obtain ⟨l, s', hst, hl⟩ := consumer_progress_thm hP hR h
      exact absurd (hterm l s' hst) hl
  have hret := hnf.rt hm hfin
  exact ⟨hret, utxo_success_complete_thm hP hm hR hret⟩

/-! ### unordered streaming without faults -/

structure InvNFU (P : Params) (s : State) : Prop where
  c0 : s.cancel0 = false
  wk : ∀ (i : Nat) (w : Worker), s.workers[i]? = some w → w.ph ≠ .offerErr
  ne : s.cph ≠ .gotErr ∧ s.errs = 0

theorem invNFU_init {P : Params} : InvNFU P (init P) := by
  refine ⟨by simp [init], ?_, by simp [init]⟩
  intro i w hw
  obtain ⟨_, rfl⟩ := initWorkers_get hw
  simp only [initWorker]; split <;> (try split) <;> simp

theorem invNFU_step {P : Params} (hP : P.lo ≤ P.hi) (hm : P.mode = .unordered) {s l s'}
    (h1 : Inv1 P s) (h : InvNFU P s) (hst : Step P s l s') (hnf : faultOrCancel l = false) : InvNFU P s' := by
  obtain ⟨_, hI⟩ := step_inv hst
  obtain ⟨hc0, hwk, hne⟩ := h
  have hun := (h1.un hm).1
  cases hI with
  | wLocal i w ph' l hw hl =>
    refine ⟨by simpa [setW] using hc0, ?_, by simpa [setW] using hne⟩
    simp only [setW]
    refine pair_set (c := fun w => w.ph ≠ .offerErr) hwk ?_
    cases hl <;> simp_all [faultOrCancel]
  | wGiveC i w g hw hp hm' hc =>
    refine ⟨by simpa [setW] using hc0, ?_, by simp_all [setW]⟩
    simp only [setW]
    refine pair_set (c := fun w => w.ph ≠ .offerErr) hwk ?_
    simp only [advance]; split <;> simp
  | wErrC i w hw hp hm' hc => exact absurd hp (hwk i w hw)
  | wGiveR i w g hw hp hm' hr => exact absurd hm hm'
  | wErrR i w hw hp hm' hr => exact absurd hm hm'
  | closer hs hc hall => exact ⟨hc0, hwk, hne⟩
  | rF0 hr | rF1ok hr | rF1err hr | rF1b hr | rF2err hr | rLoopCancel hr hc | rLoopClosed hr hc
  | rRelSend hr h1' h2' | rRelErr hr h1' h2' | rSnd h hr hc | rSendErr hr hc | rF2ok hr | rF2nolink hr
  | rS0 hr hc | rRelLoop hr hc1' hc2' => simp [hun] at hr
  | cRetOk hc hm' hn => simp [hm] at hm'
  | cRetErr hc hm' => simp [hm] at hm'
  | cErr hc hm' => exact absurd hc hne.1
  | envCancel hc => simp [faultOrCancel] at hnf
  | cCall hc hm' | cSeeEnd hc hx | cDeliver h hc | cEnd hc hm' =>
    exact ⟨hc0, hwk, by simp_all⟩

theorem reachableNF_invU {P : Params} (hP : P.lo ≤ P.hi) (hm : P.mode = .unordered) {s}
    (hr : ReachableNF P s) : InvNFU P s := by
  induction hr with
  | init => exact invNFU_init
  | step hr' hst hnf ih => exact invNFU_step hP hm (reachable_inv1 hP hr'.reachable) ih hst hnf

/-- a fault-free, cancel-free maximal run of unordered streaming delivers a permutation of the range, returns
no error and signals the end of the stream -/
theorem unordered_complete_nf_thm {P : Params} (hP : P.lo ≤ P.hi) (hm : P.mode = .unordered) (hp : 0 < P.p) {s}
    (hr : ReachableNF P s) (hterm : ∀ l s', Step P s l s' → l = some .cancel) :
    s.delivered.Perm (fullRange P) ∧ s.ended = true ∧ s.errs = 0 := by
  have hR := hr.reachable
  have hnf := reachableNF_invU hP hm hr
  have hfin : s.cph = .finished := by
    by_cases h : s.cph = .finished
    · exact h
    · obtain ⟨l, s', hst, hl⟩ := consumer_progress_thm hP hR h
      exact absurd (hterm l s' hst) hl
  have he : s.ended = true := (reachable_inv5 hP hR).fe (by simp [hm]) hfin
  exact ⟨unordered_complete_thm hP hm hp hR he hnf.c0 hnf.ne.2, he, hnf.ne.2⟩

end BtcVerif.Model.Stream

