/-
  Group-level lemmas for C04 / C05 / C06 over the abstract curve `CurveAbs` (Proofs/CurveAbs.lean):
  public keys, ECDH, sums of x-only keys, ECDSA / Schnorr verification = reference verifier,
  sign-then-verify, the high-S twin.
-/
import BtcVerif.Proofs.ECC

namespace BtcVerif.Proofs.ECC
open BtcVerif BtcVerif.Model.ECC BtcVerif.Gen.Guards BtcVerif.Proofs
open BtcVerif.Spec.ECC (liftX validPoint parsePoint encodeCompressed encodeUncompressed encodeXOnly IsStandardEncoding)

/-! ### arithmetic modulo the group order (in `ZMod n`) -/

theorem cast_of_mod_eq_one {n x : ℕ} (hn : 1 < n) (h : x % n = 1) : (x : ZMod n) = 1 := by
  have : x % n = 1 % n := by rw [h, Nat.mod_eq_of_lt hn]
  have := (ZMod.natCast_eq_natCast_iff' x 1 n).mpr this
  simpa using this

theorem mod_eq_of_cast {n a b : ℕ} (h : (a : ZMod n) = b) : a % n = b % n :=
  (ZMod.natCast_eq_natCast_iff' a b n).mp h

theorem mod_zero_of_cast {n a : ℕ} (h : (a : ZMod n) = 0) : a % n = 0 := by
  have := mod_eq_of_cast (n := n) (a := a) (b := 0) (by simpa using h)
  simpa using this

theorem ecdsa_arith_pos {n k ik d z r si : ℕ} (hn : 1 < n) (hik : ik * k % n = 1)
    (hsi : si * (ik * (r * d + z) % n) % n = 1) :
    (si * z % n + si * r % n * d) % n = k % n := by
  apply mod_eq_of_cast
  have h1 := cast_of_mod_eq_one hn hik
  have h2 := cast_of_mod_eq_one hn hsi
  push_cast [ZMod.natCast_mod] at h1 h2 ⊢
  linear_combination (-(si * (z + r * d) : ZMod n)) * h1 + (k : ZMod n) * h2

theorem ecdsa_arith_neg {n k ik d z r si : ℕ} (hn : 1 < n) (hik : ik * k % n = 1)
    (hsi : si * (n - ik * (r * d + z) % n) % n = 1) :
    (si * z % n + si * r % n * d + k) % n = 0 := by
  apply mod_zero_of_cast
  have hle : ik * (r * d + z) % n ≤ n := (Nat.mod_lt _ (by omega)).le
  have h1 := cast_of_mod_eq_one hn hik
  have h2 := cast_of_mod_eq_one hn hsi
  push_cast [ZMod.natCast_mod, Nat.cast_sub hle, ZMod.natCast_self] at h1 h2 ⊢
  linear_combination ((si * (z + r * d) : ZMod n)) * h1 * (-1) + (-(k : ZMod n)) * h2

theorem inv_twin {n s si si' z : ℕ} (hn : 1 < n) (hs : s ≤ n) (h1 : si * s % n = 1)
    (h2 : si' * (n - s) % n = 1) : (si * z % n + si' * z % n) % n = 0 := by
  apply mod_zero_of_cast
  have h1 := cast_of_mod_eq_one hn h1
  have h2 := cast_of_mod_eq_one hn h2
  push_cast [ZMod.natCast_mod, Nat.cast_sub hs, ZMod.natCast_self] at h1 h2 ⊢
  linear_combination (-(si' * z : ZMod n)) * h1 + (-(si * z : ZMod n)) * h2


theorem lenGuard_false {l k : Nat} (h : l = k) : decide ((l : Int) ≠ (k : Int)) = false := by
  subst h; simp

theorem lenGuard_true {l k : Nat} (h : l ≠ k) : decide ((l : Int) ≠ (k : Int)) = true := by
  simp; omega

/-! ### keys -/

variable {C : CurveOps} (H : CurveAbs C)
include H

omit H in
theorem isValidScalar_iff (d : Nat) : isValidScalar C d = true ↔ 0 < d ∧ d < C.n := by
  simp [isValidScalar]

theorem xy_fst_lt (P : H.Pt) : (H.xy P).1 < 2 ^ 256 := by
  by_cases hP : P = 0
  · subst hP; rw [H.xy_zero]; simp
  · have := (H.on_curve' P hP).1
    have := H.field.p_lt
    omega

theorem xy_snd_lt (P : H.Pt) : (H.xy P).2 < 2 ^ 256 := by
  by_cases hP : P = 0
  · subst hP; rw [H.xy_zero]; simp
  · have := (H.on_curve' P hP).2.1
    have := H.field.p_lt
    omega

theorem deserialize_compressed {P : H.Pt} (hP : P ≠ 0) :
    deserializePoint C (encodeCompressed (H.xy P)) = .ok (H.xy P) :=
  (deserializePoint_ok_iff H.field _ _).mpr ⟨H.on_curve P hP, Or.inl rfl⟩

theorem deserialize_uncompressed {P : H.Pt} (hP : P ≠ 0) :
    deserializePoint C (encodeUncompressed (H.xy P)) = .ok (H.xy P) :=
  (deserializePoint_ok_iff H.field _ _).mpr ⟨H.on_curve P hP, Or.inr (Or.inl rfl)⟩

theorem deserialize_xonly {P : H.Pt} (hP : P ≠ 0) (he : (H.xy P).2 % 2 = 0) :
    deserializePoint C (encodeXOnly (H.xy P)) = .ok (H.xy P) :=
  (deserializePoint_ok_iff H.field _ _).mpr ⟨H.on_curve P hP, Or.inr (Or.inr ⟨rfl, he⟩)⟩

/-- every decoded key is a finite group element -/
theorem deserialize_is_point {bs : Bytes} {Q : Pt} (h : deserializePoint C bs = .ok Q) :
    ∃ P : H.Pt, P ≠ 0 ∧ H.xy P = Q :=
  H.surj Q (deserialize_sound H.field h).1

theorem mulBase_valid {k : Nat} (hk : isValidScalar C k = true) :
    mulBase C k = .ok (H.xy (k • H.G)) ∧ k • H.G ≠ 0 := by
  obtain ⟨h0, hn⟩ := (isValidScalar_iff k).mp hk
  have := H.n_lt
  exact ⟨H.mulBase_eq (by omega), H.nsmul_G_ne_zero h0 hn⟩

theorem getPublicKeyCompressed_spec (priv : Bytes) (hv : isValidScalar C (beNat priv) = true) :
    getPublicKeyCompressed C priv = .ok (encodeCompressed (H.xy (beNat priv • H.G))) := by
  obtain ⟨hm, hne⟩ := mulBase_valid H hv
  unfold getPublicKeyCompressed
  rw [hm, Outcome.bind_ok, serializeCompressed_valid H.field (H.on_curve _ hne)]

theorem getPublicKeyUncompressed_spec (priv : Bytes) (hv : isValidScalar C (beNat priv) = true) :
    getPublicKeyUncompressed C priv = .ok (encodeUncompressed (H.xy (beNat priv • H.G))) := by
  obtain ⟨hm, hne⟩ := mulBase_valid H hv
  unfold getPublicKeyUncompressed
  rw [hm, Outcome.bind_ok, serializeUncompressed_valid H.field (H.on_curve _ hne)]

theorem getPublicKeySchnorr_spec (priv : Bytes) (hv : isValidScalar C (beNat priv) = true) :
    getPublicKeySchnorr C priv = .ok (encodeXOnly (H.xy (beNat priv • H.G))) := by
  obtain ⟨hm, hne⟩ := mulBase_valid H hv
  unfold getPublicKeySchnorr
  rw [hm, Outcome.bind_ok, fillBytes32_lt (xy_fst_lt H _)]
  rfl

/-! ### ECDH -/

theorem sharedSecret_eq (a : Nat) (ha : a < 2 ^ 256) (P : H.Pt) :
    sharedSecret C a (H.xy P) = .ok (beBytes 32 (H.xy (a • P)).1) := by
  unfold sharedSecret
  rw [H.mulAffine_eq a P ha, Outcome.bind_ok, fillBytes32_lt (xy_fst_lt H _)]

theorem ecdh_symm (a b : Nat) (ha : a < 2 ^ 256) (hb : b < 2 ^ 256) :
    sharedSecret C a (H.xy (b • H.G)) = .ok (beBytes 32 (H.xy ((a * b) • H.G)).1) ∧
    sharedSecret C b (H.xy (a • H.G)) = .ok (beBytes 32 (H.xy ((a * b) • H.G)).1) := by
  rw [sharedSecret_eq H a ha, sharedSecret_eq H b hb]
  constructor
  · rw [mul_nsmul']
  · rw [mul_nsmul]

/-! ### sums of x-only public keys -/

theorem sumPubLoop_spec (Ps : List H.Pt) (A : H.Pt)
    (h : ∀ P ∈ Ps, P ≠ 0 ∧ (H.xy P).2 % 2 = 0) :
    sumPubLoop C (Ps.map (fun P => encodeXOnly (H.xy P))) (H.xy A) = .ok (H.xy (A + Ps.sum)) := by
  induction Ps generalizing A with
  | nil => simp [sumPubLoop]
  | cons P Ps ih =>
    obtain ⟨hP, he⟩ := h P (by simp)
    simp only [List.map_cons, sumPubLoop, ecc_SumPublicKeys_0, encodeXOnly_length]
    rw [deserialize_xonly H hP he]
    simp only [H.add_spec]
    rw [ih _ (fun Q hQ => h Q (by simp [hQ]))]
    simp [add_assoc]

theorem sumPublicKeys_spec (Ps : List H.Pt) (h : ∀ P ∈ Ps, P ≠ 0 ∧ (H.xy P).2 % 2 = 0) :
    sumPublicKeys C (Ps.map (fun P => encodeXOnly (H.xy P))) = .ok (beBytes 32 (H.xy Ps.sum).1) := by
  unfold sumPublicKeys
  rw [← H.xy_zero, sumPubLoop_spec H Ps 0 h, Outcome.bind_ok, zero_add, fillBytes32_lt (xy_fst_lt H _)]


/-! ### ECDSA verification -/

theorem eklipticVerify_eq (z r s : Nat) (P : H.Pt) :
    eklipticVerify C z r s (H.xy P) =
      .ok (decide (r = (H.xy ((C.invN s * z % C.n) • H.G + (C.invN s * r % C.n) • P)).1 % C.n)) := by
  have hn := H.n_lt
  have h1 : C.invN s * z % C.n < 2 ^ 256 := by have := Nat.mod_lt (C.invN s * z) H.n_pos; omega
  have h2 : C.invN s * r % C.n < 2 ^ 256 := by have := Nat.mod_lt (C.invN s * r) H.n_pos; omega
  simp only [eklipticVerify, H.mulBase_eq h1, H.mulAffine_eq _ _ h2, Outcome.bind_ok, H.add_spec,
    Outcome.pure_eq]

theorem parsePoint_is_point {bs : Bytes} {Q : Pt} (h : parsePoint C bs = some Q) :
    ∃ P : H.Pt, P ≠ 0 ∧ H.xy P = Q :=
  H.surj Q (standard_of_parsePoint H.field h).1

/-- the model verifier is the SEC 1 verifier with strict key parsing, for every input -/
theorem verifyECDSA_eq_spec (pub hash : Bytes) (r s : Nat) (hh : hash.length = 32) :
    verifyECDSA C pub hash r s = .ok (Spec.ECC.verifyECDSA C pub hash r s) := by
  have g0 : ecc_VerifyECDSA_0 hash.length = false := by simp [ecc_VerifyECDSA_0, hh]
  unfold verifyECDSA Spec.ECC.verifyECDSA
  rw [g0, deserializePoint_eq_spec H.field]
  simp only [Bool.false_eq_true, if_false]
  by_cases hv : (0 < r ∧ r < C.n) ∧ (0 < s ∧ s < C.n)
  · obtain ⟨⟨hr0, hrn⟩, ⟨hs0, hsn⟩⟩ := hv
    have g1 : ecc_VerifyECDSA_1 (isValidScalar C r) (isValidScalar C s) = false := by
      simp [ecc_VerifyECDSA_1, isValidScalar, hr0, hrn, hs0, hsn]
    have g2 : (!(decide (1 ≤ r) && decide (r < C.n) && decide (1 ≤ s) && decide (s < C.n))) = false := by
      simp [hrn, hsn]; omega
    rw [g1]
    simp only [Bool.false_eq_true, if_false]
    cases hp : parsePoint C pub with
    | none => rfl
    | some Q =>
      obtain ⟨P, hP, rfl⟩ := parsePoint_is_point H hp
      have e1 : beNat hash * C.invN s % C.n = C.invN s * beNat hash % C.n := by rw [Nat.mul_comm]
      have e2 : r * C.invN s % C.n = C.invN s * r % C.n := by rw [Nat.mul_comm]
      have hG : (C.gx, C.gy) = H.xy H.G := H.xy_G.symm
      simp only [ofOption, g2, Bool.false_eq_true, if_false, eklipticVerify_eq H, e1, e2, hG, H.mul_spec,
        H.add_spec]
      by_cases hR : (C.invN s * beNat hash % C.n) • H.G + (C.invN s * r % C.n) • P = 0
      · rw [hR, (H.isInfinity_xy 0).mpr rfl, H.xy_zero]
        have : ¬ (r = 0) := by omega
        simp [this]
      · have : Spec.ECC.isInfinity (H.xy ((C.invN s * beNat hash % C.n) • H.G + (C.invN s * r % C.n) • P)) = false := by
          rw [Bool.eq_false_iff]; exact fun h => hR ((H.isInfinity_xy _).mp h)
        simp only [this, Bool.false_eq_true, if_false]
        congr 1
        simp only [decide_eq_decide]
        exact eq_comm
  · have g1 : ecc_VerifyECDSA_1 (isValidScalar C r) (isValidScalar C s) = true := by
      simp only [ecc_VerifyECDSA_1, isValidScalar]
      by_cases a : 0 < r <;> by_cases b : r < C.n <;> by_cases c : 0 < s <;> by_cases d : s < C.n <;>
        simp_all
    have g2 : (!(decide (1 ≤ r) && decide (r < C.n) && decide (1 ≤ s) && decide (s < C.n))) = true := by
      by_cases a : 1 ≤ r <;> by_cases b : r < C.n <;> by_cases c : 1 ≤ s <;> by_cases d : s < C.n <;>
        simp_all
      omega
    rw [g1]
    cases hp : parsePoint C pub with
    | none => rfl
    | some Q => simp [g2]


omit H in
/-- out-of-range scalars are rejected before anything else is looked at (no hypothesis) -/
theorem verifyECDSA_reject_range (pub hash : Bytes) (r s : Nat) (hh : hash.length = 32)
    (hbad : r = 0 ∨ C.n ≤ r ∨ s = 0 ∨ C.n ≤ s) : verifyECDSA C pub hash r s = .ok false := by
  have g0 : ecc_VerifyECDSA_0 hash.length = false := by simp [ecc_VerifyECDSA_0, hh]
  have g1 : ecc_VerifyECDSA_1 (isValidScalar C r) (isValidScalar C s) = true := by
    simp only [ecc_VerifyECDSA_1, isValidScalar]
    by_cases a : 0 < r <;> by_cases b : r < C.n <;> by_cases c : 0 < s <;> by_cases d : s < C.n <;>
      simp_all
    omega
  unfold verifyECDSA
  rw [g0, g1]; rfl

omit H in
/-- a key that does not decode is rejected (no hypothesis) -/
theorem verifyECDSA_reject_key (pub hash : Bytes) (r s : Nat) (hh : hash.length = 32)
    (hk : deserializePoint C pub = .err) : verifyECDSA C pub hash r s = .ok false := by
  have g0 : ecc_VerifyECDSA_0 hash.length = false := by simp [ecc_VerifyECDSA_0, hh]
  unfold verifyECDSA
  rw [g0, hk]
  simp only [Bool.false_eq_true, if_false]
  split <;> rfl

theorem verifyECDSA_of_key {pub hash : Bytes} {r s : Nat} {P : H.Pt} (hh : hash.length = 32)
    (hr : isValidScalar C r = true) (hs : isValidScalar C s = true)
    (hd : deserializePoint C pub = .ok (H.xy P)) :
    verifyECDSA C pub hash r s =
      .ok (decide (r = (H.xy ((C.invN s * beNat hash % C.n) • H.G + (C.invN s * r % C.n) • P)).1 % C.n)) := by
  have g0 : ecc_VerifyECDSA_0 hash.length = false := by simp [ecc_VerifyECDSA_0, hh]
  have g1 : ecc_VerifyECDSA_1 (isValidScalar C r) (isValidScalar C s) = false := by
    simp [ecc_VerifyECDSA_1, hr, hs]
  unfold verifyECDSA
  rw [g0, g1, hd]
  simp only [Bool.false_eq_true, if_false, eklipticVerify_eq H]

theorem verifyECDSA_true_inv {pub hash : Bytes} {r s : Nat} (h : verifyECDSA C pub hash r s = .ok true) :
    hash.length = 32 ∧ isValidScalar C r = true ∧ isValidScalar C s = true ∧
      ∃ P : H.Pt, P ≠ 0 ∧ deserializePoint C pub = .ok (H.xy P) := by
  have hh : hash.length = 32 := by
    by_contra hne
    have g0 : ecc_VerifyECDSA_0 hash.length = true := lenGuard_true (k := 32) hne
    unfold verifyECDSA at h
    rw [g0] at h
    cases h
  have hrs : isValidScalar C r = true ∧ isValidScalar C s = true := by
    by_contra hne
    have hbad : r = 0 ∨ C.n ≤ r ∨ s = 0 ∨ C.n ≤ s := by
      simp only [isValidScalar_iff] at hne
      omega
    rw [verifyECDSA_reject_range pub hash r s hh hbad] at h
    cases h
  refine ⟨hh, hrs.1, hrs.2, ?_⟩
  cases hd : deserializePoint C pub with
  | err => rw [verifyECDSA_reject_key pub hash r s hh hd] at h; cases h
  | panic => exact absurd hd (deserializePoint_ne_panic H.field pub)
  | ok Q =>
    obtain ⟨P, hP, rfl⟩ := deserialize_is_point H hd
    exact ⟨P, hP, rfl⟩

/-- the documented acceptance of the non-canonical twin: (r, s) valid ⇒ (r, n − s) valid -/
theorem verify_highS_twin {pub hash : Bytes} {r s : Nat} (h : verifyECDSA C pub hash r s = .ok true) :
    verifyECDSA C pub hash r (C.n - s) = .ok true := by
  obtain ⟨hh, hr, hs, P, hP, hd⟩ := verifyECDSA_true_inv H h
  obtain ⟨hs0, hsn⟩ := (isValidScalar_iff s).mp hs
  have hs' : isValidScalar C (C.n - s) = true := (isValidScalar_iff _).mpr ⟨by omega, by omega⟩
  rw [verifyECDSA_of_key H hh hr hs hd] at h
  rw [verifyECDSA_of_key H hh hr hs' hd]
  have i1 := H.invN_spec s hs0 hsn
  have i2 := H.invN_spec (C.n - s) (by omega) (by omega)
  have t1 := inv_twin (z := beNat hash) H.n_gt hsn.le i1 i2
  have t2 := inv_twin (z := r) H.n_gt hsn.le i1 i2
  rw [Nat.add_comm] at t1 t2
  rw [H.nsmul_neg_of_add t1 H.G, H.nsmul_neg_of_add t2 P, ← neg_add, H.neg_x]
  exact h

/-! ### ECDSA signing -/

omit H in
theorem eklipticSign_inv {d k z r s : Nat} (h : eklipticSign C d k z = .ok (r, s)) :
    isValidScalar C k = true ∧ isValidScalar C d = true ∧
      ∃ R, mulBase C k = .ok R ∧ r = R.1 % C.n ∧
        s = (if C.invN k * (r * d + z) % C.n > C.n / 2 then C.n - C.invN k * (r * d + z) % C.n
             else C.invN k * (r * d + z) % C.n) := by
  unfold eklipticSign at h
  by_cases hk : isValidScalar C k = true
  · by_cases hd : isValidScalar C d = true
    · simp only [hk, hd, Bool.not_true, Bool.false_eq_true, if_false] at h
      cases hm : mulBase C k with
      | err => simp [hm] at h
      | panic => simp [hm] at h
      | ok R =>
        simp only [hm, Outcome.bind_ok, Outcome.pure_eq, Outcome.ok.injEq, Prod.mk.injEq] at h
        obtain ⟨h1, h2⟩ := h
        subst h1
        exact ⟨hk, hd, R, rfl, rfl, h2.symm⟩
    · simp [hk, hd] at h
  · simp [hk] at h

omit H in
theorem signECDSA_inv {S : SigOps} {priv hash : Bytes} {r s : Nat}
    (h : signECDSA C S priv hash = .ok (r, s)) :
    hash.length = 32 ∧ priv.length = 32 ∧
      eklipticSign C (beNat priv) (S.nonce (beNat priv) hash) (beNat hash) = .ok (r, s) := by
  unfold signECDSA at h
  by_cases h1 : hash.length = 32
  · by_cases h2 : priv.length = 32
    · simp only [ecc_SignECDSA_0, ecc_SignECDSA_1, h1, h2] at h
      by_cases h3 : beNat priv ≥ C.n
      · simp [h3] at h
      · simp [h3] at h
        exact ⟨h1, h2, h⟩
    · have g1 : ecc_SignECDSA_1 priv.length = true := lenGuard_true (k := 32) h2
      simp [ecc_SignECDSA_0, g1, h1] at h
  · have g0 : ecc_SignECDSA_0 hash.length = true := lenGuard_true (k := 32) h1
    simp [g0] at h

omit H in
/-- every signature produced is canonical: `s ≤ n/2` (and both components are `< n`) -/
theorem signECDSA_lowS {S : SigOps} {priv hash : Bytes} {r s : Nat}
    (h : signECDSA C S priv hash = .ok (r, s)) : s ≤ C.n / 2 ∧ r < C.n ∧ s < C.n := by
  obtain ⟨_, _, he⟩ := signECDSA_inv h
  obtain ⟨hk, _, R, _, hr, hs⟩ := eklipticSign_inv he
  have hn : 0 < C.n := by have := (isValidScalar_iff _).mp hk; omega
  have hlt := Nat.mod_lt (C.invN (S.nonce (beNat priv) hash) * (r * beNat priv + beNat hash)) hn
  have hrl := Nat.mod_lt R.1 hn
  refine ⟨?_, by omega, ?_⟩
  · rw [hs]; split <;> omega
  · rw [hs]; split <;> omega

/-- sign-then-verify: a produced signature with non-zero components verifies under the signer's
    public key in either encoding -/
theorem ecdsa_sign_verify {S : SigOps} {priv hash pub : Bytes} {r s : Nat}
    (hsig : signECDSA C S priv hash = .ok (r, s)) (hr0 : r ≠ 0) (hs0 : s ≠ 0)
    (hpub : getPublicKeyCompressed C priv = .ok pub ∨ getPublicKeyUncompressed C priv = .ok pub) :
    verifyECDSA C pub hash r s = .ok true := by
  obtain ⟨hh, _, he⟩ := signECDSA_inv hsig
  obtain ⟨hk, hd, R, hR, hr, hs⟩ := eklipticSign_inv he
  obtain ⟨hl, hrn, hsn⟩ := signECDSA_lowS hsig
  obtain ⟨hm, hne⟩ := mulBase_valid H hd
  obtain ⟨hmk, hnek⟩ := mulBase_valid H hk
  obtain ⟨hk0, hkn⟩ := (isValidScalar_iff _).mp hk
  rw [hmk] at hR
  injection hR with hR
  subst hR
  -- the key decodes to d·G
  have hdec : deserializePoint C pub = .ok (H.xy (beNat priv • H.G)) := by
    rcases hpub with hp | hp
    · rw [getPublicKeyCompressed_spec H priv hd] at hp
      injection hp with hp; subst hp
      exact deserialize_compressed H hne
    · rw [getPublicKeyUncompressed_spec H priv hd] at hp
      injection hp with hp; subst hp
      exact deserialize_uncompressed H hne
  have hrv : isValidScalar C r = true := (isValidScalar_iff _).mpr ⟨by omega, hrn⟩
  have hsv : isValidScalar C s = true := (isValidScalar_iff _).mpr ⟨by omega, hsn⟩
  rw [verifyECDSA_of_key H hh hrv hsv hdec]
  have ik := H.invN_spec _ hk0 hkn
  have is := H.invN_spec s (by omega) hsn
  rw [← mul_nsmul', ← add_nsmul]
  congr 1
  rw [decide_eq_true_eq]
  by_cases hc : C.invN (S.nonce (beNat priv) hash) * (r * beNat priv + beNat hash) % C.n > C.n / 2
  · rw [if_pos hc] at hs
    rw [hs] at is
    have := ecdsa_arith_neg (d := beNat priv) (z := beNat hash) (r := r) H.n_gt ik is
    rw [← hs] at this
    rw [H.nsmul_neg_of_add this, H.neg_x]
    exact hr
  · rw [if_neg hc] at hs
    rw [hs] at is
    have := ecdsa_arith_pos (d := beNat priv) (z := beNat hash) (r := r) H.n_gt ik is
    rw [← hs] at this
    rw [H.nsmul_congr this]
    exact hr


/-! ### BIP340 verification -/

omit H in
theorem cmpGuard (a b : Nat) :
    decide ((if a < b then (-1 : Int) else if a = b then 0 else 1) ≥ 0) = decide (a ≥ b) := by
  by_cases h1 : a < b
  · simp [h1]
  · by_cases h2 : a = b
    · simp [h2]
    · simp [h1, h2]; omega

omit H in
theorem parsePoint_len32 {bs : Bytes} (h : bs.length = 32) : parsePoint C bs = liftX C (beNat bs) := by
  unfold parsePoint
  simp [h]

/-- the last line of VerifySchnorr on a group element: "not infinity, even y, x = r" -/
theorem schnorrFinal_eq (R : H.Pt) (r : Nat) :
    ecc_VerifySchnorr_5 (decide ((H.xy R).1 = 0)) (decide ((H.xy R).2 = 0)) (isEven (H.xy R).2)
        (decide ((H.xy R).1 = r)) =
      (if Spec.ECC.isInfinity (H.xy R) then false
       else if (H.xy R).2 % 2 ≠ 0 then false else decide ((H.xy R).1 = r)) := by
  by_cases hR : R = 0
  · subst hR
    simp [ecc_VerifySchnorr_5, H.xy_zero, Spec.ECC.isInfinity]
  · have hc := H.coords_ne_zero R hR
    have hi : Spec.ECC.isInfinity (H.xy R) = false := by
      rw [Bool.eq_false_iff]; exact fun h => hR ((H.isInfinity_xy _).mp h)
    simp only [ecc_VerifySchnorr_5, hc.1, hc.2, decide_false, Bool.not_false, Bool.and_self, Bool.true_and,
      isEven, ecc_isEven_0, hi, Bool.false_eq_true, if_false]
    by_cases he : (H.xy R).2 % 2 = 0
    · simp [he]
    · simp [he]

/-- the model verifier is the BIP340 reference verifier, for every input of the right lengths -/
theorem verifySchnorr_eq_spec (S : SigOps) (pub msg sig : Bytes) (hm : msg.length = 32) (hs : sig.length = 64) :
    verifySchnorr C S pub msg sig = .ok (Spec.ECC.verifySchnorr C S.hChallenge pub msg sig) := by
  have g0 : ecc_VerifySchnorr_0 msg.length = false := lenGuard_false (k := 32) hm
  have g1 : ecc_VerifySchnorr_1 sig.length = false := lenGuard_false (k := 64) hs
  unfold verifySchnorr Spec.ECC.verifySchnorr
  rw [g0, g1]
  simp only [Bool.false_eq_true, if_false]
  by_cases hp : pub.length = 32
  · have g2 : ecc_VerifySchnorr_2 pub.length = false := lenGuard_false (k := 32) hp
    rw [g2, deserializePoint_eq_spec H.field, parsePoint_len32 hp]
    simp only [Bool.false_eq_true, if_false, hp, hs, ne_eq, not_true_eq_false, decide_false, Bool.or_self]
    cases hl : liftX C (beNat pub) with
    | none => rfl
    | some Q =>
      have hQ1 := (liftX_some H.field hl).1
      obtain ⟨P, hP, rfl⟩ := H.surj Q (liftX_some H.field hl).2.1
      simp only [ofOption, ecc_VerifySchnorr_3, ecc_VerifySchnorr_4, cmpGuard]
      by_cases hr : beNat (List.take 32 sig) ≥ C.p
      · simp [hr]
      · by_cases hsn : beNat (List.drop 32 sig) ≥ C.n
        · simp [hr, hsn]
        · have hp256 := H.field.p_lt
          have hn256 := H.n_lt
          have hrl : beNat (List.take 32 sig) < 2 ^ 256 := by omega
          have hsl : beNat (List.drop 32 sig) < 2 ^ 256 := by omega
          have hpub : beBytes 32 (H.xy P).1 = pub := by rw [hQ1]; exact beBytes32_beNat hp
          have hG : (C.gx, C.gy) = H.xy H.G := H.xy_G.symm
          have hel : ∀ x, x % C.n < 2 ^ 256 := fun x => by have := Nat.mod_lt x H.n_pos; omega
          simp only [hr, hsn, decide_false, Bool.false_eq_true, if_false, fillBytes32_lt hrl, Outcome.bind_ok,
            H.mulBase_eq hsl, H.mulAffine_eq _ _ (hel _), H.subAffine_eq, Outcome.pure_eq, hpub, hG,
            H.mul_spec, H.specNeg_eq, H.add_spec, ← sub_eq_add_neg, schnorrFinal_eq H]
  · have g2 : ecc_VerifySchnorr_2 pub.length = true := lenGuard_true (k := 32) hp
    rw [g2]
    simp [hp]


omit H in
/-- `r ≥ p` or `s ≥ n` is rejected whatever the key and the curve operations are -/
theorem verifySchnorr_reject_range (S : SigOps) (pub msg sig : Bytes) (hm : msg.length = 32)
    (hs : sig.length = 64) (hbad : C.p ≤ beNat (sig.take 32) ∨ C.n ≤ beNat (sig.drop 32)) :
    verifySchnorr C S pub msg sig = .ok false := by
  have g0 : ecc_VerifySchnorr_0 msg.length = false := lenGuard_false (k := 32) hm
  have g1 : ecc_VerifySchnorr_1 sig.length = false := lenGuard_false (k := 64) hs
  unfold verifySchnorr
  rw [g0, g1]
  simp only [Bool.false_eq_true, if_false]
  split
  · rfl
  · cases hd : deserializePoint C pub with
    | err => rfl
    | panic => exact absurd hd (deserializePoint_ne_panic' pub)
    | ok Q =>
      simp only [ecc_VerifySchnorr_3, ecc_VerifySchnorr_4, cmpGuard]
      by_cases hr : beNat (List.take 32 sig) ≥ C.p
      · simp [hr]
      · have : beNat (List.drop 32 sig) ≥ C.n := by omega
        simp [hr, this]

theorem verifySchnorr_of_key (S : SigOps) {pub msg sig : Bytes} {P : H.Pt} (hm : msg.length = 32)
    (hs : sig.length = 64) (hp : pub.length = 32) (hd : deserializePoint C pub = .ok (H.xy P))
    (hr : beNat (sig.take 32) < C.p) (hsn : beNat (sig.drop 32) < C.n) :
    verifySchnorr C S pub msg sig =
      .ok (let R := H.xy (beNat (sig.drop 32) • H.G -
              (beNat (S.hChallenge (beBytes 32 (beNat (sig.take 32)) ++ pub ++ msg)) % C.n) • P)
           ecc_VerifySchnorr_5 (decide (R.1 = 0)) (decide (R.2 = 0)) (isEven R.2)
             (decide (R.1 = beNat (sig.take 32)))) := by
  have g0 : ecc_VerifySchnorr_0 msg.length = false := lenGuard_false (k := 32) hm
  have g1 : ecc_VerifySchnorr_1 sig.length = false := lenGuard_false (k := 64) hs
  have g2 : ecc_VerifySchnorr_2 pub.length = false := lenGuard_false (k := 32) hp
  have hp256 := H.field.p_lt
  have hn256 := H.n_lt
  have hrl : beNat (List.take 32 sig) < 2 ^ 256 := by omega
  have hsl : beNat (List.drop 32 sig) < 2 ^ 256 := by omega
  have hel : ∀ x, x % C.n < 2 ^ 256 := fun x => by have := Nat.mod_lt x H.n_pos; omega
  have c3 : ¬ (beNat (List.take 32 sig) ≥ C.p) := by omega
  have c4 : ¬ (beNat (List.drop 32 sig) ≥ C.n) := by omega
  unfold verifySchnorr
  rw [g0, g1, g2, hd]
  simp only [Bool.false_eq_true, if_false, ecc_VerifySchnorr_3, ecc_VerifySchnorr_4, cmpGuard, c3, c4,
    decide_false, fillBytes32_lt hrl, Outcome.bind_ok, H.mulBase_eq hsl, H.mulAffine_eq _ _ (hel _),
    H.subAffine_eq, Outcome.pure_eq]

/-! ### BIP340 signing -/

/-- the even-y representative of `±P` -/
noncomputable def evenLift (P : H.Pt) : H.Pt := if (H.xy P).2 % 2 = 0 then P else -P

theorem evenLift_props (P : H.Pt) (hP : P ≠ 0) :
    evenLift H P ≠ 0 ∧ (H.xy (evenLift H P)).2 % 2 = 0 ∧ (H.xy (evenLift H P)).1 = (H.xy P).1 := by
  unfold evenLift
  split
  · rename_i he; exact ⟨hP, he, rfl⟩
  · rename_i ho
    have := H.neg_parity P hP
    refine ⟨neg_ne_zero.mpr hP, by omega, H.neg_x P⟩

/-- BIP340's negation of the secret scalar: `d·G` is the even-y representative of `±d₀·G` -/
theorem evenScalar (d0 : Nat) (hn : d0 < C.n) :
    (if ecc_SignSchnorr_4 (isEven (H.xy (d0 • H.G)).2) then C.n - d0 else d0) • H.G = evenLift H (d0 • H.G) := by
  unfold evenLift
  by_cases he : (H.xy (d0 • H.G)).2 % 2 = 0
  · simp [ecc_SignSchnorr_4, isEven, ecc_isEven_0, he]
  · simp only [ecc_SignSchnorr_4, isEven, ecc_isEven_0, he, decide_false, Bool.not_false, if_true, if_false]
    apply H.nsmul_neg_of_add
    rw [Nat.sub_add_cancel hn.le, Nat.mod_self]

theorem signSchnorr_inv {S : SigOps} {priv msg aux sig : Bytes} (h : signSchnorr C S priv msg aux = .ok sig) :
    msg.length = 32 ∧ isValidScalar C (beNat priv) = true ∧
    ∃ k0, 0 < k0 ∧ k0 < C.n ∧
      let P := H.xy (beNat priv • H.G)
      let d := if ecc_SignSchnorr_4 (isEven P.2) then C.n - beNat priv else beNat priv
      let R := H.xy (k0 • H.G)
      let k := if ecc_SignSchnorr_6 (isEven R.2) then C.n - k0 else k0
      let e := beNat (S.hChallenge (beBytes 32 R.1 ++ beBytes 32 P.1 ++ msg)) % C.n
      sig = beBytes 32 R.1 ++ beBytes 32 ((k + e * d) % C.n) := by
  unfold signSchnorr at h
  by_cases h0 : msg.length = 32
  · by_cases h1 : priv.length = 32
    · by_cases h2 : aux.length = 32
      · have g0 : ecc_SignSchnorr_0 msg.length = false := lenGuard_false (k := 32) h0
        have g1 : ecc_SignSchnorr_1 priv.length = false := lenGuard_false (k := 32) h1
        have g2 : ecc_SignSchnorr_2 aux.length = false := lenGuard_false (k := 32) h2
        rw [g0, g1, g2] at h
        simp only [Bool.false_eq_true, if_false, ecc_SignSchnorr_3] at h
        by_cases hv : isValidScalar C (beNat priv) = true
        · obtain ⟨hm, hne⟩ := mulBase_valid H hv
          obtain ⟨hd0, hdn⟩ := (isValidScalar_iff _).mp hv
          have hn256 := H.n_lt
          have hdl : (if ecc_SignSchnorr_4 (isEven (H.xy (beNat priv • H.G)).2) = true then C.n - beNat priv
              else beNat priv) < 2 ^ 256 := by split <;> omega
          simp only [hv, Bool.not_true, Bool.false_eq_true, if_false, hm, Outcome.bind_ok,
            fillBytes32_lt (xy_fst_lt H _), fillBytes32_lt hdl] at h
          cases hx : xorBytes (beBytes 32 (if ecc_SignSchnorr_4 (isEven (H.xy (beNat priv • H.G)).2) = true
              then C.n - beNat priv else beNat priv)) (S.hAux aux) with
          | err => simp [hx] at h
          | panic => simp [hx] at h
          | ok t =>
            simp only [hx, Outcome.bind_ok, ecc_SignSchnorr_5] at h
            generalize hk : beNat (S.hNonce (t ++ beBytes 32 (H.xy (beNat priv • H.G)).1 ++ msg)) % C.n = k0 at h
            by_cases hk0 : k0 = 0
            · simp [hk0] at h
            · have hkn : k0 < C.n := by rw [← hk]; exact Nat.mod_lt _ H.n_pos
              have hkl : k0 < 2 ^ 256 := by omega
              have hel : ∀ x, x % C.n < 2 ^ 256 := fun x => by have := Nat.mod_lt x H.n_pos; omega
              simp only [hk0, decide_false, Bool.false_eq_true, if_false, H.mulBase_eq hkl, Outcome.bind_ok,
                fillBytes32_lt (xy_fst_lt H _), fillBytes32_lt (hel _), Outcome.pure_eq,
                Outcome.ok.injEq] at h
              exact ⟨h0, hv, k0, by omega, hkn, h.symm⟩
        · simp [hv] at h
      · have g2 : ecc_SignSchnorr_2 aux.length = true := lenGuard_true (k := 32) h2
        have g0 : ecc_SignSchnorr_0 msg.length = false := lenGuard_false (k := 32) h0
        have g1 : ecc_SignSchnorr_1 priv.length = false := lenGuard_false (k := 32) h1
        rw [g0, g1, g2] at h
        simp at h
    · have g1 : ecc_SignSchnorr_1 priv.length = true := lenGuard_true (k := 32) h1
      have g0 : ecc_SignSchnorr_0 msg.length = false := lenGuard_false (k := 32) h0
      rw [g0, g1] at h
      simp at h
  · have g0 : ecc_SignSchnorr_0 msg.length = true := lenGuard_true (k := 32) h0
    rw [g0] at h
    simp at h


/-- sign-then-verify for BIP340: every produced signature verifies under the signer's x-only key -/
theorem schnorr_sign_verify {S : SigOps} {priv msg aux sig pub : Bytes}
    (hsig : signSchnorr C S priv msg aux = .ok sig) (hpub : getPublicKeySchnorr C priv = .ok pub) :
    verifySchnorr C S pub msg sig = .ok true := by
  obtain ⟨hm, hv, k0, hk0, hkn, hsigeq⟩ := signSchnorr_inv H hsig
  obtain ⟨hd0, hdn⟩ := (isValidScalar_iff _).mp hv
  obtain ⟨_, hne⟩ := mulBase_valid H hv
  have hnek : k0 • H.G ≠ 0 := H.nsmul_G_ne_zero hk0 hkn
  rw [getPublicKeySchnorr_spec H priv hv] at hpub
  injection hpub with hpub
  simp only at hsigeq
  obtain ⟨hPe0, hPeven, hPx⟩ := evenLift_props H (beNat priv • H.G) hne
  obtain ⟨hRe0, hReven, hRx⟩ := evenLift_props H (k0 • H.G) hnek
  have hdG := evenScalar H (beNat priv) hdn
  have hkG : (if ecc_SignSchnorr_6 (isEven (H.xy (k0 • H.G)).2) then C.n - k0 else k0) • H.G
      = evenLift H (k0 • H.G) := by
    have := evenScalar H k0 hkn
    simpa [ecc_SignSchnorr_4, ecc_SignSchnorr_6] using this
  generalize (if ecc_SignSchnorr_6 (isEven (H.xy (k0 • H.G)).2) then C.n - k0 else k0) = kk at hsigeq hkG
  generalize (if ecc_SignSchnorr_4 (isEven (H.xy (beNat priv • H.G)).2) then C.n - beNat priv else beNat priv) = dd
    at hsigeq hdG
  have hplen : pub.length = 32 := by rw [← hpub]; simp [encodeXOnly]
  have hpubX : beBytes 32 (H.xy (beNat priv • H.G)).1 = pub := hpub
  have hpubE : pub = encodeXOnly (H.xy (evenLift H (beNat priv • H.G))) := by
    rw [← hpub]; simp [encodeXOnly, hPx]
  have hdec : deserializePoint C pub = .ok (H.xy (evenLift H (beNat priv • H.G))) := by
    rw [hpubE]; exact deserialize_xonly H hPe0 hPeven
  have hp256 := H.field.p_lt
  have hxlt : (H.xy (k0 • H.G)).1 < C.p := (H.on_curve' _ hnek).1
  rw [hpubX] at hsigeq
  generalize he : beNat (S.hChallenge (beBytes 32 (H.xy (k0 • H.G)).1 ++ pub ++ msg)) % C.n = e at hsigeq
  -- the two halves of the signature
  have hslen : sig.length = 64 := by rw [hsigeq]; simp
  have htake : sig.take 32 = beBytes 32 (H.xy (k0 • H.G)).1 := by
    rw [hsigeq]; simp [List.take_append_of_le_length]
  have hdrop : sig.drop 32 = beBytes 32 ((kk + e * dd) % C.n) := by
    rw [hsigeq]; simp [List.drop_append_of_le_length]
  have hslt : (kk + e * dd) % C.n < C.n := Nat.mod_lt _ H.n_pos
  have hn256 := H.n_lt
  have hr : beNat (sig.take 32) = (H.xy (k0 • H.G)).1 := by
    rw [htake]; exact beNat_beBytes 32 _ (by omega)
  have hs : beNat (sig.drop 32) = (kk + e * dd) % C.n := by
    rw [hdrop]; exact beNat_beBytes 32 _ (by omega)
  rw [verifySchnorr_of_key H S hm hslen hplen hdec (by rw [hr]; exact hxlt) (by rw [hs]; exact hslt)]
  simp only [hr, hs, he]
  -- s·G − e·P = k·G
  have hRR : ((kk + e * dd) % C.n) • H.G - e • evenLift H (beNat priv • H.G) = evenLift H (k0 • H.G) := by
    rw [H.nsmul_mod, add_nsmul, mul_nsmul', hdG, hkG, add_sub_cancel_right]
  rw [hRR]
  have hc := H.coords_ne_zero _ hRe0
  have hc1 : (H.xy (k0 • H.G)).1 ≠ 0 := by rw [← hRx]; exact hc.1
  simp [ecc_VerifySchnorr_5, hc1, hc.2, isEven, ecc_isEven_0, hReven, hRx]


omit H in
/-- a key that is not 32 bytes or does not decode is rejected (no hypothesis) -/
theorem verifySchnorr_reject_key (S : SigOps) (pub msg sig : Bytes) (hm : msg.length = 32)
    (hs : sig.length = 64) (hk : pub.length ≠ 32 ∨ deserializePoint C pub = .err) :
    verifySchnorr C S pub msg sig = .ok false := by
  have g0 : ecc_VerifySchnorr_0 msg.length = false := lenGuard_false (k := 32) hm
  have g1 : ecc_VerifySchnorr_1 sig.length = false := lenGuard_false (k := 64) hs
  unfold verifySchnorr
  rw [g0, g1]
  simp only [Bool.false_eq_true, if_false]
  split
  · rfl
  · rename_i g2
    rcases hk with hk | hk
    · exact absurd (lenGuard_true (k := 32) hk) g2
    · rw [hk]

/-- signing does not panic and returns a pair for a valid key, a 32-byte digest and a nonce in range -/
theorem signECDSA_ok (S : SigOps) (priv hash : Bytes) (hp : priv.length = 32) (hh : hash.length = 32)
    (hd : isValidScalar C (beNat priv) = true)
    (hk : isValidScalar C (S.nonce (beNat priv) hash) = true) :
    ∃ r s, signECDSA C S priv hash = .ok (r, s) := by
  have g0 : ecc_SignECDSA_0 hash.length = false := lenGuard_false (k := 32) hh
  have g1 : ecc_SignECDSA_1 priv.length = false := lenGuard_false (k := 32) hp
  obtain ⟨_, hdn⟩ := (isValidScalar_iff _).mp hd
  obtain ⟨hm, _⟩ := mulBase_valid H hk
  unfold signECDSA
  rw [g0, g1]
  simp only [Bool.false_eq_true, if_false, show ¬ (beNat priv ≥ C.n) by omega]
  unfold eklipticSign
  simp only [hk, hd, Bool.not_true, Bool.false_eq_true, if_false, hm, Outcome.bind_ok, Outcome.pure_eq]
  exact ⟨_, _, rfl⟩

end BtcVerif.Proofs.ECC
