import BtcVerif.Proofs.Block

namespace BtcVerif.Model
open BtcVerif BtcVerif.Parser
open BtcVerif.Gen.Guards

theorem flatten_map_length {α} (f : α → Bytes) (xs : List α) :
    (encMany f xs).length = (xs.map fun x => (f x).length).sum := by
  induction xs with
  | nil => simp [encMany]
  | cons x xs ih => simp [encMany] at ih ⊢; exact ih

theorem sum_map_congr {α} (f g : α → Nat) (xs : List α) (h : ∀ x ∈ xs, f x = g x) :
    (xs.map f).sum = (xs.map g).sum := by
  induction xs with
  | nil => rfl
  | cons x xs ih =>
    simp only [List.map_cons, List.sum_cons]
    rw [h x (by simp), ih (fun y hy => h y (by simp [hy]))]

/-- `Tx.size(w)` is the number of bytes `Tx.serialize(w)` emits -/
theorem sizeTx_eq_length (tx : Tx) (w : Bool) (bs : Bytes)
    (hin : ∀ i ∈ tx.inputs, WFPrevOut i.prev) (he : encTx tx w = .ok bs) : sizeTx tx w = bs.length := by
  unfold encTx at he
  split at he
  · cases he
  · injection he with he
    subst he
    unfold sizeTx
    have e1 : tx_Tx_size_0 tx.inputs.length w (witLen tx) = tx_Tx_serialize_1 tx.inputs.length w (witLen tx) := rfl
    have e2 : tx_Tx_size_1 tx.inputs.length w = tx_Tx_serialize_2 tx.inputs.length w := rfl
    rw [e1, e2]
    have hI : (tx.inputs.map sizeTxIn).sum = (encMany encTxIn tx.inputs).length := by
      rw [flatten_map_length]
      apply sum_map_congr
      intro i hi
      simp [sizeTxIn, encTxIn, encPrevOut_length _ (hin i hi), varintSize_eq_length]; omega
    have hO : (tx.outputs.map sizeTxOut).sum = (encMany encTxOut tx.outputs).length := by
      rw [flatten_map_length]
      apply sum_map_congr
      intro o _
      exact sizeTxOut_eq o
    have hW : ((witList tx).map sizeWitness).sum = (encMany encWitness (witList tx)).length := by
      rw [flatten_map_length]
      apply sum_map_congr
      intro x _
      exact sizeWitness_eq x
    simp only [List.length_append, leBytes_length, varintSize_eq_length, hI, hO]
    split <;> split <;> simp [segwitFlag, hW] <;> omega

/-- the stripped form is never longer than the full form -/
theorem sizeTx_nowit_le (tx : Tx) : sizeTx tx false ≤ sizeTx tx true := by
  unfold sizeTx
  simp [tx_Tx_size_0, tx_Tx_size_1]
  omega

/-- BIP141: weight = 3 · stripped size + total size -/
theorem weightTx_eq (tx : Tx) : weightTx tx = 3 * sizeTx tx false + sizeTx tx true := by
  have := sizeTx_nowit_le tx
  unfold weightTx
  simp only
  omega

theorem vsizeTx_eq (tx : Tx) : vsizeTx tx = (weightTx tx + 3) / 4 := rfl

/-- ceiling: `vsize` is the least `v` with `4 v ≥ weight` -/
theorem vsizeTx_ceil (tx : Tx) : 4 * vsizeTx tx ≥ weightTx tx ∧ 4 * vsizeTx tx < weightTx tx + 4 := by
  unfold vsizeTx; omega

theorem txid_ignores_witness (tx : Tx) (ws : Option (List Witness))
    (h1 : canSerialize tx = true) (h2 : canSerialize { tx with witnesses := ws } = true) :
    encTx { tx with witnesses := ws } false = encTx tx false := by
  unfold encTx
  simp [h1, h2, tx_Tx_serialize_1, tx_Tx_serialize_2]

theorem wtxid_eq_txid_of_no_witness (tx : Tx) (h : tx.witnesses = none) :
    encTx tx true = encTx tx false := by
  unfold encTx
  simp [tx_Tx_serialize_1, tx_Tx_serialize_2, witLen, witList, h, encMany]

/-- block size and weight are the sums of their parts -/
theorem sizeBlock_eq_length (b : Block) (bs : Bytes) (hh : WFHeader b.header)
    (ht : ∀ t ∈ b.txs, ∀ i ∈ t.inputs, WFPrevOut i.prev) (he : encBlock b = .ok bs) :
    sizeBlock b = bs.length := by
  unfold encBlock at he
  cases hb : encTxs b.txs with
  | ok body =>
    rw [hb] at he
    injection he with he
    subst he
    have key : ∀ (ts : List Tx) (body : Bytes), (∀ t ∈ ts, ∀ i ∈ t.inputs, WFPrevOut i.prev) →
        encTxs ts = .ok body → (ts.map fun t => sizeTx t true).sum = body.length := by
      intro ts
      induction ts with
      | nil => intro body _ h; simp [encTxs] at h; simp [h]
      | cons t ts ih =>
        intro body hwf h
        simp only [encTxs] at h
        cases h1 : encTx t true with
        | ok a =>
          cases h2 : encTxs ts with
          | ok c =>
            simp [h1, h2] at h
            subst h
            simp only [List.map_cons, List.sum_cons, List.length_append]
            rw [sizeTx_eq_length t true a (hwf t (by simp)) h1, ih c (fun x hx => hwf x (by simp [hx])) h2]
          | err => simp [h1, h2] at h
          | panic => simp [h1, h2] at h
        | err => simp [h1] at h
        | panic => simp [h1] at h
    simp only [sizeBlock, List.length_append, encHeader_length _ hh, varintSize_eq_length, key b.txs body ht hb]
  | err => simp [hb] at he
  | panic => simp [hb] at he

theorem weightBlock_sum (b : Block) :
    weightBlock b = 4 * (80 + varintSize b.txs.length) + (b.txs.map weightTx).sum := by
  unfold weightBlock; omega

end BtcVerif.Model
