import BtcVerif.Model.Block
import BtcVerif.Spec.Consensus

namespace BtcVerif.Model
open BtcVerif
open BtcVerif.Gen.Guards

theorem testBit23_of_and (n : Nat) (h : n &&& 0x800000 = 0) : n.testBit 23 = false := by
  have := congrArg (fun x => x.testBit 23) h
  simp only [Nat.testBit_and, Nat.zero_testBit] at this
  have h2 : (0x800000 : Nat).testBit 23 = true := by decide
  rw [h2] at this
  simpa using this

theorem and_mask_eq (n : Nat) (h : n &&& 0x800000 = 0) : n &&& 0xffffff = n &&& 0x7fffff := by
  have h23 := testBit23_of_and n h
  apply Nat.eq_of_testBit_eq
  intro i
  rw [show (0xffffff:Nat) = 2^24-1 by decide, show (0x7fffff:Nat) = 2^23-1 by decide]
  simp only [Nat.testBit_and, Nat.testBit_two_pow_sub_one]
  by_cases hi : i = 23
  · subst hi; simp [h23]
  · have : decide (i < 24) = decide (i < 23) := by
      congr 1; apply propext; omega
    rw [this]

theorem sig_sign (n : Nat) : (n &&& 0xffffff) &&& 0x800000 = n &&& 0x800000 := by
  rw [Nat.and_assoc]
  have : (0xffffff : Nat) &&& 0x800000 = 0x800000 := by decide
  rw [this]

theorem pow256 (k : Nat) : (256 : Nat) ^ k = 2 ^ (8 * k) := by
  rw [Nat.pow_mul]

/-- the library's nBits → target equals Bitcoin Core's `SetCompact` (sign bit ⇒ 0) whenever the
    exponent byte is at most 32; above that the library panics by contract -/
theorem targetModel_eq_setCompact (n : Nat) (he : n >>> 24 ≤ 32) :
    targetModel n = .ok (Spec.setCompact n) := by
  unfold targetModel Spec.setCompact
  simp only [blocks_blockheader_calculateTargetNBits_0, blocks_blockheader_calculateTargetNBits_1,
    blocks_blockheader_calculateTargetNBits_2, sig_sign]
  by_cases hs : n &&& 0x800000 = 0
  · have hm := and_mask_eq n hs
    simp only [hs, ne_eq, not_true_eq_false, decide_false, Bool.false_eq_true, ite_false]
    by_cases h3 : n >>> 24 < 3
    · have : n >>> 24 ≤ 3 := by omega
      simp [h3, this, hm]
    · by_cases h33 : n >>> 24 > 32
      · omega
      · simp only [h3, h33, decide_false, Bool.false_eq_true, ite_false]
        by_cases h4 : n >>> 24 ≤ 3
        · have e3 : n >>> 24 = 3 := by omega
          simp [h4, e3, hm]
        · simp only [h4, ite_false, Nat.shiftLeft_eq, pow256, hm]
  · simp [hs]

theorem targetModel_panics_above (n : Nat) (hs : n &&& 0x800000 = 0) (he : n >>> 24 > 32) :
    targetModel n = .panic := by
  unfold targetModel
  simp only [blocks_blockheader_calculateTargetNBits_0, blocks_blockheader_calculateTargetNBits_1,
    blocks_blockheader_calculateTargetNBits_2, sig_sign, hs]
  have : ¬ n >>> 24 < 3 := by omega
  simp [this, he]

/-- targets fit 256 bits -/
theorem setCompact_lt (n : Nat) (he : n >>> 24 ≤ 32) : Spec.setCompact n < 2 ^ 256 := by
  unfold Spec.setCompact
  have hw : n &&& 0x7fffff < 2 ^ 23 := Nat.and_lt_two_pow n (by decide)
  simp only
  split
  · exact Nat.two_pow_pos 256
  · split
    · have : (n &&& 0x7fffff) >>> (8 * (3 - n >>> 24)) ≤ n &&& 0x7fffff := Nat.shiftRight_le _ _
      have : (2:Nat)^23 < 2^256 := by decide
      omega
    · rw [Nat.shiftLeft_eq]
      have h1 : 8 * (n >>> 24 - 3) ≤ 232 := by omega
      have h2 : (2:Nat) ^ (8 * (n >>> 24 - 3)) ≤ 2 ^ 232 := Nat.pow_le_pow_right (by decide) h1
      calc (n &&& 0x7fffff) * 2 ^ (8 * (n >>> 24 - 3))
          < 2 ^ 23 * 2 ^ (8 * (n >>> 24 - 3)) := Nat.mul_lt_mul_of_pos_right hw (Nat.two_pow_pos _)
        _ ≤ 2 ^ 23 * 2 ^ 232 := Nat.mul_le_mul_left _ h2
        _ < 2 ^ 256 := by decide

end BtcVerif.Model
