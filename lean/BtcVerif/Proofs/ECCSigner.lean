/-
  C04, transaction-signing helpers: model of /repo/signer and its frame / standard-form theorems.

  Mirrors
    signer/sign_p2pkh.go:9-40              signInputP2PKH (compressed / uncompressed)
    signer/sign_p2wpkh.go:9-50             SignInputP2WPKH
    signer/sign_p2sh_nested_p2wpkh.go:10-47 SignInputP2SHNestedP2WPKH
  on top of `Model.ECC` (keys, `signSigHash`), `Model.Script` (`pushData`, `makeP2PKH…`) and the C01
  transaction type `Model.Tx`. The two signature-hash functions and HASH160 are the record `HashOps`
  (the sighash model of C03, `Model/SigHash.lean`, is another engineer's file; every theorem here
  holds for ANY sighash function, which is all the frame and form claims need — the digest that is
  signed is named explicitly and is computed on the PRE-state `tx`).
  The model lives in this file (not under `Model/`) so that it cannot break the oracle executable
  of the ecc group; the Go helpers are checked on the Go side by direct oracles and byte-for-byte
  against an assembly from the model's signature (harness/signer.go).

  Go's nil and empty witness are the same value `[]` here ("identified, as serialisation does").
-/
import BtcVerif.Model.ECC
import BtcVerif.Model.Tx
import BtcVerif.Model.Script
import BtcVerif.Proofs.ECCDer
import BtcVerif.Proofs.Tx

namespace BtcVerif.Model.Signer
open BtcVerif BtcVerif.Model BtcVerif.Model.ECC BtcVerif.Gen.Guards

/-- `(*tx.Tx).SignatureHashForInput`, `SignatureHashForWitnessInput`, `bhash.Hash160` -/
structure HashOps where
  legacy : Tx → Nat → Bytes → Nat → Outcome Bytes
  bip143 : Tx → Nat → Bytes → Nat → Nat → Outcome Bytes
  hash160 : Bytes → Bytes

/-- `txn.Inputs[n].Script = sc` -/
def setScript : List TxIn → Nat → Bytes → List TxIn
  | [], _, _ => []
  | i :: is, 0, sc => { i with script := sc } :: is
  | i :: is, n + 1, sc => i :: setScript is n sc

variable (C : CurveOps) (S : SigOps) (Hh : HashOps)

/-- sign_p2pkh.go:9-32 -/
def signInputP2PKH (tx : Tx) (nInput : Int) (priv : Bytes) (ht : Nat) (compressed : Bool) : Outcome Tx :=
  if signer_signInputP2PKH_0 (nInput := nInput) (len_txn_Inputs := tx.inputs.length) then .err
  else do
    let n := nInput.toNat
    let pub ← getPublicKey C priv compressed
    let sc ← makeP2PKHFromPublicKey Hh.hash160 pub
    let h ← Hh.legacy tx n sc ht
    let sig ← signSigHash C S h priv ht
    let ps ← pushData sig
    let pp ← pushData pub
    pure { tx with inputs := setScript tx.inputs n (ps ++ pp) }

/-- the witness bookkeeping shared by both segwit helpers (sign_p2wpkh.go:34-44): allocate when nil,
    put `w` at `n`, turn nil entries into empty ones (no-op here); `txn.Witnesses[i]` panics when a
    caller-built witness list is shorter than the input list -/
def installWitness (tx : Tx) (n : Nat) (w : Witness) : Outcome (List Witness) :=
  let ws : List Witness :=
    match tx.witnesses with
    | none => List.replicate tx.inputs.length []     -- guard `txn.Witnesses == nil`
    | some ws => ws
  if ws.length < tx.inputs.length then .panic else .ok (ws.set n w)

/-- sign_p2wpkh.go:9-50 -/
def signInputP2WPKH (tx : Tx) (nInput : Int) (priv : Bytes) (ht : Nat) (value : Nat) : Outcome Tx :=
  if signer_SignInputP2WPKH_0 (nInput := nInput) (len_txn_Inputs := tx.inputs.length) then .err
  else do
    let n := nInput.toNat
    let pub ← getPublicKeyCompressed C priv
    let sc ← makeP2PKHFromPublicKey Hh.hash160 pub
    let h ← Hh.bip143 tx n sc ht value
    let sig ← signSigHash C S h priv ht
    let ws ← installWitness tx n [sig, pub]
    pure { tx with inputs := setScript tx.inputs n [], witnesses := some ws }

/-- sign_p2sh_nested_p2wpkh.go:10-47 -/
def signInputNested (tx : Tx) (nInput : Int) (priv : Bytes) (ht : Nat) (value : Nat) : Outcome Tx :=
  if signer_SignInputP2SHNestedP2WPKH_0 (nInput := nInput) (len_txn_Inputs := tx.inputs.length) then .err
  else do
    let n := nInput.toNat
    let pub ← getPublicKeyCompressed C priv
    let pkh := Hh.hash160 pub
    let sc ← makeP2PKH pkh
    let h ← Hh.bip143 tx n sc ht value
    let sig ← signSigHash C S h priv ht
    let ws ← installWitness tx n [sig, pub]
    let prog ← makeP2WPKH pkh
    let redeem ← pushData prog                        -- RedeemP2SH(program, nil)
    pure { tx with inputs := setScript tx.inputs n redeem, witnesses := some ws }

/-! ### frame lemmas -/

theorem setScript_length (ins : List TxIn) (n : Nat) (sc : Bytes) : (setScript ins n sc).length = ins.length := by
  induction ins generalizing n with
  | nil => rfl
  | cons i is ih => cases n <;> simp [setScript, ih]

theorem setScript_other (ins : List TxIn) (n i : Nat) (sc : Bytes) (h : i ≠ n) :
    (setScript ins n sc)[i]? = ins[i]? := by
  induction ins generalizing n i with
  | nil => rfl
  | cons a as ih =>
    cases n with
    | zero =>
      cases i with
      | zero => exact absurd rfl h
      | succ i => simp [setScript]
    | succ n =>
      cases i with
      | zero => simp [setScript]
      | succ i => simp only [setScript, List.getElem?_cons_succ]; exact ih n i (by omega)

theorem setScript_at (ins : List TxIn) (n : Nat) (sc : Bytes) (a : TxIn) (h : ins[n]? = some a) :
    (setScript ins n sc)[n]? = some { a with script := sc } := by
  induction ins generalizing n with
  | nil => simp at h
  | cons b bs ih =>
    cases n with
    | zero => simp at h; subst h; simp [setScript]
    | succ n => simp only [setScript, List.getElem?_cons_succ] at h ⊢; exact ih n h

/-- what "every other field is unchanged" means for the input list -/
def InputsFrame (old new : List TxIn) (n : Nat) : Prop :=
  new.length = old.length ∧ (∀ i, i ≠ n → new[i]? = old[i]?) ∧
    ∀ a, old[n]? = some a → ∃ sc, new[n]? = some { a with script := sc }

theorem setScript_frame (ins : List TxIn) (n : Nat) (sc : Bytes) : InputsFrame ins (setScript ins n sc) n :=
  ⟨setScript_length ins n sc, fun i hi => setScript_other ins n i sc hi,
   fun a ha => ⟨sc, setScript_at ins n sc a ha⟩⟩

/-- the witness list after segwit signing: one witness per input, `w` at `n`, every other input keeps
    its witness (the empty witness when the transaction had none) -/
theorem installWitness_frame {tx : Tx} {n : Nat} {w : Witness} {ws : List Witness}
    (h : installWitness tx n w = .ok ws) (hn : n < tx.inputs.length) :
    tx.inputs.length ≤ ws.length ∧ ws[n]? = some w ∧
      ∀ i, i ≠ n → ws[i]? = (match tx.witnesses with
                              | none => if i < tx.inputs.length then some [] else none
                              | some old => old[i]?) := by
  unfold installWitness at h
  cases hw : tx.witnesses with
  | none =>
    simp only [hw, List.length_replicate, Nat.lt_irrefl, if_false, Outcome.ok.injEq] at h
    subst h
    refine ⟨by simp, ?_, ?_⟩
    · rw [List.getElem?_set_self (by simpa using hn)]
    · intro i hi
      rw [List.getElem?_set_ne (by omega)]
      simp only [List.getElem?_replicate]
  | some old =>
    simp only [hw] at h
    by_cases hl : old.length < tx.inputs.length
    · rw [if_pos hl] at h; cases h
    · rw [if_neg hl] at h
      injection h with h
      subst h
      refine ⟨by simp; omega, ?_, ?_⟩
      · rw [List.getElem?_set_self (by omega)]
      · intro i hi
        rw [List.getElem?_set_ne (by omega)]

/-! ### the helpers: frame and standard form -/

theorem nInput_range {nInput : Int} {len : Nat}
    (h : (decide (nInput < (0 : Int)) || decide (nInput ≥ (len : Int))) = false) :
    nInput.toNat < len ∧ (nInput.toNat : Int) = nInput := by
  simp at h
  omega

/-- P2PKH (compressed or uncompressed): only the designated scriptSig changes; it is
    `push(sig) ‖ push(pub)` where `pub` is the key of `priv` in the requested encoding and `sig` is
    `SignSigHash` over the legacy signature hash of the PRE-state with the P2PKH script of `pub` -/
theorem signP2PKH_frame_form {tx tx' : Tx} {nInput : Int} {priv : Bytes} {ht : Nat} {compressed : Bool}
    (h : signInputP2PKH C S Hh tx nInput priv ht compressed = .ok tx') :
    0 ≤ nInput ∧ nInput.toNat < tx.inputs.length ∧
    tx'.version = tx.version ∧ tx'.outputs = tx.outputs ∧ tx'.locktime = tx.locktime ∧
    tx'.witnesses = tx.witnesses ∧ InputsFrame tx.inputs tx'.inputs nInput.toNat ∧
    ∃ pub sc dig sig ps pp,
      getPublicKey C priv compressed = .ok pub ∧ makeP2PKHFromPublicKey Hh.hash160 pub = .ok sc ∧
      Hh.legacy tx nInput.toNat sc ht = .ok dig ∧ signSigHash C S dig priv ht = .ok sig ∧
      pushData sig = .ok ps ∧ pushData pub = .ok pp ∧
      ∀ a, tx.inputs[nInput.toNat]? = some a → tx'.inputs[nInput.toNat]? = some { a with script := ps ++ pp } := by
  unfold signInputP2PKH at h
  by_cases hg : signer_signInputP2PKH_0 nInput tx.inputs.length = true
  · rw [if_pos hg] at h; cases h
  · rw [if_neg hg] at h
    obtain ⟨hr, hcast⟩ := nInput_range (by simpa [signer_signInputP2PKH_0] using hg)
    cases h1 : getPublicKey C priv compressed with
    | err => simp [h1] at h
    | panic => simp [h1] at h
    | ok pub =>
      cases h2 : makeP2PKHFromPublicKey Hh.hash160 pub with
      | err => simp [h1, h2] at h
      | panic => simp [h1, h2] at h
      | ok sc =>
        cases h3 : Hh.legacy tx nInput.toNat sc ht with
        | err => simp [h1, h2, h3] at h
        | panic => simp [h1, h2, h3] at h
        | ok dig =>
          cases h4 : signSigHash C S dig priv ht with
          | err => simp [h1, h2, h3, h4] at h
          | panic => simp [h1, h2, h3, h4] at h
          | ok sig =>
            cases h5 : pushData sig with
            | err => simp [h1, h2, h3, h4, h5] at h
            | panic => simp [h1, h2, h3, h4, h5] at h
            | ok ps =>
              cases h6 : pushData pub with
              | err => simp [h1, h2, h3, h4, h5, h6] at h
              | panic => simp [h1, h2, h3, h4, h5, h6] at h
              | ok pp =>
                simp only [h1, h2, h3, h4, h5, h6, Outcome.bind_ok, Outcome.pure_eq, Outcome.ok.injEq] at h
                subst h
                refine ⟨by omega, hr, rfl, rfl, rfl, rfl, setScript_frame _ _ _, pub, sc, dig, sig, ps, pp,
                  by first | assumption | rfl, by first | assumption | rfl, by first | assumption | rfl, by first | assumption | rfl, by first | assumption | rfl, by first | assumption | rfl, fun a ha => setScript_at _ _ _ a ha⟩

/-- P2WPKH: only the designated scriptSig (emptied) and the witness list change; the witness list has
    one entry per input, `[sig, pub]` at the designated input and every other witness as before; `sig`
    is over the BIP143 hash of the PRE-state with the P2PKH script code of the compressed key -/
theorem signP2WPKH_frame_form {tx tx' : Tx} {nInput : Int} {priv : Bytes} {ht value : Nat}
    (h : signInputP2WPKH C S Hh tx nInput priv ht value = .ok tx') :
    0 ≤ nInput ∧ nInput.toNat < tx.inputs.length ∧
    tx'.version = tx.version ∧ tx'.outputs = tx.outputs ∧ tx'.locktime = tx.locktime ∧
    InputsFrame tx.inputs tx'.inputs nInput.toNat ∧
    ∃ pub sc dig sig ws,
      getPublicKeyCompressed C priv = .ok pub ∧ makeP2PKHFromPublicKey Hh.hash160 pub = .ok sc ∧
      Hh.bip143 tx nInput.toNat sc ht value = .ok dig ∧ signSigHash C S dig priv ht = .ok sig ∧
      installWitness tx nInput.toNat [sig, pub] = .ok ws ∧ tx'.witnesses = some ws ∧
      ∀ a, tx.inputs[nInput.toNat]? = some a → tx'.inputs[nInput.toNat]? = some { a with script := [] } := by
  unfold signInputP2WPKH at h
  by_cases hg : signer_SignInputP2WPKH_0 nInput tx.inputs.length = true
  · rw [if_pos hg] at h; cases h
  · rw [if_neg hg] at h
    obtain ⟨hr, hcast⟩ := nInput_range (by simpa [signer_SignInputP2WPKH_0] using hg)
    cases h1 : getPublicKeyCompressed C priv with
    | err => simp [h1] at h
    | panic => simp [h1] at h
    | ok pub =>
      cases h2 : makeP2PKHFromPublicKey Hh.hash160 pub with
      | err => simp [h1, h2] at h
      | panic => simp [h1, h2] at h
      | ok sc =>
        cases h3 : Hh.bip143 tx nInput.toNat sc ht value with
        | err => simp [h1, h2, h3] at h
        | panic => simp [h1, h2, h3] at h
        | ok dig =>
          cases h4 : signSigHash C S dig priv ht with
          | err => simp [h1, h2, h3, h4] at h
          | panic => simp [h1, h2, h3, h4] at h
          | ok sig =>
            cases h5 : installWitness tx nInput.toNat [sig, pub] with
            | err => simp [h1, h2, h3, h4, h5] at h
            | panic => simp [h1, h2, h3, h4, h5] at h
            | ok ws =>
              simp only [h1, h2, h3, h4, h5, Outcome.bind_ok, Outcome.pure_eq, Outcome.ok.injEq] at h
              subst h
              exact ⟨by omega, hr, rfl, rfl, rfl, setScript_frame _ _ _, pub, sc, dig, sig, ws,
                by first | assumption | rfl, by first | assumption | rfl, by first | assumption | rfl, by first | assumption | rfl, by first | assumption | rfl, rfl, fun a ha => setScript_at _ _ _ a ha⟩

/-- P2SH-nested P2WPKH: as P2WPKH, with scriptSig = push(`00 14 hash160(pub)`) -/
theorem signNested_frame_form {tx tx' : Tx} {nInput : Int} {priv : Bytes} {ht value : Nat}
    (h : signInputNested C S Hh tx nInput priv ht value = .ok tx') :
    0 ≤ nInput ∧ nInput.toNat < tx.inputs.length ∧
    tx'.version = tx.version ∧ tx'.outputs = tx.outputs ∧ tx'.locktime = tx.locktime ∧
    InputsFrame tx.inputs tx'.inputs nInput.toNat ∧
    ∃ pub sc dig sig ws prog redeem,
      getPublicKeyCompressed C priv = .ok pub ∧ makeP2PKH (Hh.hash160 pub) = .ok sc ∧
      Hh.bip143 tx nInput.toNat sc ht value = .ok dig ∧ signSigHash C S dig priv ht = .ok sig ∧
      installWitness tx nInput.toNat [sig, pub] = .ok ws ∧ tx'.witnesses = some ws ∧
      makeP2WPKH (Hh.hash160 pub) = .ok prog ∧ pushData prog = .ok redeem ∧
      ∀ a, tx.inputs[nInput.toNat]? = some a → tx'.inputs[nInput.toNat]? = some { a with script := redeem } := by
  unfold signInputNested at h
  by_cases hg : signer_SignInputP2SHNestedP2WPKH_0 nInput tx.inputs.length = true
  · rw [if_pos hg] at h; cases h
  · rw [if_neg hg] at h
    obtain ⟨hr, hcast⟩ := nInput_range (by simpa [signer_SignInputP2SHNestedP2WPKH_0] using hg)
    cases h1 : getPublicKeyCompressed C priv with
    | err => simp [h1] at h
    | panic => simp [h1] at h
    | ok pub =>
      cases h2 : makeP2PKH (Hh.hash160 pub) with
      | err => simp [h1, h2] at h
      | panic => simp [h1, h2] at h
      | ok sc =>
        cases h3 : Hh.bip143 tx nInput.toNat sc ht value with
        | err => simp [h1, h2, h3] at h
        | panic => simp [h1, h2, h3] at h
        | ok dig =>
          cases h4 : signSigHash C S dig priv ht with
          | err => simp [h1, h2, h3, h4] at h
          | panic => simp [h1, h2, h3, h4] at h
          | ok sig =>
            cases h5 : installWitness tx nInput.toNat [sig, pub] with
            | err => simp [h1, h2, h3, h4, h5] at h
            | panic => simp [h1, h2, h3, h4, h5] at h
            | ok ws =>
              cases h6 : makeP2WPKH (Hh.hash160 pub) with
              | err => simp [h1, h2, h3, h4, h5, h6] at h
              | panic => simp [h1, h2, h3, h4, h5, h6] at h
              | ok prog =>
                cases h7 : pushData prog with
                | err => simp [h1, h2, h3, h4, h5, h6, h7] at h
                | panic => simp [h1, h2, h3, h4, h5, h6, h7] at h
                | ok redeem =>
                  simp only [h1, h2, h3, h4, h5, h6, h7, Outcome.bind_ok, Outcome.pure_eq,
                    Outcome.ok.injEq] at h
                  subst h
                  exact ⟨by omega, hr, rfl, rfl, rfl, setScript_frame _ _ _, pub, sc, dig, sig, ws, prog,
                    redeem, by first | assumption | rfl, by first | assumption | rfl, by first | assumption | rfl, by first | assumption | rfl, by first | assumption | rfl, rfl, by first | assumption | rfl, by first | assumption | rfl, fun a ha => setScript_at _ _ _ a ha⟩


/-! ### the signed transaction serialises and re-parses to itself -/

theorem mem_setScript {ins : List TxIn} {n : Nat} {sc : Bytes} {x : TxIn} (h : x ∈ setScript ins n sc) :
    x ∈ ins ∨ ∃ a ∈ ins, x = { a with script := sc } := by
  induction ins generalizing n with
  | nil => simp [setScript] at h
  | cons a as ih =>
    cases n with
    | zero =>
      simp only [setScript, List.mem_cons] at h
      rcases h with rfl | h
      · exact Or.inr ⟨a, by simp, rfl⟩
      · exact Or.inl (by simp [h])
    | succ n =>
      simp only [setScript, List.mem_cons] at h
      rcases h with rfl | h
      · exact Or.inl (by simp)
      · rcases ih h with h | ⟨b, hb, rfl⟩
        · exact Or.inl (by simp [h])
        · exact Or.inr ⟨b, by simp [hb], rfl⟩

theorem WF_setScript {tx : Tx} (hwf : WFTx tx) (n : Nat) (sc : Bytes) (hsc : sc.length ≤ 1000000) :
    WFTx { tx with inputs := setScript tx.inputs n sc } := by
  obtain ⟨h1, h2, h3, h4, h5, h6, h7, h8⟩ := hwf
  refine ⟨h1, h2, by simpa [setScript_length] using h3, by simpa [setScript_length] using h4, h5, ?_, h7, ?_⟩
  · intro i hi
    rcases mem_setScript hi with hi | ⟨a, ha, rfl⟩
    · exact h6 i hi
    · obtain ⟨p, _, q⟩ := h6 a ha
      exact ⟨p, hsc, q⟩
  · intro ws hws
    simpa [setScript_length] using h8 ws hws

theorem WF_installWitness {tx : Tx} (hwf : WFTx tx) {n : Nat} {w : Witness} {ws : List Witness}
    (h : installWitness tx n w = .ok ws) (hw : WFWitness w) :
    ws.length = tx.inputs.length ∧ ∀ x ∈ ws, WFWitness x := by
  obtain ⟨_, _, _, _, _, _, _, h8⟩ := hwf
  unfold installWitness at h
  cases hwit : tx.witnesses with
  | none =>
    simp only [hwit, List.length_replicate, Nat.lt_irrefl, if_false, Outcome.ok.injEq] at h
    subst h
    refine ⟨by simp, ?_⟩
    intro x hx
    rcases List.mem_or_eq_of_mem_set hx with hx | rfl
    · rw [List.mem_replicate] at hx
      rw [hx.2]; exact ⟨by simp, by simp [witBytes]⟩
    · exact hw
  | some old =>
    obtain ⟨hl, hall⟩ := h8 old hwit
    simp only [hwit, hl, Nat.lt_irrefl, if_false, Outcome.ok.injEq] at h
    subst h
    refine ⟨by simp [hl], ?_⟩
    intro x hx
    rcases List.mem_or_eq_of_mem_set hx with hx | rfl
    · exact hall x hx
    · exact hw

theorem pushData_length {d out : Bytes} (h : pushData d = .ok out) : out.length ≤ d.length + 5 := by
  unfold pushData at h
  simp only at h
  split at h
  · injection h with h; subst h; simp
  · split at h
    · injection h with h; subst h; simp; omega
    · split at h
      · injection h with h; subst h; simp; omega
      · split at h
        · injection h with h; subst h; simp; omega
        · cases h

theorem signSigHash_length {C : CurveOps} (hn2 : C.n ≤ 2 ^ 256) {S : SigOps} {dig priv sig : Bytes} {ht : Nat}
    (h : signSigHash C S dig priv ht = .ok sig) : sig.length ≤ 73 := by
  unfold signSigHash at h
  cases hs : signECDSA C S priv dig with
  | err => simp [hs] at h
  | panic => simp [hs] at h
  | ok rs =>
    obtain ⟨r, s⟩ := rs
    by_cases hht : ht < 256
    · obtain ⟨out, ho, _, _, _, _, h73⟩ := Proofs.ECC.signSigHash_der hn2 S dig priv ht r s hs hht
      unfold signSigHash at ho
      simp only [hs] at h ho
      rw [h] at ho
      injection ho with ho
      subst ho; exact h73
    · simp only [hs] at h
      rw [Model.DER.encode_err_ht _ _ (by omega)] at h
      cases h

theorem serialize_lengths {C : CurveOps} {P : Pt} {bs : Bytes} :
    (serializeCompressed C P = .ok bs → bs.length = 33) ∧ (serializeUncompressed C P = .ok bs → bs.length = 65) := by
  constructor
  · intro h
    unfold serializeCompressed at h
    split at h
    · cases h
    · unfold fillBytes32 at h
      split at h
      · simp only [Outcome.bind_ok, Outcome.pure_eq, Outcome.ok.injEq] at h
        subst h; simp
      · simp at h
  · intro h
    unfold serializeUncompressed at h
    split at h
    · cases h
    · unfold fillBytes32 at h
      split at h
      · split at h
        · simp only [Outcome.bind_ok, Outcome.pure_eq, Outcome.ok.injEq] at h
          subst h; simp
        · simp at h
      · simp at h

theorem getPublicKey_length {C : CurveOps} {priv pub : Bytes} {c : Bool} (h : getPublicKey C priv c = .ok pub) :
    pub.length ≤ 65 := by
  unfold getPublicKey at h
  split at h
  · unfold getPublicKeyCompressed at h
    cases hm : mulBase C (beNat priv) with
    | err => simp [hm] at h
    | panic => simp [hm] at h
    | ok P =>
      simp only [hm, Outcome.bind_ok] at h
      have := serialize_lengths.1 h
      omega
  · unfold getPublicKeyUncompressed at h
    cases hm : mulBase C (beNat priv) with
    | err => simp [hm] at h
    | panic => simp [hm] at h
    | ok P =>
      simp only [hm, Outcome.bind_ok] at h
      have := serialize_lengths.2 h
      omega

theorem getPublicKeyCompressed_length {C : CurveOps} {priv pub : Bytes}
    (h : getPublicKeyCompressed C priv = .ok pub) : pub.length ≤ 65 := by
  have : getPublicKey C priv true = .ok pub := by simpa [getPublicKey, ecc_GetPublicKey_0] using h
  exact getPublicKey_length this

variable {C S Hh}

/-- a well-formed transaction (C01's domain) stays well-formed under P2PKH signing, hence the signed
    transaction serialises and parses back to itself, leaving any following bytes unread -/
theorem signP2PKH_reparses (hn2 : C.n ≤ 2 ^ 256) {tx tx' : Tx} {nInput : Int} {priv : Bytes} {ht : Nat}
    {compressed : Bool} (hwf : WFTx tx) (h : signInputP2PKH C S Hh tx nInput priv ht compressed = .ok tx')
    (rest : Bytes) :
    WFTx tx' ∧ ∃ bs, encTx tx' true = .ok bs ∧ decTx (bs ++ rest) = .ok (tx', rest) := by
  have hwf' : WFTx tx' := by
    unfold signInputP2PKH at h
    split at h
    · cases h
    · cases h1 : getPublicKey C priv compressed with
      | err => simp [h1] at h
      | panic => simp [h1] at h
      | ok pub =>
        cases h2 : makeP2PKHFromPublicKey Hh.hash160 pub with
        | err => simp [h1, h2] at h
        | panic => simp [h1, h2] at h
        | ok sc =>
          cases h3 : Hh.legacy tx nInput.toNat sc ht with
          | err => simp [h1, h2, h3] at h
          | panic => simp [h1, h2, h3] at h
          | ok dig =>
            cases h4 : signSigHash C S dig priv ht with
            | err => simp [h1, h2, h3, h4] at h
            | panic => simp [h1, h2, h3, h4] at h
            | ok sig =>
              cases h5 : pushData sig with
              | err => simp [h1, h2, h3, h4, h5] at h
              | panic => simp [h1, h2, h3, h4, h5] at h
              | ok ps =>
                cases h6 : pushData pub with
                | err => simp [h1, h2, h3, h4, h5, h6] at h
                | panic => simp [h1, h2, h3, h4, h5, h6] at h
                | ok pp =>
                  simp only [h1, h2, h3, h4, h5, h6, Outcome.bind_ok, Outcome.pure_eq, Outcome.ok.injEq] at h
                  subst h
                  have l1 := signSigHash_length hn2 h4
                  have l2 := getPublicKey_length h1
                  have l3 := pushData_length h5
                  have l4 := pushData_length h6
                  exact WF_setScript hwf _ _ (by simp; omega)
  exact ⟨hwf', decTx_encTx tx' rest hwf'⟩

theorem WF_result {tx : Tx} (hwf : WFTx tx) (n : Nat) (sc : Bytes) (hsc : sc.length ≤ 1000000)
    (ws : List Witness) (hl : ws.length = tx.inputs.length) (hall : ∀ x ∈ ws, WFWitness x) :
    WFTx { tx with inputs := setScript tx.inputs n sc, witnesses := some ws } := by
  obtain ⟨h1, h2, h3, h4, h5, h6, h7, h8⟩ := WF_setScript hwf n sc hsc
  refine ⟨h1, h2, h3, h4, h5, h6, h7, ?_⟩
  intro ws' hws'
  simp only [Option.some.injEq] at hws'
  subst hws'
  exact ⟨by simpa [setScript_length] using hl, hall⟩

theorem signP2WPKH_explicit {tx tx' : Tx} {nInput : Int} {priv : Bytes} {ht value : Nat}
    (h : signInputP2WPKH C S Hh tx nInput priv ht value = .ok tx') :
    ∃ pub sc dig sig ws, getPublicKeyCompressed C priv = .ok pub ∧
      signSigHash C S dig priv ht = .ok sig ∧ installWitness tx nInput.toNat [sig, pub] = .ok ws ∧
      tx' = { tx with inputs := setScript tx.inputs nInput.toNat [], witnesses := some ws } ∧
      makeP2PKHFromPublicKey Hh.hash160 pub = .ok sc ∧ Hh.bip143 tx nInput.toNat sc ht value = .ok dig := by
  unfold signInputP2WPKH at h
  split at h
  · cases h
  · cases h1 : getPublicKeyCompressed C priv with
    | err => simp [h1] at h
    | panic => simp [h1] at h
    | ok pub =>
      cases h2 : makeP2PKHFromPublicKey Hh.hash160 pub with
      | err => simp [h1, h2] at h
      | panic => simp [h1, h2] at h
      | ok sc =>
        cases h3 : Hh.bip143 tx nInput.toNat sc ht value with
        | err => simp [h1, h2, h3] at h
        | panic => simp [h1, h2, h3] at h
        | ok dig =>
          cases h4 : signSigHash C S dig priv ht with
          | err => simp [h1, h2, h3, h4] at h
          | panic => simp [h1, h2, h3, h4] at h
          | ok sig =>
            cases h5 : installWitness tx nInput.toNat [sig, pub] with
            | err => simp [h1, h2, h3, h4, h5] at h
            | panic => simp [h1, h2, h3, h4, h5] at h
            | ok ws =>
              simp only [h1, h2, h3, h4, h5, Outcome.bind_ok, Outcome.pure_eq, Outcome.ok.injEq] at h
              exact ⟨pub, sc, dig, sig, ws, rfl, h4, h5, h.symm, h2, h3⟩

theorem signNested_explicit {tx tx' : Tx} {nInput : Int} {priv : Bytes} {ht value : Nat}
    (h : signInputNested C S Hh tx nInput priv ht value = .ok tx') :
    ∃ pub dig sig ws prog redeem, getPublicKeyCompressed C priv = .ok pub ∧
      signSigHash C S dig priv ht = .ok sig ∧ installWitness tx nInput.toNat [sig, pub] = .ok ws ∧
      makeP2WPKH (Hh.hash160 pub) = .ok prog ∧ pushData prog = .ok redeem ∧
      tx' = { tx with inputs := setScript tx.inputs nInput.toNat redeem, witnesses := some ws } := by
  unfold signInputNested at h
  split at h
  · cases h
  · cases h1 : getPublicKeyCompressed C priv with
    | err => simp [h1] at h
    | panic => simp [h1] at h
    | ok pub =>
      cases h2 : makeP2PKH (Hh.hash160 pub) with
      | err => simp [h1, h2] at h
      | panic => simp [h1, h2] at h
      | ok sc =>
        cases h3 : Hh.bip143 tx nInput.toNat sc ht value with
        | err => simp [h1, h2, h3] at h
        | panic => simp [h1, h2, h3] at h
        | ok dig =>
          cases h4 : signSigHash C S dig priv ht with
          | err => simp [h1, h2, h3, h4] at h
          | panic => simp [h1, h2, h3, h4] at h
          | ok sig =>
            cases h5 : installWitness tx nInput.toNat [sig, pub] with
            | err => simp [h1, h2, h3, h4, h5] at h
            | panic => simp [h1, h2, h3, h4, h5] at h
            | ok ws =>
              cases h6 : makeP2WPKH (Hh.hash160 pub) with
              | err => simp [h1, h2, h3, h4, h5, h6] at h
              | panic => simp [h1, h2, h3, h4, h5, h6] at h
              | ok prog =>
                cases h7 : pushData prog with
                | err => simp [h1, h2, h3, h4, h5, h6, h7] at h
                | panic => simp [h1, h2, h3, h4, h5, h6, h7] at h
                | ok redeem =>
                  simp only [h1, h2, h3, h4, h5, h6, h7, Outcome.bind_ok, Outcome.pure_eq,
                    Outcome.ok.injEq] at h
                  exact ⟨pub, dig, sig, ws, prog, redeem, rfl, h4, h5, h6, h7, h.symm⟩

theorem signP2WPKH_reparses (hn2 : C.n ≤ 2 ^ 256) {tx tx' : Tx} {nInput : Int} {priv : Bytes} {ht value : Nat}
    (hwf : WFTx tx) (h : signInputP2WPKH C S Hh tx nInput priv ht value = .ok tx') (rest : Bytes) :
    WFTx tx' ∧ ∃ bs, encTx tx' true = .ok bs ∧ decTx (bs ++ rest) = .ok (tx', rest) := by
  have hwf' : WFTx tx' := by
    obtain ⟨pub, sc, dig, sig, ws, h1, h4, h5, rfl, _, _⟩ := signP2WPKH_explicit h
    have l1 := signSigHash_length hn2 h4
    have l2 := getPublicKeyCompressed_length h1
    have hw : WFWitness [sig, pub] := ⟨by simp, by simp [witBytes]; omega⟩
    obtain ⟨hl, hall⟩ := WF_installWitness hwf h5 hw
    exact WF_result hwf _ _ (by simp) ws hl hall
  exact ⟨hwf', decTx_encTx tx' rest hwf'⟩

theorem makeP2WPKH_length {hsh prog : Bytes} (h : makeP2WPKH hsh = .ok prog) : prog.length ≤ hsh.length + 6 := by
  unfold makeP2WPKH makeWitnessProgram at h
  cases hp : pushData hsh with
  | err => simp [hp, Outcome.bind] at h
  | panic => simp [hp, Outcome.bind] at h
  | ok p =>
    simp only [hp, Outcome.bind, Outcome.ok.injEq] at h
    subst h
    have := pushData_length hp
    simp; omega

/-- `hash160` is a 20-byte digest in the Go code; the bound is only needed to keep the nested
    redeem script within the script-size limit of C01's domain -/
theorem signNested_reparses (hn2 : C.n ≤ 2 ^ 256) (hh : ∀ b, (Hh.hash160 b).length ≤ 999000) {tx tx' : Tx}
    {nInput : Int} {priv : Bytes} {ht value : Nat}
    (hwf : WFTx tx) (h : signInputNested C S Hh tx nInput priv ht value = .ok tx') (rest : Bytes) :
    WFTx tx' ∧ ∃ bs, encTx tx' true = .ok bs ∧ decTx (bs ++ rest) = .ok (tx', rest) := by
  have hwf' : WFTx tx' := by
    obtain ⟨pub, dig, sig, ws, prog, redeem, h1, h4, h5, h6, h7, rfl⟩ := signNested_explicit h
    have l1 := signSigHash_length hn2 h4
    have l2 := getPublicKeyCompressed_length h1
    have l3 := makeP2WPKH_length h6
    have l4 := pushData_length h7
    have l5 := hh pub
    have hw : WFWitness [sig, pub] := ⟨by simp, by simp [witBytes]; omega⟩
    obtain ⟨hl, hall⟩ := WF_installWitness hwf h5 hw
    exact WF_result hwf _ _ (by omega) ws hl hall
  exact ⟨hwf', decTx_encTx tx' rest hwf'⟩

end BtcVerif.Model.Signer
