/-
  Proofs about `Model/Reorder.lean`: whatever the node serves (siblings, repeats, blocks of other chains), the
  re-ordering goroutine only ends without an error after it has handed out `toHeight - fromHeight` blocks
  that form a hash chain from the first block.
-/
import BtcVerif.Model.Reorder

namespace BtcVerif.Model.Reorder
open BtcVerif.Gen.Guards

theorem lookup_prev {k : Nat} {m : List Blk} {b : Blk} (h : lookup k m = some b) : b.prev = k := by
  have := List.find?_some h
  simpa using this

theorem lookup_mem {k : Nat} {m : List Blk} {b : Blk} (h : lookup k m = some b) : b ∈ m :=
  List.mem_of_find?_eq_some h

theorem filter_length_lt {p : Blk → Bool} : ∀ {m : List Blk} {b : Blk}, b ∈ m → p b = false →
    (m.filter p).length < m.length
  | x :: xs, b, hb, hp => by
    rcases List.mem_cons.mp hb with rfl | hb'
    · simp only [List.filter_cons, hp, Bool.false_eq_true, if_false, List.length_cons]
      exact Nat.lt_succ_of_le (List.length_filter_le _ _)
    · have ih := filter_length_lt hb' hp
      simp only [List.filter_cons, List.length_cons]
      split
      · simp only [List.length_cons]; omega
      · omega

theorem delete_length_lt {k : Nat} {m : List Blk} {b : Blk} (h : lookup k m = some b) :
    (delete k m).length < m.length :=
  filter_length_lt (lookup_mem h) (by simp [lookup_prev h])

theorem insert_length_le (b : Blk) (m : List Blk) : (insert b m).length ≤ m.length + 1 := by
  simp only [insert, List.length_cons]
  exact Nat.succ_le_succ (List.length_filter_le _ _)

theorem chain_append : ∀ (h : Nat) (bs : List Blk) (b : Blk),
    Chain h (bs ++ [b]) ↔ Chain h bs ∧ b.prev = tip h bs
  | h, [], b => by simp [Chain, tip]
  | h, x :: xs, b => by
    simp only [List.cons_append, Chain, tip, chain_append x.id xs b, and_assoc]

theorem tip_append : ∀ (h : Nat) (bs : List Blk) (b : Blk), tip h (bs ++ [b]) = b.id
  | _, [], _ => rfl
  | _, x :: xs, b => by simp only [List.cons_append, tip, tip_append x.id xs b]

/-- what holds of every state of a run (`k`: blocks received so far) -/
structure Inv (fromHeight toHeight first k : Nat) (s : St) : Prop where
  chain : Chain first s.out
  latest : s.latest = tip first s.out
  cur : s.cur = fromHeight + s.out.length
  bound : s.out.length + s.buf.length ≤ k
  done : s.res = .done → toHeight ≤ s.cur

theorem release_inv {f t first k : Nat} : ∀ (fuel : Nat) {s : St}, Inv f t first k s → s.res = .running →
    Inv f t first k (release fuel s) ∧ (release fuel s).res = .running
  | 0, s, hi, hr => ⟨hi, hr⟩
  | fuel + 1, s, hi, hr => by
    unfold release
    split
    · next b hb =>
      simp only [blockscan_BlockScanner_streamBlocks_lit0_4, if_true]
      apply release_inv fuel
      · refine ⟨?_, ?_, ?_, ?_, ?_⟩
        · exact (chain_append first s.out b).mpr ⟨hi.chain, by rw [lookup_prev hb, hi.latest]⟩
        · simp only [tip_append]
        · simp only [List.length_append, List.length_cons, List.length_nil, hi.cur]; omega
        · have := delete_length_lt hb
          have := hi.bound
          simp only [List.length_append, List.length_cons, List.length_nil]; omega
        · intro h; simp [hr] at h
      · exact hr
    · simp only [blockscan_BlockScanner_streamBlocks_lit0_4, Bool.false_eq_true, if_false]
      exact ⟨hi, hr⟩

theorem Inv.mono {f t first k k' : Nat} {s : St} (h : Inv f t first k s) (hk : k ≤ k') : Inv f t first k' s :=
  ⟨h.chain, h.latest, h.cur, Nat.le_trans h.bound hk, h.done⟩

def evCount : Ev → Nat
  | .blk _ => 1
  | .closed => 0

theorem iter_inv {f t first k : Nat} {s : St} (e : Ev) (hi : Inv f t first k s) :
    Inv f t first (k + evCount e) (iter t s e) := by
  obtain ⟨l, c, bf, o, r⟩ := s
  unfold iter
  by_cases hr : r = .running
  · subst hr
    simp only [ne_eq, not_true_eq_false, if_false]
    cases hg : blockscan_BlockScanner_streamBlocks_lit0_1 (currentHeight := c) (toHeight := t)
    · -- the loop condition fails: the goroutine ends without an error
      simp only [Bool.not_false, if_true]
      refine ⟨hi.chain, hi.latest, hi.cur, Nat.le_trans hi.bound (Nat.le_add_right _ _), ?_⟩
      intro _
      simp only [blockscan_BlockScanner_streamBlocks_lit0_1, decide_eq_false_iff_not, Nat.not_lt] at hg
      exact hg
    · simp only [Bool.not_true, Bool.false_eq_true, if_false]
      cases e with
      | blk b =>
        simp only [blockscan_BlockScanner_streamBlocks_lit0_2, Bool.not_true, Bool.false_eq_true, if_false,
          blockscan_BlockScanner_streamBlocks_lit0_5]
        have hi1 : Inv f t first (k + 1) { latest := l, cur := c, buf := insert b bf, out := o, res := .running } :=
          ⟨hi.chain, hi.latest, hi.cur, by
            have h1 := insert_length_le b bf
            have h2 := hi.bound
            show o.length + (insert b bf).length ≤ k + 1
            simp only at h2
            omega, hi.done⟩
        exact (release_inv _ hi1 rfl).1
      | closed =>
        simp only [blockscan_BlockScanner_streamBlocks_lit0_2, Bool.not_false,
          blockscan_BlockScanner_streamBlocks_lit0_5, if_true]
        have h2 := release_inv (f := f) (t := t) (first := first) (k := k) (bf.length + 1) hi rfl
        exact ⟨h2.1.chain, h2.1.latest, h2.1.cur, h2.1.bound, by intro h; simp at h⟩
  · simp only [ne_eq, hr, not_false_eq_true, if_true]
    exact hi.mono (Nat.le_add_right _ _)

theorem foldl_inv {f t first : Nat} : ∀ (evs : List Ev) {k : Nat} {s : St}, Inv f t first k s →
    Inv f t first (k + (evs.map evCount).sum) (evs.foldl (iter t) s)
  | [], k, s, hi => by simpa using hi
  | e :: es, k, s, hi => by
    have := foldl_inv es (iter_inv e hi)
    simpa [List.foldl_cons, Nat.add_assoc] using this

theorem sum_evCount : ∀ (evs : List Ev), (evs.map evCount).sum = blockCount evs
  | [] => rfl
  | .blk b :: es => by
    have := sum_evCount es
    simp only [blockCount] at this ⊢
    simp [List.filter_cons, evCount, this]; omega
  | .closed :: es => by
    have := sum_evCount es
    simp only [blockCount] at this ⊢
    simp [List.filter_cons, evCount, this]

theorem start_inv (f t first : Nat) : Inv f t first 0 (start f first) :=
  ⟨trivial, rfl, rfl, Nat.le_refl _, by intro h; simp [start] at h⟩

theorem run_inv (f t first : Nat) (evs : List Ev) : Inv f t first (blockCount evs) (run f t first evs) := by
  have h := foldl_inv (f := f) (t := t) (first := first) evs (start_inv f t first)
  rw [Nat.zero_add, sum_evCount] at h
  unfold run finish
  split
  · next hc =>
    refine ⟨h.chain, h.latest, h.cur, h.bound, ?_⟩
    intro _
    have hg := hc.2
    simp only [blockscan_BlockScanner_streamBlocks_lit0_1, Bool.not_eq_true', decide_eq_false_iff_not, Nat.not_lt] at hg
    exact hg
  · exact h

end BtcVerif.Model.Reorder

namespace BtcVerif.Model.Reorder
open BtcVerif.Gen.Guards

/-- the block of height `fromHeight + k` of an honest chain whose first block has hash 1 -/
def honest (k : Nat) : Blk := ⟨k + 1, k⟩

/-- one honest block arriving in its turn, with nothing buffered: it is handed out at once -/
theorem iter_in_turn (f t j : Nat) (out : List Blk) (hj : f + j < t) :
    iter t { latest := j + 1, cur := f + j, buf := [], out := out, res := .running } (.blk (honest (j + 1))) =
      { latest := j + 2, cur := f + (j + 1), buf := [], out := out ++ [honest (j + 1)], res := .running } := by
  simp [iter, blockscan_BlockScanner_streamBlocks_lit0_1, blockscan_BlockScanner_streamBlocks_lit0_2,
    blockscan_BlockScanner_streamBlocks_lit0_4, blockscan_BlockScanner_streamBlocks_lit0_5, hj, insert, release,
    lookup, delete, honest, Nat.add_assoc]

theorem foldl_in_order (f t : Nat) : ∀ (n j : Nat) (out : List Blk), f + j + n ≤ t →
    ((List.range' (j + 1) n).map (fun k => Ev.blk (honest k))).foldl (iter t)
        { latest := j + 1, cur := f + j, buf := [], out := out, res := .running } =
      { latest := j + n + 1, cur := f + (j + n), buf := [], out := out ++ (List.range' (j + 1) n).map honest, res := .running }
  | 0, j, out, _ => by simp
  | n + 1, j, out, h => by
    have hj : f + j < t := by omega
    simp only [List.range'_succ, List.map_cons, List.foldl_cons]
    rw [iter_in_turn f t j out hj]
    have ih := foldl_in_order f t n (j + 1) (out ++ [honest (j + 1)]) (by omega)
    simp only [Nat.add_assoc] at ih ⊢
    rw [ih]
    simp [Nat.add_comm, Nat.add_left_comm, List.append_assoc]

end BtcVerif.Model.Reorder
