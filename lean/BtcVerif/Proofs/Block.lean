import BtcVerif.Model.Block
import BtcVerif.Proofs.Tx

namespace BtcVerif.Model
open BtcVerif BtcVerif.Parser
open BtcVerif.Gen.Guards

theorem encHeader_length (h : Header) (hw : WFHeader h) : (encHeader h).length = 80 := by
  obtain ⟨_, h1, h2, _⟩ := hw
  simp [encHeader, h1, h2]

theorem decHeader_enc (h : Header) (rest : Bytes) (hw : WFHeader h) :
    decHeader (encHeader h ++ rest) = .ok (h, rest) := by
  obtain ⟨hv, h1, h2, ht, hb, hn⟩ := hw
  unfold decHeader encHeader
  simp only [List.append_assoc]
  rw [bind_of_ok (readLE_append 4 _ _ (by rw [p32]; exact hv))]
  rw [bind_of_ok (readN_append' 32 _ _ (by simp [h1]))]
  rw [bind_of_ok (readN_append' 32 _ _ (by simp [h2]))]
  rw [bind_of_ok (readLE_append 4 _ _ (by rw [p32]; exact ht))]
  rw [bind_of_ok (readLE_append 4 _ _ (by rw [p32]; exact hb))]
  rw [bind_of_ok (readLE_append 4 _ _ (by rw [p32]; exact hn))]
  simp

/-- encoding a list of well-formed transactions succeeds, and reading as many back returns them -/
theorem readMany_decTx (txs : List Tx) (rest : Bytes) (h : ∀ t ∈ txs, WFTx t) :
    ∃ bs, encTxs txs = .ok bs ∧ readMany decTx txs.length (bs ++ rest) = .ok (txs, rest) := by
  induction txs with
  | nil => exact ⟨[], rfl, by simp [readMany]⟩
  | cons t ts ih =>
    obtain ⟨bs, he, hd⟩ := ih (fun x hx => h x (by simp [hx]))
    obtain ⟨b1, he1, hd1⟩ := decTx_encTx t (bs ++ rest) (h t (by simp))
    refine ⟨b1 ++ bs, ?_, ?_⟩
    · simp [encTxs, he1, he]
    · simp only [List.length_cons, readMany, List.append_assoc]
      rw [bind_of_ok hd1, bind_of_ok hd]
      rfl

theorem decBlock_enc (b : Block) (rest : Bytes) (h : WFBlock b) :
    ∃ bs, encBlock b = .ok bs ∧ decBlock (bs ++ rest) = .ok (b, rest) := by
  obtain ⟨hh, hn, ht⟩ := h
  obtain ⟨body, he, hd⟩ := readMany_decTx b.txs rest ht
  refine ⟨encHeader b.header ++ encVarint b.txs.length ++ body, by simp [encBlock, he], ?_⟩
  unfold decBlock
  simp only [List.append_assoc]
  rw [bind_of_ok (decHeader_enc _ _ hh)]
  rw [bind_of_ok (decVarint_encVarint _ _ (by omega))]
  have g : blocks_fromReader_0 b.txs.length = false := by simp [blocks_fromReader_0]; omega
  simp only [g, Bool.false_eq_true, ite_false]
  rw [bind_of_ok hd]
  rfl

end BtcVerif.Model
