/-
  Template lemmas for C12 (P2PKH, P2SH, P2WPKH, P2WSH): recognisers accept exactly the template's
  byte pattern, builders produce it, decoders return the committed hash.  The proofs destructure a
  list of the template's exact length into its elements (generated text, see the C12 report).
-/
import BtcVerif.Model.Script
import BtcVerif.Spec.Script
namespace BtcVerif.Proofs.Script
open BtcVerif BtcVerif.Model BtcVerif.Parser
open BtcVerif.Gen BtcVerif.Gen.Guards

theorem toNat_eq_iff (a : UInt8) (n : Nat) (h : n < 256) : a.toNat = n ↔ a = UInt8.ofNat n := by
  constructor
  · intro e; apply UInt8.toNat_inj.mp; simp [UInt8.toNat_ofNat']; omega
  · intro e; subst e; simp [UInt8.toNat_ofNat']; omega

/-! ### P2PKH -/

theorem makeP2PKH_eq_spec (h : Bytes) (hl : h.length = 20) : makeP2PKH h = .ok (Spec.Script.p2pkh h) := by
  simp [makeP2PKH, makeWitnessProgram, pushData, script_PushData_0, hl, Outcome.bind, opByte, Spec.Script.p2pkh,
    constants_OP_DUP, constants_OP_HASH160, constants_OP_EQUALVERIFY, constants_OP_CHECKSIG,
    constants_OP_EQUAL, constants_OP_0]

theorem spec_p2pkh_length (h : Bytes) (hl : h.length = 20) : (Spec.Script.p2pkh h).length = 25 := by
  simp [Spec.Script.p2pkh, hl]

/-- the recogniser never panics and answers `true` exactly on the template's byte pattern -/
theorem isP2PKH_cases (s : Bytes) :
    (isP2PKH s = .ok true ∧ ∃ h, h.length = 20 ∧ s = Spec.Script.p2pkh h) ∨
    (isP2PKH s = .ok false ∧ ¬ ∃ h, h.length = 20 ∧ s = Spec.Script.p2pkh h) := by
  by_cases hl : s.length = 25
  · rcases s with _ | ⟨a0, _ | ⟨a1, _ | ⟨a2, _ | ⟨a3, _ | ⟨a4, _ | ⟨a5, _ | ⟨a6, _ | ⟨a7, _ | ⟨a8, _ | ⟨a9, _ | ⟨a10, _ | ⟨a11, _ | ⟨a12, _ | ⟨a13, _ | ⟨a14, _ | ⟨a15, _ | ⟨a16, _ | ⟨a17, _ | ⟨a18, _ | ⟨a19, _ | ⟨a20, _ | ⟨a21, _ | ⟨a22, _ | ⟨a23, _ | ⟨a24, t⟩⟩⟩⟩⟩⟩⟩⟩⟩⟩⟩⟩⟩⟩⟩⟩⟩⟩⟩⟩⟩⟩⟩⟩⟩
    all_goals (try (simp at hl; done))
    cases t with
    | cons _ _ => simp at hl
    | nil =>
      by_cases hc : a0 = 118 ∧ a1 = 169 ∧ a2 = 20 ∧ a23 = 136 ∧ a24 = 172
      · left
        obtain ⟨e0, e1, e2, e23, e24⟩ := hc
        subst e0 e1 e2 e23 e24
        refine ⟨by simp [isP2PKH, byteAt, Outcome.bind, script_IsP2PKH_0], [a3,a4,a5,a6,a7,a8,a9,a10,a11,a12,a13,a14,a15,a16,a17,a18,a19,a20,a21,a22], rfl, ?_⟩
        simp [Spec.Script.p2pkh]
      · right
        refine ⟨?_, ?_⟩
        · simp only [isP2PKH, List.length_cons, List.length_nil]
          simp [byteAt, Outcome.bind, script_IsP2PKH_0, toNat_eq_iff]
          intros; simp_all
        · rintro ⟨h, hh, e⟩
          rcases h with _ | ⟨b0, _ | ⟨b1, _ | ⟨b2, _ | ⟨b3, _ | ⟨b4, _ | ⟨b5, _ | ⟨b6, _ | ⟨b7, _ | ⟨b8, _ | ⟨b9, _ | ⟨b10, _ | ⟨b11, _ | ⟨b12, _ | ⟨b13, _ | ⟨b14, _ | ⟨b15, _ | ⟨b16, _ | ⟨b17, _ | ⟨b18, _ | ⟨b19, t⟩⟩⟩⟩⟩⟩⟩⟩⟩⟩⟩⟩⟩⟩⟩⟩⟩⟩⟩⟩
          all_goals (try (simp at hh; done))
          cases t with
          | cons _ _ => simp at hh
          | nil =>
            simp [Spec.Script.p2pkh] at e
            apply hc
            simp [e]
  · right
    refine ⟨by simp [isP2PKH, hl], ?_⟩
    rintro ⟨h, hh, rfl⟩
    exact hl (spec_p2pkh_length h hh)

theorem isP2PKH_iff (s : Bytes) :
    isP2PKH s = .ok true ↔ ∃ h, h.length = 20 ∧ s = Spec.Script.p2pkh h := by
  rcases isP2PKH_cases s with ⟨h1, h2⟩ | ⟨h1, h2⟩
  · exact ⟨fun _ => h2, fun _ => h1⟩
  · constructor
    · intro h; rw [h1] at h; cases h
    · intro h; exact absurd h h2

theorem isP2PKH_total (s : Bytes) : isP2PKH s = .ok true ∨ isP2PKH s = .ok false := by
  rcases isP2PKH_cases s with ⟨h1, _⟩ | ⟨h1, _⟩
  · exact Or.inl h1
  · exact Or.inr h1

theorem isP2PKH_length {s : Bytes} (h : isP2PKH s = .ok true) : s.length = 25 := by
  obtain ⟨x, hx, rfl⟩ := (isP2PKH_iff s).mp h
  exact spec_p2pkh_length x hx

/-- the decoder returns the committed hash of the template and fails on everything else -/
theorem decodeP2PKH_spec (h : Bytes) (hl : h.length = 20) : decodeP2PKH (Spec.Script.p2pkh h) = .ok h := by
  have hi : isP2PKH (Spec.Script.p2pkh h) = .ok true := (isP2PKH_iff _).mpr ⟨h, hl, rfl⟩
  rcases h with _ | ⟨b0, _ | ⟨b1, _ | ⟨b2, _ | ⟨b3, _ | ⟨b4, _ | ⟨b5, _ | ⟨b6, _ | ⟨b7, _ | ⟨b8, _ | ⟨b9, _ | ⟨b10, _ | ⟨b11, _ | ⟨b12, _ | ⟨b13, _ | ⟨b14, _ | ⟨b15, _ | ⟨b16, _ | ⟨b17, _ | ⟨b18, _ | ⟨b19, t⟩⟩⟩⟩⟩⟩⟩⟩⟩⟩⟩⟩⟩⟩⟩⟩⟩⟩⟩⟩
  all_goals (try (simp at hl; done))
  cases t with
  | cons _ _ => simp at hl
  | nil =>
    simp only [decodeP2PKH, decodeWith, hi, Outcome.bind, script_DecodeP2PKH_0]
    simp [sliceOf, Spec.Script.p2pkh]

theorem decodeP2PKH_err {s : Bytes} (h : ¬ ∃ x, x.length = 20 ∧ s = Spec.Script.p2pkh x) : decodeP2PKH s = .err := by
  rcases isP2PKH_cases s with ⟨_, h2⟩ | ⟨h1, _⟩
  · exact absurd h2 h
  · simp [decodeP2PKH, decodeWith, h1, Outcome.bind, script_DecodeP2PKH_0]

/-! ### P2SH -/

theorem makeP2SH_eq_spec (h : Bytes) (hl : h.length = 20) : makeP2SH h = .ok (Spec.Script.p2sh h) := by
  simp [makeP2SH, makeWitnessProgram, pushData, script_PushData_0, hl, Outcome.bind, opByte, Spec.Script.p2sh,
    constants_OP_DUP, constants_OP_HASH160, constants_OP_EQUALVERIFY, constants_OP_CHECKSIG,
    constants_OP_EQUAL, constants_OP_0]

theorem spec_p2sh_length (h : Bytes) (hl : h.length = 20) : (Spec.Script.p2sh h).length = 23 := by
  simp [Spec.Script.p2sh, hl]

/-- the recogniser never panics and answers `true` exactly on the template's byte pattern -/
theorem isP2SH_cases (s : Bytes) :
    (isP2SH s = .ok true ∧ ∃ h, h.length = 20 ∧ s = Spec.Script.p2sh h) ∨
    (isP2SH s = .ok false ∧ ¬ ∃ h, h.length = 20 ∧ s = Spec.Script.p2sh h) := by
  by_cases hl : s.length = 23
  · rcases s with _ | ⟨a0, _ | ⟨a1, _ | ⟨a2, _ | ⟨a3, _ | ⟨a4, _ | ⟨a5, _ | ⟨a6, _ | ⟨a7, _ | ⟨a8, _ | ⟨a9, _ | ⟨a10, _ | ⟨a11, _ | ⟨a12, _ | ⟨a13, _ | ⟨a14, _ | ⟨a15, _ | ⟨a16, _ | ⟨a17, _ | ⟨a18, _ | ⟨a19, _ | ⟨a20, _ | ⟨a21, _ | ⟨a22, t⟩⟩⟩⟩⟩⟩⟩⟩⟩⟩⟩⟩⟩⟩⟩⟩⟩⟩⟩⟩⟩⟩⟩
    all_goals (try (simp at hl; done))
    cases t with
    | cons _ _ => simp at hl
    | nil =>
      by_cases hc : a0 = 169 ∧ a1 = 20 ∧ a22 = 135
      · left
        obtain ⟨e0, e1, e22⟩ := hc
        subst e0 e1 e22
        refine ⟨by simp [isP2SH, byteAt, Outcome.bind, script_IsP2SH_0], [a2,a3,a4,a5,a6,a7,a8,a9,a10,a11,a12,a13,a14,a15,a16,a17,a18,a19,a20,a21], rfl, ?_⟩
        simp [Spec.Script.p2sh]
      · right
        refine ⟨?_, ?_⟩
        · simp only [isP2SH, List.length_cons, List.length_nil]
          simp [byteAt, Outcome.bind, script_IsP2SH_0, toNat_eq_iff]
          intros; simp_all
        · rintro ⟨h, hh, e⟩
          rcases h with _ | ⟨b0, _ | ⟨b1, _ | ⟨b2, _ | ⟨b3, _ | ⟨b4, _ | ⟨b5, _ | ⟨b6, _ | ⟨b7, _ | ⟨b8, _ | ⟨b9, _ | ⟨b10, _ | ⟨b11, _ | ⟨b12, _ | ⟨b13, _ | ⟨b14, _ | ⟨b15, _ | ⟨b16, _ | ⟨b17, _ | ⟨b18, _ | ⟨b19, t⟩⟩⟩⟩⟩⟩⟩⟩⟩⟩⟩⟩⟩⟩⟩⟩⟩⟩⟩⟩
          all_goals (try (simp at hh; done))
          cases t with
          | cons _ _ => simp at hh
          | nil =>
            simp [Spec.Script.p2sh] at e
            apply hc
            simp [e]
  · right
    refine ⟨by simp [isP2SH, hl], ?_⟩
    rintro ⟨h, hh, rfl⟩
    exact hl (spec_p2sh_length h hh)

theorem isP2SH_iff (s : Bytes) :
    isP2SH s = .ok true ↔ ∃ h, h.length = 20 ∧ s = Spec.Script.p2sh h := by
  rcases isP2SH_cases s with ⟨h1, h2⟩ | ⟨h1, h2⟩
  · exact ⟨fun _ => h2, fun _ => h1⟩
  · constructor
    · intro h; rw [h1] at h; cases h
    · intro h; exact absurd h h2

theorem isP2SH_total (s : Bytes) : isP2SH s = .ok true ∨ isP2SH s = .ok false := by
  rcases isP2SH_cases s with ⟨h1, _⟩ | ⟨h1, _⟩
  · exact Or.inl h1
  · exact Or.inr h1

theorem isP2SH_length {s : Bytes} (h : isP2SH s = .ok true) : s.length = 23 := by
  obtain ⟨x, hx, rfl⟩ := (isP2SH_iff s).mp h
  exact spec_p2sh_length x hx

/-- the decoder returns the committed hash of the template and fails on everything else -/
theorem decodeP2SH_spec (h : Bytes) (hl : h.length = 20) : decodeP2SH (Spec.Script.p2sh h) = .ok h := by
  have hi : isP2SH (Spec.Script.p2sh h) = .ok true := (isP2SH_iff _).mpr ⟨h, hl, rfl⟩
  rcases h with _ | ⟨b0, _ | ⟨b1, _ | ⟨b2, _ | ⟨b3, _ | ⟨b4, _ | ⟨b5, _ | ⟨b6, _ | ⟨b7, _ | ⟨b8, _ | ⟨b9, _ | ⟨b10, _ | ⟨b11, _ | ⟨b12, _ | ⟨b13, _ | ⟨b14, _ | ⟨b15, _ | ⟨b16, _ | ⟨b17, _ | ⟨b18, _ | ⟨b19, t⟩⟩⟩⟩⟩⟩⟩⟩⟩⟩⟩⟩⟩⟩⟩⟩⟩⟩⟩⟩
  all_goals (try (simp at hl; done))
  cases t with
  | cons _ _ => simp at hl
  | nil =>
    simp only [decodeP2SH, decodeWith, hi, Outcome.bind, script_DecodeP2SH_0]
    simp [sliceOf, Spec.Script.p2sh]

theorem decodeP2SH_err {s : Bytes} (h : ¬ ∃ x, x.length = 20 ∧ s = Spec.Script.p2sh x) : decodeP2SH s = .err := by
  rcases isP2SH_cases s with ⟨_, h2⟩ | ⟨h1, _⟩
  · exact absurd h2 h
  · simp [decodeP2SH, decodeWith, h1, Outcome.bind, script_DecodeP2SH_0]

/-! ### P2WPKH -/

theorem makeP2WPKH_eq_spec (h : Bytes) (hl : h.length = 20) : makeP2WPKH h = .ok (Spec.Script.p2wpkh h) := by
  simp [makeP2WPKH, makeWitnessProgram, pushData, script_PushData_0, hl, Outcome.bind, opByte, Spec.Script.p2wpkh,
    constants_OP_DUP, constants_OP_HASH160, constants_OP_EQUALVERIFY, constants_OP_CHECKSIG,
    constants_OP_EQUAL, constants_OP_0]

theorem spec_p2wpkh_length (h : Bytes) (hl : h.length = 20) : (Spec.Script.p2wpkh h).length = 22 := by
  simp [Spec.Script.p2wpkh, hl]

/-- the recogniser never panics and answers `true` exactly on the template's byte pattern -/
theorem isP2WPKH_cases (s : Bytes) :
    (isP2WPKH s = .ok true ∧ ∃ h, h.length = 20 ∧ s = Spec.Script.p2wpkh h) ∨
    (isP2WPKH s = .ok false ∧ ¬ ∃ h, h.length = 20 ∧ s = Spec.Script.p2wpkh h) := by
  by_cases hl : s.length = 22
  · rcases s with _ | ⟨a0, _ | ⟨a1, _ | ⟨a2, _ | ⟨a3, _ | ⟨a4, _ | ⟨a5, _ | ⟨a6, _ | ⟨a7, _ | ⟨a8, _ | ⟨a9, _ | ⟨a10, _ | ⟨a11, _ | ⟨a12, _ | ⟨a13, _ | ⟨a14, _ | ⟨a15, _ | ⟨a16, _ | ⟨a17, _ | ⟨a18, _ | ⟨a19, _ | ⟨a20, _ | ⟨a21, t⟩⟩⟩⟩⟩⟩⟩⟩⟩⟩⟩⟩⟩⟩⟩⟩⟩⟩⟩⟩⟩⟩
    all_goals (try (simp at hl; done))
    cases t with
    | cons _ _ => simp at hl
    | nil =>
      by_cases hc : a0 = 0 ∧ a1 = 20
      · left
        obtain ⟨e0, e1⟩ := hc
        subst e0 e1
        refine ⟨by simp [isP2WPKH, byteAt, Outcome.bind, script_IsP2WPKH_0], [a2,a3,a4,a5,a6,a7,a8,a9,a10,a11,a12,a13,a14,a15,a16,a17,a18,a19,a20,a21], rfl, ?_⟩
        simp [Spec.Script.p2wpkh]
      · right
        refine ⟨?_, ?_⟩
        · simp only [isP2WPKH, List.length_cons, List.length_nil]
          simp [byteAt, Outcome.bind, script_IsP2WPKH_0, toNat_eq_iff]
          intros; simp_all
        · rintro ⟨h, hh, e⟩
          rcases h with _ | ⟨b0, _ | ⟨b1, _ | ⟨b2, _ | ⟨b3, _ | ⟨b4, _ | ⟨b5, _ | ⟨b6, _ | ⟨b7, _ | ⟨b8, _ | ⟨b9, _ | ⟨b10, _ | ⟨b11, _ | ⟨b12, _ | ⟨b13, _ | ⟨b14, _ | ⟨b15, _ | ⟨b16, _ | ⟨b17, _ | ⟨b18, _ | ⟨b19, t⟩⟩⟩⟩⟩⟩⟩⟩⟩⟩⟩⟩⟩⟩⟩⟩⟩⟩⟩⟩
          all_goals (try (simp at hh; done))
          cases t with
          | cons _ _ => simp at hh
          | nil =>
            simp [Spec.Script.p2wpkh] at e
            apply hc
            simp [e]
  · right
    refine ⟨by simp [isP2WPKH, hl], ?_⟩
    rintro ⟨h, hh, rfl⟩
    exact hl (spec_p2wpkh_length h hh)

theorem isP2WPKH_iff (s : Bytes) :
    isP2WPKH s = .ok true ↔ ∃ h, h.length = 20 ∧ s = Spec.Script.p2wpkh h := by
  rcases isP2WPKH_cases s with ⟨h1, h2⟩ | ⟨h1, h2⟩
  · exact ⟨fun _ => h2, fun _ => h1⟩
  · constructor
    · intro h; rw [h1] at h; cases h
    · intro h; exact absurd h h2

theorem isP2WPKH_total (s : Bytes) : isP2WPKH s = .ok true ∨ isP2WPKH s = .ok false := by
  rcases isP2WPKH_cases s with ⟨h1, _⟩ | ⟨h1, _⟩
  · exact Or.inl h1
  · exact Or.inr h1

theorem isP2WPKH_length {s : Bytes} (h : isP2WPKH s = .ok true) : s.length = 22 := by
  obtain ⟨x, hx, rfl⟩ := (isP2WPKH_iff s).mp h
  exact spec_p2wpkh_length x hx

/-- the decoder returns the committed hash of the template and fails on everything else -/
theorem decodeP2WPKH_spec (h : Bytes) (hl : h.length = 20) : decodeP2WPKH (Spec.Script.p2wpkh h) = .ok h := by
  have hi : isP2WPKH (Spec.Script.p2wpkh h) = .ok true := (isP2WPKH_iff _).mpr ⟨h, hl, rfl⟩
  rcases h with _ | ⟨b0, _ | ⟨b1, _ | ⟨b2, _ | ⟨b3, _ | ⟨b4, _ | ⟨b5, _ | ⟨b6, _ | ⟨b7, _ | ⟨b8, _ | ⟨b9, _ | ⟨b10, _ | ⟨b11, _ | ⟨b12, _ | ⟨b13, _ | ⟨b14, _ | ⟨b15, _ | ⟨b16, _ | ⟨b17, _ | ⟨b18, _ | ⟨b19, t⟩⟩⟩⟩⟩⟩⟩⟩⟩⟩⟩⟩⟩⟩⟩⟩⟩⟩⟩⟩
  all_goals (try (simp at hl; done))
  cases t with
  | cons _ _ => simp at hl
  | nil =>
    simp only [decodeP2WPKH, decodeWith, hi, Outcome.bind, script_DecodeP2WPKH_0]
    simp [sliceOf, Spec.Script.p2wpkh]

theorem decodeP2WPKH_err {s : Bytes} (h : ¬ ∃ x, x.length = 20 ∧ s = Spec.Script.p2wpkh x) : decodeP2WPKH s = .err := by
  rcases isP2WPKH_cases s with ⟨_, h2⟩ | ⟨h1, _⟩
  · exact absurd h2 h
  · simp [decodeP2WPKH, decodeWith, h1, Outcome.bind, script_DecodeP2WPKH_0]

/-! ### P2WSH -/

theorem makeP2WSH_eq_spec (h : Bytes) (hl : h.length = 32) : makeP2WSH h = .ok (Spec.Script.p2wsh h) := by
  simp [makeP2WSH, makeWitnessProgram, pushData, script_PushData_0, hl, Outcome.bind, opByte, Spec.Script.p2wsh,
    constants_OP_DUP, constants_OP_HASH160, constants_OP_EQUALVERIFY, constants_OP_CHECKSIG,
    constants_OP_EQUAL, constants_OP_0]

theorem spec_p2wsh_length (h : Bytes) (hl : h.length = 32) : (Spec.Script.p2wsh h).length = 34 := by
  simp [Spec.Script.p2wsh, hl]

/-- the recogniser never panics and answers `true` exactly on the template's byte pattern -/
theorem isP2WSH_cases (s : Bytes) :
    (isP2WSH s = .ok true ∧ ∃ h, h.length = 32 ∧ s = Spec.Script.p2wsh h) ∨
    (isP2WSH s = .ok false ∧ ¬ ∃ h, h.length = 32 ∧ s = Spec.Script.p2wsh h) := by
  by_cases hl : s.length = 34
  · rcases s with _ | ⟨a0, _ | ⟨a1, _ | ⟨a2, _ | ⟨a3, _ | ⟨a4, _ | ⟨a5, _ | ⟨a6, _ | ⟨a7, _ | ⟨a8, _ | ⟨a9, _ | ⟨a10, _ | ⟨a11, _ | ⟨a12, _ | ⟨a13, _ | ⟨a14, _ | ⟨a15, _ | ⟨a16, _ | ⟨a17, _ | ⟨a18, _ | ⟨a19, _ | ⟨a20, _ | ⟨a21, _ | ⟨a22, _ | ⟨a23, _ | ⟨a24, _ | ⟨a25, _ | ⟨a26, _ | ⟨a27, _ | ⟨a28, _ | ⟨a29, _ | ⟨a30, _ | ⟨a31, _ | ⟨a32, _ | ⟨a33, t⟩⟩⟩⟩⟩⟩⟩⟩⟩⟩⟩⟩⟩⟩⟩⟩⟩⟩⟩⟩⟩⟩⟩⟩⟩⟩⟩⟩⟩⟩⟩⟩⟩⟩
    all_goals (try (simp at hl; done))
    cases t with
    | cons _ _ => simp at hl
    | nil =>
      by_cases hc : a0 = 0 ∧ a1 = 32
      · left
        obtain ⟨e0, e1⟩ := hc
        subst e0 e1
        refine ⟨by simp [isP2WSH, byteAt, Outcome.bind, script_IsP2WSH_0], [a2,a3,a4,a5,a6,a7,a8,a9,a10,a11,a12,a13,a14,a15,a16,a17,a18,a19,a20,a21,a22,a23,a24,a25,a26,a27,a28,a29,a30,a31,a32,a33], rfl, ?_⟩
        simp [Spec.Script.p2wsh]
      · right
        refine ⟨?_, ?_⟩
        · simp only [isP2WSH, List.length_cons, List.length_nil]
          simp [byteAt, Outcome.bind, script_IsP2WSH_0, toNat_eq_iff]
          intros; simp_all
        · rintro ⟨h, hh, e⟩
          rcases h with _ | ⟨b0, _ | ⟨b1, _ | ⟨b2, _ | ⟨b3, _ | ⟨b4, _ | ⟨b5, _ | ⟨b6, _ | ⟨b7, _ | ⟨b8, _ | ⟨b9, _ | ⟨b10, _ | ⟨b11, _ | ⟨b12, _ | ⟨b13, _ | ⟨b14, _ | ⟨b15, _ | ⟨b16, _ | ⟨b17, _ | ⟨b18, _ | ⟨b19, _ | ⟨b20, _ | ⟨b21, _ | ⟨b22, _ | ⟨b23, _ | ⟨b24, _ | ⟨b25, _ | ⟨b26, _ | ⟨b27, _ | ⟨b28, _ | ⟨b29, _ | ⟨b30, _ | ⟨b31, t⟩⟩⟩⟩⟩⟩⟩⟩⟩⟩⟩⟩⟩⟩⟩⟩⟩⟩⟩⟩⟩⟩⟩⟩⟩⟩⟩⟩⟩⟩⟩⟩
          all_goals (try (simp at hh; done))
          cases t with
          | cons _ _ => simp at hh
          | nil =>
            simp [Spec.Script.p2wsh] at e
            apply hc
            simp [e]
  · right
    refine ⟨by simp [isP2WSH, hl], ?_⟩
    rintro ⟨h, hh, rfl⟩
    exact hl (spec_p2wsh_length h hh)

theorem isP2WSH_iff (s : Bytes) :
    isP2WSH s = .ok true ↔ ∃ h, h.length = 32 ∧ s = Spec.Script.p2wsh h := by
  rcases isP2WSH_cases s with ⟨h1, h2⟩ | ⟨h1, h2⟩
  · exact ⟨fun _ => h2, fun _ => h1⟩
  · constructor
    · intro h; rw [h1] at h; cases h
    · intro h; exact absurd h h2

theorem isP2WSH_total (s : Bytes) : isP2WSH s = .ok true ∨ isP2WSH s = .ok false := by
  rcases isP2WSH_cases s with ⟨h1, _⟩ | ⟨h1, _⟩
  · exact Or.inl h1
  · exact Or.inr h1

theorem isP2WSH_length {s : Bytes} (h : isP2WSH s = .ok true) : s.length = 34 := by
  obtain ⟨x, hx, rfl⟩ := (isP2WSH_iff s).mp h
  exact spec_p2wsh_length x hx

/-- the decoder returns the committed hash of the template and fails on everything else -/
theorem decodeP2WSH_spec (h : Bytes) (hl : h.length = 32) : decodeP2WSH (Spec.Script.p2wsh h) = .ok h := by
  have hi : isP2WSH (Spec.Script.p2wsh h) = .ok true := (isP2WSH_iff _).mpr ⟨h, hl, rfl⟩
  rcases h with _ | ⟨b0, _ | ⟨b1, _ | ⟨b2, _ | ⟨b3, _ | ⟨b4, _ | ⟨b5, _ | ⟨b6, _ | ⟨b7, _ | ⟨b8, _ | ⟨b9, _ | ⟨b10, _ | ⟨b11, _ | ⟨b12, _ | ⟨b13, _ | ⟨b14, _ | ⟨b15, _ | ⟨b16, _ | ⟨b17, _ | ⟨b18, _ | ⟨b19, _ | ⟨b20, _ | ⟨b21, _ | ⟨b22, _ | ⟨b23, _ | ⟨b24, _ | ⟨b25, _ | ⟨b26, _ | ⟨b27, _ | ⟨b28, _ | ⟨b29, _ | ⟨b30, _ | ⟨b31, t⟩⟩⟩⟩⟩⟩⟩⟩⟩⟩⟩⟩⟩⟩⟩⟩⟩⟩⟩⟩⟩⟩⟩⟩⟩⟩⟩⟩⟩⟩⟩⟩
  all_goals (try (simp at hl; done))
  cases t with
  | cons _ _ => simp at hl
  | nil =>
    simp only [decodeP2WSH, decodeWith, hi, Outcome.bind, script_DecodeP2WSH_0]
    simp [sliceOf, Spec.Script.p2wsh]

theorem decodeP2WSH_err {s : Bytes} (h : ¬ ∃ x, x.length = 32 ∧ s = Spec.Script.p2wsh x) : decodeP2WSH s = .err := by
  rcases isP2WSH_cases s with ⟨_, h2⟩ | ⟨h1, _⟩
  · exact absurd h2 h
  · simp [decodeP2WSH, decodeWith, h1, Outcome.bind, script_DecodeP2WSH_0]

/-! ### classification -/

theorem classify_p2pkh {s : Bytes} (h : isP2PKH s = .ok true) : classify s = .ok .p2pkh := by
  simp [classify, h, Outcome.bind, script_ClassifyOutput_0]

theorem classify_p2sh {s : Bytes} (h : isP2SH s = .ok true) : classify s = .ok .p2sh := by
  have l := isP2SH_length h
  have a : isP2PKH s = .ok false := by simp [isP2PKH, l]
  simp [classify, a, h, Outcome.bind, script_ClassifyOutput_0, script_ClassifyOutput_1]

theorem classify_p2wpkh {s : Bytes} (h : isP2WPKH s = .ok true) : classify s = .ok .p2wpkh := by
  have l := isP2WPKH_length h
  have a : isP2PKH s = .ok false := by simp [isP2PKH, l]
  have b : isP2SH s = .ok false := by simp [isP2SH, l]
  simp [classify, a, b, h, Outcome.bind, script_ClassifyOutput_0, script_ClassifyOutput_1,
    script_ClassifyOutput_2]

theorem classify_p2wsh {s : Bytes} (h : isP2WSH s = .ok true) : classify s = .ok .p2wsh := by
  have l := isP2WSH_length h
  have a : isP2PKH s = .ok false := by simp [isP2PKH, l]
  have b : isP2SH s = .ok false := by simp [isP2SH, l]
  have c : isP2WPKH s = .ok false := by simp [isP2WPKH, l]
  simp [classify, a, b, c, h, Outcome.bind, script_ClassifyOutput_0, script_ClassifyOutput_1,
    script_ClassifyOutput_2, script_ClassifyOutput_3]

theorem classify_nonstandard {s : Bytes} (a : isP2PKH s = .ok false) (b : isP2SH s = .ok false)
    (c : isP2WPKH s = .ok false) (d : isP2WSH s = .ok false) : classify s = .ok .nonstandard := by
  simp [classify, a, b, c, d, Outcome.bind, script_ClassifyOutput_0, script_ClassifyOutput_1,
    script_ClassifyOutput_2, script_ClassifyOutput_3]

/-- the number of recognisers that accept `s` -/
def acceptCount (s : Bytes) : Nat :=
  (if isP2PKH s = .ok true then 1 else 0) + (if isP2SH s = .ok true then 1 else 0) +
  (if isP2WPKH s = .ok true then 1 else 0) + (if isP2WSH s = .ok true then 1 else 0)

theorem acceptCount_le_one (s : Bytes) : acceptCount s ≤ 1 := by
  unfold acceptCount
  by_cases a : isP2PKH s = .ok true <;> by_cases b : isP2SH s = .ok true <;>
    by_cases c : isP2WPKH s = .ok true <;> by_cases d : isP2WSH s = .ok true <;>
    simp only [a, b, c, d, if_true, if_false] <;>
    first
      | omega
      | (exfalso
         have := fun h => isP2PKH_length (s := s) h
         have := fun h => isP2SH_length (s := s) h
         have := fun h => isP2WPKH_length (s := s) h
         have := fun h => isP2WSH_length (s := s) h
         simp_all)

/-- `ClassifyOutput` names a template exactly when that template's recogniser accepts -/
theorem classify_spec (s : Bytes) :
    (classify s = .ok .p2pkh ↔ isP2PKH s = .ok true) ∧
    (classify s = .ok .p2sh ↔ isP2SH s = .ok true) ∧
    (classify s = .ok .p2wpkh ↔ isP2WPKH s = .ok true) ∧
    (classify s = .ok .p2wsh ↔ isP2WSH s = .ok true) ∧
    (classify s = .ok .nonstandard ↔
      (isP2PKH s = .ok false ∧ isP2SH s = .ok false ∧ isP2WPKH s = .ok false ∧ isP2WSH s = .ok false)) := by
  rcases isP2PKH_total s with a | a
  · have l := isP2PKH_length a
    have b : isP2SH s = .ok false := by simp [isP2SH, l]
    have c : isP2WPKH s = .ok false := by simp [isP2WPKH, l]
    have d : isP2WSH s = .ok false := by simp [isP2WSH, l]
    simp [classify_p2pkh a, a, b, c, d]
  · rcases isP2SH_total s with b | b
    · have l := isP2SH_length b
      have c : isP2WPKH s = .ok false := by simp [isP2WPKH, l]
      have d : isP2WSH s = .ok false := by simp [isP2WSH, l]
      simp [classify_p2sh b, a, b, c, d]
    · rcases isP2WPKH_total s with c | c
      · have l := isP2WPKH_length c
        have d : isP2WSH s = .ok false := by simp [isP2WSH, l]
        simp [classify_p2wpkh c, a, b, c, d]
      · rcases isP2WSH_total s with d | d
        · simp [classify_p2wsh d, a, b, c, d]
        · simp [classify_nonstandard a b c d, a, b, c, d]

end BtcVerif.Proofs.Script
