/-
  C11 — helper lemmas, part 3: the frame `30 len 02 |r| r 02 |s| s ht`, the encoder
  (Model/DER.encode) and the two round trips.
-/
import BtcVerif.Proofs.DERInt
namespace BtcVerif.Model.DER
open BtcVerif BtcVerif.Gen.Guards BtcVerif.Spec

/-- `0x30 len 0x02 |r| r 0x02 |s| s ht` -/
def frame (rb sb : Bytes) (ht : UInt8) : Bytes :=
  0x30 :: byteOf (rb.length + sb.length + 4) :: 0x02 :: byteOf rb.length ::
    (rb ++ 0x02 :: byteOf sb.length :: (sb ++ [ht]))

theorem frame_length (rb sb : Bytes) (ht : UInt8) :
    (frame rb sb ht).length = rb.length + sb.length + 7 := by
  simp [frame]; omega

theorem byteOf_toNat {n : Nat} (h : n < 256) : (byteOf n).toNat = n := by
  unfold byteOf
  simp [UInt8.toNat_ofNat']; omega

theorem byteOf_of_toNat (b : UInt8) : byteOf b.toNat = b := by
  apply UInt8.toNat_inj.mp
  exact byteOf_toNat b.toNat_lt

theorem A_cons_succ (b : UInt8) (bs : Bytes) (i : Nat) : A (b :: bs) (i + 1) = A bs i := by
  simp [A, sigAt]

theorem A_cons_zero (b : UInt8) (bs : Bytes) : A (b :: bs) 0 = b.toNat := by
  simp [A, sigAt]

theorem A_append_right (xs ys : Bytes) (j : Nat) : A (xs ++ ys) (xs.length + j) = A ys j := by
  unfold A sigAt
  congr 1
  simp only [List.getD_eq_getElem?_getD]
  rw [List.getElem?_append_right (by omega)]
  congr 2; omega

theorem A_append_left (xs ys : Bytes) (j : Nat) (h : j < xs.length) : A (xs ++ ys) j = A xs j := by
  unfold A sigAt
  congr 1
  simp only [List.getD_eq_getElem?_getD]
  rw [List.getElem?_append_left h]

theorem A_frame_4plus (rb sb : Bytes) (ht : UInt8) (j : Nat) :
    A (frame rb sb ht) (4 + j) = A (rb ++ 0x02 :: byteOf sb.length :: (sb ++ [ht])) j := by
  unfold frame
  rw [show 4 + j = j + 1 + 1 + 1 + 1 by omega]
  simp only [A_cons_succ]

theorem drop_frame_4 (rb sb : Bytes) (ht : UInt8) :
    (frame rb sb ht).drop 4 = rb ++ 0x02 :: byteOf sb.length :: (sb ++ [ht]) := rfl

theorem drop_frame_6 (rb sb : Bytes) (ht : UInt8) :
    (frame rb sb ht).drop (6 + rb.length) = sb ++ [ht] := by
  rw [show 6 + rb.length = 4 + (rb.length + 2) by omega, ← List.drop_drop, drop_frame_4,
    ← List.drop_drop, List.drop_left' rfl]
  rfl

theorem valid_frame (rb sb : Bytes) (ht : UInt8) (hr : IntOK rb) (hs : IntOK sb)
    (hr0 : rb ≠ []) (hs0 : sb ≠ []) (hlen : rb.length + sb.length + 7 ≤ 73) :
    Valid (frame rb sb ht) ∧ fields (frame rb sb ht) = ⟨beNat rb, beNat sb, ht.toNat⟩ := by
  have hrl : 0 < rb.length := List.length_pos_iff.mpr hr0
  have hsl : 0 < sb.length := List.length_pos_iff.mpr hs0
  have a0 : A (frame rb sb ht) 0 = 48 := rfl
  have a1 : A (frame rb sb ht) 1 = rb.length + sb.length + 4 := by
    show (byteOf _).toNat = _
    exact byteOf_toNat (by omega)
  have a2 : A (frame rb sb ht) 2 = 2 := rfl
  have a3 : A (frame rb sb ht) 3 = rb.length := by
    show (byteOf _).toNat = _
    exact byteOf_toNat (by omega)
  have a4 : A (frame rb sb ht) (4 + rb.length) = 2 := by
    rw [A_frame_4plus, show rb.length = rb.length + 0 by rfl, A_append_right]; rfl
  have a5 : A (frame rb sb ht) (5 + rb.length) = sb.length := by
    rw [show 5 + rb.length = 4 + (rb.length + 1) by omega, A_frame_4plus, A_append_right]
    show (byteOf _).toNat = _
    exact byteOf_toNat (by omega)
  have hl := frame_length rb sb ht
  have erb : rB (frame rb sb ht) = rb := by
    unfold rB; rw [a3, drop_frame_4, List.take_left' rfl]
  have esb : sB (frame rb sb ht) = sb := by
    unfold sB; rw [a3, a5, drop_frame_6, List.take_left' rfl]
  have alast : A (frame rb sb ht) ((frame rb sb ht).length - 1) = ht.toNat := by
    rw [hl, show rb.length + sb.length + 7 - 1 = 4 + (rb.length + (2 + (sb.length + 0))) by omega,
      A_frame_4plus, A_append_right, show 2 + (sb.length + 0) = (sb.length + 0) + 1 + 1 by omega,
      A_cons_succ, A_cons_succ]
    have := A_append_right sb [ht] 0
    rw [Nat.add_zero] at this
    rw [this]; rfl
  constructor
  · refine ⟨⟨by omega, by omega, a0, by omega, a2, by omega, by omega⟩, ?_, ?_⟩
    · rw [erb]; exact hr
    · unfold SOK
      rw [a3, a4, a5]
      refine ⟨rfl, by omega, by omega, ?_⟩
      have := esb; unfold sB at this; rw [a3, a5] at this
      rw [this]; exact hs
  · unfold fields
    rw [erb, esb, alast]


theorem getD_eq_byteOf_A (bs : Bytes) (i : Nat) : bs.getD i 0 = byteOf (A bs i) :=
  (byteOf_of_toNat _).symm

theorem drop_eq_cons {bs : Bytes} {i : Nat} (h : i < bs.length) :
    bs.drop i = byteOf (A bs i) :: bs.drop (i + 1) := by
  rw [List.drop_eq_getElem_cons h, ← getD_eq_byteOf_A]
  congr 1
  simp [List.getD_eq_getElem?_getD, List.getElem?_eq_getElem h]

theorem drop_split (bs : Bytes) (i k : Nat) :
    bs.drop i = (bs.drop i).take k ++ bs.drop (i + k) := by
  have := (List.take_append_drop k (bs.drop i)).symm
  rwa [List.drop_drop] at this

/-- an accepted string is the frame around its two integers and its last byte -/
theorem frame_of_valid (bs : Bytes) (h : Valid bs) :
    bs = frame (rB bs) (sB bs) (byteOf (A bs (bs.length - 1))) ∧
      IntOK (rB bs) ∧ IntOK (sB bs) ∧ rB bs ≠ [] ∧ sB bs ≠ [] ∧
      (rB bs).length + (sB bs).length + 7 = bs.length := by
  obtain ⟨⟨h1, h2, h3, h4, h5, h6, h7⟩, hr, h8, h9, h10, hs⟩ := h
  have lr : (rB bs).length = A bs 3 := sub_length (by omega)
  have ls : (sB bs).length = A bs (5 + A bs 3) := sub_length (by omega)
  refine ⟨?_, hr, hs, ?_, ?_, by omega⟩
  · -- peel the string from the front
    have d0 := drop_eq_cons (bs := bs) (i := 0) (by omega)
    have d1 := drop_eq_cons (bs := bs) (i := 1) (by omega)
    have d2 := drop_eq_cons (bs := bs) (i := 2) (by omega)
    have d3 := drop_eq_cons (bs := bs) (i := 3) (by omega)
    have d4 : bs.drop 4 = rB bs ++ bs.drop (4 + A bs 3) := drop_split bs 4 _
    have d5 := drop_eq_cons (bs := bs) (i := 4 + A bs 3) (by omega)
    have d6 := drop_eq_cons (bs := bs) (i := 4 + A bs 3 + 1) (by omega)
    have d7 : bs.drop (6 + A bs 3) = sB bs ++ bs.drop (6 + A bs 3 + A bs (5 + A bs 3)) :=
      drop_split bs _ _
    have d8 := drop_eq_cons (bs := bs) (i := bs.length - 1) (by omega)
    have d9 : bs.drop (bs.length - 1 + 1) = [] := List.drop_eq_nil_of_le (by omega)
    rw [List.drop_zero] at d0
    rw [show 4 + A bs 3 + 1 + 1 = 6 + A bs 3 by omega] at d6
    rw [show 6 + A bs 3 + A bs (5 + A bs 3) = bs.length - 1 by omega] at d7
    rw [show 4 + A bs 3 + 1 = 5 + A bs 3 by omega] at d6 d5
    conv => lhs; rw [d0, d1, d2, d3, d4, d5, d6, d7, d8, d9]
    unfold frame
    rw [h3, h4, h5, h8, lr, ls]
    have : bs.length - 3 = A bs 3 + A bs (5 + A bs 3) + 4 := by omega
    rw [this]
    rfl
  · intro e; rw [e] at lr; simp at lr; omega
  · intro e; rw [e] at ls; simp at ls; omega


/-! ### EncodeBigInt -/

/-- the integers `EncodeBigInt` accepts -/
def Encodable (v : Option Int) : Prop := ∃ z, v = some z ∧ 0 ≤ z ∧ z < 2 ^ 256

theorem checkEncodable_none : checkEncodable none = .err := rfl

theorem natAbs_lt_iff {z : Int} (h0 : 0 ≤ z) : z.natAbs < 2 ^ 256 ↔ z < 2 ^ 256 := by
  omega

theorem checkEncodable_ok {z : Int} (h0 : 0 ≤ z) (h1 : z < 2 ^ 256) :
    checkEncodable (some z) = .ok () := by
  unfold checkEncodable der_CheckEncodableBigInt_0
  have hb : bitLen z.natAbs ≤ 256 := (bitLen_le_iff _ _).mpr ((natAbs_lt_iff h0).mpr h1)
  have hs : z.sign ≠ -1 := by
    intro h; have := Int.sign_eq_neg_one_iff_neg.mp h; omega
  have hb' : ¬ ((bitLen z.natAbs : Int) > 256) := by omega
  simp [hb', hs]

theorem checkEncodable_err {z : Int} (h : ¬ (0 ≤ z ∧ z < 2 ^ 256)) :
    checkEncodable (some z) = .err := by
  unfold checkEncodable der_CheckEncodableBigInt_0
  by_cases h0 : 0 ≤ z
  · have h1 : ¬ z < 2 ^ 256 := fun h1 => h ⟨h0, h1⟩
    have hb : ¬ bitLen z.natAbs ≤ 256 := fun hb =>
      h1 ((natAbs_lt_iff h0).mp ((bitLen_le_iff _ _).mp hb))
    have hb' : ((bitLen z.natAbs : Int) > 256) := by omega
    simp [hb']
  · have hs : z.sign = -1 := Int.sign_eq_neg_one_iff_neg.mpr (by omega)
    simp [hs]

/-- the pad decision of `EncodeBigInt` produces `content` -/
theorem encodeBigInt_ok {z : Int} (h0 : 0 ≤ z) (h1 : z < 2 ^ 256) :
    encodeBigInt (some z) =
      .ok (0x02 :: byteOf (content z.natAbs).length :: content z.natAbs) := by
  unfold encodeBigInt
  rw [checkEncodable_ok h0 h1]
  simp only [Outcome.bind_ok]
  unfold content
  cases hv : beMin z.natAbs with
  | nil => simp [der_EncodeBigInt_0]; rfl
  | cons b rest =>
    simp only [der_EncodeBigInt_0]
    have hm := and128_eq _ b.toNat_lt
    have hl : ¬ (((b :: rest).length : Int) = 0) := by simp only [List.length_cons]; omega
    by_cases hb : 128 ≤ b.toNat
    · have : (b.toNat &&& 128) = 128 := hm.mpr hb
      simp only [hl, this, hb, decide_true, decide_false, Bool.or_true, if_true]; rfl
    · have : ¬ (b.toNat &&& 128) = 128 := fun h => hb (hm.mp h)
      simp only [hl, this, hb, decide_false, Bool.or_false, if_false, Bool.false_eq_true]; rfl

theorem encodeBigInt_err_none : encodeBigInt none = .err := rfl

theorem encodeBigInt_err {z : Int} (h : ¬ (0 ≤ z ∧ z < 2 ^ 256)) :
    encodeBigInt (some z) = .err := by
  unfold encodeBigInt
  rw [checkEncodable_err h]; rfl


/-! ### EncodeSignature -/

theorem encode_ok {zr zs : Int} {ht : Nat} (hr0 : 0 ≤ zr) (hr1 : zr < 2 ^ 256) (hs0 : 0 ≤ zs)
    (hs1 : zs < 2 ^ 256) (hht : ht ≤ 255) :
    encode (some zr) (some zs) ht =
      .ok (frame (content zr.natAbs) (content zs.natAbs) (byteOf ht)) := by
  unfold encode der_EncodeSignature_0
  have : ¬ ht > 255 := by omega
  simp only [this, decide_false, Bool.false_eq_true, if_false]
  rw [encodeBigInt_ok hr0 hr1, encodeBigInt_ok hs0 hs1]
  simp only [Outcome.bind_ok]
  unfold frame
  simp only [List.length_cons, List.cons_append, List.append_assoc]
  have : (content zr.natAbs).length + 1 + 1 + ((content zs.natAbs).length + 1 + 1) =
      (content zr.natAbs).length + (content zs.natAbs).length + 4 := by omega
  rw [this]
  rfl

theorem encode_err_ht (r s : Option Int) {ht : Nat} (h : 255 < ht) : encode r s ht = .err := by
  unfold encode der_EncodeSignature_0
  simp [h]

theorem encode_err_r {r : Option Int} (s : Option Int) (ht : Nat) (h : ¬ Encodable r) :
    encode r s ht = .err := by
  unfold encode
  split
  · rfl
  · cases r with
    | none => rfl
    | some z =>
      rw [encodeBigInt_err (fun hz => h ⟨z, rfl, hz.1, hz.2⟩)]; rfl

theorem encode_err_s (r : Option Int) {s : Option Int} (ht : Nat) (h : ¬ Encodable s) :
    encode r s ht = .err := by
  by_cases hr : Encodable r
  · obtain ⟨zr, rfl, h0, h1⟩ := hr
    unfold encode
    split
    · rfl
    · rw [encodeBigInt_ok h0 h1]
      simp only [Outcome.bind_ok]
      cases s with
      | none => rfl
      | some z =>
        rw [encodeBigInt_err (fun hz => h ⟨z, rfl, hz.1, hz.2⟩)]; rfl
  · exact encode_err_r s ht hr

/-- `EncodeSignature` succeeds exactly on encodable integers and one-byte hash types, and
    otherwise returns an error (never a panic) -/
theorem encode_cases (r s : Option Int) (ht : Nat) :
    ((Encodable r ∧ Encodable s ∧ ht ≤ 255) ∧ (encode r s ht).isOk = true) ∨
    (¬ (Encodable r ∧ Encodable s ∧ ht ≤ 255) ∧ encode r s ht = .err) := by
  by_cases hr : Encodable r
  · by_cases hs : Encodable s
    · by_cases hh : ht ≤ 255
      · left
        obtain ⟨zr, rfl, hr0, hr1⟩ := hr
        obtain ⟨zs, rfl, hs0, hs1⟩ := hs
        refine ⟨⟨⟨zr, rfl, hr0, hr1⟩, ⟨zs, rfl, hs0, hs1⟩, hh⟩, ?_⟩
        rw [encode_ok hr0 hr1 hs0 hs1 hh]; rfl
      · right; exact ⟨fun h => hh h.2.2, encode_err_ht r s (by omega)⟩
    · right; exact ⟨fun h => hs h.2.1, encode_err_s r ht hs⟩
  · right; exact ⟨fun h => hr h.1, encode_err_r s ht hr⟩

/-! ### round trips -/

theorem content_ne_nil (n : Nat) : content n ≠ [] := by
  intro h; have := (content_length n).1; rw [h] at this; simp at this

/-- what the encoder emits for in-range arguments is accepted, has 9..73 bytes and decodes to the
    arguments -/
theorem decode_frame_content {r s ht : Nat} (hr : r < 2 ^ 256) (hs : s < 2 ^ 256) (hht : ht ≤ 255) :
    Valid (frame (content r) (content s) (byteOf ht)) ∧
    decode (frame (content r) (content s) (byteOf ht)) = .ok ⟨r, s, ht⟩ ∧
    9 ≤ (frame (content r) (content s) (byteOf ht)).length ∧
    (frame (content r) (content s) (byteOf ht)).length ≤ 73 := by
  have lr := content_length_le hr
  have ls := content_length_le hs
  have lr1 := (content_length r).1
  have ls1 := (content_length s).1
  obtain ⟨hv, hf⟩ := valid_frame (content r) (content s) (byteOf ht) (IntOK_content r) (IntOK_content s)
    (content_ne_nil r) (content_ne_nil s) (by omega)
  refine ⟨hv, ?_, by rw [frame_length]; omega, by rw [frame_length]; omega⟩
  rw [(decode_ok_iff _ _).mpr ⟨hv, rfl⟩, hf, beNat_content, beNat_content, byteOf_toNat (by omega)]

/-- re-encoding the fields of an accepted string gives the string back, provided both integers
    are below 2^256 -/
theorem encode_fields_of_valid (bs : Bytes) (h : Valid bs)
    (hr : (fields bs).r < 2 ^ 256) (hs : (fields bs).s < 2 ^ 256) :
    encode (some ((fields bs).r : Int)) (some ((fields bs).s : Int)) (fields bs).ht = .ok bs := by
  obtain ⟨hf, ir, is, nr, ns, _⟩ := frame_of_valid bs h
  have hht : (fields bs).ht ≤ 255 := by
    have := A_lt bs (bs.length - 1)
    show A bs (bs.length - 1) ≤ 255
    omega
  rw [encode_ok (Int.natCast_nonneg _) (by exact_mod_cast hr) (Int.natCast_nonneg _) (by exact_mod_cast hs) hht]
  simp only [Int.natAbs_natCast]
  show Outcome.ok (frame (content (beNat (rB bs))) (content (beNat (sB bs))) (byteOf (A bs (bs.length - 1)))) = _
  rw [content_beNat _ nr ir, content_beNat _ ns is, ← hf]

end BtcVerif.Model.DER
