/-
  Helper lemmas for C08 (Bech32), part 5: the two round trips of `Encode` / `Decode`. Core Lean only.
-/
import BtcVerif.Proofs.Bech32Codec

namespace BtcVerif.Proofs.Bech32
open BtcVerif BtcVerif.Model BtcVerif.Model.Bech32 BtcVerif.Gen BtcVerif.Gen.Guards

/-! ### regrouping -/

/-- groups that join to the bits of `data` followed by fewer than five zero bits regroup to `data` -/
theorem regroup_of_bytes (G : List Bits) (data : Bytes) (k : Nat) (hk : k < 5)
    (hG : G.flatten = bytesToBits data ++ List.replicate k false) : regroup G = .ok data := by
  unfold regroup
  simp only [hG, bech32_BitGroupSize]
  have hl : (bytesToBits data ++ List.replicate k false).length = 8 * data.length + k := by
    simp [bytesToBits_length]
  have hpad : (8 * data.length + k) % 8 = k := by omega
  rw [hl, hpad]
  have hsub : 8 * data.length + k - k = (bytesToBits data).length := by rw [bytesToBits_length]; omega
  rw [hsub, List.drop_left, List.take_left]
  have htrim : trim (List.replicate k false) = [] := by
    rw [trim_eq_nil_iff, bitsToNat_replicate_false]
  rw [htrim]
  have : ¬ (k ≥ 5 ∨ ([] : Bits).length ≠ 0) := by simp; omega
  rw [if_neg this]
  exact bitsBytes_bytesToBits data

/-- canonicity of the regrouping: what it accepts is exactly the 5-bit grouping of its result -/
theorem regroup_canonical (G : List Bits) (hG5 : ∀ g ∈ G, g.length = 5) (hne : G ≠ []) (d : Bytes)
    (h : regroup G = .ok d) : d ≠ [] ∧ bytesToIndices d = G.map bitsToNat := by
  unfold regroup at h
  simp only [] at h
  have h5 : bech32_BitGroupSize = 5 := rfl
  have hlen := flatten_length_uniform 5 G hG5
  generalize hB : G.flatten = B at h hlen
  have hm : 1 ≤ G.length := by cases G with
    | nil => exact absurd rfl hne
    | cons _ _ => simp
  by_cases hcond : B.length % 8 ≥ bech32_BitGroupSize ∨ (trim (B.drop (B.length - B.length % 8))).length ≠ 0
  · rw [if_pos hcond] at h; cases h
  · rw [if_neg hcond] at h
    have hnp : B.length % 8 < 5 := by omega
    have htrim : trim (B.drop (B.length - B.length % 8)) = [] := by
      cases ht : trim (B.drop (B.length - B.length % 8)) with
      | nil => rfl
      | cons _ _ => rw [ht] at hcond; simp at hcond
    have hzeros := (trim_eq_nil_iff_all_false _).mp htrim
    have hdl : (B.drop (B.length - B.length % 8)).length = B.length % 8 := by
      simp only [List.length_drop]
      have := Nat.mod_le B.length 8
      omega
    rw [hdl] at hzeros
    have h8 : (B.take (B.length - B.length % 8)).length % 8 = 0 := by
      simp only [List.length_take]
      have := Nat.mod_le B.length 8
      omega
    have hbits := bytesToBits_of_bitsBytes _ h8 d h
    have hdlen := bitsBytes_length _ h8 d h
    have htl : (B.take (B.length - B.length % 8)).length = B.length - B.length % 8 := by
      simp only [List.length_take]
      have := Nat.mod_le B.length 8
      omega
    -- at least one whole byte
    have hpos : 8 ≤ B.length - B.length % 8 := by omega
    have hdne : d ≠ [] := by
      intro hd
      rw [hd] at hdlen
      rw [htl] at hdlen
      simp at hdlen
      omega
    refine ⟨hdne, ?_⟩
    have hbl : (bytesToBits d).length ≠ 0 := by rw [hbits, htl]; omega
    obtain ⟨k, hk, hpadr, hmod⟩ := padRight5 (bytesToBits d) hbl
    have hkeq : k = B.length % 8 := by
      rw [hbits, htl] at hmod
      omega
    unfold bytesToIndices
    simp only [bech32_BitGroupSize]
    rw [hpadr, hbits, hkeq, ← hzeros, List.take_append_drop, ← hB, split_flatten 5 (by decide) G hG5]

/-! ### decode ∘ encode -/

/-- a human-readable part that `Validate` admits and `Decode` returns unchanged -/
structure ValidHrp (hrp : Bytes) : Prop where
  ne : hrp ≠ []
  range : ∀ c ∈ hrp, 33 ≤ c.toNat ∧ c.toNat ≤ 126
  lowercase : lower hrp = hrp

theorem map_achar_props (vals : List Nat) (h : ∀ v ∈ vals, v < 32) :
    (vals.map achar).map alphaIndex = vals ∧ sepChar ∉ vals.map achar ∧
    (∀ c ∈ vals.map achar, 33 ≤ c.toNat ∧ c.toNat ≤ 126) ∧
    (∀ c ∈ vals.map achar, alphabet.contains (lowerByte c) = true) ∧
    lower (vals.map achar) = vals.map achar ∧
    (vals.map achar).map charBits = vals.map bits5 := by
  refine ⟨?_, ?_, ?_, ?_, ?_, ?_⟩
  · rw [List.map_map]
    conv => rhs; rw [← List.map_id vals]
    apply List.map_congr_left
    intro v hv; exact (achar_facts v (h v hv)).2.1
  · intro hm
    rw [List.mem_map] at hm
    obtain ⟨v, hv, he⟩ := hm
    exact (achar_facts v (h v hv)).2.2.1 he
  · intro c hm
    rw [List.mem_map] at hm
    obtain ⟨v, hv, rfl⟩ := hm
    have := achar_facts v (h v hv)
    exact ⟨this.2.2.2.1, this.2.2.2.2.1⟩
  · intro c hm
    rw [List.mem_map] at hm
    obtain ⟨v, hv, rfl⟩ := hm
    have := achar_facts v (h v hv)
    rw [this.2.2.2.2.2.1]; exact this.2.2.2.2.2.2
  · unfold lower
    rw [List.map_map]
    apply List.map_congr_left
    intro v hv; exact (achar_facts v (h v hv)).2.2.2.2.2.1
  · rw [List.map_map]
    apply List.map_congr_left
    intro v hv
    simp only [Function.comp, charBits_eq, (achar_facts v (h v hv)).2.1]

theorem decode_encode (hrp : Bytes) (version : Nat) (data : Bytes) (hh : ValidHrp hrp)
    (hv : version < 32) (hne : data ≠ [])
    (hlen : hrp.length + 1 + (1 + (bytesToIndices data).length) + 6 ≤ 90) :
    ∃ s, encode hrp version data = .ok s ∧ decode s = .ok (hrp, version, data) := by
  refine ⟨_, encode_normal hrp version data hne hv hlen, ?_⟩
  obtain ⟨k, hk, hflat, hvals, hcount⟩ := bytesToIndices_facts data hne
  generalize hidx : bytesToIndices data = idx at *
  have hvals' : ∀ v ∈ version :: idx, v < 32 := by
    intro v hm
    simp only [List.mem_cons] at hm
    rcases hm with hm | hm
    · subst hm; exact hv
    · exact hvals v hm
  have hcks := createChecksum_lt hrp (version :: idx)
  have hckl := createChecksum_length hrp (version :: idx)
  generalize hcs : createChecksum hrp (version :: idx) = cks at *
  have hall : ∀ v ∈ (version :: idx) ++ cks, v < 32 := by
    intro v hm
    rw [List.mem_append] at hm
    rcases hm with hm | hm
    · exact hvals' v hm
    · exact hcks v hm
  obtain ⟨p1, p2, p3, p4, p5, _⟩ := map_achar_props _ hall
  generalize hchars : ((version :: idx) ++ cks).map achar = chars at *
  have hcl : chars.length = 1 + idx.length + 6 := by
    rw [← hchars]; simp [hckl]; omega
  have hhl : 1 ≤ hrp.length := by
    cases hrp with
    | nil => exact absurd rfl hh.ne
    | cons _ _ => simp
  have hsepl : lowerByte sepChar = sepChar := by decide
  have hs : hrp ++ [sepChar] ++ chars = hrp ++ sepChar :: chars := by simp
  -- the string is valid, with the separator right after the hrp
  have hvalid : ValidAt (hrp ++ [sepChar] ++ chars) hrp.length := by
    refine ⟨?_, hhl, ?_, ?_, ?_, ?_, ?_⟩
    · rw [hs]; exact rfind_append sepChar hrp chars p2
    · simp only [List.length_append, List.length_cons, List.length_nil, hcl]; omega
    · simp only [List.length_append, List.length_cons, List.length_nil, hcl]; omega
    · intro c hm
      simp only [List.mem_append, List.mem_cons, List.mem_nil_iff, or_false] at hm
      rcases hm with (hm | hm) | hm
      · exact hh.range c hm
      · subst hm; all_goals decide
      · exact p3 c hm
    · have hd : (hrp ++ [sepChar] ++ chars).drop (hrp.length + 1) = chars :=
        List.drop_left' (by simp)
      rw [hd]; exact p4
    · left
      simp only [lower, List.map_append, List.map_cons, List.map_nil, hsepl]
      have h1 : hrp.map lowerByte = hrp := hh.lowercase
      have h2 : chars.map lowerByte = chars := p5
      rw [h1, h2]
  rw [decode_normal _ _ hvalid]
  have hlow : lower (hrp ++ [sepChar] ++ chars) = hrp ++ [sepChar] ++ chars := by
    simp only [lower, List.map_append, List.map_cons, List.map_nil, hsepl]
    have h1 : hrp.map lowerByte = hrp := hh.lowercase
    have h2 : chars.map lowerByte = chars := p5
    rw [h1, h2]
  rw [hlow]
  have htake : (hrp ++ [sepChar] ++ chars).take hrp.length = hrp := by
    rw [List.append_assoc]; exact List.take_left' rfl
  have hdrop : (hrp ++ [sepChar] ++ chars).drop (hrp.length + 1) = chars :=
    List.drop_left' (by simp)
  rw [htake, hdrop, p1]
  have hver : verifyChecksum hrp ((version :: idx) ++ cks) = true := by
    rw [← hcs]; exact verify_create hrp (version :: idx) hvals'
  rw [hver]
  simp only [Bool.true_eq_false, if_false]
  have hL : 2 ≤ idx.length := by
    have : data.length ≥ 1 := by
      cases data with
      | nil => exact absurd rfl hne
      | cons _ _ => simp
    omega
  rw [if_neg (by rw [hcl]; omega)]
  -- the payload
  unfold payloadOf
  have hc0 : chars = achar version :: (idx ++ cks).map achar := by rw [← hchars]; rfl
  rw [hc0]
  simp only
  have hmid : ((achar version :: (idx ++ cks).map achar).take
      ((achar version :: (idx ++ cks).map achar).length - 6)).drop 1 = idx.map achar := by
    have : (achar version :: (idx ++ cks).map achar).length - 6 = (achar version :: idx.map achar).length := by
      simp [hckl]
    rw [this, List.map_append, ← List.cons_append, List.take_left]
    rfl
  rw [hmid]
  have hbits : (idx.map achar).map charBits = idx.map bits5 := by
    rw [List.map_map]
    apply List.map_congr_left
    intro v hm
    simp only [Function.comp, charBits_eq, (achar_facts v (hvals v hm)).2.1]
  rw [hbits, regroup_of_bytes _ data k hk hflat, (achar_facts version hv).2.1]

/-! ### encode ∘ decode -/

theorem encode_decode (s hrp : Bytes) (version : Nat) (data : Bytes)
    (hd : decode s = .ok (hrp, version, data)) : encode hrp version data = .ok (lower s) := by
  -- the string passed `Validate`
  have hval : validate s = true := by
    cases hv : validate s with
    | true => rfl
    | false => unfold decode at hd; rw [hv] at hd; simp at hd
  obtain ⟨pos, hvalid⟩ := (validate_iff s).mp hval
  rw [decode_normal s pos hvalid] at hd
  generalize hbech : (lower s).drop (pos + 1) = bech at hd
  split at hd
  · cases hd
  · rename_i hck
    have hck' : verifyChecksum ((lower s).take pos) (bech.map alphaIndex) = true := by simpa using hck
    split at hd
    · cases hd
    · rename_i h8
      unfold payloadOf at hd
      cases hb : bech with
      | nil => rw [hb] at h8; simp at h8
      | cons c0 rest =>
        rw [hb] at hd
        simp only at hd
        rw [← hb] at hd
        cases hr : regroup (((bech.take (bech.length - 6)).drop 1).map charBits) with
        | err => rw [hr] at hd; cases hd
        | panic => rw [hr] at hd; cases hd
        | ok d =>
          rw [hr] at hd
          simp only at hd
          injection hd with hd
          injection hd with hh hd
          injection hd with hvv hdd
          subst hh hvv hdd
          -- the characters of the data part are alphabet characters
          have hsplit := rfind_some sepChar (lower s) pos (by rw [rfind_lower]; exact hvalid.sep)
          have halpha : ∀ c ∈ bech, alphabet.contains c = true := by
            intro c hc
            rw [← hbech] at hc
            unfold lower at hc
            rw [← List.map_drop, List.mem_map] at hc
            obtain ⟨x, hx, rfl⟩ := hc
            exact hvalid.alpha x hx
          have hback : (bech.map alphaIndex).map achar = bech := by
            rw [List.map_map]
            conv => rhs; rw [← List.map_id bech]
            apply List.map_congr_left
            intro c hc
            exact (achar_alphaIndex c (halpha c hc)).1
          have hidxlt : ∀ v ∈ bech.map alphaIndex, v < 32 := by
            intro v hm
            rw [List.mem_map] at hm
            obtain ⟨c, _, rfl⟩ := hm
            exact alphaIndex_lt c
          -- split the values: version, payload values, checksum
          have h8' : 8 ≤ bech.length := by omega
          generalize hmid : (bech.take (bech.length - 6)).drop 1 = mid at hr
          have hbsplit : bech = c0 :: mid ++ bech.drop (bech.length - 6) := by
            have h1 : bech = bech.take (bech.length - 6) ++ bech.drop (bech.length - 6) :=
              (List.take_append_drop _ _).symm
            have h2 : bech.take (bech.length - 6) = c0 :: mid := by
              rw [← hmid]
              obtain ⟨m, hm⟩ : ∃ m, bech.length - 6 = m + 1 := ⟨bech.length - 7, by omega⟩
              rw [hm, hb, List.take_succ_cons]
              rfl
            rw [← h2]; exact h1
          have hmidne : mid ≠ [] := by
            intro hm
            have : (c0 :: mid ++ bech.drop (bech.length - 6)).length = bech.length := by rw [← hbsplit]
            rw [hm] at this
            simp at this
            omega
          have hG5 : ∀ g ∈ mid.map charBits, g.length = 5 := by
            intro g hg
            rw [List.mem_map] at hg
            obtain ⟨c, _, rfl⟩ := hg
            rw [charBits_eq]; exact bits5_length _
          obtain ⟨hdne, hidx⟩ := regroup_canonical (mid.map charBits) hG5 (by simpa using hmidne) d hr
          have hidx' : bytesToIndices d = mid.map alphaIndex := by
            rw [hidx, List.map_map]
            apply List.map_congr_left
            intro c _
            simp only [Function.comp, charBits_eq, bitsToNat_bits5 _ (alphaIndex_lt c)]
          -- the checksum values are the ones Encode computes
          have hvalsplit : bech.map alphaIndex =
              (alphaIndex c0 :: mid.map alphaIndex) ++ (bech.drop (bech.length - 6)).map alphaIndex := by
            conv => lhs; rw [hbsplit]
            simp
          have hcks : (bech.drop (bech.length - 6)).map alphaIndex =
              createChecksum ((lower s).take pos) (alphaIndex c0 :: mid.map alphaIndex) := by
            apply verify_unique
            · intro v hm
              apply hidxlt v
              rw [hvalsplit]; exact List.mem_append_left _ hm
            · simp; omega
            · intro v hm
              apply hidxlt v
              rw [hvalsplit]; exact List.mem_append_right _ hm
            · rw [← hvalsplit]; exact hck'
          have hlenle : ((lower s).take pos).length + 1 + (1 + (bytesToIndices d).length) + 6 ≤ 90 := by
            have h1 : ((lower s).take pos).length = pos := by
              simp only [List.length_take, lower_length]; have := hsplit.1; rw [lower_length] at this; omega
            have h2 : bech.length = (lower s).length - (pos + 1) := by rw [← hbech]; simp
            have h3 : (c0 :: mid ++ bech.drop (bech.length - 6)).length = bech.length := by rw [← hbsplit]
            simp only [List.length_append, List.length_cons, List.length_drop] at h3
            rw [hidx', List.length_map, h1]
            have := hvalid.max
            have := hvalid.room
            rw [lower_length] at h2
            omega
          rw [encode_normal _ _ d hdne (alphaIndex_lt c0) hlenle, hidx', ← hcks, ← hvalsplit, hback]
          congr 1
          rw [hbech] at hsplit
          rw [List.append_assoc]
          exact hsplit.2.1.symm

end BtcVerif.Proofs.Bech32
