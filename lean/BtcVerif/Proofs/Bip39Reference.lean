/-
  C14 — the model of `EncodeToWords` computes the bit-level reference encoding of the standard
  (`Spec.Bip39.encode`: ENT ‖ first ENT/32 bits of SHA256(ENT), split into groups of 11 bits).
-/
import BtcVerif.Proofs.Bip39

namespace BtcVerif.Proofs.Bip39
open BtcVerif BtcVerif.Model.Bip39 BtcVerif.Gen.Guards
open BtcVerif.Spec.Bip39 (bitsOfByte bitsOf natOfBits groups11)

/-! ### the bit-level reference encoding -/

theorem natOfBits_acc (bits : List Bool) (acc : Nat) :
    bits.foldl (fun a b => 2 * a + b.toNat) acc = acc * 2 ^ bits.length + natOfBits bits := by
  induction bits generalizing acc with
  | nil => simp [natOfBits]
  | cons b t ih =>
    simp only [List.foldl_cons, natOfBits, List.length_cons]
    rw [ih, ih (2 * 0 + b.toNat), Nat.pow_succ]
    have : (2 * acc + b.toNat) * 2 ^ t.length = acc * (2 ^ t.length * 2) + b.toNat * 2 ^ t.length := by
      rw [Nat.add_mul, Nat.mul_comm 2 acc, Nat.mul_assoc, Nat.mul_comm 2]
    rw [this]; simp [Nat.add_assoc]

theorem natOfBits_append (a b : List Bool) :
    natOfBits (a ++ b) = natOfBits a * 2 ^ b.length + natOfBits b := by
  simp only [natOfBits, List.foldl_append]
  exact natOfBits_acc b _

theorem natOfBits_lt (bits : List Bool) : natOfBits bits < 2 ^ bits.length := by
  induction bits with
  | nil => simp [natOfBits]
  | cons b t ih =>
    have h := natOfBits_append [b] t
    simp only [List.singleton_append] at h
    rw [h, List.length_cons, Nat.pow_succ]
    have : natOfBits [b] ≤ 1 := by cases b <;> simp [natOfBits]
    have h2 : natOfBits [b] * 2 ^ t.length ≤ 1 * 2 ^ t.length := Nat.mul_le_mul_right _ this
    omega

theorem bitsOfByte_length (b : UInt8) : (bitsOfByte b).length = 8 := by simp [bitsOfByte]

theorem natOfBits_bitsOfByte_nat : ∀ n < 256, natOfBits (bitsOfByte (UInt8.ofNat n)) = n := by
  decide +kernel

theorem natOfBits_bitsOfByte (b : UInt8) : natOfBits (bitsOfByte b) = b.toNat := by
  have := natOfBits_bitsOfByte_nat b.toNat b.toNat_lt
  simpa using this

theorem natOfBits_take_nat : ∀ n < 256, ∀ k < 9,
    natOfBits ((bitsOfByte (UInt8.ofNat n)).take k) = n >>> (8 - k) := by
  decide +kernel

theorem natOfBits_take (b : UInt8) (k : Nat) (hk : k ≤ 8) :
    natOfBits ((bitsOfByte b).take k) = b.toNat >>> (8 - k) := by
  have := natOfBits_take_nat b.toNat b.toNat_lt k (by omega)
  simpa using this


theorem bitsOf_length (bs : Bytes) : (bitsOf bs).length = 8 * bs.length := by
  induction bs with
  | nil => rfl
  | cons b t ih => simp [bitsOf, List.flatMap_cons, bitsOfByte_length] at ih ⊢; omega

theorem natOfBits_bitsOf_rev (l : Bytes) : natOfBits (bitsOf l.reverse) = bytesToNat l.reverse := by
  induction l with
  | nil => rfl
  | cons x l ih =>
    have : bitsOf (l.reverse ++ [x]) = bitsOf l.reverse ++ bitsOfByte x := by
      simp [bitsOf, List.flatMap_append]
    rw [List.reverse_cons, this, natOfBits_append, bytesToNat_snoc, ih, bitsOfByte_length,
      natOfBits_bitsOfByte]

theorem natOfBits_bitsOf (bs : Bytes) : natOfBits (bitsOf bs) = bytesToNat bs := by
  have := natOfBits_bitsOf_rev bs.reverse
  simpa using this

/-- the groups of 11 bits, read as numbers and accumulated, give back the whole bit string -/
theorem accIdx_groups (n : Nat) (bits : List Bool) (hlen : bits.length = 11 * n) (q : Nat) :
    accIdx ((groups11 n bits).map natOfBits) q = q * 2048 ^ n + natOfBits bits := by
  induction n generalizing bits q with
  | zero =>
    have : bits = [] := List.eq_nil_of_length_eq_zero (by omega)
    subst this; simp [groups11, accIdx, natOfBits]
  | succ k ih =>
    have hd : (bits.drop 11).length = 11 * k := by rw [List.length_drop]; omega
    simp only [groups11, List.map_cons, accIdx, List.foldl_cons]
    have := ih (bits.drop 11) hd (q * 2048 + natOfBits (bits.take 11))
    simp only [accIdx] at this
    rw [this]
    have hsplit : natOfBits bits =
        natOfBits (bits.take 11) * 2 ^ (bits.drop 11).length + natOfBits (bits.drop 11) := by
      rw [← natOfBits_append, List.take_append_drop]
    have hp : (2 : Nat) ^ (11 * k) = 2048 ^ k := by
      rw [Nat.pow_mul]
    rw [hsplit, hd, hp, Nat.pow_succ, Nat.add_mul, Nat.mul_assoc, Nat.mul_comm 2048 (2048 ^ k)]
    omega

theorem groups_length (n : Nat) (bits : List Bool) : (groups11 n bits).length = n := by
  induction n generalizing bits with
  | zero => rfl
  | succ k ih => simp [groups11, ih]

theorem groups_lt (n : Nat) (bits : List Bool) :
    ∀ i ∈ (groups11 n bits).map natOfBits, i < 2048 := by
  induction n generalizing bits with
  | zero => intro i hi; simp [groups11] at hi
  | succ k ih =>
    intro i hi
    simp only [groups11, List.map_cons, List.mem_cons] at hi
    rcases hi with rfl | hi
    · have h1 := natOfBits_lt (bits.take 11)
      have h2 : (bits.take 11).length ≤ 11 := by rw [List.length_take]; omega
      have h3 : (2 : Nat) ^ (bits.take 11).length ≤ 2 ^ 11 := Nat.pow_le_pow_right (by decide) h2
      omega
    · exact ih _ i hi

/-- groups of 11 bits are the indices the code computes from the number -/
theorem groups_eq_indices (n : Nat) (bits : List Bool) (hlen : bits.length = 11 * n) :
    (groups11 n bits).map natOfBits = indices n (natOfBits bits) := by
  have h1 := accIdx_groups n bits hlen 0
  have h2 := indices_accIdx _ (groups_lt n bits)
  rw [List.length_map, groups_length, h1] at h2
  simpa using h2.symm

/-- the checksum byte taken from a hash function -/
def csOf (sha256 : Bytes → Bytes) (e : Bytes) : UInt8 :=
  match sha256 e with
  | b :: _ => b
  | [] => 0

theorem sha256First_eq : sha256First = csOf Prim.sha256 := rfl

/-- the indices of the reference encoding are the ones `EncodeToWords` computes -/
theorem spec_indices_eq (sha256 : Bytes → Bytes) (hsha : ∀ x, (sha256 x).length = 32) (e : Bytes)
    (hv : ValidLen e.length) :
    Spec.Bip39.indices sha256 e = indices (e.length * 3 / 4) (payloadOf (csOf sha256) e) := by
  have h1 : e.length * 8 / 32 = e.length / 4 := by omega
  have h8 : e.length / 4 ≤ 8 := by unfold ValidLen at hv; omega
  obtain ⟨h, t, hht⟩ : ∃ h t, sha256 e = h :: t := by
    cases hs : sha256 e with
    | nil => have := hsha e; rw [hs] at this; cases this
    | cons h t => exact ⟨h, t, rfl⟩
  have hcs : csOf sha256 e = h := by simp [csOf, hht]
  have htake : (bitsOf (sha256 e)).take (e.length / 4) = (bitsOfByte h).take (e.length / 4) := by
    rw [hht]
    simp only [bitsOf, List.flatMap_cons]
    rw [List.take_append_of_le_length (by rw [bitsOfByte_length]; exact h8)]
  have hlen : (bitsOf e ++ (bitsOfByte h).take (e.length / 4)).length = 11 * (e.length * 3 / 4) := by
    rw [List.length_append, bitsOf_length, List.length_take, bitsOfByte_length, Nat.min_eq_left h8]
    unfold ValidLen at hv; omega
  unfold Spec.Bip39.indices
  simp only [h1, htake]
  have hn : (bitsOf e ++ (bitsOfByte h).take (e.length / 4)).length / 11 = e.length * 3 / 4 := by
    rw [hlen]; omega
  rw [hn, groups_eq_indices _ _ hlen, natOfBits_append, natOfBits_bitsOf, natOfBits_take _ _ h8,
    List.length_take, bitsOfByte_length, Nat.min_eq_left h8]
  simp only [payloadOf, csBits, hcs]

theorem mapM_lookup (wl : List Bytes) (is : List Nat) (ws : List Bytes) :
    is.mapM (fun i => wl[i]?) = some ws ↔ lookupAll wl is = .ok ws := by
  induction is generalizing ws with
  | nil => simp [lookupAll]
  | cons i is ih =>
    simp only [List.mapM_cons, lookupAll]
    cases hi : wl[i]? with
    | none => simp
    | some w =>
      cases hr : is.mapM (fun i => wl[i]?) with
      | none =>
        have : ∀ ws', lookupAll wl is ≠ .ok ws' := fun ws' h => by
          have := (ih ws').mpr h; rw [hr] at this; cases this
        cases hl : lookupAll wl is with
        | ok ws' => exact absurd hl (this ws')
        | err => simp
        | panic => simp
      | some ws' =>
        have := (ih ws').mp hr
        simp [this]

/-- **the mnemonic equals the BIP39 reference encoding**: for every hash function with 32-byte
    output, `EncodeToWords` (with the first hash byte as checksum byte) yields exactly the words of
    the bit-level definition of the standard, and refuses exactly the sizes the standard excludes -/
theorem encode_eq_reference (wl : List Bytes) (sha256 : Bytes → Bytes)
    (hsha : ∀ x, (sha256 x).length = 32) (e : Bytes) (ws : List Bytes) :
    encode wl (csOf sha256) e = .ok ws ↔ Spec.Bip39.encode wl sha256 e = some ws := by
  unfold Spec.Bip39.encode
  by_cases hv : ValidLen e.length
  · have hb : Spec.Bip39.validEntropyLen e.length = true := by
      unfold ValidLen at hv; simp [Spec.Bip39.validEntropyLen]; omega
    rw [encode_valid _ _ _ hv, hb, if_pos rfl, spec_indices_eq sha256 hsha e hv, mapM_lookup]
  · have hb : Spec.Bip39.validEntropyLen e.length = false := by
      unfold ValidLen at hv
      cases h : Spec.Bip39.validEntropyLen e.length with
      | false => rfl
      | true => simp [Spec.Bip39.validEntropyLen] at h; omega
    rw [encode_invalid _ _ _ hv, hb]
    simp

end BtcVerif.Proofs.Bip39
