/-
C18 — lemmas about Go's slice operations over the explicit heap (`Model/SliceHeap.lean`): which
arrays an operation can change, and the negative witness `append_in_place_hazard`.
-/
import BtcVerif.Model.SliceHeap

namespace BtcVerif.Proofs.SliceHeap
open BtcVerif.Model.SliceHeap

/-! ## writes -/

theorem writeAt_length (h : Heap) (a i : Nat) (b : UInt8) : (writeAt h a i b).length = h.length := by
  unfold writeAt
  split
  · split <;> simp
  · rfl

theorem writeAt_other (h : Heap) (a i : Nat) (b : UInt8) (a' : Nat) (hne : a' ≠ a) :
    (writeAt h a i b)[a']? = h[a']? := by
  unfold writeAt
  split
  · split
    · rw [List.getElem?_set_ne (Ne.symm hne)]
    · rfl
  · rfl

theorem writeMany_length (bs : List UInt8) : ∀ (h : Heap) (a i : Nat), (writeMany h a i bs).length = h.length := by
  induction bs with
  | nil => intro h a i; rfl
  | cons b bs ih => intro h a i; simp only [writeMany]; rw [ih, writeAt_length]

theorem writeMany_other (bs : List UInt8) :
    ∀ (h : Heap) (a i a' : Nat), a' ≠ a → (writeMany h a i bs)[a']? = h[a']? := by
  induction bs with
  | nil => intro h a i a' _; rfl
  | cons b bs ih => intro h a i a' hne; simp only [writeMany]; rw [ih _ _ _ _ hne, writeAt_other _ _ _ _ _ hne]

theorem goStore_length (h : Heap) (t : Slice) (i : Nat) (b : UInt8) : (goStore h t i b).length = h.length := by
  unfold goStore; split
  · exact writeAt_length ..
  · rfl

theorem goStore_other (h : Heap) (t : Slice) (i : Nat) (b : UInt8) (a' : Nat) (hne : a' ≠ t.arr) :
    (goStore h t i b)[a']? = h[a']? := by
  unfold goStore; split
  · exact writeAt_other _ _ _ _ _ hne
  · rfl

theorem goCopy_length (h : Heap) (t : Slice) (src : List UInt8) : (goCopy h t src).length = h.length :=
  writeMany_length ..

theorem goCopy_other (h : Heap) (t : Slice) (src : List UInt8) (a' : Nat) (hne : a' ≠ t.arr) :
    (goCopy h t src)[a']? = h[a']? :=
  writeMany_other _ _ _ _ _ hne

/-! ## append -/

theorem goAppend_length (h : Heap) (t : Slice) (bs : List UInt8) : h.length ≤ (goAppend h t bs).1.length := by
  unfold goAppend; split
  · simp [writeMany_length]
  · simp

/-- `append` changes at most the array of its first argument (and may add a new array) -/
theorem goAppend_other (h : Heap) (t : Slice) (bs : List UInt8) (a' : Nat) (hlt : a' < h.length)
    (hne : a' ≠ t.arr) : (goAppend h t bs).1[a']? = h[a']? := by
  unfold goAppend; split
  · exact writeMany_other _ _ _ _ _ hne
  · simp only; rw [List.getElem?_append_left hlt]

/-- the slice `append` returns lives in the array of its first argument or in a new array -/
theorem goAppend_arr (h : Heap) (t : Slice) (bs : List UInt8) :
    (goAppend h t bs).2.arr = t.arr ∨ h.length ≤ (goAppend h t bs).2.arr := by
  unfold goAppend; split
  · left; rfl
  · right; simp

/-- the slice `append` returns: the argument with a longer visible window (in place), or a slice of a
new array -/
theorem goAppend_res (h : Heap) (t : Slice) (bs : List UInt8) :
    ((goAppend h t bs).2 = { t with len := t.len + bs.length } ∧ t.len + bs.length ≤ t.cap) ∨
    h.length ≤ (goAppend h t bs).2.arr := by
  unfold goAppend; split
  · rename_i hle; left; exact ⟨rfl, hle⟩
  · right; simp

/-- onto a slice whose capacity equals its length (`s[lo:hi:hi]`) `append` never writes an existing
array: with nothing to append nothing is written, otherwise the data goes to a new array -/
theorem goAppend_capped (h : Heap) (t : Slice) (bs : List UInt8) (hc : t.cap = t.len) (a' : Nat)
    (hlt : a' < h.length) : (goAppend h t bs).1[a']? = h[a']? := by
  unfold goAppend; split
  · rename_i hle
    have : bs.length = 0 := by omega
    have hb : bs = [] := List.eq_nil_of_length_eq_zero this
    subst hb; rfl
  · simp only; rw [List.getElem?_append_left hlt]

/-! ## the negative witness: why `append` onto a caller's slice is rejected -/

theorem getElem?_writeAt_self (h : Heap) (a i : Nat) (b : UInt8) (arr : List UInt8)
    (ha : h[a]? = some arr) (hi : i < arr.length) : (writeAt h a i b)[a]? = some (arr.set i b) := by
  unfold writeAt
  rw [ha]; simp only [hi, if_true]
  have : a < h.length := by
    rcases Nat.lt_or_ge a h.length with hlt | hge
    · exact hlt
    · rw [List.getElem?_eq_none hge] at ha; cases ha
  rw [List.getElem?_set_self this]

/-- **The hazard.** For every heap, every well-formed slice with at least one byte of spare capacity
and every byte `b` different from the byte that lies just behind the visible window, `append(s, b)`
is done in place and changes the caller's array at exactly that position — memory the callee was
never given as part of the slice's contents.  (Every slice has such a capacity for some caller: this
is the witness that justifies rejecting every `append` onto caller-tagged memory.) -/
theorem append_in_place_hazard (h : Heap) (s : Slice) (b : UInt8) (arr : List UInt8)
    (harr : h[s.arr]? = some arr) (hin : s.off + s.cap ≤ arr.length) (hspare : s.len < s.cap)
    (hb : arr[s.off + s.len]? ≠ some b) :
    (goAppend h s [b]).1[s.arr]? = some (arr.set (s.off + s.len) b) ∧
    (goAppend h s [b]).1[s.arr]? ≠ h[s.arr]? ∧
    (goAppend h s [b]).2 = { s with len := s.len + 1 } := by
  have hle : s.len + [b].length ≤ s.cap := by simp; omega
  have hi : s.off + s.len < arr.length := by omega
  have h1 : (goAppend h s [b]).1[s.arr]? = some (arr.set (s.off + s.len) b) := by
    unfold goAppend; rw [if_pos hle]; simp only [writeMany]
    exact getElem?_writeAt_self h s.arr _ b arr harr hi
  refine ⟨h1, ?_, ?_⟩
  · rw [h1, harr]
    intro heq
    have := congrArg (fun l => l[s.off + s.len]?) (Option.some.inj heq)
    simp only [List.getElem?_set_self hi] at this
    exact hb this.symm
  · unfold goAppend; rw [if_pos hle]; simp

/-- the same capacity question decides whether the caller's memory survives: with no spare capacity
the very same call leaves every existing array alone -/
theorem append_no_spare_safe (h : Heap) (s : Slice) (bs : List UInt8) (hfull : s.cap = s.len) (a : Nat)
    (ha : a < h.length) : (goAppend h s bs).1[a]? = h[a]? :=
  goAppend_capped h s bs hfull a ha

/-! ## selections -/

theorem picks_mem_aux (mk : Slice → Nat → Nat → Option Slice) (srcs : List Slice) (Q : Slice → Slice → Prop)
    (hmk : ∀ t lo hi s, mk t lo hi = some s → Q t s) :
    ∀ (n : Nat) (ns : List Nat), ns.length ≤ n → ∀ s, s ∈ picks mk srcs ns → ∃ t ∈ srcs, Q t s := by
  intro n
  induction n with
  | zero =>
    intro ns hn s hs
    have : ns = [] := List.eq_nil_of_length_eq_zero (by omega)
    subst this; simp [picks] at hs
  | succ n ih =>
    intro ns hn s hs
    match ns, hn, hs with
    | [], _, hs => simp [picks] at hs
    | [_], _, hs => simp [picks] at hs
    | [_, _], _, hs => simp [picks] at hs
    | i :: lo :: hi :: rest, hn, hs =>
      simp only [picks, List.mem_append] at hs
      rcases hs with hs | hs
      · split at hs
        · rename_i t ht
          split at hs
          · rename_i s' hs'
            simp only [List.mem_singleton] at hs
            subst hs
            exact ⟨t, List.mem_of_getElem? ht, hmk _ _ _ _ hs'⟩
          · cases hs
        · cases hs
      · exact ih rest (by simp at hn; omega) s hs

theorem picks_mem (mk : Slice → Nat → Nat → Option Slice) (srcs : List Slice) (Q : Slice → Slice → Prop)
    (hmk : ∀ t lo hi s, mk t lo hi = some s → Q t s) (ns : List Nat) (s : Slice)
    (hs : s ∈ picks mk srcs ns) : ∃ t ∈ srcs, Q t s :=
  picks_mem_aux mk srcs Q hmk ns.length ns (Nat.le_refl _) s hs

theorem subWindow_spec (t : Slice) (lo hi : Nat) (s : Slice) (h : subWindow t lo hi = some s) :
    s.arr = t.arr ∧ t.off ≤ s.off ∧ s.off + s.len ≤ t.off + t.len := by
  unfold subWindow at h; split at h
  · cases h; simp; omega
  · cases h

theorem subCapped_spec (t : Slice) (lo hi : Nat) (s : Slice) (h : subCapped t lo hi = some s) :
    s.arr = t.arr ∧ s.cap = s.len ∧ t.off ≤ s.off ∧ s.off + s.len ≤ t.off + t.len := by
  unfold subCapped at h; split at h
  · cases h; simp; omega
  · cases h

/-- `s` is a sub-window of the visible window of `t` -/
def Within (s t : Slice) : Prop := s.arr = t.arr ∧ t.off ≤ s.off ∧ s.off + s.len ≤ t.off + t.len

theorem Within.refl (s : Slice) : Within s s := ⟨rfl, Nat.le_refl _, Nat.le_refl _⟩

theorem Within.trans {a b c : Slice} (h1 : Within a b) (h2 : Within b c) : Within a c := by
  unfold Within at *; omega

theorem subWindow_within (t : Slice) (lo hi : Nat) (s : Slice) (h : subWindow t lo hi = some s) : Within s t :=
  subWindow_spec t lo hi s h

theorem subCapped_within (t : Slice) (lo hi : Nat) (s : Slice) (h : subCapped t lo hi = some s) : Within s t := by
  have := subCapped_spec t lo hi s h
  exact ⟨this.1, this.2.2.1, this.2.2.2⟩

theorem subBeyond_spec (t : Slice) (lo hi : Nat) (s : Slice) (h : subBeyond t lo hi = some s) :
    s.arr = t.arr := by
  unfold subBeyond at h; split at h
  · cases h; rfl
  · cases h

theorem subset_mem {a b : List Nat} (h : subset a b = true) : ∀ x ∈ a, x ∈ b := by
  intro x hx
  unfold subset at h
  rw [List.all_eq_true] at h
  have := h x hx
  simpa using this

end BtcVerif.Proofs.SliceHeap
