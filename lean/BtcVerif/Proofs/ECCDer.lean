/-
  C04: the encoded form of a produced signature (`signer.SignSigHash` = `ecc.SignECDSA` followed by
  `der.EncodeSignature`) is BIP66 strict DER with the requested hash-type byte appended.
  Uses the C11 lemmas about `Model.DER.encode` (Proofs/DEREnc.lean).
-/
import BtcVerif.Proofs.ECCGroup
import BtcVerif.Proofs.DEREnc

namespace BtcVerif.Proofs.ECC
open BtcVerif BtcVerif.Model.ECC BtcVerif.Proofs

variable {C : CurveOps}

theorem frame_getLast (rb sb : Bytes) (ht : UInt8) : (Model.DER.frame rb sb ht).getLast? = some ht := by
  have : Model.DER.frame rb sb ht =
      (0x30 :: Model.DER.byteOf (rb.length + sb.length + 4) :: 0x02 :: Model.DER.byteOf rb.length ::
        (rb ++ 0x02 :: Model.DER.byteOf sb.length :: sb)) ++ [ht] := by
    simp [Model.DER.frame]
  rw [this, List.getLast?_concat]

/-- whenever signing succeeds and the hash type fits a byte, `SignSigHash` returns a string that
    BIP66 accepts, of 9..73 bytes, ending in the hash-type byte, that decodes to exactly the
    produced `(r, s)` and the hash type -/
theorem signSigHash_der (hn2 : C.n ≤ 2 ^ 256) (S : SigOps) (hash priv : Bytes) (ht r s : Nat)
    (hsig : signECDSA C S priv hash = .ok (r, s)) (hht : ht < 256) :
    ∃ out, signSigHash C S hash priv ht = .ok out ∧ Spec.bip66 out = true ∧
      Model.DER.decode out = .ok ⟨r, s, ht⟩ ∧ out.getLast? = some (UInt8.ofNat ht) ∧
      9 ≤ out.length ∧ out.length ≤ 73 := by
  obtain ⟨_, hrn, hsn⟩ := signECDSA_lowS hsig
  have hr : r < 2 ^ 256 := by omega
  have hs : s < 2 ^ 256 := by omega
  obtain ⟨hv, hdec, h9, h73⟩ := Model.DER.decode_frame_content hr hs (show ht ≤ 255 by omega)
  have e := Model.DER.encode_ok (zr := (r : Int)) (zs := (s : Int)) (ht := ht) (Int.natCast_nonneg _)
    (by exact_mod_cast hr) (Int.natCast_nonneg _) (by exact_mod_cast hs) (by omega)
  simp only [Int.natAbs_natCast] at e
  refine ⟨_, ?_, (Model.DER.bip66_iff_valid _).mpr hv, hdec, ?_, h9, h73⟩
  · unfold signSigHash
    rw [hsig]
    exact e
  · rw [frame_getLast]; simp [Model.DER.byteOf, Nat.mod_eq_of_lt hht]

end BtcVerif.Proofs.ECC
