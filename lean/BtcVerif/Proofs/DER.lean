/-
  C11 — helper lemmas, part 1: the decoder (Model/DER.decode) stage by stage.

  Each stage either fails with `.err` or succeeds, and succeeds exactly when an index-level
  predicate on the bytes holds (`HeadOK`, `IntOK`, `SOK`); `.panic` is excluded because every
  bounds-checked read is shown to be in range from the tests before it. `decode_cases` composes the
  stages; `bip66_iff_valid` identifies the composed predicate `Valid` with the independent
  transcription `Spec.bip66`.
-/
import BtcVerif.Model.DER
import BtcVerif.Spec.BIP66
namespace BtcVerif.Model.DER
open BtcVerif BtcVerif.Gen.Guards BtcVerif.Spec

theorem and128_eq : ∀ n, n < 256 → ((n &&& 128 = 128) ↔ 128 ≤ n) := by decide +kernel
theorem and128_ne : ∀ n, n < 256 → ((n &&& 128 ≠ 0) ↔ 128 ≤ n) := by decide +kernel

abbrev A (bs : Bytes) (i : Nat) : Nat := sigAt 0 bs i

theorem A_lt (bs : Bytes) (i : Nat) : A bs i < 256 := (bs.getD i 0).toNat_lt

theorem idx_lt {bs : Bytes} {i : Nat} (h : i < bs.length) : idx bs i = .ok (bs.getD i 0) := by
  unfold idx
  simp [List.getD, List.getElem?_eq_getElem h]

theorem idx_ge {bs : Bytes} {i : Nat} (h : bs.length ≤ i) : idx bs i = .panic := by
  unfold idx
  simp [List.getElem?_eq_none h]

def HeadOK (bs : Bytes) : Prop :=
  9 ≤ bs.length ∧ bs.length ≤ 73 ∧ A bs 0 = 48 ∧ A bs 1 = bs.length - 3 ∧ A bs 2 = 2 ∧
    A bs 3 + 5 < bs.length ∧ A bs 3 ≠ 0

theorem decHead_cases (bs : Bytes) :
    (HeadOK bs ∧ decHead bs = .ok (A bs 3)) ∨ (¬ HeadOK bs ∧ decHead bs = .err) := by
  unfold decHead HeadOK
  simp only [der_DecodeSignature_0, der_DecodeSignature_1, der_DecodeSignature_2, der_DecodeSignature_3,
    der_DecodeSignature_4, der_DecodeSignature_5]
  by_cases h9 : bs.length < 9
  · have : ((bs.length : Int) < 9) := by omega
    simp only [this, decide_true, if_true]
    right; refine ⟨?_, by first | rfl | trivial⟩; omega
  · by_cases h73 : bs.length > 73
    · have : ¬ ((bs.length : Int) < 9) := by omega
      have : ((bs.length : Int) > 73) := by omega
      simp only [*, decide_true, decide_false, if_true, if_false, Bool.false_eq_true]
      right; refine ⟨?_, by first | rfl | trivial⟩; omega
    · rw [idx_lt (show 0 < bs.length by omega), idx_lt (show 1 < bs.length by omega),
        idx_lt (show 2 < bs.length by omega), idx_lt (show 3 < bs.length by omega)]
      have e0 : ¬ ((bs.length : Int) < 9) := by omega
      have e1 : ¬ ((bs.length : Int) > 73) := by omega
      simp only [Outcome.bind_ok, A, sigAt, e0, e1, decide_false, if_false, Bool.false_eq_true]
      generalize (List.getD bs 0 0).toNat = a0
      generalize (List.getD bs 1 0).toNat = a1
      generalize (List.getD bs 2 0).toNat = a2
      generalize (List.getD bs 3 0).toNat = a3
      simp only [decide_eq_true_eq, Bool.or_eq_true, ne_eq]
      by_cases c0 : a0 = 48
      · by_cases c1 : (a1 : Int) = bs.length - 3
        · by_cases c2 : a2 = 2
          · by_cases c3 : ((a3 : Int) ≥ bs.length - 5 ∨ (a3 : Int) = 0)
            · rw [if_neg (by omega), if_neg (by omega), if_neg (by omega), if_pos c3]
              right; refine ⟨?_, by first | rfl | trivial⟩; omega
            · rw [if_neg (by omega), if_neg (by omega), if_neg (by omega), if_neg c3]
              left; refine ⟨?_, by first | rfl | trivial⟩; omega
          · rw [if_neg (by omega), if_neg (by omega), if_pos c2]
            right; refine ⟨?_, by first | rfl | trivial⟩; omega
        · rw [if_neg (by omega), if_pos c1]
          right; refine ⟨?_, by first | rfl | trivial⟩; omega
      · rw [if_pos c0]
        right; refine ⟨?_, by first | rfl | trivial⟩; omega

/-! ### integer content -/

theorem msb_iff (b : UInt8) : msb b = true ↔ 128 ≤ b.toNat := by
  unfold msb der_mostSignificantBitFlipped_0
  simp only [decide_eq_true_eq]
  exact and128_eq _ b.toNat_lt

/-- the content bytes of a DER integer are those of a non-negative, minimally encoded number -/
def IntOK (p : Bytes) : Prop :=
  A p 0 < 128 ∧ ¬ (p.length > 1 ∧ A p 0 = 0 ∧ A p 1 < 128)

theorem hasExtra_iff (p : Bytes) :
    hasExtraNullBytes p = true ↔ (p.length > 1 ∧ A p 0 = 0 ∧ A p 1 < 128) := by
  unfold hasExtraNullBytes
  match p with
  | [] => simp [der_hasExtraNullBytes_0]
  | [a] => simp [der_hasExtraNullBytes_0]
  | a :: b :: rest =>
    have hm := msb_iff b
    simp only [der_hasExtraNullBytes_0, Bool.and_eq_true, decide_eq_true_eq, Bool.not_eq_true',
      A, sigAt, List.getD_cons_zero, List.getD_cons_succ, List.length_cons]
    cases hb : msb b
    · have : ¬ 128 ≤ b.toNat := by rw [← hm, hb]; simp
      exact ⟨fun h => ⟨by omega, h.1.2, by omega⟩, fun h => ⟨⟨by omega, h.2.1⟩, rfl⟩⟩
    · have : 128 ≤ b.toNat := by rw [← hm, hb]
      exact ⟨fun h => absurd h.2 (by decide), fun h => by omega⟩

theorem slice_ok {bs : Bytes} {lo k : Nat} (h : lo + k ≤ bs.length) :
    slice bs lo (lo + k) = .ok ((bs.drop lo).take k) := by
  unfold slice
  rw [if_pos ⟨by omega, h⟩]
  simp

theorem sub_length {bs : Bytes} {lo k : Nat} (h : lo + k ≤ bs.length) :
    ((bs.drop lo).take k).length = k := by
  simp [List.length_take, List.length_drop]; omega

theorem sub_A {bs : Bytes} {lo k j : Nat} (hj : j < k) (h : lo + k ≤ bs.length) :
    A ((bs.drop lo).take k) j = A bs (lo + j) := by
  unfold A sigAt
  congr 1
  simp only [List.getD_eq_getElem?_getD]
  rw [List.getElem?_take_of_lt hj, List.getElem?_drop]

/-- `idx p 0`, sign test, padding test on a non-empty `p`, then the continuation `c` -/
theorem intBody_cases {β : Type} (p : Bytes) (hp : 0 < p.length) (c : Outcome β) :
    (IntOK p ∧ (do
        let r0 ← idx p 0
        if msb r0 then .err else if hasExtraNullBytes p then .err else c : Outcome β) = c) ∨
    (¬ IntOK p ∧ (do
        let r0 ← idx p 0
        if msb r0 then .err else if hasExtraNullBytes p then .err else c : Outcome β) = .err) := by
  rw [idx_lt hp]
  simp only [Outcome.bind_ok]
  have hm := msb_iff (p.getD 0 0)
  have he := hasExtra_iff p
  unfold IntOK
  by_cases c0 : msb (p.getD 0 0) = true
  · rw [if_pos c0]; right
    refine ⟨?_, rfl⟩
    have : 128 ≤ A p 0 := hm.mp c0
    omega
  · rw [if_neg c0]
    have c0' : A p 0 < 128 := by
      have : ¬ 128 ≤ (p.getD 0 0).toNat := fun h => c0 (hm.mpr h)
      show (p.getD 0 0).toNat < 128
      omega
    by_cases c1 : hasExtraNullBytes p = true
    · rw [if_pos c1]; right
      exact ⟨fun h => h.2 (he.mp c1), rfl⟩
    · rw [if_neg c1]; left
      exact ⟨⟨c0', fun h => c1 (he.mpr h)⟩, rfl⟩

theorem decR_cases (bs : Bytes) (k : Nat) (hk : 0 < k) (hlen : 4 + k ≤ bs.length) :
    (IntOK ((bs.drop 4).take k) ∧ decR bs k = .ok ((bs.drop 4).take k)) ∨
    (¬ IntOK ((bs.drop 4).take k) ∧ decR bs k = .err) := by
  unfold decR
  rw [slice_ok hlen]
  simp only [Outcome.bind_ok, der_DecodeSignature_6, der_DecodeSignature_7]
  exact intBody_cases _ (by rw [sub_length hlen]; exact hk) _


/-- the conditions `decS` tests, for declared r length `k` -/
def SOK (bs : Bytes) (k : Nat) : Prop :=
  A bs (4 + k) = 2 ∧ A bs (5 + k) + k + 7 = bs.length ∧ A bs (5 + k) ≠ 0 ∧
    IntOK ((bs.drop (6 + k)).take (A bs (5 + k)))

theorem decS_cases (bs : Bytes) (k : Nat) (hlen : k + 5 < bs.length) :
    (SOK bs k ∧ decS bs k =
        .ok ((bs.drop (6 + k)).take (A bs (5 + k)), A bs (bs.length - 1))) ∨
    (¬ SOK bs k ∧ decS bs k = .err) := by
  generalize hd : decS bs k = d
  unfold decS at hd
  unfold SOK
  simp only [der_DecodeSignature_8, der_DecodeSignature_9, der_DecodeSignature_10,
    der_DecodeSignature_11, der_DecodeSignature_12] at hd
  rw [idx_lt (show 4 + k < bs.length by omega), idx_lt (show 4 + k + 1 < bs.length by omega)] at hd
  simp only [Outcome.bind_ok] at hd
  have e5 : 4 + k + 1 = 5 + k := by omega
  have e6 : 4 + k + 2 = 6 + k := by omega
  rw [e5, e6] at hd
  generalize hsl : A bs (5 + k) = sl
  have hsl' : (bs.getD (5 + k) 0).toNat = sl := hsl
  generalize hst : A bs (4 + k) = st
  have hst' : (bs.getD (4 + k) 0).toNat = st := hst
  simp only [hsl', hst', decide_eq_true_eq, ne_eq] at hd
  split at hd
  · subst hd; right; refine ⟨?_, rfl⟩; omega
  · split at hd
    · subst hd; right; refine ⟨?_, rfl⟩; omega
    · split at hd
      · subst hd; right; refine ⟨?_, rfl⟩; omega
      · have hl : 6 + k + sl ≤ bs.length := by omega
        rw [slice_ok hl] at hd
        simp only [Outcome.bind_ok] at hd
        have hp : 0 < ((bs.drop (6 + k)).take sl).length := by rw [sub_length hl]; omega
        rcases intBody_cases _ hp _ with ⟨hi, he⟩ | ⟨hi, he⟩
        · left
          refine ⟨⟨by omega, by omega, by omega, hi⟩, ?_⟩
          rw [he, idx_lt (show 6 + k + sl < bs.length by omega)] at hd
          subst hd
          have : 6 + k + sl = bs.length - 1 := by omega
          rw [this]; rfl
        · right
          refine ⟨fun h => hi h.2.2.2, ?_⟩
          rw [he] at hd; exact hd.symm


/-! ### the whole decoder -/

/-- content bytes of r / of s, as located by the declared lengths -/
def rB (bs : Bytes) : Bytes := (bs.drop 4).take (A bs 3)
def sB (bs : Bytes) : Bytes := (bs.drop (6 + A bs 3)).take (A bs (5 + A bs 3))

/-- everything `DecodeSignature` tests, as one predicate on the bytes -/
def Valid (bs : Bytes) : Prop := HeadOK bs ∧ IntOK (rB bs) ∧ SOK bs (A bs 3)

/-- what `DecodeSignature` returns on success -/
def fields (bs : Bytes) : Sig := ⟨beNat (rB bs), beNat (sB bs), A bs (bs.length - 1)⟩

theorem decode_cases (bs : Bytes) :
    (Valid bs ∧ decode bs = .ok (fields bs)) ∨ (¬ Valid bs ∧ decode bs = .err) := by
  unfold decode Valid
  rcases decHead_cases bs with ⟨hh, eh⟩ | ⟨hh, eh⟩
  · rw [eh]
    simp only [Outcome.bind_ok]
    have hk : 0 < A bs 3 := by unfold HeadOK at hh; omega
    have hl : A bs 3 + 5 < bs.length := hh.2.2.2.2.2.1
    rcases decR_cases bs (A bs 3) hk (by omega) with ⟨hr, er⟩ | ⟨hr, er⟩
    · rw [er]
      simp only [Outcome.bind_ok]
      rcases decS_cases bs (A bs 3) hl with ⟨hs, es⟩ | ⟨hs, es⟩
      · rw [es]; left
        exact ⟨⟨hh, hr, hs⟩, rfl⟩
      · rw [es]; right
        exact ⟨fun h => hs h.2.2, rfl⟩
    · rw [er]; right
      exact ⟨fun h => hr h.2.1, rfl⟩
  · rw [eh]; right
    exact ⟨fun h => hh h.1, rfl⟩

theorem decode_ne_panic (bs : Bytes) : decode bs ≠ .panic := by
  rcases decode_cases bs with ⟨_, e⟩ | ⟨_, e⟩ <;> rw [e] <;> simp

theorem decode_isOk_iff (bs : Bytes) : (decode bs).isOk = true ↔ Valid bs := by
  rcases decode_cases bs with ⟨h, e⟩ | ⟨h, e⟩ <;> rw [e] <;> simp [Outcome.isOk, h]

theorem decode_ok_iff (bs : Bytes) (g : Sig) : decode bs = .ok g ↔ Valid bs ∧ g = fields bs := by
  rcases decode_cases bs with ⟨h, e⟩ | ⟨h, e⟩
  · rw [e]
    constructor
    · intro hg; injection hg with hg; exact ⟨h, hg.symm⟩
    · intro hg; rw [hg.2]
  · rw [e]
    constructor
    · intro hg; cases hg
    · intro hg; exact absurd hg.1 h


/-! ### the model's acceptance predicate is BIP66's -/

theorem and128_zero : ∀ n, n < 256 → ((n &&& 128 = 0) ↔ n < 128) := by decide +kernel

theorem IntOK_sub {bs : Bytes} {lo k : Nat} (h : lo + k ≤ bs.length) (hk : 0 < k) :
    IntOK ((bs.drop lo).take k) ↔
      (A bs lo < 128 ∧ ¬ (k > 1 ∧ A bs lo = 0 ∧ A bs (lo + 1) < 128)) := by
  unfold IntOK
  rw [sub_length h, sub_A hk h]
  by_cases h1 : 1 < k
  · rw [sub_A h1 h]; rfl
  · constructor
    · intro hh; exact ⟨hh.1, by omega⟩
    · intro hh; exact ⟨hh.1, by omega⟩

theorem bip66_iff_valid (bs : Bytes) : bip66 bs = true ↔ Valid bs := by
  unfold bip66 bip66With
  simp only [Bool.and_eq_true, Bool.not_eq_true', decide_eq_false_iff_not, bne_eq_false_iff_eq, beq_iff_eq,
    bne_iff_ne, decide_eq_true_eq, Bool.not_eq_eq_eq_not, Bool.not_true, Bool.and_eq_false_imp,
    beq_eq_false_iff_ne, Bool.not_false, and_assoc]
  show (_ ∧ _ ∧ A bs 0 = 48 ∧ A bs 1 = _ ∧ _) ↔ _
  have e4 : A bs 3 + 4 = 4 + A bs 3 := by omega
  have e6 : A bs 3 + 6 = 6 + A bs 3 := by omega
  have e7 : A bs 3 + 7 = 6 + A bs 3 + 1 := by omega
  show (_ ∧ _ ∧ A bs 0 = 48 ∧ A bs 1 = _ ∧ ¬ (5 + A bs 3 ≥ _) ∧ A bs 3 + A bs (5 + A bs 3) + 7 = _ ∧
    A bs 2 = 2 ∧ A bs 3 ≠ 0 ∧ A bs 4 &&& 128 = 0 ∧ (A bs 3 > 1 ∧ A bs 4 = 0 → A bs 5 &&& 128 ≠ 0) ∧
    A bs (A bs 3 + 4) = 2 ∧ A bs (5 + A bs 3) ≠ 0 ∧ A bs (A bs 3 + 6) &&& 128 = 0 ∧
    (A bs (5 + A bs 3) > 1 ∧ A bs (A bs 3 + 6) = 0 → A bs (A bs 3 + 7) &&& 128 ≠ 0)) ↔ _
  rw [e4, e6, e7, and128_zero _ (A_lt bs 4), and128_ne _ (A_lt bs 5), and128_zero _ (A_lt bs _),
    and128_ne _ (A_lt bs _)]
  unfold Valid HeadOK SOK rB
  generalize hk : A bs 3 = k
  generalize hsl : A bs (5 + k) = sl
  have e5 : A bs (4 + 1) = A bs 5 := rfl
  constructor
  · rintro ⟨h1, h2, h3, h4, h5, h6, h7, h8, h9, h10, h11, h12, h13, h14⟩
    refine ⟨⟨by omega, by omega, h3, h4, h7, by omega, h8⟩, ?_, h11, by omega, h12, ?_⟩
    · rw [IntOK_sub (by omega) (by omega)]
      exact ⟨h9, fun h => by have := h10 ⟨h.1, h.2.1⟩; omega⟩
    · rw [IntOK_sub (by omega) (by omega)]
      exact ⟨h13, fun h => by have := h14 ⟨h.1, h.2.1⟩; omega⟩
  · rintro ⟨⟨h1, h2, h3, h4, h5, h6, h7⟩, hr, h8, h9, h10, hs⟩
    rw [IntOK_sub (by omega) (by omega)] at hr hs
    refine ⟨by omega, by omega, h3, h4, by omega, by omega, h5, h7, hr.1, ?_, h8, h10, hs.1, ?_⟩
    · intro h; have := hr.2; omega
    · intro h; have := hs.2; omega

/-! ### the reference predicate never reads out of range -/

theorem sigAt_eq (d : UInt8) {bs : Bytes} {i : Nat} (h : i < bs.length) : sigAt d bs i = A bs i := by
  unfold A sigAt
  congr 1
  simp [List.getD_eq_getElem?_getD, List.getElem?_eq_getElem h]

theorem sigAt_lt (d : UInt8) (bs : Bytes) (i : Nat) : sigAt d bs i < 256 := (bs.getD i d).toNat_lt

/-- the transcription never depends on the value of an out-of-range read: for every default byte
    `d` it holds exactly when `Valid` does -/
theorem bip66With_iff_valid (d : UInt8) (bs : Bytes) : bip66With d bs = true ↔ Valid bs := by
  rw [← bip66_iff_valid]
  unfold bip66 bip66With
  simp only [Bool.and_eq_true, Bool.not_eq_true', decide_eq_false_iff_not, bne_eq_false_iff_eq, beq_iff_eq,
    bne_iff_ne, decide_eq_true_eq, Bool.not_eq_eq_eq_not, Bool.not_true, Bool.and_eq_false_imp,
    beq_eq_false_iff_ne, Bool.not_false, and_assoc]
  by_cases h9 : bs.length < 9
  · constructor <;> (intro h; exact absurd h9 h.1)
  · have e0 := sigAt_eq d (bs := bs) (i := 0) (by omega)
    have e1 := sigAt_eq d (bs := bs) (i := 1) (by omega)
    have e2 := sigAt_eq d (bs := bs) (i := 2) (by omega)
    have e3 := sigAt_eq d (bs := bs) (i := 3) (by omega)
    have e4 := sigAt_eq d (bs := bs) (i := 4) (by omega)
    have e5 := sigAt_eq d (bs := bs) (i := 5) (by omega)
    rw [e0, e1, e2, e3, e4, e5]
    by_cases h5 : 5 + A bs 3 ≥ bs.length
    · constructor <;> (intro h; exact absurd h5 h.2.2.2.2.1)
    · have e6 := sigAt_eq d (bs := bs) (i := 5 + A bs 3) (by omega)
      rw [e6]
      by_cases h6 : A bs 3 + A bs (5 + A bs 3) + 7 = bs.length
      · by_cases h12 : A bs (5 + A bs 3) = 0
        · constructor <;> (intro h; exact absurd h12 h.2.2.2.2.2.2.2.2.2.2.2.1)
        · have e7 := sigAt_eq d (bs := bs) (i := A bs 3 + 4) (by omega)
          have e8 := sigAt_eq d (bs := bs) (i := A bs 3 + 6) (by omega)
          rw [e7, e8]
          by_cases h14 : A bs (5 + A bs 3) > 1
          · have e9 := sigAt_eq d (bs := bs) (i := A bs 3 + 7) (by omega)
            rw [e9]
          · constructor
            · intro h
              refine ⟨h.1, h.2.1, h.2.2.1, h.2.2.2.1, h.2.2.2.2.1, h.2.2.2.2.2.1, h.2.2.2.2.2.2.1,
                h.2.2.2.2.2.2.2.1, h.2.2.2.2.2.2.2.2.1, h.2.2.2.2.2.2.2.2.2.1, h.2.2.2.2.2.2.2.2.2.2.1,
                h.2.2.2.2.2.2.2.2.2.2.2.1, h.2.2.2.2.2.2.2.2.2.2.2.2.1, fun hh => absurd hh.1 h14⟩
            · intro h
              refine ⟨h.1, h.2.1, h.2.2.1, h.2.2.2.1, h.2.2.2.2.1, h.2.2.2.2.2.1, h.2.2.2.2.2.2.1,
                h.2.2.2.2.2.2.2.1, h.2.2.2.2.2.2.2.2.1, h.2.2.2.2.2.2.2.2.2.1, h.2.2.2.2.2.2.2.2.2.2.1,
                h.2.2.2.2.2.2.2.2.2.2.2.1, h.2.2.2.2.2.2.2.2.2.2.2.2.1, fun hh => absurd hh.1 h14⟩
      · constructor <;> (intro h; exact absurd h.2.2.2.2.2.1 h6)

theorem bip66With_default_irrelevant (d d' : UInt8) (bs : Bytes) : bip66With d bs = bip66With d' bs := by
  have a := bip66With_iff_valid d bs
  have b := bip66With_iff_valid d' bs
  cases h : bip66With d bs <;> cases h' : bip66With d' bs <;> simp_all

end BtcVerif.Model.DER
