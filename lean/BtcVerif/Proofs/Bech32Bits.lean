/-
  Helper lemmas for C08 (Bech32), part 2: the `kklash/bits` operations — bit lists, their values,
  splitting into groups and joining. Core Lean only.
-/
import BtcVerif.Model.Bech32

namespace BtcVerif.Proofs.Bech32
open BtcVerif BtcVerif.Model BtcVerif.Model.Bech32 BtcVerif.Gen

/-! ### values of bit lists -/

def bstep (v : Nat) (b : Bool) : Nat := 2 * v + (if b then 1 else 0)

theorem bitsToNat_eq (bs : Bits) : bitsToNat bs = bs.foldl bstep 0 := rfl

theorem foldl_bstep_append (xs ys : Bits) (v : Nat) :
    (xs ++ ys).foldl bstep v = ys.foldl bstep (xs.foldl bstep v) := by
  simp [List.foldl_append]

theorem foldl_bstep_shift (ys : Bits) : ∀ v, ys.foldl bstep v = v * 2 ^ ys.length + ys.foldl bstep 0 := by
  induction ys with
  | nil => intro v; simp
  | cons b ys ih =>
    intro v
    simp only [List.foldl_cons, List.length_cons]
    rw [ih (bstep v b), ih (bstep 0 b)]
    simp only [bstep, Nat.pow_succ]
    generalize 2 ^ ys.length = p
    have e : 2 * v * p = v * (p * 2) := by
      rw [Nat.mul_comm 2 v, Nat.mul_assoc, Nat.mul_comm 2 p]
    cases b
    · simp only [Bool.false_eq_true, if_false, Nat.add_zero, Nat.mul_zero, Nat.zero_mul, Nat.zero_add]
      rw [e]
    · simp only [if_true, Nat.mul_zero, Nat.zero_add, Nat.add_mul, Nat.one_mul]
      rw [e]; omega

theorem bitsToNat_append (xs ys : Bits) :
    bitsToNat (xs ++ ys) = bitsToNat xs * 2 ^ ys.length + bitsToNat ys := by
  simp only [bitsToNat_eq, foldl_bstep_append]
  exact foldl_bstep_shift ys _

theorem bitsToNat_cons (b : Bool) (bs : Bits) :
    bitsToNat (b :: bs) = (if b then 1 else 0) * 2 ^ bs.length + bitsToNat bs := by
  rw [show b :: bs = [b] ++ bs from rfl, bitsToNat_append]
  cases b <;> simp [bitsToNat]

theorem bitsToNat_lt (bs : Bits) : bitsToNat bs < 2 ^ bs.length := by
  induction bs with
  | nil => simp [bitsToNat]
  | cons b bs ih =>
    rw [bitsToNat_cons]
    simp only [List.length_cons, Nat.pow_succ]
    cases b <;> simp <;> omega

theorem bitsToNat_replicate_false (k : Nat) : bitsToNat (List.replicate k false) = 0 := by
  induction k with
  | zero => rfl
  | succ k ih =>
    rw [List.replicate_succ, show (false :: List.replicate k false) = [false] ++ List.replicate k false from rfl,
      bitsToNat_append, ih]
    simp [bitsToNat]

/-- `Trim` leaves nothing exactly when the value is zero -/
theorem trim_eq_nil_iff (bs : Bits) : trim bs = [] ↔ bitsToNat bs = 0 := by
  induction bs with
  | nil => simp [trim, bitsToNat]
  | cons b bs ih =>
    rw [bitsToNat_cons]
    cases b with
    | true =>
      have : 0 < 2 ^ bs.length := Nat.two_pow_pos _
      simp only [trim, if_true, Nat.one_mul]
      constructor
      · intro h; cases h
      · intro h; omega
    | false =>
      simp only [trim, Bool.false_eq_true, if_false, Nat.zero_mul, Nat.zero_add]
      exact ih

theorem trim_eq_nil_iff_all_false (bs : Bits) : trim bs = [] ↔ bs = List.replicate bs.length false := by
  induction bs with
  | nil => simp [trim]
  | cons b bs ih =>
    cases b with
    | true => simp [trim, List.replicate_succ]
    | false => simp only [trim, List.length_cons, List.replicate_succ, List.cons.injEq, true_and]; exact ih

/-! ### bytes and 5-bit groups (finite facts by evaluation) -/

/-- the five low bits of a value, most significant first (`group[8-BitGroupSize:]`) -/
def bits5 (v : Nat) : Bits := (byteToBits v).drop 3

theorem charBits_eq (c : UInt8) : charBits c = bits5 (alphaIndex c) := rfl

theorem bits5_length (v : Nat) : (bits5 v).length = 5 := by simp [bits5, byteToBits]

theorem byteToBits_length (v : Nat) : (byteToBits v).length = 8 := by simp [byteToBits]

theorem bitsToNat_bits5 : ∀ v, v < 32 → bitsToNat (bits5 v) = v := by decide

theorem bits5_bitsToNat (g : Bits) (hg : g.length = 5) : bits5 (bitsToNat g) = g := by
  match g, hg with
  | [a, b, c, d, e], _ => revert a b c d e; decide

set_option maxRecDepth 20000 in
theorem bitsToNat_byteToBits : ∀ v, v < 256 → bitsToNat (byteToBits v) = v := by decide

set_option maxRecDepth 20000 in
theorem byteToBits_bitsToNat (g : Bits) (hg : g.length = 8) : byteToBits (bitsToNat g) = g := by
  match g, hg with
  | [a, b, c, d, e, f, g, h], _ => revert a b c d e f g h; decide

/-! ### Split / Join -/

theorem splitAux_flatten (n : Nat) (hn : 0 < n) (gs : List Bits) (hg : ∀ g ∈ gs, g.length = n) :
    ∀ fuel, gs.length ≤ fuel → splitAux n fuel gs.flatten = gs := by
  induction gs with
  | nil => intro fuel _; cases fuel <;> simp [splitAux]
  | cons g gs ih =>
    intro fuel hf
    cases fuel with
    | zero => simp at hf
    | succ fuel =>
      have hgl : g.length = n := hg g (by simp)
      have hne : (g ++ gs.flatten).isEmpty = false := by
        cases g with
        | nil => simp at hgl; omega
        | cons _ _ => rfl
      simp only [List.flatten_cons, splitAux, hne, Bool.false_eq_true, if_false]
      rw [List.take_left' hgl, List.drop_left' hgl,
        ih (fun x hx => hg x (by simp [hx])) fuel (by simpa using hf)]

theorem flatten_length_uniform (n : Nat) (gs : List Bits) (hg : ∀ g ∈ gs, g.length = n) :
    gs.flatten.length = n * gs.length := by
  induction gs with
  | nil => simp
  | cons g gs ih =>
    simp only [List.flatten_cons, List.length_append, List.length_cons]
    rw [ih (fun x hx => hg x (by simp [hx])), hg g (by simp), Nat.mul_succ]; omega

/-- `Split(n)` undoes `Join` of groups of `n` bits -/
theorem split_flatten (n : Nat) (hn : 0 < n) (gs : List Bits) (hg : ∀ g ∈ gs, g.length = n) :
    split gs.flatten n = gs := by
  unfold split
  apply splitAux_flatten n hn gs hg
  rw [flatten_length_uniform n gs hg]
  exact Nat.le_mul_of_pos_left _ hn

theorem splitAux_spec (n : Nat) (hn : 0 < n) : ∀ (fuel : Nat) (bs : Bits), bs.length ≤ fuel →
    (splitAux n fuel bs).flatten = bs ∧
    (n ∣ bs.length → ∀ g ∈ splitAux n fuel bs, g.length = n) ∧
    (n ∣ bs.length → (splitAux n fuel bs).length = bs.length / n) := by
  intro fuel
  induction fuel with
  | zero =>
    intro bs h
    have : bs = [] := by cases bs <;> simp_all
    subst this; simp [splitAux]
  | succ fuel ih =>
    intro bs h
    cases hbs : bs with
    | nil => simp [splitAux]
    | cons b rest =>
      rw [← hbs]
      have hne : bs.isEmpty = false := by rw [hbs]; rfl
      have hpos : 0 < bs.length := by rw [hbs]; simp
      simp only [splitAux, hne, Bool.false_eq_true, if_false]
      have hdl : (bs.drop n).length ≤ fuel := by simp; omega
      obtain ⟨i1, i2, i3⟩ := ih (bs.drop n) hdl
      refine ⟨?_, ?_, ?_⟩
      · simp only [List.flatten_cons, i1, List.take_append_drop]
      · intro hdiv g hgm
        have hle : n ≤ bs.length := Nat.le_of_dvd hpos hdiv
        have hdiv' : n ∣ (bs.drop n).length := by
          simp only [List.length_drop]
          exact Nat.dvd_sub hdiv (Nat.dvd_refl n)
        simp only [List.mem_cons] at hgm
        rcases hgm with hgm | hgm
        · subst hgm; simp; omega
        · exact i2 hdiv' g hgm
      · intro hdiv
        have hle : n ≤ bs.length := Nat.le_of_dvd hpos hdiv
        have hdiv' : n ∣ (bs.drop n).length := by
          simp only [List.length_drop]
          exact Nat.dvd_sub hdiv (Nat.dvd_refl n)
        simp only [List.length_cons, i3 hdiv', List.length_drop]
        exact (Nat.div_eq_sub_div hn hle).symm

theorem flatten_split (bs : Bits) (n : Nat) (hn : 0 < n) : (split bs n).flatten = bs :=
  (splitAux_spec n hn bs.length bs (Nat.le_refl _)).1

theorem split_length_each (bs : Bits) (n : Nat) (hn : 0 < n) (hd : n ∣ bs.length) :
    ∀ g ∈ split bs n, g.length = n :=
  (splitAux_spec n hn bs.length bs (Nat.le_refl _)).2.1 hd

theorem split_length (bs : Bits) (n : Nat) (hn : 0 < n) (hd : n ∣ bs.length) :
    (split bs n).length = bs.length / n :=
  (splitAux_spec n hn bs.length bs (Nat.le_refl _)).2.2 hd

/-! ### bytes <-> bits -/

theorem bytesToBits_eq (bs : Bytes) : bytesToBits bs = (bs.map (fun b => byteToBits b.toNat)).flatten := by
  simp [bytesToBits, List.flatMap]

theorem bytesToBits_length (bs : Bytes) : (bytesToBits bs).length = 8 * bs.length := by
  rw [bytesToBits_eq, flatten_length_uniform 8]
  · simp
  · intro g hg
    rw [List.mem_map] at hg
    obtain ⟨b, _, rfl⟩ := hg
    exact byteToBits_length _

theorem mapM'_ok {α β} (f : α → Outcome β) (g : α → β) (xs : List α) (h : ∀ x ∈ xs, f x = .ok (g x)) :
    mapM' f xs = .ok (xs.map g) := by
  induction xs with
  | nil => rfl
  | cons x xs ih =>
    simp only [mapM', h x (by simp), ih (fun y hy => h y (by simp [hy])), List.map_cons]

/-- `Bits.Bytes()` of a bit string whose length is a multiple of 8 -/
theorem bitsBytes_ok (bs : Bits) (h8 : bs.length % 8 = 0) :
    bitsBytes bs = .ok ((split bs 8).map (fun g => UInt8.ofNat (bitsToNat g))) := by
  unfold bitsBytes
  rw [if_neg (by simp [h8])]
  apply mapM'_ok
  intro g hg
  have := split_length_each bs 8 (by decide) (Nat.dvd_of_mod_eq_zero h8) g hg
  simp [bitsByte, this]

/-- bytes → bits → bytes -/
theorem bitsBytes_bytesToBits (bs : Bytes) : bitsBytes (bytesToBits bs) = .ok bs := by
  rw [bitsBytes_ok _ (by rw [bytesToBits_length]; omega), bytesToBits_eq, split_flatten 8 (by decide)]
  · rw [List.map_map]
    congr 1
    conv => rhs; rw [← List.map_id bs]
    apply List.map_congr_left
    intro b _
    simp [bitsToNat_byteToBits b.toNat b.toNat_lt]
  · intro g hg
    rw [List.mem_map] at hg
    obtain ⟨b, _, rfl⟩ := hg
    exact byteToBits_length _

/-- bits → bytes → bits -/
theorem bytesToBits_of_bitsBytes (bs : Bits) (h8 : bs.length % 8 = 0) (data : Bytes)
    (h : bitsBytes bs = .ok data) : bytesToBits data = bs := by
  rw [bitsBytes_ok bs h8] at h
  injection h with h
  subst h
  rw [bytesToBits_eq, List.map_map]
  have hd := Nat.dvd_of_mod_eq_zero h8
  have : (split bs 8).map ((fun b : UInt8 => byteToBits b.toNat) ∘ fun g => UInt8.ofNat (bitsToNat g)) =
      split bs 8 := by
    conv => rhs; rw [← List.map_id (split bs 8)]
    apply List.map_congr_left
    intro g hg
    have hl := split_length_each bs 8 (by decide) hd g hg
    have hlt : bitsToNat g < 256 := by have := bitsToNat_lt g; rw [hl] at this; simpa using this
    have : (UInt8.ofNat (bitsToNat g)).toNat = bitsToNat g := by
      simp [UInt8.toNat_ofNat']; omega
    simp only [Function.comp, this, id]
    exact byteToBits_bitsToNat g hl
  rw [this, flatten_split bs 8 (by decide)]

theorem bitsBytes_length (bs : Bits) (h8 : bs.length % 8 = 0) (data : Bytes)
    (h : bitsBytes bs = .ok data) : data.length = bs.length / 8 := by
  rw [bitsBytes_ok bs h8] at h
  injection h with h
  subst h
  simp [split_length bs 8 (by decide) (Nat.dvd_of_mod_eq_zero h8)]

end BtcVerif.Proofs.Bech32
