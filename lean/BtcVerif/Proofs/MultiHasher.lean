/-
  C20 — proofs: the (repaired) MultiHasher refines the streaming-hash specification for every
  chain of lawful stages and every history of calls; corollaries; the helper functions equal their
  definitions; witnesses that the code before the D11 repair did not.
-/
import BtcVerif.Model.MultiHasher

namespace BtcVerif.Proofs.MultiHasher
open BtcVerif BtcVerif.Model.MultiHasher BtcVerif.Gen.Guards
open BtcVerif.Spec.MultiHasher (Op Out Algo chain chainDigest lastSize firstBlockSize streamAfter)

namespace S
export BtcVerif.Spec.MultiHasher (step runFrom run)
end S

/-! ### stages -/

theorem bufStage_lawful (H : Bytes → Bytes) (n b : Nat) : (bufStage H n b).Lawful := by
  intro chunks
  have h : ∀ (cs : List Bytes) (s : Bytes),
      cs.foldl (fun (s p : Bytes) => s ++ p) s = s ++ cs.flatten := by
    intro cs
    induction cs with
    | nil => intro s; simp
    | cons c cs ih => intro s; simp [List.foldl_cons, ih]
  simp only [bufStage]
  rw [h chunks []]; simp

theorem sha256Stage_lawful : sha256Stage.Lawful := bufStage_lawful _ _ _
theorem sha512Stage_lawful : sha512Stage.Lawful := bufStage_lawful _ _ _
theorem ripemd160Stage_lawful : ripemd160Stage.Lawful := bufStage_lawful _ _ _

/-- a lawful stage written once from its initial state -/
theorem lawful_one {S : Stage} (h : S.Lawful) (d : Bytes) : S.sum (S.write S.init d) = S.H d := by
  have := h [d]; simpa using this

/-! ### the loop of `Sum` -/

theorem pipe_spec (t : List Hasher) (hl : ∀ h ∈ t, h.stage.Lawful) (d : Bytes) :
    (pipe t d).2 = chain (t.map (·.stage.H)) d ∧ (pipe t d).1.map (·.stage) = t.map (·.stage) := by
  induction t generalizing d with
  | nil => simp [pipe, chain]
  | cons h t ih =>
    have hh : h.stage.Lawful := hl h (by simp)
    have ht : ∀ x ∈ t, x.stage.Lawful := fun x hx => hl x (by simp [hx])
    have hs : (h.reset.write d).sum = h.stage.H d := by
      simp [Hasher.sum, Hasher.write, Hasher.reset, lawful_one hh]
    obtain ⟨h1, h2⟩ := ih ht (h.stage.H d)
    simp only [pipe, hs, List.map_cons, chain]
    exact ⟨h1, by simp [h2, Hasher.write, Hasher.reset]⟩

/-! ### the invariant: stage 0 holds the stream, the other stages hold anything -/

def Inv (S0 : Stage) (Ss : List Stage) (stream : Bytes) (mh : MH) : Prop :=
  ∃ (chunks : List Bytes) (t : List Hasher), chunks.flatten = stream ∧
    mh.hashes = ⟨S0, chunks.foldl S0.write S0.init⟩ :: t ∧ t.map (·.stage) = Ss

theorem getLast_size (hs : List Hasher) (x : Hasher) (h : hs.getLast? = some x) :
    x.stage.size = lastSize (hs.map (·.stage.algo)) := by
  induction hs with
  | nil => simp at h
  | cons a t ih =>
    cases t with
    | nil => simp at h; subst h; simp [lastSize, Stage.algo]
    | cons b t' =>
      rw [List.getLast?_cons_cons] at h
      simp only [List.map_cons, lastSize]
      simpa using ih h

theorem map_stage_H {t : List Hasher} {Ss : List Stage} (h : t.map (·.stage) = Ss) :
    t.map (·.stage.H) = (Ss.map Stage.algo).map (·.H) := by
  subst h; simp [Stage.algo, Function.comp_def]

theorem step_refines (S0 : Stage) (Ss : List Stage) (hl : ∀ S ∈ S0 :: Ss, S.Lawful)
    (stream : Bytes) (mh : MH) (hinv : Inv S0 Ss stream mh) (op : Op) :
    (step mh op).2 = .ok (S.step ((S0 :: Ss).map Stage.algo) stream op).2 ∧
    Inv S0 Ss (S.step ((S0 :: Ss).map Stage.algo) stream op).1 (step mh op).1 := by
  obtain ⟨chunks, t, hflat, hh, hst⟩ := hinv
  have hl0 : S0.Lawful := hl S0 (by simp)
  have hlt : ∀ h ∈ t, h.stage.Lawful := by
    intro h hm
    apply hl; subst hst; simp; exact Or.inr ⟨h, hm, rfl⟩
  cases op with
  | write p =>
    refine ⟨by simp [step, write, hh, Outcome.map, S.step], ?_⟩
    refine ⟨chunks ++ [p], t, by simp [S.step, hflat], ?_, hst⟩
    simp [step, write, hh, Hasher.write, List.foldl_append]
  | sum b =>
    have h0 : (Hasher.sum ⟨S0, chunks.foldl S0.write S0.init⟩) = S0.H stream := by
      simp [Hasher.sum, hl0 chunks, hflat]
    obtain ⟨h1, h2⟩ := pipe_spec t hlt (S0.H stream)
    constructor
    · simp only [step, sum, hh, h0, Outcome.map, S.step, chainDigest, List.map_cons, chain, h1,
        map_stage_H hst]
      simp [Stage.algo]
    · exact ⟨chunks, (pipe t (S0.H stream)).1, hflat, by simp [step, sum, hh, h0], by rw [h2, hst]⟩
  | reset =>
    refine ⟨by simp [step, S.step], ?_⟩
    refine ⟨[], t.map Hasher.reset, by simp [S.step], by simp [step, reset, hh, Hasher.reset], ?_⟩
    rw [← hst]; simp [Hasher.reset, Function.comp_def]
  | size =>
    refine ⟨?_, ⟨chunks, t, hflat, hh, hst⟩⟩
    have hne : mh.hashes ≠ [] := by simp [hh]
    obtain ⟨x, hx⟩ : ∃ x, mh.hashes.getLast? = some x := by
      cases hq : mh.hashes.getLast? with
      | none => simp [hh] at hq
      | some x => exact ⟨x, rfl⟩
    have := getLast_size _ _ hx
    simp only [step, size, hx, Outcome.map, S.step, this]
    rw [hh]; subst hst; simp [Stage.algo, Function.comp_def]
  | blockSize =>
    refine ⟨?_, ⟨chunks, t, hflat, hh, hst⟩⟩
    simp [step, blockSize, hh, Outcome.map, S.step, firstBlockSize, Stage.algo]

theorem runFrom_refines (S0 : Stage) (Ss : List Stage) (hl : ∀ S ∈ S0 :: Ss, S.Lawful)
    (ops : List Op) : ∀ (stream : Bytes) (mh : MH), Inv S0 Ss stream mh →
    runFrom mh ops = .ok (S.runFrom ((S0 :: Ss).map Stage.algo) stream ops) := by
  induction ops with
  | nil => intro _ _ _; rfl
  | cons op ops ih =>
    intro stream mh hinv
    obtain ⟨h1, h2⟩ := step_refines S0 Ss hl stream mh hinv op
    simp only [runFrom, h1, S.runFrom, ih _ _ h2, Outcome.map]

theorem new_inv (S0 : Stage) (Ss : List Stage) :
    ∃ mh, new ((S0 :: Ss).map Hasher.new) = some mh ∧ Inv S0 Ss [] mh := by
  refine ⟨⟨(S0 :: Ss).map Hasher.new⟩, ?_, [], Ss.map Hasher.new, rfl, by simp [Hasher.new], ?_⟩
  · simp [new, bhash_NewMultiHasher_0]; omega
  · simp [Hasher.new, Function.comp_def]

/-- the refinement theorem -/
theorem run_refines (stages : List Stage) (hne : stages ≠ []) (hl : ∀ S ∈ stages, S.Lawful)
    (ops : List Op) : run stages ops = .ok (S.run (stages.map Stage.algo) ops) := by
  cases stages with
  | nil => exact absurd rfl hne
  | cons S0 Ss =>
    obtain ⟨mh, hnew, hinv⟩ := new_inv S0 Ss
    simp only [run, hnew]
    exact runFrom_refines S0 Ss hl ops [] mh hinv

/-- the nil pointer returned for an empty chain: any call panics -/
theorem run_nil (ops : List Op) : run [] ops = if ops.isEmpty then .ok [] else .panic := by
  simp [run, new, bhash_NewMultiHasher_0]

/-! ### facts about the specification (histories) -/

theorem step_fst (algos : List Algo) (s : Bytes) (op : Op) :
    (S.step algos s op).1 = streamAfter s [op] := by
  cases op <;> simp [S.step, streamAfter]

theorem streamAfter_cons (s : Bytes) (op : Op) (ops : List Op) :
    streamAfter s (op :: ops) = streamAfter (streamAfter s [op]) ops := by
  cases op <;> simp [streamAfter]

theorem streamAfter_append (s : Bytes) (a b : List Op) :
    streamAfter s (a ++ b) = streamAfter (streamAfter s a) b := by
  induction a generalizing s with
  | nil => rfl
  | cons op a ih =>
    rw [List.cons_append, streamAfter_cons, ih, ← streamAfter_cons]

theorem streamAfter_writes (s : Bytes) (chunks : List Bytes) :
    streamAfter s (chunks.map .write) = s ++ chunks.flatten := by
  induction chunks generalizing s with
  | nil => simp [streamAfter]
  | cons c cs ih => simp [streamAfter, ih]

theorem runFrom_append (algos : List Algo) (s : Bytes) (a b : List Op) :
    S.runFrom algos s (a ++ b) = S.runFrom algos s a ++ S.runFrom algos (streamAfter s a) b := by
  induction a generalizing s with
  | nil => rfl
  | cons op a ih =>
    simp only [List.cons_append, S.runFrom, ih, step_fst]
    rw [← streamAfter_cons]

theorem runFrom_length (algos : List Algo) (s : Bytes) (a : List Op) :
    (S.runFrom algos s a).length = a.length := by
  induction a generalizing s with
  | nil => rfl
  | cons op a ih => simp [S.runFrom, ih]

theorem runFrom_writes (algos : List Algo) (s : Bytes) (chunks : List Bytes) :
    S.runFrom algos s (chunks.map .write) = chunks.map (fun c => Out.wrote c.length) := by
  induction chunks generalizing s with
  | nil => rfl
  | cons c cs ih => simp [S.runFrom, S.step, ih]

/-- Sum is observationally pure: removing a `Sum(b)` from a history removes exactly its own
    answer, and that answer is `b ‖ chained digest of the stream since the last reset` -/
theorem spec_sum_pure (algos : List Algo) (pre post : List Op) (b : Bytes) :
    S.run algos (pre ++ .sum b :: post) =
      S.runFrom algos [] pre ++ Out.digest (b ++ chainDigest algos (streamAfter [] pre)) ::
        S.runFrom algos (streamAfter [] pre) post ∧
    S.run algos (pre ++ post) =
      S.runFrom algos [] pre ++ S.runFrom algos (streamAfter [] pre) post := by
  simp [S.run, runFrom_append, S.runFrom, S.step]

theorem spec_reset (algos : List Algo) (pre post : List Op) :
    S.run algos (pre ++ .reset :: post) =
      S.runFrom algos [] pre ++ Out.unit :: S.run algos post := by
  simp [S.run, runFrom_append, S.runFrom, S.step]

/-! ### helper functions -/

theorem copyArr_of_length (n : Nat) (src : Bytes) (h : src.length = n) : copyArr n src = src := by
  simp [copyArr, ← h]

theorem ripemd160_eq (R : Stage) (hR : R.Lawful) (data : Bytes) :
    ripemd160 R data = copyArr 20 (R.H data) := by
  simp [ripemd160, Hasher.new, Hasher.write, Hasher.sum, lawful_one hR]

theorem foldl_write (S : Stage) (st : S.σ) (chunks : List Bytes) :
    chunks.foldl Hasher.write ⟨S, st⟩ = ⟨S, chunks.foldl S.write st⟩ := by
  induction chunks generalizing st with
  | nil => rfl
  | cons c cs ih => simp [List.foldl_cons, Hasher.write, ih]

theorem taggedHash_eq (sum256 : Bytes → Bytes) (S : Stage) (hS : S.Lawful) (tag : Bytes)
    (chunks : List Bytes) :
    taggedHash sum256 S tag chunks = S.H (sum256 tag ++ sum256 tag ++ chunks.flatten) := by
  have := hS (sum256 tag :: sum256 tag :: chunks)
  simp only [List.foldl_cons, List.flatten_cons] at this
  unfold taggedHash
  simp only [Hasher.new, Hasher.write]
  rw [foldl_write]
  simp only [Hasher.sum, this, List.append_assoc]

/-! ### the code before the repair violated the contract (D11) — witnesses on a toy lawful stage
    whose "hash" is the identity -/

def toy : Stage := bufStage id 1 1

theorem toy_lawful : toy.Lawful := bufStage_lawful _ _ _

/-- a second `Sum(nil)` gave a different digest (later stages kept the first one) -/
theorem old_sum_not_idempotent :
    Old.run [toy, toy] [.write [1], .sum [], .sum []]
      = .ok [.wrote 1, .digest [1], .digest [1, 1]] := by decide

/-- `Sum(b)` dropped `b` -/
theorem old_sum_drops_prefix :
    Old.run [toy] [.write [1], .sum [9]] = .ok [.wrote 1, .digest [1]] := by decide

/-- `Reset` left the later stages dirty -/
theorem old_reset_incomplete :
    Old.run [toy, toy] [.write [1], .sum [], .reset, .write [1], .sum []]
      = .ok [.wrote 1, .digest [1], .unit, .wrote 1, .digest [1, 1]] := by decide

/-- hence the old code did not refine the specification -/
theorem old_not_refines :
    ¬ ∀ (stages : List Stage), stages ≠ [] → (∀ S ∈ stages, S.Lawful) → ∀ ops,
      Old.run stages ops = .ok (S.run (stages.map Stage.algo) ops) := by
  intro h
  have h1 := h [toy, toy] (by simp) (by intro S hS; simp at hS; subst hS; exact toy_lawful)
    [.write [1], .sum [], .sum []]
  rw [old_sum_not_idempotent] at h1
  revert h1; decide

end BtcVerif.Proofs.MultiHasher
