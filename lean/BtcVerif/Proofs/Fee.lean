/-
  C15 — fee accounting: in the monetary range the `uint64` sums never wrap, the fee is inputs minus
  outputs (an error when outputs exceed inputs), block totals are the sum of the per-transaction fees.
-/
import BtcVerif.Model.Fee

namespace BtcVerif.Proofs.Fee
open BtcVerif BtcVerif.Model BtcVerif.Model.Fee BtcVerif.Prim
open BtcVerif.Gen.Guards

/-- the values of the previous outputs a transaction spends, when all of them are known -/
def inputValues (get : PrevOut → Option Nat) : List TxIn → Option (List Nat)
  | [] => some []
  | i :: rest =>
    match get i.prev, inputValues get rest with
    | some v, some vs => some (v :: vs)
    | _, _ => none

def outputSum (t : Tx) : Nat := (t.outputs.map (·.value)).sum

theorem addU64_of_lt {a b : Nat} (h : a + b < two64) : addU64 a b = a + b := Nat.mod_eq_of_lt h

theorem foldl_outputs (outs : List TxOut) (a : Nat) (h : a + (outs.map (·.value)).sum < two64) :
    outs.foldl (fun acc o => addU64 acc o.value) a = a + (outs.map (·.value)).sum := by
  induction outs generalizing a with
  | nil => simp
  | cons o rest ih =>
    simp only [List.map_cons, List.sum_cons] at h
    simp only [List.foldl_cons, List.map_cons, List.sum_cons]
    rw [addU64_of_lt (by omega), ih _ (by omega)]
    omega

theorem totalOutputValue_eq (t : Tx) (h : outputSum t < two64) : totalOutputValue t = outputSum t := by
  unfold totalOutputValue
  rw [foldl_outputs _ _ (by simpa [outputSum] using h)]
  simp [outputSum]

theorem sumInputs_eq (get : PrevOut → Option Nat) (ins : List TxIn) (vs : List Nat) (a : Nat)
    (hvs : inputValues get ins = some vs) (h : a + vs.sum < two64) :
    sumInputs get ins a = .ok (a + vs.sum) := by
  induction ins generalizing a vs with
  | nil => simp [inputValues] at hvs; subst hvs; simp [sumInputs]
  | cons i rest ih =>
    unfold inputValues at hvs
    cases hg : get i.prev with
    | none => simp [hg] at hvs
    | some v =>
      cases hr : inputValues get rest with
      | none => simp [hg, hr] at hvs
      | some vs' =>
        simp only [hg, hr, Option.some.injEq] at hvs
        subst hvs
        simp only [List.sum_cons] at h
        simp only [sumInputs, hg, List.sum_cons]
        rw [addU64_of_lt (by omega), ih vs' _ hr (by omega)]
        congr 1; omega

theorem sumInputs_missing (get : PrevOut → Option Nat) (ins : List TxIn) (a : Nat)
    (hvs : inputValues get ins = none) : sumInputs get ins a = .err := by
  induction ins generalizing a with
  | nil => simp [inputValues] at hvs
  | cons i rest ih =>
    unfold inputValues at hvs
    cases hg : get i.prev with
    | none => simp [sumInputs, hg]
    | some v =>
      cases hr : inputValues get rest with
      | none => simp only [sumInputs, hg]; exact ih _ hr
      | some vs' => simp [hg, hr] at hvs

theorem sumInputs_ne_panic (get : PrevOut → Option Nat) (ins : List TxIn) (a : Nat) :
    sumInputs get ins a ≠ .panic := by
  induction ins generalizing a with
  | nil => simp [sumInputs]
  | cons i rest ih =>
    unfold sumInputs
    cases get i.prev with
    | none => simp
    | some v => exact ih _

theorem totalFeeValue_ne_panic (get : PrevOut → Option Nat) (t : Tx) : totalFeeValue get t ≠ .panic := by
  unfold totalFeeValue totalInputValue
  have := sumInputs_ne_panic get t.inputs 0
  cases h : sumInputs get t.inputs 0 with
  | ok v => simp only; split <;> simp
  | err => simp
  | panic => exact absurd h this

/-- the fee of one transaction in the monetary range -/
theorem fee_spec (get : PrevOut → Option Nat) (t : Tx) (vs : List Nat)
    (hvs : inputValues get t.inputs = some vs) (hin : vs.sum < two64) (hout : outputSum t < two64) :
    totalOutputValue t = outputSum t ∧ totalInputValue get t = .ok vs.sum ∧
    ((outputSum t ≤ vs.sum ∧ totalFeeValue get t = .ok (vs.sum - outputSum t)) ∨
     (vs.sum < outputSum t ∧ totalFeeValue get t = .err)) := by
  have h1 := totalOutputValue_eq t hout
  have h2 : totalInputValue get t = .ok vs.sum := by
    unfold totalInputValue
    rw [sumInputs_eq get t.inputs vs 0 hvs (by omega)]; simp
  refine ⟨h1, h2, ?_⟩
  unfold totalFeeValue
  simp only [h1, h2, feecalc_TotalFeeValue_0]
  by_cases hlt : vs.sum < outputSum t
  · right; simp [hlt]
  · left; simp [hlt]; omega

/-- an unknown previous output surfaces as the error -/
theorem fee_missing (get : PrevOut → Option Nat) (t : Tx) (hvs : inputValues get t.inputs = none) :
    totalInputValue get t = .err ∧ totalFeeValue get t = .err := by
  have h : totalInputValue get t = .err := sumInputs_missing get t.inputs 0 hvs
  exact ⟨h, by simp [totalFeeValue, h]⟩

/-! ### block totals -/

/-- the per-transaction fees of a list of transactions, when all of them are defined -/
def feesOf (get : PrevOut → Option Nat) : List Tx → Option (List Nat)
  | [] => some []
  | t :: rest =>
    match totalFeeValue get t, feesOf get rest with
    | .ok f, some fs => some (f :: fs)
    | _, _ => none

theorem sumFees_eq (get : PrevOut → Option Nat) (txs : List Tx) (fs : List Nat) (a : Nat)
    (hfs : feesOf get txs = some fs) (h : a + fs.sum < two64) : sumFees get txs a = .ok (a + fs.sum) := by
  induction txs generalizing a fs with
  | nil => simp [feesOf] at hfs; subst hfs; simp [sumFees]
  | cons t rest ih =>
    unfold feesOf at hfs
    cases hf : totalFeeValue get t with
    | ok f =>
      cases hr : feesOf get rest with
      | none => simp [hf, hr] at hfs
      | some fs' =>
        simp only [hf, hr, Option.some.injEq] at hfs
        subst hfs
        simp only [List.sum_cons] at h
        simp only [sumFees, hf, List.sum_cons]
        rw [addU64_of_lt (by omega), ih fs' _ hr (by omega)]
        congr 1; omega
    | err => simp [hf] at hfs
    | panic => simp [hf] at hfs

theorem sumFees_err (get : PrevOut → Option Nat) (txs : List Tx) (a : Nat)
    (hfs : feesOf get txs = none) : sumFees get txs a = .err := by
  induction txs generalizing a with
  | nil => simp [feesOf] at hfs
  | cons t rest ih =>
    unfold feesOf at hfs
    cases hf : totalFeeValue get t with
    | ok f =>
      cases hr : feesOf get rest with
      | none => simp only [sumFees, hf]; exact ih _ hr
      | some fs' => simp [hf, hr] at hfs
    | err => simp [sumFees, hf]
    | panic => exact absurd hf (totalFeeValue_ne_panic get t)

/-- `TotalFeesForBlock`: the coinbase is skipped; the total is the sum of the other transactions'
    fees when that sum is below 2^64; an undefined fee makes the total an error; a block without
    transactions makes the Go function panic (`Transactions[1:]`). -/
theorem block_total_spec (get : PrevOut → Option Nat) (b : Block) :
    (b.txs = [] → totalFeesForBlock get b = .panic) ∧
    (∀ cb rest fs, b.txs = cb :: rest → feesOf get rest = some fs → fs.sum < two64 →
      totalFeesForBlock get b = .ok fs.sum) ∧
    (∀ cb rest, b.txs = cb :: rest → feesOf get rest = none → totalFeesForBlock get b = .err) := by
  refine ⟨fun h => by simp [totalFeesForBlock, h], fun cb rest fs hb hfs hlt => ?_, fun cb rest hb hfs => ?_⟩
  · simp only [totalFeesForBlock, hb]
    rw [sumFees_eq get rest fs 0 hfs (by omega)]; simp
  · simp only [totalFeesForBlock, hb]
    exact sumFees_err get rest 0 hfs

end BtcVerif.Proofs.Fee
