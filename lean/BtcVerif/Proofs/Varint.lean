import BtcVerif.Model.Varint

namespace BtcVerif.Model
open BtcVerif BtcVerif.Parser
open BtcVerif.Gen.Guards

theorem u8_ofNat_toNat (v : Nat) (h : v < 256) : (UInt8.ofNat v).toNat = v := by
  simp [UInt8.toNat_ofNat']; omega

theorem varintSize_eq_length (v : Nat) : varintSize v = (encVarint v).length := by
  unfold varintSize encVarint varint_VarInt_Size_0 varint_VarInt_Size_1 varint_VarInt_Size_2
    varint_VarInt_WriteTo_0 varint_VarInt_WriteTo_1 varint_VarInt_WriteTo_2
  by_cases h0 : v > 4294967295
  · simp [h0]
  · by_cases h1 : v > 65535
    · simp [h0, h1]
    · by_cases h2 : v > 252
      · simp [h0, h1, h2]
      · simp [h0, h1, h2]

theorem encVarint_length_pos (v : Nat) : 0 < (encVarint v).length := by
  rw [← varintSize_eq_length]; unfold varintSize
  split <;> (try split) <;> (try split) <;> omega

theorem encVarint_length_le (v : Nat) : (encVarint v).length ≤ 9 := by
  rw [← varintSize_eq_length]; unfold varintSize
  split <;> (try split) <;> (try split) <;> omega

/-- decode ∘ encode on every 64-bit value, with an arbitrary suffix left unread -/
theorem decVarint_encVarint (v : Nat) (rest : Bytes) (hv : v < 2 ^ 64) :
    decVarint (encVarint v ++ rest) = .ok (v, rest) := by
  have p2 : (256:Nat)^2 = 65536 := by decide
  have p4 : (256:Nat)^4 = 4294967296 := by decide
  have p8 : (256:Nat)^8 = 2^64 := by decide
  by_cases h0 : v > 4294967295
  · have e : encVarint v = 0xff :: leBytes 8 v := by
      simp [encVarint, varint_VarInt_WriteTo_0, h0]
    rw [e]
    have g : varint_FromReader_0 (0xff : UInt8).toNat = true := by decide
    simp only [decVarint, List.cons_append, readByte_cons, g, ite_true]
    exact readLE_append 8 v rest (by omega)
  · by_cases h1 : v > 65535
    · have e : encVarint v = 0xfe :: leBytes 4 v := by
        simp [encVarint, varint_VarInt_WriteTo_0, varint_VarInt_WriteTo_1, h0, h1]
      rw [e]
      have a : varint_FromReader_0 (0xfe : UInt8).toNat = false := by decide
      have b : varint_FromReader_1 (0xfe : UInt8).toNat = true := by decide
      simp only [decVarint, List.cons_append, readByte_cons, a, b, ite_true, Bool.false_eq_true, ite_false]
      exact readLE_append 4 v rest (by omega)
    · by_cases h2 : v > 252
      · have e : encVarint v = 0xfd :: leBytes 2 v := by
          simp [encVarint, varint_VarInt_WriteTo_0, varint_VarInt_WriteTo_1, varint_VarInt_WriteTo_2, h0, h1, h2]
        rw [e]
        have a : varint_FromReader_0 (0xfd : UInt8).toNat = false := by decide
        have b : varint_FromReader_1 (0xfd : UInt8).toNat = false := by decide
        have c : varint_FromReader_2 (0xfd : UInt8).toNat = true := by decide
        simp only [decVarint, List.cons_append, readByte_cons, a, b, c, ite_true, Bool.false_eq_true, ite_false]
        exact readLE_append 2 v rest (by omega)
      · have e : encVarint v = [UInt8.ofNat v] := by
          simp [encVarint, varint_VarInt_WriteTo_0, varint_VarInt_WriteTo_1, varint_VarInt_WriteTo_2, h0, h1, h2]
        rw [e]
        have hb : (UInt8.ofNat v).toNat = v := u8_ofNat_toNat v (by omega)
        have a : varint_FromReader_0 v = false := by simp [varint_FromReader_0]; omega
        have b : varint_FromReader_1 v = false := by simp [varint_FromReader_1]; omega
        have c : varint_FromReader_2 v = false := by simp [varint_FromReader_2]; omega
        simp only [decVarint, List.cons_append, List.nil_append, readByte_cons, hb, a, b, c, Bool.false_eq_true, ite_false]

theorem decVarint_ne_panic (s : Bytes) : decVarint s ≠ .panic := by
  unfold decVarint
  cases s with
  | nil => simp
  | cons b rest =>
    simp only [readByte_cons]
    split
    · exact readLE_ne_panic _ _
    · split
      · exact readLE_ne_panic _ _
      · split
        · exact readLE_ne_panic _ _
        · simp

/-- what a successful decode says about the input -/
theorem decVarint_ok {s rest : Bytes} {v : Nat} (h : decVarint s = .ok (v, rest)) :
    v < 2 ^ 64 ∧ ∃ pre, s = pre ++ rest ∧ 0 < pre.length ∧ pre.length ≤ 9 := by
  unfold decVarint at h
  cases s with
  | nil => simp at h
  | cons b tl =>
    simp only [readByte_cons] at h
    split at h
    · obtain ⟨hs, hlt⟩ := readLE_ok h
      refine ⟨by simpa using hlt, b :: leBytes 8 v, by simp [hs], by simp, by simp⟩
    · split at h
      · obtain ⟨hs, hlt⟩ := readLE_ok h
        refine ⟨?_, b :: leBytes 4 v, by simp [hs], by simp, by simp⟩
        have : (256:Nat)^4 = 4294967296 := by decide
        have : (2:Nat)^64 = 18446744073709551616 := by decide
        omega
      · split at h
        · obtain ⟨hs, hlt⟩ := readLE_ok h
          refine ⟨?_, b :: leBytes 2 v, by simp [hs], by simp, by simp⟩
          have : (256:Nat)^2 = 65536 := by decide
          have : (2:Nat)^64 = 18446744073709551616 := by decide
          omega
        · injection h with h; injection h with h1 h2
          subst h1 h2
          refine ⟨?_, [b], by simp, by simp, by simp⟩
          have := b.toNat_lt
          have : (2:Nat)^64 = 18446744073709551616 := by decide
          omega

/-- encode ∘ decode on canonical (minimal) input: if the bytes consumed are the minimal
    encoding of some value, that value is what was decoded. Stated as: decoding then
    re-encoding reproduces the consumed prefix *iff* the prefix was minimal. -/
theorem encVarint_decVarint_canonical {s rest : Bytes} {v w : Nat}
    (hcanon : s = encVarint w ++ rest) (hw : w < 2 ^ 64)
    (h : decVarint s = .ok (v, rest)) : encVarint v ++ rest = s := by
  subst hcanon
  rw [decVarint_encVarint w rest hw] at h
  injection h with h; injection h with h1 _
  subst h1; rfl

end BtcVerif.Model
