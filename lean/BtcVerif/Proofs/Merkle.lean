import BtcVerif.Model.Block
import BtcVerif.Spec.Consensus

namespace BtcVerif.Model
open BtcVerif
open BtcVerif.Gen.Guards

theorem pairUp_eq_hashPairs {α} (H : α → α → α) (l : List α) : pairUp H l = Spec.hashPairs H l := by
  induction l using Spec.hashPairs.induct with
  | case1 a b rest ih => simp [pairUp, Spec.hashPairs, ih]
  | case2 l h =>
    match l, h with
    | [], _ => simp [pairUp, Spec.hashPairs]
    | [a], _ => simp [pairUp, Spec.hashPairs]
    | a :: b :: rest, h => exact absurd rfl (h a b rest)

theorem hashPairs_length {α} (H : α → α → α) (l : List α) : (Spec.hashPairs H l).length = l.length / 2 := by
  induction l using Spec.hashPairs.induct with
  | case1 a b rest ih => simp [Spec.hashPairs, ih]; omega
  | case2 l h =>
    match l, h with
    | [], _ => simp [Spec.hashPairs]
    | [a], _ => simp [Spec.hashPairs]
    | a :: b :: rest, h => exact absurd rfl (h a b rest)

theorem odd_guard (n : Nat) : blocks_merkle_MerkleRootHashInternal_2 n = decide (n % 2 = 1) := by
  unfold blocks_merkle_MerkleRootHashInternal_2
  congr 1
  apply propext
  rw [Int.tmod_eq_emod_of_nonneg (by omega)]
  constructor <;> intro h <;> omega

theorem dupLast_length {α} (hs : List α) (h : hs ≠ []) :
    (Spec.dupLastIfOdd hs).length = hs.length + hs.length % 2 := by
  unfold Spec.dupLastIfOdd
  split
  · rename_i ho
    cases hl : hs.getLast? with
    | none => simp [List.getLast?_eq_none_iff] at hl; exact absurd hl h
    | some l => simp; omega
  · omega

theorem merkleModel_step {α} (H : α → α → α) (fuel : Nat) (a b c : α) (rest : List α) :
    merkleModel H (fuel + 1) (a :: b :: c :: rest) =
      merkleModel H fuel (pairUp H (Spec.dupLastIfOdd (a :: b :: c :: rest))) := by
  have hd : (if blocks_merkle_MerkleRootHashInternal_2 (a :: b :: c :: rest).length then
        (match (a :: b :: c :: rest).getLast? with
          | some l => (a :: b :: c :: rest) ++ [l] | none => a :: b :: c :: rest)
        else a :: b :: c :: rest) = Spec.dupLastIfOdd (a :: b :: c :: rest) := by
    simp only [odd_guard, Spec.dupLastIfOdd, decide_eq_true_eq]
    split
    · cases hl : (a :: b :: c :: rest).getLast? <;> rfl
    · rfl
  rw [← hd]
  rfl

/-- the library's recursion (special cases for one and two hashes, then duplicate-last, pair,
    recurse) computes Bitcoin's merkle root, for every pair-hash function and every non-empty list -/
theorem merkleModel_eq_spec {α} (H : α → α → α) (fuel : Nat) (hs : List α)
    (hne : hs ≠ []) (hf : hs.length ≤ fuel) :
    merkleModel H (fuel + 1) hs = Spec.computeMerkleRoot H fuel hs := by
  induction fuel generalizing hs with
  | zero =>
    match hs, hne with
    | [], h => exact absurd rfl h
    | _ :: _, _ => simp at hf
  | succ f ih =>
    match hs, hne with
    | [], h => exact absurd rfl h
    | [a], _ => simp [merkleModel, Spec.computeMerkleRoot]
    | [a, b], _ =>
      simp only [merkleModel, Spec.computeMerkleRoot]
      have : Spec.dupLastIfOdd [a, b] = [a, b] := by simp [Spec.dupLastIfOdd]
      rw [this]
      simp only [Spec.hashPairs]
      cases f <;> simp [Spec.computeMerkleRoot]
    | a :: b :: c :: rest, _ =>
      rw [merkleModel_step, pairUp_eq_hashPairs]
      simp only [Spec.computeMerkleRoot]
      have hlen := hashPairs_length H (Spec.dupLastIfOdd (a :: b :: c :: rest))
      have hdl := dupLast_length (a :: b :: c :: rest) (by simp)
      simp only [List.length_cons] at hf hdl
      apply ih
      · intro hc
        have := congrArg List.length hc
        rw [hlen, hdl] at this
        simp at this; omega
      · rw [hlen, hdl]; omega

/-- every non-empty list has a root (the recursion terminates within `length` levels) -/
theorem merkleModel_isSome {α} (H : α → α → α) (hs : List α) (hne : hs ≠ []) :
    (Spec.computeMerkleRoot H hs.length hs).isSome := by
  have key : ∀ (fuel : Nat) (hs : List α), hs ≠ [] → hs.length ≤ fuel + 1 →
      (Spec.computeMerkleRoot H fuel hs).isSome := by
    intro fuel
    induction fuel with
    | zero =>
      intro hs hne hf
      match hs, hne with
      | [], h => exact absurd rfl h
      | [a], _ => simp [Spec.computeMerkleRoot]
      | _ :: _ :: _, _ => simp at hf
    | succ f ih =>
      intro hs hne hf
      match hs, hne with
      | [], h => exact absurd rfl h
      | [a], _ => simp [Spec.computeMerkleRoot]
      | a :: b :: rest, _ =>
        simp only [Spec.computeMerkleRoot]
        have hlen := hashPairs_length H (Spec.dupLastIfOdd (a :: b :: rest))
        have hdl := dupLast_length (a :: b :: rest) (by simp)
        simp only [List.length_cons] at hf hdl
        apply ih
        · intro hc
          have := congrArg List.length hc
          rw [hlen, hdl] at this
          simp at this; omega
        · rw [hlen, hdl]; omega
  exact key hs.length hs hne (by omega)

end BtcVerif.Model
