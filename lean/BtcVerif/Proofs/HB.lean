import BtcVerif.Model.HB

/-! Data-race freedom from the two disciplines of the access table, in the happens-before model. -/
namespace BtcVerif.Model.HB

def RaceOn (t : Trace) (x : Nat) : Prop :=
  ∃ (i j : Nat) (a b : Event), i < j ∧ t[i]? = some a ∧ t[j]? = some b ∧ conflicting a b = true ∧ a.obj = x ∧ ¬ HB t i j

theorem race_iff (t : Trace) : Race t ↔ ∃ x, RaceOn t x := by
  constructor
  · rintro ⟨i, j, a, b, h1, h2, h3, h4, h5⟩
    exact ⟨a.obj, i, j, a, b, h1, h2, h3, h4, rfl, h5⟩
  · rintro ⟨x, i, j, a, b, h1, h2, h3, h4, _, h5⟩
    exact ⟨i, j, a, b, h1, h2, h3, h4, h5⟩

theorem conflicting_facts {a b : Event} (h : conflicting a b = true) :
    (a.kind = .read ∨ a.kind = .write) ∧ (b.kind = .read ∨ b.kind = .write) ∧ a.obj = b.obj ∧
    (a.kind = .write ∨ b.kind = .write) ∧ a.tid ≠ b.tid := by
  unfold conflicting at h
  simp only [Bool.and_eq_true, Bool.or_eq_true, beq_iff_eq, bne_iff_ne, ne_eq] at h
  obtain ⟨⟨⟨⟨h1, h2⟩, h3⟩, h4⟩, h5⟩ := h
  exact ⟨h1, h2, h3, h4, h5⟩

theorem edge_po {t : Trace} {i j : Nat} {a b : Event} (hi : t[i]? = some a) (hj : t[j]? = some b)
    (hlt : i < j) (h : a.tid = b.tid) : edge t i j = true := by
  simp [edge, hi, hj, hlt, h]

theorem edge_init {t : Trace} {i j : Nat} {a b : Event} (hi : t[i]? = some a) (hj : t[j]? = some b)
    (hlt : i < j) (ha : a.tid = 0) (hb : b.tid ≠ 0) : edge t i j = true := by
  simp [edge, hi, hj, hlt, ha, hb]

theorem edge_sync {t : Trace} {i j : Nat} {a b : Event} (hi : t[i]? = some a) (hj : t[j]? = some b)
    (hlt : i < j) (ha : a.kind = .unlock) (hb : b.kind = .lock) (ho : a.obj = b.obj) : edge t i j = true := by
  simp [edge, hi, hj, hlt, ha, hb, ho]

/-- **discipline (a)**: a location written only during initialisation is race-free for any number
    of goroutines and any interleaving -/
theorem init_only_race_free (t : Trace) (x : Nat) (hf : InitFirst t) (hx : InitOnly t x) : ¬ RaceOn t x := by
  rintro ⟨i, j, a, b, hlt, hi, hj, hc, hax, hn⟩
  obtain ⟨_, _, hobj, hw, htid⟩ := conflicting_facts hc
  rcases hw with hw | hw
  · have ha0 := hx i a hi hw hax
    exact hn (HB.step (edge_init hi hj hlt ha0 (by rw [ha0] at htid; exact fun h => htid h.symm)))
  · have hb0 := hx j b hj hw (by rw [← hobj]; exact hax)
    have ha0 := hf i j a b hlt hi hj hb0
    exact htid (by rw [ha0, hb0])

/-! ### mutex reasoning -/

theorem holder_succ_of_not_m {t : Trace} {m n : Nat} {e : Event} (he : t[n]? = some e)
    (h : ¬ (e.obj = m ∧ (e.kind = .lock ∨ e.kind = .unlock))) : holder t m (n + 1) = holder t m n := by
  simp only [holder, he]
  split
  · rename_i h1; exact absurd ⟨h1.1, Or.inl h1.2⟩ h
  · split
    · rename_i h2; exact absurd ⟨h2.1, Or.inr h2.2⟩ h
    · rfl

/-- if `a` holds `m` at `i` and no longer at `i + d`, then `a` unlocked `m` somewhere in between -/
theorem unlock_between (t : Trace) (m a i : Nat) (hm : MutexOk t) :
    ∀ d, holder t m i = some a → holder t m (i + d) ≠ some a →
      ∃ k e, i ≤ k ∧ k < i + d ∧ t[k]? = some e ∧ e.kind = .unlock ∧ e.obj = m ∧ e.tid = a := by
  intro d
  induction d with
  | zero => intro h1 h2; exact absurd h1 h2
  | succ d ih =>
    intro h1 h2
    by_cases h3 : holder t m (i + d) = some a
    · -- the change happens at step i+d
      have h2' : holder t m (i + d + 1) ≠ some a := h2
      cases he : t[i + d]? with
      | none => simp [holder, he, h3] at h2'
      | some e =>
        simp only [holder, he] at h2'
        by_cases hl : e.obj = m ∧ e.kind = .lock
        · have := (hm (i + d) e he).1 hl.2
          rw [hl.1, h3] at this; cases this
        · by_cases hu : e.obj = m ∧ e.kind = .unlock
          · have := (hm (i + d) e he).2 hu.2
            rw [hu.1, h3] at this
            injection this with this
            exact ⟨i + d, e, by omega, by omega, he, hu.2, hu.1, this.symm⟩
          · simp [hl, hu, h3] at h2'
    · obtain ⟨k, e, hk1, hk2, r⟩ := ih h1 h3
      exact ⟨k, e, hk1, by omega, r⟩

/-- whoever holds `m` at `j` locked it at some `l < j` and held it ever since -/
theorem lock_before (t : Trace) (m b : Nat) :
    ∀ j, holder t m j = some b →
      ∃ l e, l < j ∧ t[l]? = some e ∧ e.kind = .lock ∧ e.obj = m ∧ e.tid = b ∧
        ∀ n, l < n → n ≤ j → holder t m n = some b := by
  intro j
  induction j with
  | zero => intro h; simp [holder] at h
  | succ j ih =>
    intro h
    cases he : t[j]? with
    | none =>
      simp only [holder, he] at h
      obtain ⟨l, e, hl, r1, r2, r3, r4, r5⟩ := ih h
      refine ⟨l, e, by omega, r1, r2, r3, r4, ?_⟩
      intro n hn1 hn2
      by_cases hn : n = j + 1
      · subst hn; simp [holder, he, h]
      · exact r5 n hn1 (by omega)
    | some e =>
      by_cases hlk : e.obj = m ∧ e.kind = .lock
      · simp only [holder, he, hlk, and_self, ite_true] at h
        injection h with h
        refine ⟨j, e, by omega, he, hlk.2, hlk.1, h, ?_⟩
        intro n hn1 hn2
        have : n = j + 1 := by omega
        subst this
        simp [holder, he, hlk, h]
      · by_cases hu : e.obj = m ∧ e.kind = .unlock
        · simp [holder, he, hlk, hu] at h
        · have hs : holder t m (j + 1) = holder t m j := by
            simp [holder, he, hlk, hu]
          rw [hs] at h
          obtain ⟨l, e', hl, r1, r2, r3, r4, r5⟩ := ih h
          refine ⟨l, e', by omega, r1, r2, r3, r4, ?_⟩
          intro n hn1 hn2
          by_cases hn : n = j + 1
          · subst hn; rw [hs]; exact h
          · exact r5 n hn1 (by omega)

/-- **discipline (b)**: a location all of whose post-initialisation accesses are made under one
    mutex is race-free for any number of goroutines and any interleaving -/
theorem guarded_race_free (t : Trace) (x m : Nat) (hf : InitFirst t) (hm : MutexOk t)
    (hg : GuardedBy t x m) : ¬ RaceOn t x := by
  rintro ⟨i, j, a, b, hlt, hi, hj, hc, hax, hn⟩
  obtain ⟨hka, hkb, hobj, _, htid⟩ := conflicting_facts hc
  by_cases ha0 : a.tid = 0
  · exact hn (HB.step (edge_init hi hj hlt ha0 (by rw [ha0] at htid; exact fun h => htid h.symm)))
  · by_cases hb0 : b.tid = 0
    · exact ha0 (hf i j a b hlt hi hj hb0)
    · have hha := hg i a hi hka hax ha0
      have hhb := hg j b hj hkb (by rw [← hobj]; exact hax) hb0
      obtain ⟨l, el, hlj, hel, hlk, hlo, hlt', hheld⟩ := lock_before t m b.tid j hhb
      -- the lock is after i
      have hil : i < l := by
        rcases Nat.lt_trichotomy l i with h | h | h
        · have := hheld i h (by omega)
          rw [hha] at this; injection this with this; exact absurd this htid
        · subst h
          rw [hi] at hel; injection hel with hel; subst hel
          rcases hka with h | h <;> rw [h] at hlk <;> cases hlk
        · exact h
      have hfree : holder t m l = none := by
        have := (hm l el hel).1 hlk
        rw [hlo] at this; exact this
      obtain ⟨k, ek, hk1, hk2, hek, hku, hko, hkt⟩ :=
        unlock_between t m a.tid i hm (l - i) hha (by
          have : i + (l - i) = l := by omega
          rw [this, hfree]; simp)
      have hik : i < k := by
        rcases Nat.lt_or_ge i k with h | h
        · exact h
        · have : k = i := by omega
          subst this
          rw [hi] at hek; injection hek with hek; subst hek
          rcases hka with h | h <;> rw [h] at hku <;> cases hku
      have hkl : k < l := by omega
      have e1 : HB t i k := HB.step (edge_po hi hek hik hkt.symm)
      have e2 : HB t k l := HB.step (edge_sync hek hel hkl hku hlk (by rw [hko, hlo]))
      have e3 : HB t l j := HB.step (edge_po hel hj hlj hlt')
      exact hn (HB.trans (HB.trans e1 e2) e3)

/-! ### the lazy-initialisation pattern `if c.params == nil { c.params = … }` -/

/-- events produced by one call to the lazily initialising accessor by thread `tid`, given whether
    the field is already set: a read of the field, and a write when it was nil -/
def lazyCall (tid x : Nat) (isSet : Bool) : List Event :=
  if isSet then [⟨tid, .read, x⟩] else [⟨tid, .read, x⟩, ⟨tid, .write, x⟩]

/-- the D21 witness: two goroutines both see nil on their cold first call; the two writes race -/
def coldStartTrace : Trace := [⟨1, .read, 7⟩, ⟨2, .read, 7⟩, ⟨1, .write, 7⟩, ⟨2, .write, 7⟩]

theorem hb_lt {t : Trace} {i j : Nat} (h : HB t i j) : i < j := by
  induction h with
  | step h =>
    unfold edge at h
    split at h
    · simp only [Bool.and_eq_true, decide_eq_true_eq] at h; exact h.1
    · cases h
  | trans _ _ ih1 ih2 => omega

/-- in a trace without initialisation events and without mutex events, happens-before is exactly
    program order -/
theorem hb_same_tid (t : Trace) (hno : ∀ (n : Nat) (e : Event), t[n]? = some e → e.tid ≠ 0 ∧ e.kind ≠ .unlock)
    {i j : Nat} (h : HB t i j) : ∃ a b, t[i]? = some a ∧ t[j]? = some b ∧ a.tid = b.tid := by
  induction h with
  | @step i j h =>
    unfold edge at h
    split at h
    · rename_i a b ha hb
      simp only [Bool.and_eq_true, decide_eq_true_eq, Bool.or_eq_true, beq_iff_eq, bne_iff_ne] at h
      obtain ⟨_, h⟩ := h
      rcases h with (h | h) | h
      · exact ⟨a, b, ha, hb, h⟩
      · exact absurd h.1 (hno _ a ha).1
      · exact absurd h.1.1 (hno _ a ha).2
    · cases h
  | trans _ _ ih1 ih2 =>
    obtain ⟨a, b, ha, hb, hab⟩ := ih1
    obtain ⟨b', c, hb', hc, hbc⟩ := ih2
    rw [hb] at hb'; injection hb' with hb'; subst hb'
    exact ⟨a, c, ha, hc, hab.trans hbc⟩

/-- without the forced initialisation the cold start races (the reproduced defect D21) -/
theorem lazy_init_races : RaceOn coldStartTrace 7 := by
  refine ⟨2, 3, ⟨1, .write, 7⟩, ⟨2, .write, 7⟩, by decide, rfl, rfl, by decide, rfl, ?_⟩
  intro h
  obtain ⟨a, b, ha, hb, hab⟩ := hb_same_tid coldStartTrace (by
    intro n e he
    match n, he with
    | 0, he => injection he with he; subst he; exact ⟨by decide, by decide⟩
    | 1, he => injection he with he; subst he; exact ⟨by decide, by decide⟩
    | 2, he => injection he with he; subst he; exact ⟨by decide, by decide⟩
    | 3, he => injection he with he; subst he; exact ⟨by decide, by decide⟩
    | n+4, he => simp [coldStartTrace] at he) h
  injection ha with ha; injection hb with hb
  subst ha; subst hb
  cases hab

/-- once initialisation has forced the accessor, every later call finds the field set and
    contributes only reads: the location is written only during initialisation -/
theorem forced_calls_read_only (x : Nat) (calls : List Nat) :
    ∀ e ∈ (calls.map fun tid => lazyCall tid x true).flatten, e.kind = .read := by
  intro e he
  simp only [List.mem_flatten, List.mem_map] at he
  obtain ⟨l, ⟨tid, _, rfl⟩, hel⟩ := he
  simp [lazyCall] at hel
  subst hel; rfl

/-- **discipline (c)**: initialisation forces the lazy write, `k` goroutines then call the accessor
    in any order: no race on the field -/
theorem forced_init_race_free (x : Nat) (calls : List Nat) (hpos : ∀ tid ∈ calls, tid ≠ 0) :
    ¬ RaceOn (lazyCall 0 x false ++ (calls.map fun tid => lazyCall tid x true).flatten) x := by
  apply init_only_race_free
  · -- InitFirst
    intro i j a b hlt hi hj hb0
    simp only [lazyCall, ite_false, Bool.false_eq_true] at hi hj
    match i, hi with
    | 0, hi => simp at hi; subst hi; rfl
    | 1, hi => simp at hi; subst hi; rfl
    | i+2, hi =>
      exfalso
      have hjm : b ∈ (calls.map fun tid => lazyCall tid x true).flatten := by
        have : j = (j - 2) + 2 := by omega
        rw [this] at hj
        simp only [List.cons_append, List.nil_append, List.getElem?_cons_succ] at hj
        exact List.mem_of_getElem? hj
      simp only [List.mem_flatten, List.mem_map] at hjm
      obtain ⟨l, ⟨tid, ht, rfl⟩, hel⟩ := hjm
      simp [lazyCall] at hel
      subst hel
      exact hpos tid ht hb0
  · -- InitOnly
    intro i e hi hw _
    simp only [lazyCall, ite_false, Bool.false_eq_true] at hi
    match i, hi with
    | 0, hi => simp at hi; subst hi; rfl
    | 1, hi => simp at hi; subst hi; rfl
    | i+2, hi =>
      exfalso
      simp only [List.cons_append, List.nil_append, List.getElem?_cons_succ] at hi
      have := forced_calls_read_only x calls e (List.mem_of_getElem? hi)
      rw [this] at hw; cases hw

end BtcVerif.Model.HB

/-! ### from the table to traces: the discipline evaluated on the rows is a discipline of every
    execution the rows describe -/

namespace BtcVerif.Model.HB

/-- the rows describe the trace: every read or write event has a row for its location with the same
    kind and the same "during initialisation" flag, and a row marked guarded stands for an access made
    while holding the location's mutex -/
def Conforms (t : Trace) (rows : List AccessRow) (mutexOf : Nat → Nat) : Prop :=
  ∀ (i : Nat) (e : Event), t[i]? = some e → (e.kind = .read ∨ e.kind = .write) →
    ∃ r ∈ rows, r.loc = e.obj ∧ r.isWrite = decide (e.kind = .write) ∧ r.inInit = decide (e.tid = 0) ∧
      (r.guarded = true → holder t (mutexOf e.obj) i = some e.tid)

/-- discipline (a) or (b) of `locOk` on the rows of `x` -/
def locOkAB (rows : List AccessRow) (x : Nat) : Bool :=
  let mine := rows.filter (fun r => r.loc == x)
  mine.all (fun r => !r.isWrite || r.inInit) || mine.all (fun r => r.inInit || r.guarded)

theorem table_discipline_sound (t : Trace) (rows : List AccessRow) (mutexOf : Nat → Nat) (x : Nat)
    (hf : InitFirst t) (hm : MutexOk t) (hc : Conforms t rows mutexOf) (hok : locOkAB rows x = true) :
    ¬ RaceOn t x := by
  unfold locOkAB at hok
  simp only [Bool.or_eq_true, List.all_eq_true, List.mem_filter, beq_iff_eq, and_imp] at hok
  rcases hok with ha | hb
  · -- written only during initialisation
    apply init_only_race_free t x hf
    intro i e hi hw hx
    obtain ⟨r, hr, hloc, hisw, hinit, _⟩ := hc i e hi (Or.inr hw)
    have := ha r hr (by rw [hloc, hx])
    simp only [hisw, hw, decide_true, Bool.not_true, Bool.false_or] at this
    rw [hinit] at this
    rcases this with h | h
    · cases h
    · exact of_decide_eq_true h
  · -- every later access under the mutex
    apply guarded_race_free t x (mutexOf x) hf hm
    intro i e hi hk hx htid
    obtain ⟨r, hr, hloc, _, hinit, hg⟩ := hc i e hi hk
    have := hb r hr (by rw [hloc, hx])
    have hni : r.inInit = false := by rw [hinit]; exact decide_eq_false htid
    simp only [hni, Bool.false_or] at this
    rw [← hx]
    rcases this with h | h
    · cases h
    · exact hg h

end BtcVerif.Model.HB
