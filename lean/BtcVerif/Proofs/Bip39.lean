/-
  C14 — proofs about the BIP39 model (`Model/Bip39.lean`): big-endian bytes, 11-bit groups, the word
  map built by `init`, `EncodeToWords`/`DecodeWords` in arithmetic form, the round trip and the exact
  accepted set, for ANY word list of 2048 distinct words and ANY checksum-byte function; then the
  facts about the regenerated word list (via the pinned copy) and the seed parameters.
-/
import BtcVerif.Model.Bip39
import BtcVerif.Spec.Bip39
import BtcVerif.Proofs.Bip39Words

namespace BtcVerif.Proofs.Bip39
open BtcVerif BtcVerif.Model.Bip39 BtcVerif.Gen.Guards

/-! ### big-endian bytes -/

theorem bytesToNat_snoc (bs : Bytes) (b : UInt8) :
    bytesToNat (bs ++ [b]) = bytesToNat bs * 256 + b.toNat := by
  simp [bytesToNat, List.foldl_append]

theorem natToBytes_length (len n : Nat) : (natToBytes len n).length = len := by
  induction len generalizing n with
  | zero => rfl
  | succ k ih => simp [natToBytes, ih]

theorem bytesToNat_natToBytes (len n : Nat) : bytesToNat (natToBytes len n) = n % 256 ^ len := by
  induction len generalizing n with
  | zero => simp [natToBytes, bytesToNat, Nat.mod_one]
  | succ k ih =>
    rw [natToBytes, bytesToNat_snoc, ih]
    have h : (UInt8.ofNat (n % 256)).toNat = n % 256 := by
      simp [UInt8.toNat_ofNat']
    rw [h, Nat.pow_succ, Nat.mul_comm (256 ^ k) 256, Nat.mod_mul]
    omega

theorem natToBytes_bytesToNat_rev (l : Bytes) :
    natToBytes l.length (bytesToNat l.reverse) = l.reverse := by
  induction l with
  | nil => rfl
  | cons x l ih =>
    rw [List.reverse_cons, bytesToNat_snoc, List.length_cons, natToBytes]
    have hx := x.toNat_lt
    have h1 : (bytesToNat l.reverse * 256 + x.toNat) / 256 = bytesToNat l.reverse := by omega
    have h2 : (bytesToNat l.reverse * 256 + x.toNat) % 256 = x.toNat := by omega
    rw [h1, h2, ih]
    simp

theorem natToBytes_bytesToNat (bs : Bytes) : natToBytes bs.length (bytesToNat bs) = bs := by
  have := natToBytes_bytesToNat_rev bs.reverse
  simpa using this

theorem bytesToNat_lt (bs : Bytes) : bytesToNat bs < 256 ^ bs.length := by
  have h := bytesToNat_natToBytes bs.length (bytesToNat bs)
  rw [natToBytes_bytesToNat] at h
  rw [h]
  exact Nat.mod_lt _ (Nat.pow_pos (by decide))

theorem fillBytes_bytesToNat (bs : Bytes) : fillBytes (bytesToNat bs) bs.length = .ok bs := by
  simp [fillBytes, bytesToNat_lt, natToBytes_bytesToNat]


/-! ### 11-bit groups -/

theorem elevenMask_eq : elevenMask = 2 ^ 11 - 1 := by decide

theorem and_elevenMask (p : Nat) : p &&& elevenMask = p % 2048 := by
  rw [elevenMask_eq, Nat.and_two_pow_sub_one_eq_mod]

theorem shr11 (p : Nat) : p >>> 11 = p / 2048 := by
  rw [Nat.shiftRight_eq_div_pow]

theorem shl_or (a k c : Nat) (h : c < 2 ^ k) : (a <<< k) ||| c = a * 2 ^ k + c := by
  rw [← Nat.shiftLeft_add_eq_or_of_lt h, Nat.shiftLeft_eq]

/-- the value the decoding loop accumulates, arithmetically -/
def accIdx (is : List Nat) (p : Nat) : Nat := is.foldl (fun acc i => acc * 2048 + i) p

theorem accIdx_snoc (is : List Nat) (i p : Nat) : accIdx (is ++ [i]) p = accIdx is p * 2048 + i := by
  simp [accIdx, List.foldl_append]

theorem indices_length (n p : Nat) : (indices n p).length = n := by
  induction n generalizing p with
  | zero => rfl
  | succ k ih => simp [indices, ih]

theorem indices_lt (n p : Nat) : ∀ i ∈ indices n p, i < 2048 := by
  induction n generalizing p with
  | zero => intro i hi; cases hi
  | succ k ih =>
    intro i hi
    simp only [indices, List.mem_append, List.mem_singleton] at hi
    rcases hi with hi | hi
    · exact ih _ i hi
    · rw [hi, and_elevenMask]; omega

theorem accIdx_indices (n p q : Nat) : accIdx (indices n p) q = q * 2048 ^ n + p % 2048 ^ n := by
  induction n generalizing p with
  | zero => simp [indices, accIdx, Nat.mod_one]
  | succ k ih =>
    rw [indices, accIdx_snoc, ih, and_elevenMask, shr11, Nat.pow_succ,
      Nat.mul_comm (2048 ^ k) 2048, Nat.mod_mul]
    have : q * (2048 * 2048 ^ k) = q * 2048 ^ k * 2048 := by rw [Nat.mul_comm 2048, Nat.mul_assoc]
    rw [this]
    generalize q * 2048 ^ k = B
    generalize p / 2048 % 2048 ^ k = C
    omega

theorem indices_accIdx_rev (l : List Nat) (hl : ∀ i ∈ l, i < 2048) (q : Nat) :
    indices l.length (accIdx l.reverse q) = l.reverse := by
  induction l with
  | nil => simp [indices]
  | cons x l ih =>
    have hx : x < 2048 := hl x (by simp)
    rw [List.reverse_cons, accIdx_snoc, List.length_cons]
    rw [show ∀ X, indices (l.length + 1) X = indices l.length (X >>> 11) ++ [X &&& elevenMask] from
      fun _ => rfl, and_elevenMask, shr11]
    have h1 : (accIdx l.reverse q * 2048 + x) / 2048 = accIdx l.reverse q := by omega
    have h2 : (accIdx l.reverse q * 2048 + x) % 2048 = x := by omega
    rw [h1, h2, ih (fun i hi => hl i (by simp [hi]))]

theorem indices_accIdx (is : List Nat) (hl : ∀ i ∈ is, i < 2048) :
    indices is.length (accIdx is 0) = is := by
  have := indices_accIdx_rev is.reverse (by simpa using hl) 0
  simpa [indices] using this

theorem accIdx_lt (is : List Nat) (hl : ∀ i ∈ is, i < 2048) : accIdx is 0 < 2048 ^ is.length := by
  have h := accIdx_indices is.length (accIdx is 0) 0
  rw [indices_accIdx is hl] at h
  rw [h]; simp
  exact Nat.mod_lt _ (Nat.pow_pos (by decide))


/-! ### the word map -/

/-- the lookup the map built by `init` performs, as a scan: the last match wins -/
def scan : List Bytes → Nat → Bytes → Option Nat → Option Nat
  | [], _, _, acc => acc
  | x :: t, i, w, acc => scan t (i + 1) w (if x = w then some i else acc)

theorem buildMap_get (wl : List Bytes) (i : Nat) (m : WordMap) (w : Bytes) :
    (buildMap wl i m)[w]? = scan wl i w m[w]? := by
  induction wl generalizing i m with
  | nil => rfl
  | cons x t ih =>
    simp only [buildMap, scan, ih, Std.HashMap.getElem?_insert]
    congr 1
    by_cases h : x = w <;> simp [h]

theorem wordMapOf_get (wl : List Bytes) (w : Bytes) : (wordMapOf wl)[w]? = scan wl 0 w none := by
  simp [wordMapOf, buildMap_get]

theorem scan_not_mem (t : List Bytes) (i : Nat) (w : Bytes) (acc : Option Nat) (h : w ∉ t) :
    scan t i w acc = acc := by
  induction t generalizing i acc with
  | nil => rfl
  | cons x t ih =>
    have hx : x ≠ w := fun e => h (by simp [e])
    simp only [scan, hx, if_false]
    exact ih _ _ (fun hm => h (by simp [hm]))

/-- soundness: what the map returns is a position of the word -/
theorem scan_some (wl : List Bytes) (i : Nat) (w : Bytes) (acc : Option Nat) (k : Nat)
    (h : scan wl i w acc = some k) : acc = some k ∨ (i ≤ k ∧ wl[k - i]? = some w) := by
  induction wl generalizing i acc with
  | nil => exact Or.inl h
  | cons x t ih =>
    simp only [scan] at h
    rcases ih _ _ h with h1 | ⟨h1, h2⟩
    · by_cases hx : x = w
      · simp only [hx, if_true] at h1
        injection h1 with h1
        subst h1; right; simp [hx]
      · simp only [hx, if_false] at h1; exact Or.inl h1
    · right
      refine ⟨by omega, ?_⟩
      have : k - i = (k - (i + 1)) + 1 := by omega
      rw [this]; simpa using h2

/-- completeness without repetitions: the position of a word is what the map returns -/
theorem scan_nodup (wl : List Bytes) (hn : wl.Nodup) (i j : Nat) (w : Bytes) (acc : Option Nat)
    (h : wl[j]? = some w) : scan wl i w acc = some (i + j) := by
  induction wl generalizing i j acc with
  | nil => simp at h
  | cons x t ih =>
    have hn' := List.nodup_cons.mp hn
    cases j with
    | zero =>
      simp at h; subst h
      simp only [scan, if_true]
      rw [scan_not_mem t _ _ _ hn'.1]; simp
    | succ j' =>
      simp at h
      have hw : w ∈ t := List.mem_of_getElem? h
      have hx : x ≠ w := fun e => hn'.1 (e ▸ hw)
      simp only [scan, hx, if_false]
      rw [ih hn'.2 (i + 1) j' acc h]
      congr 1; omega

/-- with a repetition-free list of 2048 words, the map inverts indexing -/
theorem map_iff (wl : List Bytes) (hn : wl.Nodup) (w : Bytes) (k : Nat) :
    (wordMapOf wl)[w]? = some k ↔ wl[k]? = some w := by
  rw [wordMapOf_get]
  constructor
  · intro h
    rcases scan_some wl 0 w none k h with h1 | ⟨_, h2⟩
    · cases h1
    · simpa using h2
  · intro h
    simpa using scan_nodup wl hn 0 k w none h


/-! ### the two loops as relations -/

/-- two lists related element by element -/
inductive All₂ {α β : Type} (R : α → β → Prop) : List α → List β → Prop
  | nil : All₂ R [] []
  | cons {a b l₁ l₂} : R a b → All₂ R l₁ l₂ → All₂ R (a :: l₁) (b :: l₂)

theorem All₂.length_eq {α β : Type} {R : α → β → Prop} {l₁ : List α} {l₂ : List β}
    (h : All₂ R l₁ l₂) : l₁.length = l₂.length := by
  induction h with
  | nil => rfl
  | cons _ _ ih => simp [ih]

theorem All₂.flip {α β : Type} {R : α → β → Prop} {S : β → α → Prop} {l₁ : List α} {l₂ : List β}
    (hRS : ∀ a b, R a b → S b a) (h : All₂ R l₁ l₂) : All₂ S l₂ l₁ := by
  induction h with
  | nil => exact .nil
  | cons h1 _ ih => exact .cons (hRS _ _ h1) ih

theorem All₂.right_forall {α β : Type} {R : α → β → Prop} {P : β → Prop} {l₁ : List α} {l₂ : List β}
    (hP : ∀ a b, R a b → P b) (h : All₂ R l₁ l₂) : ∀ b ∈ l₂, P b := by
  induction h with
  | nil => intro b hb; cases hb
  | cons h1 _ ih =>
    intro b hb
    rcases List.mem_cons.mp hb with rfl | hb
    · exact hP _ _ h1
    · exact ih b hb

theorem lookupAll_ok_iff (wl : List Bytes) (is : List Nat) (ws : List Bytes) :
    lookupAll wl is = .ok ws ↔ All₂ (fun i w => wl[i]? = some w) is ws := by
  induction is generalizing ws with
  | nil =>
    simp only [lookupAll]
    constructor
    · intro h; injection h with h; subst h; exact .nil
    · intro h; cases h; rfl
  | cons i is ih =>
    simp only [lookupAll]
    constructor
    · intro h
      split at h
      · cases h
      · rename_i w hw
        split at h
        · rename_i ws' hws
          injection h with h; subst h
          exact .cons hw ((ih ws').mp hws)
        · cases h
        · cases h
    · intro h
      cases h with
      | cons hw hrest =>
        rename_i w ws'
        simp only [hw, (ih ws').mpr hrest]

theorem lookupAll_total (wl : List Bytes) (is : List Nat) (h : ∀ i ∈ is, i < wl.length) :
    ∃ ws, lookupAll wl is = .ok ws := by
  induction is with
  | nil => exact ⟨[], rfl⟩
  | cons i is ih =>
    obtain ⟨ws, hws⟩ := ih (fun j hj => h j (by simp [hj]))
    have hi : i < wl.length := h i (by simp)
    refine ⟨wl[i] :: ws, ?_⟩
    simp only [lookupAll, List.getElem?_eq_getElem hi, hws]

/-- the decoding loop with the code's shift and or -/
def accBits (is : List Nat) (p : Nat) : Nat := is.foldl (fun acc i => (acc <<< 11) ||| i) p

theorem accBits_eq (is : List Nat) (h : ∀ i ∈ is, i < 2048) (p : Nat) : accBits is p = accIdx is p := by
  induction is generalizing p with
  | nil => rfl
  | cons i is ih =>
    have hi : i < 2 ^ 11 := h i (by simp)
    simp only [accBits, accIdx, List.foldl_cons]
    rw [shl_or _ _ _ hi]
    exact ih (fun j hj => h j (by simp [hj])) _

theorem accumulate_some_iff (wm : WordMap) (ws : List Bytes) (p q : Nat) :
    accumulate wm ws p = some q ↔
      ∃ is, All₂ (fun w i => wm[w]? = some i) ws is ∧ q = accBits is p := by
  induction ws generalizing p with
  | nil =>
    simp only [accumulate]
    constructor
    · intro h; injection h with h; exact ⟨[], .nil, h.symm⟩
    · rintro ⟨is, hf, hq⟩; cases hf; simp [hq, accBits]
  | cons w ws ih =>
    simp only [accumulate, bip39_DecodeWords_5]
    cases hw : wm[w]? with
    | none =>
      simp only [Option.isSome_none, Bool.not_false, if_true]
      constructor
      · intro h; cases h
      · rintro ⟨is, hf, _⟩
        cases hf with
        | cons h1 _ => rw [hw] at h1; cases h1
    | some i =>
      simp only [Option.isSome_some, Bool.not_true]
      constructor
      · intro h
        obtain ⟨is, hf, hq⟩ := (ih _).mp h
        exact ⟨i :: is, .cons hw hf, by simpa [accBits] using hq⟩
      · rintro ⟨is, hf, hq⟩
        cases hf with
        | cons h1 hrest =>
          rename_i i' is'
          rw [hw] at h1; injection h1 with h1; subst h1
          exact (ih _).mpr ⟨is', hrest, by simpa [accBits] using hq⟩


/-! ### sizes -/

/-- the five entropy sizes (bytes) -/
def ValidLen (L : Nat) : Prop := L = 16 ∨ L = 20 ∨ L = 24 ∨ L = 28 ∨ L = 32

/-- the five word counts -/
def ValidCount (n : Nat) : Prop := n = 12 ∨ n = 15 ∨ n = 18 ∨ n = 21 ∨ n = 24

instance (L : Nat) : Decidable (ValidLen L) := by unfold ValidLen; infer_instance
instance (n : Nat) : Decidable (ValidCount n) := by unfold ValidCount; infer_instance

theorem invalidEntropySize_iff (L : Nat) :
    invalidEntropySize ((L * 8 : Nat) : Int) = false ↔ ValidLen L := by
  simp only [invalidEntropySize, bip39_ValidateEntropySize_0, ValidLen, Bool.or_eq_false_iff,
    decide_eq_false_iff_not]
  have : Int.tmod ((L * 8 : Nat) : Int) 32 = ((L * 8 % 32 : Nat) : Int) := by
    rw [Int.tmod_eq_emod_of_nonneg (by omega)]; omega
  rw [this]
  omega

theorem wordCountOk_iff (n : Nat) : wordCountOk (n : Int) = true ↔ ValidCount n := by
  simp only [wordCountOk, bip39_DecodeWords_0, bip39_DecodeWords_1, bip39_DecodeWords_2,
    bip39_DecodeWords_3, bip39_DecodeWords_4, Bool.or_eq_true, decide_eq_true_eq, ValidCount]
  omega

theorem mask_eq (k : Nat) (hk : k ≤ 8) : 0xff >>> (8 - k) = 2 ^ k - 1 := by
  have : k = 0 ∨ k = 1 ∨ k = 2 ∨ k = 3 ∨ k = 4 ∨ k = 5 ∨ k = 6 ∨ k = 7 ∨ k = 8 := by omega
  rcases this with rfl | rfl | rfl | rfl | rfl | rfl | rfl | rfl | rfl <;> decide

theorem byte_shr_lt (b : UInt8) (k : Nat) (hk : k ≤ 8) : b.toNat >>> (8 - k) < 2 ^ k := by
  rw [Nat.shiftRight_eq_div_pow, Nat.div_lt_iff_lt_mul (Nat.pow_pos (by decide)), ← Nat.pow_add]
  have : k + (8 - k) = 8 := by omega
  rw [this]; exact b.toNat_lt

theorem two_pow_le_256 (k : Nat) (hk : k ≤ 8) : 2 ^ k ≤ 256 := by
  have : (256 : Nat) = 2 ^ 8 := by decide
  rw [this]; exact Nat.pow_le_pow_right (by decide) hk

/-- `2048^n = 256^L * 2^c` when `11 n = 8 L + c` -/
theorem pow_shape (n L c : Nat) (h : 11 * n = 8 * L + c) : 2048 ^ n = 256 ^ L * 2 ^ c := by
  have h1 : (2048 : Nat) = 2 ^ 11 := by decide
  have h2 : (256 : Nat) = 2 ^ 8 := by decide
  rw [h1, h2, ← Nat.pow_mul, ← Nat.pow_mul, ← Nat.pow_add, h]


/-! ### `EncodeToWords` and `DecodeWords`, arithmetically -/

/-- the checksum bits `EncodeToWords` appends -/
def csBits (csByte : Bytes → UInt8) (e : Bytes) : Nat := (csByte e).toNat >>> (8 - e.length / 4)

/-- entropy ‖ checksum as a number -/
def payloadOf (csByte : Bytes → UInt8) (e : Bytes) : Nat :=
  bytesToNat e * 2 ^ (e.length / 4) + csBits csByte e

theorem csBits_lt (csByte : Bytes → UInt8) (e : Bytes) (h : e.length / 4 ≤ 8) :
    csBits csByte e < 2 ^ (e.length / 4) := byte_shr_lt _ _ h

theorem encode_invalid (wl : List Bytes) (csByte : Bytes → UInt8) (e : Bytes)
    (hv : ¬ ValidLen e.length) : encode wl csByte e = .err := by
  have : invalidEntropySize ((e.length * 8 : Nat) : Int) = true := by
    cases h : invalidEntropySize ((e.length * 8 : Nat) : Int) with
    | true => rfl
    | false => exact absurd ((invalidEntropySize_iff _).mp h) hv
  simp only [encode, this, ↓reduceIte]

theorem encode_valid (wl : List Bytes) (csByte : Bytes → UInt8) (e : Bytes) (hv : ValidLen e.length) :
    encode wl csByte e = lookupAll wl (indices (e.length * 3 / 4) (payloadOf csByte e)) := by
  have hg := (invalidEntropySize_iff _).mpr hv
  have h1 : e.length * 8 / 32 = e.length / 4 := by omega
  have h2 : (e.length * 8 + e.length / 4) / 11 = e.length * 3 / 4 := by
    unfold ValidLen at hv; omega
  have h3 : e.length / 4 ≤ 8 := by unfold ValidLen at hv; omega
  simp only [encode, hg, h1, h2, Bool.false_eq_true, if_false]
  have hlt := csBits_lt csByte e h3
  unfold csBits at hlt
  rw [shl_or _ _ _ hlt]
  rfl

theorem payloadOf_lt (csByte : Bytes → UInt8) (e : Bytes) (hv : ValidLen e.length) :
    payloadOf csByte e < 2048 ^ (e.length * 3 / 4) := by
  have h3 : e.length / 4 ≤ 8 := by unfold ValidLen at hv; omega
  have hs : 11 * (e.length * 3 / 4) = 8 * e.length + e.length / 4 := by
    unfold ValidLen at hv; omega
  rw [pow_shape _ _ _ hs]
  have hb := bytesToNat_lt e
  have hc := csBits_lt csByte e h3
  unfold payloadOf
  calc bytesToNat e * 2 ^ (e.length / 4) + csBits csByte e
      < bytesToNat e * 2 ^ (e.length / 4) + 2 ^ (e.length / 4) := by omega
    _ = (bytesToNat e + 1) * 2 ^ (e.length / 4) := by rw [Nat.add_mul, Nat.one_mul]
    _ ≤ 256 ^ e.length * 2 ^ (e.length / 4) := Nat.mul_le_mul_right _ hb

theorem decode_ok_iff (wm : WordMap) (csByte : Bytes → UInt8) (ws : List Bytes) (e : Bytes) :
    decode wm csByte ws = .ok e ↔
      ValidCount ws.length ∧ ∃ P, accumulate wm ws 0 = some P ∧
        P / 2 ^ (ws.length / 3) < 256 ^ ((ws.length * 11 - ws.length / 3) / 8) ∧
        e = natToBytes ((ws.length * 11 - ws.length / 3) / 8) (P / 2 ^ (ws.length / 3)) ∧
        P % 2 ^ (ws.length / 3) = (csByte e).toNat >>> (8 - ws.length / 3) := by
  unfold decode
  by_cases hc : ValidCount ws.length
  · have hg := (wordCountOk_iff _).mpr hc
    have h8 : ws.length / 3 ≤ 8 := by unfold ValidCount at hc; omega
    simp only [hg, Bool.not_true, Bool.false_eq_true, if_false, hc, true_and]
    cases hacc : accumulate wm ws 0 with
    | none => simp
    | some P =>
      simp only [Option.some.injEq, exists_eq_left']
      have hm : (P &&& 0xff >>> (8 - ws.length / 3)) % 256 = P % 2 ^ (ws.length / 3) := by
        rw [mask_eq _ h8, Nat.and_two_pow_sub_one_eq_mod]
        exact Nat.mod_eq_of_lt (Nat.lt_of_lt_of_le (Nat.mod_lt _ (Nat.pow_pos (by decide)))
          (two_pow_le_256 _ h8))
      rw [hm, Nat.shiftRight_eq_div_pow]
      unfold fillBytes
      by_cases hfit : P / 2 ^ (ws.length / 3) < 256 ^ ((ws.length * 11 - ws.length / 3) / 8)
      · simp only [hfit, if_true, true_and, bip39_DecodeWords_6]
        constructor
        · intro h
          by_cases hne : P % 2 ^ (ws.length / 3) =
              (csByte (natToBytes ((ws.length * 11 - ws.length / 3) / 8)
                (P / 2 ^ (ws.length / 3)))).toNat >>> (8 - ws.length / 3)
          · simp only [ne_eq, hne, not_true_eq_false, decide_false, Bool.false_eq_true,
              ↓reduceIte, Outcome.ok.injEq] at h
            subst h
            exact ⟨rfl, hne⟩
          · simp [hne] at h
        · rintro ⟨he, hcs⟩
          subst he
          simp [hcs]
      · simp [hfit]
  · have hg : wordCountOk (ws.length : Int) = false := by
      cases h : wordCountOk (ws.length : Int) with
      | false => rfl
      | true => exact absurd ((wordCountOk_iff _).mp h) hc
    simp [hg, hc]


/-! ### the round trip and the accepted set -/

theorem decode_of_encode (wl : List Bytes) (hnd : wl.Nodup)
    (csByte : Bytes → UInt8) (e : Bytes) (ws : List Bytes) (h : encode wl csByte e = .ok ws) :
    decode (wordMapOf wl) csByte ws = .ok e := by
  by_cases hv : ValidLen e.length
  · rw [encode_valid _ _ _ hv] at h
    have hall := (lookupAll_ok_iff _ _ _).mp h
    have hlenws : ws.length = e.length * 3 / 4 := by rw [← hall.length_eq, indices_length]
    have hflip : All₂ (fun w i => (wordMapOf wl)[w]? = some i) ws
        (indices (e.length * 3 / 4) (payloadOf csByte e)) :=
      hall.flip (fun i w hi => (map_iff wl hnd w i).mpr hi)
    have hP : accBits (indices (e.length * 3 / 4) (payloadOf csByte e)) 0 = payloadOf csByte e := by
      rw [accBits_eq _ (indices_lt _ _), accIdx_indices, Nat.zero_mul, Nat.zero_add,
        Nat.mod_eq_of_lt (payloadOf_lt csByte e hv)]
    have hacc : accumulate (wordMapOf wl) ws 0 = some (payloadOf csByte e) :=
      (accumulate_some_iff _ _ _ _).mpr ⟨_, hflip, hP.symm⟩
    have hc : e.length * 3 / 4 / 3 = e.length / 4 := by unfold ValidLen at hv; omega
    have hL : (e.length * 3 / 4 * 11 - e.length / 4) / 8 = e.length := by
      unfold ValidLen at hv; omega
    have h8 : e.length / 4 ≤ 8 := by unfold ValidLen at hv; omega
    have hpos : 0 < 2 ^ (e.length / 4) := Nat.pow_pos (by decide)
    have hcb := csBits_lt csByte e h8
    have hdiv : payloadOf csByte e / 2 ^ (e.length / 4) = bytesToNat e := by
      unfold payloadOf
      rw [Nat.mul_comm, Nat.mul_add_div hpos, Nat.div_eq_of_lt hcb, Nat.add_zero]
    have hmod : payloadOf csByte e % 2 ^ (e.length / 4) = csBits csByte e := by
      unfold payloadOf
      rw [Nat.mul_comm, Nat.mul_add_mod, Nat.mod_eq_of_lt hcb]
    refine (decode_ok_iff _ _ _ _).mpr ⟨?_, payloadOf csByte e, hacc, ?_, ?_, ?_⟩
    · rw [hlenws]; unfold ValidLen at hv; unfold ValidCount; omega
    · rw [hlenws, hc, hL, hdiv]; exact bytesToNat_lt e
    · rw [hlenws, hc, hL, hdiv, natToBytes_bytesToNat]
    · rw [hlenws, hc, hmod]; rfl
  · rw [encode_invalid _ _ _ hv] at h; cases h

theorem encode_of_decode (wl : List Bytes) (hlen : wl.length = 2048) (hnd : wl.Nodup)
    (csByte : Bytes → UInt8) (e : Bytes) (ws : List Bytes)
    (h : decode (wordMapOf wl) csByte ws = .ok e) : encode wl csByte e = .ok ws := by
  obtain ⟨hc, P, hacc, hfit, he, hcs⟩ := (decode_ok_iff _ _ _ _).mp h
  obtain ⟨is, hf, hP⟩ := (accumulate_some_iff _ _ _ _).mp hacc
  have hislen : is.length = ws.length := hf.length_eq.symm
  have hislt : ∀ i ∈ is, i < 2048 := by
    refine hf.right_forall (P := fun i => i < 2048) ?_
    intro w i hwi
    have := (map_iff wl hnd w i).mp hwi
    have hi : i < wl.length := by
      rcases Nat.lt_or_ge i wl.length with hlt | hge
      · exact hlt
      · rw [List.getElem?_eq_none hge] at this; cases this
    omega
  rw [accBits_eq _ hislt] at hP
  have hPlt : P < 2048 ^ ws.length := by rw [hP, ← hislen]; exact accIdx_lt is hislt
  have helen : e.length = (ws.length * 11 - ws.length / 3) / 8 := by rw [he, natToBytes_length]
  have hv : ValidLen e.length := by rw [helen]; unfold ValidCount at hc; unfold ValidLen; omega
  have hn : e.length * 3 / 4 = ws.length := by rw [helen]; unfold ValidCount at hc; omega
  have hc4 : e.length / 4 = ws.length / 3 := by rw [helen]; unfold ValidCount at hc; omega
  have hB : bytesToNat e = P / 2 ^ (ws.length / 3) := by
    rw [he, bytesToNat_natToBytes, Nat.mod_eq_of_lt hfit]
  have hpay : payloadOf csByte e = P := by
    unfold payloadOf csBits
    rw [hc4, hB, ← hcs, Nat.mul_comm]
    exact Nat.div_add_mod P _
  rw [encode_valid _ _ _ hv, hn, hpay, hP, ← hislen, indices_accIdx is hislt]
  exact (lookupAll_ok_iff _ _ _).mpr (hf.flip (fun w i hwi => (map_iff wl hnd w i).mp hwi))

/-- `DecodeWords` accepts exactly the encodings -/
theorem accepts_iff (wl : List Bytes) (hlen : wl.length = 2048) (hnd : wl.Nodup)
    (csByte : Bytes → UInt8) (e : Bytes) (ws : List Bytes) :
    decode (wordMapOf wl) csByte ws = .ok e ↔ encode wl csByte e = .ok ws :=
  ⟨encode_of_decode wl hlen hnd csByte e ws, decode_of_encode wl hnd csByte e ws⟩

theorem encode_total (wl : List Bytes) (hlen : wl.length = 2048) (csByte : Bytes → UInt8) (e : Bytes)
    (hv : ValidLen e.length) : ∃ ws, encode wl csByte e = .ok ws ∧ ws.length = e.length * 3 / 4 := by
  rw [encode_valid _ _ _ hv]
  obtain ⟨ws, hws⟩ := lookupAll_total wl (indices (e.length * 3 / 4) (payloadOf csByte e))
    (fun i hi => by rw [hlen]; exact indices_lt _ _ i hi)
  exact ⟨ws, hws, by rw [← ((lookupAll_ok_iff _ _ _).mp hws).length_eq, indices_length]⟩


/-- soundness of the map without any assumption on the list -/
theorem map_sound (wl : List Bytes) (w : Bytes) (k : Nat) (h : (wordMapOf wl)[w]? = some k) :
    wl[k]? = some w := by
  rw [wordMapOf_get] at h
  rcases scan_some wl 0 w none k h with h1 | ⟨_, h2⟩
  · cases h1
  · simpa using h2

/-- `DecodeWords` cannot panic: the number always fits the buffer `FillBytes` is given -/
theorem decode_ne_panic (wl : List Bytes) (hlen : wl.length = 2048) (csByte : Bytes → UInt8)
    (ws : List Bytes) : decode (wordMapOf wl) csByte ws ≠ .panic := by
  unfold decode
  by_cases hc : ValidCount ws.length
  · have hg := (wordCountOk_iff _).mpr hc
    simp only [hg, Bool.not_true, Bool.false_eq_true, if_false]
    cases hacc : accumulate (wordMapOf wl) ws 0 with
    | none => simp
    | some P =>
      obtain ⟨is, hf, hP⟩ := (accumulate_some_iff _ _ _ _).mp hacc
      have hislen : is.length = ws.length := hf.length_eq.symm
      have hislt : ∀ i ∈ is, i < 2048 := by
        refine hf.right_forall (P := fun i => i < 2048) ?_
        intro w i hwi
        have := map_sound wl w i hwi
        rcases Nat.lt_or_ge i wl.length with hlt | hge
        · omega
        · rw [List.getElem?_eq_none hge] at this; cases this
      rw [accBits_eq _ hislt] at hP
      have hPlt : P < 2048 ^ ws.length := by rw [hP, ← hislen]; exact accIdx_lt is hislt
      have hs : 11 * ws.length = 8 * ((ws.length * 11 - ws.length / 3) / 8) + ws.length / 3 := by
        unfold ValidCount at hc; omega
      rw [pow_shape _ _ _ hs] at hPlt
      have hfit : P >>> (ws.length / 3) < 256 ^ ((ws.length * 11 - ws.length / 3) / 8) := by
        rw [Nat.shiftRight_eq_div_pow]
        exact (Nat.div_lt_iff_lt_mul (Nat.pow_pos (by decide))).mpr hPlt
      simp only [fillBytes, hfit, if_true]
      split <;> simp
  · have hg : wordCountOk (ws.length : Int) = false := by
      cases h : wordCountOk (ws.length : Int) with
      | false => rfl
      | true => exact absurd ((wordCountOk_iff _).mp h) hc
    simp [hg]

/-- `EncodeToWords` cannot panic on a list of 2048 words -/
theorem encode_ne_panic (wl : List Bytes) (hlen : wl.length = 2048) (csByte : Bytes → UInt8)
    (e : Bytes) : encode wl csByte e ≠ .panic := by
  by_cases hv : ValidLen e.length
  · obtain ⟨ws, h, _⟩ := encode_total wl hlen csByte e hv
    rw [h]; simp
  · rw [encode_invalid _ _ _ hv]; simp

/-! ### `GenerateMnemonic` -/

theorem invalidEntropySize_nat (b : Nat) :
    invalidEntropySize (b : Int) = false ↔ 128 ≤ b ∧ b ≤ 256 ∧ b % 32 = 0 := by
  simp only [invalidEntropySize, bip39_ValidateEntropySize_0, Bool.or_eq_false_iff,
    decide_eq_false_iff_not]
  have : Int.tmod (b : Int) 32 = ((b % 32 : Nat) : Int) := by
    rw [Int.tmod_eq_emod_of_nonneg (by omega)]; omega
  rw [this]
  omega

/-- `GenerateEntropy` followed by `EncodeToWords`, for a non-negative bit size -/
theorem generate_of_bitSize (wl : List Bytes) (csByte : Bytes → UInt8) (rand : Bytes) (b : Nat)
    (ws : List Bytes)
    (h : generateFrom wl csByte rand (b : Int) = .ok ws) :
    (128 ≤ b ∧ b ≤ 256 ∧ b % 32 = 0) ∧ ws.length = b / 8 * 3 / 4 ∧ b / 8 ≤ rand.length := by
  unfold generateFrom generateEntropy at h
  cases hg : invalidEntropySize (b : Int) with
  | true => rw [hg] at h; simp at h
  | false =>
    have hb := (invalidEntropySize_nat _).mp hg
    rw [hg] at h
    simp only [Bool.false_eq_true, if_false] at h
    have hl : ((b : Int) / 8).toNat = b / 8 := by omega
    rw [hl] at h
    cases hr : Parser.readN (b / 8) rand with
    | err => simp [hr] at h
    | panic => simp [hr] at h
    | ok p =>
      obtain ⟨ent, rest⟩ := p
      obtain ⟨hsplit, hlen⟩ := Parser.readN_ok hr
      simp only [hr] at h
      have hv : ValidLen ent.length := by rw [hlen]; unfold ValidLen; omega
      rw [encode_valid _ _ _ hv] at h
      have hall := (lookupAll_ok_iff _ _ _).mp h
      refine ⟨hb, ?_, ?_⟩
      · rw [← hall.length_eq, indices_length, hlen]
      · rw [hsplit, List.length_append, hlen]; omega

theorem mnemonic_bitSize (n : Nat) (hn : n < 288230376151711744) :
    Int.tdiv (BtcVerif.Gen.wrapS 18446744073709551616 ((n : Int) * 32)) 3
      = ((n * 32 / 3 : Nat) : Int) := by
  have t1 : (0 : Int) ≤ (n : Int) * 32 := by omega
  have t2 : 2 * ((n : Int) * 32) < ((18446744073709551616 : Nat) : Int) := by omega
  rw [BtcVerif.Gen.wrapS_of_small _ _ t1 t2]
  clear t2 hn
  rw [Int.tdiv_eq_ediv_of_nonneg t1]
  omega

/-- for a word count whose product with 32 does not overflow Go's `int` (n < 2^58):
    `GenerateMnemonic` succeeds only for 12/15/18/21/24 words, returns that many words, and has
    read `n*4/3` bytes -/
theorem generateMnemonic_ok (wl : List Bytes) (csByte : Bytes → UInt8) (rand : Bytes) (n : Nat)
    (hn : n < 288230376151711744) (ws : List Bytes)
    (h : generateMnemonic wl csByte rand (n : Int) = .ok ws) :
    ValidCount n ∧ ws.length = n ∧ n * 4 / 3 ≤ rand.length := by
  unfold generateMnemonic at h
  rw [mnemonic_bitSize n hn] at h
  obtain ⟨hb, hlen, hr⟩ := generate_of_bitSize wl csByte rand _ ws h
  clear hn h
  have hcount : ValidCount n := by unfold ValidCount; omega
  unfold ValidCount at hcount
  refine ⟨hcount, by omega, by omega⟩

/-- … and it does succeed for those counts when the reader has enough bytes; the mnemonic decodes
    to the bytes read -/
theorem generateMnemonic_succeeds (wl : List Bytes) (hlen : wl.length = 2048) (hnd : wl.Nodup)
    (csByte : Bytes → UInt8) (rand : Bytes) (n : Nat) (hc : ValidCount n)
    (hr : n * 4 / 3 ≤ rand.length) :
    ∃ ws, generateMnemonic wl csByte rand (n : Int) = .ok ws ∧ ws.length = n ∧
      decode (wordMapOf wl) csByte ws = .ok (rand.take (n * 4 / 3)) := by
  have hn : n < 288230376151711744 := by unfold ValidCount at hc; omega
  unfold generateMnemonic
  rw [mnemonic_bitSize n hn]
  clear hn
  have hg : invalidEntropySize ((n * 32 / 3 : Nat) : Int) = false :=
    (invalidEntropySize_nat _).mpr (by unfold ValidCount at hc; omega)
  have hl : (((n * 32 / 3 : Nat) : Int) / 8).toNat = n * 4 / 3 := by
    unfold ValidCount at hc; omega
  have hread : Parser.readN (n * 4 / 3) rand = .ok (rand.take (n * 4 / 3), rand.drop (n * 4 / 3)) := by
    simp [Parser.readN, List.length_take, Nat.min_eq_left hr]
  have hv : ValidLen (rand.take (n * 4 / 3)).length := by
    rw [List.length_take, Nat.min_eq_left hr]; unfold ValidCount at hc; unfold ValidLen; omega
  obtain ⟨ws, hws, hwl⟩ := encode_total wl hlen csByte _ hv
  refine ⟨ws, ?_, ?_, decode_of_encode wl hnd csByte _ ws hws⟩
  · simp only [generateFrom, generateEntropy, hg, Bool.false_eq_true, if_false, hl, hread, hws]
  · rw [hwl, List.length_take, Nat.min_eq_left hr]; unfold ValidCount at hc; omega

/-! ### the word list of the source -/

/-- T1: the list regenerated from wordlist.go is the pinned copy (re-checked on every run) -/
theorem gen_wordList_eq_spec : BtcVerif.Gen.bip39_WordList = Spec.Bip39.wordList := rfl

theorem wordList_eq : wordList = Bip39WordList.specWords := by
  unfold wordList Bip39WordList.specWords
  rw [gen_wordList_eq_spec]; rfl

theorem wordList_length : wordList.length = 2048 := by
  rw [wordList_eq]; exact Bip39WordList.specWords_length

theorem wordList_nodup : wordList.Nodup := by
  rw [wordList_eq]; exact Bip39WordList.specWords_nodup

theorem wordList_no_space : ∀ w ∈ wordList, (0x20 : UInt8) ∉ w := by
  rw [wordList_eq]; exact Bip39WordList.specWords_no_space

/-! ### the seed -/

theorem saltPrefix_eq : utf8 BtcVerif.Gen.bip39_SeedSaltPrefix = Spec.Bip39.saltPrefix := by
  decide +kernel

theorem deriveSeed_eq_spec (pbkdf2 : Bytes → Bytes → Nat → Nat → Bytes) (ws : List Bytes)
    (pass : Bytes) : deriveSeed pbkdf2 ws pass = Spec.Bip39.seed pbkdf2 (joinWords ws) pass := by
  simp only [deriveSeed, Spec.Bip39.seed, saltPrefix_eq]
  rfl

end BtcVerif.Proofs.Bip39
