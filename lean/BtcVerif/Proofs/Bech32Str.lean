/-
  Helper lemmas for C08 (Bech32), part 3: string-level facts — the alphabet, `LastIndex`, the
  character loop of `Validate`, case folding. Core Lean only.
-/
import BtcVerif.Model.Bech32
import BtcVerif.Spec.Bech32
import BtcVerif.Proofs.Base58

namespace BtcVerif.Proofs.Bech32
open BtcVerif BtcVerif.Model BtcVerif.Model.Bech32 BtcVerif.Gen BtcVerif.Gen.Guards

/-! ### the alphabet (facts about the regenerated constant, by evaluation) -/

/-- the character of a value (total, proof side) -/
def achar (v : Nat) : UInt8 :=
  match alphabet[v]? with
  | some c => c
  | none => 0

theorem alphabet_length : alphabet.length = 32 := by decide

theorem achar_facts : ∀ v, v < 32 →
    alphabet[v]? = some (achar v) ∧ alphaIndex (achar v) = v ∧ achar v ≠ sepChar ∧
    33 ≤ (achar v).toNat ∧ (achar v).toNat ≤ 126 ∧ lowerByte (achar v) = achar v ∧
    alphabet.contains (achar v) = true := by decide

theorem contains_iff_index (c : UInt8) :
    alphabet.contains c = true ↔ ∃ i, Base58.indexOf alphabet c = some i := by
  constructor
  · intro h
    cases hi : Base58.indexOf alphabet c with
    | some i => exact ⟨i, rfl⟩
    | none =>
      have := Base58.indexOf_none_of_not_mem alphabet c hi
      rw [List.contains_iff_mem] at h
      exact absurd h this
  · rintro ⟨i, hi⟩
    obtain ⟨hlt, hget⟩ := Base58.indexOf_spec alphabet c i hi
    rw [List.contains_iff_mem]
    exact List.mem_of_getElem? hget

/-- a character of the alphabet is the character of its index -/
theorem achar_alphaIndex (c : UInt8) (h : alphabet.contains c = true) :
    achar (alphaIndex c) = c ∧ alphaIndex c < 32 := by
  obtain ⟨i, hi⟩ := (contains_iff_index c).mp h
  obtain ⟨hlt, hget⟩ := Base58.indexOf_spec alphabet c i hi
  rw [alphabet_length] at hlt
  have : alphaIndex c = i := by simp [alphaIndex, hi]
  rw [this]
  exact ⟨by simp [achar, hget], hlt⟩

theorem alphaIndex_lt (c : UInt8) : alphaIndex c < 32 := by
  unfold alphaIndex
  cases hi : Base58.indexOf alphabet c with
  | none => simp
  | some i =>
    have := (Base58.indexOf_spec alphabet c i hi).1
    rw [alphabet_length] at this
    simpa using this

set_option maxRecDepth 20000

/-! ### case folding -/

theorem forall_uint8 (P : UInt8 → Prop) (h : ∀ n, n < 256 → P (UInt8.ofNat n)) (c : UInt8) : P c := by
  have := h c.toNat c.toNat_lt
  simpa using this

theorem lowerByte_idem (c : UInt8) : lowerByte (lowerByte c) = lowerByte c :=
  forall_uint8 (fun c => lowerByte (lowerByte c) = lowerByte c) (by decide) c

theorem lower_idem (s : Bytes) : lower (lower s) = lower s := by
  simp [lower, List.map_map, Function.comp_def, lowerByte_idem]

theorem lowerByte_eq_sep (c : UInt8) : lowerByte c = sepChar ↔ c = sepChar :=
  forall_uint8 (fun c => lowerByte c = sepChar ↔ c = sepChar) (by decide) c

theorem lowerByte_range (c : UInt8) :
    (33 ≤ (lowerByte c).toNat ∧ (lowerByte c).toNat ≤ 126) ↔ (33 ≤ c.toNat ∧ c.toNat ≤ 126) :=
  forall_uint8 (fun c => (33 ≤ (lowerByte c).toNat ∧ (lowerByte c).toNat ≤ 126) ↔ (33 ≤ c.toNat ∧ c.toNat ≤ 126))
    (by decide) c

/-- both case foldings are the model's and the reference's -/
theorem lowerByte_eq_spec (c : UInt8) : lowerByte c = Spec.Bech32.lowerChar c :=
  forall_uint8 (fun c => lowerByte c = Spec.Bech32.lowerChar c) (by decide) c

theorem upperByte_eq_spec (c : UInt8) : upperByte c = Spec.Bech32.upperChar c :=
  forall_uint8 (fun c => upperByte c = Spec.Bech32.upperChar c) (by decide) c

theorem lower_length (s : Bytes) : (lower s).length = s.length := by simp [lower]

/-! ### `strings.LastIndex` and `Spec.Bech32.rfind` -/


theorem lastIndexAux_eq (c : UInt8) (s : Bytes) : ∀ (i found : Int),
    lastIndexAux c s i found =
      match Spec.Bech32.rfind c s with
      | some j => i + (j : Int)
      | none => found := by
  induction s with
  | nil => intro i found; simp [lastIndexAux, Spec.Bech32.rfind]
  | cons x xs ih =>
    intro i found
    simp only [lastIndexAux, Spec.Bech32.rfind]
    rw [ih]
    cases hr : Spec.Bech32.rfind c xs with
    | some j => simp; omega
    | none =>
      simp only
      by_cases hx : x = c
      · simp [hx]
      · simp [hx]

theorem lastIndex_eq (c : UInt8) (s : Bytes) :
    lastIndex c s = match Spec.Bech32.rfind c s with
      | some j => (j : Int)
      | none => -1 := by
  unfold lastIndex
  rw [lastIndexAux_eq]
  cases Spec.Bech32.rfind c s <;> simp

theorem rfind_none_iff (c : UInt8) (s : Bytes) : Spec.Bech32.rfind c s = none ↔ c ∉ s := by
  induction s with
  | nil => simp [Spec.Bech32.rfind]
  | cons x xs ih =>
    simp only [Spec.Bech32.rfind]
    cases hr : Spec.Bech32.rfind c xs with
    | some j =>
      have : ¬ c ∉ xs := fun h => by rw [ih.mpr h] at hr; cases hr
      simp only [reduceCtorEq, List.mem_cons, not_or, false_iff, not_and]
      intro _; exact this
    | none =>
      have hn := ih.mp hr
      by_cases hx : x = c
      · simp [hx]
      · have : ¬ c = x := fun h => hx h.symm
        simp [hx, hn, this]

/-- the position found splits the string: prefix, the character, a suffix without it -/
theorem rfind_some (c : UInt8) (s : Bytes) (j : Nat) (h : Spec.Bech32.rfind c s = some j) :
    j < s.length ∧ s = s.take j ++ c :: s.drop (j + 1) ∧ c ∉ s.drop (j + 1) := by
  induction s generalizing j with
  | nil => simp [Spec.Bech32.rfind] at h
  | cons x xs ih =>
    simp only [Spec.Bech32.rfind] at h
    cases hr : Spec.Bech32.rfind c xs with
    | some k =>
      rw [hr] at h
      simp only [Option.some.injEq] at h
      subst h
      obtain ⟨h1, h2, h3⟩ := ih k hr
      refine ⟨by simp; omega, ?_, by simpa using h3⟩
      simp only [List.take_succ_cons, List.drop_succ_cons, List.cons_append]
      rw [← h2]
    | none =>
      rw [hr] at h
      simp only at h
      split at h
      · rename_i hx
        injection h with h
        subst h
        subst hx
        refine ⟨by simp, by simp, ?_⟩
        simpa using (rfind_none_iff _ xs).mp hr
      · cases h

theorem rfind_append (c : UInt8) (pre post : Bytes) (h : c ∉ post) :
    Spec.Bech32.rfind c (pre ++ c :: post) = some pre.length := by
  induction pre with
  | nil =>
    simp only [List.nil_append, Spec.Bech32.rfind, (rfind_none_iff c post).mpr h, if_true, List.length_nil]
  | cons x xs ih =>
    simp only [List.cons_append, Spec.Bech32.rfind, ih, List.length_cons]

theorem rfind_lower (s : Bytes) : Spec.Bech32.rfind sepChar (lower s) = Spec.Bech32.rfind sepChar s := by
  induction s with
  | nil => rfl
  | cons x xs ih =>
    simp only [lower, List.map_cons, Spec.Bech32.rfind] at ih ⊢
    rw [ih]
    cases Spec.Bech32.rfind sepChar xs with
    | some j => rfl
    | none =>
      simp only
      by_cases hx : x = sepChar
      · subst hx
        have : lowerByte sepChar = sepChar := by decide
        simp [this]
      · have : ¬ lowerByte x = sepChar := fun h => hx ((lowerByte_eq_sep x).mp h)
        simp [hx, this]

/-! ### the character loop of `Validate` -/

theorem validChars_iff (pos : Nat) (s : Bytes) : ∀ (i : Nat),
    validChars (pos : Int) s (i : Int) = true ↔
      (∀ c ∈ s, 33 ≤ c.toNat ∧ c.toNat ≤ 126) ∧
      (∀ c ∈ s.drop (pos + 1 - i), alphabet.contains (lowerByte c) = true) := by
  induction s with
  | nil => intro i; simp [validChars]
  | cons c cs ih =>
    intro i
    simp only [validChars, bech32_Validate_2, bech32_Validate_3]
    have hi := ih (i + 1)
    have hcast : ((i : Int) + 1) = ((i + 1 : Nat) : Int) := by omega
    rw [hcast]
    by_cases hr : c.toNat < 33 ∨ c.toNat > 126
    · have : (decide (c.toNat < 33) || decide (c.toNat > 126)) = true := by simpa using hr
      simp only [this, if_true]
      constructor
      · intro h; cases h
      · rintro ⟨h, _⟩
        have := h c (by simp)
        omega
    · have : (decide (c.toNat < 33) || decide (c.toNat > 126)) = false := by
        simp only [Bool.or_eq_false_iff, decide_eq_false_iff_not]; omega
      simp only [this, Bool.false_eq_true, if_false]
      by_cases hk : pos + 1 - i = 0
      · -- past the separator: the alphabet test applies to `c`
        have hgt : ((i : Int) > (pos : Int)) := by omega
        simp only [hgt, decide_true, Bool.true_and]
        have hk' : pos + 1 - (i + 1) = 0 := by omega
        rw [hk] at *
        rw [hk'] at hi
        simp only [List.drop_zero] at hi ⊢
        by_cases ha : alphabet.contains (lowerByte c) = true
        · simp only [ha, Bool.not_true, Bool.false_eq_true, if_false, hi]
          constructor
          · rintro ⟨h1, h2⟩
            refine ⟨?_, ?_⟩
            · intro x hx
              simp only [List.mem_cons] at hx
              rcases hx with hx | hx
              · subst hx; omega
              · exact h1 x hx
            · intro x hx
              simp only [List.mem_cons] at hx
              rcases hx with hx | hx
              · subst hx; exact ha
              · exact h2 x hx
          · rintro ⟨h1, h2⟩
            exact ⟨fun x hx => h1 x (by simp [hx]), fun x hx => h2 x (by simp [hx])⟩
        · have ha' : alphabet.contains (lowerByte c) = false := by simpa using ha
          simp only [ha', Bool.not_false, if_true]
          constructor
          · intro h; cases h
          · rintro ⟨_, h2⟩
            have := h2 c (by simp)
            rw [ha'] at this; cases this
      · have hle : ¬ ((i : Int) > (pos : Int)) := by omega
        simp only [hle, decide_false, Bool.false_and, Bool.false_eq_true, if_false, hi]
        have hk' : pos + 1 - i = (pos + 1 - (i + 1)) + 1 := by omega
        rw [hk', List.drop_succ_cons]
        constructor
        · rintro ⟨h1, h2⟩
          refine ⟨?_, h2⟩
          intro x hx
          simp only [List.mem_cons] at hx
          rcases hx with hx | hx
          · subst hx; omega
          · exact h1 x hx
        · rintro ⟨h1, h2⟩
          exact ⟨fun x hx => h1 x (by simp [hx]), h2⟩

end BtcVerif.Proofs.Bech32
