import BtcVerif.Proofs.NoPanic
import BtcVerif.Proofs.Script

/-! C17: panic freedom of the remaining script readers (`ReadData`, `ReadNumber`, `Stackify`). -/
namespace BtcVerif.Model
open BtcVerif BtcVerif.Parser
open BtcVerif.Gen.Guards
open BtcVerif.Proofs.Script (decompile_ne_panic strip_ne_panic)

theorem readData_ne_panic (s : Bytes) : readData s ≠ .panic := by
  unfold readData
  cases s with
  | nil => simp
  | cons b rest =>
    simp only
    cases sizeFieldLen b with
    | none => simp
    | some k =>
      simp only
      split
      · exact readN_ne_panic _ _
      · exact NoPanic.bind (noPanic_readLE k) (fun n => noPanic_readN n) rest

theorem numLoop_ne_panic (len : Nat) (d : Bytes) : ∀ i neg mag, numLoop len i d neg mag ≠ .panic := by
  induction d with
  | nil => intro i neg mag; simp [numLoop]
  | cons b bs ih =>
    intro i neg mag
    unfold numLoop
    simp only
    split
    · split <;> split <;> simp
    · exact ih _ _ _

theorem decodeNum_ne_panic (d : Bytes) : decodeNum d ≠ .panic := by
  unfold decodeNum
  split
  · simp
  · have := numLoop_ne_panic d.length d 0 false 0
    split
    · split
      · split <;> simp
      · split <;> simp
    · simp
    · rename_i h; exact absurd h this

theorem readNumber_ne_panic (s : Bytes) : readNumber s ≠ .panic := by
  unfold readNumber
  cases s with
  | nil => simp
  | cons b rest =>
    simp only
    split
    · simp
    · split
      · simp
      · split
        · simp
        · have h1 := readData_ne_panic (b :: rest)
          split
          · rename_i d rest' _
            have h2 := decodeNum_ne_panic d
            cases hd : decodeNum d with
            | ok v => simp [Outcome.bind]
            | err => simp [Outcome.bind]
            | panic => exact absurd hd h2
          · simp
          · rename_i h; exact absurd h h1

theorem stackItem_ne_panic (c : Chunk) : stackItem c ≠ .panic := by
  unfold stackItem
  cases c with
  | push d => simp
  | op b =>
    simp only
    cases parsePushIntOpCode b with
    | none => simp
    | some v => simp only; split <;> simp

theorem stackItems_ne_panic (cs : List Chunk) : stackItems cs ≠ .panic := by
  induction cs with
  | nil => simp [stackItems]
  | cons c cs ih =>
    unfold stackItems
    have h1 := stackItem_ne_panic c
    cases hc : stackItem c with
    | ok x =>
      simp only [Outcome.bind]
      cases hs : stackItems cs with
      | ok xs => simp
      | err => simp
      | panic => exact absurd hs ih
    | err => simp [Outcome.bind]
    | panic => exact absurd hc h1

theorem stackify_ne_panic (s : Bytes) : stackify s ≠ .panic := by
  unfold stackify
  have h1 := decompile_ne_panic s
  cases hd : decompile s with
  | ok cs => simp only [Outcome.bind]; exact stackItems_ne_panic cs
  | err => simp [Outcome.bind]
  | panic => exact absurd hd h1

end BtcVerif.Model
