/-
  Helper lemmas for C08 (Bech32), part 6: the model's `Decode` equals the BIP173 reference decoder
  (`Spec/Bech32.lean`) on every string. Core Lean only.
-/
import BtcVerif.Proofs.Bech32Round
import BtcVerif.Spec.Bech32

namespace BtcVerif.Proofs.Bech32
open BtcVerif BtcVerif.Model BtcVerif.Model.Bech32 BtcVerif.Gen BtcVerif.Gen.Guards

/-! ### checksum: model = reference -/

theorem genFold_cons (b g : Nat) (gs : List Nat) (i c : Nat) :
    genFold b (g :: gs) i c = genFold b gs (i + 1) (c ^^^ (if (b >>> i) &&& 1 ≠ 0 then g else 0)) := by
  rw [show genFold b (g :: gs) i c =
    genFold b gs (i + 1) (if (b >>> i) &&& 1 = 1 then c ^^^ g else c) from rfl]
  rcases bit_cases (b >>> i) with h | h <;> simp [h]

theorem polymodStep_eq_spec (chk v : Nat) : polymodStep chk v = Spec.Bech32.polymodStep chk v := by
  unfold polymodStep Spec.Bech32.polymodStep
  simp only [constants_Bech32ChecksumGen, genFold_cons]
  rfl

theorem polymod_eq_spec (vs : List Nat) : polymod vs = Spec.Bech32.polymod vs := by
  unfold polymod Spec.Bech32.polymod
  have : polymodStep = Spec.Bech32.polymodStep := by
    funext a b; exact polymodStep_eq_spec a b
  rw [this]

theorem verify_eq_spec (hrp : Bytes) (d : List Nat) :
    verifyChecksum hrp d = Spec.Bech32.verifyChecksum hrp d := by
  unfold verifyChecksum Spec.Bech32.verifyChecksum bech32_bech32VerifyChecksum_0
  rw [polymod_eq_spec]
  have e : hrpExpand hrp = Spec.Bech32.hrpExpand hrp := rfl
  rw [e]
  generalize Spec.Bech32.polymod (Spec.Bech32.hrpExpand hrp ++ d) = n
  by_cases h : n = 1
  · simp [h]
  · have h1 : ¬ ((n : Int) = 1) := by omega
    simp [h, h1]

/-! ### alphabet lookup: model = reference -/

theorem find_eq_indexOf (l : Bytes) (c : UInt8) : Spec.Bech32.find l c = Base58.indexOf l c := by
  induction l with
  | nil => rfl
  | cons a as ih =>
    unfold Spec.Bech32.find Base58.indexOf
    rw [ih]
    by_cases h : a = c
    · simp [h]
    · simp only [h, if_false, beq_iff_eq]
      try (cases Base58.indexOf as c <;> rfl)

theorem charset_eq : Spec.Bech32.charset = alphabet := by decide

theorem find_isSome (c : UInt8) : (Spec.Bech32.find Spec.Bech32.charset c).isSome = alphabet.contains c := by
  rw [find_eq_indexOf, charset_eq]
  cases hc : alphabet.contains c with
  | true =>
    obtain ⟨i, hi⟩ := (contains_iff_index c).mp hc
    rw [hi]; rfl
  | false =>
    cases hi : Base58.indexOf alphabet c with
    | none => rfl
    | some i =>
      have := (contains_iff_index c).mpr ⟨i, hi⟩
      rw [hc] at this; cases this

theorem filterMap_find (l : Bytes) (h : ∀ c ∈ l, alphabet.contains c = true) :
    l.filterMap (Spec.Bech32.find Spec.Bech32.charset) = l.map alphaIndex := by
  induction l with
  | nil => rfl
  | cons c cs ih =>
    obtain ⟨i, hi⟩ := (contains_iff_index c).mp (h c (by simp))
    have hf : Spec.Bech32.find Spec.Bech32.charset c = some i := by
      rw [find_eq_indexOf, charset_eq]; exact hi
    have ha : alphaIndex c = i := by simp [alphaIndex, hi]
    rw [List.filterMap_cons, hf, List.map_cons, ha, ih (fun x hx => h x (by simp [hx]))]

/-! ### `bech32_decode`: the reference in terms of `ValidAt` -/

theorem lower_eq_spec (s : Bytes) : s.map Spec.Bech32.lowerChar = lower s := by
  unfold lower
  apply List.map_congr_left
  intro c _; exact (lowerByte_eq_spec c).symm

theorem upper_eq_spec (s : Bytes) : s.map Spec.Bech32.upperChar = upper s := by
  unfold upper
  apply List.map_congr_left
  intro c _; exact (upperByte_eq_spec c).symm

theorem any_range (s : Bytes) :
    s.any (fun x => x.toNat < 33 || x.toNat > 126) = false ↔ ∀ c ∈ s, 33 ≤ c.toNat ∧ c.toNat ≤ 126 := by
  rw [Bool.eq_false_iff]
  simp only [ne_eq, List.any_eq_true, Bool.or_eq_true, decide_eq_true_eq, not_exists, not_and, not_or]
  constructor
  · intro h c hc; have := h c hc; omega
  · intro h c hc; have := h c hc; omega

theorem all_alpha (l : Bytes) :
    l.all (fun x => (Spec.Bech32.find Spec.Bech32.charset x).isSome) = true ↔
      ∀ c ∈ l, alphabet.contains c = true := by
  simp only [List.all_eq_true, find_isSome]

theorem drop_lower_alpha (s : Bytes) (k : Nat) :
    (∀ c ∈ (lower s).drop k, alphabet.contains c = true) ↔
      (∀ c ∈ s.drop k, alphabet.contains (lowerByte c) = true) := by
  unfold lower
  rw [← List.map_drop]
  simp only [List.mem_map, forall_exists_index, and_imp, forall_apply_eq_imp_iff₂]

theorem sep_eq : (0x31 : UInt8) = sepChar := rfl

/-- on a string that `Validate` admits, the reference returns the hrp and the data values when the
    checksum verifies -/
theorem spec_decode_valid (s : Bytes) (pos : Nat) (hv : ValidAt s pos) :
    Spec.Bech32.bech32Decode s =
      if verifyChecksum ((lower s).take pos) (((lower s).drop (pos + 1)).map alphaIndex) = true then
        some ((lower s).take pos,
          (((lower s).drop (pos + 1)).map alphaIndex).take (((lower s).drop (pos + 1)).length - 6))
      else none := by
  unfold Spec.Bech32.bech32Decode
  rw [(any_range s).mpr hv.range]
  simp only [Bool.false_eq_true, if_false, lower_eq_spec, upper_eq_spec]
  have hcase : ¬ (lower s ≠ s ∧ upper s ≠ s) := by
    rcases hv.case with h | h
    · intro hc; exact hc.1 h.symm
    · intro hc; exact hc.2 h.symm
  rw [if_neg hcase, sep_eq, rfind_lower, hv.sep]
  simp only
  have hroom := hv.room
  have hmax := hv.max
  have hpos1 := hv.pos1
  have hl := lower_length s
  rw [if_neg (by omega)]
  have halpha : ∀ c ∈ (lower s).drop (pos + 1), alphabet.contains c = true :=
    (drop_lower_alpha s (pos + 1)).mpr hv.alpha
  have hall := (all_alpha _).mpr halpha
  rw [hall]
  simp only [not_true_eq_false, if_false]
  rw [filterMap_find _ halpha, ← verify_eq_spec]
  cases verifyChecksum ((lower s).take pos) (((lower s).drop (pos + 1)).map alphaIndex) <;> simp

/-- a string that `Validate` rejects is rejected by the reference -/
theorem spec_decode_invalid (s : Bytes) (h : ¬ ∃ pos, ValidAt s pos) : Spec.Bech32.bech32Decode s = none := by
  unfold Spec.Bech32.bech32Decode
  by_cases hr : s.any (fun x => x.toNat < 33 || x.toNat > 126) = true
  · rw [if_pos hr]
  · rw [if_neg hr]
    have hrange := (any_range s).mp (by simpa using hr)
    simp only [lower_eq_spec, upper_eq_spec]
    by_cases hcase : lower s ≠ s ∧ upper s ≠ s
    · rw [if_pos hcase]
    · rw [if_neg hcase, sep_eq, rfind_lower]
      cases hp : Spec.Bech32.rfind sepChar s with
      | none => rfl
      | some pos =>
        simp only
        have hl := lower_length s
        by_cases hb : pos < 1 ∨ pos + 7 > (lower s).length ∨ (lower s).length > 90
        · rw [if_pos hb]
        · rw [if_neg hb]
          by_cases hall : ((lower s).drop (pos + 1)).all
              (fun x => (Spec.Bech32.find Spec.Bech32.charset x).isSome) = true
          · exfalso
            apply h
            refine ⟨pos, ⟨hp, by omega, by omega, by omega, hrange, ?_, ?_⟩⟩
            · exact (drop_lower_alpha s (pos + 1)).mp ((all_alpha _).mp hall)
            · by_cases h1 : lower s = s
              · exact Or.inl h1.symm
              · right
                have : ¬ upper s ≠ s := fun h2 => hcase ⟨h1, h2⟩
                exact (Decidable.not_not.mp this).symm
          · simp [hall]

/-! ### `convertbits(…, 5, 8, False)` is the model's regrouping -/

/-- the byte values of a bit string whose length is a multiple of 8 -/
def bytesNat (bs : Bits) : List Nat := (split bs 8).map bitsToNat

/-- bit-level description of the reference loop: pending bits (fewer than 8) and emitted bytes -/
def stream : List Nat → Bits → List Nat → Bits × List Nat
  | [], pend, ret => (pend, ret)
  | v :: vs, pend, ret =>
    if (pend ++ bits5 v).length ≥ 8 then
      stream vs ((pend ++ bits5 v).drop 8) (ret ++ [bitsToNat ((pend ++ bits5 v).take 8)])
    else stream vs (pend ++ bits5 v) ret

theorem bytesNat_nil : bytesNat [] = [] := rfl

theorem bytesNat_cons (g Y : Bits) (hg : g.length = 8) (hY : 8 ∣ Y.length) :
    bytesNat (g ++ Y) = bitsToNat g :: bytesNat Y := by
  unfold bytesNat
  have hgroups : ∀ x ∈ g :: split Y 8, x.length = 8 := by
    intro x hx
    simp only [List.mem_cons] at hx
    rcases hx with hx | hx
    · subst hx; exact hg
    · exact split_length_each Y 8 (by decide) hY x hx
  have := split_flatten 8 (by decide) (g :: split Y 8) hgroups
  rw [List.flatten_cons, flatten_split Y 8 (by decide)] at this
  rw [this]; rfl

theorem stream_spec (vs : List Nat) : ∀ (pend : Bits) (ret : List Nat), pend.length < 8 →
    stream vs pend ret =
      ((pend ++ (vs.map bits5).flatten).drop (8 * ((pend ++ (vs.map bits5).flatten).length / 8)),
       ret ++ bytesNat ((pend ++ (vs.map bits5).flatten).take (8 * ((pend ++ (vs.map bits5).flatten).length / 8)))) := by
  induction vs with
  | nil =>
    intro pend ret hp
    have : pend.length / 8 = 0 := Nat.div_eq_of_lt hp
    simp [stream, this, bytesNat_nil]
  | cons v vs ih =>
    intro pend ret hp
    simp only [stream, List.map_cons, List.flatten_cons]
    have h5 := bits5_length v
    generalize hF : (vs.map bits5).flatten = F
    rw [hF] at ih
    have hX : pend ++ (bits5 v ++ F) = (pend ++ bits5 v) ++ F := by simp
    rw [hX]
    generalize hpdef : pend ++ bits5 v = p
    have hpl : p.length = pend.length + 5 := by rw [← hpdef]; simp [h5]
    by_cases h8 : p.length ≥ 8
    · rw [if_pos h8, ih (p.drop 8) _ (by simp; omega)]
      have hsplit : p ++ F = p.take 8 ++ (p.drop 8 ++ F) := by
        rw [← List.append_assoc, List.take_append_drop]
      have htl : (p.take 8).length = 8 := by simp; omega
      generalize hX'' : p.drop 8 ++ F = X'' at *
      rw [hsplit]
      have hlen : (p.take 8 ++ X'').length = 8 + X''.length := by simp [htl]
      have hdiv : 8 * ((8 + X''.length) / 8) = 8 + 8 * (X''.length / 8) := by omega
      rw [hlen, hdiv]
      have hd : (p.take 8 ++ X'').drop (8 + 8 * (X''.length / 8)) = X''.drop (8 * (X''.length / 8)) := by
        rw [← List.drop_drop, List.drop_left' htl]
      have ht : (p.take 8 ++ X'').take (8 + 8 * (X''.length / 8)) =
          p.take 8 ++ X''.take (8 * (X''.length / 8)) := by
        rw [List.take_append, htl]
        have : (p.take 8).take (8 + 8 * (X''.length / 8)) = p.take 8 :=
          List.take_of_length_le (by rw [htl]; omega)
        rw [this]
        congr 2
        omega
      rw [hd, ht, bytesNat_cons _ _ htl (by
        simp only [List.length_take]
        have : 8 * (X''.length / 8) ≤ X''.length := Nat.mul_div_le _ _
        rw [Nat.min_eq_left this]
        exact Nat.dvd_mul_right _ _)]
      simp
    · rw [if_neg h8, ih p ret (by omega)]

/-- value of the first 8 and of the remaining bits of a bit string of 8..12 bits -/
theorem take8_drop8 (p : Bits) (h8 : 8 ≤ p.length) :
    bitsToNat (p.take 8) = bitsToNat p / 2 ^ (p.length - 8) ∧
    bitsToNat (p.drop 8) = bitsToNat p % 2 ^ (p.length - 8) := by
  have hsplit : bitsToNat p = bitsToNat (p.take 8) * 2 ^ (p.drop 8).length + bitsToNat (p.drop 8) := by
    conv => lhs; rw [← List.take_append_drop 8 p]
    exact bitsToNat_append _ _
  have hlt := bitsToNat_lt (p.drop 8)
  have hdl : (p.drop 8).length = p.length - 8 := by simp
  rw [hdl] at hsplit hlt
  generalize 2 ^ (p.length - 8) = m at *
  have hm : 0 < m := by omega
  constructor
  · rw [hsplit, Nat.mul_comm, Nat.mul_add_div hm, Nat.div_eq_of_lt hlt]; simp
  · rw [hsplit, Nat.mul_comm, Nat.mul_add_mod, Nat.mod_eq_of_lt hlt]

theorem or_eq_add (acc v : Nat) (hv : v < 32) : (acc <<< 5) ||| v = acc * 32 + v := by
  rw [← Nat.shiftLeft_add_eq_or_of_lt (by simpa using hv), Nat.shiftLeft_eq]

theorem e4095 : (4095 : Nat) = 2 ^ 12 - 1 := by decide
theorem e255 : (255 : Nat) = 2 ^ 8 - 1 := by decide

/-- one value through the reference loop, in terms of the pending bits -/
theorem spec_step (acc bits v : Nat) (pend : Bits) (ret : List Nat) (hb : bits = pend.length)
    (h8 : bits < 8) (hacc : acc % 2 ^ bits = bitsToNat pend) (hv : v < 32) :
    ∃ acc', acc' = ((acc <<< 5) ||| v) &&& 4095 ∧
      Spec.Bech32.drain 8 255 acc' (bits + 5 + 1) (bits + 5) ret =
        (if (pend ++ bits5 v).length ≥ 8 then
          ((pend ++ bits5 v).length - 8, ret ++ [bitsToNat ((pend ++ bits5 v).take 8)])
         else ((pend ++ bits5 v).length, ret)) ∧
      (if (pend ++ bits5 v).length ≥ 8 then
          acc' % 2 ^ ((pend ++ bits5 v).length - 8) = bitsToNat ((pend ++ bits5 v).drop 8)
       else acc' % 2 ^ (pend ++ bits5 v).length = bitsToNat (pend ++ bits5 v)) := by
  refine ⟨_, rfl, ?_⟩
  have hpl : (pend ++ bits5 v).length = bits + 5 := by simp [bits5_length, hb]
  have hpv : bitsToNat (pend ++ bits5 v) = bitsToNat pend * 32 + v := by
    rw [bitsToNat_append, bits5_length, bitsToNat_bits5 v hv]
  rw [or_eq_add acc v hv, e4095, Nat.and_two_pow_sub_one_eq_mod, hpl]
  generalize hP : pend ++ bits5 v = p at *
  by_cases hge : bits + 5 ≥ 8
  · obtain ⟨ht, hd⟩ := take8_drop8 p (by omega)
    rw [hpl] at ht hd
    rw [if_pos hge, if_pos hge, ht, hd, hpv, ← hacc]
    -- the loop body runs exactly once
    have hdr : Spec.Bech32.drain 8 255 ((acc * 32 + v) % 2 ^ 12) (bits + 5 + 1) (bits + 5) ret =
        (bits + 5 - 8, ret ++ [((acc * 32 + v) % 2 ^ 12) >>> (bits + 5 - 8) &&& 255]) := by
      have e1 : bits + 5 + 1 = (bits + 4) + 1 + 1 := by omega
      rw [e1]
      simp only [Spec.Bech32.drain]
      rw [if_pos hge, if_neg (by omega)]
    rw [hdr, e255, Nat.and_two_pow_sub_one_eq_mod, Nat.shiftRight_eq_div_pow]
    have hcases : bits = 3 ∨ bits = 4 ∨ bits = 5 ∨ bits = 6 ∨ bits = 7 := by omega
    rcases hcases with h | h | h | h | h <;> subst h <;> refine ⟨?_, ?_⟩ <;> simp <;> omega
  · rw [if_neg hge, if_neg hge, hpv, ← hacc]
    have hdr : Spec.Bech32.drain 8 255 ((acc * 32 + v) % 2 ^ 12) (bits + 5 + 1) (bits + 5) ret =
        (bits + 5, ret) := by
      simp only [Spec.Bech32.drain]
      rw [if_neg (by omega)]
    rw [hdr]
    have hcases : bits = 0 ∨ bits = 1 ∨ bits = 2 := by omega
    rcases hcases with h | h | h <;> subst h <;> refine ⟨rfl, ?_⟩ <;> omega

/-- the reference loop computes `stream` -/
theorem convertLoop_stream (vs : List Nat) : ∀ (acc bits : Nat) (pend : Bits) (ret : List Nat),
    bits = pend.length → bits < 8 → acc % 2 ^ bits = bitsToNat pend → (∀ v ∈ vs, v < 32) →
    ∃ acc', Spec.Bech32.convertLoop 5 8 255 4095 vs acc bits ret =
        some (acc', (stream vs pend ret).1.length, (stream vs pend ret).2) ∧
      (stream vs pend ret).1.length < 8 ∧
      acc' % 2 ^ (stream vs pend ret).1.length = bitsToNat (stream vs pend ret).1 := by
  induction vs with
  | nil =>
    intro acc bits pend ret hb h8 hacc _
    exact ⟨acc, by simp [Spec.Bech32.convertLoop, stream, hb], by simpa [stream, ← hb] using h8,
      by simpa [stream, ← hb] using hacc⟩
  | cons v vs ih =>
    intro acc bits pend ret hb h8 hacc hvs
    have hv : v < 32 := hvs v (by simp)
    have hshift : ¬ (v >>> 5 ≠ 0) := by
      rw [Nat.shiftRight_eq_div_pow]
      have : v / 2 ^ 5 = 0 := Nat.div_eq_of_lt (by simpa using hv)
      simp [this]
    obtain ⟨acc', hacc', hdrain, hinv⟩ := spec_step acc bits v pend ret hb h8 hacc hv
    simp only [Spec.Bech32.convertLoop, stream]
    rw [if_neg hshift, ← hacc', hdrain]
    have hpl : (pend ++ bits5 v).length = bits + 5 := by simp [bits5_length, hb]
    by_cases hge : (pend ++ bits5 v).length ≥ 8
    · rw [if_pos hge] at hinv ⊢
      simp only [if_pos hge]
      exact ih acc' _ ((pend ++ bits5 v).drop 8) _ (by simp) (by omega) hinv
        (fun x hx => hvs x (by simp [hx]))
    · rw [if_neg hge] at hinv ⊢
      simp only [if_neg hge]
      exact ih acc' _ (pend ++ bits5 v) _ rfl (by omega) hinv (fun x hx => hvs x (by simp [hx]))

/-- `convertbits(values, 5, 8, False)` and the model's regrouping agree -/
theorem convertbits_eq_regroup (vs : List Nat) (hvs : ∀ v ∈ vs, v < 32) :
    (match Spec.Bech32.convertbits vs 5 8 false with
      | none => (Outcome.err : Outcome Bytes)
      | some dec => .ok (dec.map UInt8.ofNat)) = regroup (vs.map bits5) := by
  obtain ⟨acc', hloop, hlt, hinv⟩ := convertLoop_stream vs 0 0 [] [] rfl (by decide) (by simp [bitsToNat]) hvs
  have hss := stream_spec vs [] [] (by decide)
  simp only [List.nil_append] at hss
  generalize hB : (vs.map bits5).flatten = B at hss
  have hmul : 8 * (B.length / 8) = B.length - B.length % 8 := by omega
  rw [hmul] at hss
  rw [hss] at hloop hlt hinv
  simp only at hloop hlt hinv
  have hdl : (B.drop (B.length - B.length % 8)).length = B.length % 8 := by
    simp only [List.length_drop]; have := Nat.mod_le B.length 8; omega
  rw [hdl] at hloop hinv
  unfold Spec.Bech32.convertbits
  have emaxv : (1 <<< 8) - 1 = 255 := by decide
  have emaxacc : (1 <<< (5 + 8 - 1)) - 1 = 4095 := by decide
  simp only [emaxv, emaxacc, hloop, Bool.false_eq_true, if_false]
  unfold regroup
  simp only [hB]
  have h5 : bech32_BitGroupSize = 5 := rfl
  rw [h5]
  -- the padding test
  have hpadtest : ((acc' <<< (8 - B.length % 8)) &&& 255 ≠ 0) ↔
      (trim (B.drop (B.length - B.length % 8))).length ≠ 0 := by
    have htr : (trim (B.drop (B.length - B.length % 8))).length ≠ 0 ↔
        bitsToNat (B.drop (B.length - B.length % 8)) ≠ 0 := by
      constructor
      · intro h hn; exact h (by rw [(trim_eq_nil_iff _).mpr hn]; rfl)
      · intro h hn; exact h ((trim_eq_nil_iff _).mp (List.eq_nil_of_length_eq_zero hn))
    rw [htr, ← hinv, e255, Nat.and_two_pow_sub_one_eq_mod, Nat.shiftLeft_eq]
    have hn : B.length % 8 < 8 := Nat.mod_lt _ (by decide)
    generalize B.length % 8 = n at hn
    have hcases : n = 0 ∨ n = 1 ∨ n = 2 ∨ n = 3 ∨ n = 4 ∨ n = 5 ∨ n = 6 ∨ n = 7 := by omega
    rcases hcases with h | h | h | h | h | h | h | h <;> subst h <;> simp <;> omega
  by_cases hcond : B.length % 8 ≥ 5 ∨ (trim (B.drop (B.length - B.length % 8))).length ≠ 0
  · rw [if_pos hcond]
    have : B.length % 8 ≥ 5 ∨ (acc' <<< (8 - B.length % 8)) &&& 255 ≠ 0 := by
      rcases hcond with h | h
      · exact Or.inl h
      · exact Or.inr (hpadtest.mpr h)
    rw [if_pos this]
  · rw [if_neg hcond]
    have : ¬ (B.length % 8 ≥ 5 ∨ (acc' <<< (8 - B.length % 8)) &&& 255 ≠ 0) := by
      intro h
      apply hcond
      rcases h with h | h
      · exact Or.inl h
      · exact Or.inr (hpadtest.mp h)
    rw [if_neg this]
    have h8 : (B.take (B.length - B.length % 8)).length % 8 = 0 := by
      simp only [List.length_take]; have := Nat.mod_le B.length 8; omega
    rw [bitsBytes_ok _ h8]
    simp [bytesNat, List.map_map]

/-! ### the theorem -/

theorem decode_invalid (s : Bytes) (h : ¬ ∃ pos, ValidAt s pos) : decode s = .err := by
  have : validate s = false := by
    cases hv : validate s with
    | false => rfl
    | true => exact absurd ((validate_iff s).mp hv) h
  unfold decode
  rw [this]; rfl

/-- `bech32.Decode` (model) = BIP173 reference decoder, on every string -/
theorem decode_eq_spec (s : Bytes) : decode s = Spec.Bech32.bip173Decode s := by
  unfold Spec.Bech32.bip173Decode
  by_cases hv : ∃ pos, ValidAt s pos
  · obtain ⟨pos, hv⟩ := hv
    rw [decode_normal s pos hv, spec_decode_valid s pos hv]
    have hroom := hv.room
    have hl := lower_length s
    generalize hbech : (lower s).drop (pos + 1) = bech
    generalize hhrp : (lower s).take pos = hrp
    have hbl : 6 ≤ bech.length := by rw [← hbech]; simp; omega
    cases hck : verifyChecksum hrp (bech.map alphaIndex) with
    | false => simp
    | true =>
      simp only [Bool.true_eq_false, if_false, if_true]
      by_cases h8 : bech.length < 8
      · rw [if_pos h8]
        have hcases : bech.length = 6 ∨ bech.length = 7 := by omega
        rcases hcases with h6 | h7
        · rw [h6]; simp
        · rw [h7]
          cases hb : bech with
          | nil => rw [hb] at h7; simp at h7
          | cons c0 rest =>
            have : Spec.Bech32.convertbits [] 5 8 false = some [] := by decide
            simp [this]
      · rw [if_neg h8]
        cases hb : bech with
        | nil => rw [hb] at hbl; simp at hbl
        | cons c0 rest =>
          rw [← hb]
          obtain ⟨m, hm⟩ : ∃ m, bech.length - 6 = m + 1 := ⟨bech.length - 7, by omega⟩
          have htake : (bech.map alphaIndex).take (bech.length - 6) =
              alphaIndex c0 :: ((bech.take (bech.length - 6)).drop 1).map alphaIndex := by
            rw [hm, hb]
            simp [List.take_succ_cons]
          rw [htake]
          simp only
          unfold payloadOf
          rw [hb]
          simp only
          rw [← hb]
          generalize hmid : (bech.take (bech.length - 6)).drop 1 = mid
          have hmidne : mid ≠ [] := by
            intro hmn
            have : mid.length = bech.length - 6 - 1 := by
              rw [← hmid]; simp only [List.length_drop, List.length_take]; omega
            rw [hmn] at this; simp at this; omega
          have hbits : mid.map charBits = (mid.map alphaIndex).map bits5 := by
            rw [List.map_map]; apply List.map_congr_left; intro c _; rfl
          have hlt : ∀ v ∈ mid.map alphaIndex, v < 32 := by
            intro v hm
            rw [List.mem_map] at hm
            obtain ⟨c, _, rfl⟩ := hm
            exact alphaIndex_lt c
          have hcv := convertbits_eq_regroup (mid.map alphaIndex) hlt
          rw [hbits, ← hcv]
          cases hcb : Spec.Bech32.convertbits (mid.map alphaIndex) 5 8 false with
          | none => rfl
          | some dec =>
            simp only
            cases dec with
            | nil =>
              exfalso
              rw [hcb] at hcv
              simp only [List.map_nil] at hcv
              have hG5 : ∀ g ∈ (mid.map alphaIndex).map bits5, g.length = 5 := by
                intro g hg
                rw [List.mem_map] at hg
                obtain ⟨v, _, rfl⟩ := hg
                exact bits5_length v
              have := regroup_canonical _ hG5 (by simpa using hmidne) [] hcv.symm
              exact this.1 rfl
            | cons x xs => rfl
  · rw [decode_invalid s hv, spec_decode_invalid s hv]

/-- the reference never panics, hence neither does the model -/
theorem decode_ne_panic (s : Bytes) : decode s ≠ .panic := by
  rw [decode_eq_spec]
  unfold Spec.Bech32.bip173Decode
  split
  · simp
  · simp
  · split <;> simp

/-- `Encode` never panics: every value it looks up is below 32 (`version` is a byte) -/
theorem encode_ne_panic (hrp : Bytes) (version : Nat) (hb : version < 256) (data : Bytes) :
    encode hrp version data ≠ .panic := by
  by_cases hne : data = []
  · subst hne; simp [encode, bech32_Encode_0]
  · by_cases hv : version < 32
    · by_cases hlen : hrp.length + 1 + (1 + (bytesToIndices data).length) + 6 ≤ 90
      · rw [encode_normal hrp version data hne hv hlen]; simp
      · unfold encode
        rw [guard_Encode_0 data hne, guard_Encode_1 version hv]
        have h2 : bech32_Encode_2 (len_hrp := hrp.length)
            (len_values := (bytesToIndices data).length + 1) = true := by
          simp only [bech32_Encode_2, decide_eq_true_eq]; omega
        simp [h2]
    · unfold encode
      rw [guard_Encode_0 data hne]
      have hw : Gen.wrapS 18446744073709551616 (version : Int) = (version : Int) :=
        Gen.wrapS_of_small _ _ (by omega) (by omega)
      have h1 : bech32_Encode_1 (version := version) = true := by
        simp only [bech32_Encode_1, hw, decide_eq_true_eq]; omega
      simp [h1]

/-- outside its domain `Encode` returns an error -/
theorem encode_err (hrp : Bytes) (version : Nat) (hb : version < 256) (data : Bytes)
    (h : data = [] ∨ ¬ version < 32 ∨ ¬ hrp.length + 1 + (1 + (bytesToIndices data).length) + 6 ≤ 90) :
    encode hrp version data = .err := by
  by_cases hne : data = []
  · subst hne; simp [encode, bech32_Encode_0]
  · by_cases hv : version < 32
    · have hlen : ¬ hrp.length + 1 + (1 + (bytesToIndices data).length) + 6 ≤ 90 := by
        rcases h with h | h | h
        · exact absurd h hne
        · exact absurd hv h
        · exact h
      unfold encode
      rw [guard_Encode_0 data hne, guard_Encode_1 version hv]
      have h2 : bech32_Encode_2 (len_hrp := hrp.length)
          (len_values := (bytesToIndices data).length + 1) = true := by
        simp only [bech32_Encode_2, decide_eq_true_eq]; omega
      simp [h2]
    · unfold encode
      rw [guard_Encode_0 data hne]
      have hw : Gen.wrapS 18446744073709551616 (version : Int) = (version : Int) :=
        Gen.wrapS_of_small _ _ (by omega) (by omega)
      have h1 : bech32_Encode_1 (version := version) = true := by
        simp only [bech32_Encode_1, hw, decide_eq_true_eq]; omega
      simp [h1]

/-- `Encode` never returns more than 90 characters -/
theorem encode_length_le (hrp : Bytes) (version : Nat) (hb : version < 256) (data s : Bytes)
    (h : encode hrp version data = .ok s) : s.length ≤ 90 := by
  by_cases hdom : data = [] ∨ ¬ version < 32 ∨ ¬ hrp.length + 1 + (1 + (bytesToIndices data).length) + 6 ≤ 90
  · rw [encode_err hrp version hb data hdom] at h; cases h
  · have hne : data ≠ [] := fun hd => hdom (Or.inl hd)
    have hv : version < 32 := Decidable.byContradiction fun hv => hdom (Or.inr (Or.inl hv))
    have hlen : hrp.length + 1 + (1 + (bytesToIndices data).length) + 6 ≤ 90 :=
      Decidable.byContradiction fun hl => hdom (Or.inr (Or.inr hl))
    rw [encode_normal hrp version data hne hv hlen] at h
    injection h with h
    subst h
    simp only [List.length_append, List.length_cons, List.length_nil, List.length_map,
      createChecksum_length]
    omega

end BtcVerif.Proofs.Bech32
