import BtcVerif.Proofs.NoPanic

/-! Accessor totality for decoded transactions (C17): whatever `decTx` returns can be serialised
    (with and without witnesses), hence sized, hashed and identified. -/
namespace BtcVerif.Model
open BtcVerif BtcVerif.Parser
open BtcVerif.Gen.Guards

theorem bind_ok_inv {α β} {p : Parser α} {f : α → Parser β} {s : Bytes} {r : β × Bytes}
    (h : (p >>= f) s = .ok r) : ∃ a s', p s = .ok (a, s') ∧ f a s' = .ok r := by
  rw [Parser.bind_def] at h
  split at h
  · rename_i a s' hp; exact ⟨a, s', hp, h⟩
  · cases h
  · cases h

theorem readMany_length {α} (p : Parser α) (n : Nat) (s rest : Bytes) (xs : List α)
    (h : readMany p n s = .ok (xs, rest)) : xs.length = n := by
  induction n generalizing s xs rest with
  | zero =>
    simp only [readMany] at h
    injection h with h; injection h with h1 _
    subst h1; rfl
  | succ k ih =>
    unfold readMany at h
    obtain ⟨x, s1, _, h2⟩ := bind_ok_inv h
    obtain ⟨ys, s2, h3, h4⟩ := bind_ok_inv h2
    injection h4 with h4; injection h4 with h5 h6
    subst h5; subst h6
    simp [ih s1 s2 ys h3]

/-- a decoded transaction has one witness stack per input when it has witnesses at all -/
theorem decTx_witness_count {s rest : Bytes} {tx : Tx} (h : decTx s = .ok (tx, rest)) :
    ∀ ws, tx.witnesses = some ws → ws.length = tx.inputs.length := by
  unfold decTx at h
  obtain ⟨version, s1, _, h⟩ := bind_ok_inv h
  obtain ⟨hw, s2, _, h⟩ := bind_ok_inv h
  obtain ⟨nIn, s3, _, h⟩ := bind_ok_inv h
  split at h
  · cases h
  · obtain ⟨ins, s4, hins, h⟩ := bind_ok_inv h
    obtain ⟨nOut, s5, _, h⟩ := bind_ok_inv h
    split at h
    · cases h
    · obtain ⟨outs, s6, _, h⟩ := bind_ok_inv h
      obtain ⟨wits, s7, hwits, h⟩ := bind_ok_inv h
      obtain ⟨lock, s8, _, h⟩ := bind_ok_inv h
      injection h with h; injection h with h1 _
      subst h1
      intro ws hws
      simp only at hws
      subst hws
      have hl := readMany_length decTxIn nIn s3 s4 ins hins
      split at hwits
      · obtain ⟨ws', s9, hr, h9⟩ := bind_ok_inv hwits
        injection h9 with h9; injection h9 with h10 _
        injection h10 with h10
        subst h10
        have := readMany_length decWitness nIn s6 s9 ws' hr
        simp only; omega
      · injection hwits with hwits; injection hwits with h11 _
        cases h11

theorem decoded_tx_serialises {s rest : Bytes} {tx : Tx} (h : decTx s = .ok (tx, rest)) (w : Bool) :
    ∃ bs, encTx tx w = .ok bs := by
  have hc : canSerialize tx = true := by
    unfold canSerialize
    cases hw : tx.witnesses with
    | none => rfl
    | some ws =>
      have := decTx_witness_count h ws hw
      simp [tx_Tx_canSerialize_4, this]
  unfold encTx
  simp [hc]

end BtcVerif.Model
