/-
  Helper lemmas for C09: the model's Base58 / Base58Check encoder equals the independent reference
  encoder of `Spec/Address.lean`. Core Lean only.
-/
import BtcVerif.Proofs.Address
import BtcVerif.Proofs.AddressSegwit

namespace BtcVerif.Proofs.Address
open BtcVerif BtcVerif.Model BtcVerif.Model.Address BtcVerif.Proofs.Base58

theorem b58chars_eq : Spec.Address.b58chars = Base58.alphabet := by decide

theorem value_eq (bs : Bytes) : ∀ acc, Spec.Address.value bs acc = acc * 256 ^ bs.length + beNat bs := by
  induction bs with
  | nil => intro acc; simp [Spec.Address.value, beNat, leNat]
  | cons b bs ih =>
    intro acc
    simp only [Spec.Address.value, ih, List.length_cons, Nat.pow_succ]
    have hb : beNat (b :: bs) = b.toNat * 256 ^ bs.length + beNat bs := by
      rw [beNat_eq, beNat_eq, List.map_cons, ofDigits_cons, List.length_map]
    rw [hb, Nat.add_mul, Nat.mul_assoc, Nat.mul_comm 256 (256 ^ bs.length)]
    omega

theorem digitsLE_rev : ∀ (fuel n : Nat), n < 58 ^ fuel →
    (Spec.Address.digitsLE fuel n).reverse = toDigits 58 n [] := by
  intro fuel
  induction fuel with
  | zero =>
    intro n h
    have : n = 0 := by simpa using h
    subst this
    simp [Spec.Address.digitsLE, toDigits_zero]
  | succ fuel ih =>
    intro n h
    by_cases hn : n = 0
    · subst hn; simp [Spec.Address.digitsLE, toDigits_zero]
    · simp only [Spec.Address.digitsLE, hn, if_false, List.reverse_cons]
      have hlt : n / 58 < 58 ^ fuel := by
        rw [Nat.div_lt_iff_lt_mul (by decide)]
        rw [Nat.pow_succ] at h; exact h
      rw [ih _ hlt, toDigits_snoc (by decide) hn]

theorem takeWhile_zeros (bs : Bytes) : (bs.takeWhile (· = 0)).length = Base58.leadingZeros bs := by
  induction bs with
  | nil => rfl
  | cons b bs ih =>
    unfold Base58.leadingZeros
    by_cases hb : b = 0
    · subst hb
      simp only [List.takeWhile_cons, decide_true, if_true, List.length_cons, ih]
      simp [Gen.Guards.base58_Encode_2]
    · have : ¬ b.toNat = 0 := by
        intro h; apply hb
        exact UInt8.toNat_inj.mp (by simpa using h)
      simp [List.takeWhile_cons, hb, Gen.Guards.base58_Encode_2, this]

theorem filterMap_chars (ds : List Nat) (h : ∀ d ∈ ds, d < 58) :
    ds.filterMap (fun d => Spec.Address.b58chars[d]?) = ds.map dchar := by
  induction ds with
  | nil => rfl
  | cons d ds ih =>
    have hd : d < 58 := h d (by simp)
    have hget : Spec.Address.b58chars[d]? = some (dchar d) := by
      rw [b58chars_eq]
      have hlt : d < Base58.radix := hd
      unfold dchar Base58.digitChar
      rw [dif_pos hlt, List.getElem?_eq_getElem hlt]
    rw [List.filterMap_cons, hget, List.map_cons, ih (fun x hx => h x (by simp [hx]))]

/-- the model's Base58 encoder is the reference's -/
theorem base58_eq_spec (bs : Bytes) : Base58.encode bs = Spec.Address.base58 bs := by
  unfold Spec.Address.base58 Base58.encode
  simp only
  rw [takeWhile_zeros, Base58.encLoop_eq, one_eq, List.append_nil]
  have hv : Spec.Address.value bs 0 = beNat bs := by rw [value_eq]; simp
  rw [hv]
  have hlt : beNat bs < 58 ^ (2 * bs.length + 1) := by
    have h1 : beNat bs < 256 ^ bs.length := by
      rw [beNat_eq]
      have := ofDigits_lt 256 (by decide) (bs.map UInt8.toNat) (by
        intro d hd
        rw [List.mem_map] at hd
        obtain ⟨b, _, rfl⟩ := hd
        exact b.toNat_lt)
      simpa using this
    have h2 : 256 ^ bs.length ≤ 58 ^ (2 * bs.length) := by
      rw [Nat.pow_mul]
      exact Nat.pow_le_pow_left (by decide) _
    have h3 : 58 ^ (2 * bs.length) ≤ 58 ^ (2 * bs.length + 1) := Nat.pow_le_pow_right (by decide) (by omega)
    omega
  rw [digitsLE_rev _ _ hlt, filterMap_chars _ (toDigits_lt (by decide) _)]
  rfl

theorem base58check_eq_spec (ck : Bytes → Bytes) (payload : Bytes) :
    Base58Check.encode ck payload = Spec.Address.base58check ck payload := by
  unfold Base58Check.encode Spec.Address.base58check
  exact base58_eq_spec _

end BtcVerif.Proofs.Address
