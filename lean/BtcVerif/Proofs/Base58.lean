/-
  Helper lemmas for C08 (Base58 / Base58Check): positional digit lists, and the link between the
  accumulator loops of `Model/Base58.lean` and those digit lists. Core Lean only.
-/
import BtcVerif.Model.Base58

namespace BtcVerif.Proofs.Base58
open BtcVerif BtcVerif.Model BtcVerif.Model.Base58 BtcVerif.Gen.Guards

/-! ### positional digits (most significant first) -/

/-- digits of `n` in base `b`, prepended to `acc` -/
def toDigits (b : Nat) (n : Nat) (acc : List Nat) : List Nat :=
  if h : n = 0 ∨ b < 2 then acc else toDigits b (n / b) (n % b :: acc)
termination_by n
decreasing_by exact Nat.div_lt_self (by omega) (by omega)

def ofDigits (b : Nat) (ds : List Nat) : Nat := ds.foldl (fun v d => v * b + d) 0

theorem toDigits_zero (b : Nat) (acc : List Nat) : toDigits b 0 acc = acc := by
  rw [toDigits]; simp

theorem toDigits_step {b n : Nat} (hb : 2 ≤ b) (hn : n ≠ 0) (acc : List Nat) :
    toDigits b n acc = toDigits b (n / b) (n % b :: acc) := by
  rw [toDigits]
  have : ¬ (n = 0 ∨ b < 2) := by omega
  simp [this]

theorem toDigits_acc {b : Nat} (hb : 2 ≤ b) (n : Nat) :
    ∀ acc, toDigits b n acc = toDigits b n [] ++ acc := by
  induction n using Nat.strongRecOn with
  | _ n ih =>
    intro acc
    by_cases hn : n = 0
    · subst hn; simp [toDigits_zero]
    · have hlt : n / b < n := Nat.div_lt_self (by omega) (by omega)
      rw [toDigits_step hb hn, toDigits_step hb hn [], ih _ hlt (n % b :: acc), ih _ hlt [n % b]]
      simp

theorem toDigits_snoc {b n : Nat} (hb : 2 ≤ b) (hn : n ≠ 0) :
    toDigits b n [] = toDigits b (n / b) [] ++ [n % b] := by
  rw [toDigits_step hb hn, toDigits_acc hb]

theorem ofDigits_snoc (b : Nat) (ds : List Nat) (d : Nat) :
    ofDigits b (ds ++ [d]) = ofDigits b ds * b + d := by
  simp [ofDigits, List.foldl_append]

theorem ofDigits_toDigits {b : Nat} (hb : 2 ≤ b) (n : Nat) : ofDigits b (toDigits b n []) = n := by
  induction n using Nat.strongRecOn with
  | _ n ih =>
    by_cases hn : n = 0
    · subst hn; simp [toDigits_zero, ofDigits]
    · have hlt : n / b < n := Nat.div_lt_self (by omega) (by omega)
      rw [toDigits_snoc hb hn, ofDigits_snoc, ih _ hlt]
      have := Nat.div_add_mod n b
      rw [Nat.mul_comm]; exact this

theorem toDigits_lt {b : Nat} (hb : 2 ≤ b) (n : Nat) : ∀ d ∈ toDigits b n [], d < b := by
  induction n using Nat.strongRecOn with
  | _ n ih =>
    by_cases hn : n = 0
    · subst hn; simp [toDigits_zero]
    · have hlt : n / b < n := Nat.div_lt_self (by omega) (by omega)
      rw [toDigits_snoc hb hn]
      intro d hd
      rw [List.mem_append] at hd
      rcases hd with hd | hd
      · exact ih _ hlt d hd
      · simp at hd; subst hd; exact Nat.mod_lt _ (by omega)

theorem toDigits_ne_nil {b n : Nat} (hb : 2 ≤ b) (hn : n ≠ 0) : toDigits b n [] ≠ [] := by
  rw [toDigits_snoc hb hn]; simp

/-- the leading digit of a non-zero number is not zero -/
theorem toDigits_head {b : Nat} (hb : 2 ≤ b) (n : Nat) : (toDigits b n []).head? ≠ some 0 := by
  induction n using Nat.strongRecOn with
  | _ n ih =>
    by_cases hn : n = 0
    · subst hn; simp [toDigits_zero]
    · have hlt : n / b < n := Nat.div_lt_self (by omega) (by omega)
      rw [toDigits_snoc hb hn]
      by_cases hq : n / b = 0
      · rw [hq, toDigits_zero]
        have : n % b = n := Nat.mod_eq_of_lt (by
          rcases Nat.lt_or_ge n b with h | h
          · exact h
          · have : 0 < n / b := Nat.div_pos h (by omega)
            omega)
        simp [this, hn]
      · have hne := toDigits_ne_nil hb hq
        have := ih _ hlt
        cases hd : toDigits b (n / b) [] with
        | nil => exact absurd hd hne
        | cons x xs => rw [hd] at this; simpa using this

theorem foldl_ge (b : Nat) (hb : 1 ≤ b) (ds : List Nat) :
    ∀ v, v ≤ ds.foldl (fun v d => v * b + d) v := by
  induction ds with
  | nil => intro v; exact Nat.le_refl v
  | cons d ds ih =>
    intro v
    simp only [List.foldl_cons]
    have h1 : v ≤ v * b + d := by
      have : v * 1 ≤ v * b := Nat.mul_le_mul_left v hb
      omega
    exact Nat.le_trans h1 (ih _)

theorem ofDigits_pos {b : Nat} (hb : 1 ≤ b) {h : Nat} {t : List Nat} (hh : h ≠ 0) :
    0 < ofDigits b (h :: t) := by
  have := foldl_ge b hb t (0 * b + h)
  simp only [ofDigits, List.foldl_cons]
  omega

theorem ofDigits_cons_zero (b : Nat) (ds : List Nat) : ofDigits b (0 :: ds) = ofDigits b ds := by
  simp [ofDigits]

theorem ofDigits_replicate_zero (b : Nat) (k : Nat) (ds : List Nat) :
    ofDigits b (List.replicate k 0 ++ ds) = ofDigits b ds := by
  induction k with
  | zero => simp
  | succ k ih => rw [List.replicate_succ, List.cons_append, ofDigits_cons_zero, ih]

/-- uniqueness of the representation: digits below `b` without a leading zero are the digits of
    their value -/
theorem toDigits_ofDigits_rev {b : Nat} (hb : 2 ≤ b) (rs : List Nat) :
    (∀ d ∈ rs, d < b) → rs.reverse.head? ≠ some 0 →
    toDigits b (ofDigits b rs.reverse) [] = rs.reverse := by
  induction rs with
  | nil => intro _ _; simp [ofDigits, toDigits_zero]
  | cons d rs ih =>
    intro hlt hhead
    have hd : d < b := hlt d (by simp)
    have hlt' : ∀ x ∈ rs, x < b := fun x hx => hlt x (by simp [hx])
    rw [List.reverse_cons, ofDigits_snoc]
    cases hrs : rs.reverse with
    | nil =>
      have hd0 : d ≠ 0 := by
        rw [List.reverse_cons, hrs] at hhead; simpa using hhead
      simp only [ofDigits, List.foldl_nil, Nat.zero_mul, Nat.zero_add, List.nil_append]
      rw [toDigits_step hb hd0, Nat.div_eq_of_lt hd, Nat.mod_eq_of_lt hd, toDigits_zero]
    | cons x xs =>
      have hx0 : x ≠ 0 := by
        rw [List.reverse_cons, hrs] at hhead; simpa using hhead
      have hhead' : rs.reverse.head? ≠ some 0 := by rw [hrs]; simpa using hx0
      have hV : 0 < ofDigits b (x :: xs) := ofDigits_pos (by omega) hx0
      have hn : ofDigits b (x :: xs) * b + d ≠ 0 := by
        have : 0 < ofDigits b (x :: xs) * b := Nat.mul_pos hV (by omega)
        omega
      have hdiv : (ofDigits b (x :: xs) * b + d) / b = ofDigits b (x :: xs) := by
        rw [Nat.mul_comm, Nat.mul_add_div (by omega), Nat.div_eq_of_lt hd]; simp
      have hmod : (ofDigits b (x :: xs) * b + d) % b = d := by
        rw [Nat.mul_comm, Nat.mul_add_mod, Nat.mod_eq_of_lt hd]
      rw [toDigits_snoc hb hn, hdiv, hmod, ← hrs, ih hlt' hhead']

theorem toDigits_ofDigits {b : Nat} (hb : 2 ≤ b) (ds : List Nat)
    (hlt : ∀ d ∈ ds, d < b) (hhead : ds.head? ≠ some 0) :
    toDigits b (ofDigits b ds) [] = ds := by
  have := toDigits_ofDigits_rev hb ds.reverse (by simpa using hlt) (by simpa using hhead)
  simpa using this

/-! ### `indexOf` -/

theorem indexOf_spec : ∀ (l : Bytes) (c : UInt8) (i : Nat),
    indexOf l c = some i → i < l.length ∧ l[i]? = some c := by
  intro l
  induction l with
  | nil => intro c i h; simp [indexOf] at h
  | cons a as ih =>
    intro c i h
    unfold indexOf at h
    split at h
    · rename_i hac
      injection h with h; subst h
      have : a = c := by simpa using hac
      simp [this]
    · cases hr : indexOf as c with
      | none => rw [hr] at h; simp at h
      | some j =>
        rw [hr] at h; simp at h; subst h
        obtain ⟨h1, h2⟩ := ih c j hr
        rw [List.getElem?_eq_getElem h1] at h2
        injection h2 with h2
        simp [h1, h2]

theorem indexOf_none_of_not_mem : ∀ (l : Bytes) (c : UInt8), indexOf l c = none → c ∉ l := by
  intro l
  induction l with
  | nil => intro c _; simp
  | cons a as ih =>
    intro c h
    unfold indexOf at h
    split at h
    · cases h
    · rename_i hac
      cases hr : indexOf as c with
      | none =>
        have := ih c hr
        have hne : ¬ a = c := by simpa using hac
        simp [this, Ne.symm hne]
      | some j => rw [hr] at h; simp at h

/-! ### the alphabet (facts about the regenerated constant, by evaluation) -/

/-- proof-side total version of `digitChar` -/
def dchar (d : Nat) : UInt8 := if h : d < radix then digitChar d h else 0

theorem indexOf_dchar : ∀ d, d < 58 → indexOf alphabet (dchar d) = some d := by decide

theorem dchar_idx {c : UInt8} {i : Nat} (h : indexOf alphabet c = some i) : dchar i = c ∧ i < 58 := by
  obtain ⟨hlt, hget⟩ := indexOf_spec _ _ _ h
  have hlt' : i < radix := hlt
  refine ⟨?_, by rw [alphabet_length] at hlt; exact hlt⟩
  unfold dchar digitChar
  rw [dif_pos hlt']
  rw [List.getElem?_eq_getElem hlt] at hget
  injection hget

/-- proof-side total alphabet index -/
def idx (c : UInt8) : Nat := (indexOf alphabet c).getD 0

theorem idx_dchar {d : Nat} (h : d < 58) : idx (dchar d) = d := by
  simp [idx, indexOf_dchar d h]

theorem dchar_inj0 {d : Nat} (h : d < 58) (h0 : dchar d = dchar 0) : d = 0 := by
  have := idx_dchar h
  rw [h0, idx_dchar (by decide)] at this
  exact this.symm

theorem one_eq : digitChar 0 (by decide) = dchar 0 := by decide

/-! ### the loops of the model as digit lists -/

theorem encLoop_eq (n : Nat) : ∀ acc, encLoop n acc = (toDigits 58 n []).map dchar ++ acc := by
  induction n using Nat.strongRecOn with
  | _ n ih =>
    intro acc
    by_cases hn : n = 0
    · subst hn
      rw [encLoop]; simp [base58_Encode_1, toDigits_zero]
    · have hlt : n / 58 < n := Nat.div_lt_self (by omega) (by omega)
      rw [encLoop]
      have hg : base58_Encode_1 (call_bi_Cmp_zero := if n = 0 then 0 else 1) = true := by
        simp [base58_Encode_1, hn]
      rw [dif_pos hg]
      have hr : radix = 58 := radix_eq
      have hdc : digitChar (n % radix) (Nat.mod_lt _ (by decide)) = dchar (n % 58) := by
        unfold dchar
        have : n % 58 < radix := by rw [hr]; exact Nat.mod_lt _ (by decide)
        rw [dif_pos this]
        simp [hr]
      rw [hdc]
      have : n / radix = n / 58 := by rw [hr]
      rw [this, ih _ hlt, toDigits_snoc (by decide) hn]
      simp

theorem natBytesAux_eq (n : Nat) :
    ∀ acc, natBytesAux n acc = (toDigits 256 n []).map UInt8.ofNat ++ acc := by
  induction n using Nat.strongRecOn with
  | _ n ih =>
    intro acc
    by_cases hn : n = 0
    · subst hn
      rw [natBytesAux]; simp [toDigits_zero]
    · have hlt : n / 256 < n := Nat.div_lt_self (by omega) (by omega)
      rw [natBytesAux, dif_neg hn, ih _ hlt, toDigits_snoc (by decide) hn]
      simp

theorem natBytes_eq (n : Nat) : natBytes n = (toDigits 256 n []).map UInt8.ofNat := by
  simp [natBytes, natBytesAux_eq]

theorem leNat_eq (rs : Bytes) : leNat rs = ofDigits 256 (rs.reverse.map UInt8.toNat) := by
  induction rs with
  | nil => simp [leNat, ofDigits]
  | cons b rs ih =>
    simp only [leNat, List.reverse_cons, List.map_append, List.map_cons, List.map_nil]
    rw [ofDigits_snoc, ← ih]; omega

theorem beNat_eq (bs : Bytes) : beNat bs = ofDigits 256 (bs.map UInt8.toNat) := by
  simp [beNat, leNat_eq]

theorem ofNat_toNat_digits (ds : List Nat) (h : ∀ d ∈ ds, d < 256) :
    (ds.map UInt8.ofNat).map UInt8.toNat = ds := by
  induction ds with
  | nil => rfl
  | cons d ds ih =>
    have hd : d < 256 := h d (by simp)
    have : (UInt8.ofNat d).toNat = d := by simp [UInt8.toNat_ofNat']; omega
    simp only [List.map_cons, this]
    rw [ih (fun x hx => h x (by simp [hx]))]

theorem toNat_ofNat_bytes (bs : Bytes) : (bs.map UInt8.toNat).map UInt8.ofNat = bs := by
  induction bs with
  | nil => rfl
  | cons b bs ih => simp [ih]

theorem beNat_natBytes (n : Nat) : beNat (natBytes n) = n := by
  rw [beNat_eq, natBytes_eq, ofNat_toNat_digits _ (toDigits_lt (by decide) n),
    ofDigits_toDigits (by decide)]

/-- `big.Int.Bytes()` has no leading zero byte -/
theorem natBytes_head (n : Nat) : (natBytes n).head? ≠ some 0 := by
  rw [natBytes_eq]
  have h := toDigits_head (b := 256) (by decide) n
  have hl := toDigits_lt (b := 256) (by decide) n
  cases hd : toDigits 256 n [] with
  | nil => simp
  | cons x xs =>
    rw [hd] at h hl
    have hx : x < 256 := hl x (by simp)
    have hx0 : x ≠ 0 := by simpa using h
    simp only [List.map_cons, List.head?_cons, ne_eq, Option.some.injEq]
    intro hc
    have : (UInt8.ofNat x).toNat = x := by simp [UInt8.toNat_ofNat']; omega
    rw [hc] at this
    simp at this; omega

/-! ### leading zeros / leading '1's -/

theorem leadingZeros_split (bs : Bytes) :
    bs = List.replicate (leadingZeros bs) 0 ++ bs.drop (leadingZeros bs) ∧
    (bs.drop (leadingZeros bs)).head? ≠ some 0 := by
  induction bs with
  | nil => simp [leadingZeros]
  | cons b bs ih =>
    unfold leadingZeros
    by_cases hb : b = 0
    · subst hb
      simp only [base58_Encode_2]
      simp only [show ((0 : UInt8).toNat = 0) from rfl, decide_true, if_true, List.replicate_succ,
        List.drop_succ_cons, List.cons_append]
      exact ⟨by rw [← ih.1], ih.2⟩
    · have : ¬ b.toNat = 0 := by
        intro h; apply hb
        exact UInt8.toNat_inj.mp (by simpa using h)
      simp [base58_Encode_2, this, hb]

theorem leadingZeros_replicate (k : Nat) (rest : Bytes) (h : rest.head? ≠ some 0) :
    leadingZeros (List.replicate k 0 ++ rest) = k := by
  induction k with
  | zero =>
    cases rest with
    | nil => simp [leadingZeros]
    | cons b bs =>
      have hb : ¬ b = 0 := by simpa using h
      have : ¬ b.toNat = 0 := by
        intro h'; apply hb
        exact UInt8.toNat_inj.mp (by simpa using h')
      simp [leadingZeros, base58_Encode_2, this]
  | succ k ih =>
    rw [List.replicate_succ, List.cons_append]
    unfold leadingZeros
    simp [base58_Encode_2, ih]

theorem countOnes_replicate (k : Nat) (rest : Bytes) (h : rest.head? ≠ some (dchar 0)) :
    countOnes (List.replicate k (dchar 0) ++ rest) = k := by
  induction k with
  | zero =>
    cases rest with
    | nil => simp [countOnes]
    | cons c cs =>
      have hc : ¬ c = dchar 0 := by simpa using h
      simp [countOnes, one_eq, hc]
  | succ k ih =>
    rw [List.replicate_succ, List.cons_append]
    unfold countOnes
    simp [one_eq, ih]

theorem countOnes_split (s : Bytes) :
    s = List.replicate (countOnes s) (dchar 0) ++ s.drop (countOnes s) ∧
    (s.drop (countOnes s)).head? ≠ some (dchar 0) := by
  induction s with
  | nil => simp [countOnes]
  | cons c cs ih =>
    unfold countOnes
    by_cases hc : c = dchar 0
    · subst hc
      simp only [one_eq, BEq.rfl, if_true, List.replicate_succ, List.drop_succ_cons, List.cons_append]
      exact ⟨by rw [← ih.1], ih.2⟩
    · simp [one_eq, hc]

/-! ### the decoding loop -/

def leVal : List Nat → Nat
  | [] => 0
  | d :: ds => d + 58 * leVal ds

theorem leVal_eq (rs : List Nat) : leVal rs = ofDigits 58 rs.reverse := by
  induction rs with
  | nil => simp [leVal, ofDigits]
  | cons d rs ih => simp only [leVal, List.reverse_cons, ofDigits_snoc, ih]; omega

theorem decLoop_ok (cs : Bytes) (hall : ∀ c ∈ cs, (indexOf alphabet c).isSome) :
    ∀ i ret, decLoop cs i ret = .ok (ret + 58 ^ i * leVal (cs.map idx)) := by
  induction cs with
  | nil => intro i ret; simp [decLoop, leVal]
  | cons c cs ih =>
    intro i ret
    have hc := hall c (by simp)
    cases hi : indexOf alphabet c with
    | none => rw [hi] at hc; simp at hc
    | some m =>
      unfold decLoop
      simp only [hi]
      rw [ih (fun x hx => hall x (by simp [hx]))]
      have : idx c = m := by simp [idx, hi]
      simp only [List.map_cons, leVal, this, radix_eq, Nat.pow_succ]
      congr 1
      rw [Nat.mul_add, Nat.add_assoc, Nat.mul_comm m]
      congr 1
      rw [← Nat.mul_assoc]

theorem decLoop_err (cs : Bytes) (hex : ∃ c ∈ cs, indexOf alphabet c = none) :
    ∀ i ret, decLoop cs i ret = .err := by
  induction cs with
  | nil => simp at hex
  | cons c cs ih =>
    intro i ret
    unfold decLoop
    cases hi : indexOf alphabet c with
    | none => rfl
    | some m =>
      simp only
      apply ih
      obtain ⟨x, hx, hxn⟩ := hex
      simp at hx
      rcases hx with hx | hx
      · subst hx; rw [hi] at hxn; cases hxn
      · exact ⟨x, hx, hxn⟩

theorem decLoop_ne_panic (cs : Bytes) : ∀ i ret, decLoop cs i ret ≠ .panic := by
  induction cs with
  | nil => intro i ret; simp [decLoop]
  | cons c cs ih =>
    intro i ret
    unfold decLoop
    split
    · simp
    · exact ih _ _

/-- the value the decoder computes for a string of alphabet characters -/
theorem decLoop_rev (s : Bytes) (hall : ∀ c ∈ s, (indexOf alphabet c).isSome) :
    decLoop s.reverse 0 0 = .ok (ofDigits 58 (s.map idx)) := by
  rw [decLoop_ok s.reverse (by simpa using hall), leVal_eq]
  simp

/-! ### round trips -/

theorem decode_encode (bs : Bytes) : decode (encode bs) = .ok bs := by
  obtain ⟨hsplit, hhead⟩ := leadingZeros_split bs
  have henc : encode bs =
      List.replicate (leadingZeros bs) (dchar 0) ++ (toDigits 58 (beNat bs) []).map dchar := by
    unfold encode; rw [encLoop_eq, one_eq]; simp
  have hdl := toDigits_lt (b := 58) (by decide) (beNat bs)
  have hdh := toDigits_head (b := 58) (by decide) (beNat bs)
  -- the digit string does not start with '1'
  have hE : ((toDigits 58 (beNat bs) []).map dchar).head? ≠ some (dchar 0) := by
    cases hd : toDigits 58 (beNat bs) [] with
    | nil => simp
    | cons x xs =>
      rw [hd] at hdl hdh
      have hx : x < 58 := hdl x (by simp)
      have hx0 : x ≠ 0 := by simpa using hdh
      simp only [List.map_cons, List.head?_cons, ne_eq, Option.some.injEq]
      exact fun h => hx0 (dchar_inj0 hx h)
  unfold decode
  simp only
  rw [henc, countOnes_replicate _ _ hE]
  have hdrop : (List.replicate (leadingZeros bs) (dchar 0) ++ (toDigits 58 (beNat bs) []).map dchar).drop
      (leadingZeros bs) = (toDigits 58 (beNat bs) []).map dchar := by
    simp
  rw [hdrop]
  have hall : ∀ c ∈ (toDigits 58 (beNat bs) []).map dchar, (indexOf alphabet c).isSome := by
    intro c hc
    rw [List.mem_map] at hc
    obtain ⟨d, hd, rfl⟩ := hc
    rw [indexOf_dchar d (hdl d hd)]; rfl
  rw [decLoop_rev _ hall]
  have hmap : ((toDigits 58 (beNat bs) []).map dchar).map idx = toDigits 58 (beNat bs) [] := by
    rw [List.map_map]
    conv => rhs; rw [← List.map_id (toDigits 58 (beNat bs) [])]
    apply List.map_congr_left
    intro d hd
    exact idx_dchar (hdl d hd)
  simp only [hmap, ofDigits_toDigits (b := 58) (by decide)]
  -- natBytes (beNat bs) = bs without its leading zeros
  have hval : beNat bs = ofDigits 256 ((bs.drop (leadingZeros bs)).map UInt8.toNat) := by
    rw [beNat_eq]
    conv => lhs; rw [hsplit]
    rw [List.map_append, List.map_replicate]
    exact ofDigits_replicate_zero 256 _ _
  have hcanon : toDigits 256 (beNat bs) [] = (bs.drop (leadingZeros bs)).map UInt8.toNat := by
    rw [hval]
    apply toDigits_ofDigits (by decide)
    · intro d hd
      rw [List.mem_map] at hd
      obtain ⟨b, _, rfl⟩ := hd
      exact b.toNat_lt
    · cases hdr : bs.drop (leadingZeros bs) with
      | nil => simp
      | cons b rest =>
        rw [hdr] at hhead
        have hb : ¬ b = 0 := by simpa using hhead
        simp only [List.map_cons, List.head?_cons, ne_eq, Option.some.injEq]
        intro h; apply hb
        exact UInt8.toNat_inj.mp (by simpa using h)
  rw [natBytes_eq, hcanon, toNat_ofNat_bytes]
  congr 1
  exact hsplit.symm

theorem encode_decode (s bs : Bytes) (h : decode s = .ok bs) : encode bs = s := by
  obtain ⟨hsplit, hhead⟩ := countOnes_split s
  unfold decode at h
  simp only at h
  -- every character after the leading '1's is in the alphabet
  have hall : ∀ c ∈ s.drop (countOnes s), (indexOf alphabet c).isSome := by
    intro c hc
    cases hi : indexOf alphabet c with
    | some _ => rfl
    | none =>
      have := decLoop_err (s.drop (countOnes s)).reverse ⟨c, by simpa using hc, hi⟩ 0 0
      rw [this] at h; cases h
  rw [decLoop_rev _ hall] at h
  simp only at h
  injection h with h
  -- the digits
  have hlt : ∀ d ∈ (s.drop (countOnes s)).map idx, d < 58 := by
    intro d hd
    rw [List.mem_map] at hd
    obtain ⟨c, hc, rfl⟩ := hd
    have := hall c hc
    cases hi : indexOf alphabet c with
    | none => rw [hi] at this; cases this
    | some i => simp only [idx, hi, Option.getD_some]; exact (dchar_idx hi).2
  have hdh : ((s.drop (countOnes s)).map idx).head? ≠ some 0 := by
    cases hdr : s.drop (countOnes s) with
    | nil => simp
    | cons c rest =>
      rw [hdr] at hhead hall
      have hc : ¬ c = dchar 0 := by simpa using hhead
      simp only [List.map_cons, List.head?_cons, ne_eq, Option.some.injEq]
      intro h0
      have := hall c (by simp)
      cases hi : indexOf alphabet c with
      | none => rw [hi] at this; cases this
      | some i =>
        have hi0 : i = 0 := by simpa [idx, hi] using h0
        subst hi0
        exact hc (dchar_idx hi).1.symm
  have hmapback : ((s.drop (countOnes s)).map idx).map dchar = s.drop (countOnes s) := by
    rw [List.map_map]
    conv => rhs; rw [← List.map_id (s.drop (countOnes s))]
    apply List.map_congr_left
    intro c hc
    have := hall c hc
    cases hi : indexOf alphabet c with
    | none => rw [hi] at this; cases this
    | some i => simp only [Function.comp, idx, hi, Option.getD_some, id]; exact (dchar_idx hi).1
  subst h
  unfold encode
  rw [leadingZeros_replicate _ _ (natBytes_head _), encLoop_eq, one_eq, beNat_eq, List.map_append,
    List.map_replicate, show ((0 : UInt8).toNat = 0) from rfl, ofDigits_replicate_zero, ← beNat_eq,
    beNat_natBytes, toDigits_ofDigits (by decide) _ hlt hdh, hmapback, List.append_nil]
  exact hsplit.symm

theorem decode_ne_panic (s : Bytes) : decode s ≠ .panic := by
  unfold decode
  simp only
  have := decLoop_ne_panic (s.drop (countOnes s)).reverse 0 0
  split <;> simp_all

/-! ### a lower bound on the decoded length (long strings are not addresses) -/

theorem foldl_digits_shift (b : Nat) (t : List Nat) : ∀ v,
    t.foldl (fun v d => v * b + d) v = v * b ^ t.length + t.foldl (fun v d => v * b + d) 0 := by
  induction t with
  | nil => intro v; simp
  | cons d t ih =>
    intro v
    simp only [List.foldl_cons, List.length_cons]
    rw [ih (v * b + d), ih (0 * b + d)]
    simp only [Nat.zero_mul, Nat.zero_add, Nat.pow_succ, Nat.add_mul]
    rw [Nat.mul_assoc, Nat.mul_comm b (b ^ t.length)]
    omega

theorem ofDigits_cons (b h : Nat) (t : List Nat) :
    ofDigits b (h :: t) = h * b ^ t.length + ofDigits b t := by
  simp only [ofDigits, List.foldl_cons, Nat.zero_mul, Nat.zero_add]
  exact foldl_digits_shift b t h

theorem ofDigits_lt (b : Nat) (hb : 1 ≤ b) (ds : List Nat) (h : ∀ d ∈ ds, d < b) :
    ofDigits b ds < b ^ ds.length := by
  induction ds with
  | nil => simp [ofDigits]
  | cons d ds ih =>
    rw [ofDigits_cons]
    have hd := h d (by simp)
    have := ih (fun x hx => h x (by simp [hx]))
    simp only [List.length_cons, Nat.pow_succ]
    have h1 : d * b ^ ds.length + b ^ ds.length ≤ b ^ ds.length * b := by
      rw [Nat.mul_comm (b ^ ds.length) b, ← Nat.succ_mul]
      exact Nat.mul_le_mul_right _ hd
    omega

theorem pow58_ge (k : Nat) : 256 ^ (2 * (k / 3)) ≤ 58 ^ k := by
  have h3 : (256 : Nat) ^ 2 ≤ 58 ^ 3 := by decide
  have : 256 ^ (2 * (k / 3)) ≤ 58 ^ (3 * (k / 3)) := by
    rw [Nat.pow_mul, Nat.pow_mul]
    exact Nat.pow_le_pow_left h3 _
  exact Nat.le_trans this (Nat.pow_le_pow_right (by decide) (Nat.mul_div_le k 3))

/-- a string of at least 41 characters decodes to at least 27 bytes (so, after the four checksum
    bytes, to a payload that is too long for an address) -/
theorem decode_length_ge (s bs : Bytes) (h : decode s = .ok bs) (hl : 41 ≤ s.length) : 27 ≤ bs.length := by
  obtain ⟨hsplit, hhead⟩ := countOnes_split s
  unfold decode at h
  simp only at h
  have hall : ∀ c ∈ s.drop (countOnes s), (indexOf alphabet c).isSome := by
    intro c hc
    cases hi : indexOf alphabet c with
    | some _ => rfl
    | none =>
      have := decLoop_err (s.drop (countOnes s)).reverse ⟨c, by simpa using hc, hi⟩ 0 0
      rw [this] at h; cases h
  rw [decLoop_rev _ hall] at h
  simp only at h
  injection h with h
  subst h
  generalize hrest : s.drop (countOnes s) = rest at *
  have hsl : s.length = countOnes s + rest.length := by
    conv => lhs; rw [hsplit]
    simp
  simp only [List.length_append, List.length_replicate]
  cases hr : rest with
  | nil =>
    rw [hr] at hsl
    simp at hsl
    simp [natBytes_eq, toDigits_zero, ofDigits]
    omega
  | cons c cs =>
    rw [← hr]
    -- the first remaining character is not '1', so its digit is not zero
    have hc0 : idx c ≠ 0 := by
      intro h0
      have hcm : c ∈ rest := by rw [hr]; simp
      have := hall c hcm
      cases hi : indexOf alphabet c with
      | none => rw [hi] at this; cases this
      | some i =>
        have hi0 : i = 0 := by simpa [idx, hi] using h0
        subst hi0
        have : c = dchar 0 := (dchar_idx hi).1.symm
        rw [hr] at hhead
        simp at hhead
        exact hhead this
    have hval : 58 ^ cs.length ≤ ofDigits 58 (rest.map idx) := by
      rw [hr, List.map_cons, ofDigits_cons, List.length_map]
      have : 1 * 58 ^ cs.length ≤ idx c * 58 ^ cs.length := Nat.mul_le_mul_right _ (by omega)
      omega
    generalize ofDigits 58 (rest.map idx) = v at hval
    have hn : v < 256 ^ (natBytes v).length := by
      have h1 := ofDigits_lt 256 (by decide) (toDigits 256 v []) (toDigits_lt (by decide) v)
      rw [ofDigits_toDigits (by decide)] at h1
      rw [natBytes_eq, List.length_map]
      exact h1
    have hpow := pow58_ge cs.length
    have hlt : 256 ^ (2 * (cs.length / 3)) < 256 ^ (natBytes v).length := by omega
    have hn2 : 2 * (cs.length / 3) < (natBytes v).length := by
      apply Decidable.byContradiction
      intro hge
      have : 256 ^ (natBytes v).length ≤ 256 ^ (2 * (cs.length / 3)) :=
        Nat.pow_le_pow_right (by decide) (by omega)
      omega
    rw [hr] at hsl
    simp only [List.length_cons] at hsl
    omega

/-! ### Base58Check, for an arbitrary checksum function -/

namespace Check
open BtcVerif.Model.Base58Check

theorem decode_of_base58 (ck : Bytes → Bytes) (s dec : Bytes) (h : Base58.decode s = .ok dec) :
    Base58Check.decode ck s =
      if dec.length < 4 then .err
      else if ck (dec.take (dec.length - 4)) = dec.drop (dec.length - 4) then
        .ok (dec.take (dec.length - 4)) else .err := by
  unfold Base58Check.decode
  rw [h]
  simp only [base58check_Decode_0, base58check_Decode_1]
  by_cases h4 : dec.length < 4
  · have : ((dec.length : Int) < 4) := by omega
    simp [h4, this]
  · have : ¬ ((dec.length : Int) < 4) := by omega
    simp only [this, decide_false, h4, if_false]
    by_cases hc : ck (dec.take (dec.length - 4)) = dec.drop (dec.length - 4)
    · simp [hc]
    · simp [hc]

theorem decode_encode (ck : Bytes → Bytes) (hck : ∀ x, (ck x).length = 4) (d : Bytes) :
    Base58Check.decode ck (Base58Check.encode ck d) = .ok d := by
  unfold Base58Check.encode
  rw [decode_of_base58 ck _ _ (Base58.decode_encode (d ++ ck d))]
  have hl : (d ++ ck d).length - 4 = d.length := by simp [hck]
  rw [hl]
  have h4 : ¬ (d ++ ck d).length < 4 := by simp [hck]
  rw [if_neg h4]
  simp

theorem encode_decode (ck : Bytes → Bytes) (s d : Bytes)
    (h : Base58Check.decode ck s = .ok d) : Base58Check.encode ck d = s := by
  cases hb : Base58.decode s with
  | err => unfold Base58Check.decode at h; rw [hb] at h; cases h
  | panic => unfold Base58Check.decode at h; rw [hb] at h; cases h
  | ok dec =>
    rw [decode_of_base58 ck s dec hb] at h
    split at h
    · cases h
    · split at h
      · rename_i hc
        injection h with h
        subst h
        unfold Base58Check.encode
        rw [hc, List.take_append_drop]
        exact Base58.encode_decode s dec hb
      · cases h

/-- a string whose last four decoded bytes are not the checksum of the rest is rejected -/
theorem rejects_bad_checksum (ck : Bytes → Bytes) (s dec : Bytes) (h : Base58.decode s = .ok dec)
    (hbad : ck (dec.take (dec.length - 4)) ≠ dec.drop (dec.length - 4)) :
    Base58Check.decode ck s = .err := by
  rw [decode_of_base58 ck s dec h]
  split
  · rfl
  · simp [hbad]

theorem rejects_wrong_tail (ck : Bytes → Bytes) (d t : Bytes) (ht : t.length = 4) (hne : t ≠ ck d) :
    Base58Check.decode ck (Base58.encode (d ++ t)) = .err := by
  apply rejects_bad_checksum ck _ (d ++ t) (Base58.decode_encode _)
  have hl : (d ++ t).length - 4 = d.length := by simp [ht]
  rw [hl]
  simp
  exact fun h => hne h.symm

theorem decode_ne_panic (ck : Bytes → Bytes) (s : Bytes) : Base58Check.decode ck s ≠ .panic := by
  cases hb : Base58.decode s with
  | err => unfold Base58Check.decode; rw [hb]; simp
  | panic => exact absurd hb (Base58.decode_ne_panic s)
  | ok dec =>
    rw [decode_of_base58 ck s dec hb]
    split
    · simp
    · split <;> simp

theorem versionBytes_length (v : Nat) : (versionBytes v).length = if v ≤ 255 then 1 else 2 := by
  unfold versionBytes
  simp only [base58check_EncodeVersion_0]
  by_cases h : v ≤ 255 <;> simp [h]

end Check

end BtcVerif.Proofs.Base58
