/-
  The mathematical hypotheses under which the ECC theorems (C04, C05, C06) are stated.
  They are **structure fields, never axioms**: every theorem takes `(H : FieldHyp C)` or
  `(H : CurveAbs C)` as an explicit argument, and `Proofs/CurveAbsToy.lean` instantiates both for a
  genuine small curve (`y² = x³ + 7` over F₄₃, prime order 31, ekliptic's affine formulas), so the
  hypotheses are jointly satisfiable and no theorem is vacuous.

  `FieldHyp C` — about the field prime `p` and the opaque square-root exponentiation:
     range facts, `SqrtComplete` (if `c` is a square, `sqrtExp c` is a root), `SqrtUnique`
     (`y² = z²` only for `z = ±y`; proved from `p` prime in `sqrt_unique_of_prime`, see `FieldHyp.ofPrime`), and the two arithmetic facts that make
     "a zero coordinate" synonymous with "not a finite point": 7 is not a square and −7 is not a
     cube modulo `p` (true for secp256k1: the group has prime order, hence no point of order 2
     (`y = 0`) or 3 (`x = 0`)).
  `CurveAbs C` — `SecpGroup` + `XOnly`: a commutative group `Pt` with coordinates `xy`
     (`xy 0 = (0,0)`, ekliptic's infinity), whose non-zero elements are exactly the reduced
     solutions of the curve equation, a generator `G` of exact order `n`, `n·P = 0` for all `P`,
     negation mirrors `y`, and the record's `add`/`mul`/`invN` compute the group law / the inverse
     modulo `n`.
-/
import Mathlib.Data.ZMod.Basic
import Mathlib.Algebra.Field.ZMod
import Mathlib.Tactic.Ring
import Mathlib.Tactic.LinearCombination
import BtcVerif.Model.ECC
import BtcVerif.Spec.ECC

namespace BtcVerif.Proofs
open BtcVerif BtcVerif.Model.ECC

/-- field-level hypotheses -/
structure FieldHyp (C : CurveOps) : Prop where
  p_gt : 7 < C.p
  p_odd : C.p % 2 = 1
  p_lt : C.p < 2 ^ 256
  /-- `big.Int.Exp(·, ·, P)` returns a reduced value -/
  sqrtExp_lt : ∀ c, C.sqrtExp c < C.p
  /-- SqrtComplete: for a square `c`, `c^((p+1)/4)` is a square root -/
  sqrt_complete : ∀ c y, y < C.p → y * y % C.p = c → C.sqrtExp c * C.sqrtExp c % C.p = c
  /-- SqrtUnique: a field element has at most the two roots `±y` -/
  sqrt_unique : ∀ y z, y < C.p → z < C.p → y * y % C.p = z * z % C.p → z = y ∨ z + y = C.p
  /-- no curve point has `x = 0`: 7 is a quadratic non-residue -/
  no_x_zero : ∀ y, y < C.p → y * y % C.p ≠ 7
  /-- no curve point has `y = 0`: −7 is not a cube -/
  no_y_zero : ∀ x, x < C.p → (x * x * x + 7) % C.p ≠ 0

/-- group-level hypotheses (`SecpGroup`, `XOnly`) -/
structure CurveAbs (C : CurveOps) where
  field : FieldHyp C
  Pt : Type
  [grp : AddCommGroup Pt]
  G : Pt
  /-- affine coordinates; ekliptic's `(0,0)` for the neutral element -/
  xy : Pt → Nat × Nat
  xy_zero : xy 0 = (0, 0)
  xy_inj : ∀ P Q, xy P = xy Q → P = Q
  xy_G : xy G = (C.gx, C.gy)
  /-- finite points satisfy the curve equation with reduced coordinates … -/
  on_curve : ∀ P, P ≠ 0 → Spec.ECC.validPoint C (xy P) = true
  /-- … and every such solution is a point -/
  surj : ∀ Q : Nat × Nat, Spec.ECC.validPoint C Q = true → ∃ P, P ≠ 0 ∧ xy P = Q
  /-- XOnly: negation keeps `x` and mirrors `y` -/
  neg_xy : ∀ P, P ≠ 0 → xy (-P) = ((xy P).1, C.p - (xy P).2)
  n_gt : 1 < C.n
  n_lt : C.n < 2 ^ 256
  /-- the group has exponent `n` … -/
  order : ∀ P : Pt, C.n • P = 0
  /-- … and `G` has order exactly `n` -/
  G_order : ∀ k : ℕ, k • G = 0 → C.n ∣ k
  add_spec : ∀ P Q, C.add (xy P) (xy Q) = xy (P + Q)
  mul_spec : ∀ (k : ℕ) P, C.mul k (xy P) = xy (k • P)
  invN_spec : ∀ s, 0 < s → s < C.n → C.invN s * s % C.n = 1

attribute [instance] CurveAbs.grp

namespace FieldHyp
variable {C : CurveOps} (H : FieldHyp C)
include H

theorem p_pos : 0 < C.p := by have := H.p_gt; omega

theorem seven_mod : 7 % C.p = 7 := Nat.mod_eq_of_lt H.p_gt

end FieldHyp

theorem neg_sq_mod (p y : Nat) (h : y ≤ p) : (p - y) * (p - y) % p = y * y % p := by
  obtain ⟨d, rfl⟩ : ∃ d, p = y + d := ⟨p - y, by omega⟩
  have e : y + d - y = d := by omega
  rw [e]
  have : d * d + (y + d) * (2 * y) = y * y + (y + d) * (y + d) := by ring
  have h1 : (d * d + (y + d) * (2 * y)) % (y + d) = d * d % (y + d) := Nat.add_mul_mod_self_left _ _ _
  have h2 : (y * y + (y + d) * (y + d)) % (y + d) = y * y % (y + d) := Nat.add_mul_mod_self_left _ _ _
  rw [← h1, this, h2]

/-- SqrtUnique is not an extra assumption: it holds for every prime modulus -/
theorem sqrt_unique_of_prime {p : ℕ} (hp : p.Prime) (y z : ℕ) (hy : y < p) (hz : z < p)
    (h : y * y % p = z * z % p) : z = y ∨ z + y = p := by
  have : Fact p.Prime := ⟨hp⟩
  have hc : ((y : ZMod p)) * y = (z : ZMod p) * z := by
    have := (ZMod.natCast_eq_natCast_iff' (y * y) (z * z) p).mpr h
    simpa using this
  rcases mul_self_eq_mul_self_iff.mp hc with h1 | h1
  · left
    have := (ZMod.natCast_eq_natCast_iff' y z p).mp h1
    rw [Nat.mod_eq_of_lt hy, Nat.mod_eq_of_lt hz] at this
    exact this.symm
  · have h2 : ((z + y : ℕ) : ZMod p) = 0 := by
      push_cast; rw [h1]; ring
    have h3 := (ZMod.natCast_eq_zero_iff (z + y) p).mp h2
    obtain ⟨k, hk⟩ := h3
    have : k = 0 ∨ k = 1 := by
      rcases k with _ | _ | k
      · left; rfl
      · right; rfl
      · exfalso
        have : p * (k + 1 + 1) = p * k + p + p := by ring
        omega
    rcases this with rfl | rfl
    · left; omega
    · right; omega

/-- `FieldHyp` from primality: `SqrtUnique` and oddness are consequences of `p` being a prime > 7 -/
theorem FieldHyp.ofPrime {C : CurveOps} (hp : C.p.Prime) (h7 : 7 < C.p) (hlt : C.p < 2 ^ 256)
    (h1 : ∀ c, C.sqrtExp c < C.p)
    (h2 : ∀ c y, y < C.p → y * y % C.p = c → C.sqrtExp c * C.sqrtExp c % C.p = c)
    (h3 : ∀ y, y < C.p → y * y % C.p ≠ 7) (h4 : ∀ x, x < C.p → (x * x * x + 7) % C.p ≠ 0) : FieldHyp C where
  p_gt := h7
  p_odd := by
    rcases hp.eq_two_or_odd with h | h
    · omega
    · exact h
  p_lt := hlt
  sqrtExp_lt := h1
  sqrt_complete := h2
  sqrt_unique := fun y z hy hz h => sqrt_unique_of_prime hp y z hy hz h
  no_x_zero := h3
  no_y_zero := h4

namespace CurveAbs
variable {C : CurveOps} (H : CurveAbs C)
include H

theorem n_pos : 0 < C.n := by have := H.n_gt; omega

theorem xy_eq_zero_iff (P : H.Pt) : H.xy P = (0, 0) ↔ P = 0 := by
  constructor
  · intro h
    exact H.xy_inj _ _ (by rw [h, H.xy_zero])
  · rintro rfl; exact H.xy_zero

/-- unfolded form of `validPoint` -/
theorem on_curve' (P : H.Pt) (hP : P ≠ 0) :
    (H.xy P).1 < C.p ∧ (H.xy P).2 < C.p ∧
      (H.xy P).2 * (H.xy P).2 % C.p = ((H.xy P).1 * (H.xy P).1 * (H.xy P).1 + 7) % C.p := by
  have := H.on_curve P hP
  simpa [Spec.ECC.validPoint, and_assoc] using this

/-- a finite point has no zero coordinate -/
theorem coords_ne_zero (P : H.Pt) (hP : P ≠ 0) : (H.xy P).1 ≠ 0 ∧ (H.xy P).2 ≠ 0 := by
  obtain ⟨hx, hy, he⟩ := H.on_curve' P hP
  constructor
  · intro h0
    rw [h0] at he
    simp only [Nat.mul_zero, Nat.zero_add, H.field.seven_mod] at he
    exact H.field.no_x_zero _ hy he
  · intro h0
    rw [h0] at he
    simp only [Nat.mul_zero, Nat.zero_mod] at he
    exact H.field.no_y_zero _ hx he.symm

theorem isOnCurveAffine_xy (P : H.Pt) : isOnCurveAffine C (H.xy P) = true := by
  by_cases hP : P = 0
  · subst hP; simp [isOnCurveAffine, H.xy_zero]
  · obtain ⟨_, _, he⟩ := H.on_curve' P hP
    simp [isOnCurveAffine, he]

theorem nsmul_mod (k : ℕ) (P : H.Pt) : (k % C.n) • P = k • P := by
  conv_rhs => rw [← Nat.div_add_mod k C.n]
  rw [add_nsmul, mul_nsmul, H.order, smul_zero, zero_add]

theorem nsmul_congr {a b : ℕ} (h : a % C.n = b % C.n) (P : H.Pt) : a • P = b • P := by
  rw [← H.nsmul_mod a, ← H.nsmul_mod b, h]

theorem nsmul_neg_of_add {a b : ℕ} (h : (a + b) % C.n = 0) (P : H.Pt) : a • P = -(b • P) := by
  have : (a + b) • P = 0 := by rw [← H.nsmul_mod, h, zero_nsmul]
  rw [add_nsmul] at this
  exact eq_neg_of_add_eq_zero_left this

/-- `G` times a scalar in `[1, n-1]` is a finite point -/
theorem nsmul_G_ne_zero {k : ℕ} (h0 : 0 < k) (hn : k < C.n) : k • H.G ≠ 0 := by
  intro h
  have := Nat.le_of_dvd h0 (H.G_order k h)
  omega

theorem G_ne_zero : H.G ≠ 0 := by
  have := H.nsmul_G_ne_zero (k := 1) (by omega) H.n_gt
  simpa using this

theorem mulBase_eq {k : ℕ} (hk : k < 2 ^ 256) : mulBase C k = .ok (H.xy (k • H.G)) := by
  unfold mulBase
  rw [if_pos hk, Model.ECC.G, ← H.xy_G, H.mul_spec]

theorem mulAffine_eq (k : ℕ) (P : H.Pt) (hk : k < 2 ^ 256) :
    mulAffine C k (H.xy P) = .ok (H.xy (k • P)) := by
  unfold mulAffine
  rw [H.isOnCurveAffine_xy, Nat.mod_eq_of_lt hk, H.mul_spec]
  rfl

/-- ekliptic's `Negate` applied to the `y` of a group element is the group negation -/
theorem negateY_xy (P : H.Pt) : ((H.xy P).1, negateY C (H.xy P).2) = H.xy (-P) := by
  by_cases hP : P = 0
  · subst hP; simp [H.xy_zero, negateY]
  · rw [H.neg_xy P hP]
    simp [negateY, (H.coords_ne_zero P hP).2]

theorem subAffine_eq (P Q : H.Pt) : subAffine C (H.xy P) (H.xy Q) = H.xy (P - Q) := by
  rw [subAffine, H.negateY_xy, H.add_spec, sub_eq_add_neg]

theorem specNeg_eq (P : H.Pt) : Spec.ECC.neg C (H.xy P) = H.xy (-P) := by
  by_cases hP : P = 0
  · subst hP; simp [Spec.ECC.neg, Spec.ECC.isInfinity, H.xy_zero]
  · have := H.coords_ne_zero P hP
    rw [H.neg_xy P hP]
    simp [Spec.ECC.neg, Spec.ECC.isInfinity, this.1]

theorem isInfinity_xy (P : H.Pt) : Spec.ECC.isInfinity (H.xy P) = true ↔ P = 0 := by
  by_cases hP : P = 0
  · subst hP; simp [Spec.ECC.isInfinity, H.xy_zero]
  · simp [Spec.ECC.isInfinity, hP, (H.coords_ne_zero P hP).1]

/-- XOnly: parity of `y` flips under negation -/
theorem neg_parity (P : H.Pt) (hP : P ≠ 0) : (H.xy (-P)).2 % 2 ≠ (H.xy P).2 % 2 := by
  obtain ⟨_, hy, _⟩ := H.on_curve' P hP
  have h0 := (H.coords_ne_zero P hP).2
  have := H.field.p_odd
  rw [H.neg_xy P hP]
  simp only
  omega

theorem neg_x (P : H.Pt) : (H.xy (-P)).1 = (H.xy P).1 := by
  by_cases hP : P = 0
  · subst hP; simp
  · rw [H.neg_xy P hP]

end CurveAbs

end BtcVerif.Proofs
