/-
  Helper lemmas for C10: BIP32 extended-key strings. Core Lean only.
-/
import BtcVerif.Model.XKey
import BtcVerif.Proofs.Base58

namespace BtcVerif.Proofs.XKey
open BtcVerif BtcVerif.Model BtcVerif.Model.XKey BtcVerif.Gen.Guards

theorem ser32_length (v : Nat) : (ser32 v).length = 4 := by simp [ser32]

/-- the six fields of a 78-byte payload laid out as `serialize` writes it -/
theorem layout (a b c e f : Bytes) (dep : UInt8) (ha : a.length = 4) (hb : b.length = 4)
    (hc : c.length = 4) (he : e.length = 32) :
    (a ++ [dep] ++ b ++ c ++ e ++ f)[4]? = some dep ∧
    (a ++ [dep] ++ b ++ c ++ e ++ f).take 4 = a ∧
    ((a ++ [dep] ++ b ++ c ++ e ++ f).drop 5).take 4 = b ∧
    ((a ++ [dep] ++ b ++ c ++ e ++ f).drop 9).take 4 = c ∧
    ((a ++ [dep] ++ b ++ c ++ e ++ f).drop 13).take 32 = e ∧
    (a ++ [dep] ++ b ++ c ++ e ++ f).drop 45 = f := by
  have e1 : a ++ [dep] ++ b ++ c ++ e ++ f = a ++ ([dep] ++ (b ++ (c ++ (e ++ f)))) := by simp
  rw [e1]
  refine ⟨?_, ?_, ?_, ?_, ?_, ?_⟩
  · rw [List.getElem?_append_right (by omega)]; simp [ha]
  · exact List.take_left' ha
  · have : a ++ ([dep] ++ (b ++ (c ++ (e ++ f)))) = (a ++ [dep]) ++ (b ++ (c ++ (e ++ f))) := by simp
    rw [this, List.drop_left' (by simp [ha]), List.take_left' hb]
  · have : a ++ ([dep] ++ (b ++ (c ++ (e ++ f)))) = (a ++ [dep] ++ b) ++ (c ++ (e ++ f)) := by simp
    rw [this, List.drop_left' (by simp [ha, hb]), List.take_left' hc]
  · have : a ++ ([dep] ++ (b ++ (c ++ (e ++ f)))) = (a ++ [dep] ++ b ++ c) ++ (e ++ f) := by simp
    rw [this, List.drop_left' (by simp [ha, hb, hc]), List.take_left' he]
  · have : a ++ ([dep] ++ (b ++ (c ++ (e ++ f)))) = (a ++ [dep] ++ b ++ c ++ e) ++ f := by simp
    rw [this, List.drop_left' (by simp [ha, hb, hc, he])]

/-- a 78-byte payload is the concatenation of its six fields -/
theorem reassemble (P : Bytes) (hl : P.length = 78) (dep : UInt8) (hd : P[4]? = some dep) :
    P = P.take 4 ++ [dep] ++ (P.drop 5).take 4 ++ (P.drop 9).take 4 ++ (P.drop 13).take 32 ++ P.drop 45 := by
  have h4 : P.drop 4 = dep :: P.drop 5 := by
    have hlt : 4 < P.length := by omega
    rw [List.getElem?_eq_getElem hlt] at hd
    injection hd with hd
    rw [← hd]
    exact List.drop_eq_getElem_cons hlt
  have s1 : P = P.take 4 ++ P.drop 4 := (List.take_append_drop 4 P).symm
  have s2 : P.drop 5 = (P.drop 5).take 4 ++ P.drop 9 := by
    have := (List.take_append_drop 4 (P.drop 5)).symm
    simpa [List.drop_drop] using this
  have s3 : P.drop 9 = (P.drop 9).take 4 ++ P.drop 13 := by
    have := (List.take_append_drop 4 (P.drop 9)).symm
    simpa [List.drop_drop] using this
  have s4 : P.drop 13 = (P.drop 13).take 32 ++ P.drop 45 := by
    have := (List.take_append_drop 32 (P.drop 13)).symm
    simpa [List.drop_drop] using this
  conv => lhs; rw [s1, h4, s2, s3, s4]
  simp

theorem deserialize_of_payload (ck : Bytes → Bytes) (pubOk : Bytes → Bool) (s P : Bytes)
    (h : Base58Check.decode ck s = .ok P) :
    deserialize ck pubOk s =
      if P.length ≠ 78 then .err
      else match P[4]? with
        | none => .panic
        | some depth =>
          match P.drop 45 with
          | [] => .panic
          | k0 :: krest =>
            if k0 = 0 then
              .ok ⟨krest, (P.drop 13).take 32, (P.drop 5).take 4, depth.toNat, beNat ((P.drop 9).take 4),
                beNat (P.take 4)⟩
            else if pubOk (k0 :: krest) then
              .ok ⟨k0 :: krest, (P.drop 13).take 32, (P.drop 5).take 4, depth.toNat,
                beNat ((P.drop 9).take 4), beNat (P.take 4)⟩
            else .err := by
  unfold deserialize
  rw [h]
  simp only [bip32_Deserialize_0, bip32_Deserialize_1]
  by_cases hl : P.length = 78
  · have : ¬ ((P.length : Int) ≠ 78) := by omega
    simp only [this, decide_false, hl, ne_eq, not_true_eq_false, if_false, Bool.false_eq_true]
    cases P[4]? with
    | none => rfl
    | some depth =>
      simp only
      cases P.drop 45 with
      | nil => rfl
      | cons k0 krest =>
        simp only
        by_cases hk : k0 = 0
        · subst hk; simp
        · have : ¬ k0.toNat = 0 := by
            intro h'; apply hk
            exact UInt8.toNat_inj.mp (by simpa using h')
          simp [hk, this]
  · have : ((P.length : Int) ≠ 78) := by omega
    simp [this, hl]

/-- well-formed fields of an extended key (the domain of the round trip) -/
structure WF (pubOk : Bytes → Bool) (key chainCode fp : Bytes) (depth index version : Nat)
    (isPrivate : Bool) : Prop where
  cc : chainCode.length = 32
  fp : fp.length = 4
  depth : depth < 256
  index : index < 4294967296
  version : version < 4294967296
  key : if isPrivate then key.length = 32
        else key.length = 33 ∧ key.head? ≠ some 0 ∧ pubOk key = true

theorem toNat_ofNat_lt {v : Nat} (h : v < 256) : (UInt8.ofNat v).toNat = v := by
  simp [UInt8.toNat_ofNat']; omega

theorem serialize_eq (ck : Bytes → Bytes) (key chainCode fp : Bytes) (depth index version : Nat)
    (isPrivate : Bool) :
    serialize ck key chainCode fp depth index version isPrivate =
      Base58Check.encode ck (ser32 version ++ [UInt8.ofNat depth] ++ (if depth = 0 then ser32 0 else fp) ++
        ser32 (if depth = 0 then 0 else index) ++ chainCode ++
        ((if isPrivate = true then ([0] : Bytes) else []) ++ key)) := by
  unfold serialize
  by_cases h : depth = 0 <;> cases isPrivate <;> simp [bip32_serialize_0, bip32_serialize_1, h]

theorem deserialize_serialize (ck : Bytes → Bytes) (hck : ∀ x, (ck x).length = 4)
    (pubOk : Bytes → Bool) (key chainCode fp : Bytes) (depth index version : Nat) (isPrivate : Bool)
    (wf : WF pubOk key chainCode fp depth index version isPrivate) :
    deserialize ck pubOk (serialize ck key chainCode fp depth index version isPrivate) =
      .ok ⟨key, chainCode, if depth = 0 then ser32 0 else fp, depth,
        if depth = 0 then 0 else index, version⟩ := by
  rw [serialize_eq]
  generalize hfp' : (if depth = 0 then ser32 0 else fp) = fp'
  generalize hix' : (if depth = 0 then 0 else index) = index'
  generalize hpre : (if isPrivate = true then ([0] : Bytes) else []) = pre
  have hfpl : fp'.length = 4 := by
    rw [← hfp']; split
    · exact ser32_length 0
    · exact wf.fp
  have hidx : index' < 256 ^ 4 := by
    rw [← hix']; split
    · decide
    · have := wf.index; simpa using this
  have hver : version < 256 ^ 4 := by have := wf.version; simpa using this
  rw [deserialize_of_payload ck pubOk _ _ (Base58.Check.decode_encode ck hck _)]
  obtain ⟨l1, l2, l3, l4, l5, l6⟩ := layout (ser32 version) fp' (ser32 index') chainCode (pre ++ key)
    (UInt8.ofNat depth) (ser32_length _) hfpl (ser32_length _) wf.cc
  have hk := wf.key
  have hlen : (ser32 version ++ [UInt8.ofNat depth] ++ fp' ++ ser32 index' ++ chainCode ++
      (pre ++ key)).length = 78 := by
    simp only [List.length_append, ser32_length, hfpl, wf.cc, List.length_cons, List.length_nil]
    rw [← hpre]
    cases isPrivate with
    | true => simp at hk; simp [hk]
    | false => simp at hk; simp [hk.1]
  rw [if_neg (fun h => h hlen), l1]
  simp only [l2, l3, l4, l5, l6]
  have hv : beNat (ser32 version) = version := beNat_beBytes 4 version hver
  have hi : beNat (ser32 index') = index' := beNat_beBytes 4 _ hidx
  rw [hv, hi, toNat_ofNat_lt wf.depth, ← hpre]
  cases isPrivate with
  | true => simp
  | false =>
    simp only [Bool.false_eq_true, if_false] at hk ⊢
    obtain ⟨hk1, hk2, hk3⟩ := hk
    cases key with
    | nil => simp at hk1
    | cons k0 krest =>
      have hk0 : ¬ k0 = 0 := by simpa using hk2
      simp [hk0, hk3]

/-- acceptance: a Base58Check payload of 78 bytes whose key field starts with 00 or passes the
    public-key check -/
theorem accepts_iff (ck : Bytes → Bytes) (pubOk : Bytes → Bool) (s : Bytes) :
    (∃ r, deserialize ck pubOk s = .ok r) ↔
      ∃ P, Base58Check.decode ck s = .ok P ∧ P.length = 78 ∧
        (P[45]? = some 0 ∨ pubOk (P.drop 45) = true) := by
  constructor
  · rintro ⟨r, hr⟩
    cases hp : Base58Check.decode ck s with
    | err => unfold deserialize at hr; rw [hp] at hr; cases hr
    | panic => unfold deserialize at hr; rw [hp] at hr; cases hr
    | ok P =>
      refine ⟨P, rfl, ?_⟩
      rw [deserialize_of_payload ck pubOk s P hp] at hr
      split at hr
      · cases hr
      · rename_i hl
        have hl' : P.length = 78 := by simpa using hl
        refine ⟨hl', ?_⟩
        split at hr
        · cases hr
        · split at hr
          · cases hr
          · rename_i k0 krest hkey
            have h45 : P[45]? = some k0 := by
              have := List.getElem?_drop (xs := P) (i := 45) (j := 0)
              rw [hkey] at this
              simpa using this.symm
            split at hr
            · rename_i hk0; left; rw [h45, hk0]
            · split at hr
              · rename_i hpub; right; rw [hkey]; exact hpub
              · cases hr
  · rintro ⟨P, hp, hl, hkey⟩
    rw [deserialize_of_payload ck pubOk s P hp]
    rw [if_neg (fun h => h hl)]
    have h4 : 4 < P.length := by omega
    rw [List.getElem?_eq_getElem h4]
    simp only
    cases hd45 : P.drop 45 with
    | nil =>
      exfalso
      have : (P.drop 45).length = 33 := by simp; omega
      rw [hd45] at this; simp at this
    | cons k0 krest =>
      simp only
      have h45 : P[45]? = some k0 := by
        have := List.getElem?_drop (xs := P) (i := 45) (j := 0)
        rw [hd45] at this
        simpa using this.symm
      rcases hkey with hk | hk
      · rw [h45] at hk
        injection hk with hk
        subst hk
        simp
      · rw [hd45] at hk
        by_cases h0 : k0 = 0
        · simp [h0]
        · simp [h0, hk]

/-- canonicity: an accepted string is the serialization of the fields it yields, unless it
    carries depth 0 together with a non-zero fingerprint or index (which `serialize` normalises) -/
theorem serialize_deserialize (ck : Bytes → Bytes) (pubOk : Bytes → Bool) (s : Bytes) (r : Fields)
    (hd : deserialize ck pubOk s = .ok r)
    (hnorm : r.depth ≠ 0 ∨ (r.parentFingerprint = ser32 0 ∧ r.index = 0)) :
    serialize ck r.key r.chainCode r.parentFingerprint r.depth r.index r.version
      (decide (r.key.length = 32)) = s := by
  cases hp : Base58Check.decode ck s with
  | err => unfold deserialize at hd; rw [hp] at hd; cases hd
  | panic => unfold deserialize at hd; rw [hp] at hd; cases hd
  | ok P =>
    have henc := Base58.Check.encode_decode ck s P hp
    rw [deserialize_of_payload ck pubOk s P hp] at hd
    split at hd
    · cases hd
    · rename_i hl
      have hl' : P.length = 78 := by simpa using hl
      split at hd
      · cases hd
      · rename_i depth hdep
        have hre := reassemble P hl' depth hdep
        have hfpl : ((P.drop 5).take 4).length = 4 := by simp; omega
        have hil : ((P.drop 9).take 4).length = 4 := by simp; omega
        have hvl : (P.take 4).length = 4 := by simp; omega
        have hver : ser32 (beNat (P.take 4)) = P.take 4 := by
          have := beBytes_beNat (P.take 4); rw [hvl] at this; exact this
        have hidx : ser32 (beNat ((P.drop 9).take 4)) = (P.drop 9).take 4 := by
          have := beBytes_beNat ((P.drop 9).take 4); rw [hil] at this; exact this
        have hkl : (P.drop 45).length = 33 := by simp; omega
        -- the normalisation at depth 0 changes nothing under `hnorm`
        have key_fact : ∀ (key : Bytes) (priv : Bool),
            (if priv = true then [0] else []) ++ key = P.drop 45 →
            r = ⟨key, (P.drop 13).take 32, (P.drop 5).take 4, depth.toNat,
              beNat ((P.drop 9).take 4), beNat (P.take 4)⟩ →
            decide (key.length = 32) = priv →
            serialize ck r.key r.chainCode r.parentFingerprint r.depth r.index r.version
              (decide (r.key.length = 32)) = s := by
          intro key priv hkey hr hpriv
          subst hr
          simp only at hnorm ⊢
          rw [hpriv]
          rw [serialize_eq]
          have hfpn : (if depth.toNat = 0 then ser32 0 else (P.drop 5).take 4) = (P.drop 5).take 4 := by
            split
            · rename_i h0
              rcases hnorm with h | h
              · exact absurd h0 h
              · exact h.1.symm
            · rfl
          have hixn : (if depth.toNat = 0 then 0 else beNat ((P.drop 9).take 4)) =
              beNat ((P.drop 9).take 4) := by
            split
            · rename_i h0
              rcases hnorm with h | h
              · exact absurd h0 h
              · exact h.2.symm
            · rfl
          rw [hfpn, hixn, hver, hidx]
          have hdp : UInt8.ofNat depth.toNat = depth := by simp
          rw [hdp, hkey]
          rw [← hre]
          exact henc
        split at hd
        · cases hd
        · rename_i k0 krest hkey
          rw [hkey] at hkl
          have hkr : krest.length = 32 := by simpa using hkl
          split at hd
          · rename_i hk0
            injection hd with hd
            exact key_fact krest true (by rw [hkey, hk0]; rfl) hd.symm (by simp [hkr])
          · split at hd
            · injection hd with hd
              exact key_fact (k0 :: krest) false (by rw [hkey]; rfl) hd.symm (by simp [hkr])
            · cases hd

theorem deserialize_ne_panic (ck : Bytes → Bytes) (pubOk : Bytes → Bool) (s : Bytes) :
    deserialize ck pubOk s ≠ .panic := by
  cases hp : Base58Check.decode ck s with
  | err => unfold deserialize; rw [hp]; simp
  | panic => exact absurd hp (Base58.Check.decode_ne_panic _ _)
  | ok P =>
    rw [deserialize_of_payload ck pubOk s P hp]
    split
    · simp
    · rename_i hl
      have hl' : P.length = 78 := by simpa using hl
      have h4 : 4 < P.length := by omega
      rw [List.getElem?_eq_getElem h4]
      simp only
      have h45lt : 45 < P.length := by omega
      rw [List.drop_eq_getElem_cons h45lt]
      simp only
      split
      · simp
      · split <;> simp

end BtcVerif.Proofs.XKey
