/-
  Helper lemmas for C07 (BIP32). Everything is about `Model.ckdPriv/ckdPub/derivePriv/derivePub/
  masterKey` over an ARBITRARY record of curve operations `C` with the named hypotheses of
  `Proofs/GroupAbs.lean`, and an ARBITRARY function `hmac` in place of HMAC-SHA512 of which only
  the output length (64 bytes, `HmacLen`) is used.
-/
import BtcVerif.Proofs.GroupAbs
import BtcVerif.Spec.Bip32

namespace BtcVerif.Proofs.Bip32
open BtcVerif BtcVerif.Model BtcVerif.Model.Bip32 BtcVerif.Gen.Guards

/-- `hmac.Sum` of SHA-512 returns 64 bytes -/
def HmacLen (hmac : Bytes → Bytes → Bytes) : Prop := ∀ k d, (hmac k d).length = 64

theorem pow256 : (256 : Nat) ^ 32 = 2 ^ 256 := by decide

theorem beNat_lt (bs : Bytes) : beNat bs < 256 ^ bs.length := by
  unfold beNat; have := leNat_lt bs.reverse; simpa using this

theorem beNat_lt_of_len32 {bs : Bytes} (h : bs.length = 32) : beNat bs < 2 ^ 256 := by
  have := beNat_lt bs; rw [h, pow256] at this; exact this

theorem beNat_beBytes32 {v : Nat} (h : v < 2 ^ 256) : beNat (beBytes 32 v) = v :=
  beNat_beBytes 32 v (by rw [pow256]; exact h)

theorem splitHmac_ok (l : Bytes) (h : l.length = 64) : splitHmac l = .ok (l.take 32, l.drop 32) := by
  unfold splitHmac; simp [h]

theorem splitHmac_eq_ok {l : Bytes} {r : Bytes × Bytes} (h : splitHmac l = .ok r) :
    r = (l.take 32, l.drop 32) ∧ 32 ≤ l.length := by
  unfold splitHmac at h
  split at h
  · cases h
  · injection h with h; exact ⟨h.symm, by omega⟩

theorem fill32_eq_ok {v : Nat} {b : Bytes} (h : fill32 v = .ok b) : b = beBytes 32 v ∧ v < 2 ^ 256 := by
  unfold fill32 at h
  split at h
  · injection h with h; exact ⟨h.symm, by assumption⟩
  · cases h

theorem bind_eq_ok {α β} (x : Outcome α) (f : α → Outcome β) (b : β) :
    (x >>= f) = .ok b ↔ ∃ a, x = .ok a ∧ f a = .ok b := by
  cases x <;> simp

variable {P : Type} {C : CurveOps P} {hmac : Bytes → Bytes → Bytes}

/-! ### single steps -/

/-- the value of a non-hardened private step -/
theorem ckdPriv_normal (S : SecpGroup C) (hl : HmacLen hmac) (k c : Bytes) (i : Nat)
    (hk : beNat k < 2 ^ 256) (hi : i < 2 ^ 31) :
    ckdPriv C hmac k c i =
      .ok (beBytes 32 ((beNat ((hmac c (C.compress (C.mulG (beNat k)) ++ ser32 i)).take 32) + beNat k) % C.n),
           (hmac c (C.compress (C.mulG (beNat k)) ++ ser32 i)).drop 32) := by
  have hn : (beNat ((hmac c (C.compress (C.mulG (beNat k)) ++ ser32 i)).take 32) + beNat k) % C.n < 2 ^ 256 :=
    Nat.lt_of_lt_of_le (Nat.mod_lt _ S.n_pos) S.n_le
  have hi' : ¬ i ≥ 2147483648 := by omega
  unfold ckdPriv ckdPrivData
  simp [bip32_derivePrivateChild_0, hi', scalarBaseMult, hk, splitHmac_ok _ (hl _ _), fill32, hn]

/-- the value of a hardened private step -/
theorem ckdPriv_hardened (S : SecpGroup C) (hl : HmacLen hmac) (k c : Bytes) (i : Nat)
    (hi : 2 ^ 31 ≤ i) :
    ckdPriv C hmac k c i =
      .ok (beBytes 32 ((beNat ((hmac c ((0 : UInt8) :: k ++ ser32 i)).take 32) + beNat k) % C.n),
           (hmac c ((0 : UInt8) :: k ++ ser32 i)).drop 32) := by
  have hn : ∀ x, x % C.n < 2 ^ 256 := fun x =>
    Nat.lt_of_lt_of_le (Nat.mod_lt _ S.n_pos) S.n_le
  have hi' : i ≥ 2147483648 := by omega
  unfold ckdPriv ckdPrivData
  simp [bip32_derivePrivateChild_0, hi', splitHmac_ok _ (hl _ _), fill32, hn]

/-- the value of a public step whose parent parses -/
theorem ckdPub_of_parse (hl : HmacLen hmac) (K c : Bytes) (i : Nat) (pt : P)
    (hp : C.parse K = some pt) (hi : i < 2 ^ 31) :
    ckdPub C hmac K c i =
      .ok (C.compress (C.add (C.mulG (beNat ((hmac c (C.compress pt ++ ser32 i)).take 32))) pt),
           (hmac c (C.compress pt ++ ser32 i)).drop 32) := by
  have hi' : ¬ i ≥ 2147483648 := by omega
  have hlen : ((hmac c (C.compress pt ++ ser32 i)).take 32).length = 32 := by
    simp [hl _ _]
  unfold ckdPub
  simp [bip32_derivePublicChild_0, hi', hp, scalarBaseMult, splitHmac_ok _ (hl _ _),
    beNat_lt_of_len32 hlen]

theorem ckdPub_hardened (K c : Bytes) (i : Nat) (hi : 2 ^ 31 ≤ i) : ckdPub C hmac K c i = .err := by
  have hi' : i ≥ 2147483648 := by omega
  unfold ckdPub
  simp [bip32_derivePublicChild_0, hi']

theorem ckdPub_unparsable (K c : Bytes) (i : Nat) (hp : C.parse K = none) :
    ckdPub C hmac K c i = .err := by
  unfold ckdPub
  simp [hp]

/-- public and private derivation commute, for every byte string `K` that parses to the
    parent's public point -/
theorem ckd_commute_gen (S : SecpGroup C) (hl : HmacLen hmac) (k c K : Bytes) (i : Nat)
    (hk : beNat k < 2 ^ 256) (hi : i < 2 ^ 31) (hp : C.parse K = some (C.mulG (beNat k))) :
    ∃ k' c', ckdPriv C hmac k c i = .ok (k', c') ∧
      ckdPub C hmac K c i = .ok (C.compress (C.mulG (beNat k')), c') := by
  rw [ckdPriv_normal S hl k c i hk hi, ckdPub_of_parse hl K c i _ hp hi]
  refine ⟨_, _, rfl, ?_⟩
  rw [beNat_beBytes32 (Nat.lt_of_lt_of_le (Nat.mod_lt _ S.n_pos) S.n_le), S.mulG_mod, S.mulG_add]

theorem ckdPriv_lengths (hl : HmacLen hmac) {k c : Bytes} {i : Nat} {r : Bytes × Bytes}
    (h : ckdPriv C hmac k c i = .ok r) : r.1.length = 32 ∧ r.2.length = 32 := by
  unfold ckdPriv at h
  simp only [bind_eq_ok] at h
  obtain ⟨_, _, l, hs, child, hf, hr⟩ := h
  obtain ⟨rfl, _⟩ := splitHmac_eq_ok hs
  obtain ⟨rfl, _⟩ := fill32_eq_ok hf
  injection hr with hr
  subst hr
  simp [hl _ _]

theorem ckdPub_lengths (E : PointCodec C) (hl : HmacLen hmac) {K c : Bytes} {i : Nat}
    {r : Bytes × Bytes} (h : ckdPub C hmac K c i = .ok r) : r.1.length = 33 ∧ r.2.length = 32 := by
  unfold ckdPub at h
  split at h
  · cases h
  · split at h
    · cases h
    · simp only [bind_eq_ok] at h
      obtain ⟨l, hs, t, _, hr⟩ := h
      obtain ⟨rfl, _⟩ := splitHmac_eq_ok hs
      injection hr with hr
      subst hr
      simp [hl _ _, E.compress_length]

/-! ### paths -/

theorem derivePriv_nil (k c : Bytes) : derivePriv C hmac k c [] = .ok (k, c) := by
  simp [derivePriv, bip32_DerivePrivateChild_0]

theorem derivePub_nil (K c : Bytes) : derivePub C hmac K c [] = .ok (K, c) := by
  simp [derivePub, bip32_DerivePublicChild_0]

theorem derivePriv_cons (k c : Bytes) (i : Nat) (rest : List Nat) :
    derivePriv C hmac k c (i :: rest) =
      (ckdPriv C hmac k c i >>= fun r => derivePriv C hmac r.1 r.2 rest) := by
  have : ¬ ((rest.length : Int) + 1 = 0) := by omega
  simp only [derivePriv, bip32_DerivePrivateChild_0]
  cases ckdPriv C hmac k c i <;> simp [this]

theorem derivePub_cons (K c : Bytes) (i : Nat) (rest : List Nat) :
    derivePub C hmac K c (i :: rest) =
      (ckdPub C hmac K c i >>= fun r => derivePub C hmac r.1 r.2 rest) := by
  have : ¬ ((rest.length : Int) + 1 = 0) := by omega
  simp only [derivePub, bip32_DerivePublicChild_0]
  cases ckdPub C hmac K c i <;> simp [this]

/-- one step applied to an outcome: the fold function of `path_fold` -/
def stepPriv (C : CurveOps P) (hmac : Bytes → Bytes → Bytes) (acc : Outcome (Bytes × Bytes)) (i : Nat) :
    Outcome (Bytes × Bytes) := acc >>= fun r => ckdPriv C hmac r.1 r.2 i

def stepPub (C : CurveOps P) (hmac : Bytes → Bytes → Bytes) (acc : Outcome (Bytes × Bytes)) (i : Nat) :
    Outcome (Bytes × Bytes) := acc >>= fun r => ckdPub C hmac r.1 r.2 i

theorem foldl_stepPriv_err (path : List Nat) : path.foldl (stepPriv C hmac) .err = .err := by
  induction path with
  | nil => rfl
  | cons i rest ih => simpa [stepPriv] using ih

theorem foldl_stepPriv_panic (path : List Nat) : path.foldl (stepPriv C hmac) .panic = .panic := by
  induction path with
  | nil => rfl
  | cons i rest ih => simpa [stepPriv] using ih

theorem foldl_stepPub_err (path : List Nat) : path.foldl (stepPub C hmac) .err = .err := by
  induction path with
  | nil => rfl
  | cons i rest ih => simpa [stepPub] using ih

theorem foldl_stepPub_panic (path : List Nat) : path.foldl (stepPub C hmac) .panic = .panic := by
  induction path with
  | nil => rfl
  | cons i rest ih => simpa [stepPub] using ih

theorem derivePriv_fold (k c : Bytes) (path : List Nat) :
    derivePriv C hmac k c path = path.foldl (stepPriv C hmac) (.ok (k, c)) := by
  induction path generalizing k c with
  | nil => exact derivePriv_nil k c
  | cons i rest ih =>
    rw [derivePriv_cons, List.foldl_cons]
    have hstep : stepPriv C hmac (.ok (k, c)) i = ckdPriv C hmac k c i := by simp [stepPriv]
    rw [hstep]
    cases h : ckdPriv C hmac k c i with
    | ok r => simpa using ih r.1 r.2
    | err => simpa using (foldl_stepPriv_err rest).symm
    | panic => simpa using (foldl_stepPriv_panic rest).symm

theorem derivePub_fold (K c : Bytes) (path : List Nat) :
    derivePub C hmac K c path = path.foldl (stepPub C hmac) (.ok (K, c)) := by
  induction path generalizing K c with
  | nil => exact derivePub_nil K c
  | cons i rest ih =>
    rw [derivePub_cons, List.foldl_cons]
    have hstep : stepPub C hmac (.ok (K, c)) i = ckdPub C hmac K c i := by simp [stepPub]
    rw [hstep]
    cases h : ckdPub C hmac K c i with
    | ok r => simpa using ih r.1 r.2
    | err => simpa using (foldl_stepPub_err rest).symm
    | panic => simpa using (foldl_stepPub_panic rest).symm

/-- deriving along `p ++ q` = deriving along `p`, then along `q` from the result -/
theorem derivePriv_append (k c : Bytes) (p q : List Nat) :
    derivePriv C hmac k c (p ++ q) =
      (derivePriv C hmac k c p >>= fun r => derivePriv C hmac r.1 r.2 q) := by
  induction p generalizing k c with
  | nil => simp [derivePriv_nil]
  | cons i rest ih =>
    rw [List.cons_append, derivePriv_cons, derivePriv_cons]
    cases h : ckdPriv C hmac k c i with
    | ok r => simpa using ih r.1 r.2
    | err => rfl
    | panic => rfl

theorem derivePub_append (K c : Bytes) (p q : List Nat) :
    derivePub C hmac K c (p ++ q) =
      (derivePub C hmac K c p >>= fun r => derivePub C hmac r.1 r.2 q) := by
  induction p generalizing K c with
  | nil => simp [derivePub_nil]
  | cons i rest ih =>
    rw [List.cons_append, derivePub_cons, derivePub_cons]
    cases h : ckdPub C hmac K c i with
    | ok r => simpa using ih r.1 r.2
    | err => rfl
    | panic => rfl

theorem derivePriv_lengths (hl : HmacLen hmac) {k c : Bytes} {path : List Nat} {r : Bytes × Bytes}
    (hne : path ≠ []) (h : derivePriv C hmac k c path = .ok r) :
    r.1.length = 32 ∧ r.2.length = 32 := by
  induction path generalizing k c with
  | nil => exact absurd rfl hne
  | cons i rest ih =>
    rw [derivePriv_cons, bind_eq_ok] at h
    obtain ⟨r1, h1, h2⟩ := h
    cases rest with
    | nil =>
      rw [derivePriv_nil] at h2
      injection h2 with h2
      subst h2
      exact ckdPriv_lengths hl h1
    | cons j rest' => exact ih (by simp) h2

theorem derivePub_lengths (E : PointCodec C) (hl : HmacLen hmac) {K c : Bytes} {path : List Nat}
    {r : Bytes × Bytes} (hne : path ≠ []) (h : derivePub C hmac K c path = .ok r) :
    r.1.length = 33 ∧ r.2.length = 32 := by
  induction path generalizing K c with
  | nil => exact absurd rfl hne
  | cons i rest ih =>
    rw [derivePub_cons, bind_eq_ok] at h
    obtain ⟨r1, h1, h2⟩ := h
    cases rest with
    | nil =>
      rw [derivePub_nil] at h2
      injection h2 with h2
      subst h2
      exact ckdPub_lengths E hl h1
    | cons j rest' => exact ih (by simp) h2

/-- a public path through a hardened index is refused, wherever the index occurs, provided the
    steps before it succeed (otherwise they are refused even earlier: never `ok`) -/
theorem derivePub_hardened_not_ok (K c : Bytes) (path : List Nat) (h : ∃ i ∈ path, 2 ^ 31 ≤ i) :
    ∀ r, derivePub C hmac K c path ≠ .ok r := by
  induction path generalizing K c with
  | nil => obtain ⟨i, hi, _⟩ := h; cases hi
  | cons j rest ih =>
    intro r hr
    rw [derivePub_cons, bind_eq_ok] at hr
    obtain ⟨r1, h1, h2⟩ := hr
    obtain ⟨i, hi, hhard⟩ := h
    cases hi with
    | head => rw [ckdPub_hardened K c _ hhard] at h1; cases h1
    | tail _ hmem => exact ih r1.1 r1.2 ⟨i, hmem, hhard⟩ r h2

/-- The hypothesis of `path_commute`: every step is non-hardened and every key met on the private
    path is a valid scalar (i.e. no step hits the BIP32 "child = 0" case). Decidable. -/
def noSkip (C : CurveOps P) (hmac : Bytes → Bytes → Bytes) : Bytes → Bytes → List Nat → Bool
  | _, _, [] => true
  | k, c, i :: rest =>
    decide (i < 2 ^ 31) &&
      match ckdPriv C hmac k c i with
      | .ok r => isValidScalar C.n (beNat r.1) && noSkip C hmac r.1 r.2 rest
      | _ => false

theorem path_commute_gen (S : SecpGroup C) (E : PointCodec C) (hl : HmacLen hmac)
    (k c K : Bytes) (path : List Nat) (hk : beNat k < 2 ^ 256)
    (hp : C.parse K = some (C.mulG (beNat k))) (hne : path ≠ [])
    (hs : noSkip C hmac k c path = true) :
    ∃ k' c', derivePriv C hmac k c path = .ok (k', c') ∧
      derivePub C hmac K c path = .ok (C.compress (C.mulG (beNat k')), c') := by
  induction path generalizing k c K with
  | nil => exact absurd rfl hne
  | cons i rest ih =>
    simp only [noSkip, Bool.and_eq_true, decide_eq_true_eq] at hs
    obtain ⟨hi, hs⟩ := hs
    obtain ⟨k1, c1, h1, h2⟩ := ckd_commute_gen S hl k c K i hk hi hp
    rw [h1] at hs
    simp only [Bool.and_eq_true] at hs
    obtain ⟨hv, hs'⟩ := hs
    rw [derivePriv_cons, derivePub_cons, h1, h2]
    cases rest with
    | nil => exact ⟨k1, c1, by simp [derivePriv_nil], by simp [derivePub_nil]⟩
    | cons j rest' =>
      have hv' := hv
      simp only [isValidScalar, Bool.and_eq_true, decide_eq_true_eq] at hv'
      have hk1 : beNat k1 < 2 ^ 256 := Nat.lt_of_lt_of_le hv'.2 S.n_le
      have hp1 := E.parse_compress _ (S.mulG_valid_ne_zero hv)
      exact ih k1 c1 _ hk1 hp1 (by simp) hs'

/-! ### master key -/

theorem masterKey_err_iff (seed : Bytes) :
    masterKey hmac seed = .err ↔ ¬ (16 ≤ seed.length ∧ seed.length ≤ 64 ∧ seed.length % 4 = 0) := by
  unfold masterKey
  have hmod : (Int.tmod (seed.length : Int) 4 ≠ 0) ↔ seed.length % 4 ≠ 0 := by
    rw [Int.tmod_eq_emod_of_nonneg (by omega)]
    omega
  constructor
  · intro h
    split at h
    · rename_i hg
      simp only [bip32_GenerateMasterKey_0, Bool.or_eq_true, decide_eq_true_eq, hmod] at hg
      omega
    · unfold splitHmac at h
      split at h <;> cases h
  · intro h
    have hg : bip32_GenerateMasterKey_0 (len_seed := seed.length) = true := by
      simp only [bip32_GenerateMasterKey_0, Bool.or_eq_true, decide_eq_true_eq, hmod]
      omega
    simp [hg]

theorem masterKey_ok_iff (hl : HmacLen hmac) (seed : Bytes) :
    (∃ r, masterKey hmac seed = .ok r) ↔
      (16 ≤ seed.length ∧ seed.length ≤ 64 ∧ seed.length % 4 = 0) := by
  constructor
  · rintro ⟨r, hr⟩
    apply Classical.byContradiction
    intro hn
    rw [(masterKey_err_iff seed).mpr hn] at hr
    cases hr
  · intro h
    have hne : masterKey hmac seed ≠ .err := fun he => (masterKey_err_iff seed).mp he h
    unfold masterKey at hne ⊢
    split
    · rename_i hg; simp [hg] at hne
    · exact ⟨_, splitHmac_ok _ (hl _ _)⟩

theorem masterKey_lengths (hl : HmacLen hmac) {seed : Bytes} {r : Bytes × Bytes}
    (h : masterKey hmac seed = .ok r) : r.1.length = 32 ∧ r.2.length = 32 := by
  unfold masterKey at h
  split at h
  · cases h
  · obtain ⟨rfl, _⟩ := splitHmac_eq_ok h
    simp [hl _ _]

/-! ### the model computes what BIP32 defines (outside the cases BIP32 calls invalid) -/

theorem ckdPriv_eq_spec (S : SecpGroup C) (hl : HmacLen hmac) (k c : Bytes) (i : Nat)
    (hklen : k.length = 32) {k' : Nat} {c' : Bytes}
    (h : Spec.Bip32.ckdPriv C hmac (beNat k) c i = some (k', c')) :
    ckdPriv C hmac k c i = .ok (beBytes 32 k', c') := by
  have hser : Spec.Bip32.ser256 (beNat k) = k := by
    unfold Spec.Bip32.ser256; rw [← hklen]; exact beBytes_beNat k
  unfold Spec.Bip32.ckdPriv at h
  by_cases hi : i ≥ 2 ^ 31
  · rw [ckdPriv_hardened S hl k c i hi]
    simp only [hi, if_true, hser] at h
    split at h
    · cases h
    · injection h with h; injection h with h1 h2
      rw [← h1, ← h2]; rfl
  · rw [ckdPriv_normal S hl k c i (beNat_lt_of_len32 hklen) (by omega)]
    simp only [hi, if_false] at h
    split at h
    · cases h
    · injection h with h; injection h with h1 h2
      rw [← h1, ← h2]; rfl

theorem ckdPub_eq_spec [DecidableEq P] (hl : HmacLen hmac) (K c : Bytes) (i : Nat) (Kpar : P)
    (hp : C.parse K = some Kpar) {Ki : P} {ci : Bytes}
    (h : Spec.Bip32.ckdPub C hmac Kpar c i = .child Ki ci) :
    ckdPub C hmac K c i = .ok (C.compress Ki, ci) := by
  unfold Spec.Bip32.ckdPub at h
  by_cases hi : i ≥ 2 ^ 31
  · simp [hi] at h
  · rw [ckdPub_of_parse hl K c i Kpar hp (by omega)]
    simp only [hi, if_false] at h
    split at h
    · cases h
    · injection h with h1 h2
      rw [← h1, ← h2]; rfl

theorem ckdPub_spec_failure [DecidableEq P] (K c : Bytes) (i : Nat) (Kpar : P)
    (h : Spec.Bip32.ckdPub C hmac Kpar c i = .failure) : ckdPub C hmac K c i = .err := by
  unfold Spec.Bip32.ckdPub at h
  by_cases hi : i ≥ 2 ^ 31
  · exact ckdPub_hardened K c i hi
  · simp only [hi, if_false] at h
    split at h <;> cases h

theorem masterKey_eq_spec (hl : HmacLen hmac) (seed : Bytes) (h4 : seed.length % 4 = 0)
    {k : Nat} {c : Bytes} (h : Spec.Bip32.master C.n hmac seed = some (k, c)) :
    ∃ kb, masterKey hmac seed = .ok (kb, c) ∧ kb.length = 32 ∧ beNat kb = k := by
  unfold Spec.Bip32.master at h
  split at h
  · cases h
  · rename_i hlen
    simp only [] at h
    split at h
    · cases h
    · injection h with h; injection h with h1 h2
      have hok := (masterKey_ok_iff hl seed).mpr ⟨by omega, by omega, h4⟩
      obtain ⟨r, hr⟩ := hok
      have hr' := hr
      unfold masterKey at hr'
      split at hr'
      · cases hr'
      · obtain ⟨rfl, _⟩ := splitHmac_eq_ok hr'
        refine ⟨_, ?_, by simp [hl _ _], h1⟩
        rw [hr, ← h2]; rfl

/-! ### fingerprints -/

theorem isCompressed_of_len65 {K : Bytes} (h : K.length = 65) : isCompressedPublicKey K = false := by
  cases K with
  | nil => rfl
  | cons b rest =>
    simp only [List.length_cons] at h
    simp [isCompressedPublicKey, Gen.constants_PublicKeyCompressedLength]
    omega

theorem keyFingerprint_compress (E : PointCodec C) (hash160 : Bytes → Bytes) (a : P)
    (ha : a ≠ C.zero) :
    keyFingerprint C hash160 (C.compress a) = .ok ((hash160 (C.compress a)).take 4) := by
  unfold keyFingerprint
  rw [E.parse_compress a ha]
  cases isCompressedPublicKey (C.compress a) <;> simp [bip32_KeyFingerprint_0]

theorem keyFingerprint_uncompress (E : PointCodec C) (hash160 : Bytes → Bytes) (a : P)
    (ha : a ≠ C.zero) :
    keyFingerprint C hash160 (C.uncompress a) = .ok ((hash160 (C.compress a)).take 4) := by
  unfold keyFingerprint
  rw [E.parse_uncompress a ha, isCompressed_of_len65 (E.uncompress_length a)]
  simp [bip32_KeyFingerprint_0]

end BtcVerif.Proofs.Bip32
