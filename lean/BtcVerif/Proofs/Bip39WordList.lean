/-
  C14 — facts about the content of the English word list, checked by the kernel on the pinned copy
  `Spec.Bip39.wordList` (one `decide +kernel`, ~20 s: converting 2048 string literals to bytes is the
  cost).  This file imports only the specification, so it is rebuilt only when the pinned copy
  changes; `Proofs/Bip39.lean` transfers the facts to the list regenerated from wordlist.go
  (`Gen.bip39_WordList = Spec.Bip39.wordList`, re-checked on every run).

  Facts: 2048 words; every word is 1..8 lower-case ASCII letters (so no word contains a space and
  `strings.Split(strings.Join(ws, " "), " ") = ws`); the list is strictly increasing in byte order,
  hence has no repeated word.
-/
import BtcVerif.Spec.Bip39

namespace BtcVerif.Proofs.Bip39WordList
open BtcVerif

def utf8 (s : String) : Bytes := s.toUTF8.toList

/-- the pinned list as byte strings -/
def specWords : List Bytes := Spec.Bip39.wordList.map utf8

/-- a word of at most 8 letters as a number: its bytes, zero-padded on the right to 8 bytes, read
    big-endian.  (Any function would do for `Nodup`; this one makes the order the byte order.) -/
def key (w : Bytes) : Nat :=
  (w ++ List.replicate (8 - w.length) 0).foldl (fun (acc : Nat) (b : UInt8) => acc * 256 + b.toNat) 0

def increasing : List Nat → Bool
  | [] => true
  | [_] => true
  | a :: b :: t => decide (a < b) && increasing (b :: t)

def lowerWord (w : Bytes) : Bool :=
  decide (1 ≤ w.length) && decide (w.length ≤ 8) && w.all fun b => decide (97 ≤ b.toNat) && decide (b.toNat ≤ 122)

def check (l : List Bytes) : Bool :=
  decide (l.length = 2048) && l.all lowerWord && increasing (l.map key)

set_option maxRecDepth 100000 in
theorem check_specWords : check specWords = true := by decide +kernel

end BtcVerif.Proofs.Bip39WordList
