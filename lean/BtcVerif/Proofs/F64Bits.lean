/-
  C15 — the 64-bit pattern (`math.Float64bits` / `math.Float64frombits`) of the exact binary64 model:
  decoding inverts encoding on canonical values, so comparing patterns with Go compares values.
  Core Lean only.
-/
import BtcVerif.Prim.F64

namespace BtcVerif.Proofs.F64Bits
open BtcVerif.Prim

/-- canonical form of a binary64 value -/
def Canon : F64 → Prop
  | .nan => True
  | .inf _ => True
  | .fin _ m e => (m < 2 ^ 52 ∧ e = -1074) ∨ (2 ^ 52 ≤ m ∧ m < 2 ^ 53 ∧ -1074 ≤ e ∧ e ≤ 971)

instance : DecidablePred Canon := fun x => by
  cases x <;> simp only [Canon] <;> infer_instance

theorem ofBits_toBits (x : F64) (h : Canon x) : F64.ofBits (F64.toBits x) = x := by
  cases x with
  | nan => decide
  | inf neg => cases neg <;> decide
  | fin neg m e =>
    simp only [Canon] at h
    rcases h with ⟨h1, h2⟩ | ⟨h1, h2, h3, h4⟩
    · subst h2
      have h1' : m < 4503599627370496 := by simpa using h1
      cases neg
      · simp only [F64.toBits, F64.ofBits, h1, if_true, Bool.false_eq_true, if_false, Nat.zero_add]
        have a : m / 2 ^ 52 % 2048 = 0 := by omega
        have b : m % 2 ^ 52 = m := by omega
        have c : ¬ (2 ^ 63 ≤ m % 2 ^ 64) := by omega
        simp [a, b, c]
      · simp only [F64.toBits, F64.ofBits, h1, if_true]
        have a : (2 ^ 63 + m) / 2 ^ 52 % 2048 = 0 := by omega
        have b : (2 ^ 63 + m) % 2 ^ 52 = m := by omega
        have c : (2 ^ 63 ≤ (2 ^ 63 + m) % 2 ^ 64) := by omega
        simp [a, b, c]
    · have h1' : 4503599627370496 ≤ m := by simpa using h1
      have h2' : m < 9007199254740992 := by simpa using h2
      have hn : ¬ m < 2 ^ 52 := by omega
      obtain ⟨E, hE⟩ : ∃ E : Nat, e + 1075 = E := ⟨(e + 1075).toNat, (Int.toNat_of_nonneg (by omega)).symm⟩
      have hE1 : 1 ≤ E := by omega
      have hE2 : E ≤ 2046 := by omega
      cases neg
      · simp only [F64.toBits, F64.ofBits, hn, if_false, Bool.false_eq_true, Nat.zero_add, hE, Int.toNat_natCast]
        have a : (E * 2 ^ 52 + (m - 2 ^ 52)) / 2 ^ 52 % 2048 = E := by omega
        have b : (E * 2 ^ 52 + (m - 2 ^ 52)) % 2 ^ 52 = m - 2 ^ 52 := by omega
        have c : ¬ (2 ^ 63 ≤ (E * 2 ^ 52 + (m - 2 ^ 52)) % 2 ^ 64) := by omega
        have d : ¬ E = 0 := by omega
        have d2 : ¬ E = 2047 := by omega
        rw [a, b]
        simp only [d, d2, if_false]
        have c' : decide (2 ^ 63 ≤ (E * 2 ^ 52 + (m - 2 ^ 52)) % 2 ^ 64) = false := by simpa using c
        rw [c']
        have hm : 2 ^ 52 + (m - 2 ^ 52) = m := by omega
        have he : (E : Int) - 1075 = e := by omega
        rw [hm, he]
      · simp only [F64.toBits, F64.ofBits, hn, if_false, if_true, hE, Int.toNat_natCast]
        have a : (2 ^ 63 + (E * 2 ^ 52 + (m - 2 ^ 52))) / 2 ^ 52 % 2048 = E := by omega
        have b : (2 ^ 63 + (E * 2 ^ 52 + (m - 2 ^ 52))) % 2 ^ 52 = m - 2 ^ 52 := by omega
        have c : (2 ^ 63 ≤ (2 ^ 63 + (E * 2 ^ 52 + (m - 2 ^ 52))) % 2 ^ 64) := by omega
        have d : ¬ E = 0 := by omega
        have d2 : ¬ E = 2047 := by omega
        rw [a, b]
        simp only [d, d2, if_false]
        have c' : decide (2 ^ 63 ≤ (2 ^ 63 + (E * 2 ^ 52 + (m - 2 ^ 52))) % 2 ^ 64) = true := by simpa using c
        rw [c']
        have hm : 2 ^ 52 + (m - 2 ^ 52) = m := by omega
        have he : (E : Int) - 1075 = e := by omega
        rw [hm, he]

end BtcVerif.Proofs.F64Bits
