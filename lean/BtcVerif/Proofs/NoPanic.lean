import BtcVerif.Proofs.Block

/-! Panic-freedom of the wire decoders (used by C01 and C17): no input makes any of them reach
    `Outcome.panic`. The model has no totalised escape hatches, so this is a real statement about
    every bounds-checked step. -/
namespace BtcVerif.Model
open BtcVerif BtcVerif.Parser
open BtcVerif.Gen.Guards

def NoPanic {α} (p : Parser α) : Prop := ∀ s, p s ≠ .panic

theorem NoPanic.pure {α} (a : α) : NoPanic (Pure.pure a : Parser α) := by
  intro s; simp

theorem NoPanic.fail {α} : NoPanic (Parser.fail : Parser α) := by
  intro s; simp [Parser.fail]

theorem NoPanic.bind {α β} {p : Parser α} {f : α → Parser β}
    (hp : NoPanic p) (hf : ∀ a, NoPanic (f a)) : NoPanic (p >>= f) := by
  intro s
  rw [bind_def]
  have := hp s
  split
  · exact hf _ _
  · simp
  · contradiction

theorem NoPanic.ite {α} (c : Prop) [Decidable c] {p q : Parser α} (hp : NoPanic p) (hq : NoPanic q) :
    NoPanic (if c then p else q) := by
  split <;> assumption

theorem noPanic_readN (n : Nat) : NoPanic (readN n) := readN_ne_panic n
theorem noPanic_readLE (k : Nat) : NoPanic (readLE k) := readLE_ne_panic k
theorem noPanic_decVarint : NoPanic decVarint := decVarint_ne_panic

theorem noPanic_readMany {α} {p : Parser α} (hp : NoPanic p) (n : Nat) : NoPanic (readMany p n) := by
  induction n with
  | zero => exact NoPanic.pure _
  | succ k ih =>
    unfold readMany
    exact NoPanic.bind hp (fun _ => NoPanic.bind ih (fun _ => NoPanic.pure _))

theorem noPanic_decPrevOut : NoPanic decPrevOut :=
  NoPanic.bind (noPanic_readN _) fun _ => NoPanic.bind (noPanic_readLE _) fun _ => NoPanic.pure _

theorem noPanic_decTxIn : NoPanic decTxIn :=
  NoPanic.bind noPanic_decPrevOut fun _ => NoPanic.bind noPanic_decVarint fun _ =>
    NoPanic.ite _ NoPanic.fail
      (NoPanic.bind (noPanic_readN _) fun _ => NoPanic.bind (noPanic_readLE _) fun _ => NoPanic.pure _)

theorem noPanic_decTxOut : NoPanic decTxOut :=
  NoPanic.bind (noPanic_readLE _) fun _ => NoPanic.bind noPanic_decVarint fun _ =>
    NoPanic.ite _ NoPanic.fail (NoPanic.bind (noPanic_readN _) fun _ => NoPanic.pure _)

theorem noPanic_decChunks (k size : Nat) : NoPanic (decChunks k size) := by
  induction k generalizing size with
  | zero => exact NoPanic.pure _
  | succ k ih =>
    unfold decChunks
    exact NoPanic.bind noPanic_decVarint fun _ => NoPanic.ite _ NoPanic.fail
      (NoPanic.bind (noPanic_readN _) fun _ => NoPanic.bind (ih _) fun _ => NoPanic.pure _)

theorem noPanic_decWitness : NoPanic decWitness :=
  NoPanic.bind noPanic_decVarint fun _ => NoPanic.ite _ NoPanic.fail (noPanic_decChunks _ _)

theorem noPanic_sniff : NoPanic sniffSegwit := by
  intro s
  unfold sniffSegwit
  have := readN_ne_panic 2 s
  split <;> simp_all

theorem noPanic_decTx : NoPanic decTx :=
  NoPanic.bind (noPanic_readLE _) fun _ => NoPanic.bind noPanic_sniff fun _ =>
  NoPanic.bind noPanic_decVarint fun _ => NoPanic.ite _ NoPanic.fail <|
  NoPanic.bind (noPanic_readMany noPanic_decTxIn _) fun _ =>
  NoPanic.bind noPanic_decVarint fun _ => NoPanic.ite _ NoPanic.fail <|
  NoPanic.bind (noPanic_readMany noPanic_decTxOut _) fun _ =>
  NoPanic.bind (NoPanic.ite _
      (NoPanic.bind (noPanic_readMany noPanic_decWitness _) fun _ => NoPanic.pure _) (NoPanic.pure _)) fun _ =>
  NoPanic.bind (noPanic_readLE _) fun _ => NoPanic.pure _

theorem decTx_ne_panic (bs : Bytes) : decTx bs ≠ .panic := noPanic_decTx bs

theorem noPanic_decHeader : NoPanic decHeader :=
  NoPanic.bind (noPanic_readLE _) fun _ => NoPanic.bind (noPanic_readN _) fun _ =>
  NoPanic.bind (noPanic_readN _) fun _ => NoPanic.bind (noPanic_readLE _) fun _ =>
  NoPanic.bind (noPanic_readLE _) fun _ => NoPanic.bind (noPanic_readLE _) fun _ => NoPanic.pure _

theorem noPanic_decBlock : NoPanic decBlock :=
  NoPanic.bind noPanic_decHeader fun _ => NoPanic.bind noPanic_decVarint fun _ =>
  NoPanic.ite _ NoPanic.fail <| NoPanic.bind (noPanic_readMany noPanic_decTx _) fun _ => NoPanic.pure _

end BtcVerif.Model
