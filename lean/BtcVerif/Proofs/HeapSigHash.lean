/-
  The pointer-level algorithm (Model/Heap.lean) and the value-level model of the legacy signature hash
  (Model/SigHash.lean, the model the correspondence runs and the consensus theorems are about) perform
  the same surgery.
-/
import BtcVerif.Proofs.Heap
import BtcVerif.Model.SigHash

namespace BtcVerif.Model.Heap
open BtcVerif BtcVerif.Model
open BtcVerif.Gen.Guards

theorem blankInputs_eq (ins : List TxIn) (nIn : Nat) (none single : Bool) :
    blankInputs ins nIn none single = ins.mapIdx (blankG nIn (none || single)) := by
  unfold blankInputs
  congr 1
  funext i vin
  simp only [tx_Tx_SignatureHashForInput_2, tx_Tx_SignatureHashForInput_3, blankG]
  by_cases h : i = nIn
  · subst h; simp
  · have : ((i : Int) ≠ (nIn : Int)) := by omega
    simp [h, this]

theorem blankOutputs_eq (outs : List TxOut) (nIn : Nat) :
    blankOutputs outs nIn = (outs.take (nIn + 1)).mapIdx (fun i o => if i < nIn then blankOut else o) := by
  unfold blankOutputs
  congr 1
  funext i o
  simp only [tx_Tx_SignatureHashForInput_6, blankOut]
  by_cases h : i < nIn
  · have : ((i : Int) < (nIn : Int)) := by omega
    simp [h, this]
  · have : ¬ ((i : Int) < (nIn : Int)) := by omega
    simp [h, this]

/-- the transaction `Model.legacyPre` serialises is the one the working copy denotes after the
    pointer-level surgery -/
theorem legacyPre_uses_surgery (tx : Tx) (nIn : Nat) (script sc : Bytes) (ht : Nat) (vin : TxIn)
    (hone : tx_Tx_SignatureHashForInput_0 (nInput := nIn) (len_tx_Inputs := tx.inputs.length)
      (sigHashSingle := tx_Tx_SignatureHashForInput_asg1 ht) (len_tx_Outputs := tx.outputs.length) = false)
    (hs : stripOpCode script opCodeSeparator = .ok sc) (hv : tx.inputs[nIn]? = some vin) :
    legacyPre tx nIn script ht =
      (match encTx { tx with
          inputs := insV tx.inputs nIn sc (tx_Tx_SignatureHashForInput_asg0 ht || tx_Tx_SignatureHashForInput_asg1 ht)
                      (tx_Tx_SignatureHashForInput_asg2 ht),
          outputs := outsV tx.outputs nIn (tx_Tx_SignatureHashForInput_asg0 ht) (tx_Tx_SignatureHashForInput_asg1 ht),
          witnesses := Option.none } false with
       | .ok bs => .ok (.preimage (bs ++ leBytes 4 ht))
       | .err => .err
       | .panic => .panic) := by
  unfold legacyPre
  simp only [hone, Bool.false_eq_true, ↓reduceIte, hs, hv]
  have hset : tx.inputs.set nIn { vin with script := sc } = tx.inputs.modify nIn (fun o => { o with script := sc }) := by
    apply List.ext_getElem?
    intro x
    rw [List.getElem?_set, List.getElem?_modify]
    by_cases hx : nIn = x
    · subst hx
      obtain ⟨hlt, hval⟩ := List.getElem?_eq_some_iff.mp hv
      simp [hlt, hval]
    · simp [hx]
  have hins : (if tx_Tx_SignatureHashForInput_1 (tx_Tx_SignatureHashForInput_asg2 ht) = true
        then List.take 1 (List.drop nIn (tx.inputs.set nIn { vin with script := sc }))
        else blankInputs (tx.inputs.set nIn { vin with script := sc }) nIn (tx_Tx_SignatureHashForInput_asg0 ht) (tx_Tx_SignatureHashForInput_asg1 ht))
      = insV tx.inputs nIn sc (tx_Tx_SignatureHashForInput_asg0 ht || tx_Tx_SignatureHashForInput_asg1 ht) (tx_Tx_SignatureHashForInput_asg2 ht) := by
    unfold insV
    simp only [tx_Tx_SignatureHashForInput_1, hset, blankInputs_eq]
    split <;> rfl
  have houts : (if tx_Tx_SignatureHashForInput_4 (tx_Tx_SignatureHashForInput_asg0 ht) = true then []
        else if tx_Tx_SignatureHashForInput_5 (tx_Tx_SignatureHashForInput_asg1 ht) = true then blankOutputs tx.outputs nIn
        else tx.outputs)
      = outsV tx.outputs nIn (tx_Tx_SignatureHashForInput_asg0 ht) (tx_Tx_SignatureHashForInput_asg1 ht) := by
    unfold outsV
    simp only [tx_Tx_SignatureHashForInput_4, tx_Tx_SignatureHashForInput_5, blankOutputs_eq, blankOut]
  rw [hins, houts]
  cases encTx { tx with
      inputs := insV tx.inputs nIn sc (tx_Tx_SignatureHashForInput_asg0 ht || tx_Tx_SignatureHashForInput_asg1 ht)
                  (tx_Tx_SignatureHashForInput_asg2 ht),
      outputs := outsV tx.outputs nIn (tx_Tx_SignatureHashForInput_asg0 ht) (tx_Tx_SignatureHashForInput_asg1 ht),
      witnesses := Option.none } false <;> rfl

end BtcVerif.Model.Heap
