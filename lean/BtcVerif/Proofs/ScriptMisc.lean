/-
  Lemmas for C12: `Stackify` and the builders that hash a public key first.
-/
import BtcVerif.Proofs.ScriptNum
import BtcVerif.Proofs.ScriptTpl
namespace BtcVerif.Proofs.Script
open BtcVerif BtcVerif.Model BtcVerif.Parser
open BtcVerif.Gen BtcVerif.Gen.Guards
open BtcVerif.Spec.Script (Item parse serialize)

theorem stackify_spec (s : Bytes) (st : List Bytes) :
    stackify s = .ok st ↔ ∃ items, parse s = some items ∧ stackItems (items.map toChunk) = .ok st := by
  unfold stackify
  rw [decompile_eq]
  cases parse s with
  | none => simp [liftOpt, Outcome.bind]
  | some items => simp [liftOpt, Outcome.bind]

/-- a script made of data pushes only leaves exactly the pushed strings -/
theorem stackItems_pushes (ds : List (UInt8 × Bytes)) :
    stackItems ((ds.map fun p => Item.push p.1 p.2).map toChunk) = .ok (ds.map (·.2)) := by
  induction ds with
  | nil => rfl
  | cons d ds ih =>
    simp only [List.map_cons, List.map_map] at ih ⊢
    simp only [stackItems, stackItem, toChunk, Outcome.bind]
    rw [ih]

theorem makeP2PKHFromPublicKey_spec (h160 : Bytes → Bytes) (hh : ∀ x, (h160 x).length = 20) (pk : Bytes) :
    makeP2PKHFromPublicKey h160 pk =
      if pk.length = 33 ∨ pk.length = 65 then .ok (Spec.Script.p2pkh (h160 pk)) else .err := by
  unfold makeP2PKHFromPublicKey
  simp only [script_MakeP2PKHFromPublicKey_0]
  by_cases h : pk.length = 33 ∨ pk.length = 65
  · rw [if_pos h, makeP2PKH_eq_spec _ (hh pk)]
    rcases h with h | h <;> simp [h]
  · rw [if_neg h]
    have h1 : ¬ ((pk.length : Int) = 33) := by omega
    have h2 : ¬ ((pk.length : Int) = 65) := by omega
    simp [h1, h2]

theorem makeP2WPKHFromPublicKey_spec (h160 : Bytes → Bytes) (hh : ∀ x, (h160 x).length = 20) (pk : Bytes) :
    makeP2WPKHFromPublicKey h160 pk =
      if pk.length = 33 then .ok (Spec.Script.p2wpkh (h160 pk)) else .err := by
  unfold makeP2WPKHFromPublicKey
  simp only [script_MakeP2WPKHFromPublicKey_0]
  by_cases h : pk.length = 33
  · rw [if_pos h, makeP2WPKH_eq_spec _ (hh pk)]
    simp [h]
  · rw [if_neg h]
    have h1 : ¬ ((pk.length : Int) = 33) := by omega
    simp [h1]

end BtcVerif.Proofs.Script
