/-
  Helper lemmas for C09 (addresses). Core Lean only.
-/
import BtcVerif.Model.Address
import BtcVerif.Spec.Address
import BtcVerif.Proofs.Base58

namespace BtcVerif.Proofs.Address
open BtcVerif BtcVerif.Model BtcVerif.Model.Address BtcVerif.Gen BtcVerif.Gen.Guards

/-! ### version prefixes -/

theorem versionBytes_small {v : Nat} (h : v ≤ 255) : Base58Check.versionBytes v = [UInt8.ofNat v] := by
  have hm : v % 256 = v := Nat.mod_eq_of_lt (by omega)
  simp [Base58Check.versionBytes, base58check_EncodeVersion_0, h, beBytes, leBytes, hm]

theorem versionBytes_big {v : Nat} (h : 255 < v) :
    Base58Check.versionBytes v = [UInt8.ofNat (v / 256 % 256), UInt8.ofNat (v % 256)] := by
  have : ¬ v ≤ 255 := by omega
  simp [Base58Check.versionBytes, base58check_EncodeVersion_0, this, beBytes, leBytes]

theorem toNat_ofNat_lt {v : Nat} (h : v < 256) : (UInt8.ofNat v).toNat = v := by
  simp [UInt8.toNat_ofNat']; omega

theorem shl8_or {a b : Nat} (ha : a < 256) (hb : b < 256) : ((a <<< 8) % 65536) ||| b = a * 256 + b := by
  have h1 : a <<< 8 = a * 256 := by simp [Nat.shiftLeft_eq]
  have h2 : a * 256 % 65536 = a * 256 := Nat.mod_eq_of_lt (by omega)
  rw [h1, h2]
  have := Nat.shiftLeft_add_eq_or_of_lt (a := a) (i := 8) (b := b) (by simpa using hb)
  rw [← h1, ← this, h1]

/-! ### DecodeBase58Address -/

/-- the version/hash split as a function of the checked payload -/
def splitPayload : Bytes → Outcome (Nat × Bytes)
  | [] => .err
  | v0 :: rest =>
    if rest.length = 20 then .ok (v0.toNat, rest)
    else if rest.length = 21 then
      if v0.toNat = 0 then .err
      else match rest with
        | [] => .err
        | v1 :: rest' => .ok (v0.toNat * 256 + v1.toNat, rest')
    else .err

theorem decodeBase58_of_payload (hs : Hashes) (s payload : Bytes)
    (h : Base58Check.decode hs.cksum s = .ok payload) :
    decodeBase58Address hs s = splitPayload payload := by
  unfold decodeBase58Address splitPayload
  rw [h]
  simp only [address_DecodeBase58Address_0, address_DecodeBase58Address_1, address_DecodeBase58Address_2]
  cases payload with
  | nil => simp
  | cons v0 rest =>
    simp only [List.length_cons]
    by_cases h20 : rest.length = 20
    · have : ¬ ((rest.length + 1 : Nat) : Int) ≠ 21 := by omega
      have h21 : ¬ ((rest.length : Nat) : Int) = 21 := by omega
      simp [h20]
    · by_cases h21 : rest.length = 21
      · simp only [h21]
        cases rest with
        | nil => simp at h21
        | cons v1 rest' =>
          by_cases h0 : v0.toNat = 0
          · simp [h0]
          · simp [h0, shl8_or v0.toNat_lt v1.toNat_lt]
      · have ha : ¬ ((rest.length : Int) + 1 = 21) := by omega
        have hb : ¬ ((rest.length : Int) + 1 = 22) := by omega
        simp [ha, hb, h20, h21]

/-- what `EncodeVersion` wrote is read back: version and hash -/
theorem decodeBase58_encodeVersion (hs : Hashes) (hck : ∀ x, (hs.cksum x).length = 4)
    (h : Bytes) (hl : h.length = 20) (v : Nat) (hv : v < 65536) :
    decodeBase58Address hs (Base58Check.encodeVersion hs.cksum h v) = .ok (v, h) := by
  unfold Base58Check.encodeVersion
  rw [decodeBase58_of_payload hs _ _ (Base58.Check.decode_encode hs.cksum hck _)]
  unfold splitPayload
  by_cases hsmall : v ≤ 255
  · rw [versionBytes_small hsmall]
    simp [hl, toNat_ofNat_lt (show v < 256 by omega)]
  · have hbig : 255 < v := by omega
    rw [versionBytes_big hbig]
    have h1 : v / 256 % 256 = v / 256 := Nat.mod_eq_of_lt (by omega)
    have h2 : (UInt8.ofNat (v / 256)).toNat = v / 256 := toNat_ofNat_lt (by omega)
    have h3 : (UInt8.ofNat (v % 256)).toNat = v % 256 := toNat_ofNat_lt (by omega)
    have h4 : ¬ v / 256 = 0 := by omega
    simp only [List.cons_append, List.nil_append, List.length_cons, hl, h1, h2, h3]
    simp [h4]
    omega

/-- every accepted Base58 address is the canonical encoding of the version and hash it yields -/
theorem decodeBase58_canonical (hs : Hashes) (s : Bytes) (v : Nat) (h : Bytes)
    (hd : decodeBase58Address hs s = .ok (v, h)) :
    h.length = 20 ∧ v < 65536 ∧ Base58Check.encodeVersion hs.cksum h v = s := by
  cases hp : Base58Check.decode hs.cksum s with
  | err => unfold decodeBase58Address at hd; rw [hp] at hd; cases hd
  | panic => unfold decodeBase58Address at hd; rw [hp] at hd; cases hd
  | ok payload =>
    have henc := Base58.Check.encode_decode hs.cksum s payload hp
    rw [decodeBase58_of_payload hs s payload hp] at hd
    unfold splitPayload at hd
    cases payload with
    | nil => cases hd
    | cons v0 rest =>
      simp only at hd
      split at hd
      · rename_i h20
        injection hd with hd; injection hd with hv hh
        subst hv hh
        refine ⟨h20, by have := v0.toNat_lt; omega, ?_⟩
        unfold Base58Check.encodeVersion
        rw [versionBytes_small (by have := v0.toNat_lt; omega)]
        simpa using henc
      · split at hd
        · rename_i _ h21
          split at hd
          · cases hd
          · rename_i h0
            cases rest with
            | nil => cases hd
            | cons v1 rest' =>
              simp only at hd
              injection hd with hd; injection hd with hv hh
              subst hv hh
              have hv0 := v0.toNat_lt
              have hv1 := v1.toNat_lt
              refine ⟨by simpa using h21, by omega, ?_⟩
              unfold Base58Check.encodeVersion
              rw [versionBytes_big (by omega)]
              have e1 : (v0.toNat * 256 + v1.toNat) / 256 % 256 = v0.toNat := by omega
              have e2 : (v0.toNat * 256 + v1.toNat) % 256 = v1.toNat := by omega
              rw [e1, e2]
              simpa using henc
        · cases hd

theorem decodeBase58_ne_panic (hs : Hashes) (s : Bytes) : decodeBase58Address hs s ≠ .panic := by
  cases hp : Base58Check.decode hs.cksum s with
  | err => unfold decodeBase58Address; rw [hp]; simp
  | panic => exact absurd hp (Base58.Check.decode_ne_panic _ _)
  | ok payload =>
    rw [decodeBase58_of_payload hs s payload hp]
    unfold splitPayload
    cases payload with
    | nil => simp
    | cons v0 rest =>
      simp only
      split
      · simp
      · split
        · split
          · simp
          · cases rest <;> simp
        · simp

/-! ### scripts -/

theorem pushData_20 (h : Bytes) (hl : h.length = 20) : pushData h = .ok (0x14 :: h) := by
  simp [pushData, script_PushData_0, hl]

theorem pushData_32 (h : Bytes) (hl : h.length = 32) : pushData h = .ok (0x20 :: h) := by
  simp [pushData, script_PushData_0, hl]

theorem scriptP2PKH_eq (h : Bytes) (hl : h.length = 20) :
    scriptP2PKH h = .ok (Spec.Address.scriptPubKey .p2pkh h) := by
  unfold scriptP2PKH
  rw [pushData_20 h hl]
  simp [Spec.Address.scriptPubKey, opByte, constants_OP_DUP, constants_OP_HASH160,
    constants_OP_EQUALVERIFY, constants_OP_CHECKSIG]

theorem scriptP2SH_eq (h : Bytes) (hl : h.length = 20) :
    scriptP2SH h = .ok (Spec.Address.scriptPubKey .p2sh h) := by
  unfold scriptP2SH
  rw [pushData_20 h hl]
  simp [Spec.Address.scriptPubKey, opByte, constants_OP_HASH160, constants_OP_EQUAL]

theorem scriptWitness_20 (h : Bytes) (hl : h.length = 20) :
    scriptWitness h = .ok (Spec.Address.scriptPubKey .p2wpkh h) := by
  unfold scriptWitness
  rw [pushData_20 h hl]
  simp [Spec.Address.scriptPubKey, opByte, constants_OP_0]

theorem scriptWitness_32 (h : Bytes) (hl : h.length = 32) :
    scriptWitness h = .ok (Spec.Address.scriptPubKey .p2wsh h) := by
  unfold scriptWitness
  rw [pushData_32 h hl]
  simp [Spec.Address.scriptPubKey, opByte, constants_OP_0]

/-! ### `Decode` on Base58 addresses -/

/-- a network whose two Base58 versions are different 16-bit numbers -/
def WFNet (net : Network) : Prop :=
  net.scriptHash < 65536 ∧ net.pubkeyHash < 65536 ∧ net.scriptHash ≠ net.pubkeyHash

instance (net : Network) : Decidable (WFNet net) := by unfold WFNet; infer_instance

theorem decode_p2pkh (hs : Hashes) (hck : ∀ x, (hs.cksum x).length = 4) (net : Network)
    (hnet : WFNet net) (h : Bytes) (hl : h.length = 20) :
    decode hs net (makeP2PKHFromHash hs net h) = .ok (.p2pkh, Spec.Address.scriptPubKey .p2pkh h) := by
  unfold decode makeP2PKHFromHash
  rw [decodeBase58_encodeVersion hs hck h hl _ hnet.2.1]
  have hne : ¬ net.pubkeyHash = net.scriptHash := fun e => hnet.2.2 e.symm
  simp [address_Decode_0, address_Decode_1, hne, scriptP2PKH_eq h hl, Outcome.map]

theorem decode_p2sh (hs : Hashes) (hck : ∀ x, (hs.cksum x).length = 4) (net : Network)
    (hnet : WFNet net) (h : Bytes) (hl : h.length = 20) :
    decode hs net (makeP2SHFromHash hs net h) = .ok (.p2sh, Spec.Address.scriptPubKey .p2sh h) := by
  unfold decode makeP2SHFromHash
  rw [decodeBase58_encodeVersion hs hck h hl _ hnet.1]
  simp [address_Decode_0, scriptP2SH_eq h hl, Outcome.map]

/-- a Base58 address carrying any version other than the two of the selected network is refused -/
theorem decode_foreign_version (hs : Hashes) (hck : ∀ x, (hs.cksum x).length = 4) (net : Network)
    (h : Bytes) (hl : h.length = 20) (v : Nat) (hv : v < 65536)
    (h1 : v ≠ net.scriptHash) (h2 : v ≠ net.pubkeyHash) :
    decode hs net (Base58Check.encodeVersion hs.cksum h v) = .err := by
  unfold decode
  rw [decodeBase58_encodeVersion hs hck h hl v hv]
  simp [address_Decode_0, address_Decode_1, h1, h2]

/-- canonicity of accepted Base58 addresses: a P2PKH / P2SH result comes from exactly the string
    `MakeFromHash` produces for the hash in the returned script -/
theorem decode_base58_canonical (hs : Hashes) (net : Network) (s : Bytes) (fmt : Format) (spk : Bytes)
    (hd : decode hs net s = .ok (fmt, spk)) (hf : fmt = .p2pkh ∨ fmt = .p2sh) :
    ∃ h, h.length = 20 ∧
      ((fmt = .p2pkh ∧ spk = Spec.Address.scriptPubKey .p2pkh h ∧ makeP2PKHFromHash hs net h = s) ∨
       (fmt = .p2sh ∧ spk = Spec.Address.scriptPubKey .p2sh h ∧ makeP2SHFromHash hs net h = s)) := by
  unfold decode at hd
  cases hb : decodeBase58Address hs s with
  | panic => rw [hb] at hd; cases hd
  | err =>
    rw [hb] at hd
    simp only at hd
    -- the Bech32 branch only yields the segwit formats
    cases hbe : decodeBech32Address s with
    | panic => rw [hbe] at hd; cases hd
    | err => rw [hbe] at hd; cases hd
    | ok r =>
      obtain ⟨hrp, wv, prog⟩ := r
      rw [hbe] at hd
      simp only at hd
      split at hd
      · cases hd
      · split at hd
        · cases hd
        · split at hd
          · cases hsw : scriptWitness prog <;> rw [hsw] at hd <;> simp [Outcome.map] at hd
            rcases hf with hf | hf <;> rw [hf] at hd <;> cases hd.1
          · split at hd
            · cases hsw : scriptWitness prog <;> rw [hsw] at hd <;> simp [Outcome.map] at hd
              rcases hf with hf | hf <;> rw [hf] at hd <;> cases hd.1
            · cases hd
  | ok r =>
    obtain ⟨v, h⟩ := r
    rw [hb] at hd
    simp only at hd
    obtain ⟨hl, _, henc⟩ := decodeBase58_canonical hs s v h hb
    refine ⟨h, hl, ?_⟩
    split at hd
    · rename_i hv
      have hv' : v = net.scriptHash := by simpa [address_Decode_0] using hv
      rw [scriptP2SH_eq h hl] at hd
      simp only [Outcome.map] at hd
      injection hd with hd; injection hd with hfmt hspk
      right
      refine ⟨hfmt.symm, hspk.symm, ?_⟩
      unfold makeP2SHFromHash; rw [← hv']; exact henc
    · split at hd
      · rename_i _ hv
        have hv' : v = net.pubkeyHash := by simpa [address_Decode_1] using hv
        rw [scriptP2PKH_eq h hl] at hd
        simp only [Outcome.map] at hd
        injection hd with hd; injection hd with hfmt hspk
        left
        refine ⟨hfmt.symm, hspk.symm, ?_⟩
        unfold makeP2PKHFromHash; rw [← hv']; exact henc
      · cases hd

/-- what a segwit result of `Decode` was read from -/
theorem decode_segwit_source (hs : Hashes) (net : Network) (s : Bytes) (fmt : Format) (spk : Bytes)
    (hd : decode hs net s = .ok (fmt, spk)) (hf : fmt = .p2wpkh ∨ fmt = .p2wsh) :
    ∃ prog, Bech32.decode s = .ok (net.bech32, 0, prog) ∧
      ((fmt = .p2wpkh ∧ prog.length = 20 ∧ spk = Spec.Address.scriptPubKey .p2wpkh prog) ∨
       (fmt = .p2wsh ∧ prog.length = 32 ∧ spk = Spec.Address.scriptPubKey .p2wsh prog)) := by
  unfold decode at hd
  cases hb : decodeBase58Address hs s with
  | panic => rw [hb] at hd; cases hd
  | ok r =>
    obtain ⟨v, h⟩ := r
    rw [hb] at hd
    simp only at hd
    split at hd
    · cases hsc : scriptP2SH h <;> rw [hsc] at hd <;> simp [Outcome.map] at hd
      rcases hf with hf | hf <;> rw [hf] at hd <;> cases hd.1
    · split at hd
      · cases hsc : scriptP2PKH h <;> rw [hsc] at hd <;> simp [Outcome.map] at hd
        rcases hf with hf | hf <;> rw [hf] at hd <;> cases hd.1
      · cases hd
  | err =>
    rw [hb] at hd
    simp only at hd
    cases hbe : decodeBech32Address s with
    | panic => rw [hbe] at hd; cases hd
    | err => rw [hbe] at hd; cases hd
    | ok r =>
      obtain ⟨hrp, wv, prog⟩ := r
      rw [hbe] at hd
      simp only at hd
      -- decodeBech32Address passes Bech32.decode's result through
      have hsrc : Bech32.decode s = .ok (hrp, wv, prog) := by
        unfold decodeBech32Address at hbe
        cases hbd : Bech32.decode s with
        | err => rw [hbd] at hbe; cases hbe
        | panic => rw [hbd] at hbe; cases hbe
        | ok q =>
          obtain ⟨a, b, c⟩ := q
          rw [hbd] at hbe
          simp only at hbe
          split at hbe
          · cases hbe
          · injection hbe with hbe; rw [hbe]
      split at hd
      · cases hd
      · rename_i hhrp
        have hhrp' : hrp = net.bech32 := by simpa using hhrp
        split at hd
        · cases hd
        · rename_i hwv
          have hwv' : wv = 0 := by simpa [address_Decode_3] using hwv
          subst hhrp' hwv'
          refine ⟨prog, hsrc, ?_⟩
          split at hd
          · rename_i h20
            have h20' : prog.length = 20 := by
              simp [address_Decode_4] at h20; omega
            rw [scriptWitness_20 prog h20'] at hd
            simp only [Outcome.map] at hd
            injection hd with hd; injection hd with hfmt hspk
            exact Or.inl ⟨hfmt.symm, h20', hspk.symm⟩
          · split at hd
            · rename_i _ h32
              have h32' : prog.length = 32 := by
                simp [address_Decode_5] at h32; omega
              rw [scriptWitness_32 prog h32'] at hd
              simp only [Outcome.map] at hd
              injection hd with hd; injection hd with hfmt hspk
              exact Or.inr ⟨hfmt.symm, h32', hspk.symm⟩
            · cases hd

/-- `Decode` only ever answers with one of the four standard formats -/
theorem decode_format (hs : Hashes) (net : Network) (s : Bytes) (fmt : Format) (spk : Bytes)
    (hd : decode hs net s = .ok (fmt, spk)) : fmt ≠ .other := by
  intro hf
  subst hf
  unfold decode at hd
  cases hb : decodeBase58Address hs s with
  | panic => rw [hb] at hd; cases hd
  | ok r =>
    obtain ⟨v, h⟩ := r
    rw [hb] at hd
    simp only at hd
    split at hd
    · cases hsc : scriptP2SH h <;> rw [hsc] at hd <;> simp [Outcome.map] at hd
    · split at hd
      · cases hsc : scriptP2PKH h <;> rw [hsc] at hd <;> simp [Outcome.map] at hd
      · cases hd
  | err =>
    rw [hb] at hd
    simp only at hd
    cases hbe : decodeBech32Address s with
    | panic => rw [hbe] at hd; cases hd
    | err => rw [hbe] at hd; cases hd
    | ok r =>
      obtain ⟨hrp, wv, prog⟩ := r
      rw [hbe] at hd
      simp only at hd
      split at hd
      · cases hd
      · split at hd
        · cases hd
        · split at hd
          · cases hsw : scriptWitness prog <;> rw [hsw] at hd <;> simp [Outcome.map] at hd
          · split at hd
            · cases hsw : scriptWitness prog <;> rw [hsw] at hd <;> simp [Outcome.map] at hd
            · cases hd

end BtcVerif.Proofs.Address
