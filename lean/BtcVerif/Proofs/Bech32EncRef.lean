/-
  Helper lemmas for C08/C09 (Bech32), part 7: the model's `Encode` equals the BIP173 reference
  encoder (`bech32_encode(hrp, [version] + convertbits(payload, 8, 5))`) on its domain.
  Core Lean only.
-/
import BtcVerif.Proofs.Bech32Ref

namespace BtcVerif.Proofs.Bech32
open BtcVerif BtcVerif.Model BtcVerif.Model.Bech32 BtcVerif.Gen BtcVerif.Gen.Guards

/-! ### values of prefixes and suffixes of a bit string -/

theorem take_drop_value (p : Bits) (k : Nat) (hk : k ≤ p.length) :
    bitsToNat (p.take k) = bitsToNat p / 2 ^ (p.length - k) ∧
    bitsToNat (p.drop k) = bitsToNat p % 2 ^ (p.length - k) := by
  have hsplit : bitsToNat p = bitsToNat (p.take k) * 2 ^ (p.drop k).length + bitsToNat (p.drop k) := by
    conv => lhs; rw [← List.take_append_drop k p]
    exact bitsToNat_append _ _
  have hlt := bitsToNat_lt (p.drop k)
  have hdl : (p.drop k).length = p.length - k := by simp
  rw [hdl] at hsplit hlt
  generalize 2 ^ (p.length - k) = m at *
  have hm : 0 < m := by omega
  constructor
  · rw [hsplit, Nat.mul_comm, Nat.mul_add_div hm, Nat.div_eq_of_lt hlt]; simp
  · rw [hsplit, Nat.mul_comm, Nat.mul_add_mod, Nat.mod_eq_of_lt hlt]

/-! ### 5-bit groups -/

/-- the values of the 5-bit groups of a bit string whose length is a multiple of 5 -/
def groupsNat (bs : Bits) : List Nat := (split bs 5).map bitsToNat

theorem groupsNat_nil : groupsNat [] = [] := rfl

theorem groupsNat_append (X Y : Bits) (hX : 5 ∣ X.length) (hY : 5 ∣ Y.length) :
    groupsNat (X ++ Y) = groupsNat X ++ groupsNat Y := by
  unfold groupsNat
  have hgroups : ∀ x ∈ split X 5 ++ split Y 5, x.length = 5 := by
    intro x hx
    rw [List.mem_append] at hx
    rcases hx with hx | hx
    · exact split_length_each X 5 (by decide) hX x hx
    · exact split_length_each Y 5 (by decide) hY x hx
  have := split_flatten 5 (by decide) (split X 5 ++ split Y 5) hgroups
  rw [List.flatten_append, flatten_split X 5 (by decide), flatten_split Y 5 (by decide)] at this
  rw [this, List.map_append]

theorem groupsNat_single (g : Bits) (hg : g.length = 5) : groupsNat g = [bitsToNat g] := by
  unfold groupsNat
  have := split_flatten 5 (by decide) [g] (by intro x hx; simp at hx; subst hx; exact hg)
  simp only [List.flatten_cons, List.flatten_nil, List.append_nil] at this
  rw [this]; rfl

/-- peeling `k` bits (a multiple of 5) off the front of a bit string -/
theorem peel (X : Bits) (k : Nat) (hk : k ≤ X.length) (h5 : 5 ∣ k) :
    X.drop (5 * (X.length / 5)) = (X.drop k).drop (5 * ((X.drop k).length / 5)) ∧
    groupsNat (X.take (5 * (X.length / 5))) =
      groupsNat (X.take k) ++ groupsNat ((X.drop k).take (5 * ((X.drop k).length / 5))) := by
  obtain ⟨q, hq⟩ := h5
  have hdl : (X.drop k).length = X.length - k := by simp
  have hmul : 5 * (X.length / 5) = k + 5 * ((X.length - k) / 5) := by
    rw [hq] at hk ⊢; omega
  rw [hdl, hmul]
  constructor
  · rw [List.drop_drop]
  · rw [List.take_add]
    apply groupsNat_append
    · simp only [List.length_take]; rw [Nat.min_eq_left hk]; exact ⟨q, hq⟩
    · simp only [List.length_take, List.length_drop]
      have : 5 * ((X.length - k) / 5) ≤ X.length - k := Nat.mul_div_le _ _
      rw [Nat.min_eq_left this]
      exact Nat.dvd_mul_right _ _

/-! ### `convertbits(…, 8, 5, True)` at the level of bits -/

/-- bit-level description of the reference loop for 8 → 5: pending bits (fewer than 5) and
    emitted 5-bit values; a byte yields one group, or two when at least 10 bits are pending -/
def stream8 : List Nat → Bits → List Nat → Bits × List Nat
  | [], pend, ret => (pend, ret)
  | b :: bs, pend, ret =>
    if (pend ++ byteToBits b).length ≥ 10 then
      stream8 bs ((pend ++ byteToBits b).drop 10)
        (ret ++ [bitsToNat ((pend ++ byteToBits b).take 5), bitsToNat (((pend ++ byteToBits b).drop 5).take 5)])
    else stream8 bs ((pend ++ byteToBits b).drop 5) (ret ++ [bitsToNat ((pend ++ byteToBits b).take 5)])

theorem stream8_spec (bs : List Nat) : ∀ (pend : Bits) (ret : List Nat), pend.length < 5 →
    stream8 bs pend ret =
      ((pend ++ (bs.map byteToBits).flatten).drop (5 * ((pend ++ (bs.map byteToBits).flatten).length / 5)),
       ret ++ groupsNat ((pend ++ (bs.map byteToBits).flatten).take
         (5 * ((pend ++ (bs.map byteToBits).flatten).length / 5)))) := by
  induction bs with
  | nil =>
    intro pend ret hp
    have : pend.length / 5 = 0 := Nat.div_eq_of_lt hp
    simp [stream8, this, groupsNat_nil]
  | cons b bs ih =>
    intro pend ret hp
    simp only [stream8, List.map_cons, List.flatten_cons]
    have h8 := byteToBits_length b
    generalize hF : (bs.map byteToBits).flatten = F
    rw [hF] at ih
    have hX : pend ++ (byteToBits b ++ F) = (pend ++ byteToBits b) ++ F := by simp
    rw [hX]
    generalize hpdef : pend ++ byteToBits b = p
    have hpl : p.length = pend.length + 8 := by rw [← hpdef]; simp [h8]
    by_cases h10 : p.length ≥ 10
    · have hdl10 : (p.drop 10).length < 5 := by rw [List.length_drop]; omega
      rw [if_pos h10, ih (p.drop 10) _ hdl10]
      obtain ⟨e1, e2⟩ := peel (p ++ F) 10 (by rw [List.length_append]; omega) ⟨2, rfl⟩
      have hd : (p ++ F).drop 10 = p.drop 10 ++ F := List.drop_append_of_le_length (by omega)
      have ht : (p ++ F).take 10 = p.take 10 := List.take_append_of_le_length (by omega)
      rw [hd] at e1 e2
      rw [e1, e2, ht]
      have ht5 : (p.take 5).length = 5 := by rw [List.length_take]; omega
      have ht55 : ((p.drop 5).take 5).length = 5 := by
        rw [List.length_take, List.length_drop]; omega
      have hg : groupsNat (p.take 10) = [bitsToNat (p.take 5), bitsToNat ((p.drop 5).take 5)] := by
        rw [show (10 : Nat) = 5 + 5 from rfl, List.take_add,
          groupsNat_append _ _ ⟨1, by omega⟩ ⟨1, by omega⟩,
          groupsNat_single (p.take 5) ht5, groupsNat_single ((p.drop 5).take 5) ht55]
        rfl
      rw [hg, List.append_assoc]
    · have hdl5 : (p.drop 5).length < 5 := by rw [List.length_drop]; omega
      rw [if_neg h10, ih (p.drop 5) _ hdl5]
      obtain ⟨e1, e2⟩ := peel (p ++ F) 5 (by rw [List.length_append]; omega) ⟨1, rfl⟩
      have hd : (p ++ F).drop 5 = p.drop 5 ++ F := List.drop_append_of_le_length (by omega)
      have ht : (p ++ F).take 5 = p.take 5 := List.take_append_of_le_length (by omega)
      rw [hd] at e1 e2
      have ht5 : (p.take 5).length = 5 := by rw [List.length_take]; omega
      rw [e1, e2, ht, groupsNat_single (p.take 5) ht5, List.append_assoc]

theorem or_eq_add8 (acc v : Nat) (hv : v < 256) : (acc <<< 8) ||| v = acc * 256 + v := by
  rw [← Nat.shiftLeft_add_eq_or_of_lt (by simpa using hv), Nat.shiftLeft_eq]

theorem e31 : (31 : Nat) = 2 ^ 5 - 1 := by decide

/-- one byte through the reference loop (8 → 5), in terms of the pending bits -/
theorem spec_step8 (acc bits b : Nat) (pend : Bits) (ret : List Nat) (hb : bits = pend.length)
    (h5 : bits < 5) (hacc : acc % 2 ^ bits = bitsToNat pend) (hbyte : b < 256) :
    ∃ acc', acc' = ((acc <<< 8) ||| b) &&& 4095 ∧
      Spec.Bech32.drain 5 31 acc' (bits + 8 + 1) (bits + 8) ret =
        (if (pend ++ byteToBits b).length ≥ 10 then
          ((pend ++ byteToBits b).length - 10,
            ret ++ [bitsToNat ((pend ++ byteToBits b).take 5), bitsToNat (((pend ++ byteToBits b).drop 5).take 5)])
         else ((pend ++ byteToBits b).length - 5, ret ++ [bitsToNat ((pend ++ byteToBits b).take 5)])) ∧
      (if (pend ++ byteToBits b).length ≥ 10 then
          acc' % 2 ^ ((pend ++ byteToBits b).length - 10) = bitsToNat ((pend ++ byteToBits b).drop 10)
       else acc' % 2 ^ ((pend ++ byteToBits b).length - 5) = bitsToNat ((pend ++ byteToBits b).drop 5)) := by
  refine ⟨_, rfl, ?_⟩
  have hpl : (pend ++ byteToBits b).length = bits + 8 := by simp [byteToBits_length, hb]
  have hpv : bitsToNat (pend ++ byteToBits b) = bitsToNat pend * 256 + b := by
    rw [bitsToNat_append, byteToBits_length, bitsToNat_byteToBits b hbyte]
  rw [or_eq_add8 acc b hbyte, e4095, Nat.and_two_pow_sub_one_eq_mod, hpl]
  generalize hP : pend ++ byteToBits b = p at *
  obtain ⟨t5, d5⟩ := take_drop_value p 5 (by omega)
  rw [hpl, hpv, ← hacc] at t5 d5
  by_cases hge : bits + 8 ≥ 10
  · obtain ⟨t10, d10⟩ := take_drop_value p 10 (by omega)
    rw [hpl, hpv, ← hacc] at t10 d10
    obtain ⟨t55, _⟩ := take_drop_value (p.drop 5) 5 (by simp; omega)
    have hd5l : (p.drop 5).length = bits + 3 := by simp; omega
    rw [hd5l, d5] at t55
    rw [if_pos hge, if_pos hge, t5, t55, d10]
    have hdr : Spec.Bech32.drain 5 31 ((acc * 256 + b) % 2 ^ 12) (bits + 8 + 1) (bits + 8) ret =
        (bits + 8 - 10, ret ++ [((acc * 256 + b) % 2 ^ 12) >>> (bits + 8 - 5) &&& 31] ++
          [((acc * 256 + b) % 2 ^ 12) >>> (bits + 8 - 5 - 5) &&& 31]) := by
      have e1 : bits + 8 + 1 = (bits + 6) + 1 + 1 + 1 := by omega
      rw [e1]
      simp only [Spec.Bech32.drain]
      rw [if_pos (by omega), if_pos (by omega), if_neg (by omega)]
      congr 1
    rw [hdr, e31, Nat.and_two_pow_sub_one_eq_mod, Nat.and_two_pow_sub_one_eq_mod,
      Nat.shiftRight_eq_div_pow, Nat.shiftRight_eq_div_pow]
    have hcases : bits = 2 ∨ bits = 3 ∨ bits = 4 := by omega
    rcases hcases with h | h | h <;> subst h <;> refine ⟨?_, ?_⟩ <;> simp <;> omega
  · rw [if_neg hge, if_neg hge, t5, d5]
    have hdr : Spec.Bech32.drain 5 31 ((acc * 256 + b) % 2 ^ 12) (bits + 8 + 1) (bits + 8) ret =
        (bits + 8 - 5, ret ++ [((acc * 256 + b) % 2 ^ 12) >>> (bits + 8 - 5) &&& 31]) := by
      have e1 : bits + 8 + 1 = (bits + 7) + 1 + 1 := by omega
      rw [e1]
      simp only [Spec.Bech32.drain]
      rw [if_pos (by omega), if_neg (by omega)]
    rw [hdr, e31, Nat.and_two_pow_sub_one_eq_mod, Nat.shiftRight_eq_div_pow]
    have hcases : bits = 0 ∨ bits = 1 := by omega
    rcases hcases with h | h <;> subst h <;> refine ⟨?_, ?_⟩ <;> simp <;> omega

/-- the reference loop (8 → 5) computes `stream8` -/
theorem convertLoop_stream8 (bs : List Nat) : ∀ (acc bits : Nat) (pend : Bits) (ret : List Nat),
    bits = pend.length → bits < 5 → acc % 2 ^ bits = bitsToNat pend → (∀ b ∈ bs, b < 256) →
    ∃ acc', Spec.Bech32.convertLoop 8 5 31 4095 bs acc bits ret =
        some (acc', (stream8 bs pend ret).1.length, (stream8 bs pend ret).2) ∧
      (stream8 bs pend ret).1.length < 5 ∧
      acc' % 2 ^ (stream8 bs pend ret).1.length = bitsToNat (stream8 bs pend ret).1 := by
  induction bs with
  | nil =>
    intro acc bits pend ret hb h5 hacc _
    exact ⟨acc, by simp [Spec.Bech32.convertLoop, stream8, hb], by simpa [stream8, ← hb] using h5,
      by simpa [stream8, ← hb] using hacc⟩
  | cons b bs ih =>
    intro acc bits pend ret hb h5 hacc hbs
    have hbyte : b < 256 := hbs b (by simp)
    have hshift : ¬ (b >>> 8 ≠ 0) := by
      rw [Nat.shiftRight_eq_div_pow]
      have : b / 2 ^ 8 = 0 := Nat.div_eq_of_lt (by simpa using hbyte)
      simp [this]
    obtain ⟨acc', hacc', hdrain, hinv⟩ := spec_step8 acc bits b pend ret hb h5 hacc hbyte
    simp only [Spec.Bech32.convertLoop, stream8]
    rw [if_neg hshift, ← hacc', hdrain]
    have hpl : (pend ++ byteToBits b).length = bits + 8 := by simp [byteToBits_length, hb]
    by_cases hge : (pend ++ byteToBits b).length ≥ 10
    · rw [if_pos hge] at hinv ⊢
      simp only [if_pos hge]
      exact ih acc' _ ((pend ++ byteToBits b).drop 10) _ (by simp) (by omega) hinv
        (fun x hx => hbs x (by simp [hx]))
    · rw [if_neg hge] at hinv ⊢
      simp only [if_neg hge]
      exact ih acc' _ ((pend ++ byteToBits b).drop 5) _ (by simp) (by omega) hinv
        (fun x hx => hbs x (by simp [hx]))

/-- `convertbits(payload, 8, 5)` (with padding) is the model's `bytesToIndeces` -/
theorem convertbits8_eq (data : Bytes) (hne : data ≠ []) :
    Spec.Bech32.convertbits (data.map UInt8.toNat) 8 5 true = some (bytesToIndices data) := by
  have hlt : ∀ b ∈ data.map UInt8.toNat, b < 256 := by
    intro b hb
    rw [List.mem_map] at hb
    obtain ⟨x, _, rfl⟩ := hb
    exact x.toNat_lt
  obtain ⟨acc', hloop, hl5, hinv⟩ :=
    convertLoop_stream8 (data.map UInt8.toNat) 0 0 [] [] rfl (by decide) (by simp [bitsToNat]) hlt
  have hss := stream8_spec (data.map UInt8.toNat) [] [] (by decide)
  simp only [List.nil_append, List.map_map] at hss
  have hB : ((data.map (byteToBits ∘ UInt8.toNat))).flatten = bytesToBits data := by
    rw [bytesToBits_eq]; rfl
  rw [hB] at hss
  generalize hBB : bytesToBits data = B at hss
  have hmul : 5 * (B.length / 5) = B.length - B.length % 5 := by omega
  rw [hmul] at hss
  rw [hss] at hloop hl5 hinv
  simp only at hloop hl5 hinv
  have hdl : (B.drop (B.length - B.length % 5)).length = B.length % 5 := by
    simp only [List.length_drop]; have := Nat.mod_le B.length 5; omega
  rw [hdl] at hloop hinv
  unfold Spec.Bech32.convertbits
  have emaxv : (1 <<< 5) - 1 = 31 := by decide
  have emaxacc : (1 <<< (8 + 5 - 1)) - 1 = 4095 := by decide
  simp only [emaxv, emaxacc, hloop, if_true]
  -- the model side
  have hBne : B.length ≠ 0 := by
    rw [← hBB, bytesToBits_length]
    cases data with
    | nil => exact absurd rfl hne
    | cons _ _ => simp
  obtain ⟨k, hk, hpad, hmod⟩ := padRight5 B hBne
  unfold bytesToIndices
  simp only [bech32_BitGroupSize, hBB, hpad]
  have htd : B = B.take (B.length - B.length % 5) ++ B.drop (B.length - B.length % 5) :=
    (List.take_append_drop _ _).symm
  have htl : (B.take (B.length - B.length % 5)).length = B.length - B.length % 5 := by
    simp only [List.length_take]; have := Nat.mod_le B.length 5; omega
  have h5t : 5 ∣ (B.take (B.length - B.length % 5)).length := by
    rw [htl]; exact ⟨B.length / 5, by omega⟩
  by_cases hr : B.length % 5 = 0
  · -- no padding
    have hk0 : k = 0 := by omega
    subst hk0
    rw [if_neg (by simpa using hr)]
    have : B.take (B.length - B.length % 5) = B := by rw [hr]; simp
    rw [this]
    simp [groupsNat]
  · rw [if_pos hr]
    have hkeq : k = 5 - B.length % 5 := by omega
    have hlast : (B.drop (B.length - B.length % 5) ++ List.replicate k false).length = 5 := by
      rw [List.length_append, hdl, List.length_replicate]; omega
    have hx : (acc' <<< (5 - B.length % 5)) &&& 31 =
        bitsToNat (B.drop (B.length - B.length % 5) ++ List.replicate k false) := by
      rw [bitsToNat_append, bitsToNat_replicate_false, ← hinv, List.length_replicate, e31,
        Nat.and_two_pow_sub_one_eq_mod, Nat.shiftLeft_eq, hkeq]
      have hn : B.length % 5 < 5 := Nat.mod_lt _ (by decide)
      generalize B.length % 5 = n at hn hr
      have hcases : n = 1 ∨ n = 2 ∨ n = 3 ∨ n = 4 := by omega
      rcases hcases with h | h | h | h <;> subst h <;> simp <;> omega
    rw [hx]
    congr 1
    show _ = groupsNat (B ++ List.replicate k false)
    conv => rhs; rw [htd, List.append_assoc]
    rw [groupsNat_append _ _ h5t ⟨1, by omega⟩, groupsNat_single _ hlast]

/-! ### `Encode` = reference encoder -/

theorem createChecksum_eq_spec (hrp : Bytes) (values : List Nat) :
    createChecksum hrp values = Spec.Bech32.createChecksum hrp values := by
  rw [createChecksum_eq]
  unfold Spec.Bech32.createChecksum
  have e : hrpExpand hrp = Spec.Bech32.hrpExpand hrp := rfl
  simp only [← polymod_eq_pm, polymod_eq_spec, e, Nat.shiftRight_eq_div_pow, e31,
    Nat.and_two_pow_sub_one_eq_mod]

theorem filterMap_charset (vals : List Nat) (h : ∀ v ∈ vals, v < 32) :
    vals.filterMap (fun d => Spec.Bech32.charset[d]?) = vals.map achar := by
  induction vals with
  | nil => rfl
  | cons v vs ih =>
    have hget : Spec.Bech32.charset[v]? = some (achar v) := by
      rw [charset_eq]; exact (achar_facts v (h v (by simp))).1
    rw [List.filterMap_cons, hget, List.map_cons, ih (fun x hx => h x (by simp [hx]))]

/-- on its domain `Encode` returns what the BIP173 reference encoder returns -/
theorem encode_eq_spec (hrp : Bytes) (version : Nat) (data : Bytes) (hne : data ≠ []) (hv : version < 32)
    (hlen : hrp.length + 1 + (1 + (bytesToIndices data).length) + 6 ≤ 90) :
    Spec.Bech32.toOutcome (Spec.Bech32.bip173Encode hrp version data) = encode hrp version data := by
  rw [encode_normal hrp version data hne hv hlen]
  unfold Spec.Bech32.bip173Encode
  rw [convertbits8_eq data hne]
  simp only
  obtain ⟨k, _, _, hvals, _⟩ := bytesToIndices_facts data hne
  have hall : ∀ v ∈ (version :: bytesToIndices data) ++ createChecksum hrp (version :: bytesToIndices data), v < 32 := by
    intro v hm
    rw [List.mem_append] at hm
    rcases hm with hm | hm
    · simp only [List.mem_cons] at hm
      rcases hm with hm | hm
      · subst hm; exact hv
      · exact hvals v hm
    · exact createChecksum_lt _ _ v hm
  rw [← createChecksum_eq_spec, filterMap_charset _ hall]
  rfl

end BtcVerif.Proofs.Bech32
