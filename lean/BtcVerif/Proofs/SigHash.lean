import BtcVerif.Model.SigHash
import BtcVerif.Spec.SigHash
import BtcVerif.Proofs.Tx

namespace BtcVerif.Model
open BtcVerif
open BtcVerif.Gen.Guards

theorem map_mapIdx' {α β γ} (f : Nat → α → β) (g : β → γ) (l : List α) :
    (l.mapIdx f).map g = l.mapIdx (fun i x => g (f i x)) := by
  apply List.ext_getElem
  · simp
  · intro i h1 h2
    simp [List.getElem_mapIdx]

theorem drop_take_set {α} (l : List α) (n : Nat) (x : α) (h : n < l.length) :
    ((l.set n x).drop n).take 1 = [x] := by
  have hl : n < (l.set n x).length := by simpa using h
  rw [List.drop_eq_getElem_cons hl]
  simp

/-! flags: the library's tests and the specification's agree -/
theorem flag_none (ht : Nat) : tx_Tx_SignatureHashForInput_asg0 ht = Spec.isNone ht := by
  simp only [tx_Tx_SignatureHashForInput_asg0, Spec.isNone, Spec.baseType]
  by_cases h : ht &&& 31 = 2 <;> simp [h]
theorem flag_single (ht : Nat) : tx_Tx_SignatureHashForInput_asg1 ht = Spec.isSingle ht := by
  simp only [tx_Tx_SignatureHashForInput_asg1, Spec.isSingle, Spec.baseType]
  by_cases h : ht &&& 31 = 3 <;> simp [h]
theorem flag_acp (ht : Nat) : tx_Tx_SignatureHashForInput_asg2 ht = Spec.isACP ht := by
  simp only [tx_Tx_SignatureHashForInput_asg2, Spec.isACP]
  by_cases h : ht &&& 128 = 0
  · simp [h]
  · have : ht &&& 128 > 0 := Nat.pos_of_ne_zero h
    simp [h, this]
theorem wflag_none (ht : Nat) : tx_Tx_SignatureHashForWitnessInput_asg0 ht = Spec.isNone ht := by
  simp only [tx_Tx_SignatureHashForWitnessInput_asg0, Spec.isNone, Spec.baseType]
  by_cases h : ht &&& 31 = 2 <;> simp [h]
theorem wflag_single (ht : Nat) : tx_Tx_SignatureHashForWitnessInput_asg1 ht = Spec.isSingle ht := by
  simp only [tx_Tx_SignatureHashForWitnessInput_asg1, Spec.isSingle, Spec.baseType]
  by_cases h : ht &&& 31 = 3 <;> simp [h]
theorem wflag_acp (ht : Nat) : tx_Tx_SignatureHashForWitnessInput_asg2 ht = Spec.isACP ht := by
  simp only [tx_Tx_SignatureHashForWitnessInput_asg2, Spec.isACP]
  by_cases h : ht &&& 128 = 0
  · simp [h]
  · have : ht &&& 128 > 0 := Nat.pos_of_ne_zero h
    simp [h, this]

/-- inputs of the modified copy, serialised, are the specification's per-input serialisation -/
theorem inputs_blank_eq (ins : List TxIn) (nIn : Nat) (vin : TxIn) (sc : Bytes) (ht : Nat)
    (hn : nIn < ins.length) (hv : ins[nIn] = vin) :
    (blankInputs (ins.set nIn { vin with script := sc }) nIn (Spec.isNone ht) (Spec.isSingle ht)).map encTxIn
      = ins.mapIdx (Spec.serInput sc ht nIn) := by
  unfold blankInputs
  rw [map_mapIdx']
  apply List.ext_getElem
  · simp
  · intro i h1 h2
    simp only [List.getElem_mapIdx, List.getElem_set]
    have hi : i < ins.length := by simpa using h2
    by_cases he : nIn = i
    · subst he
      simp [tx_Tx_SignatureHashForInput_2, Spec.serInput, encTxIn, hv]
    · have hne : (i : Int) ≠ (nIn : Int) := by omega
      have hne' : ¬ i = nIn := by omega
      simp only [he, ite_false, tx_Tx_SignatureHashForInput_2, hne, ne_eq, not_false_eq_true, decide_true,
        ite_true, tx_Tx_SignatureHashForInput_3, Spec.serInput, hne', encTxIn, List.length_nil]
      by_cases hN : Spec.isNone ht = true <;> by_cases hS : Spec.isSingle ht = true <;> simp [hN, hS]

/-- outputs for SIGHASH_SINGLE -/
theorem outputs_blank_eq (outs : List TxOut) (nIn : Nat) (ht : Nat) (hs : Spec.isSingle ht = true) :
    (blankOutputs outs nIn).map encTxOut = (outs.take (nIn + 1)).mapIdx (Spec.serOutput ht nIn) := by
  unfold blankOutputs
  rw [map_mapIdx']
  rw [List.mapIdx_eq_mapIdx_iff]
  intro i hi
  have hi' : i < nIn + 1 := by
    simp only [List.length_take] at hi; omega
  simp only [tx_Tx_SignatureHashForInput_6, Spec.serOutput, hs, true_and]
  by_cases hlt : i < nIn
  · have h1 : (i : Int) < (nIn : Int) := by omega
    have h2 : i ≠ nIn := by omega
    simp [h1, h2, encTxOut]
  · have h1 : ¬ (i : Int) < (nIn : Int) := by omega
    have h2 : i = nIn := by omega
    simp [h1, h2]

/-- outputs when neither NONE nor SINGLE -/
theorem outputs_all_eq (outs : List TxOut) (nIn : Nat) (ht : Nat) (hs : Spec.isSingle ht = false) :
    outs.map encTxOut = (outs.take outs.length).mapIdx (Spec.serOutput ht nIn) := by
  rw [List.take_length]
  apply List.ext_getElem
  · simp
  · intro i h1 h2
    simp [List.getElem_mapIdx, Spec.serOutput, hs]

theorem append_congr4 {α} {v a b c d a' b' c' d' t : List α}
    (h1 : a ++ b = a' ++ b') (h2 : c ++ d = c' ++ d') :
    v ++ (a ++ (b ++ (c ++ (d ++ t)))) = v ++ (a' ++ (b' ++ (c' ++ (d' ++ t)))) := by
  rw [← List.append_assoc a b, h1, ← List.append_assoc c d, h2]
  simp only [List.append_assoc]

theorem uint256One_eq : uint256One = 1 :: List.replicate 31 0 := rfl

/-- **C03 (legacy), the constant-one case**: SIGHASH_SINGLE with no matching output -/
theorem legacy_single_out_of_range (H : Bytes → Bytes) (tx : Tx) (nIn : Nat) (script : Bytes) (ht : Nat)
    (hs : ht &&& 0x1f = 3) (ho : tx.outputs.length ≤ nIn) :
    legacyDigest H tx nIn script ht = .ok uint256One := by
  unfold legacyDigest legacyPre
  have h1 : tx_Tx_SignatureHashForInput_asg1 ht = true := by simp [tx_Tx_SignatureHashForInput_asg1, hs]
  have g : tx_Tx_SignatureHashForInput_0 (nInput := nIn) (len_tx_Inputs := tx.inputs.length)
      (sigHashSingle := true) (len_tx_Outputs := tx.outputs.length) = true := by
    simp [tx_Tx_SignatureHashForInput_0]; omega
  simp only [h1, g, ite_true]

/-- **C03 (legacy)**: for an in-range input (and, for SINGLE, an in-range output) and a script code
    the library can parse, the preimage the library hashes is the consensus preimage -/
theorem legacyPre_eq_spec (tx : Tx) (nIn : Nat) (script sc : Bytes) (ht : Nat)
    (hn : nIn < tx.inputs.length) (hone : Spec.legacyIsOne tx nIn ht = false)
    (hsc : stripOpCode script opCodeSeparator = .ok sc) :
    legacyPre tx nIn script ht = .ok (.preimage (Spec.legacyPreimage tx nIn sc ht)) := by
  unfold legacyPre
  simp only [flag_none, flag_single, flag_acp, hsc]
  have hso : Spec.isSingle ht = true → nIn < tx.outputs.length := by
    intro h
    simp only [Spec.legacyIsOne, h, Bool.true_and, decide_eq_false_iff_not] at hone
    omega
  have g0 : tx_Tx_SignatureHashForInput_0 (nInput := nIn) (len_tx_Inputs := tx.inputs.length)
      (sigHashSingle := Spec.isSingle ht) (len_tx_Outputs := tx.outputs.length) = false := by
    simp only [tx_Tx_SignatureHashForInput_0, Bool.or_eq_false_iff, decide_eq_false_iff_not,
      Bool.and_eq_false_iff]
    refine ⟨by omega, ?_⟩
    by_cases h : Spec.isSingle ht = true
    · right; have := hso h; omega
    · left; simpa using h
  simp only [g0, Bool.false_eq_true, ite_false]
  rw [List.getElem?_eq_getElem hn]
  simp only
  -- serialisation of the modified copy
  unfold encTx
  simp only [canSerialize, Bool.not_true, Bool.false_eq_true, ite_false, tx_Tx_serialize_1, tx_Tx_serialize_2,
    Bool.and_false, Bool.false_and, List.append_nil, witLen, witList]
  unfold Spec.legacyPreimage
  simp only [tx_Tx_SignatureHashForInput_1, tx_Tx_SignatureHashForInput_4, tx_Tx_SignatureHashForInput_5]
  -- inputs
  have hins : ∀ (ins2 : List TxIn) (sins : List Bytes), ins2.map encTxIn = sins →
      encVarint ins2.length ++ encMany encTxIn ins2 = encVarint sins.length ++ sins.flatten := by
    intro ins2 sins h
    subst h
    simp [encMany]
  have houts : ∀ (outs2 : List TxOut) (souts : List Bytes) (n : Nat), outs2.map encTxOut = souts →
      outs2.length = n → encVarint outs2.length ++ encMany encTxOut outs2 = encVarint n ++ souts.flatten := by
    intro outs2 souts n h hl
    subst h; subst hl
    simp [encMany]
  -- the two halves
  have hI : encVarint (if Spec.isACP ht = true then
          List.take 1 (List.drop nIn (tx.inputs.set nIn { tx.inputs[nIn] with script := sc }))
        else blankInputs (tx.inputs.set nIn { tx.inputs[nIn] with script := sc }) nIn (Spec.isNone ht) (Spec.isSingle ht)).length
      ++ encMany encTxIn (if Spec.isACP ht = true then
          List.take 1 (List.drop nIn (tx.inputs.set nIn { tx.inputs[nIn] with script := sc }))
        else blankInputs (tx.inputs.set nIn { tx.inputs[nIn] with script := sc }) nIn (Spec.isNone ht) (Spec.isSingle ht))
      = encVarint (if Spec.isACP ht = true then
            (match tx.inputs[nIn]? with | some vin => [Spec.serInput sc ht nIn nIn vin] | none => [])
          else tx.inputs.mapIdx (Spec.serInput sc ht nIn)).length
        ++ (if Spec.isACP ht = true then
            (match tx.inputs[nIn]? with | some vin => [Spec.serInput sc ht nIn nIn vin] | none => [])
          else tx.inputs.mapIdx (Spec.serInput sc ht nIn)).flatten := by
    apply hins
    by_cases ha : Spec.isACP ht = true
    · simp only [ha, ite_true, List.getElem?_eq_getElem hn]
      rw [drop_take_set _ _ _ hn]
      simp [Spec.serInput, encTxIn]
    · simp only [ha, Bool.false_eq_true, ite_false]
      exact inputs_blank_eq tx.inputs nIn tx.inputs[nIn] sc ht hn rfl
  have hO : encVarint (if Spec.isNone ht = true then []
          else if Spec.isSingle ht = true then blankOutputs tx.outputs nIn else tx.outputs).length
      ++ encMany encTxOut (if Spec.isNone ht = true then []
          else if Spec.isSingle ht = true then blankOutputs tx.outputs nIn else tx.outputs)
      = encVarint (if Spec.isNone ht = true then 0 else if Spec.isSingle ht = true then nIn + 1 else tx.outputs.length)
        ++ ((tx.outputs.take (if Spec.isNone ht = true then 0 else if Spec.isSingle ht = true then nIn + 1
              else tx.outputs.length)).mapIdx (Spec.serOutput ht nIn)).flatten := by
    apply houts
    · by_cases hnn : Spec.isNone ht = true
      · simp [hnn]
      · by_cases hss : Spec.isSingle ht = true
        · simp only [hnn, hss, Bool.false_eq_true, ite_false, ite_true]
          exact outputs_blank_eq tx.outputs nIn ht hss
        · simp only [hnn, hss, Bool.false_eq_true, ite_false]
          exact outputs_all_eq tx.outputs nIn ht (by simpa using hss)
    · by_cases hnn : Spec.isNone ht = true
      · simp [hnn]
      · by_cases hss : Spec.isSingle ht = true
        · have := hso hss
          simp [hnn, hss, blankOutputs]; omega
        · simp [hnn, hss]
  simp only [List.append_assoc] at hI hO ⊢
  exact congrArg (fun x => Outcome.ok (LegacyResult.preimage x)) (append_congr4 hI hO)

end BtcVerif.Model

namespace BtcVerif.Model
open BtcVerif
open BtcVerif.Gen.Guards

/-- serialising a transaction without witnesses never fails in the model -/
theorem encTx_mk_nowit (v : Nat) (ins : List TxIn) (outs : List TxOut) (lock : Nat) :
    encTx ⟨v, ins, outs, none, lock⟩ false =
      .ok (leBytes 4 v ++ [] ++ encVarint ins.length ++ encMany encTxIn ins ++ encVarint outs.length
        ++ encMany encTxOut outs ++ [] ++ leBytes 4 lock) := by
  unfold encTx
  simp [canSerialize, tx_Tx_serialize_1, tx_Tx_serialize_2]

/-- the shape of every result of the legacy function -/
theorem legacyPre_cases (tx : Tx) (nIn : Nat) (script : Bytes) (ht : Nat) :
    legacyPre tx nIn script ht = .ok .one ∨
    (stripOpCode script opCodeSeparator = .err ∧ legacyPre tx nIn script ht = .err) ∨
    (stripOpCode script opCodeSeparator = .panic ∧ legacyPre tx nIn script ht = .panic) ∨
    (tx.inputs[nIn]? = none ∧ legacyPre tx nIn script ht = .panic) ∨
    (∃ bs, legacyPre tx nIn script ht = .ok (.preimage bs)) := by
  unfold legacyPre
  simp only
  split
  · exact Or.inl rfl
  · cases hs : stripOpCode script opCodeSeparator with
    | err => exact Or.inr (Or.inl ⟨rfl, rfl⟩)
    | panic => exact Or.inr (Or.inr (Or.inl ⟨rfl, rfl⟩))
    | ok sc =>
      cases hv : tx.inputs[nIn]? with
      | none => exact Or.inr (Or.inr (Or.inr (Or.inl ⟨rfl, rfl⟩)))
      | some vin =>
        simp only [encTx_mk_nowit]
        exact Or.inr (Or.inr (Or.inr (Or.inr ⟨_, rfl⟩)))

/-- the legacy function refuses only when the script code cannot be stripped (parsed) -/
theorem legacyPre_err_only_unparseable (tx : Tx) (nIn : Nat) (script : Bytes) (ht : Nat)
    (h : legacyPre tx nIn script ht = .err) : stripOpCode script opCodeSeparator = .err := by
  rcases legacyPre_cases tx nIn script ht with h1 | ⟨h2, _⟩ | ⟨_, h3⟩ | ⟨_, h4⟩ | ⟨bs, h5⟩
  · rw [h1] at h; cases h
  · exact h2
  · rw [h3] at h; cases h
  · rw [h4] at h; cases h
  · rw [h5] at h; cases h

/-- with an in-range input index the legacy function panics only if stripping does -/
theorem legacyPre_panic_only_strip (tx : Tx) (nIn : Nat) (script : Bytes) (ht : Nat)
    (hn : nIn < tx.inputs.length) (h : legacyPre tx nIn script ht = .panic) :
    stripOpCode script opCodeSeparator = .panic := by
  rcases legacyPre_cases tx nIn script ht with h1 | ⟨_, h2⟩ | ⟨h3, _⟩ | ⟨h4, _⟩ | ⟨bs, h5⟩
  · rw [h1] at h; cases h
  · rw [h2] at h; cases h
  · exact h3
  · rw [List.getElem?_eq_getElem hn] at h4; cases h4
  · rw [h5] at h; cases h

/-- **C03 (BIP143)**: the ten-field preimage, for every 32-bit type and every amount -/
theorem bip143Pre_eq_spec (H : Bytes → Bytes) (tx : Tx) (nIn : Nat) (script : Bytes) (ht amount : Nat)
    (hn : nIn < tx.inputs.length) :
    bip143Pre H tx nIn script ht amount
      = .ok (Spec.bip143Preimage H tx tx.inputs[nIn] nIn script ht amount) := by
  unfold bip143Pre Spec.bip143Preimage
  simp only [wflag_none, wflag_single, wflag_acp, tx_Tx_SignatureHashForWitnessInput_0,
    tx_Tx_SignatureHashForWitnessInput_1, tx_Tx_SignatureHashForWitnessInput_2,
    tx_Tx_SignatureHashForWitnessInput_3, List.getElem?_eq_getElem hn, encMany, zero32]
  by_cases hS : Spec.isSingle ht = true
  · by_cases ho : nIn < tx.outputs.length
    · have ho' : (nIn : Int) < (tx.outputs.length : Int) := by omega
      simp [hS, ho, ho', List.getElem?_eq_getElem ho]
    · have ho' : ¬ (nIn : Int) < (tx.outputs.length : Int) := by omega
      have hnone : tx.outputs[nIn]? = none := by simp; omega
      simp [hS, ho', hnone]
  · have hS' : Spec.isSingle ht = false := by simpa using hS
    by_cases hN : Spec.isNone ht = true
    · simp [hS', hN]
    · have hN' : Spec.isNone ht = false := by simpa using hN
      simp [hS', hN']

end BtcVerif.Model
