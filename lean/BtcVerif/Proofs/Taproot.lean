/-
  Helper lemmas for C13 (taproot): key tweaks over an abstract group, agreement with the BIP341
  reference functions, leaf / branch / tree hashes, P2TR outputs, dead keys. SHA-256 is an
  ARBITRARY function `sha` throughout.
-/
import BtcVerif.Proofs.Bip32
import BtcVerif.Model.Taproot
import BtcVerif.Spec.Taproot

namespace BtcVerif.Proofs.Taproot
open BtcVerif BtcVerif.Outcome BtcVerif.Model BtcVerif.Model.Bip32 BtcVerif.Model.Taproot BtcVerif.Gen.Guards BtcVerif.Proofs.Bip32

variable {P : Type} {C : CurveOps P} {sha : Bytes → Bytes}

theorem taggedHash_two (tag : String) (a b : Bytes) :
    taggedHash sha tag [a, b] = taggedHash sha tag [a ++ b] := by
  simp [taggedHash]

theorem taggedHash_spec (tag : String) (m : Bytes) :
    taggedHash sha tag [m] = Spec.Taproot.taggedHash sha tag m := by
  simp [taggedHash, Spec.Taproot.taggedHash]

theorem tapTweak_two (a b : Bytes) : tapTweak sha [a, b] = tapTweak sha [a ++ b] := by
  unfold tapTweak; rw [taggedHash_two]

theorem tweak_commute (S : SecpGroup C) (E : PointCodec C) (X : XOnly C S) (sk h : Bytes)
    (hv : isValidScalar C.n (beNat sk) = true) :
    tweakPub C sha (C.xBytes (C.mulG (beNat sk))) h =
      (tweakPriv C sha sk h).map
        (fun sk' => (C.xBytes (C.mulG (beNat sk')), C.yOdd (C.mulG (beNat sk')))) := by
  have hne := S.mulG_valid_ne_zero hv
  have hv' := hv
  simp only [isValidScalar, Bool.and_eq_true, decide_eq_true_eq] at hv'
  have hmod : ∀ x, x % C.n < 2 ^ 256 := fun x => Nat.lt_of_lt_of_le (Nat.mod_lt _ S.n_pos) S.n_le
  unfold tweakPub tweakPriv
  simp only [taproot_TweakPublicKey_0, taproot_TweakPublicKey_1, taproot_TweakPrivateKey_0,
    taproot_TweakPrivateKey_1, taproot_TweakPrivateKey_2, E.xBytes_length, hv,
    X.parse_xBytes _ hne, tapTweak_two]
  by_cases ht : isValidScalar C.n (tapTweak sha [C.xBytes (C.mulG (beNat sk)) ++ h]) = true
  · by_cases hodd : C.yOdd (C.mulG (beNat sk)) = true
    · simp [ht, hodd, fill32, hmod, Outcome.map, beNat_beBytes32 (hmod _), S.mulG_mod, S.mulG_add,
        S.mulG_sub _ (Nat.le_of_lt hv'.2)]
    · simp [ht, hodd, fill32, hmod, Outcome.map, beNat_beBytes32 (hmod _), S.mulG_mod, S.mulG_add]
  · simp [ht, Outcome.map]

/-! ### agreement of the tweaks with the BIP341 reference functions -/

theorem isValidScalar_lt {n t : Nat} (h : isValidScalar n t = true) : 0 < t ∧ t < n := by
  simpa [isValidScalar] using h

theorem tapTweak_spec (pk h : Bytes) :
    tapTweak sha [pk, h] = beNat (Spec.Taproot.taggedHash sha "TapTweak" (pk ++ h)) := by
  simp [tapTweak, taggedHash_two, taggedHash_spec]

theorem tweakPub_ok_spec {pk h q : Bytes} {par : Bool} (hok : tweakPub C sha pk h = .ok (q, par)) :
    Spec.Taproot.taprootTweakPubkey C sha pk h = some (par, q) := by
  unfold tweakPub at hok
  unfold Spec.Taproot.taprootTweakPubkey
  simp only [taproot_TweakPublicKey_0, taproot_TweakPublicKey_1, tapTweak_spec] at hok
  by_cases hlen : pk.length = 32
  · cases hp : C.parse pk with
    | none => simp [hlen, hp] at hok
    | some pt =>
      by_cases ht : isValidScalar C.n (beNat (Spec.Taproot.taggedHash sha "TapTweak" (pk ++ h))) = true
      · have htl := (isValidScalar_lt ht).2
        simp [hlen, hp, ht] at hok
        simp [hlen, hp, Nat.not_le.mpr htl, hok.1, hok.2]
      · simp [hlen, hp, ht] at hok
  · have : ¬ ((pk.length : Int) = 32) := by omega
    simp [this] at hok

theorem tweakPub_of_spec {pk h q : Bytes} {par : Bool}
    (hs : Spec.Taproot.taprootTweakPubkey C sha pk h = some (par, q))
    (ht0 : tapTweak sha [pk, h] ≠ 0) : tweakPub C sha pk h = .ok (q, par) := by
  unfold Spec.Taproot.taprootTweakPubkey at hs
  unfold tweakPub
  rw [tapTweak_spec] at ht0
  simp only [taproot_TweakPublicKey_0, taproot_TweakPublicKey_1, tapTweak_spec]
  by_cases hlen : pk.length = 32
  · simp only [hlen, ne_eq, not_true_eq_false, if_false] at hs
    by_cases htn : beNat (Spec.Taproot.taggedHash sha "TapTweak" (pk ++ h)) ≥ C.n
    · simp [htn] at hs
    · cases hp : C.parse pk with
      | none => simp [htn, hp] at hs
      | some pt =>
        have hv : isValidScalar C.n (beNat (Spec.Taproot.taggedHash sha "TapTweak" (pk ++ h))) = true := by
          simp only [isValidScalar, Bool.and_eq_true, decide_eq_true_eq]
          omega
        simp [htn, hp] at hs
        simp [hlen, hp, hv, hs.1, hs.2]
  · simp [hlen] at hs

theorem tweakPriv_ok_spec {sk h out : Bytes} (hok : tweakPriv C sha sk h = .ok out) :
    Spec.Taproot.taprootTweakSeckey C sha sk h = some out := by
  unfold tweakPriv at hok
  unfold Spec.Taproot.taprootTweakSeckey
  simp only [taproot_TweakPrivateKey_0, taproot_TweakPrivateKey_1, taproot_TweakPrivateKey_2] at hok
  by_cases hv : isValidScalar C.n (beNat sk) = true
  · by_cases ht : isValidScalar C.n (tapTweak sha [C.xBytes (C.mulG (beNat sk)) ++ h]) = true
    · have htl := (isValidScalar_lt ht).2
      simp only [tapTweak, taggedHash_spec] at htl
      simp only [hv, ht, Bool.not_true, Bool.false_eq_true, if_false] at hok
      obtain ⟨hb, _⟩ := fill32_eq_ok hok
      simp only [Nat.not_le.mpr htl, if_false]
      rw [hb]
      simp only [tapTweak, taggedHash_spec]
      cases C.yOdd (C.mulG (beNat sk)) <;> simp
    · simp [hv, ht] at hok
  · simp [hv] at hok

theorem tweakPriv_of_spec (S : SecpGroup C) {sk h out : Bytes}
    (hv : isValidScalar C.n (beNat sk) = true)
    (hs : Spec.Taproot.taprootTweakSeckey C sha sk h = some out)
    (ht0 : tapTweak sha [C.xBytes (C.mulG (beNat sk)) ++ h] ≠ 0) :
    tweakPriv C sha sk h = .ok out := by
  have hmod : ∀ x, x % C.n < 2 ^ 256 := fun x => Nat.lt_of_lt_of_le (Nat.mod_lt _ S.n_pos) S.n_le
  unfold Spec.Taproot.taprootTweakSeckey at hs
  unfold tweakPriv
  simp only [taproot_TweakPrivateKey_0, taproot_TweakPrivateKey_1, taproot_TweakPrivateKey_2]
  have hteq : tapTweak sha [C.xBytes (C.mulG (beNat sk)) ++ h] =
      beNat (Spec.Taproot.taggedHash sha "TapTweak" (C.xBytes (C.mulG (beNat sk)) ++ h)) := by
    simp [tapTweak, taggedHash_spec]
  by_cases htn : beNat (Spec.Taproot.taggedHash sha "TapTweak" (C.xBytes (C.mulG (beNat sk)) ++ h)) ≥ C.n
  · simp [htn] at hs
  · have hvt : isValidScalar C.n (tapTweak sha [C.xBytes (C.mulG (beNat sk)) ++ h]) = true := by
      simp only [isValidScalar, Bool.and_eq_true, decide_eq_true_eq]
      rw [hteq] at ht0 ⊢
      omega
    simp only [htn, if_false, Option.some.injEq] at hs
    simp only [hv, hvt, Bool.not_true, Bool.false_eq_true, if_false, fill32, hmod, if_true]
    rw [← hs, hteq]
    cases C.yOdd (C.mulG (beNat sk)) <;> simp

/-! ### leaves and branches -/

theorem encVarint_eq_compactSize (n : Nat) : encVarint n = Spec.Taproot.compactSize n := by
  unfold encVarint Spec.Taproot.compactSize
  simp only [varint_VarInt_WriteTo_0, varint_VarInt_WriteTo_1, varint_VarInt_WriteTo_2,
    decide_eq_true_eq]
  by_cases h1 : n > 4294967295
  · have a : ¬ n < 0xfd := by omega
    have b : ¬ n ≤ 0xffff := by omega
    have c : ¬ n ≤ 0xffffffff := by omega
    simp [h1, a, b, c]
  · by_cases h2 : n > 65535
    · have a : ¬ n < 0xfd := by omega
      have b : ¬ n ≤ 0xffff := by omega
      have c : n ≤ 0xffffffff := by omega
      simp [h1, h2, a, b, c]
    · by_cases h3 : n > 252
      · have a : ¬ n < 0xfd := by omega
        have b : n ≤ 0xffff := by omega
        simp [h1, h2, h3, a, b]
      · have a : n < 0xfd := by omega
        simp [h1, h2, h3, a]

theorem leafHash_spec (v : UInt8) (s : Bytes) :
    leafHash sha v s = Spec.Taproot.leafHash sha v s := by
  unfold leafHash Spec.Taproot.leafHash leafPre
  rw [taggedHash_spec, encVarint_eq_compactSize]
  rfl

theorem u8_lt_asymm {a b : UInt8} (h : a < b) : ¬ b < a := by
  rw [UInt8.lt_iff_toNat_lt] at *; omega

theorem u8_eq_of_not_lt {a b : UInt8} (h1 : ¬ a < b) (h2 : ¬ b < a) : a = b := by
  rw [UInt8.lt_iff_toNat_lt] at *
  apply UInt8.toNat_inj.mp
  omega

/-- `bytes.Compare` is antisymmetric … -/
theorem cmpBytes_asymm : ∀ (a b : Bytes), cmpBytes a b = 1 → cmpBytes b a ≠ 1
  | [], [], h => by simp [cmpBytes] at h
  | [], _ :: _, h => by simp [cmpBytes] at h
  | _ :: _, [], _ => by simp [cmpBytes]
  | x :: xs, y :: ys, h => by
    unfold cmpBytes at h ⊢
    by_cases h1 : x < y
    · simp [h1] at h
    · by_cases h2 : y < x
      · simp [h2, u8_lt_asymm h2]
      · simp only [h1, h2, if_false] at h ⊢
        exact cmpBytes_asymm xs ys h

/-- … and total: neither greater means equal -/
theorem cmpBytes_eq_of_not_gt : ∀ (a b : Bytes), cmpBytes a b ≠ 1 → cmpBytes b a ≠ 1 → a = b
  | [], [], _, _ => rfl
  | [], _ :: _, _, h => by simp [cmpBytes] at h
  | _ :: _, [], h, _ => by simp [cmpBytes] at h
  | x :: xs, y :: ys, hab, hba => by
    unfold cmpBytes at hab hba
    by_cases h1 : x < y
    · simp [h1, u8_lt_asymm h1] at hba
    · by_cases h2 : y < x
      · simp [h1, h2] at hab
      · simp only [h1, h2, if_false] at hab hba
        rw [u8_eq_of_not_lt h1 h2, cmpBytes_eq_of_not_gt xs ys hab hba]

theorem bytesLt_iff_cmp : ∀ (a b : Bytes), Spec.Taproot.bytesLt b a = true ↔ cmpBytes a b = 1
  | [], [] => by simp [cmpBytes, Spec.Taproot.bytesLt]
  | [], _ :: _ => by simp [cmpBytes, Spec.Taproot.bytesLt]
  | _ :: _, [] => by simp [cmpBytes, Spec.Taproot.bytesLt]
  | x :: xs, y :: ys => by
    unfold cmpBytes Spec.Taproot.bytesLt
    by_cases h1 : x < y
    · simp [h1, u8_lt_asymm h1]
    · by_cases h2 : y < x
      · simp [h1, h2]
      · simp only [h1, h2, if_false]
        exact bytesLt_iff_cmp xs ys

theorem branchHash_comm (a b : Bytes) : branchHash sha a b = branchHash sha b a := by
  unfold branchHash
  simp only [script_MastBranch_Hash_1, decide_eq_true_eq]
  by_cases h1 : cmpBytes a b = 1
  · simp [h1, cmpBytes_asymm a b h1]
  · by_cases h2 : cmpBytes b a = 1
    · simp [h1, h2]
    · simp [h1, h2, cmpBytes_eq_of_not_gt a b h1 h2]

theorem branchHash_spec (a b : Bytes) :
    branchHash sha a b = Spec.Taproot.branchHash sha a b := by
  unfold branchHash Spec.Taproot.branchHash
  simp only [script_MastBranch_Hash_1, decide_eq_true_eq, bytesLt_iff_cmp, taggedHash_spec]

/-! ### trees -/

theorem treeHash_ne_err (t : Tree) : treeHash sha t ≠ .err := by
  induction t with
  | nil => simp [treeHash]
  | leaf v s => simp [treeHash]
  | hash h => simp [treeHash]
  | branch l r ihl ihr =>
    unfold treeHash
    split
    · simp
    · cases hl : treeHash sha l with
      | ok a =>
        cases hr : treeHash sha r with
        | ok b => simp
        | err => exact absurd hr ihr
        | panic => simp
      | err => exact absurd hl ihl
      | panic => simp

/-- `t'` is `t` with the two children of any number of branch nodes exchanged -/
inductive ChildSwap : Tree → Tree → Prop where
  | refl (t : Tree) : ChildSwap t t
  | swap {l r l' r' : Tree} : ChildSwap l l' → ChildSwap r r' → ChildSwap (.branch l r) (.branch r' l')
  | congr {l r l' r' : Tree} : ChildSwap l l' → ChildSwap r r' → ChildSwap (.branch l r) (.branch l' r')

theorem ChildSwap.isNil_eq {t t' : Tree} (h : ChildSwap t t') : t.isNil = t'.isNil := by
  cases h <;> rfl

theorem treeHash_swap {t t' : Tree} (h : ChildSwap t t') : treeHash sha t = treeHash sha t' := by
  induction h with
  | refl t => rfl
  | @swap l r l' r' hl hr ihl ihr =>
    have el := treeHash_ne_err (sha := sha) l'
    have er := treeHash_ne_err (sha := sha) r'
    have hg : script_MastBranch_Hash_0 l'.isNil r'.isNil = script_MastBranch_Hash_0 r'.isNil l'.isNil := by
      simp [script_MastBranch_Hash_0, Bool.or_comm]
    unfold treeHash
    rw [hl.isNil_eq, hr.isNil_eq, ihl, ihr, hg]
    cases script_MastBranch_Hash_0 r'.isNil l'.isNil
    · cases hA : treeHash sha l' <;> cases hB : treeHash sha r' <;>
        first
        | exact absurd hA el
        | exact absurd hB er
        | simp [branchHash_comm]
    · rfl
  | @congr l r l' r' hl hr ihl ihr =>
    unfold treeHash
    rw [hl.isNil_eq, hr.isNil_eq, ihl, ihr]

/-- the model's tree as a BIP341 script tree: `none` when a `nil` node occurs below the root -/
def toSpec : Tree → Option Spec.Taproot.STree
  | .nil => none
  | .leaf v s => some (.leaf v s)
  | .hash h => some (.opaque h)
  | .branch l r =>
    match toSpec l, toSpec r with
    | some a, some b => some (.branch a b)
    | _, _ => none

theorem toSpec_isNil {t : Tree} {st : Spec.Taproot.STree} (h : toSpec t = some st) : t.isNil = false := by
  cases t <;> simp_all [toSpec, Tree.isNil]

theorem treeHash_spec {t : Tree} {st : Spec.Taproot.STree} (h : toSpec t = some st) :
    treeHash sha t = .ok (Spec.Taproot.treeHash sha st) := by
  induction t generalizing st with
  | nil => simp [toSpec] at h
  | leaf v s =>
    simp only [toSpec, Option.some.injEq] at h; subst h
    simp [treeHash, Spec.Taproot.treeHash, leafHash_spec]
  | hash hh =>
    simp only [toSpec, Option.some.injEq] at h; subst h
    simp [treeHash, Spec.Taproot.treeHash]
  | branch l r ihl ihr =>
    unfold toSpec at h
    cases hl : toSpec l with
    | none => simp [hl] at h
    | some a =>
      cases hr : toSpec r with
      | none => simp [hl, hr] at h
      | some b =>
        simp only [hl, hr, Option.some.injEq] at h; subst h
        unfold treeHash
        simp [script_MastBranch_Hash_0, toSpec_isNil hl, toSpec_isNil hr, ihl hl, ihr hr,
          Spec.Taproot.treeHash, branchHash_spec]

/-! ### P2TR outputs -/

theorem pushData_32 {key : Bytes} (h : key.length = 32) : pushData key = .ok ((0x20 : UInt8) :: key) := by
  unfold pushData
  simp [script_PushData_0, h]

theorem tweakPub_key_length (E : PointCodec C) {pk h : Bytes} {r : Bytes × Bool}
    (hok : tweakPub C sha pk h = .ok r) : r.1.length = 32 := by
  unfold tweakPub at hok
  split at hok
  · cases hok
  · split at hok
    · cases hok
    · simp only [] at hok
      split at hok
      · cases hok
      · injection hok with hok; subst hok; exact E.xBytes_length _

/-- the commitment `MakeP2TR` passes to the tweak -/
def commitment (sha : Bytes → Bytes) (tree : Tree) : Outcome Bytes :=
  if tree.isNil then .ok [] else treeHash sha tree

theorem makeP2TR_eq (E : PointCodec C) (pk : Bytes) (tree : Tree) :
    makeP2TR C sha pk tree =
      (commitment sha tree >>= fun h => tweakPub C sha pk h >>= fun q =>
        (.ok ((0x51 : UInt8) :: (0x20 : UInt8) :: q.1) : Outcome Bytes)) := by
  have hop : UInt8.ofNat Gen.constants_OP_TRUE = 0x51 := by decide
  unfold makeP2TR commitment
  simp only [script_MakeP2TR_0, hop]
  cases hn : tree.isNil
  · simp only [Bool.not_false, if_true, Bool.false_eq_true, if_false]
    cases hh : treeHash sha tree with
    | ok h =>
      cases hq : tweakPub C sha pk h with
      | ok q => simp [hq, pushData_32 (tweakPub_key_length E hq)]
      | err => simp [hq]
      | panic => simp [hq]
    | err => simp
    | panic => simp
  · simp only [Bool.not_true, Bool.false_eq_true, if_false, if_true]
    cases hq : tweakPub C sha pk [] with
    | ok q => simp [hq, pushData_32 (tweakPub_key_length E hq)]
    | err => simp [hq]
    | panic => simp [hq]

theorem makeP2TR_swap (E : PointCodec C) (pk : Bytes) {t t' : Tree} (h : ChildSwap t t') :
    makeP2TR C sha pk t = makeP2TR C sha pk t' := by
  rw [makeP2TR_eq E, makeP2TR_eq E]
  unfold commitment
  rw [h.isNil_eq, treeHash_swap h]

theorem makeP2TR_form (E : PointCodec C) {pk out : Bytes} {tree : Tree}
    (hok : makeP2TR C sha pk tree = .ok out) :
    ∃ h key par, commitment sha tree = .ok h ∧ tweakPub C sha pk h = .ok (key, par) ∧
      key.length = 32 ∧ out = (0x51 : UInt8) :: (0x20 : UInt8) :: key := by
  rw [makeP2TR_eq E] at hok
  simp only [bind_eq_ok] at hok
  obtain ⟨h, hh, q, hq, ho⟩ := hok
  injection ho with ho
  exact ⟨h, q.1, q.2, hh, hq, tweakPub_key_length E hq, ho.symm⟩

/-- the model's `Hasher` argument as BIP341's `script_tree` (`None` for the nil interface) -/
def treeToSpec (t : Tree) : Option (Option Spec.Taproot.STree) :=
  if t.isNil then some none else (toSpec t).map some

theorem makeP2TR_spec (E : PointCodec C) {pk out : Bytes} {tree : Tree}
    {st : Option Spec.Taproot.STree} (hst : treeToSpec tree = some st)
    (hok : makeP2TR C sha pk tree = .ok out) :
    Spec.Taproot.taprootOutputScript C sha pk st = some out := by
  obtain ⟨h, key, par, hc, ht, _, rfl⟩ := makeP2TR_form E hok
  have hs := tweakPub_ok_spec ht
  unfold Spec.Taproot.taprootOutputScript
  unfold treeToSpec at hst
  unfold commitment at hc
  cases hn : tree.isNil
  · simp only [hn, Bool.false_eq_true, if_false] at hst hc
    cases hts : toSpec tree with
    | none => simp [hts] at hst
    | some s =>
      simp only [hts, Option.map_some, Option.some.injEq] at hst
      subst hst
      rw [treeHash_spec hts] at hc
      injection hc with hc
      simp only [hc, hs]
  · simp only [hn, if_true, Option.some.injEq] at hst hc
    subst hst
    injection hc with hc
    subst hc
    simp only [hs]

/-! ### dead keys -/

theorem verifyDead_iff (H : P) (key proof : Bytes) :
    verifyDead C H key proof = .ok () ↔
      (isValidScalar C.n (beNat proof) = true ∧ buildDead C H proof = .ok key) := by
  unfold verifyDead
  simp only [taproot_VerifyDeadKey_0, taproot_VerifyDeadKey_1]
  by_cases hv : isValidScalar C.n (beNat proof) = true
  · cases hb : buildDead C H proof with
    | ok dead =>
      by_cases hk : key = dead
      · simp [hv, hk]
      · have : ¬ dead = key := fun h => hk h.symm
        simp [hv, hk, this]
    | err => simp [hv]
    | panic => simp [hv]
  · simp [hv]

theorem buildDead_ok (S : SecpGroup C) (H : P) (proof : Bytes)
    (hv : isValidScalar C.n (beNat proof) = true) :
    buildDead C H proof = .ok (C.xBytes (C.add H (C.mulG (beNat proof)))) := by
  have hlt : beNat proof < 2 ^ 256 := Nat.lt_of_lt_of_le (isValidScalar_lt hv).2 S.n_le
  unfold buildDead scalarBaseMult
  simp [hlt]

end BtcVerif.Proofs.Taproot
