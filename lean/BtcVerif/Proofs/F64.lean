/-
  C15 — facts about the exact binary64 model `Prim/F64.lean`, over ℚ:
  `rne` is within 1/2 of the quotient, `roundPos p n d` is within a relative error `2^-p` of `n/d`
  with a `p`-bit mantissa; integers below 2^53 convert exactly.
-/
import Mathlib.Tactic.Linarith
import Mathlib.Tactic.Ring
import Mathlib.Tactic.FieldSimp
import Mathlib.Tactic.NormNum
import Mathlib.Tactic.Positivity
import Mathlib.Algebra.Order.Field.Power
import Mathlib.Data.Rat.Cast.Order
import BtcVerif.Prim.F64

namespace BtcVerif.Proofs.F64
open BtcVerif.Prim

/-- round-half-even stays within 1/2 of the exact quotient -/
theorem rne_err (N D : Nat) (hD : 0 < D) : |((rne N D : ℕ) : ℚ) - (N : ℚ) / D| ≤ 1 / 2 := by
  have hDq : (0 : ℚ) < D := by exact_mod_cast hD
  have hN : (N : ℚ) = D * (N / D : ℕ) + (N % D : ℕ) := by exact_mod_cast (Nat.div_add_mod N D).symm
  have hr : ((N % D : ℕ) : ℚ) < D := by exact_mod_cast Nat.mod_lt N hD
  have hr0 : (0 : ℚ) ≤ ((N % D : ℕ) : ℚ) := by positivity
  have hND : (N : ℚ) / D = (N / D : ℕ) + ((N % D : ℕ) : ℚ) / D := by
    rw [hN]; field_simp
  have hfrac0 : (0 : ℚ) ≤ ((N % D : ℕ) : ℚ) / D := by positivity
  unfold rne
  simp only
  rw [hND, abs_le]
  split
  · rename_i h
    have h' : 2 * ((N % D : ℕ) : ℚ) < D := by exact_mod_cast h
    have : ((N % D : ℕ) : ℚ) / D < 1 / 2 := by rw [div_lt_iff₀ hDq]; linarith
    constructor <;> linarith
  · split
    · rename_i h1 h
      have h' : (D : ℚ) < 2 * ((N % D : ℕ) : ℚ) := by exact_mod_cast h
      have h3 : 1 / 2 < ((N % D : ℕ) : ℚ) / D := by rw [lt_div_iff₀ hDq]; linarith
      have h4 : ((N % D : ℕ) : ℚ) / D < 1 := by rw [div_lt_iff₀ hDq]; linarith
      push_cast
      constructor <;> linarith
    · rename_i h1 h2
      have heq : 2 * (N % D) = D := by omega
      have h' : 2 * ((N % D : ℕ) : ℚ) = D := by exact_mod_cast heq
      have h3 : ((N % D : ℕ) : ℚ) / D = 1 / 2 := by rw [div_eq_iff (ne_of_gt hDq)]; linarith
      rw [h3]
      rcases Nat.mod_two_eq_zero_or_one (N / D) with h0 | h0 <;> rw [h0] <;> push_cast <;>
        constructor <;> linarith

/-- `scalePair n d e` is the fraction `(n/d) · 2^(-e)` -/
theorem scalePair_rat (n d : Nat) (e : Int) (hd : 0 < d) :
    0 < (scalePair n d e).2 ∧
    ((scalePair n d e).1 : ℚ) / ((scalePair n d e).2 : ℚ) = (n : ℚ) / d * (2 : ℚ) ^ (-e) := by
  have hdq : (d : ℚ) ≠ 0 := by exact_mod_cast (Nat.pos_iff_ne_zero.mp hd)
  unfold scalePair
  split
  · rename_i h
    refine ⟨by positivity, ?_⟩
    obtain ⟨k, hk⟩ : ∃ k : ℕ, e = k := ⟨e.toNat, (Int.toNat_of_nonneg h).symm⟩
    subst hk
    simp only [Int.toNat_natCast]
    push_cast
    rw [zpow_neg, zpow_natCast]
    field_simp
  · rename_i h
    refine ⟨hd, ?_⟩
    obtain ⟨k, hk⟩ : ∃ k : ℕ, -e = k := ⟨(-e).toNat, (Int.toNat_of_nonneg (by omega)).symm⟩
    rw [hk]
    simp only [Int.toNat_natCast]
    push_cast
    rw [zpow_natCast]
    ring


/-- Nat division is the floor of the rational quotient -/
theorem natdiv_bounds (N D : Nat) (hD : 0 < D) :
    ((N / D : ℕ) : ℚ) ≤ (N : ℚ) / D ∧ (N : ℚ) / D < ((N / D : ℕ) : ℚ) + 1 := by
  have hDq : (0 : ℚ) < D := by exact_mod_cast hD
  have hN : (N : ℚ) = D * (N / D : ℕ) + (N % D : ℕ) := by exact_mod_cast (Nat.div_add_mod N D).symm
  have hr : ((N % D : ℕ) : ℚ) < D := by exact_mod_cast Nat.mod_lt N hD
  have hr0 : (0 : ℚ) ≤ ((N % D : ℕ) : ℚ) := by positivity
  constructor
  · rw [le_div_iff₀ hDq]; nlinarith
  · rw [div_lt_iff₀ hDq]; nlinarith

theorem log2_bounds (n : Nat) (hn : 0 < n) :
    ((2 : ℚ) ^ n.log2 ≤ n) ∧ ((n : ℚ) < 2 * (2 : ℚ) ^ n.log2) := by
  have h1 := Nat.log2_self_le (Nat.pos_iff_ne_zero.mp hn)
  have h2 := @Nat.lt_log2_self n
  constructor
  · exact_mod_cast h1
  · have : (n : ℚ) < (2 : ℚ) ^ (n.log2 + 1) := by exact_mod_cast h2
    rw [pow_succ] at this; linarith

/-- value of a mantissa/exponent pair -/
def val (x : Nat × Int) : ℚ := (x.1 : ℚ) * (2 : ℚ) ^ x.2

/-- `roundPos p n d`: a `p`-bit mantissa, within the relative error `2^-p` of `n/d`; the exponent is
    `log2 n - log2 d - p` or one more, and the value is the half-even rounding of the scaled quotient -/
theorem roundPos_full (p n d : Nat) (hp : 1 ≤ p) (hn : 0 < n) (hd : 0 < d) :
    2 ^ (p - 1) ≤ (roundPos p n d).1 ∧ (roundPos p n d).1 < 2 ^ p ∧
    |val (roundPos p n d) - (n : ℚ) / d| ≤ (n : ℚ) / d / 2 ^ p ∧
    ∃ e : ℤ, (e = (n.log2 : ℤ) - (d.log2 : ℤ) - (p : ℤ) ∨ e = (n.log2 : ℤ) - (d.log2 : ℤ) - (p : ℤ) + 1) ∧
      val (roundPos p n d) = (rne (scalePair n d e).1 (scalePair n d e).2 : ℕ) * (2 : ℚ) ^ e := by
  have hnq : (0 : ℚ) < n := by exact_mod_cast hn
  have hdq : (0 : ℚ) < d := by exact_mod_cast hd
  have hq : (0 : ℚ) < (n : ℚ) / d := by positivity
  obtain ⟨hA1, hA2⟩ := log2_bounds n hn
  obtain ⟨hB1, hB2⟩ := log2_bounds d hd
  have hA : (0 : ℚ) < (2 : ℚ) ^ n.log2 := by positivity
  have hB : (0 : ℚ) < (2 : ℚ) ^ d.log2 := by positivity
  have hP : (0 : ℚ) < (2 : ℚ) ^ p := by positivity
  -- the first guess of the exponent
  let e0 : Int := (Nat.log2 n : Int) - (Nat.log2 d : Int) - (p : Int)
  have hz : (2 : ℚ) ^ (-e0) = (2 : ℚ) ^ p * (2 : ℚ) ^ d.log2 / (2 : ℚ) ^ n.log2 := by
    have : -e0 = (p : ℤ) + (d.log2 : ℤ) - (n.log2 : ℤ) := by simp only [e0]; ring
    rw [this, zpow_sub₀ (by norm_num), zpow_add₀ (by norm_num), zpow_natCast, zpow_natCast, zpow_natCast]
  -- scaled quotient with the first guess
  have hx0lo : (2 : ℚ) ^ p / 2 < (n : ℚ) / d * (2 : ℚ) ^ (-e0) := by
    rw [hz, div_mul_div_comm, lt_div_iff₀ (by positivity)]
    have h1 : (d : ℚ) * (2 : ℚ) ^ n.log2 < 2 * n * (2 : ℚ) ^ d.log2 := by nlinarith
    nlinarith [mul_lt_mul_of_pos_left h1 (half_pos hP)]
  have hx0hi : (n : ℚ) / d * (2 : ℚ) ^ (-e0) < 2 * (2 : ℚ) ^ p := by
    rw [hz, div_mul_div_comm, div_lt_iff₀ (by positivity)]
    have h1 : (n : ℚ) * (2 : ℚ) ^ d.log2 < 2 * d * (2 : ℚ) ^ n.log2 := by nlinarith
    nlinarith [mul_lt_mul_of_pos_left h1 hP]
  obtain ⟨hs0pos, hs0⟩ := scalePair_rat n d e0 hd
  obtain ⟨hf1, hf2⟩ := natdiv_bounds (scalePair n d e0).1 (scalePair n d e0).2 hs0pos
  rw [hs0] at hf1 hf2
  -- the exponent actually used
  let e : Int := if 2 ^ p ≤ (scalePair n d e0).1 / (scalePair n d e0).2 then e0 + 1 else e0
  have hx : (2 : ℚ) ^ p / 2 ≤ (n : ℚ) / d * (2 : ℚ) ^ (-e) ∧ (n : ℚ) / d * (2 : ℚ) ^ (-e) < (2 : ℚ) ^ p := by
    by_cases hc : 2 ^ p ≤ (scalePair n d e0).1 / (scalePair n d e0).2
    · have he : e = e0 + 1 := by simp only [e, hc, if_true]
      have hcq : (2 : ℚ) ^ p ≤ (((scalePair n d e0).1 / (scalePair n d e0).2 : ℕ) : ℚ) := by exact_mod_cast hc
      have : (2 : ℚ) ^ (-(e0 + 1)) = (2 : ℚ) ^ (-e0) / 2 := by
        rw [show -(e0 + 1) = -e0 - 1 by ring, zpow_sub₀ (by norm_num), zpow_one]
      rw [he, this]
      constructor <;> nlinarith
    · have he : e = e0 := by simp only [e, hc, if_false]
      have hcn : (scalePair n d e0).1 / (scalePair n d e0).2 + 1 ≤ 2 ^ p := by omega
      have hcq : (((scalePair n d e0).1 / (scalePair n d e0).2 : ℕ) : ℚ) + 1 ≤ (2 : ℚ) ^ p := by exact_mod_cast hcn
      rw [he]
      constructor <;> linarith
  obtain ⟨hspos, hs⟩ := scalePair_rat n d e hd
  have herr := rne_err (scalePair n d e).1 (scalePair n d e).2 hspos
  rw [hs] at herr
  obtain ⟨herr1, herr2⟩ := abs_le.mp herr
  -- the mantissa before the carry
  have hpow : (2 : ℕ) ^ p = 2 * 2 ^ (p - 1) := by
    obtain ⟨k, rfl⟩ : ∃ k, p = k + 1 := ⟨p - 1, by omega⟩
    simp [pow_succ, Nat.mul_comm]
  have hpowq : (2 : ℚ) ^ p = 2 * (2 : ℚ) ^ (p - 1) := by exact_mod_cast hpow
  have hRlo : 2 ^ (p - 1) ≤ rne (scalePair n d e).1 (scalePair n d e).2 := by
    have : (2 : ℚ) * (2 : ℚ) ^ (p - 1) < 2 * (rne (scalePair n d e).1 (scalePair n d e).2 : ℕ) + 2 := by
      linarith [hx.1]
    have hnat : 2 * 2 ^ (p - 1) < 2 * rne (scalePair n d e).1 (scalePair n d e).2 + 2 := by exact_mod_cast this
    omega
  have hRhi : rne (scalePair n d e).1 (scalePair n d e).2 ≤ 2 ^ p := by
    have : 2 * ((rne (scalePair n d e).1 (scalePair n d e).2 : ℕ) : ℚ) < 2 * (2 : ℚ) ^ p + 1 := by
      linarith [hx.2]
    have hnat : 2 * rne (scalePair n d e).1 (scalePair n d e).2 < 2 * 2 ^ p + 1 := by exact_mod_cast this
    omega
  -- value of the result = R · 2^e whether or not the carry happened
  have hval : val (roundPos p n d) = (rne (scalePair n d e).1 (scalePair n d e).2 : ℕ) * (2 : ℚ) ^ e := by
    show val (if rne (scalePair n d e).1 (scalePair n d e).2 = 2 ^ p then (2 ^ (p - 1), e + 1)
      else (rne (scalePair n d e).1 (scalePair n d e).2, e)) = _
    split
    · rename_i hc
      rw [hc]
      simp only [val]
      push_cast
      rw [zpow_add₀ (by norm_num), zpow_one, hpowq]; ring
    · rfl
  have hm : (roundPos p n d).1 = (if rne (scalePair n d e).1 (scalePair n d e).2 = 2 ^ p then 2 ^ (p - 1)
      else rne (scalePair n d e).1 (scalePair n d e).2) := by
    show (if rne (scalePair n d e).1 (scalePair n d e).2 = 2 ^ p then (2 ^ (p - 1), e + 1)
      else (rne (scalePair n d e).1 (scalePair n d e).2, e)).1 = _
    split <;> rfl
  refine ⟨?_, ?_, ?_, ⟨e, ?_, hval⟩⟩
  rotate_left 3
  · by_cases hc : 2 ^ p ≤ (scalePair n d e0).1 / (scalePair n d e0).2
    · right; simp only [e, hc, if_true, e0]
    · left; simp only [e, hc, if_false, e0]
  · rw [hm]; split <;> omega
  · rw [hm]; split
    · rw [hpow]; have : 0 < 2 ^ (p - 1) := Nat.two_pow_pos _; omega
    · omega
  · rw [hval]
    have he2 : (0 : ℚ) < (2 : ℚ) ^ e := by positivity
    have hqe : (n : ℚ) / d = ((n : ℚ) / d * (2 : ℚ) ^ (-e)) * (2 : ℚ) ^ e := by
      rw [mul_assoc, ← zpow_add₀ (by norm_num)]; simp
    set x := (n : ℚ) / d * (2 : ℚ) ^ (-e) with hxdef
    set R : ℚ := ((rne (scalePair n d e).1 (scalePair n d e).2 : ℕ) : ℚ) with hRdef
    rw [hqe, ← sub_mul, abs_mul, abs_of_pos he2, mul_div_right_comm]
    apply mul_le_mul_of_nonneg_right _ (le_of_lt he2)
    rw [le_div_iff₀ hP]
    calc |R - x| * 2 ^ p ≤ 1 / 2 * 2 ^ p := by
          apply mul_le_mul_of_nonneg_right herr (le_of_lt hP)
      _ ≤ x := by linarith [hx.1]


theorem roundPos_spec (p n d : Nat) (hp : 1 ≤ p) (hn : 0 < n) (hd : 0 < d) :
    2 ^ (p - 1) ≤ (roundPos p n d).1 ∧ (roundPos p n d).1 < 2 ^ p ∧
    |val (roundPos p n d) - (n : ℚ) / d| ≤ (n : ℚ) / d / 2 ^ p :=
  ⟨(roundPos_full p n d hp hn hd).1, (roundPos_full p n d hp hn hd).2.1, (roundPos_full p n d hp hn hd).2.2.1⟩


/-- the exponent of a `p`-bit approximation of `q` is pinned down by the binade of `q` -/
theorem exp_bounds {p m : Nat} {e K K' : ℤ} {q : ℚ} (hp : 1 ≤ p) (hm1 : 2 ^ (p - 1) ≤ m) (hm2 : m < 2 ^ p)
    (herr : |(m : ℚ) * (2 : ℚ) ^ e - q| ≤ q / 2 ^ p) (hlo : (2 : ℚ) ^ K' ≤ q) (hhi : q < (2 : ℚ) ^ K) :
    K' - p ≤ e ∧ e ≤ K + 1 - p := by
  have hq : (0 : ℚ) < q := lt_of_lt_of_le (by positivity) hlo
  have h2p : (2 : ℚ) ≤ (2 : ℚ) ^ p := by
    calc (2 : ℚ) = 2 ^ 1 := by norm_num
      _ ≤ 2 ^ p := pow_le_pow_right₀ (by norm_num) hp
  have hdiv : q / 2 ^ p ≤ q / 2 := div_le_div_of_nonneg_left (le_of_lt hq) (by norm_num) h2p
  obtain ⟨h1, h2⟩ := abs_le.mp herr
  have he : (0 : ℚ) < (2 : ℚ) ^ e := by positivity
  have hpc : (((p - 1 : ℕ) : ℕ) : ℤ) = (p : ℤ) - 1 := by omega
  constructor
  · -- 2^p · 2^e > m · 2^e ≥ q/2 ≥ 2^(K'-1)
    have hA : (m : ℚ) * (2 : ℚ) ^ e < (2 : ℚ) ^ ((p : ℤ) + e) := by
      rw [zpow_add₀ (by norm_num), zpow_natCast]
      exact mul_lt_mul_of_pos_right (by exact_mod_cast hm2) he
    have hB : (2 : ℚ) ^ (K' - 1) ≤ q / 2 := by
      rw [zpow_sub₀ (by norm_num), zpow_one]; linarith
    have : (2 : ℚ) ^ (K' - 1) < (2 : ℚ) ^ ((p : ℤ) + e) := by linarith
    have := (zpow_lt_zpow_iff_right₀ (by norm_num : (1 : ℚ) < 2)).mp this
    omega
  · have hA : (2 : ℚ) ^ ((p : ℤ) - 1 + e) ≤ (m : ℚ) * (2 : ℚ) ^ e := by
      rw [← hpc, zpow_add₀ (by norm_num), zpow_natCast]
      exact mul_le_mul_of_nonneg_right (by exact_mod_cast hm1) (le_of_lt he)
    have hB : 2 * q < (2 : ℚ) ^ (K + 1) := by
      rw [zpow_add₀ (by norm_num), zpow_one]; linarith
    have : (2 : ℚ) ^ ((p : ℤ) - 1 + e) < (2 : ℚ) ^ (K + 1) := by linarith
    have := (zpow_lt_zpow_iff_right₀ (by norm_num : (1 : ℚ) < 2)).mp this
    omega

/-- inside the normal range `ofRat` is `roundPos 53` -/
theorem ofRat_normal (neg : Bool) (n d : Nat) (hn : 0 < n)
    (h1 : -1074 ≤ (roundPos 53 n d).2) (h2 : (roundPos 53 n d).2 ≤ 971) :
    F64.ofRat neg n d = .fin neg (roundPos 53 n d).1 (roundPos 53 n d).2 := by
  unfold F64.ofRat
  have : ¬ n = 0 := by omega
  have h3 : ¬ (roundPos 53 n d).2 < -1074 := by omega
  have h4 : ¬ 971 < (roundPos 53 n d).2 := by omega
  simp [this, h3, h4]

theorem rne_one (N : Nat) : rne N 1 = N := by
  unfold rne; simp [Nat.mod_one]

/-- `float64(v)` is exact for `0 < v < 2^53`, and converts back -/
theorem ofNat_exact (v : Nat) (hv0 : 0 < v) (hv : v < 2 ^ 53) :
    ∃ m e, F64.ofRat false v 1 = .fin false m e ∧ (m : ℚ) * (2 : ℚ) ^ e = v ∧ e ≤ 0 ∧ -1074 ≤ e := by
  obtain ⟨hm1, hm2, herr, e, he, hval⟩ := roundPos_full 53 v 1 (by norm_num) hv0 (by norm_num)
  have hl1 : Nat.log2 1 = 0 := by decide
  have hlv : v.log2 < 53 := (Nat.log2_lt (by omega)).mpr hv
  have he0 : e ≤ 0 := by rcases he with he | he <;> rw [he, hl1] <;> push_cast <;> omega
  have hem : -54 ≤ e := by rcases he with he | he <;> rw [he, hl1] <;> push_cast <;> omega
  -- the scaled pair has denominator 1
  have hsc : scalePair v 1 e = (v * 2 ^ (-e).toNat, 1) := by
    unfold scalePair
    by_cases h0 : 0 ≤ e
    · have : e = 0 := by omega
      subst this; simp
    · simp [h0]
  rw [hsc, rne_one] at hval
  have hvq : val (roundPos 53 v 1) = v := by
    rw [hval]
    obtain ⟨k, hk⟩ : ∃ k : ℕ, -e = k := ⟨(-e).toNat, (Int.toNat_of_nonneg (by omega)).symm⟩
    rw [hk, Int.toNat_natCast, show e = -(k : ℤ) by omega, zpow_neg, zpow_natCast]
    push_cast
    field_simp
  -- exponent of the result: the mantissa is at least 2^52 and the value below 2^53
  have hres : (roundPos 53 v 1).2 ≤ 0 ∧ -54 ≤ (roundPos 53 v 1).2 := by
    have hb := exp_bounds (p := 53) (m := (roundPos 53 v 1).1) (e := (roundPos 53 v 1).2) (K := 53) (K' := 0)
      (q := (v : ℚ)) (by norm_num) hm1 hm2 (by simpa [val] using herr)
      (by simpa using (by exact_mod_cast hv0 : (1 : ℚ) ≤ v)) (by exact_mod_cast hv)
    refine ⟨?_, by omega⟩
    have he2 : (0 : ℚ) < (2 : ℚ) ^ (roundPos 53 v 1).2 := by positivity
    have hA : (2 : ℚ) ^ ((52 : ℤ) + (roundPos 53 v 1).2) ≤ (v : ℚ) := by
      rw [← hvq, zpow_add₀ (by norm_num)]
      exact mul_le_mul_of_nonneg_right (by exact_mod_cast hm1) (le_of_lt he2)
    have hB : (v : ℚ) < (2 : ℚ) ^ (53 : ℤ) := by exact_mod_cast hv
    have := (zpow_lt_zpow_iff_right₀ (by norm_num : (1 : ℚ) < 2)).mp (lt_of_le_of_lt hA hB)
    omega
  refine ⟨(roundPos 53 v 1).1, (roundPos 53 v 1).2, ?_, hvq, hres.1, by omega⟩
  exact ofRat_normal false v 1 hv0 (by omega) (by omega)

theorem toUInt64_of_exact {m : Nat} {e : ℤ} {v : Nat} (hval : (m : ℚ) * (2 : ℚ) ^ e = v) (he : e ≤ 0)
    (hv0 : 0 < v) (hv : v < 2 ^ 64) : F64.toUInt64 (.fin false m e) = some v := by
  obtain ⟨k, hk⟩ : ∃ k : ℕ, -e = k := ⟨(-e).toNat, (Int.toNat_of_nonneg (by omega)).symm⟩
  have hmk : m = v * 2 ^ k := by
    have : (m : ℚ) = v * (2 : ℚ) ^ k := by
      rw [show e = -(k : ℤ) by omega, zpow_neg, zpow_natCast] at hval
      field_simp at hval
      linarith
    exact_mod_cast this
  have hv' : v < 18446744073709551616 := by simpa using hv
  unfold F64.toUInt64
  by_cases h0 : 0 ≤ e
  · have hk0 : k = 0 := by omega
    subst hk0
    have : e = 0 := by omega
    subst this
    simp at hmk
    subst hmk
    have : ¬ m = 0 := by omega
    simp [this, hv']
  · have : m / 2 ^ (-e).toNat = v := by
      rw [hk, Int.toNat_natCast, hmk]
      exact Nat.mul_div_cancel _ (Nat.two_pow_pos k)
    simp only [h0, if_false, this]
    have : ¬ v = 0 := by omega
    simp [this, hv']

end BtcVerif.Proofs.F64
