/-
  C15 — satoshi ↔ BTC conversion is lossless over the exact rounding model:
  `bitcoinsToSats (satsToBitcoins s) = s` for every `s ≤ 21·10^14`.

  `SatsToBitcoins` rounds `s/10^8` to 64 bits (big.Float) and then to 53 (Float64());
  `BitcoinsToSats` multiplies by 10^8 (one more rounding to 53 bits) and rounds to the nearest
  integer. Three relative errors of at most 2^-64, 2^-53, 2^-53 on a value below 0.94·2^51 stay
  below 1/2 in total, so `math.Round` lands on `s` again.
-/
import BtcVerif.Proofs.F64
import BtcVerif.Model.Fee

namespace BtcVerif.Proofs.F64Sats
open BtcVerif BtcVerif.Prim BtcVerif.Model.Fee BtcVerif.Proofs.F64

theorem ofNat_1e8 : F64.ofNat 100000000 = .fin false 6710886400000000 (-26) := by decide

theorem div_pow_eq (m : ℕ) (e : ℤ) (he : e ≤ 0) :
    (m : ℚ) / ((2 ^ (-e).toNat : ℕ) : ℚ) = (m : ℚ) * (2 : ℚ) ^ e := by
  obtain ⟨k, hk⟩ : ∃ k : ℕ, -e = k := ⟨(-e).toNat, (Int.toNat_of_nonneg (by omega)).symm⟩
  rw [hk, Int.toNat_natCast, show e = -(k : ℤ) by omega, zpow_neg, zpow_natCast]
  push_cast
  rw [div_eq_mul_inv]

/-- `math.Round` on a value within 1/2 of the integer `s` -/
theorem round_half (m k s : ℕ) (hk : 1 ≤ k) (h : |(m : ℚ) / (2 : ℚ) ^ k - s| < 1 / 2) :
    (m + 2 ^ (k - 1)) / 2 ^ k = s := by
  obtain ⟨j, rfl⟩ : ∃ j, k = j + 1 := ⟨k - 1, by omega⟩
  simp only [Nat.add_sub_cancel]
  have hT : (0 : ℚ) < (2 : ℚ) ^ j := by positivity
  obtain ⟨h1, h2⟩ := abs_lt.mp h
  have hpow : (2 : ℚ) ^ (j + 1) = 2 * (2 : ℚ) ^ j := by rw [pow_succ]; ring
  rw [hpow] at h1 h2
  have h1' : (s : ℚ) - 1 / 2 < (m : ℚ) / (2 * (2 : ℚ) ^ j) := by linarith
  have h2' : (m : ℚ) / (2 * (2 : ℚ) ^ j) < (s : ℚ) + 1 / 2 := by linarith
  rw [lt_div_iff₀ (by positivity)] at h1'
  rw [div_lt_iff₀ (by positivity)] at h2'
  have hlo : s * 2 ^ (j + 1) ≤ m + 2 ^ j := by
    have : ((s * 2 ^ (j + 1) : ℕ) : ℚ) ≤ ((m + 2 ^ j : ℕ) : ℚ) := by
      push_cast; rw [hpow]; nlinarith
    exact_mod_cast this
  have hhi : m + 2 ^ j < (s + 1) * 2 ^ (j + 1) := by
    have : ((m + 2 ^ j : ℕ) : ℚ) < (((s + 1) * 2 ^ (j + 1) : ℕ) : ℚ) := by
      push_cast; rw [hpow]; nlinarith
    exact_mod_cast this
  exact Nat.div_eq_of_lt_le hlo hhi


/-- `BitcoinsToSats` of a double `x2 = m2·2^e2` whose product with 10^8, rounded once more, stays
    within 1/2 of the integer `s`: the result is `s` -/
theorem bitcoinsToSats_of_near (m2 : ℕ) (e2 : ℤ) (s : ℕ) (hs0 : 0 < s) (hs : s < 2 ^ 53)
    (hm0 : 0 < m2) (he2 : e2 ≤ 26)
    (hylo : (1 : ℚ) / 4 ≤ 100000000 * ((m2 : ℚ) * (2 : ℚ) ^ e2))
    (hyhi : 100000000 * ((m2 : ℚ) * (2 : ℚ) ^ e2) < (2 : ℚ) ^ (51 : ℤ))
    (hclose : ∀ y3 : ℚ, |y3 - 100000000 * ((m2 : ℚ) * (2 : ℚ) ^ e2)| ≤
        100000000 * ((m2 : ℚ) * (2 : ℚ) ^ e2) / 2 ^ 53 → |y3 - s| < 1 / 2) :
    bitcoinsToSats (.fin false m2 e2) = some s := by
  unfold bitcoinsToSats
  have hspb : satoshisPerBitcoin = 100000000 := rfl
  rw [hspb, ofNat_1e8]
  -- the product
  have hmul : F64.mul (.fin false m2 e2) (.fin false 6710886400000000 (-26)) =
      F64.ofRat false (m2 * 6710886400000000) (2 ^ (-(e2 + -26)).toNat) := by
    have : ¬ (0 ≤ e2 + -26) ∨ e2 = 26 := by omega
    rcases this with h | h
    · simp [F64.mul, F64.ofScaled, h]
    · subst h; simp [F64.mul, F64.ofScaled]
  rw [hmul]
  set n3 := m2 * 6710886400000000 with hn3
  set k3 := (-(e2 + -26)).toNat with hk3
  have hn3pos : 0 < n3 := by positivity
  obtain ⟨hm3a, hm3b, herr3⟩ := roundPos_spec 53 n3 (2 ^ k3) (by norm_num) hn3pos (Nat.two_pow_pos _)
  -- the exact product as a rational
  have hq3 : (n3 : ℚ) / ((2 ^ k3 : ℕ) : ℚ) = 100000000 * ((m2 : ℚ) * (2 : ℚ) ^ e2) := by
    rw [hk3, div_pow_eq n3 (e2 + -26) (by omega), hn3, zpow_add₀ (by norm_num)]
    push_cast
    rw [show (2 : ℚ) ^ (-26 : ℤ) = 1 / 67108864 by norm_num]
    ring
  rw [hq3] at herr3
  set y := 100000000 * ((m2 : ℚ) * (2 : ℚ) ^ e2) with hy
  obtain ⟨hb1, hb2⟩ := exp_bounds (p := 53) (K := 51) (K' := -2) (by norm_num) hm3a hm3b
    (by simpa [val] using herr3) (by rw [show (2 : ℚ) ^ (-2 : ℤ) = 1 / 4 by norm_num]; exact hylo) hyhi
  rw [ofRat_normal false n3 (2 ^ k3) hn3pos (by omega) (by omega)]
  set m3 := (roundPos 53 n3 (2 ^ k3)).1 with hm3
  set e3 := (roundPos 53 n3 (2 ^ k3)).2 with he3
  -- math.Round
  have hneg : ¬ (0 ≤ e3) := by omega
  have hround : F64.round (.fin false m3 e3) =
      F64.ofRat false ((m3 + 2 ^ ((-e3).toNat - 1)) / 2 ^ (-e3).toNat) 1 := by
    simp [F64.round, hneg]
  rw [hround]
  have hy3 : (m3 : ℚ) / (2 : ℚ) ^ (-e3).toNat = val (roundPos 53 n3 (2 ^ k3)) := by
    have := div_pow_eq m3 e3 (by omega)
    push_cast at this
    rw [this]; rfl
  have hnear := hclose (val (roundPos 53 n3 (2 ^ k3))) herr3
  rw [← hy3] at hnear
  rw [round_half m3 (-e3).toNat s (by omega) hnear]
  obtain ⟨m, e, hfin, hval, hele, _⟩ := ofNat_exact s hs0 hs
  rw [hfin]
  exact toUInt64_of_exact hval hele hs0 (by omega)


/-- `SatsToBitcoins s` for `1 ≤ s ≤ 21·10^14`: a normal double `m2·2^e2` reached through the 64-bit
    intermediate `x1` -/
theorem satsToBitcoins_form (s : ℕ) (hs0 : 0 < s) (hs : s ≤ 2100000000000000) :
    ∃ (m2 : ℕ) (e2 : ℤ) (x1 : ℚ), satsToBitcoins s = .fin false m2 e2 ∧ 0 < m2 ∧ e2 ≤ -26 ∧
      |x1 - (s : ℚ) / 100000000| ≤ (s : ℚ) / 100000000 / 2 ^ 64 ∧
      |(m2 : ℚ) * (2 : ℚ) ^ e2 - x1| ≤ x1 / 2 ^ 53 := by
  have hsq0 : (1 : ℚ) ≤ s := by exact_mod_cast hs0
  have hsq : (s : ℚ) ≤ 2100000000000000 := by exact_mod_cast hs
  obtain ⟨hm1a, hm1b, herr1⟩ := roundPos_spec 64 s 100000000 (by norm_num) hs0 (by norm_num)
  set m1 := (roundPos 64 s 100000000).1 with hm1
  set e1 := (roundPos 64 s 100000000).2 with he1
  have hcast : ((100000000 : ℕ) : ℚ) = 100000000 := by norm_num
  rw [hcast] at herr1
  have hval1 : val (roundPos 64 s 100000000) = (m1 : ℚ) * (2 : ℚ) ^ e1 := rfl
  rw [hval1] at herr1
  obtain ⟨hb1, hb2⟩ := exp_bounds (p := 64) (K := 25) (K' := -27) (by norm_num) hm1a hm1b herr1
    (by rw [show (2 : ℚ) ^ (-27 : ℤ) = 1 / 134217728 by norm_num]; linarith)
    (by rw [show (2 : ℚ) ^ (25 : ℤ) = 33554432 by norm_num]; linarith)
  -- second rounding: Float64()
  have hs2b : satsToBitcoins s = F64.ofRat false m1 (2 ^ (-e1).toNat) := by
    have hne : ¬ s = 0 := by omega
    have hneg : ¬ (0 ≤ e1) := by omega
    simp only [satsToBitcoins, hne, if_false, bigToF64, bigQuo64, F64.ofScaled]
    have hspb : satoshisPerBitcoin = 100000000 := rfl
    rw [hspb]
    simp [← he1, ← hm1, hneg]
  have hm1pos : 0 < m1 := lt_of_lt_of_le (Nat.two_pow_pos _) hm1a
  obtain ⟨hm2a, hm2b, herr2⟩ := roundPos_spec 53 m1 (2 ^ (-e1).toNat) (by norm_num) hm1pos (Nat.two_pow_pos _)
  rw [div_pow_eq m1 e1 (by omega)] at herr2
  set x1 := (m1 : ℚ) * (2 : ℚ) ^ e1 with hx1
  obtain ⟨h1a, h1b⟩ := abs_le.mp herr1
  have hx1lo : (1 : ℚ) / 268435456 ≤ x1 := by
    have : (s : ℚ) / 100000000 / 2 ^ 64 ≤ (s : ℚ) / 100000000 / 2 := by
      apply div_le_div_of_nonneg_left (by positivity) (by norm_num) (by norm_num)
    linarith
  have hx1hi : x1 < 67108864 := by
    have : (s : ℚ) / 100000000 / 2 ^ 64 ≤ (s : ℚ) / 100000000 / 2 := by
      apply div_le_div_of_nonneg_left (by positivity) (by norm_num) (by norm_num)
    linarith
  obtain ⟨hc1, hc2⟩ := exp_bounds (p := 53) (K := 26) (K' := -28) (by norm_num) hm2a hm2b
    (by simpa [val] using herr2)
    (by rw [show (2 : ℚ) ^ (-28 : ℤ) = 1 / 268435456 by norm_num]; exact hx1lo)
    (by rw [show (2 : ℚ) ^ (26 : ℤ) = 67108864 by norm_num]; exact hx1hi)
  refine ⟨(roundPos 53 m1 (2 ^ (-e1).toNat)).1, (roundPos 53 m1 (2 ^ (-e1).toNat)).2, x1, ?_, ?_, by omega, herr1, ?_⟩
  · rw [hs2b]
    exact ofRat_normal false m1 _ hm1pos (by omega) (by omega)
  · exact lt_of_lt_of_le (Nat.two_pow_pos _) hm2a
  · simpa [val] using herr2

set_option exponentiation.threshold 3000 in
theorem sats_roundtrip_zero : bitcoinsToSats (satsToBitcoins 0) = some 0 := by decide

/-- satoshi → BTC → satoshi is the identity on the whole monetary range -/
theorem sats_roundtrip (s : ℕ) (hs : s ≤ 2100000000000000) : bitcoinsToSats (satsToBitcoins s) = some s := by
  by_cases hs0 : s = 0
  · subst hs0; exact sats_roundtrip_zero
  have hspos : 0 < s := by omega
  obtain ⟨m2, e2, x1, hform, hm2, he2, h1, h2⟩ := satsToBitcoins_form s hspos hs
  rw [hform]
  have hsq0 : (1 : ℚ) ≤ s := by exact_mod_cast hspos
  have hsq : (s : ℚ) ≤ 2100000000000000 := by exact_mod_cast hs
  obtain ⟨h1a, h1b⟩ := abs_le.mp h1
  obtain ⟨h2a, h2b⟩ := abs_le.mp h2
  set x2 := (m2 : ℚ) * (2 : ℚ) ^ e2 with hx2
  have e64 : (2 : ℚ) ^ 64 = 18446744073709551616 := by norm_num
  have e53 : (2 : ℚ) ^ 53 = 9007199254740992 := by norm_num
  rw [e64] at h1a h1b
  rw [e53] at h2a h2b
  apply bitcoinsToSats_of_near m2 e2 s hspos (by omega) hm2 (by omega)
  · linarith
  · rw [show (2 : ℚ) ^ (51 : ℤ) = 2251799813685248 by norm_num]; linarith
  · intro y3 hy3
    rw [e53] at hy3
    obtain ⟨h3a, h3b⟩ := abs_le.mp hy3
    rw [abs_lt]
    constructor <;> linarith


/-- `RoundBitcoins` leaves a value produced by `SatsToBitcoins` alone -/
theorem roundBitcoins_fixed (s : ℕ) (hs : s ≤ 2100000000000000) :
    roundBitcoins (satsToBitcoins s) = some (satsToBitcoins s) := by
  simp [roundBitcoins, sats_roundtrip s hs]

/-- a BTC amount written with up to 8 decimals (`k/10^8`, `k ≤ 21·10^14`), held as the nearest double,
    converts to exactly `k` satoshis -/
theorem decimal_to_sats (k : ℕ) (hk : k ≤ 2100000000000000) :
    bitcoinsToSats (F64.ofRat false k 100000000) = some k := by
  by_cases hk0 : k = 0
  · subst hk0; exact sats_roundtrip_zero
  have hkpos : 0 < k := by omega
  have hkq0 : (1 : ℚ) ≤ k := by exact_mod_cast hkpos
  have hkq : (k : ℚ) ≤ 2100000000000000 := by exact_mod_cast hk
  obtain ⟨hma, hmb, herr⟩ := roundPos_spec 53 k 100000000 (by norm_num) hkpos (by norm_num)
  have hcast : ((100000000 : ℕ) : ℚ) = 100000000 := by norm_num
  rw [hcast] at herr
  have hval : val (roundPos 53 k 100000000) =
      ((roundPos 53 k 100000000).1 : ℚ) * (2 : ℚ) ^ (roundPos 53 k 100000000).2 := rfl
  rw [hval] at herr
  obtain ⟨hb1, hb2⟩ := exp_bounds (p := 53) (K := 25) (K' := -27) (by norm_num) hma hmb herr
    (by rw [show (2 : ℚ) ^ (-27 : ℤ) = 1 / 134217728 by norm_num]; linarith)
    (by rw [show (2 : ℚ) ^ (25 : ℤ) = 33554432 by norm_num]; linarith)
  rw [ofRat_normal false k 100000000 hkpos (by omega) (by omega)]
  obtain ⟨ha, hb⟩ := abs_le.mp herr
  have e53 : (2 : ℚ) ^ 53 = 9007199254740992 := by norm_num
  rw [e53] at ha hb
  apply bitcoinsToSats_of_near _ _ k hkpos (by omega) (lt_of_lt_of_le (Nat.two_pow_pos _) hma) (by omega)
  · linarith
  · rw [show (2 : ℚ) ^ (51 : ℤ) = 2251799813685248 by norm_num]; linarith
  · intro y3 hy3
    rw [e53] at hy3
    obtain ⟨h3a, h3b⟩ := abs_le.mp hy3
    rw [abs_lt]
    constructor <;> linarith

end BtcVerif.Proofs.F64Sats
