/- C16 helper lemmas, part 5: unordered streaming — every height of the range is handed over by exactly one worker, at most once; a clean end of stream means all of them were. -/
import BtcVerif.Proofs.StreamOrdered
namespace BtcVerif.Model.Stream
open BtcVerif.Gen.Guards

theorem mod_window {a b p : Nat} (hab : a ≤ b) (hlt : b < a + p) (hm : a % p = b % p) : a = b := by
  have h0 : (b - a) % p = 0 := Nat.sub_mod_eq_zero_of_mod_eq hm.symm
  have h1 : (b - a) % p = b - a := Nat.mod_eq_of_lt (by omega)
  omega

/-- the residue class of a worker's height -/
theorem wok_residue {P : Params} {i : Nat} {w : Worker} (h : WOk P i w) (hi : i < P.p) :
    (w.pos - P.base) % P.p = i := by
  obtain ⟨h1, h2, _⟩ := h
  have : w.pos - P.base = (w.pos - (P.base + i)) + i := by omega
  rw [this, Nat.add_mod, h2, Nat.zero_add, Nat.mod_mod, Nat.mod_eq_of_lt hi]

structure Inv3 (P : Params) (s : State) : Prop where
  nd : (handed s).Nodup
  ch : ∀ h, h ∈ handed s ↔ (P.lo ≤ h ∧ h ≤ P.hi ∧ ∃ w, s.workers[(h - P.lo) % P.p]? = some w ∧ h < w.pos)
  wd : ∀ (i : Nat) (w : Worker), s.workers[i]? = some w → w.ph = .done → P.hi < w.pos ∨ s.cancel0 = true ∨ 0 < errHanded s
  ec : (s.cph = .gotEnd ∨ s.ended = true) → s.closed = true
  en : s.ended = true → s.cph = .finished

theorem base_unordered {P : Params} (hm : P.mode = .unordered) : P.base = P.lo := by simp [Params.base, hm]

theorem inv3_init {P : Params} (hm : P.mode = .unordered) : Inv3 P (init P) := by
  refine ⟨by simp [init, handed], ?_, ?_, by simp [init], by simp [init]⟩
  · intro h
    simp only [init, handed, List.append_nil, List.not_mem_nil, false_iff, not_and, not_exists]
    intro h1 h2 w hw
    obtain ⟨hlt, rfl⟩ := initWorkers_get hw
    simp only [initWorker, base_unordered hm]
    have := Nat.mod_le (h - P.lo) P.p
    omega
  · intro i w hw hd
    obtain ⟨hlt, rfl⟩ := initWorkers_get hw
    simp only [init, initWorker, hm, decide_true, if_true] at hd ⊢
    left
    by_cases h : P.base + i ≤ P.hi
    · simp [h] at hd
    · omega

theorem exists_set_samepos {ws : List Worker} {j : Nat} {w w' : Worker} (hw : ws[j]? = some w)
    (hp : w'.pos = w.pos) (k h : Nat) :
    (∃ v, (ws.set j w')[k]? = some v ∧ h < v.pos) ↔ (∃ v, ws[k]? = some v ∧ h < v.pos) := by
  rw [List.getElem?_set]
  by_cases hjk : j = k
  · subst hjk
    have hlt : j < ws.length := by
      rcases List.getElem?_eq_some_iff.mp hw with ⟨h, _⟩; exact h
    simp only [if_true, hlt, hw, Option.some.injEq, exists_eq_left']
    rw [hp]
  · simp [hjk]

theorem wd_set {ws : List Worker} {j : Nat} {w' : Worker} {c : Worker → Prop}
    (hwd : ∀ (i : Nat) (w : Worker), ws[i]? = some w → w.ph = .done → c w)
    (hw' : w'.ph = .done → c w') :
    ∀ (i : Nat) (w : Worker), (ws.set j w')[i]? = some w → w.ph = .done → c w := by
  intro i w hi hd
  rw [List.getElem?_set] at hi
  split at hi
  · split at hi
    · simp only [Option.some.injEq] at hi; subst hi; exact hw' hd
    · simp at hi
  · exact hwd i w hi hd

set_option maxHeartbeats 1600000 in
theorem inv3_step {P : Params} (hP : P.lo ≤ P.hi) (hm : P.mode = .unordered) {s l s'}
    (h1 : Inv1 P s) (h : Inv3 P s) (hst : Step P s l s') : Inv3 P s' := by
  obtain ⟨_, hI⟩ := step_inv hst
  obtain ⟨hnd, hch, hwd, hec, hen⟩ := h
  have hun := h1.un hm
  have hc1 : s.cancel1 = false := by
    cases hc : s.cancel1
    · rfl
    · have := (h1.c1 (.inl hc)).1; simp [hm] at this
  have hb := base_unordered hm
  cases hI with
  | wLocal i w ph' l hw hl =>
    refine ⟨by simpa [setW, handed] using hnd, ?_, ?_, by simpa [setW] using hec, by simpa [setW] using hen⟩
    · intro h
      simp only [setW, handed] at hch ⊢
      rw [hch h, exists_set_samepos (w' := { w with ph := ph' }) hw rfl]
    · simp only [setW]
      refine wd_set (c := fun w => P.hi < w.pos ∨ s.cancel0 = true ∨ 0 < errHanded s) hwd ?_
      intro hd
      cases hl <;> simp_all [State.workerCtxDone]
  | wGiveC i w g hw hp hm' hc =>
    have hwok := h1.wok i w hw
    have hilt : i < P.p := by
      rcases List.getElem?_eq_some_iff.mp hw with ⟨h, _⟩; rw [← h1.len]; exact h
    have hres := wok_residue hwok hilt
    rw [hb] at hres
    have hle : w.pos ≤ P.hi := hwok.2.2 (by simp [hp]) (by simp [hp])
    have hlo : P.lo ≤ w.pos := by have := hwok.1; rw [hb] at this; omega
    have hold : handed s = s.delivered := by simp [handed, hc]
    have hnew : ∀ h, h ∈ s.delivered ++ [w.pos] ↔
        (P.lo ≤ h ∧ h ≤ P.hi ∧ ∃ v, (s.workers.set i (advance P w))[(h - P.lo) % P.p]? = some v ∧ h < v.pos) := by
      intro h
      rw [List.mem_append, List.mem_singleton, ← hold, hch h, List.getElem?_set]
      by_cases hk : i = (h - P.lo) % P.p
      · have hlt : i < s.workers.length := by rw [h1.len]; exact hilt
        rw [← hk]
        simp only [if_true, hlt, hw, Option.some.injEq, exists_eq_left', advance]
        constructor
        · rintro (⟨a, b, c⟩ | rfl)
          · exact ⟨a, b, by omega⟩
          · exact ⟨hlo, hle, by omega⟩
        · rintro ⟨a, b, c⟩
          by_cases hlt' : h < w.pos
          · exact .inl ⟨a, b, hlt'⟩
          · right
            have := mod_window (a := w.pos - P.lo) (b := h - P.lo) (p := P.p) (by omega) (by omega) (by rw [hres, hk])
            omega
      · simp only [hk, if_false]
        constructor
        · rintro (h | rfl)
          · exact h
          · exact absurd hres.symm hk
        · intro h; exact .inl h
    refine ⟨?_, ?_, ?_, fun h => hec (.inr (by simpa [setW] using h)),
      fun h => by have := hen (by simpa [setW] using h); simp_all⟩
    · simp only [setW, handed]
      rw [List.nodup_append]
      refine ⟨by simpa [hold] using hnd, by simp, ?_⟩
      intro a ha b hb' hab
      rw [List.mem_singleton] at hb'
      rw [hab, hb'] at ha
      have := (hch w.pos).mp (by rw [hold]; exact ha)
      obtain ⟨_, _, v, hv, hlt⟩ := this
      rw [hres, hw] at hv
      simp only [Option.some.injEq] at hv; subst hv; omega
    · simpa [setW, handed] using hnew
    · simp only [setW]
      refine wd_set (c := fun v => P.hi < v.pos ∨ s.cancel0 = true ∨ 0 < errHanded _)
        (fun i w a b => by simpa [errHanded, hc] using hwd i w a b) ?_
      intro hd; left
      simp only [advance] at hd ⊢
      by_cases h : w.pos + P.p ≤ P.hi
      · simp [h] at hd
      · omega
  | wErrC i w hw hp hm' hc =>
    refine ⟨by simpa [setW, handed, hc] using hnd, ?_, ?_, fun h => hec (.inr (by simpa [setW] using h)),
      fun h => by have := hen (by simpa [setW] using h); simp_all⟩
    · intro h
      have := hch h
      simp only [setW, handed, hc] at this ⊢
      rw [this, exists_set_samepos (w' := { w with ph := .done }) hw rfl]
    · simp only [setW]
      refine wd_set (c := fun v => P.hi < v.pos ∨ s.cancel0 = true ∨ 0 < errHanded _)
        (fun i w a b => ?_) (fun _ => ?_) <;> (right; right; simp [errHanded])
  | closer hs hc hall =>
    exact ⟨by simpa [handed] using hnd, by simpa [handed] using hch, by simpa [errHanded] using hwd, fun _ => rfl, hen⟩
  | wGiveR i w g hw hp hm' hr => exact absurd hm hm'
  | wErrR i w hw hp hm' hr => exact absurd hm hm'
  | rF0 hr | rF1ok hr | rF1err hr | rF1b hr | rF2err hr | rLoopCancel hr hc | rLoopClosed hr hc
  | rRelSend hr h1' h2' | rRelErr hr h1' h2' | rSnd h hr hc | rSendErr hr hc | rF2ok hr | rF2nolink hr
  | rS0 hr hc | rRelLoop hr hc1' hc2' => simp [hun.1] at hr
  | cRetOk hc hm' hn => simp [hm] at hm'
  | cRetErr hc hm' => simp [hm] at hm'
  | cCall hc hm' | cSeeEnd hc hx | cDeliver h hc | cErr hc hm' | cEnd hc hm' | envCancel hc =>
    refine ⟨?_, ?_, ?_, ?_, ?_⟩ <;> simp_all [handed, errHanded, State.streamClosed] <;> try assumption

theorem reachable_inv3 {P : Params} (hP : P.lo ≤ P.hi) (hm : P.mode = .unordered) {s} (hr : Reachable P s) :
    Inv3 P s := by
  induction hr with
  | init => exact inv3_init hm
  | step hr' hst ih => exact inv3_step hP hm (reachable_inv1 hP hr') ih hst

theorem unordered_exactly_once_thm {P : Params} (hP : P.lo ≤ P.hi) (hm : P.mode = .unordered) {s}
    (hr : Reachable P s) : s.delivered.Nodup ∧ ∀ h ∈ s.delivered, P.lo ≤ h ∧ h ≤ P.hi := by
  have h3 := reachable_inv3 hP hm hr
  have hnd := h3.nd
  simp only [handed] at hnd
  refine ⟨(List.nodup_append.mp hnd).1, ?_⟩
  intro h hh
  have := (h3.ch h).mp (by simp [handed, hh])
  exact ⟨this.1, this.2.1⟩

theorem unordered_complete_thm {P : Params} (hP : P.lo ≤ P.hi) (hm : P.mode = .unordered) (hp : 0 < P.p) {s}
    (hr : Reachable P s) (he : s.ended = true) (hc : s.cancel0 = false) (herr : s.errs = 0) :
    s.delivered.Perm (fullRange P) := by
  have h1 := reachable_inv1 hP hr
  have h3 := reachable_inv3 hP hm hr
  have hfin := h3.en he
  have hall := (allDone_iff _).mp (h1.cd (h3.ec (.inr he)))
  have hd : handed s = s.delivered := by simp [handed, hfin]
  unfold fullRange
  rw [List.perm_ext_iff_of_nodup (unordered_exactly_once_thm hP hm hr).1 (List.nodup_range')]
  intro h
  rw [← hd, h3.ch h, List.mem_range'_1]
  constructor
  · rintro ⟨a, b, _⟩; omega
  · intro hh
    refine ⟨hh.1, by omega, ?_⟩
    have hlt : (h - P.lo) % P.p < s.workers.length := by rw [h1.len]; exact Nat.mod_lt _ hp
    refine ⟨s.workers[(h - P.lo) % P.p], by simp [hlt], ?_⟩
    have hw : s.workers[(h - P.lo) % P.p]? = some s.workers[(h - P.lo) % P.p] := by simp [hlt]
    rcases h3.wd _ _ hw (hall _ _ hw) with h' | h' | h'
    · omega
    · simp [hc] at h'
    · simp [errHanded, hfin, herr] at h'

end BtcVerif.Model.Stream
