/- C16 helper lemmas, part 1: membership lemmas of the step function and soundness of the executable trace validator. -/
import BtcVerif.Model.Stream

namespace BtcVerif.Model.Stream

theorem mem_alt {α} {c : Bool} {x y : α} : y ∈ alt c x ↔ c = true ∧ y = x := by
  unfold alt; split <;> simp_all

theorem mem_forWorkersFrom {α} (f : Nat → Worker → List α) (x : α) :
    ∀ (ws : List Worker) (k : Nat), x ∈ forWorkersFrom f k ws ↔ ∃ i w, ws[i]? = some w ∧ x ∈ f (k + i) w := by
  intro ws
  induction ws with
  | nil => intro k; simp [forWorkersFrom]
  | cons w ws ih =>
    intro k
    simp only [forWorkersFrom, List.mem_append, ih]
    constructor
    · rintro (h | ⟨i, w', hw, hx⟩)
      · exact ⟨0, w, by simp, by simpa using h⟩
      · exact ⟨i + 1, w', by simpa using hw, by rw [← Nat.add_assoc, Nat.add_right_comm]; exact hx ⟩
    · rintro ⟨i, w', hw, hx⟩
      cases i with
      | zero => left; simp at hw; subst hw; simpa using hx
      | succ i => right; exact ⟨i, w', by simpa using hw, by rw [Nat.add_assoc, Nat.add_comm 1 i]; exact hx⟩

theorem mem_forWorkers {α} (f : Nat → Worker → List α) (x : α) (ws : List Worker) :
    x ∈ forWorkers ws f ↔ ∃ i w, ws[i]? = some w ∧ x ∈ f i w := by
  simp [forWorkers, mem_forWorkersFrom]

theorem mem_tauSucc {P s t} : t ∈ tauSucc P s ↔ Step P s none t := by
  unfold tauSucc Step
  simp only [List.mem_filterMap]
  constructor
  · rintro ⟨⟨l, u⟩, hm, hx⟩
    simp only at hx
    split at hx
    · rename_i hl; simp only [Option.some.injEq] at hx; subst hx; subst hl; exact hm
    · simp at hx
  · intro h; exact ⟨(none, t), h, by simp⟩

theorem mem_visSucc {P e s t} : t ∈ visSucc P e s ↔ Step P s (some e) t := by
  unfold visSucc Step
  simp only [List.mem_filterMap]
  constructor
  · rintro ⟨⟨l, u⟩, hm, hx⟩
    simp only at hx
    split at hx
    · rename_i hl; simp only [Option.some.injEq] at hx; subst hx; subst hl; exact hm
    · simp at hx
  · intro h; exact ⟨(some e, t), h, by simp⟩

theorem TauStar.trans {P s t u} (h1 : TauStar P s t) (h2 : TauStar P t u) : TauStar P s u := by
  induction h2 with
  | refl => exact h1
  | tail _ hs ih => exact TauStar.tail ih hs

theorem Trace.tau_prepend {P s t es v} (h1 : TauStar P s t) (h2 : Trace P t es v) : Trace P s es v := by
  cases h2 with
  | nil h => exact Trace.nil (h1.trans h)
  | cons ht hs hr => exact Trace.cons (h1.trans ht) hs hr

theorem mem_addNew {xs seen acc : List State} {x} (h : x ∈ addNew xs seen acc) : x ∈ xs ∨ x ∈ acc := by
  induction xs generalizing acc with
  | nil => right; simpa [addNew] using h
  | cons y ys ih =>
    unfold addNew at h
    split at h
    · rcases ih h with h | h
      · left; exact List.mem_cons_of_mem _ h
      · right; exact h
    · rcases ih h with h | h
      · left; exact List.mem_cons_of_mem _ h
      · rcases List.mem_cons.mp h with h | h
        · left; subst h; exact List.mem_cons_self
        · right; exact h

theorem closureAux_sound (P : Params) (R : State → Prop) (hR : ∀ s t, R s → Step P s none t → R t) :
    ∀ (k : Nat) (frontier seen : List State), (∀ x ∈ frontier, R x) → (∀ x ∈ seen, R x) →
      ∀ x ∈ closureAux P k frontier seen, R x := by
  intro k
  induction k with
  | zero => intro f s _ hs x hx; exact hs x (by simpa [closureAux] using hx)
  | succ k ih =>
    intro f s hf hs x hx
    unfold closureAux at hx
    simp only at hx
    have hnew : ∀ y ∈ addNew (f.flatMap (tauSucc P)) s [], R y := by
      intro y hy
      rcases mem_addNew hy with h | h
      · rcases List.mem_flatMap.mp h with ⟨z, hz, hyz⟩
        exact hR z y (hf z hz) (mem_tauSucc.mp hyz)
      · simp at h
    split at hx
    · exact hs x hx
    · refine ih _ _ hnew ?_ x hx
      intro y hy
      rcases List.mem_append.mp hy with h | h
      · exact hnew y h
      · exact hs y h

theorem closure_sound (P : Params) (S : List State) : ∀ x ∈ closure P S, ∃ s ∈ S, TauStar P s x := by
  intro x hx
  unfold closure at hx
  have h0 : ∀ y ∈ addNew S [] [], ∃ s ∈ S, TauStar P s y := by
    intro y hy
    rcases mem_addNew hy with h | h
    · exact ⟨y, h, TauStar.refl y⟩
    · simp at h
  exact closureAux_sound P (fun x => ∃ s ∈ S, TauStar P s x)
    (fun s t ⟨r, hr, hrs⟩ hst => ⟨r, hr, TauStar.tail hrs hst⟩) _ _ _ h0 h0 x hx

theorem runTrace_sound (P : Params) : ∀ (es : List Event) (S : List State) (i : Nat) (S' : List State),
    runTrace P S i es = .ok S' → ∀ x ∈ S', ∃ s ∈ S, Trace P s es x := by
  intro es
  induction es with
  | nil =>
    intro S i S' h x hx
    simp only [runTrace, Except.ok.injEq] at h
    subst h
    exact ⟨x, hx, Trace.nil (TauStar.refl x)⟩
  | cons e es ih =>
    intro S i S' h x hx
    unfold runTrace at h
    simp only at h
    split at h
    · cases h
    · rcases ih _ _ _ h x hx with ⟨u', hu', htr⟩
      rcases closure_sound P _ u' hu' with ⟨u, hu, htau⟩
      rcases List.mem_flatMap.mp hu with ⟨s, hs, hsu⟩
      exact ⟨s, hs, Trace.cons (TauStar.refl s) (mem_visSucc.mp hsu) (Trace.tau_prepend htau htr)⟩

/-- every event sequence the executable validator accepts is a trace of the transition system -/
theorem validTrace_sound (P : Params) (es : List Event) (h : validTrace P es = true) :
    ∃ t, Trace P (init P) es t := by
  unfold validTrace at h
  split at h
  · rename_i S hS
    cases S with
    | nil => simp at h
    | cons x xs =>
      rcases runTrace_sound P es _ _ _ hS x List.mem_cons_self with ⟨s, hs, htr⟩
      rcases closure_sound P _ s hs with ⟨s0, hs0, htau⟩
      simp only [List.mem_singleton] at hs0
      subst hs0
      exact ⟨x, Trace.tau_prepend htau htr⟩
  · simp at h

end BtcVerif.Model.Stream
