import BtcVerif.Props.C08
import BtcVerif.Model.Address

/-! C17: `address.Decode` never panics (the Base58Check and Bech32 decoders do not, the payload
    indexing is guarded by the length tests, and only 20/32-byte programs are pushed). -/
namespace BtcVerif.Model.Address
open BtcVerif BtcVerif.Model
open BtcVerif.Gen BtcVerif.Gen.Guards

theorem pushData_small (d : Bytes) (h : d.length ≤ 75) : ∃ p, pushData d = .ok p := by
  unfold pushData
  have : script_PushData_0 (dataSize := d.length) = true := by
    simp [script_PushData_0, constants_OP_DATA_75]; omega
  simp [this]

theorem scriptP2SH_small (d : Bytes) (h : d.length ≤ 75) : scriptP2SH d ≠ .panic := by
  obtain ⟨p, hp⟩ := pushData_small d h
  unfold scriptP2SH
  rw [hp]; simp

theorem scriptP2PKH_small (d : Bytes) (h : d.length ≤ 75) : scriptP2PKH d ≠ .panic := by
  obtain ⟨p, hp⟩ := pushData_small d h
  unfold scriptP2PKH
  rw [hp]; simp

theorem scriptWitness_small (d : Bytes) (h : d.length ≤ 75) : scriptWitness d ≠ .panic := by
  obtain ⟨p, hp⟩ := pushData_small d h
  unfold scriptWitness
  rw [hp]; simp

theorem map_ne_panic {α β} (f : α → β) (o : Outcome α) (h : o ≠ .panic) : o.map f ≠ .panic := by
  cases o <;> simp_all [Outcome.map]

/-- a successful Base58 address decode yields a 20-byte hash -/
theorem decodeBase58Address_spec (hs : Hashes) (s : Bytes) :
    decodeBase58Address hs s ≠ .panic ∧
    ∀ v h, decodeBase58Address hs s = .ok (v, h) → h.length = 20 := by
  unfold decodeBase58Address
  have hb := BtcVerif.Props.C08.b58c_no_panic hs.cksum s
  cases hd : Base58Check.decode hs.cksum s with
  | err => simp
  | panic => exact absurd hd hb
  | ok payload =>
    simp only
    by_cases g0 : address_DecodeBase58Address_0 (len_payload := payload.length) = true
    · simp [g0]
    · simp only [g0, Bool.false_eq_true, ite_false]
      have hlen : payload.length = 21 ∨ payload.length = 22 := by
        simp [address_DecodeBase58Address_0] at g0; omega
      cases payload with
      | nil => simp at hlen
      | cons v0 rest =>
        simp only
        by_cases g1 : address_DecodeBase58Address_1 (len_payload := rest.length) = true
        · have hr : rest.length = 21 := by simp [address_DecodeBase58Address_1] at g1; omega
          simp only [g1, ite_true]
          by_cases g2 : address_DecodeBase58Address_2 (version := v0.toNat) = true
          · simp [g2]
          · simp only [g2, Bool.false_eq_true, ite_false]
            cases rest with
            | nil => simp at hr
            | cons v1 rest' =>
              refine ⟨by simp, ?_⟩
              intro v h he
              injection he with he; injection he with _ h2
              subst h2; simp at hr; omega
        · simp only [g1, Bool.false_eq_true, ite_false]
          refine ⟨by simp, ?_⟩
          intro v h he
          injection he with he; injection he with _ h2
          subst h2
          have : rest.length ≠ 21 := by simp [address_DecodeBase58Address_1] at g1; omega
          simp at hlen; omega

theorem decodeBech32Address_spec (s : Bytes) :
    decodeBech32Address s ≠ .panic ∧
    ∀ hrp v p, decodeBech32Address s = .ok (hrp, v, p) → p.length = 20 ∨ p.length = 32 := by
  unfold decodeBech32Address
  have hb := BtcVerif.Props.C08.no_panic s
  cases hd : Bech32.decode s with
  | err => simp
  | panic => exact absurd hd hb
  | ok r =>
    obtain ⟨hrp, version, payload⟩ := r
    simp only
    by_cases g : address_DecodeBech32Address_0 (len_payload := payload.length) = true
    · simp [g]
    · simp only [g, Bool.false_eq_true, ite_false]
      refine ⟨by simp, ?_⟩
      intro h v p he
      injection he with he; injection he with _ h2; injection h2 with _ h3
      subst h3
      simp [address_DecodeBech32Address_0] at g; omega

/-- **C17**: `address.Decode` never panics, for every string and every network -/
theorem decode_ne_panic (hs : Hashes) (net : Network) (s : Bytes) : decode hs net s ≠ .panic := by
  unfold decode
  obtain ⟨h1, h2⟩ := decodeBase58Address_spec hs s
  cases hd : decodeBase58Address hs s with
  | panic => exact absurd hd h1
  | ok r =>
    obtain ⟨version, hash⟩ := r
    have hl := h2 version hash hd
    simp only
    split
    · exact map_ne_panic _ _ (scriptP2SH_small hash (by omega))
    · split
      · exact map_ne_panic _ _ (scriptP2PKH_small hash (by omega))
      · simp
  | err =>
    simp only
    obtain ⟨b1, b2⟩ := decodeBech32Address_spec s
    cases hb : decodeBech32Address s with
    | panic => exact absurd hb b1
    | err => simp
    | ok r =>
      obtain ⟨hrp, wv, program⟩ := r
      have hl := b2 hrp wv program hb
      simp only
      split
      · simp
      · split
        · simp
        · split
          · exact map_ne_panic _ _ (scriptWitness_small program (by omega))
          · split
            · exact map_ne_panic _ _ (scriptWitness_small program (by omega))
            · simp

end BtcVerif.Model.Address
