/-
  Helper lemmas for C08 (Bech32), part 4: normal forms of `Validate`, `Decode`, `Encode`, and the
  two round trips. Core Lean only.
-/
import BtcVerif.Proofs.Bech32
import BtcVerif.Proofs.Bech32Bits
import BtcVerif.Proofs.Bech32Str

namespace BtcVerif.Proofs.Bech32
open BtcVerif BtcVerif.Model BtcVerif.Model.Bech32 BtcVerif.Gen BtcVerif.Gen.Guards

/-! ### `Validate` -/

/-- what `Validate` checks, in terms of the position of the last separator -/
structure ValidAt (s : Bytes) (pos : Nat) : Prop where
  sep : Spec.Bech32.rfind sepChar s = some pos
  pos1 : 1 ≤ pos
  room : pos + 7 ≤ s.length
  max : s.length ≤ 90
  range : ∀ c ∈ s, 33 ≤ c.toNat ∧ c.toNat ≤ 126
  alpha : ∀ c ∈ s.drop (pos + 1), alphabet.contains (lowerByte c) = true
  case : s = lower s ∨ s = upper s

theorem validate_conj (s : Bytes) : validate s = true ↔
    bech32_Validate_0 (len_bechAndHrp := s.length) = false ∧
    bech32_Validate_1 (sepIndex := lastIndex sepChar s) (len_bechAndHrp := s.length) = false ∧
    validChars (lastIndex sepChar s) s 0 = true ∧ (s != lower s && s != upper s) = false := by
  unfold validate
  simp only []
  generalize bech32_Validate_0 (len_bechAndHrp := s.length) = a
  generalize bech32_Validate_1 (sepIndex := lastIndex sepChar s) (len_bechAndHrp := s.length) = b
  generalize validChars (lastIndex sepChar s) s 0 = c
  generalize (s != lower s && s != upper s) = d
  cases a <;> cases b <;> cases c <;> cases d <;> simp

theorem validate_iff (s : Bytes) : validate s = true ↔ ∃ pos, ValidAt s pos := by
  rw [validate_conj, lastIndex_eq]
  cases hr : Spec.Bech32.rfind sepChar s with
  | none =>
    simp only
    constructor
    · rintro ⟨_, h1, _⟩
      simp [bech32_Validate_1] at h1
    · rintro ⟨pos, hv⟩
      have := hv.sep
      rw [hr] at this; cases this
  | some pos =>
    simp only
    constructor
    · rintro ⟨h0, h1, h2, h3⟩
      simp only [bech32_Validate_0, bech32_Validate_1, Bool.or_eq_false_iff, decide_eq_false_iff_not] at h0 h1
      have hvc : validChars (pos : Int) s ((0 : Nat) : Int) = true := by simpa using h2
      obtain ⟨hrange, halpha⟩ := (validChars_iff pos s 0).mp hvc
      refine ⟨pos, ⟨hr, by omega, by omega, by omega, hrange, by simpa using halpha, ?_⟩⟩
      by_cases hl : s = lower s
      · exact Or.inl hl
      · right
        have hl' : (s != lower s) = true := by simpa using hl
        rw [hl', Bool.true_and] at h3
        simpa using h3
    · rintro ⟨pos', hv⟩
      have hp : pos' = pos := by
        have := hv.sep; rw [hr] at this; injection this with this; exact this.symm
      subst hp
      have := hv.room; have := hv.max; have := hv.pos1
      refine ⟨?_, ?_, ?_, ?_⟩
      · simp only [bech32_Validate_0, Bool.or_eq_false_iff, decide_eq_false_iff_not]; omega
      · simp only [bech32_Validate_1, Bool.or_eq_false_iff, decide_eq_false_iff_not]; omega
      · have := (validChars_iff pos' s 0).mpr ⟨hv.range, by simpa using hv.alpha⟩
        simpa using this
      · rcases hv.case with h | h
        · simp [← h]
        · have : (s != upper s) = false := by simp [← h]
          simp [this]

/-! ### `Decode` in normal form -/

/-- the version value read from the first 5-bit group (decode.go:133-137) -/
theorem versionOf_charBits (c0 : UInt8) : versionOf (charBits c0) = .ok (alphaIndex c0) := by
  have hlt := alphaIndex_lt c0
  unfold versionOf
  rw [charBits_eq, bitsToNat_bits5 _ hlt]
  generalize alphaIndex c0 = v at hlt
  simp only [bech32_Decode_1]
  by_cases hv : v = 0
  · subst hv
    have : Base58.natBytes 0 = [] := by rw [Base58.natBytes, Base58.natBytesAux]; simp
    simp [this]
  · have h1 : Base58.natBytes v = [UInt8.ofNat v] := by
      rw [Base58.natBytes, Base58.natBytesAux]
      simp only [hv, dite_false]
      have : v / 256 = 0 := Nat.div_eq_of_lt (by omega)
      rw [this, Base58.natBytesAux]
      have : v % 256 = v := Nat.mod_eq_of_lt (by omega)
      simp [this]
    rw [h1]
    have : (UInt8.ofNat v).toNat = v := by simp [UInt8.toNat_ofNat']; omega
    simp [this]

/-- the part of `Decode` after the checksum and length tests -/
def payloadOf (hrp bech : Bytes) : Outcome (Bytes × Nat × Bytes) :=
  match bech with
  | [] => .panic
  | c0 :: _ =>
    match regroup (((bech.take (bech.length - 6)).drop 1).map charBits) with
    | .ok d => .ok (hrp, alphaIndex c0, d)
    | .err => .err
    | .panic => .panic

theorem decode_normal (s : Bytes) (pos : Nat) (hv : ValidAt s pos) :
    decode s =
      if verifyChecksum ((lower s).take pos) (((lower s).drop (pos + 1)).map alphaIndex) = false then .err
      else if ((lower s).drop (pos + 1)).length < 8 then .err
      else payloadOf ((lower s).take pos) ((lower s).drop (pos + 1)) := by
  have hval : validate s = true := (validate_iff s).mpr ⟨pos, hv⟩
  unfold decode
  rw [hval]
  simp only [Bool.not_true, Bool.false_eq_true, if_false]
  -- separate
  have hsep : separate (lower s) = .ok ((lower s).take pos, (lower s).drop (pos + 1)) := by
    unfold separate
    rw [lastIndex_eq, rfind_lower, hv.sep]
    simp only [Int.toNat_natCast]
    have := hv.room
    have hl := lower_length s
    rw [if_neg (by omega)]
  rw [hsep]
  simp only [bech32_bechToBitGroups_0, bech32_Decode_0, List.length_map]
  generalize hbech : (lower s).drop (pos + 1) = bech
  generalize hhrp : (lower s).take pos = hrp
  by_cases hck : verifyChecksum hrp (bech.map alphaIndex) = true
  · simp only [hck, Bool.not_true, Bool.false_eq_true, if_false]
    by_cases h8 : bech.length < 8
    · have : ((bech.length : Int) < 8) := by omega
      simp [this, h8]
    · have : ¬ ((bech.length : Int) < 8) := by omega
      simp only [this, decide_false, Bool.false_eq_true, if_false, h8]
      cases hb : bech with
      | nil => rw [hb] at h8; simp at h8
      | cons c0 rest =>
        rw [← hb]
        have hmap : bech.map charBits = charBits c0 :: rest.map charBits := by rw [hb]; rfl
        rw [hmap]
        simp only
        rw [versionOf_charBits c0]
        simp only
        have hlen : (charBits c0 :: rest.map charBits).length = bech.length := by rw [hb]; simp
        have hb1 : ¬ (1 > bech.length - bech32_ChecksumSize ∨ bech32_ChecksumSize > bech.length) := by
          simp only [bech32_ChecksumSize]; omega
        rw [if_neg hb1, ← hmap]
        unfold payloadOf
        rw [hb]
        simp only [bech32_ChecksumSize, List.map_take, List.map_drop, ← hb]
        simp only [Bool.true_eq_false, if_false]
        generalize regroup _ = r
        cases r <;> rfl
  · have hck' : verifyChecksum hrp (bech.map alphaIndex) = false := by simpa using hck
    simp [hck']

/-! ### `Encode` in normal form -/

theorem charOf_ok (v : Nat) (hlt : v < 32) : charOf v = .ok (achar v) := by
  have hw : Gen.wrapS 18446744073709551616 (v : Int) = (v : Int) :=
    Gen.wrapS_of_small _ _ (by omega) (by omega)
  have : ¬ ((v : Int) ≥ 32) := by omega
  simp only [charOf, bech32_encodeValues_1, hw, this, decide_false, Bool.false_eq_true, if_false,
    (achar_facts v hlt).1]

theorem mapM'_chars (vals : List Nat) (h : ∀ v ∈ vals, v < 32) :
    mapM' charOf vals = .ok (vals.map achar) :=
  mapM'_ok _ _ _ (fun v hv => charOf_ok v (h v hv))

theorem padRight5 (bs : Bits) (hne : bs.length ≠ 0) :
    ∃ k, k < 5 ∧ padRight bs 5 = bs ++ List.replicate k false ∧ (bs.length + k) % 5 = 0 := by
  unfold padRight
  simp only [show (5 : Nat) ≠ 0 by decide, if_false]
  by_cases h : bs.length % 5 = 0
  · exact ⟨0, by decide, by simp [h, hne], by simpa using h⟩
  · refine ⟨5 - bs.length % 5, by omega, by simp [h], by omega⟩

theorem bytesToIndices_facts (data : Bytes) (hne : data ≠ []) :
    ∃ k, k < 5 ∧
      ((bytesToIndices data).map bits5).flatten = bytesToBits data ++ List.replicate k false ∧
      (∀ v ∈ bytesToIndices data, v < 32) ∧
      5 * (bytesToIndices data).length = 8 * data.length + k := by
  have hlen : (bytesToBits data).length ≠ 0 := by
    rw [bytesToBits_length]
    cases data with
    | nil => exact absurd rfl hne
    | cons _ _ => simp
  obtain ⟨k, hk, hpad, hmod⟩ := padRight5 (bytesToBits data) hlen
  refine ⟨k, hk, ?_, ?_, ?_⟩
  · unfold bytesToIndices
    simp only [bech32_BitGroupSize]
    rw [hpad, List.map_map]
    have hd : 5 ∣ (bytesToBits data ++ List.replicate k false).length :=
      Nat.dvd_of_mod_eq_zero (by simpa using hmod)
    have : (split (bytesToBits data ++ List.replicate k false) 5).map (bits5 ∘ bitsToNat) =
        split (bytesToBits data ++ List.replicate k false) 5 := by
      conv => rhs; rw [← List.map_id (split _ 5)]
      apply List.map_congr_left
      intro g hg
      exact bits5_bitsToNat g (split_length_each _ 5 (by decide) hd g hg)
    rw [this, flatten_split _ 5 (by decide)]
  · intro v hv
    unfold bytesToIndices at hv
    simp only [bech32_BitGroupSize] at hv
    rw [hpad, List.mem_map] at hv
    obtain ⟨g, hg, rfl⟩ := hv
    have hd : 5 ∣ (bytesToBits data ++ List.replicate k false).length :=
      Nat.dvd_of_mod_eq_zero (by simpa using hmod)
    have hl := split_length_each _ 5 (by decide) hd g hg
    have := bitsToNat_lt g
    rw [hl] at this
    simpa using this
  · unfold bytesToIndices
    simp only [bech32_BitGroupSize]
    rw [hpad, List.length_map]
    have hd : 5 ∣ (bytesToBits data ++ List.replicate k false).length :=
      Nat.dvd_of_mod_eq_zero (by simpa using hmod)
    rw [split_length _ 5 (by decide) hd, Nat.mul_div_cancel' hd]
    simp [bytesToBits_length]

theorem guard_Encode_0 (data : Bytes) (hne : data ≠ []) :
    bech32_Encode_0 (data_isnil := false) (len_data := data.length) = false := by
  cases data with
  | nil => exact absurd rfl hne
  | cons _ _ =>
    simp only [bech32_Encode_0, List.length_cons, Bool.false_or, decide_eq_false_iff_not]; omega

theorem guard_Encode_1 (version : Nat) (hv : version < 32) : bech32_Encode_1 (version := version) = false := by
  have hw : Gen.wrapS 18446744073709551616 (version : Int) = (version : Int) :=
    Gen.wrapS_of_small _ _ (by omega) (by omega)
  simp only [bech32_Encode_1, hw, decide_eq_false_iff_not]; omega

theorem guard_Encode_2 (lh n : Nat) (hlen : lh + 1 + n + 6 ≤ 90) :
    bech32_Encode_2 (len_hrp := lh) (len_values := n) = false := by
  simp only [bech32_Encode_2, decide_eq_false_iff_not]; omega


theorem encode_to_values (hrp : Bytes) (version : Nat) (data : Bytes) (hne : data ≠ []) (hv : version < 32)
    (hlen : hrp.length + 1 + (1 + (bytesToIndices data).length) + 6 ≤ 90) :
    encode hrp version data = encodeValues hrp (version :: bytesToIndices data) := by
  unfold encode
  rw [guard_Encode_0 data hne, guard_Encode_1 version hv]
  have h2 := guard_Encode_2 hrp.length (version :: bytesToIndices data).length
    (by simp only [List.length_cons]; omega)
  simp only [Bool.false_eq_true, if_false, h2]

theorem encodeValues_ok (hrp : Bytes) (vals : List Nat)
    (hall : ∀ v ∈ vals ++ createChecksum hrp vals, v < 32) :
    encodeValues hrp vals = .ok (hrp ++ [sepChar] ++ (vals ++ createChecksum hrp vals).map achar) := by
  unfold encodeValues
  simp only
  rw [mapM'_chars _ hall]

/-- `Encode` on its domain: the string it returns -/
theorem encode_normal (hrp : Bytes) (version : Nat) (data : Bytes) (hne : data ≠ []) (hv : version < 32)
    (hlen : hrp.length + 1 + (1 + (bytesToIndices data).length) + 6 ≤ 90) :
    encode hrp version data =
      .ok (hrp ++ [sepChar] ++
        ((version :: bytesToIndices data) ++ createChecksum hrp (version :: bytesToIndices data)).map achar) := by
  obtain ⟨k, _, _, hvals, _⟩ := bytesToIndices_facts data hne
  rw [encode_to_values hrp version data hne hv hlen]
  apply encodeValues_ok
  intro v hm
  rw [List.mem_append] at hm
  rcases hm with hm | hm
  · simp only [List.mem_cons] at hm
    rcases hm with hm | hm
    · subst hm; exact hv
    · exact hvals v hm
  · exact createChecksum_lt _ _ v hm

end BtcVerif.Proofs.Bech32
